/-
  Proofs/Lemmas/XmlScope.lean — C09 step (c), scopes: the adapter re-binds the prefix `xml` on
  every element before the element's own declarations; the specification (`Xml.model`) inherits
  the `xml` binding from the parent scope.  Both give the same set of bindings.
-/
import Proofs.Lemmas.XmlSpec
import Proofs.Lemmas.StoreScope

namespace Xsel.XmlL
open Xsel Xsel.Xml Xsel.Spec Xsel.StoreL

theorem xmlNsUri_isEmpty : xmlNsUri.isEmpty = false := by decide

theorem bind_nodup (p u : Chars) {sc : List (Chars × Chars)} (h : NodupP sc) :
    NodupP (Spec.bind p u sc) := by
  have hf : NodupP (sc.filter (fun b => b.1 != p)) := List.Pairwise.filter _ h
  simp only [Spec.bind]
  split
  · exact hf
  · refine List.pairwise_cons.mpr ⟨?_, hf⟩
    intro y hy
    have := (List.mem_filter.mp hy).2
    simp only [bne_iff_ne, ne_eq] at this
    exact fun e => this e.symm

/-- binding a pair the scope already contains only moves it to the front -/
theorem bind_self_perm (p u : Chars) (hu : u.isEmpty = false) :
    ∀ {sc : List (Chars × Chars)}, NodupP sc → (p, u) ∈ sc → (Spec.bind p u sc).Perm sc
  | [], _, hm => by cases hm
  | x :: t, hn, hm => by
    have hc := List.pairwise_cons.mp hn
    by_cases hx : x = (p, u)
    · subst hx
      have ht : t.filter (fun b => b.1 != p) = t := by
        apply List.filter_eq_self.mpr
        intro y hy
        have : p ≠ y.1 := hc.1 y hy
        simp only [bne_iff_ne, ne_eq]
        exact fun e => this e.symm
      simp [Spec.bind, hu, ht]
    · have hm' : (p, u) ∈ t := by
        rcases List.mem_cons.mp hm with h | h
        · exact absurd h.symm hx
        · exact h
      have hne : x.1 ≠ p := hc.1 (p, u) hm'
      have ih := bind_self_perm p u hu hc.2 hm'
      have hb : (x.1 != p) = true := by simpa using hne
      simp only [Spec.bind, hu, Bool.false_eq_true, if_false] at ih ⊢
      rw [List.filter_cons_of_pos (p := fun b => b.1 != p) (a := x) hb]
      exact (List.Perm.swap x (p, u) _).trans (ih.cons x)

theorem bind_mem_xml (p u : Chars) {sc : List (Chars × Chars)} (h : (xmlC, xmlNsUri) ∈ sc)
    (hd : (p != xmlC || u == xmlNsUri) = true) : (xmlC, xmlNsUri) ∈ Spec.bind p u sc := by
  by_cases hp : p = xmlC
  · have hu : u = xmlNsUri := by simpa [hp] using hd
    subst hp hu
    simp [Spec.bind, xmlNsUri_isEmpty]
  · have : (xmlC, xmlNsUri) ∈ sc.filter (fun b => b.1 != p) := by
      refine List.mem_filter.mpr ⟨h, ?_⟩
      simp only [bne_iff_ne, ne_eq]
      exact fun e => hp e.symm
    simp only [Spec.bind]
    split
    · exact this
    · exact List.mem_cons_of_mem _ this

theorem scopeOf_nil (sc : List (Chars × Chars)) : scopeOf sc [] = sc := rfl

theorem scopeOf_cons (sc : List (Chars × Chars)) (pu : Chars × Chars) (t : List (Chars × Chars)) :
    scopeOf sc (pu :: t) = scopeOf (Spec.bind pu.1 pu.2 sc) t := rfl

theorem scopeOf_perm : ∀ (decls : List (Chars × Chars)) {sc sc' : List (Chars × Chars)},
    sc.Perm sc' → (scopeOf sc decls).Perm (scopeOf sc' decls)
  | [], _, _, h => h
  | pu :: t, _, _, h => by
    rw [scopeOf_cons, scopeOf_cons]
    exact scopeOf_perm t (bind_perm pu.1 pu.2 h)

theorem scopeOf_nodup : ∀ (decls : List (Chars × Chars)) {sc : List (Chars × Chars)},
    NodupP sc → NodupP (scopeOf sc decls)
  | [], _, h => h
  | pu :: t, _, h => by
    rw [scopeOf_cons]
    exact scopeOf_nodup t (bind_nodup pu.1 pu.2 h)

theorem scopeOf_mem_xml : ∀ (decls : List (Chars × Chars)) {sc : List (Chars × Chars)},
    decls.all wfDecl = true → (xmlC, xmlNsUri) ∈ sc → (xmlC, xmlNsUri) ∈ scopeOf sc decls
  | [], _, _, h => h
  | pu :: t, _, hd, h => by
    rw [List.all_cons, Bool.and_eq_true] at hd
    rw [scopeOf_cons]
    refine scopeOf_mem_xml t hd.2 (bind_mem_xml pu.1 pu.2 h ?_)
    have := hd.1
    simp only [wfDecl, Bool.and_eq_true] at this
    exact this.2

/-- the scope the event stream gives an element (`es`) against the scope the specification gives
    it (`ms`): the same bindings once `xml` is bound -/
def Rel (es ms : List (Chars × Chars)) : Prop :=
  NodupP es ∧ (Spec.bind xmlC xmlNsUri es).Perm ms

/-- the root (empty scope in the stream) against the initial scope of `Xml.dataModel` -/
theorem Rel_top : Rel [] topScope := by
  refine ⟨List.Pairwise.nil, ?_⟩
  simp [Spec.bind, xmlNsUri_isEmpty, topScope]

/-- the scope after the events `.ns xml …` and the element's declarations -/
def evScope (es decls : List (Chars × Chars)) : List (Chars × Chars) :=
  scopeOf (Spec.bind xmlC xmlNsUri es) decls

theorem evScope_perm {es ms : List (Chars × Chars)} (h : Rel es ms) (decls : List (Chars × Chars)) :
    (evScope es decls).Perm (scopeOf ms decls) :=
  scopeOf_perm decls h.2

theorem evScope_rel {es ms : List (Chars × Chars)} (h : Rel es ms) (decls : List (Chars × Chars))
    (hd : decls.all wfDecl = true) : Rel (evScope es decls) (scopeOf ms decls) := by
  have hn : NodupP (evScope es decls) := scopeOf_nodup decls (bind_nodup _ _ h.1)
  have hm : (xmlC, xmlNsUri) ∈ evScope es decls := by
    refine scopeOf_mem_xml decls hd ?_
    simp [Spec.bind, xmlNsUri_isEmpty]
  exact ⟨hn, (bind_self_perm _ _ xmlNsUri_isEmpty hn hm).trans (evScope_perm h decls)⟩

theorem evScope_sort {es ms : List (Chars × Chars)} (h : Rel es ms) (decls : List (Chars × Chars)) :
    sortBinds (evScope es decls) = sortBinds (scopeOf ms decls) :=
  sortBinds_congr (evScope_perm h decls)

/-- every element's scope binds `xml` -/
theorem rel_mem_xml {es ms : List (Chars × Chars)} (h : Rel es ms) : (xmlC, xmlNsUri) ∈ ms := by
  refine h.2.subset ?_
  simp [Spec.bind, xmlNsUri_isEmpty]

end Xsel.XmlL
