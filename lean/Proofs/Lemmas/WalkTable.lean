/-
  Proofs/Lemmas/WalkTable.lean — the handler (or none) of every nonterminal of the grammar in the
  expected handler table (`Expect.handlers`; `Proofs/GenTables.handlers_agree` proves on every run that
  the table regenerated from exec/contextfn*.go equals it).  Kernel evaluation, one lemma per nonterminal.
-/
import Xsel.Deriv
import Proofs.Expect

namespace Xsel.Walk
open Xsel Xsel.Syntax

/-! ### the handler (or none) of every nonterminal of the grammar, in the expected table -/

@[simp] theorem lk_AbbreviatedAbsoluteLocationPath : lookupS "AbbreviatedAbsoluteLocationPath" Expect.handlers = some "execAbbreviatedAbsoluteLocationPath" := by decide +kernel
@[simp] theorem lk_AbbreviatedAxisSpecifier : lookupS "AbbreviatedAxisSpecifier" Expect.handlers = some "execAbbreviatedAxisSpecifier" := by decide +kernel
@[simp] theorem lk_AbbreviatedRelativeLocationPath : lookupS "AbbreviatedRelativeLocationPath" Expect.handlers = some "execAbbreviatedRelativeLocationPath" := by decide +kernel
@[simp] theorem lk_AbbreviatedStep : lookupS "AbbreviatedStep" Expect.handlers = none := by decide +kernel
@[simp] theorem lk_AbbreviatedStepParent : lookupS "AbbreviatedStepParent" Expect.handlers = some "execAbbreviatedStepParent" := by decide +kernel
@[simp] theorem lk_AbbreviatedStepSelf : lookupS "AbbreviatedStepSelf" Expect.handlers = some "execAbbreviatedStepSelf" := by decide +kernel
@[simp] theorem lk_AbsoluteLocationPath : lookupS "AbsoluteLocationPath" Expect.handlers = none := by decide +kernel
@[simp] theorem lk_AbsoluteLocationPathOnly : lookupS "AbsoluteLocationPathOnly" Expect.handlers = some "execAbsoluteLocationPathOnly" := by decide +kernel
@[simp] theorem lk_AbsoluteLocationPathWithRelative : lookupS "AbsoluteLocationPathWithRelative" Expect.handlers = some "execAbsoluteLocationPathWithRelative" := by decide +kernel
@[simp] theorem lk_AdditiveExpr : lookupS "AdditiveExpr" Expect.handlers = none := by decide +kernel
@[simp] theorem lk_AdditiveExprAdd : lookupS "AdditiveExprAdd" Expect.handlers = some "execAdditiveExprAdd" := by decide +kernel
@[simp] theorem lk_AdditiveExprSubtract : lookupS "AdditiveExprSubtract" Expect.handlers = some "execAdditiveExprSubtract" := by decide +kernel
@[simp] theorem lk_AndExpr : lookupS "AndExpr" Expect.handlers = none := by decide +kernel
@[simp] theorem lk_AndExprAnd : lookupS "AndExprAnd" Expect.handlers = some "execAndExprAnd" := by decide +kernel
@[simp] theorem lk_AxisName : lookupS "AxisName" Expect.handlers = some "execAxisName" := by decide +kernel
@[simp] theorem lk_AxisSpecifier : lookupS "AxisSpecifier" Expect.handlers = none := by decide +kernel
@[simp] theorem lk_AxisSpecifierWithAxisName : lookupS "AxisSpecifierWithAxisName" Expect.handlers = none := by decide +kernel
@[simp] theorem lk_EqualityExpr : lookupS "EqualityExpr" Expect.handlers = none := by decide +kernel
@[simp] theorem lk_EqualityExprEqual : lookupS "EqualityExprEqual" Expect.handlers = some "execEqualityExprEqual" := by decide +kernel
@[simp] theorem lk_EqualityExprNotEqual : lookupS "EqualityExprNotEqual" Expect.handlers = some "execEqualityExprNotEqual" := by decide +kernel
@[simp] theorem lk_FilterExpr : lookupS "FilterExpr" Expect.handlers = none := by decide +kernel
@[simp] theorem lk_FilterExprWithPredicate : lookupS "FilterExprWithPredicate" Expect.handlers = some "execFilterExprWithPredicate" := by decide +kernel
@[simp] theorem lk_FunctionCall : lookupS "FunctionCall" Expect.handlers = some "execFunctionCall" := by decide +kernel
@[simp] theorem lk_FunctionCallArgumentList : lookupS "FunctionCallArgumentList" Expect.handlers = none := by decide +kernel
@[simp] theorem lk_FunctionCallArgumentListArgWithNext : lookupS "FunctionCallArgumentListArgWithNext" Expect.handlers = none := by decide +kernel
@[simp] theorem lk_FunctionCallArgumentListEndArg : lookupS "FunctionCallArgumentListEndArg" Expect.handlers = none := by decide +kernel
@[simp] theorem lk_FunctionSignature : lookupS "FunctionSignature" Expect.handlers = none := by decide +kernel
@[simp] theorem lk_FunctionSignatureNoArgs : lookupS "FunctionSignatureNoArgs" Expect.handlers = none := by decide +kernel
@[simp] theorem lk_Literal : lookupS "Literal" Expect.handlers = some "execLiteral" := by decide +kernel
@[simp] theorem lk_LocationPath : lookupS "LocationPath" Expect.handlers = none := by decide +kernel
@[simp] theorem lk_MultiplicativeExpr : lookupS "MultiplicativeExpr" Expect.handlers = none := by decide +kernel
@[simp] theorem lk_MultiplicativeExprDivide : lookupS "MultiplicativeExprDivide" Expect.handlers = some "execMultiplicativeExprDivide" := by decide +kernel
@[simp] theorem lk_MultiplicativeExprMod : lookupS "MultiplicativeExprMod" Expect.handlers = some "execMultiplicativeExprMod" := by decide +kernel
@[simp] theorem lk_MultiplicativeExprMultiply : lookupS "MultiplicativeExprMultiply" Expect.handlers = some "execMultiplicativeExprMultiply" := by decide +kernel
@[simp] theorem lk_NameTestAnyElement : lookupS "NameTestAnyElement" Expect.handlers = some "execNameTestAnyElement" := by decide +kernel
@[simp] theorem lk_NameTestLocalAnyNamespace : lookupS "NameTestLocalAnyNamespace" Expect.handlers = some "execNameTestLocalAnyNamespace" := by decide +kernel
@[simp] theorem lk_NameTestLocalAnyNamespaceReservedNameConflict : lookupS "NameTestLocalAnyNamespaceReservedNameConflict" Expect.handlers = some "execNameTestLocalAnyNamespaceReservedNameConflict" := by decide +kernel
@[simp] theorem lk_NameTestNamespaceAnyLocal : lookupS "NameTestNamespaceAnyLocal" Expect.handlers = some "execNameTestNamespaceAnyLocal" := by decide +kernel
@[simp] theorem lk_NameTestNamespaceAnyLocalReservedNameConflict : lookupS "NameTestNamespaceAnyLocalReservedNameConflict" Expect.handlers = some "execNameTestNamespaceAnyLocalReservedNameConflict" := by decide +kernel
@[simp] theorem lk_NameTestQNameLocalOnly : lookupS "NameTestQNameLocalOnly" Expect.handlers = some "execNameTestQNameLocalOnly" := by decide +kernel
@[simp] theorem lk_NameTestQNameLocalOnlyReservedNameConflict : lookupS "NameTestQNameLocalOnlyReservedNameConflict" Expect.handlers = some "execNameTestQNameLocalOnly" := by decide +kernel
@[simp] theorem lk_NameTestQNameNamespaceWithLocal : lookupS "NameTestQNameNamespaceWithLocal" Expect.handlers = some "execNameTestQNameNamespaceWithLocal" := by decide +kernel
@[simp] theorem lk_NameTestQNameNamespaceWithLocalReservedNameConflictBoth : lookupS "NameTestQNameNamespaceWithLocalReservedNameConflictBoth" Expect.handlers = some "execNameTestQNameNamespaceWithLocalReservedNameConflictBoth" := by decide +kernel
@[simp] theorem lk_NameTestQNameNamespaceWithLocalReservedNameConflictLocal : lookupS "NameTestQNameNamespaceWithLocalReservedNameConflictLocal" Expect.handlers = some "execNameTestQNameNamespaceWithLocalReservedNameConflictLocal" := by decide +kernel
@[simp] theorem lk_NameTestQNameNamespaceWithLocalReservedNameConflictNamespace : lookupS "NameTestQNameNamespaceWithLocalReservedNameConflictNamespace" Expect.handlers = some "execNameTestQNameNamespaceWithLocalReservedNameConflictNamespace" := by decide +kernel
@[simp] theorem lk_NodeTest : lookupS "NodeTest" Expect.handlers = none := by decide +kernel
@[simp] theorem lk_NodeTestAndPredicate : lookupS "NodeTestAndPredicate" Expect.handlers = some "leftRightDependentResult" := by decide +kernel
@[simp] theorem lk_NodeTestNodeTypeNoArgTest : lookupS "NodeTestNodeTypeNoArgTest" Expect.handlers = some "execNodeTestNodeTypeNoArgTest" := by decide +kernel
@[simp] theorem lk_NodeTestProcInstTargetTest : lookupS "NodeTestProcInstTargetTest" Expect.handlers = some "execNodeTestProcInstTargetTest" := by decide +kernel
@[simp] theorem lk_NodeType : lookupS "NodeType" Expect.handlers = none := by decide +kernel
@[simp] theorem lk_Number : lookupS "Number" Expect.handlers = some "execNumber" := by decide +kernel
@[simp] theorem lk_OrExpr : lookupS "OrExpr" Expect.handlers = none := by decide +kernel
@[simp] theorem lk_OrExprOr : lookupS "OrExprOr" Expect.handlers = some "execOrExprOr" := by decide +kernel
@[simp] theorem lk_PathExpr : lookupS "PathExpr" Expect.handlers = none := by decide +kernel
@[simp] theorem lk_PathExprFilterWithAbbreviatedPath : lookupS "PathExprFilterWithAbbreviatedPath" Expect.handlers = some "execAbbreviatedRelativeLocationPath" := by decide +kernel
@[simp] theorem lk_PathExprFilterWithPath : lookupS "PathExprFilterWithPath" Expect.handlers = some "leftRightDependentResult" := by decide +kernel
@[simp] theorem lk_Predicate : lookupS "Predicate" Expect.handlers = some "execPredicate" := by decide +kernel
@[simp] theorem lk_PrimaryExpr : lookupS "PrimaryExpr" Expect.handlers = none := by decide +kernel
@[simp] theorem lk_PrimaryExprParenthetic : lookupS "PrimaryExprParenthetic" Expect.handlers = none := by decide +kernel
@[simp] theorem lk_QName : lookupS "QName" Expect.handlers = none := by decide +kernel
@[simp] theorem lk_QNameLocalOnly : lookupS "QNameLocalOnly" Expect.handlers = none := by decide +kernel
@[simp] theorem lk_QNameNamespaceWithLocal : lookupS "QNameNamespaceWithLocal" Expect.handlers = none := by decide +kernel
@[simp] theorem lk_RelationalExpr : lookupS "RelationalExpr" Expect.handlers = none := by decide +kernel
@[simp] theorem lk_RelationalExprGreaterThan : lookupS "RelationalExprGreaterThan" Expect.handlers = some "execRelationalExprGreaterThan" := by decide +kernel
@[simp] theorem lk_RelationalExprGreaterThanOrEqual : lookupS "RelationalExprGreaterThanOrEqual" Expect.handlers = some "execRelationalExprGreaterThanOrEqual" := by decide +kernel
@[simp] theorem lk_RelationalExprLessThan : lookupS "RelationalExprLessThan" Expect.handlers = some "execRelationalExprLessThan" := by decide +kernel
@[simp] theorem lk_RelationalExprLessThanOrEqual : lookupS "RelationalExprLessThanOrEqual" Expect.handlers = some "execRelationalExprLessThanOrEqual" := by decide +kernel
@[simp] theorem lk_RelativeLocationPath : lookupS "RelativeLocationPath" Expect.handlers = none := by decide +kernel
@[simp] theorem lk_RelativeLocationPathWithStep : lookupS "RelativeLocationPathWithStep" Expect.handlers = some "leftRightDependentResult" := by decide +kernel
@[simp] theorem lk_ReservedNameConflictResolver : lookupS "ReservedNameConflictResolver" Expect.handlers = none := by decide +kernel
@[simp] theorem lk_Step : lookupS "Step" Expect.handlers = some "execStep" := by decide +kernel
@[simp] theorem lk_StepWithAxisAndNodeTest : lookupS "StepWithAxisAndNodeTest" Expect.handlers = some "leftRightDependentResult" := by decide +kernel
@[simp] theorem lk_StepWithAxisAndNodeTestAndPredicate : lookupS "StepWithAxisAndNodeTestAndPredicate" Expect.handlers = some "leftRightDependentResult" := by decide +kernel
@[simp] theorem lk_StepWithPredicate : lookupS "StepWithPredicate" Expect.handlers = none := by decide +kernel
@[simp] theorem lk_StepWithPredicateWithAnotherPredicate : lookupS "StepWithPredicateWithAnotherPredicate" Expect.handlers = some "leftRightDependentResult" := by decide +kernel
@[simp] theorem lk_UnaryExpr : lookupS "UnaryExpr" Expect.handlers = none := by decide +kernel
@[simp] theorem lk_UnaryExprNegate : lookupS "UnaryExprNegate" Expect.handlers = some "execUnaryExprNegate" := by decide +kernel
@[simp] theorem lk_UnionExpr : lookupS "UnionExpr" Expect.handlers = none := by decide +kernel
@[simp] theorem lk_UnionExprUnion : lookupS "UnionExprUnion" Expect.handlers = some "execUnionExprUnion" := by decide +kernel
@[simp] theorem lk_VariableReference : lookupS "VariableReference" Expect.handlers = some "execVariableReference" := by decide +kernel


abbrev tbl := Expect.handlers


end Xsel.Walk
