/-
  Proofs/Lemmas/JsonText.lean — the JSON text reader of Xsel/JsonText.lean reads the canonical
  rendering of a value back as that value (`parseText_render`), also when white space is inserted
  around every structural character (`parseText_renderW`).

  * `renderJson` : the canonical rendering (no white space; strings with `\"`, `\\` and `\u00XX` for
    the characters below U+0020, everything else raw; numbers as `numToStrG`, the 'g' format of Go).
  * `renderW sp` : the same with the white space `sp` after `[`, `{`, around `,` and `:` and before
    `]`, `}`; `renderW [] = renderJson`.
  * `numOkJ n`   : the text of `n` is a JSON number that the reader reads back as `n`.
  * `renderStream`: values each followed by a newline (the output of `json.Encoder`);
    `parseText_stream` reads the sequence back.
  * `wfJ v`      : every number in `v` is `numOkJ` (every finite double is: Proofs/Lemmas/JsonNum.lean).  Nothing is asked of strings and keys: `Chars`
    are Unicode scalar values (no surrogates), and every character is either written raw or escaped.
-/
import Xsel.JsonText

namespace Xsel.Json

/-! ### the canonical rendering -/

def hexChar (n : Nat) : Char := if n < 10 then Char.ofNat (n + 48) else Char.ofNat (n + 87)

/-- a character inside a string literal -/
def renderChar (c : Char) : Chars :=
  if c = '"' then ['\\', '"']
  else if c = '\\' then ['\\', '\\']
  else if c.toNat < 0x20 then ['\\', 'u', '0', '0', hexChar (c.toNat / 16), hexChar (c.toNat % 16)]
  else [c]

def renderStr (s : Chars) : Chars := '"' :: (s.flatMap renderChar ++ ['"'])

/-- the text of a number: Go's `strconv.FormatFloat(f, 'g', -1, 64)` -/
def numText (n : Num) : Chars := numToStrG n

mutual
/-- the canonical rendering of a JSON value -/
def renderJson : JVal → Chars
  | .null => ['n', 'u', 'l', 'l']
  | .bool b => if b then ['t', 'r', 'u', 'e'] else ['f', 'a', 'l', 's', 'e']
  | .num n => numText n
  | .str s => renderStr s
  | .arr l => '[' :: (renderList l ++ [']'])
  | .obj ms => '{' :: (renderMembers ms ++ ['}'])
/-- the items of an array -/
def renderList : JList → Chars
  | .nil => []
  | .cons v t => renderJson v ++ renderTail t
/-- the items after the first, each after a comma -/
def renderTail : JList → Chars
  | .nil => []
  | .cons v t => ',' :: (renderJson v ++ renderTail t)
def renderMembers : JMembers → Chars
  | .nil => []
  | .cons k v t => renderStr k ++ ':' :: (renderJson v ++ renderMTail t)
def renderMTail : JMembers → Chars
  | .nil => []
  | .cons k v t => ',' :: (renderStr k ++ ':' :: (renderJson v ++ renderMTail t))
end

mutual
/-- the rendering with the white space `sp` around every structural character -/
def renderW (sp : Chars) : JVal → Chars
  | .null => ['n', 'u', 'l', 'l']
  | .bool b => if b then ['t', 'r', 'u', 'e'] else ['f', 'a', 'l', 's', 'e']
  | .num n => numText n
  | .str s => renderStr s
  | .arr l => '[' :: (sp ++ (renderListW sp l ++ [']']))
  | .obj ms => '{' :: (sp ++ (renderMembersW sp ms ++ ['}']))
def renderListW (sp : Chars) : JList → Chars
  | .nil => []
  | .cons v t => renderW sp v ++ (sp ++ renderTailW sp t)
def renderTailW (sp : Chars) : JList → Chars
  | .nil => []
  | .cons v t => ',' :: (sp ++ (renderW sp v ++ (sp ++ renderTailW sp t)))
def renderMembersW (sp : Chars) : JMembers → Chars
  | .nil => []
  | .cons k v t => renderStr k ++ (sp ++ ':' :: (sp ++ (renderW sp v ++ (sp ++ renderMTailW sp t))))
def renderMTailW (sp : Chars) : JMembers → Chars
  | .nil => []
  | .cons k v t =>
    ',' :: (sp ++ (renderStr k ++ (sp ++ ':' :: (sp ++ (renderW sp v ++ (sp ++ renderMTailW sp t))))))
end

/-! ### well-formed values -/

/-- the text of `n` is a JSON number and the reader reads it back as `n` -/
def numOkJ (n : Num) : Bool := decide (pNum (numText n) = some (n, []))

mutual
/-- every number of the value is `numOkJ` -/
def wfJ : JVal → Bool
  | .num n => numOkJ n
  | .arr l => wfJList l
  | .obj ms => wfJMembers ms
  | _ => true
def wfJList : JList → Bool
  | .nil => true
  | .cons v t => wfJ v && wfJList t
def wfJMembers : JMembers → Bool
  | .nil => true
  | .cons _ v t => wfJ v && wfJMembers t
end

example : numText (.fin 0) = ['0'] := by decide +kernel
example : numText (.fin (-5/2)) = ['-', '2', '.', '5'] := by decide +kernel
example : numText (.fin (10 ^ 21)) = ['1', 'e', '+', '2', '1'] := by decide +kernel
example : numText (.fin (1/8)) = ['0', '.', '1', '2', '5'] := by decide +kernel
example : numText (.fin (1/1048576)) = ['9', '.', '5', '3', '6', '7', '4', '3', '1', '6', '4', '0', '6', '2', '5', 'e', '-', '0', '7'] := by decide +kernel

example : numOkJ (.fin 0) = true := by decide +kernel
example : numOkJ .nzero = true := by decide +kernel
example : numOkJ (.fin 1) = true := by decide +kernel
example : numOkJ (.fin (-5/2)) = true := by decide +kernel
example : numOkJ (.fin (10 ^ 21)) = true := by decide +kernel
example : numOkJ (.fin (1/8)) = true := by decide +kernel
example : numOkJ (.fin (1/1048576)) = true := by decide +kernel
example : numOkJ (.fin 123456) = true := by decide +kernel
example : numOkJ (.fin 1234567) = true := by decide +kernel
example : numOkJ .nan = false := by decide +kernel
example : numOkJ .pinf = false := by decide +kernel
/-- 1/3 is not a double: its text reads back as the nearest double -/
example : numOkJ (.fin (1/3)) = false := by decide +kernel

/-! ### strings -/

/-- the unit the reader sees for a rendered character -/
def unitOf (c : Char) : SUnit := if c.toNat < 0x20 then .u c.toNat else .ch c

theorem hex4_ctl : ∀ n, n < 32 → hex4 '0' '0' (hexChar (n / 16)) (hexChar (n % 16)) = some n := by
  decide

theorem pStrU_quote (rest : Chars) : pStrU ('"' :: rest) = some ([], rest) := by
  rw [pStrU.eq_def]
  simp

theorem pStrU_char (c : Char) (r : Chars) :
    pStrU (renderChar c ++ r) = (pStrU r).map (fun p => (unitOf c :: p.1, p.2)) := by
  unfold renderChar unitOf
  by_cases h1 : c = '"'
  · subst h1
    rw [pStrU.eq_def]
    simp [simpleEsc]
  · by_cases h2 : c = '\\'
    · subst h2
      rw [pStrU.eq_def]
      simp [simpleEsc]
    · by_cases h3 : c.toNat < 0x20
      · have hx := hex4_ctl c.toNat h3
        rw [pStrU.eq_def]
        simp [h1, h2, h3, hx]
      · rw [pStrU.eq_def]
        simp [h1, h2, h3]

theorem pStrU_render (s : Chars) (rest : Chars) :
    pStrU (s.flatMap renderChar ++ '"' :: rest) = some (s.map unitOf, rest) := by
  induction s with
  | nil => simp [pStrU_quote]
  | cons c s ih =>
    simp only [List.flatMap_cons, List.map_cons, List.append_assoc]
    rw [pStrU_char, ih]
    rfl

theorem combine_u_small (n : Nat) (r : List SUnit) (h : n < 0xD800) :
    combine (.u n :: r) = Char.ofNat n :: combine r := by
  have h1 : isHiSur n = false := by simp [isHiSur]; omega
  have h2 : isLoSur n = false := by simp [isLoSur]; omega
  cases r with
  | nil => simp [combine, uChar, h1, h2]
  | cons x r => cases x <;> simp [combine, uChar, h1, h2]

theorem combine_units (s : Chars) : combine (s.map unitOf) = s := by
  induction s with
  | nil => rfl
  | cons c s ih =>
    simp only [List.map_cons]
    by_cases h3 : c.toNat < 0x20
    · have hu : unitOf c = .u c.toNat := by simp [unitOf, h3]
      rw [hu, combine_u_small _ _ (by omega), ih, Char.ofNat_toNat]
    · have hu : unitOf c = .ch c := by simp [unitOf, h3]
      rw [hu, combine, ih]

/-- a rendered string (after its opening quote) is read back -/
theorem pStr_render (s : Chars) (rest : Chars) :
    pStr (s.flatMap renderChar ++ '"' :: rest) = some (s, rest) := by
  simp [pStr, pStrU_render, combine_units]

/-! ### numbers: the reader stops where the number stops -/

/-- a text before which a number ends: it is empty or starts with a character that cannot continue a
    number -/
def Stop (rest : Chars) : Prop :=
  ∀ c r, rest = c :: r → isDigit c = false ∧ c ≠ '.' ∧ c ≠ 'e' ∧ c ≠ 'E'

theorem span_append_stop (l m : Chars) (h : Stop m) :
    (l ++ m).takeWhile isDigit = l.takeWhile isDigit ∧
    (l ++ m).dropWhile isDigit = l.dropWhile isDigit ++ m := by
  induction l with
  | nil =>
    cases m with
    | nil => simp
    | cons c r =>
      have := (h c r rfl).1
      simp [this]
  | cons a l ih =>
    by_cases ha : isDigit a = true
    · simp [ha, ih.1, ih.2]
    · simp [ha]

theorem scanInt_append (cs rest ip r : Chars) (h : Stop rest) (hs : scanInt cs = some (ip, r)) :
    scanInt (cs ++ rest) = some (ip, r ++ rest) := by
  cases cs with
  | nil => simp [scanInt] at hs
  | cons c t =>
    have := span_append_stop t rest h
    simp only [scanInt, List.cons_append] at hs ⊢
    split
    · simp_all
    · split
      · simp_all
      · simp_all

theorem scanFrac_append (cs rest fr r : Chars) (h : Stop rest) (hs : scanFrac cs = some (fr, r)) :
    scanFrac (cs ++ rest) = some (fr, r ++ rest) := by
  cases cs with
  | nil =>
    simp [scanFrac] at hs
    obtain ⟨rfl, rfl⟩ := hs
    cases rest with
    | nil => simp [scanFrac]
    | cons c r =>
      have := (h c r rfl).2.1
      simp [scanFrac, this]
  | cons c t =>
    have hsp := span_append_stop t rest h
    simp only [scanFrac, List.cons_append] at hs ⊢
    by_cases hc : c = '.'
    · simp only [hc, if_true] at hs ⊢
      rw [hsp.1, hsp.2]
      split at hs
      · simp at hs
      · rename_i hne
        simp only [Option.some.injEq, Prod.mk.injEq] at hs
        simp only [hne]
        simp [hs.1, hs.2]
    · simp only [hc, if_false, Option.some.injEq, Prod.mk.injEq] at hs ⊢
      obtain ⟨rfl, rfl⟩ := hs
      simp

theorem scanSign_append (c : Char) (t rest : Chars) :
    scanSign ((c :: t) ++ rest) = ((scanSign (c :: t)).1, (scanSign (c :: t)).2 ++ rest) := by
  simp only [scanSign, List.cons_append]
  split
  · rfl
  · split <;> rfl

theorem scanExp_append (cs rest r : Chars) (e : Int) (h : Stop rest) (hs : scanExp cs = some (e, r)) :
    scanExp (cs ++ rest) = some (e, r ++ rest) := by
  cases cs with
  | nil =>
    simp [scanExp] at hs
    obtain ⟨rfl, rfl⟩ := hs
    cases rest with
    | nil => simp [scanExp]
    | cons c r =>
      have := (h c r rfl).2.2
      simp [scanExp, this]
  | cons c t =>
    by_cases hc : c = 'e' ∨ c = 'E'
    · cases t with
      | nil => simp [scanExp, hc, scanSign] at hs
      | cons s t' =>
        have hsg := scanSign_append s t' rest
        have hsp := span_append_stop (scanSign (s :: t')).2 rest h
        simp only [scanExp, hc, if_true] at hs
        simp only [List.cons_append, scanExp, hc, if_true]
        simp only [List.cons_append] at hsg
        rw [hsg]
        simp only [hsp.1, hsp.2]
        split at hs
        · simp at hs
        · rename_i hne
          simp only [Option.some.injEq, Prod.mk.injEq] at hs
          simp only [hne]
          simp [hs.1, hs.2]
    · simp only [scanExp, List.cons_append, hc, if_false, Option.some.injEq, Prod.mk.injEq] at hs ⊢
      obtain ⟨rfl, rfl⟩ := hs
      simp

theorem pUNum_append (neg : Bool) (cs rest r : Chars) (v : Num) (h : Stop rest)
    (hs : pUNum neg cs = some (v, r)) : pUNum neg (cs ++ rest) = some (v, r ++ rest) := by
  unfold pUNum at hs ⊢
  split at hs
  · simp at hs
  · rename_i ip r1 h1
    rw [scanInt_append cs rest ip r1 h h1]
    simp only
    split at hs
    · simp at hs
    · rename_i fr r2 h2
      rw [scanFrac_append r1 rest fr r2 h h2]
      simp only
      split at hs
      · simp at hs
      · rename_i e r3 h3
        rw [scanExp_append r2 rest r3 e h h3]
        simp only at hs ⊢
        split at hs
        · simp at hs
        · rename_i hinf
          simp only [Option.some.injEq, Prod.mk.injEq] at hs
          obtain ⟨rfl, rfl⟩ := hs
          simp [hinf]

/-- a number that is read from `cs` is read from `cs ++ rest` when `rest` cannot continue it -/
theorem pNum_append (cs rest r : Chars) (v : Num) (h : Stop rest)
    (hs : pNum cs = some (v, r)) : pNum (cs ++ rest) = some (v, r ++ rest) := by
  cases cs with
  | nil => simp [pNum] at hs
  | cons c t =>
    simp only [pNum, List.cons_append] at hs ⊢
    split
    · rename_i hc
      simp only [hc, if_true] at hs
      exact pUNum_append true t rest r v h hs
    · rename_i hc
      simp only [hc, if_false] at hs
      exact pUNum_append false (c :: t) rest r v h hs

/-- the first character of a number -/
theorem pNum_head (cs r : Chars) (v : Num) (hs : pNum cs = some (v, r)) :
    ∃ c t, cs = c :: t ∧ (c = '-' ∨ isDigit c = true) := by
  cases cs with
  | nil => simp [pNum] at hs
  | cons c t =>
    refine ⟨c, t, rfl, ?_⟩
    by_cases hc : c = '-'
    · exact Or.inl hc
    · right
      simp only [pNum, hc, if_false, pUNum, scanInt] at hs
      by_cases h0 : c = '0'
      · subst h0; decide
      · by_cases hd : isDigit c = true
        · exact hd
        · simp [h0, hd] at hs

/-! ### white space, first characters, follow sets -/

/-- all characters of `sp` are JSON white space -/
def AllWs (sp : Chars) : Prop := ∀ c ∈ sp, isWs c = true

theorem skipWs_sp (sp cs : Chars) (h : AllWs sp) : skipWs (sp ++ cs) = skipWs cs :=
  List.dropWhile_append_of_pos h

theorem skipWs_cons (c : Char) (r : Chars) (h : isWs c = false) : skipWs (c :: r) = c :: r := by
  simp [skipWs, h]

theorem skipWs_allWs (sp : Chars) (h : AllWs sp) : skipWs sp = [] := by
  have := skipWs_sp sp [] h
  simpa [skipWs] using this

/-- a text that starts with a character that is neither white space nor a closing bracket -/
def ValStart (cs : Chars) : Prop := ∃ c t, cs = c :: t ∧ isWs c = false ∧ c ≠ ']' ∧ c ≠ '}'

theorem ValStart.append {cs : Chars} (h : ValStart cs) (more : Chars) : ValStart (cs ++ more) := by
  obtain ⟨c, t, rfl, h1⟩ := h
  exact ⟨c, t ++ more, rfl, h1⟩

theorem ValStart.skip {cs : Chars} (h : ValStart cs) (sp : Chars) (hsp : AllWs sp) :
    skipWs (sp ++ cs) = cs := by
  obtain ⟨c, t, rfl, h1, _⟩ := h
  rw [skipWs_sp _ _ hsp, skipWs_cons _ _ h1]

theorem ValStart.skip0 {cs : Chars} (h : ValStart cs) : skipWs cs = cs := by
  obtain ⟨c, t, rfl, h1, _⟩ := h
  exact skipWs_cons _ _ h1

theorem isDigit_start (c : Char) (h : isDigit c = true) :
    isWs c = false ∧ c ≠ ']' ∧ c ≠ '}' ∧ c ≠ '[' ∧ c ≠ '{' ∧ c ≠ '"' ∧ c ≠ 't' ∧ c ≠ 'f' ∧ c ≠ 'n' := by
  refine ⟨?_, ?_, ?_, ?_, ?_, ?_, ?_, ?_, ?_⟩
  · simp only [isWs, Bool.or_eq_false_iff, beq_eq_false_iff_ne]
    refine ⟨⟨⟨?_, ?_⟩, ?_⟩, ?_⟩ <;> (rintro rfl; exact absurd h (by decide))
  all_goals (rintro rfl; exact absurd h (by decide))

theorem valStart_str (s more : Chars) : ValStart (renderStr s ++ more) :=
  ⟨'"', _, rfl, by decide, by decide, by decide⟩

/-- characters that cannot continue a number -/
def NonNum (c : Char) : Prop := isDigit c = false ∧ c ≠ '.' ∧ c ≠ 'e' ∧ c ≠ 'E'

theorem nonNum_ws (c : Char) (h : isWs c = true) : NonNum c := by
  simp only [isWs, Bool.or_eq_true, beq_iff_eq] at h
  rcases h with ((rfl | rfl) | rfl) | rfl <;> exact ⟨by decide, by decide, by decide, by decide⟩

theorem stop_nil : Stop [] := by intro c r h; cases h

theorem stop_cons (c : Char) (r : Chars) (h : NonNum c) : Stop (c :: r) := by
  intro c' r' he
  cases he
  exact h

theorem stop_sp (sp rest : Chars) (hsp : AllWs sp) (h : Stop rest) : Stop (sp ++ rest) := by
  cases sp with
  | nil => exact h
  | cons w sp' => exact stop_cons _ _ (nonNum_ws w (hsp w (by simp)))

/-! ### one step of the reader on a rendered text -/

theorem pVal_arr_nil (f : Nat) (sp rest : Chars) (hsp : AllWs sp) :
    pVal (f + 1) ('[' :: (sp ++ ']' :: rest)) = some (.arr .nil, rest) := by
  rw [pVal, if_pos rfl, skipWs_sp _ _ hsp, skipWs_cons _ _ (by decide)]
  simp

theorem pVal_arr (f : Nat) (sp cs : Chars) (hsp : AllWs sp) (hcs : ValStart cs) :
    pVal (f + 1) ('[' :: (sp ++ cs)) =
      match pVal f cs with
      | none => none
      | some (v, r2) => (pTail f r2).map (fun p => (.arr (.cons v p.1), p.2)) := by
  rw [pVal, if_pos rfl, hcs.skip sp hsp]
  obtain ⟨c, t, rfl, _, h2, _⟩ := hcs
  simp only [h2, if_false]
  rfl

theorem pVal_obj_nil (f : Nat) (sp rest : Chars) (hsp : AllWs sp) :
    pVal (f + 1) ('{' :: (sp ++ '}' :: rest)) = some (.obj .nil, rest) := by
  rw [pVal, if_neg (by decide), if_pos rfl, skipWs_sp _ _ hsp, skipWs_cons _ _ (by decide)]
  simp

theorem pVal_obj (f : Nat) (sp cs : Chars) (hsp : AllWs sp) (hcs : ValStart cs) :
    pVal (f + 1) ('{' :: (sp ++ cs)) =
      match pMember f cs with
      | none => none
      | some (k, v, r2) => (pMTail f r2).map (fun p => (.obj (.cons k v p.1), p.2)) := by
  rw [pVal, if_neg (by decide), if_pos rfl, hcs.skip sp hsp]
  obtain ⟨c, t, rfl, _, _, h3⟩ := hcs
  simp only [h3, if_false]
  rfl

theorem pTail_close (f : Nat) (sp rest : Chars) (hsp : AllWs sp) :
    pTail (f + 1) (sp ++ ']' :: rest) = some (.nil, rest) := by
  rw [pTail, skipWs_sp _ _ hsp, skipWs_cons _ _ (by decide)]
  simp

theorem pTail_comma (f : Nat) (sp cs : Chars) (hsp : AllWs sp) (hcs : ValStart cs) :
    pTail (f + 1) (sp ++ ',' :: (sp ++ cs)) =
      match pVal f cs with
      | none => none
      | some (v, r1) => (pTail f r1).map (fun p => (.cons v p.1, p.2)) := by
  rw [pTail, skipWs_sp _ _ hsp, skipWs_cons _ _ (by decide)]
  simp only [if_true, hcs.skip sp hsp]
  rfl

theorem pMTail_close (f : Nat) (sp rest : Chars) (hsp : AllWs sp) :
    pMTail (f + 1) (sp ++ '}' :: rest) = some (.nil, rest) := by
  rw [pMTail, skipWs_sp _ _ hsp, skipWs_cons _ _ (by decide)]
  simp

theorem pMTail_comma (f : Nat) (sp cs : Chars) (hsp : AllWs sp) (hcs : ValStart cs) :
    pMTail (f + 1) (sp ++ ',' :: (sp ++ cs)) =
      match pMember f cs with
      | none => none
      | some (k, v, r1) => (pMTail f r1).map (fun p => (.cons k v p.1, p.2)) := by
  rw [pMTail, skipWs_sp _ _ hsp, skipWs_cons _ _ (by decide)]
  simp only [if_true, hcs.skip sp hsp]
  rfl

theorem pMember_key (f : Nat) (sp : Chars) (k cs : Chars) (hsp : AllWs sp) (hcs : ValStart cs) :
    pMember (f + 1) (renderStr k ++ (sp ++ ':' :: (sp ++ cs))) =
      match pVal f cs with
      | none => none
      | some (v, r2) => some (k, v, r2) := by
  simp only [renderStr, List.cons_append, List.append_assoc]
  rw [pMember, if_pos rfl, pStr_render]
  simp only [List.nil_append, skipWs_sp _ _ hsp, skipWs_cons ':' _ (by decide), if_true, hcs.skip0]
  rfl

/-! ### the fuel a value needs -/

mutual
/-- `pVal` reads the rendering of `v` with any fuel above `sz v` -/
def sz : JVal → Nat
  | .arr l => 1 + szL l
  | .obj ms => 1 + szM ms
  | _ => 0
def szL : JList → Nat
  | .nil => 0
  | .cons v t => 1 + sz v + szL t
def szM : JMembers → Nat
  | .nil => 0
  | .cons _ v t => 2 + sz v + szM t
end

/-- a rendered value starts with a character that is neither white space nor a closing bracket -/
theorem valStart_render (sp : Chars) (v : JVal) (hw : wfJ v = true) : ValStart (renderW sp v) := by
  cases v with
  | null => exact ⟨'n', _, rfl, by decide, by decide, by decide⟩
  | bool b => cases b <;> exact ⟨_, _, rfl, by decide, by decide, by decide⟩
  | num n =>
    simp only [wfJ, numOkJ, decide_eq_true_eq] at hw
    obtain ⟨c, t, hc, hd⟩ := pNum_head _ _ _ hw
    refine ⟨c, t, by simpa [renderW] using hc, ?_⟩
    rcases hd with rfl | hd
    · exact ⟨by decide, by decide, by decide⟩
    · have := isDigit_start c hd
      exact ⟨this.1, this.2.1, this.2.2.1⟩
  | str s => simpa [renderW] using valStart_str s []
  | arr l => exact ⟨'[', _, rfl, by decide, by decide, by decide⟩
  | obj ms => exact ⟨'{', _, rfl, by decide, by decide, by decide⟩

/-- a scalar that is not a number or a string: the literal names -/
theorem pVal_null (f : Nat) (rest : Chars) :
    pVal (f + 1) ('n' :: 'u' :: 'l' :: 'l' :: rest) = some (.null, rest) := by
  rw [pVal]; simp [lit]

theorem pVal_true (f : Nat) (rest : Chars) :
    pVal (f + 1) ('t' :: 'r' :: 'u' :: 'e' :: rest) = some (.bool true, rest) := by
  rw [pVal]; simp [lit]

theorem pVal_false (f : Nat) (rest : Chars) :
    pVal (f + 1) ('f' :: 'a' :: 'l' :: 's' :: 'e' :: rest) = some (.bool false, rest) := by
  rw [pVal]; simp [lit]

theorem pVal_str (f : Nat) (s rest : Chars) :
    pVal (f + 1) (renderStr s ++ rest) = some (.str s, rest) := by
  simp only [renderStr, List.cons_append, List.append_assoc]
  rw [pVal, if_neg (by decide), if_neg (by decide), if_pos rfl, pStr_render]
  rfl

theorem pVal_num (f : Nat) (n : Num) (rest : Chars) (hn : numOkJ n = true) (hr : Stop rest) :
    pVal (f + 1) (numText n ++ rest) = some (.num n, rest) := by
  simp only [numOkJ, decide_eq_true_eq] at hn
  have happ := pNum_append _ rest _ _ hr hn
  obtain ⟨c, t, hc, hd⟩ := pNum_head _ _ _ hn
  rw [hc] at happ ⊢
  simp only [List.cons_append, List.nil_append] at happ ⊢
  have hne : c ≠ '[' ∧ c ≠ '{' ∧ c ≠ '"' ∧ c ≠ 't' ∧ c ≠ 'f' ∧ c ≠ 'n' := by
    rcases hd with rfl | hd
    · decide
    · have := isDigit_start c hd
      exact ⟨this.2.2.2.1, this.2.2.2.2.1, this.2.2.2.2.2.1, this.2.2.2.2.2.2.1, this.2.2.2.2.2.2.2.1,
        this.2.2.2.2.2.2.2.2⟩
  rw [pVal, if_neg hne.1, if_neg hne.2.1, if_neg hne.2.2.1, if_neg hne.2.2.2.1, if_neg hne.2.2.2.2.1,
    if_neg hne.2.2.2.2.2, happ]
  rfl

/-! ### the round trip, by mutual structural recursion -/

section
variable (sp : Chars) (hsp : AllWs sp)
include hsp

theorem member_ok (k : Chars) (v : JVal) (fuel : Nat) (rest : Chars) (hf : sz v + 1 < fuel)
    (hw : wfJ v = true)
    (hv : ∀ fuel rest, sz v < fuel → Stop rest → pVal fuel (renderW sp v ++ rest) = some (v, rest))
    (hr : Stop rest) :
    pMember fuel (renderStr k ++ (sp ++ ':' :: (sp ++ (renderW sp v ++ rest)))) = some (k, v, rest) := by
  obtain ⟨f, rfl⟩ : ∃ f, fuel = f + 1 := ⟨fuel - 1, by omega⟩
  rw [pMember_key f sp k _ hsp ((valStart_render sp v hw).append _), hv f rest (by omega) hr]

mutual
theorem val_ok (v : JVal) (hw : wfJ v = true) (fuel : Nat) (rest : Chars) (hf : sz v < fuel)
    (hr : Stop rest) : pVal fuel (renderW sp v ++ rest) = some (v, rest) :=
  match v with
  | .null => by
    obtain ⟨f, rfl⟩ : ∃ f, fuel = f + 1 := ⟨fuel - 1, by simp only [sz] at hf; omega⟩
    exact pVal_null f rest
  | .bool b => by
    obtain ⟨f, rfl⟩ : ∃ f, fuel = f + 1 := ⟨fuel - 1, by simp only [sz] at hf; omega⟩
    cases b
    · exact pVal_false f rest
    · exact pVal_true f rest
  | .num n => by
    obtain ⟨f, rfl⟩ : ∃ f, fuel = f + 1 := ⟨fuel - 1, by simp only [sz] at hf; omega⟩
    exact pVal_num f n rest (by simpa [wfJ] using hw) hr
  | .str s => by
    obtain ⟨f, rfl⟩ : ∃ f, fuel = f + 1 := ⟨fuel - 1, by simp only [sz] at hf; omega⟩
    exact pVal_str f s rest
  | .arr .nil => by
    obtain ⟨f, rfl⟩ : ∃ f, fuel = f + 1 := ⟨fuel - 1, by simp only [sz] at hf; omega⟩
    simp only [renderW, renderListW, List.nil_append, List.cons_append, List.append_assoc]
    exact pVal_arr_nil f sp rest hsp
  | .arr (.cons v t) => by
    simp only [sz, szL] at hf
    simp only [wfJ, wfJList, Bool.and_eq_true] at hw
    obtain ⟨f, rfl⟩ : ∃ f, fuel = f + 1 := ⟨fuel - 1, by omega⟩
    simp only [renderW, renderListW, List.nil_append, List.cons_append, List.append_assoc]
    rw [pVal_arr f sp _ hsp ((valStart_render sp v hw.1).append _),
      val_ok v hw.1 f _ (by omega) (stop_sp sp _ hsp (by
        cases t with
        | nil => exact stop_cons _ _ ⟨by decide, by decide, by decide, by decide⟩
        | cons v' t' =>
          simp only [renderTailW, List.cons_append]
          exact stop_cons _ _ ⟨by decide, by decide, by decide, by decide⟩))]
    simp only
    rw [tail_ok t hw.2 f rest (by omega)]
    rfl
  | .obj .nil => by
    obtain ⟨f, rfl⟩ : ∃ f, fuel = f + 1 := ⟨fuel - 1, by simp only [sz] at hf; omega⟩
    simp only [renderW, renderMembersW, List.nil_append, List.cons_append, List.append_assoc]
    exact pVal_obj_nil f sp rest hsp
  | .obj (.cons k v t) => by
    simp only [sz, szM] at hf
    simp only [wfJ, wfJMembers, Bool.and_eq_true] at hw
    obtain ⟨f, rfl⟩ : ∃ f, fuel = f + 1 := ⟨fuel - 1, by omega⟩
    simp only [renderW, renderMembersW, List.nil_append, List.cons_append, List.append_assoc]
    rw [pVal_obj f sp _ hsp (valStart_str k _),
      member_ok sp hsp k v f _ (by omega) hw.1 (fun fuel rest h1 h2 => val_ok v hw.1 fuel rest h1 h2)
        (stop_sp sp _ hsp (by
        cases t with
        | nil => exact stop_cons _ _ ⟨by decide, by decide, by decide, by decide⟩
        | cons k' v' t' =>
          simp only [renderMTailW, List.cons_append]
          exact stop_cons _ _ ⟨by decide, by decide, by decide, by decide⟩))]
    simp only
    rw [mtail_ok t hw.2 f rest (by omega)]
    rfl
theorem tail_ok (t : JList) (hw : wfJList t = true) (fuel : Nat) (rest : Chars) (hf : szL t < fuel) :
    pTail fuel (sp ++ (renderTailW sp t ++ ']' :: rest)) = some (t, rest) :=
  match t with
  | .nil => by
    obtain ⟨f, rfl⟩ : ∃ f, fuel = f + 1 := ⟨fuel - 1, by omega⟩
    simp only [renderTailW, List.nil_append]
    exact pTail_close f sp rest hsp
  | .cons v t => by
    simp only [szL] at hf
    simp only [wfJList, Bool.and_eq_true] at hw
    obtain ⟨f, rfl⟩ : ∃ f, fuel = f + 1 := ⟨fuel - 1, by omega⟩
    simp only [renderTailW, List.cons_append, List.append_assoc]
    rw [pTail_comma f sp _ hsp ((valStart_render sp v hw.1).append _),
      val_ok v hw.1 f _ (by omega) (stop_sp sp _ hsp (by
        cases t with
        | nil => exact stop_cons _ _ ⟨by decide, by decide, by decide, by decide⟩
        | cons v' t' =>
          simp only [renderTailW, List.cons_append]
          exact stop_cons _ _ ⟨by decide, by decide, by decide, by decide⟩))]
    simp only
    rw [tail_ok t hw.2 f rest (by omega)]
    rfl
theorem mtail_ok (t : JMembers) (hw : wfJMembers t = true) (fuel : Nat) (rest : Chars)
    (hf : szM t < fuel) :
    pMTail fuel (sp ++ (renderMTailW sp t ++ '}' :: rest)) = some (t, rest) :=
  match t with
  | .nil => by
    obtain ⟨f, rfl⟩ : ∃ f, fuel = f + 1 := ⟨fuel - 1, by omega⟩
    simp only [renderMTailW, List.nil_append]
    exact pMTail_close f sp rest hsp
  | .cons k v t => by
    simp only [szM] at hf
    simp only [wfJMembers, Bool.and_eq_true] at hw
    obtain ⟨f, rfl⟩ : ∃ f, fuel = f + 1 := ⟨fuel - 1, by omega⟩
    simp only [renderMTailW, List.cons_append, List.append_assoc]
    rw [pMTail_comma f sp _ hsp (valStart_str k _),
      member_ok sp hsp k v f _ (by omega) hw.1 (fun fuel rest h1 h2 => val_ok v hw.1 fuel rest h1 h2)
        (stop_sp sp _ hsp (by
        cases t with
        | nil => exact stop_cons _ _ ⟨by decide, by decide, by decide, by decide⟩
        | cons k' v' t' =>
          simp only [renderMTailW, List.cons_append]
          exact stop_cons _ _ ⟨by decide, by decide, by decide, by decide⟩))]
    simp only
    rw [mtail_ok t hw.2 f rest (by omega)]
    rfl
end

end

/-! ### the fuel of `parseText` is enough -/

mutual
theorem sz_le (sp : Chars) (v : JVal) : sz v ≤ (renderW sp v).length :=
  match v with
  | .null | .bool _ | .num _ | .str _ => by simp [sz]
  | .arr .nil => by simp [sz, szL, renderW]
  | .arr (.cons v t) => by
    have h1 := sz_le sp v
    have h2 := szL_le sp t
    simp only [sz, szL, renderW, renderListW, List.length_append, List.length_cons, List.length_nil]
    omega
  | .obj .nil => by simp [sz, szM, renderW]
  | .obj (.cons k v t) => by
    have h1 := sz_le sp v
    have h2 := szM_le sp t
    simp only [sz, szM, renderW, renderMembersW, renderStr, List.length_append, List.length_cons,
      List.length_nil]
    omega
theorem szL_le (sp : Chars) (t : JList) : szL t ≤ (renderTailW sp t).length :=
  match t with
  | .nil => by simp [szL]
  | .cons v t => by
    have h1 := sz_le sp v
    have h2 := szL_le sp t
    simp only [szL, renderTailW, List.length_append, List.length_cons]
    omega
theorem szM_le (sp : Chars) (t : JMembers) : szM t ≤ (renderMTailW sp t).length :=
  match t with
  | .nil => by simp [szM]
  | .cons k v t => by
    have h1 := sz_le sp v
    have h2 := szM_le sp t
    simp only [szM, renderMTailW, renderStr, List.length_append, List.length_cons, List.length_nil]
    omega
end

/-! ### the top level -/

theorem pTop_end (f : Nat) (ws : Chars) (h : AllWs ws) : pTop (f + 1) ws = some [] := by
  rw [pTop, skipWs_allWs ws h]

theorem pTop_step (f : Nat) (ws sp rest : Chars) (v : JVal) (hws : AllWs ws) (hsp : AllWs sp)
    (hw : wfJ v = true) (hf : sz v < f + 1) (hr : Stop rest) :
    pTop (f + 1) (ws ++ (renderW sp v ++ rest)) = (pTop f rest).map (fun vs => v :: vs) := by
  have hv := val_ok sp hsp v hw (f + 1) rest hf hr
  have hst := (valStart_render sp v hw).append rest
  rw [pTop, hst.skip ws hws]
  obtain ⟨c, t, hc, _⟩ := hst
  rw [hc] at hv ⊢
  simp only [hv]

/-- white space before and after the text, and `sp` around every structural character -/
theorem parseText_renderW_ws (ws1 sp ws2 : Chars) (v : JVal) (h1 : AllWs ws1) (hsp : AllWs sp)
    (h2 : AllWs ws2) (hw : wfJ v = true) :
    parseText (ws1 ++ (renderW sp v ++ ws2)) = some [v] := by
  have hlen := sz_le sp v
  obtain ⟨c, t, hc, _⟩ := valStart_render sp v hw
  have hpos : 0 < (renderW sp v).length := by rw [hc]; simp
  unfold parseText
  rw [pTop_step _ ws1 sp ws2 v h1 hsp hw (by simp only [List.length_append]; omega)
    (by simpa using stop_sp ws2 [] h2 stop_nil)]
  obtain ⟨g, hg⟩ : ∃ g, (ws1 ++ (renderW sp v ++ ws2)).length = g + 1 :=
    ⟨(ws1 ++ (renderW sp v ++ ws2)).length - 1, by simp only [List.length_append]; omega⟩
  rw [hg, pTop_end g ws2 h2]
  rfl

/-- **white-space insensitivity**: the rendering with any white space `sp` after `[` `{`, around
    `,` `:`, and before `]` `}` is read as the same value -/
theorem parseText_renderW (sp : Chars) (v : JVal) (hsp : AllWs sp) (hw : wfJ v = true) :
    parseText (renderW sp v) = some [v] := by
  have := parseText_renderW_ws [] sp [] v (by intro c hc; cases hc) hsp (by intro c hc; cases hc) hw
  simpa using this

/-! ### `renderW []` is the canonical rendering -/

mutual
theorem renderW_nil (v : JVal) : renderW [] v = renderJson v :=
  match v with
  | .null | .bool _ | .num _ | .str _ => by simp [renderW, renderJson]
  | .arr l => by simp [renderW, renderJson, renderListW_nil l]
  | .obj ms => by simp [renderW, renderJson, renderMembersW_nil ms]
theorem renderListW_nil (l : JList) : renderListW [] l = renderList l :=
  match l with
  | .nil => rfl
  | .cons v t => by simp [renderListW, renderList, renderW_nil v, renderTailW_nil t]
theorem renderTailW_nil (l : JList) : renderTailW [] l = renderTail l :=
  match l with
  | .nil => rfl
  | .cons v t => by simp [renderTailW, renderTail, renderW_nil v, renderTailW_nil t]
theorem renderMembersW_nil (l : JMembers) : renderMembersW [] l = renderMembers l :=
  match l with
  | .nil => rfl
  | .cons k v t => by simp [renderMembersW, renderMembers, renderW_nil v, renderMTailW_nil t]
theorem renderMTailW_nil (l : JMembers) : renderMTailW [] l = renderMTail l :=
  match l with
  | .nil => rfl
  | .cons k v t => by simp [renderMTailW, renderMTail, renderW_nil v, renderMTailW_nil t]
end

/-- **parseText_render** — the canonical rendering of a value whose numbers are `numOkJ` is read
    back as exactly that value -/
theorem parseText_render (v : JVal) (h : wfJ v = true) : parseText (renderJson v) = some [v] := by
  rw [← renderW_nil]
  exact parseText_renderW [] v (by intro c hc; cases hc) h

/-- leading and trailing white space -/
theorem parseText_render_ws (ws1 ws2 : Chars) (v : JVal) (h1 : AllWs ws1) (h2 : AllWs ws2)
    (h : wfJ v = true) : parseText (ws1 ++ (renderJson v ++ ws2)) = some [v] := by
  rw [← renderW_nil]
  exact parseText_renderW_ws ws1 [] ws2 v h1 (by intro c hc; cases hc) h2 h

/-- the tokens `Decoder.Token()` yields for the canonical rendering are the tokens of the value -/
theorem tokensOfText_render (v : JVal) (h : wfJ v = true) :
    tokensOfText (renderJson v) = some (tokensOf v) := by
  simp [tokensOfText, parseText_render v h]

/-! ### streams of values -/

/-- what Go's `json.Encoder` writes for a sequence of values: each value followed by a newline -/
def renderStream : List JVal → Chars
  | [] => []
  | v :: vs => renderJson v ++ '\n' :: renderStream vs

theorem pTop_skip (fuel : Nat) (ws cs : Chars) (h : AllWs ws) : pTop fuel (ws ++ cs) = pTop fuel cs := by
  cases fuel with
  | zero => rfl
  | succ f => rw [pTop, pTop, skipWs_sp _ _ h]

theorem pTop_stream (vs : List JVal) (h : ∀ v ∈ vs, wfJ v = true) :
    ∀ fuel, (renderStream vs).length < fuel → pTop fuel (renderStream vs) = some vs := by
  induction vs with
  | nil =>
    intro fuel hf
    obtain ⟨f, rfl⟩ : ∃ f, fuel = f + 1 := ⟨fuel - 1, by omega⟩
    exact pTop_end f [] (by intro c hc; cases hc)
  | cons v vs ih =>
    intro fuel hf
    obtain ⟨f, rfl⟩ : ∃ f, fuel = f + 1 := ⟨fuel - 1, by omega⟩
    have hw := h v (by simp)
    have hlen := sz_le [] v
    simp only [renderStream, List.length_append, List.length_cons] at hf
    rw [renderW_nil] at hlen
    have hnl : AllWs ['\n'] := by intro c hc; simp at hc; subst hc; decide
    have hstep := pTop_step f [] [] ('\n' :: renderStream vs) v (by intro c hc; cases hc)
      (by intro c hc; cases hc) hw (by omega) (stop_cons _ _ (nonNum_ws '\n' (by decide)))
    rw [renderW_nil] at hstep
    simp only [List.nil_append] at hstep
    have hskip := pTop_skip f ['\n'] (renderStream vs) hnl
    simp only [List.cons_append, List.nil_append] at hskip
    simp only [renderStream]
    rw [hstep, hskip, ih (fun v hv => h v (by simp [hv])) f (by omega)]
    rfl

/-- **parseText_stream** — a sequence of values, each followed by a newline, is read back as that
    sequence -/
theorem parseText_stream (vs : List JVal) (h : ∀ v ∈ vs, wfJ v = true) :
    parseText (renderStream vs) = some vs :=
  pTop_stream vs h _ (by omega)

/-! ### examples -/

/-- `{"a":[1,"x\n",null],"a":-2.5}` -/
def sampleV : JVal :=
  .obj (.cons ['a'] (.arr (.cons (.num (.fin 1)) (.cons (.str ['x', '\n']) (.cons .null .nil))))
    (.cons ['a'] (.num (.fin (-5/2))) .nil))

example : renderJson sampleV = "{\"a\":[1,\"x\\u000a\",null],\"a\":-2.5}".toList := by decide +kernel
example : wfJ sampleV = true := by decide +kernel
/-- (the examples compare tokens: `JVal` has no decidable equality) -/
example : tokensOfText "{ \"a\" : [1 , \"x\\n\",null ]\n, \"a\":-25e-1}  ".toList = some (tokensOf sampleV) := by
  decide +kernel
example : tokensOfText "1 2".toList = some [.num (.fin 1), .num (.fin 2)] := by decide +kernel
example : tokensOfText "12".toList = some [.num (.fin 12)] := by decide +kernel
example : tokensOfText "truefalse".toList = some [.bool true, .bool false] := by decide +kernel
example : tokensOfText "01".toList = some [.num (.fin 0), .num (.fin 1)] := by decide +kernel
example : tokensOfText "-0".toList = some [.num .nzero] := by decide +kernel
example : tokensOfText "-1e-400".toList = some [.num .nzero] := by decide +kernel
example : tokensOfText "[01]".toList = none := by decide +kernel
example : tokensOfText "[1,]".toList = none := by decide +kernel
example : tokensOfText "[1".toList = none := by decide +kernel
example : tokensOfText "1.".toList = none := by decide +kernel
example : tokensOfText "1e400".toList = none := by decide +kernel
example : tokensOfText "\"a\tb\"".toList = none := by decide +kernel
example : tokensOfText "\"\\ud83d\\ude00\\ud800\"".toList =
    some [.str [Char.ofNat 0x1F600, Char.ofNat 0xFFFD]] := by decide +kernel
example : tokensOfText [] = some [] := by decide +kernel
example : tokensOfText "[]{}".toList = some [.lbrack, .rbrack, .lbrace, .rbrace] := by decide +kernel

end Xsel.Json
