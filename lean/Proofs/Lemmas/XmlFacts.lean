/-
  Proofs/Lemmas/XmlFacts.lean — C09, side facts on the specification: every element of the data
  model of a well-formed document has the `xml` binding in scope.
-/
import Proofs.Lemmas.XmlScope

namespace Xsel.XmlL
open Xsel Xsel.Xml Xsel.Spec Xsel.StoreL

def HasXml (nd : NodeDesc) : Prop := nd.kind = .elem → (xmlC, xmlNsUri) ∈ nd.scope

theorem mem_sortBinds {x : Chars × Chars} {l : List (Chars × Chars)} (h : x ∈ l) :
    x ∈ sortBinds l := (sortBinds_perm l).mem_iff.mpr h

mutual
theorem model_xml (ms : List (Chars × Chars)) (d : Nat) (n : XNode)
    (hm : (xmlC, xmlNsUri) ∈ ms) (hw : wfNode ms n = true) : ∀ nd ∈ model ms d n, HasXml nd :=
  match n with
  | .elem pfx loc decls attrs af kids => by
    simp only [wfNode, Bool.and_eq_true] at hw
    have hm' := scopeOf_mem_xml decls hw.1.1.1.1 hm
    intro nd hnd
    simp only [model, List.mem_cons, List.mem_append, List.mem_map] at hnd
    rcases hnd with rfl | ⟨a, _, rfl⟩ | hnd
    · exact fun _ => mem_sortBinds hm'
    · intro hk; cases hk
    · exact modelList_xml _ _ kids hm' hw.2 nd hnd
  | .text segs => by intro nd hnd; simp only [model, List.mem_singleton] at hnd; subst hnd; intro hk; cases hk
  | .comment s => by intro nd hnd; simp only [model, List.mem_singleton] at hnd; subst hnd; intro hk; cases hk
  | .pi t v => by intro nd hnd; simp only [model, List.mem_singleton] at hnd; subst hnd; intro hk; cases hk
  | .xmldecl _ => by simp [model]
  | .doctype => by simp [model]
  | .ws _ => by simp [model]
theorem modelList_xml (ms : List (Chars × Chars)) (d : Nat) (l : XNodes)
    (hm : (xmlC, xmlNsUri) ∈ ms) (hw : wfKids ms l = true) : ∀ nd ∈ modelList ms d l, HasXml nd :=
  match l with
  | .nil => by simp [modelList]
  | .cons n t => by
    rw [wfKids, Bool.and_eq_true, Bool.and_eq_true] at hw
    intro nd hnd
    simp only [modelList, List.mem_append] at hnd
    rcases hnd with hnd | hnd
    · exact model_xml ms d n hm hw.1.1 nd hnd
    · exact modelList_xml ms d t hm hw.2 nd hnd
end

theorem modelTop_xml (ms : List (Chars × Chars)) (d : Nat) (hm : (xmlC, xmlNsUri) ∈ ms) :
    ∀ l : XNodes, wfTop ms l = true → ∀ nd ∈ modelList ms d l, HasXml nd
  | .nil, _ => by simp [modelList]
  | .cons n t, hw => by
    rw [wfTop, Bool.and_eq_true] at hw
    intro nd hnd
    simp only [modelList, List.mem_append] at hnd
    rcases hnd with hnd | hnd
    · have h1 := hw.1
      cases n with
      | text _ => simp [wfTopNode] at h1
      | xmldecl _ => simp [model] at hnd
      | doctype => simp [model] at hnd
      | ws _ => simp [model] at hnd
      | elem pfx loc decls attrs af kids => exact model_xml ms d _ hm h1 nd hnd
      | comment s => exact model_xml ms d _ hm h1 nd hnd
      | pi tg v => exact model_xml ms d _ hm h1 nd hnd
    · exact modelTop_xml ms d hm t hw.2 nd hnd

theorem dataModel_xml (top : XNodes) (h : WFDoc top) : ∀ nd ∈ dataModel top, HasXml nd :=
  modelTop_xml _ 1 (List.mem_singleton.mpr rfl) top h.1

end Xsel.XmlL
