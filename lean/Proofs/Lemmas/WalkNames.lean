/-
  Proofs/Lemmas/WalkNames.lean — names that SPELL A KEYWORD, and the abbreviated child step with predicates.
  The generated lexer returns `child`, `text`, `self`, … as keyword tokens, so the grammar has the productions
  `…ReservedNameConflict…` and the evaluator six more name-test handlers that read the name through
  `GetStringExtents` of the `ReservedNameConflictResolver` child.  Each of these nodes is evaluated exactly as
  the ordinary name-test node with the keyword's spelling as name; with `WalkMain`, `WalkAbbrev` and this file
  every entry of the handler table is covered by a theorem.
-/
import Proofs.Lemmas.WalkAbbrev

namespace Xsel.Walk
open Xsel Xsel.Syntax

/-- a keyword where a name is expected -/
def rncNode (k : Kw) : PT := N "ReservedNameConflictResolver" [.tk (.kw k)]

theorem text_rnc (k : Kw) : (rncNode k).text = k.chars := by
  simp [rncNode, N, PT.text, PTs.text, tokText]

/-- `child`, `text`, … as an element or attribute name -/
theorem rnc_name (k : Kw) (w : WCtx) :
    walk tbl (N "NodeTest" [N "NameTestQNameLocalOnlyReservedNameConflict" [rncNode k]]) w =
    walk tbl (testNode (.name k.chars)) w := by
  simp only [testNode, rncNode, N, ofList_cons, ofList_nil]
  rw [walk_nohandler _ _ _ _ lk_NodeTest, walkFirst_nt, walk_nohandler _ _ _ _ lk_NodeTest, walkFirst_nt, walk, walk]
  simp only [lk_NameTestQNameLocalOnlyReservedNameConflict, lk_NameTestQNameLocalOnly]
  simp [PTs.text, PT.text, tokText, walk_nohandler]

/-- `p:child`, `child:x`, `child:self`, `child:*`, `*:child` -/
theorem rnc_qname_local (p : Chars) (k : Kw) (w : WCtx) :
    walk tbl (N "NodeTest" [N "NameTestQNameNamespaceWithLocalReservedNameConflictLocal" [.tk (.ncname p), tkp .colon, rncNode k]]) w =
    walk tbl (testNode (.qname p k.chars)) w := by
  simp only [testNode, rncNode, N, ofList_cons, ofList_nil]
  rw [walk_nohandler _ _ _ _ lk_NodeTest, walkFirst_nt, walk_nohandler _ _ _ _ lk_NodeTest, walkFirst_nt, walk, walk]
  simp [PTs.tokText, PTs.ntText, PT.isNt, PTs.text, PT.text, tokText, tkp]

theorem rnc_qname_ns (k : Kw) (l : Chars) (w : WCtx) :
    walk tbl (N "NodeTest" [N "NameTestQNameNamespaceWithLocalReservedNameConflictNamespace" [rncNode k, tkp .colon, .tk (.ncname l)]]) w =
    walk tbl (testNode (.qname k.chars l)) w := by
  simp only [testNode, rncNode, N, ofList_cons, ofList_nil]
  rw [walk_nohandler _ _ _ _ lk_NodeTest, walkFirst_nt, walk_nohandler _ _ _ _ lk_NodeTest, walkFirst_nt, walk, walk]
  simp [PTs.tokText, PTs.ntText, PT.isNt, PTs.text, PT.text, tokText, tkp]

theorem rnc_qname_both (k1 k2 : Kw) (w : WCtx) :
    walk tbl (N "NodeTest" [N "NameTestQNameNamespaceWithLocalReservedNameConflictBoth" [rncNode k1, tkp .colon, rncNode k2]]) w =
    walk tbl (testNode (.qname k1.chars k2.chars)) w := by
  simp only [testNode, rncNode, N, ofList_cons, ofList_nil]
  rw [walk_nohandler _ _ _ _ lk_NodeTest, walkFirst_nt, walk_nohandler _ _ _ _ lk_NodeTest, walkFirst_nt, walk, walk]
  simp [PTs.tokText, PTs.ntText, PT.isNt, PTs.text, PT.text, tokText, tkp]

theorem rnc_nsAny (k : Kw) (w : WCtx) :
    walk tbl (N "NodeTest" [N "NameTestNamespaceAnyLocalReservedNameConflict" [rncNode k, tkp .colon, tkp .star]]) w =
    walk tbl (testNode (.nsAny k.chars)) w := by
  simp only [testNode, rncNode, N, ofList_cons, ofList_nil]
  rw [walk_nohandler _ _ _ _ lk_NodeTest, walkFirst_nt, walk_nohandler _ _ _ _ lk_NodeTest, walkFirst_nt, walk, walk]
  simp [PTs.tokText, PTs.ntText, PT.isNt, PTs.text, PT.text, tokText, tkp]

theorem rnc_localAny (k : Kw) (w : WCtx) :
    walk tbl (N "NodeTest" [N "NameTestLocalAnyNamespaceReservedNameConflict" [tkp .star, tkp .colon, rncNode k]]) w =
    walk tbl (testNode (.localAny k.chars)) w := by
  simp only [testNode, rncNode, N, ofList_cons, ofList_nil]
  rw [walk_nohandler _ _ _ _ lk_NodeTest, walkFirst_nt, walk_nohandler _ _ _ _ lk_NodeTest, walkFirst_nt, walk, walk]
  simp [PTs.tokText, PTs.ntText, PT.isNt, PTs.text, PT.text, tokText, tkp]

/-- a step without axis specifier WITH predicates (`t[p]…`) is `child::t[p]…` -/
theorem abbrev_child_preds (t : NodeTest) (D : PT) (w : WCtx) (hD : D.isNt = true) :
    walk tbl (N "Step" [N "NodeTestAndPredicate" [testNode t, D]]) w =
    walk tbl (N "Step" [N "StepWithAxisAndNodeTestAndPredicate" [N "StepWithAxisAndNodeTest" [axisNode .child, testNode t], D]]) w := by
  have ht : (testNode t).isNt = true := by cases t <;> rfl
  have ha : (axisNode .child).isNt = true := rfl
  -- the body of execStep from a node-set `s`, the same for both spellings
  have body : ∀ (x : WCtx) (s : List Nat), x.res = .nodes s → x.principal = .elem →
      walk tbl (N "NodeTestAndPredicate" [testNode t, D]) (x.set (.nodes (Model.axis x.c.a .child s))) =
      walk tbl (N "StepWithAxisAndNodeTestAndPredicate" [N "StepWithAxisAndNodeTest" [axisNode .child, testNode t], D]) x := by
    intro x s hres hk
    simp only [N, ofList_cons, ofList_nil]
    rw [walk, walk]
    simp only [lk_NodeTestAndPredicate, lk_StepWithAxisAndNodeTestAndPredicate]
    rw [walkNth_cons_nt0 _ _ _ _ ht, walkNth_nt0]
    simp only [walkNth_one _ _ _ _ ht, walkNth_ntS, walkNth_cons_nt0 _ _ _ _ hD]
    congr 1
    rw [walk]
    simp only [lk_StepWithAxisAndNodeTest]
    rw [walkNth_cons_nt0 _ _ _ _ ha]
    simp only [walkNth_one _ _ _ _ ha, walkNth_cons_nt0 _ _ _ _ ht]
    rw [walk_axisNode .child x s hres, hk]
    cases x with
    | mk c k =>
      simp only at hk
      subst hk
      rfl
  simp only [N, ofList_cons, ofList_nil] at body ⊢
  rw [walk, walk]
  simp only [lk_Step, PTs.lastNtName, PT.isNt, PT.name, implicitChild]
  simp [walkLast_cons, WCtx.res]
  cases hr : w.c.result with
  | nodes s =>
    simp only
    by_cases hl : 1 < s.length
    · simp only [hl, if_true]
      congr 2
      funext n
      have := body ((⟨w.c, .elem⟩ : WCtx).set (.nodes [n])) [n] rfl rfl
      simp only [WCtx.set, WCtx.res] at this ⊢
      rw [← this]
    · simp only [hl, if_false]
      have := body ⟨w.c, .elem⟩ s (by simpa [WCtx.res] using hr) rfl
      simp only [WCtx.set, WCtx.res] at this ⊢
      rw [← this]
  | num n =>
    have := walk_stepBody_notNodes .child t D ⟨w.c, .elem⟩ (fun l h => by simp [WCtx.res, hr] at h)
    simp only [N, ofList_cons, ofList_nil] at this
    simp [this]
  | str n =>
    have := walk_stepBody_notNodes .child t D ⟨w.c, .elem⟩ (fun l h => by simp [WCtx.res, hr] at h)
    simp only [N, ofList_cons, ofList_nil] at this
    simp [this]
  | bool n =>
    have := walk_stepBody_notNodes .child t D ⟨w.c, .elem⟩ (fun l h => by simp [WCtx.res, hr] at h)
    simp only [N, ofList_cons, ofList_nil] at this
    simp [this]

end Xsel.Walk
