/-
  Proofs/Lemmas/StoreScope.lean — the namespace nodes `Store.finish` creates for an element
  (`resolve pending parentBindings`) follow the scope rule of the specification (`Spec.bind`).
-/
import Proofs.Lemmas.StoreSort
import Xsel.Store

namespace Xsel.StoreL
open Xsel Xsel.Spec Xsel.Store

/-- the bindings of the namespace nodes `finish` allocates: the non-empty own declarations, then
    the parent's bindings whose prefix is not redeclared -/
def resolve (P B : List (Chars × Chars)) : List (Chars × Chars) :=
  P.filter (fun pu => !pu.2.isEmpty) ++ B.filter (fun b => !P.any (fun pu => pu.1 == b.1))

theorem resolve_nil (B : List (Chars × Chars)) : resolve [] B = B := by
  simp [resolve]

theorem declare_any (p u : Chars) (q : Chars) : ∀ P : List (Chars × Chars),
    (declare p u P).any (fun pu => pu.1 == q) = (P.any (fun pu => pu.1 == q) || p == q)
  | [] => by simp [declare]
  | (p', u') :: t => by
    simp only [declare]
    split
    · next h =>
      have : p' = p := by simpa using h
      subst this
      simp [Bool.or_comm]
    · simp [declare_any p u q t, Bool.or_assoc]

/-- the prefixes of the pending declarations are distinct -/
def NodupP (P : List (Chars × Chars)) : Prop := P.Pairwise (fun x y => x.1 ≠ y.1)

theorem declare_mem {p u : Chars} : ∀ {P : List (Chars × Chars)} {x : Chars × Chars},
    x ∈ declare p u P → x.1 = p ∨ x ∈ P
  | [], x, h => by simp [declare] at h; subst h; exact Or.inl rfl
  | (p', u') :: t, x, h => by
    simp only [declare] at h
    split at h
    · rcases List.mem_cons.mp h with rfl | h
      · exact Or.inl rfl
      · exact Or.inr (List.mem_cons_of_mem _ h)
    · rcases List.mem_cons.mp h with rfl | h
      · exact Or.inr (List.mem_cons_self ..)
      · rcases declare_mem h with h | h
        · exact Or.inl h
        · exact Or.inr (List.mem_cons_of_mem _ h)

theorem declare_nodup (p u : Chars) : ∀ {P : List (Chars × Chars)}, NodupP P →
    NodupP (declare p u P)
  | [], _ => by simp [declare, NodupP]
  | (p', u') :: t, h => by
    have hc := List.pairwise_cons.mp h
    simp only [declare]
    split
    · next hp =>
      have : p' = p := by simpa using hp
      subst this
      exact List.pairwise_cons.mpr ⟨fun y hy => hc.1 y hy, hc.2⟩
    · next hp =>
      have hne : p' ≠ p := by simpa using hp
      refine List.pairwise_cons.mpr ⟨?_, declare_nodup p u hc.2⟩
      intro y hy
      rcases declare_mem hy with hy | hy
      · rw [hy]; exact hne
      · exact hc.1 y hy

theorem declare_filter (p u : Chars) : ∀ {P : List (Chars × Chars)}, NodupP P →
    ((declare p u P).filter (fun pu => !pu.2.isEmpty)).Perm
      ((if u.isEmpty then [] else [(p, u)])
        ++ P.filter (fun pu => pu.1 != p && !pu.2.isEmpty))
  | [], _ => by
    cases hu : u.isEmpty <;> simp [declare, hu]
  | (p', u') :: t, h => by
    have hc := List.pairwise_cons.mp h
    simp only [declare]
    split
    · next hp =>
      have : p' = p := by simpa using hp
      subst this
      have ht : t.filter (fun pu => pu.1 != p' && !pu.2.isEmpty)
          = t.filter (fun pu => !pu.2.isEmpty) := by
        apply List.filter_congr
        intro y hy
        have : y.1 ≠ p' := fun e => hc.1 y hy e.symm
        simp [this]
      cases hu : u.isEmpty <;> simp [hu, ht]
    · next hp =>
      have hne : p' ≠ p := by simpa using hp
      have ih := declare_filter p u hc.2
      have hb : ((p', u').1 != p) = true := by simpa using hne
      cases hu' : u'.isEmpty
      · rw [List.filter_cons_of_pos (by simp [hu']),
          List.filter_cons_of_pos (by simp only [hb, hu']; rfl)]
        exact (ih.cons (p', u')).trans List.perm_middle.symm
      · rw [List.filter_cons_of_neg (by simp [hu']),
          List.filter_cons_of_neg (by simp [hu'])]
        exact ih

theorem bind_perm (p u : Chars) {sc sc' : List (Chars × Chars)} (h : sc.Perm sc') :
    (Spec.bind p u sc).Perm (Spec.bind p u sc') := by
  simp only [Spec.bind]
  split
  · exact h.filter _
  · exact (h.filter _).cons _

theorem resolve_declare (p u : Chars) {P : List (Chars × Chars)} (B : List (Chars × Chars))
    (h : NodupP P) : (resolve (declare p u P) B).Perm (Spec.bind p u (resolve P B)) := by
  have hB : B.filter (fun b => !(declare p u P).any (fun pu => pu.1 == b.1))
      = (B.filter (fun b => !P.any (fun pu => pu.1 == b.1))).filter (fun b => b.1 != p) := by
    rw [List.filter_filter]
    apply List.filter_congr
    intro b _
    rw [declare_any]
    by_cases e : p = b.1
    · subst e; simp
    · have e' : b.1 ≠ p := fun h => e h.symm
      have h1 : (p == b.1) = false := by simpa using e
      have h2 : (b.1 != p) = true := by simpa using e'
      rw [h1, h2]; simp
  have hP := declare_filter p u h
  simp only [resolve, Spec.bind, hB, List.filter_append, List.filter_filter]
  cases hu : u.isEmpty
  · simp only [hu, Bool.false_eq_true, if_false] at hP ⊢
    exact (hP.append_right _)
  · simp only [hu, if_true] at hP ⊢
    exact (hP.append_right _)

end Xsel.StoreL
