/-
  Proofs/Lemmas/ParseRender.lean — the parser reads every canonical spelling (`Xsel/Render.lean`) back
  as the tree it came from: `parseToks c (renderTop e) = some (normCtx e)` for every well-formed `e`.

  Architecture: fuel monotonicity (`ParseRenderMono`), the parser seen by levels with explicit
  continuations (`ParseRenderDefs`, `ParseRenderBasics`), the token-level readers (`ParseRenderToks`),
  one lemma per constructor (`ParseRenderCases`), and here: the mutual structural induction, the
  bound of the fuel `costAt` by the length of the spelling, and the theorem.
-/
import Proofs.Lemmas.ParseRenderCases

namespace Xsel.Syntax

theorem opLevel_le5_of_ne {op : BinOp} (h : op ≠ .union) : opLevel op ≤ 5 := by
  cases op with
  | cmp o => cases o <;> simp [opLevel]
  | union => exact absurd rfl h
  | _ => simp [opLevel]

mutual
theorem reads (c : Cfg) : (e : Expr) → wfE e = true → Reads c e
  | .bin op l r, h => by
    simp only [wfE, Bool.and_eq_true] at h
    by_cases hu : op = .union
    · subst hu; exact reads_of_at (readsAt_union (reads c l h.1) (reads c r h.2))
    · exact reads_of_at (readsAt_bin (opLevel_le5_of_ne hu) (reads c l h.1) (reads c r h.2))
  | .neg e, h => by
    simp only [wfE] at h
    exact reads_of_at (readsAt_neg (reads c e h))
  | .num n, h => by
    simp only [wfE] at h
    exact reads_of_at (readsAt_num h)
  | .lit s, _ => reads_of_at readsAt_lit
  | .var p n, h => reads_of_at (readsAt_var h)
  | .call b p n as, h => by
    simp only [wfE, Bool.and_eq_true] at h
    by_cases hb : b = .ctx
    · subst hb; exact reads_of_at (readsAt_call_ctx (readsArgs c as h.2))
    · exact reads_of_at (readsAt_call_ne hb (fun _ _ => reads c b h.1) (readsArgs c as h.2))
  | .root, _ => reads_of_at readsAt_root
  | .ctx, _ => reads_of_at readsAt_ctx
  | .step b ax t ps, h => by
    simp only [wfE, Bool.and_eq_true] at h
    exact reads_of_at (readsAt_step (fun _ _ => reads c b h.1) (readsPreds c ps h.2))
  | .filt b p, h => by
    simp only [wfE, Bool.and_eq_true] at h
    exact reads_of_at (readsAt_filt (reads c b h.1) (reads c p h.2))
theorem readsPreds (c : Cfg) : (ps : Exprs) → wfEs ps = true → ReadsPreds c ps
  | .nil, _ => readsPreds_nil
  | .cons p ps, h => by
    simp only [wfEs, Bool.and_eq_true] at h
    exact readsPreds_cons (reads c p h.1) (readsPreds c ps h.2)
theorem readsArgs (c : Cfg) : (as : Exprs) → wfEs as = true → ReadsArgs c as
  | .nil, _ => readsArgs_nil
  | .cons a as, h => by
    simp only [wfEs, Bool.and_eq_true] at h
    exact readsArgs_cons (reads c a h.1) (readsArgs c as h.2)
end


/-! ### the fuel bound is at most 20 per token -/

theorem wrap_bound {lv min n : Nat} {ts : Toks} (_hlv : lv ≤ 9) (hmin : min ≤ 9)
    (h : n + 2 * lv ≤ 20 * ts.length) : n + tw lv min ≤ 20 * (wrap lv min ts).length := by
  unfold tw wrap
  by_cases hw : lv < min
  · simp only [if_pos hw, List.length_cons, List.length_append, List.length_nil]; omega
  · simp only [if_neg hw]; omega

theorem costAt_bound {e : Expr} {min : Nat} (hmin : min ≤ 9)
    (h : own e + 2 * level e ≤ 20 * (raw e).length) : costAt e min ≤ 20 * (render e min).length :=
  wrap_bound (level_le e) hmin h

theorem ownBase_bound {b : Expr} (h : own b + 2 * level b ≤ 20 * (raw b).length) :
    ownBase b ≤ 20 * (basePrefix b).length := by
  by_cases h1 : b = .ctx
  · subst h1; simp [ownBase]
  by_cases h2 : b = .root
  · subst h2; simp [ownBase]
  · rw [ownBase_of_ne h1 h2, basePrefix_of_ne h1 h2, List.length_append]
    have := costAt_bound (min := 8) (by omega) h
    omega

theorem numToks_length (n : Num) : 1 ≤ (numToks n).length := by
  obtain ⟨d, tl, h⟩ := numToks_cons n; rw [h]; simp

theorem fnToks_length (p : Option Chars) (n : Chars) : 1 ≤ (fnToks p n).length := by
  obtain ⟨d, tl, h⟩ := fnToks_cons p n; rw [h]; simp

theorem testToks_length (t : NodeTest) : 1 ≤ (testToks t).length := by
  cases t <;> simp [testToks]

mutual
theorem raw_bound : (e : Expr) → own e + 2 * level e ≤ 20 * (raw e).length
  | .bin op l r => by
    have h1 := costAt_bound (min := opLevel op) (by have := opLevel_le op; omega) (raw_bound l)
    have h2 := costAt_bound (min := opLevel op + 1) (by have := opLevel_le op; omega) (raw_bound r)
    have := opLevel_le op
    simp only [own, level_bin, raw, List.length_append, List.length_cons]
    unfold costAt render at h1 h2
    omega
  | .neg e => by
    have h1 := costAt_bound (min := 6) (by omega) (raw_bound e)
    simp only [own, level_neg, raw, List.length_cons]
    unfold costAt render at h1
    omega
  | .num n => by
    have := numToks_length n
    simp only [own, level, raw]; omega
  | .lit s => by simp [own, level, raw]
  | .var p n => by simp [own, level, raw]
  | .call b p n as => by
    have h1 := ownBase_bound (raw_bound b)
    have h2 := args_bound as
    have h3 := fnToks_length p n
    have h4 := level_le (.call b p n as)
    simp only [own, raw, List.length_append, List.length_cons]
    omega
  | .root => by simp [own, level, raw]
  | .ctx => by simp [own, level, raw]
  | .step b ax t ps => by
    have h1 := ownBase_bound (raw_bound b)
    have h2 := preds_bound ps
    have h3 := testToks_length t
    simp only [own, raw, level_step, List.length_append, List.length_cons]
    omega
  | .filt b p => by
    have h1 := costAt_bound (min := 9) (by omega) (raw_bound b)
    have h2 := costAt_bound (min := 0) (by omega) (raw_bound p)
    simp only [own, level_filt, raw, List.length_append, List.length_cons, List.length_nil]
    unfold costAt render at h1 h2
    omega
theorem preds_bound : (ps : Exprs) → ownPreds ps ≤ 20 * (renderPreds ps).length + 1
  | .nil => by simp [ownPreds, renderPreds]
  | .cons p ps => by
    have h1 := costAt_bound (min := 0) (by omega) (raw_bound p)
    have h2 := preds_bound ps
    simp only [ownPreds, renderPreds, List.length_append, List.length_cons]
    unfold costAt render at h1
    omega
theorem args_bound : (as : Exprs) → ownArgs as ≤ 20 * (renderArgs as).length
  | .nil => by simp [ownArgs, renderArgs]
  | .cons a as => by
    have h1 := costAt_bound (min := 0) (by omega) (raw_bound a)
    have h2 := args_bound as
    unfold costAt render at h1
    cases as with
    | nil =>
      simp only [ownArgs, renderArgs, List.length_append, List.length_cons, List.length_nil] at h2 ⊢
      omega
    | cons b bs =>
      simp only [ownArgs, renderArgs, List.length_append, List.length_cons] at h2 ⊢
      omega
end


/-! ### the theorem -/

theorem pBin_renderTop (c : Cfg) (e : Expr) (h : wfE e = true) :
    pBin c (fuelFor (renderTop e)) 0 (renderTop e) = some (normCtx e, []) := by
  by_cases hr : e = .root
  · subst hr
    have hin := tower (c := c) (x := .root) (ts := [U (.p .slash)]) (rest := []) (L := 8) (K := 0) (by omega)
      (by
        intro f R hf ha
        obtain ⟨f, rfl⟩ : ∃ f', f = f' + 1 := ⟨f - 1, by omega⟩
        rw [entryThen_8, Nat.add_zero, pPath_succ]
        rw [after_8] at ha
        simpa [T, U, startsStep, pathCont] using ha)
      8 0 (by omega) rfl 1 (.root, []) (Nat.le_refl _) (by rw [after_bin (by omega)]; rfl)
    rw [entryThen_bin (by omega)] at hin
    exact pBin_mono hin (by simp [renderTop, fuelFor])
  · have hrt : renderTop e = render e 0 := by
      cases e <;> first | rfl | exact absurd rfl hr
    have := reads c e h 0 [] 1 (normCtx e, []) (by omega) rfl (Nat.le_refl _) (by rw [after_bin (by omega)]; rfl)
    rw [entryThen_bin (by omega), List.append_nil] at this
    rw [hrt]
    have hb := costAt_bound (e := e) (min := 0) (by omega) (raw_bound e)
    exact pBin_mono this (by unfold fuelFor; omega)

/-- the parser reads every canonical spelling back as the tree it came from -/
theorem parse_render (c : Cfg) (hg : c.glue = true) (e : Expr) (h : wfE e = true) :
    parseToks c (renderTop e) = some (normCtx e) := by
  have _ := hg
  unfold parseToks
  rw [pBin_renderTop c e h]

theorem parse_render_model (e : Expr) (h : wfE e = true) :
    parseToks cfgModel (renderTop e) = some (normCtx e) := parse_render cfgModel rfl e h

theorem parse_render_spec (e : Expr) (h : wfE e = true) :
    parseToks cfgSpec (renderTop e) = some (normCtx e) := parse_render cfgSpec rfl e h

/-- rendered tokens are marked adjacent wherever the parser may ask for it (inside QName, `p:*`,
    `*:x`, Number), so the adjacency switch does not matter -/
theorem parse_render_any (c : Cfg) (e : Expr) (h : wfE e = true) :
    parseToks c (renderTop e) = some (normCtx e) := by
  unfold parseToks
  rw [pBin_renderTop c e h]

end Xsel.Syntax
