/-
  Proofs/Lemmas/EvalBasic.lean — syntactic side conditions of the refinement theorem, and the
  elementary facts about the helpers of the evaluator (node tests are filters, predicates
  return sublists, `concatMapE`).
-/
import Proofs.Lemmas.EvalFuncs

namespace Xsel
open Arena

/-! ## syntactic predicates -/

/-- `ascending ca e`: the evaluators provably return the node-set of `e` in ascending document
    order (`ca`: the context value is listed in ascending order).  Union, filter expressions,
    variables, the root, steps along a forward axis; `self` steps keep the order of their base. -/
def ascending (ca : Bool) : Expr → Bool
  | .bin _ _ _ => true
  | .neg _ => true
  | .num _ => true
  | .lit _ => true
  | .var _ _ => true
  | .root => true
  | .filt _ _ => true
  | .ctx => ca
  | .call _ _ _ _ => false
  | .step base ax _ _ => if ax = .self then ascending ca base else !ax.isReverse

/-- the argument of `sum(arg)` -/
def sumArgAsc (ca : Bool) : Exprs → Bool
  | .cons x .nil => ascending ca x
  | _ => true

mutual
/-- every call `sum(arg)` has an argument that is listed in ascending order (IEEE addition is
    not associative), and every call `lang(s)` is evaluated on a context node-set listed in
    ascending order (the first context node with an `xml:lang` in scope decides).
    `ca`: the context value of the expression is listed in ascending order. -/
def sumSafe (ca : Bool) : Expr → Bool
  | .bin _ l r => sumSafe ca l && sumSafe ca r
  | .neg e => sumSafe ca e
  | .call base _ name args =>
      sumSafe ca base && sumSafeL (ascending ca base) args
      && (String.ofList name != "sum" || sumArgAsc (ascending ca base) args)
      && (String.ofList name != "lang" || ascending ca base)
  | .step base _ _ preds => sumSafe ca base && sumSafeL true preds
  | .filt base p => sumSafe ca base && sumSafe true p
  | _ => true
def sumSafeL (ca : Bool) : Exprs → Bool
  | .nil => true
  | .cons e es => sumSafe ca e && sumSafeL ca es
end

/-- the prefix of a node test is bound -/
def NodeTest.bound (env : Env) : NodeTest → Bool
  | .nsAny p => (lookup p env.ns).isSome
  | .qname p _ => (lookup p env.ns).isSome
  | _ => true

mutual
/-- every prefix used in a node test is bound in the environment.
    (No longer a hypothesis of the refinement theorem: both evaluators resolve the prefix of a
    node test before they look at the context nodes, so both fail on an unbound prefix; the
    definition is kept for reference.) -/
def prefixesBound (env : Env) : Expr → Bool
  | .bin _ l r => prefixesBound env l && prefixesBound env r
  | .neg e => prefixesBound env e
  | .call base _ _ args => prefixesBound env base && prefixesBoundL env args
  | .step base _ t preds => prefixesBound env base && t.bound env && prefixesBoundL env preds
  | .filt base p => prefixesBound env base && prefixesBound env p
  | _ => true
def prefixesBoundL (env : Env) : Exprs → Bool
  | .nil => true
  | .cons e es => prefixesBound env e && prefixesBoundL env es
end

/-! ## monadic plumbing -/

theorem bind_ok {α β : Type} {x : Except Err α} {f : α → Except Err β} {v : β} :
    (x >>= f) = .ok v ↔ ∃ u, x = .ok u ∧ f u = .ok v := by
  cases x <;> simp [bind, Except.bind]

theorem pure_ok {α : Type} {u v : α} : (pure u : Except Err α) = .ok v ↔ u = v := by
  simp [pure, Except.pure]

theorem throw_ok {α : Type} {e : Err} {v : α} : (throw e : Except Err α) = .ok v ↔ False := by
  simp [throw, throwThe, MonadExceptOf.throw]

theorem nodes?_ok {b : Val} {s : List Nat} : b.nodes? = .ok s ↔ b = .nodes s := by
  cases b <;> simp [Val.nodes?]

/-! ## node tests are filters -/

/-- the node test as a predicate on nodes (when its prefix is bound) -/
def NodeTest.keep (a : Arena) (env : Env) (ax : Axis) : NodeTest → Nat → Bool
  | .node => fun _ => true
  | .text => fun j => a.kind j == .text
  | .comment => fun j => a.kind j == .comment
  | .pi => fun j => a.kind j == .pi
  | .piTarget s => fun j => a.kind j == .pi && (a.cell j).loc == s
  | .any => fun j => a.kind j == NodeTest.principal ax
  | .nsAny p => fun j => NodeTest.named a j && a.kind j == NodeTest.principal ax
      && (a.cell j).uri == (lookup p env.ns).getD []
  | .localAny n => fun j => NodeTest.named a j && a.kind j == NodeTest.principal ax
      && (a.cell j).loc == n
  | .qname p n => fun j => NodeTest.named a j && a.kind j == NodeTest.principal ax
      && (a.cell j).loc == n && (a.cell j).uri == (lookup p env.ns).getD []
  | .name n => fun j =>
    (NodeTest.named a j && a.kind j == NodeTest.principal ax && (a.cell j).uri == []
        && (a.cell j).loc == n)
      || (a.kind j == .ns && NodeTest.principal ax == .ns
        && (a.cell j).val == (lookup n env.ns).getD [])

theorem NodeTest.apply_eq (a : Arena) (env : Env) (ax : Axis) {t : NodeTest}
    (hb : t.bound env = true) (l : List Nat) :
    NodeTest.apply a env ax t l = .ok (l.filter (NodeTest.keep a env ax t)) := by
  cases t <;> simp only [NodeTest.bound] at hb <;> simp only [NodeTest.apply, NodeTest.keep]
  case node => simp; exact (List.filter_eq_self.mpr (fun _ _ => rfl)).symm
  case nsAny p =>
    cases hl : lookup p env.ns with
    | none => simp [hl] at hb
    | some u => simp
  case qname p n =>
    cases hl : lookup p env.ns with
    | none => simp [hl] at hb
    | some u => simp

theorem NodeTest.apply_sublist {a : Arena} {env : Env} {ax : Axis} {t : NodeTest} {l r : List Nat}
    (h : NodeTest.apply a env ax t l = .ok r) : r.Sublist l := by
  cases t <;> simp only [NodeTest.apply] at h
  case node => cases h; exact List.Sublist.refl _
  case nsAny p =>
    split at h
    · cases h
    · cases h; exact List.filter_sublist
  case qname p n =>
    split at h
    · cases h
    · cases h; exact List.filter_sublist
  all_goals (cases h; exact List.filter_sublist)

/-! ## the node test on the empty list: resolution of the prefix, nothing else -/

/-- a node test whose prefix is not bound is an error on every node list -/
theorem NodeTest.apply_unbound (a : Arena) (env : Env) (ax : Axis) {t : NodeTest}
    (hb : t.bound env = false) (l : List Nat) :
    NodeTest.apply a env ax t l = .error .unboundPrefix := by
  cases t <;> simp only [NodeTest.bound] at hb <;> try (exact absurd hb (by decide))
  case nsAny p =>
    cases hl : lookup p env.ns with
    | none => simp only [NodeTest.apply, hl]
    | some u => simp [hl] at hb
  case qname p n =>
    cases hl : lookup p env.ns with
    | none => simp only [NodeTest.apply, hl]
    | some u => simp [hl] at hb

theorem NodeTest.apply_nil_bound (a : Arena) (env : Env) (ax : Axis) {t : NodeTest}
    (hb : t.bound env = true) : NodeTest.apply a env ax t [] = .ok [] := by
  rw [NodeTest.apply_eq a env ax hb]; rfl

/-- on the empty list the node test only resolves its prefix -/
theorem NodeTest.apply_nil_cases (a : Arena) (env : Env) (ax : Axis) (t : NodeTest) :
    NodeTest.apply a env ax t [] = .ok [] ∨ NodeTest.apply a env ax t [] = .error .unboundPrefix := by
  cases hb : t.bound env
  · exact .inr (NodeTest.apply_unbound a env ax hb [])
  · exact .inl (NodeTest.apply_nil_bound a env ax hb)

theorem NodeTest.bound_of_ok {a : Arena} {env : Env} {ax : Axis} {t : NodeTest} {l r : List Nat}
    (h : NodeTest.apply a env ax t l = .ok r) : t.bound env = true := by
  cases hb : t.bound env
  · rw [NodeTest.apply_unbound a env ax hb l] at h; cases h
  · rfl

/-- a node test that succeeds on some list succeeds on the empty list -/
theorem NodeTest.apply_nil_of_ok {a : Arena} {env : Env} {ax : Axis} {t : NodeTest} {l r : List Nat}
    (h : NodeTest.apply a env ax t l = .ok r) : NodeTest.apply a env ax t [] = .ok [] :=
  NodeTest.apply_nil_bound a env ax (NodeTest.bound_of_ok h)

theorem NodeTest.apply_nil_ok_iff {a : Arena} {env : Env} {ax : Axis} {t : NodeTest} {r : List Nat} :
    NodeTest.apply a env ax t [] = .ok r ↔ (t.bound env = true ∧ r = []) := by
  constructor
  · intro h
    have hb := NodeTest.bound_of_ok h
    rw [NodeTest.apply_nil_bound a env ax hb] at h
    cases h; exact ⟨hb, rfl⟩
  · rintro ⟨hb, rfl⟩; exact NodeTest.apply_nil_bound a env ax hb

/-- an error on the empty list is the same error on every list -/
theorem NodeTest.apply_error_of_nil {a : Arena} {env : Env} {ax : Axis} {t : NodeTest} {e : Err}
    (h : NodeTest.apply a env ax t [] = .error e) (l : List Nat) :
    NodeTest.apply a env ax t l = .error e := by
  cases hb : t.bound env
  · rw [NodeTest.apply_unbound a env ax hb] at h ⊢; exact h
  · rw [NodeTest.apply_nil_bound a env ax hb] at h; cases h

/-- the check that precedes the per-node loop is redundant as soon as the loop runs once -/
theorem NodeTest.nil_bind_apply (a : Arena) (env : Env) (ax : Axis) (t : NodeTest) (l : List Nat)
    {β : Type} (k : List Nat → Except Err β) :
    (NodeTest.apply a env ax t [] >>= fun _ => NodeTest.apply a env ax t l >>= k)
      = (NodeTest.apply a env ax t l >>= k) := by
  cases hb : t.bound env
  · rw [NodeTest.apply_unbound a env ax hb, NodeTest.apply_unbound a env ax hb]; rfl
  · rw [NodeTest.apply_nil_bound a env ax hb]; rfl

/-! ## predicates return sublists -/

theorem filterIdx_sublist (test : Nat → Nat → Except Err Bool) :
    ∀ (l : List Nat) (i : Nat) {r : List Nat}, filterIdx test l i = .ok r → r.Sublist l
  | [], i, r, h => by
    simp only [filterIdx, Except.ok.injEq] at h
    subst h; exact List.Sublist.refl _
  | n :: t, i, r, h => by
    simp only [filterIdx, bind_ok, pure_ok] at h
    obtain ⟨keep, _, rest, hrest, e⟩ := h
    have ih := filterIdx_sublist test t (i + 1) hrest
    subst e
    split
    · exact ih.cons_cons _
    · exact ih.cons _

theorem filterIdx_nil (test : Nat → Nat → Except Err Bool) (i : Nat) :
    filterIdx test [] i = .ok [] := rfl

theorem applyPred_sublist (sem : Sem) (p : Expr) (c : Ctx) (l : List Nat) {r : List Nat}
    (h : applyPred sem p c l = .ok r) : r.Sublist l := by
  rw [applyPred] at h
  exact filterIdx_sublist _ l 0 h

theorem applyPred_nil (sem : Sem) (p : Expr) (c : Ctx) : applyPred sem p c [] = .ok [] := by
  rw [applyPred]; rfl

theorem applyPreds_sublist (sem : Sem) :
    ∀ (ps : Exprs) (c : Ctx) (l : List Nat) {r : List Nat},
      applyPreds sem ps c l = .ok r → r.Sublist l
  | .nil, c, l, r, h => by
    rw [applyPreds] at h
    simp only [Except.ok.injEq] at h
    subst h; exact List.Sublist.refl _
  | .cons p ps, c, l, r, h => by
    rw [applyPreds] at h
    simp only [bind_ok] at h
    obtain ⟨kept, h1, h2⟩ := h
    exact (applyPreds_sublist sem ps c kept h2).trans (applyPred_sublist sem p c l h1)

theorem applyPreds_nil_list (sem : Sem) : ∀ (ps : Exprs) (c : Ctx), applyPreds sem ps c [] = .ok []
  | .nil, c => by rw [applyPreds]
  | .cons p ps, c => by
    rw [applyPreds, applyPred_nil]
    exact applyPreds_nil_list sem ps c

theorem applyPreds_isNil (sem : Sem) {ps : Exprs} (h : ps.isNil = true) (c : Ctx) (l : List Nat) :
    applyPreds sem ps c l = .ok l := by
  cases ps with
  | nil => rw [applyPreds]
  | cons p ps => simp [Exprs.isNil] at h

/-! ## `concatMapE` -/

theorem concatMapE_pure (g : Nat → List Nat) :
    ∀ s : List Nat, concatMapE (fun n => .ok (g n)) s = .ok (s.flatMap g)
  | [] => rfl
  | n :: t => by
    simp only [concatMapE, concatMapE_pure g t, List.flatMap_cons]
    rfl

theorem concatMapE_mem {f : Nat → Except Err (List Nat)} {x : Nat} :
    ∀ {s r : List Nat}, concatMapE f s = .ok r →
      (x ∈ r ↔ ∃ n ∈ s, ∃ l, f n = .ok l ∧ x ∈ l)
  | [], r, h => by
    simp only [concatMapE, Except.ok.injEq] at h
    subst h; simp
  | n :: t, r, h => by
    simp only [concatMapE, bind_ok, pure_ok] at h
    obtain ⟨l, hl, rest, hrest, e⟩ := h
    have ih := concatMapE_mem (x := x) hrest
    subst e
    simp only [List.mem_append, ih, List.mem_cons, exists_eq_or_imp, hl, Except.ok.injEq]
    constructor
    · rintro (hx | hx)
      · exact .inl ⟨l, rfl, hx⟩
      · exact .inr hx
    · rintro (⟨l', rfl, hx⟩ | hx)
      · exact .inl hx
      · exact .inr hx

theorem concatMapE_single (f : Nat → Except Err (List Nat)) (n : Nat) :
    concatMapE f [n] = (f n >>= fun r => pure (r ++ [])) := by
  simp only [concatMapE]
  cases f n <;> rfl

theorem concatMapE_congr {f g : Nat → Except Err (List Nat)} :
    ∀ {s : List Nat}, (∀ n ∈ s, ExRel Eq (f n) (g n)) →
      ExRel Eq (concatMapE f s) (concatMapE g s)
  | [], _ => rfl
  | n :: t, h => by
    simp only [concatMapE]
    refine ExRel.bind (h n List.mem_cons_self) ?_
    rintro u v _ _ rfl
    refine ExRel.bind (concatMapE_congr (fun m hm => h m (List.mem_cons_of_mem _ hm))) ?_
    rintro u' v' _ _ rfl
    exact rfl

theorem concatMapE_perm (f : Nat → Except Err (List Nat)) {s s' : List Nat} (hp : s.Perm s') :
    ExRel List.Perm (concatMapE f s) (concatMapE f s') := by
  induction hp with
  | nil => exact List.Perm.refl _
  | cons x _ ih =>
    simp only [concatMapE]
    refine ExRel.bind (ExRel.refl (R := Eq) (fun _ => rfl) (f x)) ?_
    rintro u v _ _ rfl
    refine ExRel.bind ih ?_
    intro u' v' _ _ hp'
    exact List.Perm.append (List.Perm.refl _) hp'
  | swap x y l =>
    simp only [concatMapE]
    cases f x <;> cases f y <;> cases concatMapE f l <;>
      simp [bind, Except.bind, pure, Except.pure, ExRel]
    rw [← List.append_assoc, ← List.append_assoc]
    exact List.Perm.append List.perm_append_comm (List.Perm.refl _)
  | trans _ _ ih1 ih2 =>
    exact ExRel.trans (R := List.Perm) (S := List.Perm) (T := List.Perm)
      (fun _ _ _ => List.Perm.trans) ih1 ih2

/-! ## the selectors of the model on node-sets -/

theorem model_axis_nil (a : Arena) (ax : Axis) : Model.axis a ax [] = [] := by
  cases ax <;> rfl

/-- `mem_axis_set` for every axis, `self` included -/
theorem mem_axis_set' (a : Arena) (ax : Axis) {s : List Nat} {x : Nat} :
    x ∈ Model.axis a ax s ↔ ∃ c ∈ s, x ∈ Model.axis a ax [c] := by
  by_cases hax : ax = .self
  · subst hax; simp [Model.axis]
  · exact Tree.mem_axis_set a hax

theorem model_axis_range {a : Arena} (h : wfb a = true) (ax : Axis) {s : List Nat}
    (hs : ∀ c ∈ s, c < a.size) {x : Nat} (hx : x ∈ Model.axis a ax s) : x < a.size := by
  obtain ⟨c, hc, hx'⟩ := (mem_axis_set' a ax).mp hx
  exact Tree.axis_range h ax (hs c hc) hx'

theorem model_axis_nodup (a : Arena) (ax : Axis) {s : List Nat} (hs : s.Nodup) :
    (Model.axis a ax s).Nodup := by
  by_cases hax : ax = .self
  · subst hax; exact hs
  · have := Tree.model_axis_sorted a hax s
    cases hr : ax.isReverse
    · rw [hr] at this; exact nodup_of_lt (by simpa using this)
    · rw [hr] at this; exact nodup_of_gt (by simpa using this)

/-- forward axes other than `self` return ascending lists; `self` keeps the listing -/
theorem model_axis_asc (a : Arena) {ax : Axis} {s : List Nat}
    (h : if ax = .self then s.Pairwise (· < ·) else ax.isReverse = false) :
    (Model.axis a ax s).Pairwise (· < ·) := by
  by_cases hax : ax = .self
  · subst hax; simpa [Model.axis] using h
  · simp only [hax, if_false] at h
    have := Tree.model_axis_sorted a hax s
    rw [h] at this
    simpa using this

end Xsel
