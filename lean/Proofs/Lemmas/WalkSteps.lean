/-
  Proofs/Lemmas/WalkSteps.lean — `walk` at the nodes of a location step: axis specifier, node test,
  `execStep` with and without predicates.
-/
import Proofs.Lemmas.WalkPreds
import Proofs.Lemmas.EvalBasic

namespace Xsel.Walk
open Xsel Xsel.Syntax

/-- the principal node type after `execAxisName` -/
def principalAfter (ax : Axis) (k : Kind) : Kind :=
  match ax with
  | .attribute => .attr
  | .namespace => .ns
  | _ => k

theorem axisOfText_axisText (ax : Axis) : axisOfText (axisText ax) = some ax := by
  cases ax <;> decide

theorem set_same (w : WCtx) (v : Val) (h : w.res = v) : w.set v = w := by
  cases w with
  | mk c k =>
    cases c
    simp only [WCtx.res] at h
    simp [WCtx.set, h]

theorem walk_axisNode (ax : Axis) (w : WCtx) (s : List Nat) (hres : w.res = .nodes s) :
    walk tbl (axisNode ax) w =
      .ok ({ w with principal := principalAfter ax w.principal }.set (.nodes (Model.axis w.c.a ax s))) := by
  simp only [axisNode, N, ofList_cons, ofList_nil]
  rw [walk_nohandler _ _ _ _ lk_AxisSpecifier, walkFirst_nt, walk_nohandler _ _ _ _ lk_AxisSpecifierWithAxisName,
    walkFirst_nt, walk]
  simp only [lk_AxisName, nodesOf, hres, PTs.text, PT.text, tokText, Kw.chars, List.append_nil, axisOfText_axisText]
  cases ax <;> simp [principalAfter, Model.axis, bind, Except.bind, pure, Except.pure] <;>
    (first | rfl | (rw [← hres]; exact (set_same w _ rfl).symm))

theorem walk_axisNode_notNodes (ax : Axis) (w : WCtx) (h : ∀ l, w.res ≠ .nodes l) :
    walk tbl (axisNode ax) w = .error (.err .notNodeSet) := by
  simp only [axisNode, N, ofList_cons, ofList_nil]
  rw [walk_nohandler _ _ _ _ lk_AxisSpecifier, walkFirst_nt, walk_nohandler _ _ _ _ lk_AxisSpecifierWithAxisName,
    walkFirst_nt, walk]
  simp only [lk_AxisName, nodesOf]
  cases hr : w.res with
  | nodes l => exact absurd hr (h l)
  | _ => rfl

theorem nameTest_node (w : WCtx) (l : List Nat) (hres : w.res = .nodes l) : nameTest w .node = .ok w := by
  simp [nameTest, hres, NodeTest.apply, set_same w _ hres]

/-- every node test of the grammar filters the current node-set by `Xsel.NodeTest.apply`, with the principal
    node type the axis left in the context -/
theorem walk_testNode (t : NodeTest) (w : WCtx) (l : List Nat) (hres : w.res = .nodes l) :
    walk tbl (testNode t) w = nameTest w t := by
  cases t with
  | node =>
    simp only [testNode, nodeTypeNode, N, ofList_cons, ofList_nil]
    rw [walk_nohandler _ _ _ _ lk_NodeTest, walkFirst_nt, walk]
    simp [hres, PTs.text, PT.text, tokText, Kw.chars, tkp, Punct.chars, nameTest_node w l hres]
  | text =>
    simp only [testNode, nodeTypeNode, N, ofList_cons, ofList_nil]
    rw [walk_nohandler _ _ _ _ lk_NodeTest, walkFirst_nt, walk]
    simp [hres, PTs.text, PT.text, tokText, Kw.chars, tkp, Punct.chars]
  | comment =>
    simp only [testNode, nodeTypeNode, N, ofList_cons, ofList_nil]
    rw [walk_nohandler _ _ _ _ lk_NodeTest, walkFirst_nt, walk]
    simp [hres, PTs.text, PT.text, tokText, Kw.chars, tkp, Punct.chars]
  | pi =>
    simp only [testNode, nodeTypeNode, N, ofList_cons, ofList_nil]
    rw [walk_nohandler _ _ _ _ lk_NodeTest, walkFirst_nt, walk]
    simp [hres, PTs.text, PT.text, tokText, Kw.chars, tkp, Punct.chars]
  | piTarget s =>
    simp only [testNode, N, ofList_cons, ofList_nil]
    rw [walk_nohandler _ _ _ _ lk_NodeTest, walkFirst_nt, walk]
    simp only [lk_NodeTestProcInstTargetTest, hres, walkLast_cons, ntCount_cons, ntCount_nil, isNt_tk, isNt_tkp]
    have hl : (litNode s).isNt = true := rfl
    simp [hl, walk_literal, WCtx.set, WCtx.res, Model.toStr]
    rfl
  | any =>
    simp only [testNode, N, ofList_cons, ofList_nil]
    rw [walk_nohandler _ _ _ _ lk_NodeTest, walkFirst_nt, walk]
    simp
  | nsAny p =>
    simp only [testNode, N, ofList_cons, ofList_nil]
    rw [walk_nohandler _ _ _ _ lk_NodeTest, walkFirst_nt, walk]
    simp [PTs.tokText, tokText]
  | localAny n =>
    simp only [testNode, N, ofList_cons, ofList_nil]
    rw [walk_nohandler _ _ _ _ lk_NodeTest, walkFirst_nt, walk]
    simp [PTs.tokText, tokText, tkp]
  | qname p n =>
    simp only [testNode, N, ofList_cons, ofList_nil]
    rw [walk_nohandler _ _ _ _ lk_NodeTest, walkFirst_nt, walk]
    simp [PTs.tokText, tokText, tkp]
  | name n =>
    simp only [testNode, N, ofList_cons, ofList_nil]
    rw [walk_nohandler _ _ _ _ lk_NodeTest, walkFirst_nt, walk]
    simp [hres, PTs.text, PT.text, tokText]
    cases nameTest w (.name n) <;> rfl

/-! ### axis and node test together -/

theorem apply_principal (a : Arena) (env : Env) {ax ax' : Axis} (t : NodeTest) (l : List Nat)
    (h : NodeTest.principal ax = NodeTest.principal ax') :
    NodeTest.apply a env ax t l = NodeTest.apply a env ax' t l := by
  unfold NodeTest.apply
  rw [h]

theorem principal_kindAxis (ax : Axis) :
    NodeTest.principal (kindAxis (principalAfter ax .elem)) = NodeTest.principal ax := by
  cases ax <;> rfl

/-- `axis::test` from a node-set, principal node type reset by `execStep` -/
theorem walk_axisTest (ax : Axis) (t : NodeTest) (w : WCtx) (s : List Nat) (hres : w.res = .nodes s)
    (hk : w.principal = .elem) :
    walk tbl (N "StepWithAxisAndNodeTest" [axisNode ax, testNode t]) w =
      (match NodeTest.apply w.c.a w.c.env ax t (Model.axis w.c.a ax s) with
       | .ok r => .ok ({ w with principal := principalAfter ax .elem }.set (.nodes r))
       | .error e => .error (.err e)) := by
  simp only [N, ofList_cons, ofList_nil]
  rw [walk]
  simp only [lk_StepWithAxisAndNodeTest]
  have ha : (axisNode ax).isNt = true := rfl
  have ht : (testNode t).isNt = true := by cases t <;> rfl
  rw [walkNth_cons_nt0 _ _ _ _ ha]
  simp only [walkNth_one _ _ _ _ ha, walkNth_cons_nt0 _ _ _ _ ht]
  rw [walk_axisNode ax w s hres, hk]
  show walk tbl (testNode t) _ = _
  rw [walk_testNode t _ (Model.axis w.c.a ax s) rfl]
  simp only [nameTest, WCtx.res, WCtx.set]
  rw [apply_principal w.c.a w.c.env t _ (principal_kindAxis ax)]
  cases NodeTest.apply w.c.a w.c.env ax t (Model.axis w.c.a ax s) <;> rfl

theorem walk_axisTest_notNodes (ax : Axis) (t : NodeTest) (w : WCtx) (h : ∀ l, w.res ≠ .nodes l) :
    walk tbl (N "StepWithAxisAndNodeTest" [axisNode ax, testNode t]) w = .error (.err .notNodeSet) := by
  simp only [N, ofList_cons, ofList_nil]
  rw [walk]
  simp only [lk_StepWithAxisAndNodeTest]
  have ha : (axisNode ax).isNt = true := rfl
  rw [walkNth_cons_nt0 _ _ _ _ ha, walk_axisNode_notNodes ax w h]
  rfl

/-! ### predicates of a step -/

/-- the tree of a predicate or argument expression: an `OrExpr` node -/
def exprTree (p : Expr) : PT := wrapAt 0 (level p) (dNat p)

/-- the walk of the tree of `p` computes the value of `normCtx p`, in every context -/
def SimE (p : Expr) : Prop := ∀ w : WCtx, Sim (walk tbl (exprTree p) w) w.c (eval Model.sem (normCtx p) w.c)

def AllE (Q : Expr → Prop) : Exprs → Prop
  | .nil => True
  | .cons e es => Q e ∧ AllE Q es

/-- successive predicates: each filters what the one before it kept -/
theorem walk_dPreds : ∀ (qs : Exprs) (p : Expr) (w : WCtx) (l : List Nat), (exprTree p).isNt = true →
    w.res = .nodes l → SimE p → AllE SimE qs → AllE (fun q => (exprTree q).isNt = true) qs →
    walk tbl (dPreds (predNode (exprTree p)) qs) w =
      (match applyPreds Model.sem (.cons (normCtx p) (normCtxs qs)) w.c l with
       | .ok r => .ok (w.set (.nodes r))
       | .error e => .error (.err e))
  | .nil, p, w, l, hP, hres, hp, _, _ => by
    rw [dPreds]
    simp only [N, ofList_cons, ofList_nil]
    rw [walk_nohandler _ _ _ _ lk_StepWithPredicate]
    have hn : (predNode (exprTree p)).isNt = true := rfl
    rw [walkFirst_cons_nt _ _ _ _ hn, walk_predNode _ (normCtx p) w l hP hres hp]
    rw [normCtxs, applyPreds]
    cases applyPred Model.sem (normCtx p) w.c l with
    | error e => rfl
    | ok r => rw [show (Except.ok r >>= fun kept => applyPreds Model.sem .nil w.c kept) = applyPreds Model.sem .nil w.c r from rfl, applyPreds]
  | .cons q qs, p, w, l, hP, hres, hp, hall, hnt => by
    rw [dPreds]
    simp only [N, ofList_cons, ofList_nil]
    rw [walk_nohandler _ _ _ _ lk_StepWithPredicate, walkFirst_nt, walk]
    simp only [lk_StepWithPredicateWithAnotherPredicate]
    have hn : (predNode (exprTree p)).isNt = true := rfl
    have hd : (dPreds (predNode (wrapAt 0 (level q) (dNat q))) qs).isNt = true := by cases qs <;> rfl
    rw [walkNth_cons_nt0 _ _ _ _ hn]
    simp only [walkNth_one _ _ _ _ hn, walkNth_cons_nt0 _ _ _ _ hd]
    rw [walk_predNode _ (normCtx p) w l hP hres hp]
    rw [normCtxs, applyPreds]
    cases hk : applyPred Model.sem (normCtx p) w.c l with
    | error e => rfl
    | ok kept =>
      show walk tbl (dPreds (predNode (exprTree q)) qs) (w.set (.nodes kept)) = _
      rw [walk_dPreds qs q (w.set (.nodes kept)) kept hnt.1 rfl hall.1 hall.2 hnt.2]
      show (match applyPreds Model.sem (.cons (normCtx q) (normCtxs qs)) { w.c with result := .nodes kept } kept with
        | .ok r => _ | .error e => _) = _
      rw [applyPreds_ctx]
      show _ = (match applyPreds Model.sem (.cons (normCtx q) (normCtxs qs)) w.c kept with | .ok r => _ | .error e => _)
      cases applyPreds Model.sem (.cons (normCtx q) (normCtxs qs)) w.c kept <;> rfl

/-! ### `execStep` -/

/-- what `eval` does with the value `b` of the base of a step -/
def stepSem (ax : Axis) (t : NodeTest) (preds : Exprs) (c : Ctx) (b : Val) : Except Err Val := do
  let s ← b.nodes?
  if Model.sem.perNode || (!preds.isNil && s.length > 1) then
    let _ ← NodeTest.apply c.a c.env ax t []
    let r ← concatMapE (fun n => do
      let l ← NodeTest.apply c.a c.env ax t (Model.sem.axis c.a ax [n])
      applyPreds Model.sem preds c l) s
    pure (.nodes (cleanupFwd r))
  else
    let l ← NodeTest.apply c.a c.env ax t (Model.sem.axis c.a ax s)
    let r ← applyPreds Model.sem preds c l
    pure (.nodes r)

theorem eval_step (base : Expr) (ax : Axis) (t : NodeTest) (preds : Exprs) (c : Ctx) :
    eval Model.sem (.step base ax t preds) c = (eval Model.sem base c >>= stepSem ax t preds c) := by
  rw [eval]; rfl

theorem stepSem_ctx (ax : Axis) (t : NodeTest) (preds : Exprs) (c : Ctx) (x b : Val) :
    stepSem ax t preds { c with result := x } b = stepSem ax t preds c b := by
  unfold stepSem
  simp only [applyPreds_ctx]

theorem res_elem (w : WCtx) : (⟨w.c, .elem⟩ : WCtx).res = w.res := rfl

/-- a step without predicates -/
theorem sim_dStep_nil (ax : Axis) (t : NodeTest) (w : WCtx) :
    Sim (walk tbl (dStep ax t .nil) w) w.c (stepSem ax t .nil w.c w.res) := by
  rw [dStep]
  have hw : walk tbl (N "Step" [N "StepWithAxisAndNodeTest" [axisNode ax, testNode t]]) w =
      walk tbl (N "StepWithAxisAndNodeTest" [axisNode ax, testNode t]) { w with principal := .elem } := by
    simp only [N, ofList_cons, ofList_nil]
    rw [walk]
    simp [PTs.lastNtName, PT.isNt, PT.name, implicitChild, walkLast_cons]
  rw [hw]
  unfold stepSem
  cases hr : w.res with
  | nodes s =>
    rw [walk_axisTest ax t ⟨w.c, .elem⟩ s hr rfl]
    simp only [Val.nodes?, Model.sem, Exprs.isNil, Bool.false_or, Bool.not_true, Bool.false_and]
    show Sim _ _ (NodeTest.apply w.c.a w.c.env ax t (Model.axis w.c.a ax s) >>= fun l =>
      applyPreds Model.sem .nil w.c l >>= fun r => pure (.nodes r))
    cases NodeTest.apply w.c.a w.c.env ax t (Model.axis w.c.a ax s) with
    | error e => exact Sim.err rfl
    | ok l =>
      show Sim _ _ (applyPreds Model.sem .nil w.c l >>= fun r => pure (.nodes r))
      rw [applyPreds]
      exact Sim.ok _ rfl
  | num n => exact Sim.err (walk_axisTest_notNodes ax t ⟨w.c, .elem⟩ (fun l h => by rw [res_elem, hr] at h; cases h))
  | str n => exact Sim.err (walk_axisTest_notNodes ax t ⟨w.c, .elem⟩ (fun l h => by rw [res_elem, hr] at h; cases h))
  | bool n => exact Sim.err (walk_axisTest_notNodes ax t ⟨w.c, .elem⟩ (fun l h => by rw [res_elem, hr] at h; cases h))

theorem concatMapW_lift {f : Nat → Except WErr (List Nat)} {g : Nat → Except Err (List Nat)}
    (h : ∀ n, f n = liftE (g n)) : ∀ s : List Nat, concatMapW f s = liftE (concatMapE g s)
  | [] => rfl
  | n :: t => by
    rw [concatMapW, concatMapE, h n, concatMapW_lift h t]
    cases g n with
    | error e => rfl
    | ok r => cases concatMapE g t <;> rfl

/-- axis, node test and predicates of a step from the node-set `s` (principal node type reset) -/
theorem walk_stepBody (ax : Axis) (t : NodeTest) (p : Expr) (ps : Exprs) (x : WCtx) (s : List Nat)
    (hres : x.res = .nodes s) (hk : x.principal = .elem) (hP : (exprTree p).isNt = true) (hp : SimE p)
    (hall : AllE SimE ps) (hnt : AllE (fun q => (exprTree q).isNt = true) ps) :
    walk tbl (N "StepWithAxisAndNodeTestAndPredicate"
        [N "StepWithAxisAndNodeTest" [axisNode ax, testNode t], dPreds (predNode (exprTree p)) ps]) x =
      (match (NodeTest.apply x.c.a x.c.env ax t (Model.axis x.c.a ax s) >>= fun l =>
          applyPreds Model.sem (.cons (normCtx p) (normCtxs ps)) x.c l) with
       | .ok r => .ok ({ x with principal := principalAfter ax .elem }.set (.nodes r))
       | .error e => .error (.err e)) := by
  simp only [N, ofList_cons, ofList_nil]
  rw [walk]
  simp only [lk_StepWithAxisAndNodeTestAndPredicate]
  have hd : (dPreds (predNode (exprTree p)) ps).isNt = true := by cases ps <;> rfl
  rw [walkNth_nt0]
  simp only [walkNth_ntS, walkNth_cons_nt0 _ _ _ _ hd]
  have := walk_axisTest ax t x s hres hk
  simp only [N, ofList_cons, ofList_nil] at this
  rw [this]
  cases NodeTest.apply x.c.a x.c.env ax t (Model.axis x.c.a ax s) with
  | error e => rfl
  | ok l =>
    show walk tbl (dPreds (predNode (exprTree p)) ps) ({ x with principal := principalAfter ax .elem }.set (.nodes l)) = _
    rw [walk_dPreds ps p _ l hP rfl hp hall hnt]
    show (match applyPreds Model.sem (.cons (normCtx p) (normCtxs ps)) { x.c with result := .nodes l } l with
      | .ok r => _ | .error e => _) = _
    rw [applyPreds_ctx]
    show _ = (match applyPreds Model.sem (.cons (normCtx p) (normCtxs ps)) x.c l with | .ok r => _ | .error e => _)
    cases applyPreds Model.sem (.cons (normCtx p) (normCtxs ps)) x.c l <;> rfl

theorem walk_stepBody_notNodes (ax : Axis) (t : NodeTest) (D : PT) (x : WCtx) (h : ∀ l, x.res ≠ .nodes l) :
    walk tbl (N "StepWithAxisAndNodeTestAndPredicate" [N "StepWithAxisAndNodeTest" [axisNode ax, testNode t], D]) x =
      .error (.err .notNodeSet) := by
  simp only [N, ofList_cons, ofList_nil]
  rw [walk]
  simp only [lk_StepWithAxisAndNodeTestAndPredicate]
  rw [walkNth_nt0]
  have := walk_axisTest_notNodes ax t x h
  simp only [N, ofList_cons, ofList_nil] at this
  rw [this]
  rfl

end Xsel.Walk
