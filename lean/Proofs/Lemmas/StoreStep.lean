/-
  Proofs/Lemmas/StoreStep.lean — the builder invariant `SInv` holds in every state reached by
  folding `Store.step` over ANY event list, and `PInv` holds for the arena `Store.build` returns.
-/
import Proofs.Lemmas.StoreInv

namespace Xsel.StoreL
open Xsel Xsel.Store Xsel.Arena

/-- `i` is `j` or lies on the parent chain of `j` -/
inductive AncS (a : Arena) (i : Nat) : Nat → Prop
  | refl : AncS a i i
  | step {j : Nat} : 0 < j → AncS a i (cell a j).parent → AncS a i j

theorem AncS.ext {X : Cls} {cur : Nat} {a a' : Arena} (h : AInv a) (e : Ext X cur a a')
    {i j : Nat} (hij : AncS a i j) : j < a.size → AncS a' i j := by
  induction hij with
  | refl => intro _; exact .refl
  | step h0 _ ih =>
    intro hj
    refine .step h0 ?_
    rw [e.parent _ hj]
    exact ih (h.parent_lt_size hj)

theorem AncS.parent_left {a : Arena} (h : AInv a) {i j : Nat} (hij : AncS a i j) :
    AncS a (cell a i).parent j := by
  induction hij with
  | refl =>
    by_cases h0 : i = 0
    · subst h0; rw [h.root.2]; exact .refl
    · exact .step (Nat.pos_of_ne_zero h0) .refl
  | step h0 _ ih => exact .step h0 ih

/-- the part of the invariant that does not mention `done` -/
structure PInv (a : Arena) (cur : Nat) : Prop where
  ainv : AInv a
  cur_lt : cur < a.size
  cur_kind : (cell a cur).kind = .root ∨ (cell a cur).kind = .elem
  path : AncS a cur (a.size - 1)
  pre : ∀ i, 0 < i → i < a.size → AncS a (cell a i).parent (i - 1)

theorem PInv.ext {X : Cls} {cur : Nat} {a a' : Arena} (h : PInv a cur) (e : Ext X cur a a') :
    PInv a' cur := by
  have hpath : AncS a' cur (a.size - 1) := h.path.ext h.ainv e (by have := h.cur_lt; omega)
  refine ⟨h.ainv.ext e h.cur_lt h.cur_kind, Nat.lt_of_lt_of_le h.cur_lt e.le, ?_, ?_, ?_⟩
  · rw [e.kind cur h.cur_lt]; exact h.cur_kind
  · by_cases hs : a'.size = a.size
    · rw [hs]; exact hpath
    · have hle := e.le
      have hlt := h.cur_lt
      have n := e.new (a'.size - 1) (by omega) (by omega)
      refine .step (by omega) ?_
      rw [n.parent]; exact .refl
  · intro i h0 hi
    by_cases ho : i < a.size
    · rw [e.parent i ho]
      exact (h.pre i h0 ho).ext h.ainv e (by omega)
    · have n := e.new i (Nat.not_lt.mp ho) hi
      rw [n.parent]
      by_cases hi' : i = a.size
      · subst hi'; exact hpath
      · have n' := e.new (i - 1) (by omega) (by omega)
        have hlt := h.cur_lt
        refine .step (by omega) ?_
        rw [n'.parent]; exact .refl

theorem PInv.close {a : Arena} {cur : Nat} (h : PInv a cur) : PInv a (cell a cur).parent :=
  ⟨h.ainv, h.ainv.parent_lt_size h.cur_lt, h.ainv.pkind cur h.cur_lt,
    h.path.parent_left h.ainv, h.pre⟩

theorem PInv.open {a : Arena} {cur m : Nat} (h : PInv a cur) (hm : m + 1 = a.size)
    (hk : (cell a m).kind = .elem) : PInv a m :=
  ⟨h.ainv, by omega, Or.inr hk, by rw [← hm]; exact .refl, h.pre⟩

structure SInv (s : BState) : Prop where
  p : PInv s.a s.cur
  fresh : s.done = false → s.cur + 1 = s.a.size

theorem SInv.nss_nil {s : BState} (h : SInv s) (hd : s.done = false) :
    (cell s.a s.cur).nss = [] := by
  apply List.eq_nil_iff_forall_not_mem.mpr
  intro j hj
  have := h.p.ainv.lst .ns s.cur h.p.cur_lt j hj
  have := h.fresh hd
  omega

theorem SInv.finish_ext {s : BState} (h : SInv s) : Ext .ns s.cur s.a (finish s).a :=
  _root_.Xsel.StoreL.finish_ext s h.p.cur_lt h.nss_nil

theorem SInv.finish {s : BState} (h : SInv s) : PInv (finish s).a (finish s).cur := by
  rw [finish_cur]; exact h.p.ext h.finish_ext

theorem SInv_init : SInv Store.init :=
  ⟨⟨AInv_init, by decide, Or.inl rfl, .refl, fun i h0 hi => by
      have : Store.init.a.size = 1 := rfl
      omega⟩, fun _ => rfl⟩

theorem addLeaf_size (s : BState) (c : Cell) (b : Bool) :
    (addLeaf s c b).a.size = (finish s).a.size + 1 := by
  show (setCell _ _ _).size = _
  rw [size_setCell, Array.size_push]

theorem addLeaf_new_kind (s : BState) (c : Cell) (b : Bool)
    (hc : (finish s).cur < (finish s).a.size) :
    (cell (addLeaf s c b).a (finish s).a.size).kind = c.kind := by
  show (cell (setCell _ _ _) _).kind = _
  rw [cell_setCell_ne (by omega)]
  simp only [cell_push_size]

theorem SInv.addAttr {s : BState} (h : SInv s) (c : Cell) (hk : c.kind = .attr)
    (h1 : c.nss = []) (h2 : c.attrs = []) (h3 : c.kids = []) : SInv (addLeaf s c true) := by
  have hf := h.finish
  refine ⟨?_, fun hd => ?_⟩
  · have := hf.ext (addAttr_ext s c hk h1 h2 h3 hf.cur_lt)
    rw [addLeaf_cur, ← finish_cur]; exact this
  · rw [addLeaf_done] at hd; cases hd

theorem SInv.addKid {s : BState} (h : SInv s) (c : Cell) (hk : Cls.kid.ok c.kind)
    (h1 : c.nss = []) (h2 : c.attrs = []) (h3 : c.kids = []) : SInv (addLeaf s c false) := by
  have hf := h.finish
  refine ⟨?_, fun hd => ?_⟩
  · have := hf.ext (addKid_ext s c hk h1 h2 h3 hf.cur_lt)
    rw [addLeaf_cur, ← finish_cur]; exact this
  · rw [addLeaf_done] at hd; cases hd

theorem SInv.step {s : BState} (h : SInv s) (e : Ev) : SInv (step s e) := by
  cases e with
  | elem u l =>
    have hf := h.finish
    have hk := h.addKid { kind := .elem, uri := u, loc := l } (by simp [Cls.ok]) rfl rfl rfl
    refine ⟨?_, fun _ => ?_⟩
    · rw [elem_a, elem_cur]
      refine hk.p.open ?_ ?_
      · rw [addLeaf_size]
      · rw [addLeaf_new_kind _ _ _ hf.cur_lt]
    · rw [elem_a, elem_cur, addLeaf_size]
  | ns p u =>
    cases hd : s.done
    · obtain ⟨h1, h2, h3⟩ := ns_pending s p u hd
      refine ⟨?_, fun _ => ?_⟩
      · rw [h1, h2]; exact h.p
      · rw [h1, h2]; exact h.fresh hd
    · obtain ⟨h1, h2, h3⟩ := ns_late s p u hd h.p.cur_lt
      refine ⟨?_, fun hd' => ?_⟩
      · rw [h2]; exact h.p.ext h1
      · rw [h3] at hd'; cases hd'
  | attr u l v => exact h.addAttr _ rfl rfl rfl rfl
  | text v => exact h.addKid _ (by simp [Cls.ok]) rfl rfl rfl
  | comment v => exact h.addKid _ (by simp [Cls.ok]) rfl rfl rfl
  | pi t v => exact h.addKid _ (by simp [Cls.ok]) rfl rfl rfl
  | close =>
    refine ⟨?_, fun hd => ?_⟩
    · rw [close_a, close_cur]; exact h.finish.close
    · rw [close_done] at hd; cases hd

theorem SInv.foldl {s : BState} (h : SInv s) (evs : List Ev) : SInv (evs.foldl Store.step s) := by
  induction evs generalizing s with
  | nil => exact h
  | cons e es ih => exact ih (h.step e)

/-- the invariant of the arena returned by `Store.build`, for every event list -/
theorem build_pinv (evs : List Ev) :
    PInv (build evs) (finish (evs.foldl Store.step Store.init)).cur :=
  (SInv_init.foldl evs).finish

end Xsel.StoreL
