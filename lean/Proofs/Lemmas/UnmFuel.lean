/-
  Proofs/Lemmas/UnmFuel.lean — the fuel of the Unmarshal model is not observable: from
  `2 * tySize ty` on, one more unit of fuel gives the same result, so `unmarshal`'s
  `2 * tySize ty + 4` never yields the fuel-exhaustion answer.
-/
import Proofs.Lemmas.UnmProps

namespace Xsel
namespace Unm

variable (run : Nat → Expr → Except Err Val) (sv : Nat → Chars)

theorem tySize_pos : ∀ t : GoTy, 1 ≤ tySize t
  | .ptr _ => by simp [tySize]
  | .slice _ => by simp [tySize]
  | .struct _ => by simp [tySize]
  | .scalar _ => by simp [tySize]
  | .other => by simp [tySize]

theorem tySize_base_le (t : GoTy) : tySize (stripPtr t).2 ≤ tySize t := by
  have := (stripPtr_spec t).2.2; omega

/-- the three functions are stable from their bound on -/
def Stable (f : Nat) : Prop :=
  (∀ ty cur res, 2 * tySize ty ≤ f → fill run sv f ty cur res = fill run sv (f + 1) ty cur res) ∧
  (∀ fs vals n, 2 * fieldsSize fs ≤ f → fillFields run sv f fs vals n = fillFields run sv (f + 1) fs vals n) ∧
  (∀ et ns items st, 2 * tySize et + 1 ≤ f →
      fillSlice run sv f et ns items st = fillSlice run sv (f + 1) et ns items st)

theorem fieldVal_stable {f : Nat} (S : Stable run sv f) (base : GoTy) (res : Val)
    (hb : 2 * tySize base ≤ f) :
    fieldVal run sv f base res = fieldVal run sv (f + 1) base res := by
  cases base with
  | struct fs => exact S.1 _ _ _ hb
  | slice et => exact S.1 _ _ _ hb
  | scalar s => rfl
  | ptr t => rfl
  | other => rfl

theorem elemVal_stable {f : Nat} (S : Stable run sv f) (base : GoTy) (n : Nat)
    (hb : 2 * tySize base ≤ f) :
    elemVal run sv f base n = elemVal run sv (f + 1) base n := by
  cases base with
  | struct fs => exact S.1 _ _ _ hb
  | slice et => rfl
  | scalar s => rfl
  | ptr t => rfl
  | other => rfl

theorem fillSlice_stable_step {f : Nat} (S : Stable run sv f) (et : GoTy) (st : Bool)
    (hb : 2 * tySize et + 1 ≤ f + 1) : ∀ (ns : List Nat) (items : GoVals),
    fillSlice run sv (f + 1) et ns items st = fillSlice run sv (f + 2) et ns items st
  | [], items => by rw [fillSlice_nil, fillSlice_nil]
  | n :: ns, items => by
    have hbase := tySize_base_le et
    rw [fillSlice_cons, fillSlice_cons, elemVal_stable run sv S _ n (by omega)]
    cases elemVal run sv (f + 1) (stripPtr et).2 n with
    | error e => rfl
    | ok v =>
      simp only
      split
      · rfl
      · exact fillSlice_stable_step S et st hb ns _

theorem stable_zero : Stable run sv 0 := by
  refine ⟨?_, ?_, ?_⟩
  · intro ty _ _ h; have := tySize_pos ty; omega
  · intro fs vals n h
    cases fs with
    | nil => rw [fillFields_nil, fillFields_nil]
    | cons _ _ _ _ t rest => simp [fieldsSize] at h
  · intro et _ _ _ h; omega

theorem stable_succ {f : Nat} (S : Stable run sv f) : Stable run sv (f + 1) := by
  refine ⟨?_, ?_, ?_⟩
  · intro ty cur res h
    cases ty with
    | struct fs =>
      simp only [tySize] at h
      by_cases h1 : ∃ n, res = .nodes [n]
      · obtain ⟨n, rfl⟩ := h1
        rw [fill_struct_one, fill_struct_one, S.2.1 _ _ _ (by omega)]
      · have h1' : ∀ n, res ≠ .nodes [n] := fun n e => h1 ⟨n, e⟩
        rw [fill_struct_notOne run sv _ _ _ _ h1', fill_struct_notOne run sv _ _ _ _ h1']
    | slice et =>
      simp only [tySize] at h
      by_cases h1 : ∃ ns, res = .nodes ns
      · obtain ⟨ns, rfl⟩ := h1
        rw [fill_slice_nodes, fill_slice_nodes, S.2.2 _ _ _ _ (by omega)]
      · have h1' : ∀ ns, res ≠ .nodes ns := fun ns e => h1 ⟨ns, e⟩
        rw [fill_slice_notNodes run sv _ _ _ _ h1', fill_slice_notNodes run sv _ _ _ _ h1']
    | scalar s => rw [fill_scalar, fill_scalar]
    | ptr t => rw [fill_ptr, fill_ptr]
    | other => rw [fill_other, fill_other]
  · intro fs vals n h
    cases fs with
    | nil => rw [fillFields_nil, fillFields_nil]
    | cons name ex tag bt ty rest =>
      simp only [fieldsSize] at h
      have hbase := tySize_base_le ty
      cases tag with
      | none =>
        rw [fillFields_untagged, fillFields_untagged, S.2.1 _ _ _ (by omega)]
      | some e =>
        cases hr : run n e with
        | error err =>
          rw [fillFields_query_error run sv _ _ _ _ _ _ _ _ _ err hr,
            fillFields_query_error run sv _ _ _ _ _ _ _ _ _ err hr]
        | ok res =>
          rw [fillFields_tagged run sv _ _ _ _ _ _ _ _ _ res hr,
            fillFields_tagged run sv _ _ _ _ _ _ _ _ _ res hr,
            fieldVal_stable run sv S _ res (by omega), S.2.1 _ _ _ (by omega)]
  · intro et ns items st h
    exact fillSlice_stable_step run sv S et st h ns items

theorem stable_all : ∀ f, Stable run sv f
  | 0 => stable_zero run sv
  | f + 1 => stable_succ run sv (stable_all f)

/-- **fuel_sufficient**: from `2 * tySize ty` on, the amount of fuel does not matter -/
theorem fill_fuel_irrelevant (ty : GoTy) (cur : GoVal) (res : Val) :
    ∀ (d : Nat), fill run sv (2 * tySize ty + d) ty cur res = fill run sv (2 * tySize ty) ty cur res
  | 0 => rfl
  | d + 1 => by
    rw [← fill_fuel_irrelevant ty cur res d]
    exact ((stable_all run sv (2 * tySize ty + d)).1 ty cur res (by omega)).symm

theorem fillSlice_fuel_irrelevant (et : GoTy) (ns : List Nat) (items : GoVals) (st : Bool) :
    ∀ (d : Nat), fillSlice run sv (2 * tySize et + 1 + d) et ns items st
      = fillSlice run sv (2 * tySize et + 1) et ns items st
  | 0 => rfl
  | d + 1 => by
    rw [← fillSlice_fuel_irrelevant et ns items st d]
    exact ((stable_all run sv (2 * tySize et + 1 + d)).2.2 et ns items st (by omega)).symm

theorem fillFields_fuel_irrelevant (fs : GoFields) (vals : GoVals) (n : Nat) :
    ∀ (d : Nat), fillFields run sv (2 * fieldsSize fs + d) fs vals n
      = fillFields run sv (2 * fieldsSize fs) fs vals n
  | 0 => rfl
  | d + 1 => by
    rw [← fillFields_fuel_irrelevant fs vals n d]
    exact ((stable_all run sv (2 * fieldsSize fs + d)).2.1 fs vals n (by omega)).symm

/-- `unmarshal` with ANY larger fuel in place of `2 * tySize ty + 4` would return the same -/
def unmarshalWith (fuel : Nat) (t : Target) (res : Val) : Except UErr GoVal :=
  match t with
  | .nilIface => .error .nilTarget
  | .val k nilAt ty cur =>
    match nilAt with
    | some _ => .error .notPointer
    | none =>
      match ty with
      | .struct _ => if k == 0 then .error .notPointer else fill run sv fuel ty cur res
      | .slice et =>
        match res with
        | .nodes ns =>
          let items := match cur with | .slice it => it | _ => .nil
          (fillSlice run sv fuel et ns items (k != 0)).map .slice
        | _ => .error .notNodeSet
      | _ => .error .unsupported

theorem unmarshal_eq_with (t : Target) (res : Val) :
    unmarshal run sv t res =
      unmarshalWith run sv (match t with | .val _ _ ty _ => 2 * tySize ty + 4 | .nilIface => 0) t res := by
  cases t <;> rfl

theorem unmarshal_fuel_sufficient (k : Nat) (nilAt : Option Nat) (ty : GoTy) (cur : GoVal) (res : Val)
    (d : Nat) :
    unmarshalWith run sv (2 * tySize ty + 4 + d) (.val k nilAt ty cur) res
      = unmarshal run sv (.val k nilAt ty cur) res := by
  cases nilAt with
  | some j => rfl
  | none =>
    cases ty with
    | struct fs =>
      simp only [unmarshalWith, unmarshal]
      split
      · rfl
      · have a := fill_fuel_irrelevant run sv (.struct fs) cur res (4 + d)
        have b := fill_fuel_irrelevant run sv (.struct fs) cur res 4
        rw [show 2 * tySize (.struct fs) + 4 + d = 2 * tySize (.struct fs) + (4 + d) by omega, a, b]
    | slice et =>
      cases res with
      | nodes ns =>
        simp only [unmarshalWith, unmarshal]
        have e : 2 * tySize (GoTy.slice et) = 2 * tySize et + 1 + 1 := by simp [tySize]; omega
        have a := fun items => fillSlice_fuel_irrelevant run sv et ns items (k != 0) (1 + 4 + d)
        have b := fun items => fillSlice_fuel_irrelevant run sv et ns items (k != 0) (1 + 4)
        rw [show 2 * tySize (GoTy.slice et) + 4 + d = 2 * tySize et + 1 + (1 + 4 + d) by omega, a,
          show 2 * tySize (GoTy.slice et) + 4 = 2 * tySize et + 1 + (1 + 4) by omega, b]
        cases cur <;> rfl
      | _ => rfl
    | scalar s => rfl
    | ptr t => rfl
    | other => rfl

end Unm
end Xsel
