/-
  Proofs/Lemmas/XmlSpec.lean — definitions for C09: the decidable predicate `WFDoc` (what a
  well-formed, namespace-conformant document guarantees about an abstract `XNodes`) and the
  direct event list `specEvents` of a document (what the adapter must emit).
-/
import Xsel.Xml

namespace Xsel.XmlL
open Xsel Xsel.Xml

/-! ### the event list a document denotes -/

def nsEvents (decls : List (Chars × Chars)) : List Ev :=
  .ns xmlC xmlNsUri :: decls.map (fun pu => Ev.ns pu.1 pu.2)

def attrEvents (sc : List (Chars × Chars)) (attrs : List (Option Chars × Chars × Chars)) : List Ev :=
  attrs.map (fun a => Ev.attr (attrUri sc a.1) a.2.1 a.2.2)

def flat (segs : List (Bool × Chars)) : Chars := (segs.map (·.2)).flatten

mutual
/-- element ↦ element event, the `xml` namespace event, one namespace event per declaration, the
    attribute events, the children, the end event; text ↦ ONE text event; layout ↦ nothing -/
def specEvents : List (Chars × Chars) → XNode → List Ev
  | sc, .elem pfx loc decls attrs _ kids =>
    .elem (elemUri (scopeOf sc decls) pfx) loc ::
      (nsEvents decls ++ (attrEvents (scopeOf sc decls) attrs
        ++ (specEventsList (scopeOf sc decls) kids ++ [.close])))
  | _, .text segs => [.text (flat segs)]
  | _, .comment s => [.comment s]
  | _, .pi t v => [.pi t v]
  | _, .xmldecl _ => []
  | _, .doctype => []
  | _, .ws _ => []
def specEventsList : List (Chars × Chars) → XNodes → List Ev
  | _, .nil => []
  | sc, .cons n t => specEvents sc n ++ specEventsList sc t
end

/-- the scope of the document node's children in `Xml.dataModel` / `Xml.docTokens` -/
def topScope : List (Chars × Chars) := [(xmlC, xmlNsUri)]

def docEvents (top : XNodes) : List Ev := specEventsList topScope top

/-! ### well-formedness -/

def isText : XNode → Bool
  | .text _ => true
  | _ => false

def isWsNode : XNode → Bool
  | .ws _ => true
  | _ => false

def isElem : XNode → Bool
  | .elem .. => true
  | _ => false

def headIs (f : XNode → Bool) : XNodes → Bool
  | .nil => false
  | .cons n _ => f n

/-- is the prefix bound in the scope? -/
def inScope (p : Chars) (sc : List (Chars × Chars)) : Bool := sc.any (fun b => b.1 == p)

def pfxInScope (sc : List (Chars × Chars)) : Option Chars → Bool
  | none => true
  | some p => inScope p sc

/-- one namespace declaration `xmlns="u"` (prefix "") / `xmlns:p="u"`:
    the prefix is not `xmlns`; only the default namespace can be undeclared (empty URI);
    the prefix `xml` can only be bound to the XML namespace -/
def wfDecl (pu : Chars × Chars) : Bool :=
  pu.1 != xmlnsC && (pu.1.isEmpty || !pu.2.isEmpty) && (pu.1 != xmlC || pu.2 == xmlNsUri)

def distinct : List Chars → Bool
  | [] => true
  | p :: t => !t.contains p && distinct t

/-- an ordinary attribute in the scope `sc` of its element: the local name is not `xmlns`, the
    prefix is bound, and not to the pseudo-namespace "xmlns" encoding/xml uses for declarations -/
def wfAttr (sc : List (Chars × Chars)) (a : Option Chars × Chars × Chars) : Bool :=
  a.2.1 != xmlnsC && attrUri sc a.1 != xmlnsC && pfxInScope sc a.1

def wfText (segs : List (Bool × Chars)) : Bool :=
  !segs.isEmpty && segs.all (fun s => !s.2.isEmpty)

mutual
/-- a node inside the document element, or the document element itself, in the scope `sc` of its
    parent -/
def wfNode : List (Chars × Chars) → XNode → Bool
  | sc, .elem pfx _ decls attrs _ kids =>
    decls.all wfDecl && distinct (decls.map (·.1))
      && pfxInScope (scopeOf sc decls) pfx
      && attrs.all (wfAttr (scopeOf sc decls))
      && wfKids (scopeOf sc decls) kids
  | _, .text segs => wfText segs
  | _, .comment _ => true
  | _, .pi t _ => t != xmlC
  | _, .xmldecl _ => false
  | _, .doctype => false
  | _, .ws _ => false
/-- the children of an element: no two text nodes in a row -/
def wfKids : List (Chars × Chars) → XNodes → Bool
  | _, .nil => true
  | sc, .cons n t => wfNode sc n && !(isText n && headIs isText t) && wfKids sc t
end

/-- the children of the document node: layout, comments, PIs, elements; no text -/
def wfTopNode (sc : List (Chars × Chars)) (n : XNode) (t : XNodes) : Bool :=
  match n with
  | .text _ => false
  | .xmldecl _ => true
  | .doctype => true
  | .ws s => !s.isEmpty && isWs s && !headIs isWsNode t
  | n => wfNode sc n

def wfTop (sc : List (Chars × Chars)) : XNodes → Bool
  | .nil => true
  | .cons n t => wfTopNode sc n t && wfTop sc t

def countElems : XNodes → Nat
  | .nil => 0
  | .cons n t => (if isElem n then 1 else 0) + countElems t

/-- a well-formed namespace-conformant document -/
def WFDoc (top : XNodes) : Prop := wfTop topScope top = true ∧ countElems top = 1

instance (top : XNodes) : Decidable (WFDoc top) := by unfold WFDoc; infer_instance

/-- `WFDoc` as a Boolean (for executable checks of generated documents) -/
def wfDocB (top : XNodes) : Bool := wfTop topScope top && countElems top == 1

theorem wfDocB_iff (top : XNodes) : wfDocB top = true ↔ WFDoc top := by
  simp [wfDocB, WFDoc]

end Xsel.XmlL
