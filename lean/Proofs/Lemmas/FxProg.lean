/-
  Proofs/Lemmas/FxProg.lean — sequences of node-set operations (a query, or several queries one
  after the other): every later operation may use the caller's slices and every slice returned by
  an earlier operation.  Nothing that exists at some moment is written afterwards.
-/
import Proofs.Lemmas.FxOps

namespace Xsel
namespace Effects

/-- one step of a program: from the slices available so far (the caller's inputs followed by the
    results of the earlier steps) to the operation to perform -/
abbrev Step := List Slice → Op

/-- run the steps in sequence; returns the final heap and all slices available at the end -/
def runProg : Heap → List Slice → List Step → Heap × List Slice
  | h, av, [] => (h, av)
  | h, av, p :: ps => runProg ((p av).run h).1 (av ++ [((p av).run h).2]) ps

theorem runProg_append (h : Heap) (av : List Slice) (ps qs : List Step) :
    runProg h av (ps ++ qs) = runProg (runProg h av ps).1 (runProg h av ps).2 qs := by
  induction ps generalizing h av with
  | nil => rfl
  | cons p ps ih => simp only [List.cons_append, runProg, ih]

/-- all arrays that exist when a program starts are unchanged when it ends -/
theorem runProg_frame (h : Heap) (av : List Slice) (ps : List Step) :
    Frame h.size h (runProg h av ps).1 := by
  induction ps generalizing h av with
  | nil => exact Frame.refl _ _
  | cons p ps ih =>
    have a := (p av).run_frame h
    exact a.trans ((ih _ _).mono a.1)

/-- the available slices only grow: one more per step -/
theorem runProg_avail (h : Heap) (av : List Slice) (ps : List Step) :
    ∃ rs, (runProg h av ps).2 = av ++ rs ∧ rs.length = ps.length := by
  induction ps generalizing h av with
  | nil => exact ⟨[], by simp [runProg], rfl⟩
  | cons p ps ih =>
    obtain ⟨rs, e, hl⟩ := ih ((p av).run h).1 (av ++ [((p av).run h).2])
    exact ⟨((p av).run h).2 :: rs, by simp [runProg, e], by simp [hl]⟩

/-- every available slice lives in the current heap -/
theorem runProg_inHeap (h : Heap) (av : List Slice) (ps : List Step)
    (hav : ∀ s ∈ av, s.arr < h.size) :
    ∀ s ∈ (runProg h av ps).2, s.arr < (runProg h av ps).1.size := by
  induction ps generalizing h av with
  | nil => exact hav
  | cons p ps ih =>
    apply ih
    intro s hs
    rcases List.mem_append.mp hs with hs | hs
    · exact Nat.lt_of_lt_of_le (hav s hs) ((p av).run_frame h).1
    · have : s = ((p av).run h).2 := by simpa using hs
      subst this
      exact ((p av).run_valid h).1

/-- every available slice is well formed in the current heap, if the caller's slices were -/
theorem runProg_valid (h : Heap) (av : List Slice) (ps : List Step)
    (hav : ∀ s ∈ av, s.valid h) :
    ∀ s ∈ (runProg h av ps).2, s.valid (runProg h av ps).1 := by
  induction ps generalizing h av with
  | nil => exact hav
  | cons p ps ih =>
    apply ih
    intro s hs
    rcases List.mem_append.mp hs with hs | hs
    · exact ((p av).run_frame h).valid (hav s hs).1 (hav s hs)
    · have : s = ((p av).run h).2 := by simpa using hs
      subst this
      exact (p av).run_valid h

/-- **run_ops_frame.**  Split a program anywhere: `ps` has run, `qs` runs afterwards.  Then
    (1) every array of the initial heap is unchanged at the very end (contents, hence also the
        spare capacity of the caller's slices);
    (2) every array that exists after `ps` is unchanged by `qs`;
    (3) every slice available after `ps` — the caller's inputs and all results obtained so far —
        shows exactly the same nodes in the same order after `qs`;
    (4) these slices are still available, at the same positions. -/
theorem run_ops_frame (h : Heap) (av : List Slice) (ps qs : List Step)
    (hav : ∀ s ∈ av, s.arr < h.size) :
    (∀ id, id < h.size → (runProg h av (ps ++ qs)).1.arrD id = h.arrD id) ∧
    (∀ id, id < (runProg h av ps).1.size →
        (runProg h av (ps ++ qs)).1.arrD id = (runProg h av ps).1.arrD id) ∧
    (∀ s ∈ (runProg h av ps).2, read (runProg h av (ps ++ qs)).1 s = read (runProg h av ps).1 s) ∧
    (∃ rs, (runProg h av (ps ++ qs)).2 = (runProg h av ps).2 ++ rs) := by
  refine ⟨(runProg_frame h av (ps ++ qs)).2, ?_, ?_, ?_⟩
  · rw [runProg_append]; exact (runProg_frame _ _ qs).2
  · intro s hs
    rw [runProg_append]
    exact (runProg_frame _ _ qs).read (runProg_inHeap h av ps hav s hs)
  · rw [runProg_append]
    obtain ⟨rs, e, _⟩ := runProg_avail (runProg h av ps).1 (runProg h av ps).2 qs
    exact ⟨rs, e⟩

/-- the value of the result of any step, read at the very end, is the value the operation denotes
    at the moment it ran -/
theorem runProg_result_value (h : Heap) (av : List Slice) (ps : List Step) (p : Step) (qs : List Step)
    (hp : (p (runProg h av ps).2).inHeap (runProg h av ps).1) :
    read (runProg h av (ps ++ p :: qs)).1 ((p (runProg h av ps).2).run (runProg h av ps).1).2
      = (p (runProg h av ps).2).value (runProg h av ps).1 := by
  rw [runProg_append, runProg]
  rw [(runProg_frame _ _ qs).read ((p (runProg h av ps).2).run_valid _).1]
  exact Op.run_read hp

/-- a step that only uses available slices has its operands in the heap -/
theorem step_inHeap (h : Heap) (av : List Slice) (ps : List Step) (p : Step)
    (hav : ∀ s ∈ av, s.arr < h.size)
    (hp : ∀ s ∈ (p (runProg h av ps).2).operands, s ∈ (runProg h av ps).2) :
    (p (runProg h av ps).2).inHeap (runProg h av ps).1 :=
  fun s hs => runProg_inHeap h av ps hav s (hp s hs)

end Effects
end Xsel
