/-
  Proofs/Lemmas/CliRecords.lean — what the command-line tool prints for ONE file
  (`records`, `block`, `linePrefix`, `escapeNewlines`, `firstInDocOrder` of Xsel/Cli.lean).
-/
import Xsel.Cli

namespace Xsel
namespace Cli

/-! ### prefix -/

theorem prefix_rule (f : Flags) (path : Chars) :
    (linePrefix f path = [] ↔ (f.suppressNames = true ∨ path = ['-'])) ∧
    (¬ (f.suppressNames = true ∨ path = ['-']) → linePrefix f path = path ++ [':', ' ']) := by
  unfold linePrefix
  by_cases h : f.suppressNames = true ∨ path = ['-']
  · have : (f.suppressNames || path == ['-']) = true := by
      rcases h with h | h <;> simp [h]
    simp [this, h]
  · have : (f.suppressNames || path == ['-']) = false := by
      simp only [not_or] at h; simp [h.1, h.2]
    simp [this, h]

/-! ### newline escaping -/

theorem newline_not_mem_escapeNewlines (s : Chars) : '\n' ∉ escapeNewlines s := by
  unfold escapeNewlines
  intro hm
  obtain ⟨c, _, hc⟩ := List.mem_flatMap.mp hm
  by_cases h : c = '\n'
  · subst h
    revert hc
    decide
  · have : (c == '\n') = false := by simp [h]
    rw [this] at hc
    simp at hc
    exact h hc.symm

theorem escapeNewlines_id : ∀ (s : Chars), '\n' ∉ s → escapeNewlines s = s
  | [], _ => rfl
  | c :: s, h => by
    have hc : c ≠ '\n' := fun e => h (by simp [e])
    have hs : '\n' ∉ s := fun e => h (by simp [e])
    have ih := escapeNewlines_id s hs
    unfold escapeNewlines at ih ⊢
    have : (c == '\n') = false := by simp [hc]
    rw [List.flatMap_cons, ih]
    simp only [this, Bool.false_eq_true, if_false]
    rfl

theorem escapeNewlines_append (s t : Chars) :
    escapeNewlines (s ++ t) = escapeNewlines s ++ escapeNewlines t := by
  simp [escapeNewlines, List.flatMap_append]

/-! ### first node in document order -/

theorem foldl_min_spec (x : Nat × Chars × Chars) (xs : List (Nat × Chars × Chars)) :
    let m := xs.foldl (fun m y => if y.1 < m.1 then y else m) x
    m ∈ x :: xs ∧ ∀ y ∈ x :: xs, m.1 ≤ y.1 := by
  induction xs generalizing x with
  | nil => simp
  | cons z zs ih =>
    simp only [List.foldl_cons]
    by_cases hz : z.1 < x.1
    · rw [if_pos hz]
      have := ih z
      refine ⟨by simp [List.mem_cons] at this ⊢; rcases this.1 with h | h <;> simp [h], ?_⟩
      intro y hy
      simp only [List.mem_cons] at hy
      rcases hy with rfl | rfl | hy
      · have := this.2 z (by simp); omega
      · exact this.2 _ (by simp)
      · exact this.2 y (by simp [hy])
    · rw [if_neg hz]
      have := ih x
      refine ⟨by simp [List.mem_cons] at this ⊢; rcases this.1 with h | h <;> simp [h], ?_⟩
      intro y hy
      simp only [List.mem_cons] at hy
      rcases hy with rfl | rfl | hy
      · exact this.2 _ (by simp)
      · have := this.2 x (by simp); omega
      · exact this.2 y (by simp [hy])

/-- `firstInDocOrder` returns a member of the node-set whose position is minimal -/
theorem firstInDocOrder_spec {ns : List (Nat × Chars × Chars)} (hne : ns ≠ []) :
    ∃ n, firstInDocOrder ns = some n ∧ n ∈ ns ∧ ∀ m ∈ ns, n.1 ≤ m.1 := by
  cases ns with
  | nil => exact absurd rfl hne
  | cons x xs =>
    have := foldl_min_spec x xs
    exact ⟨_, rfl, this.1, this.2⟩

theorem firstInDocOrder_none (ns : List (Nat × Chars × Chars)) :
    firstInDocOrder ns = none ↔ ns = [] := by
  cases ns <;> simp [firstInDocOrder]

/-! ### records -/

theorem records_failed (f : Flags) (path : Chars) : records f path .failed = [] := rfl

theorem records_empty_nodeset (f : Flags) (path : Chars) : records f path (.nodes []) = [] := rfl

theorem records_scalar (f : Flags) (path : Chars) (s : Chars) :
    records f path (.scalar s) = [linePrefix f path ++ s] := rfl

theorem records_nodes_cons (f : Flags) (path : Chars) (n : Nat × Chars × Chars)
    (ns : List (Nat × Chars × Chars)) :
    records f path (.nodes (n :: ns)) =
      if f.asXml then (n :: ns).map (fun n => escapeNewlines (linePrefix f path ++ n.2.2))
      else if f.printAll then (n :: ns).map (fun n => linePrefix f path ++ n.2.1)
      else match firstInDocOrder (n :: ns) with
        | some n => [linePrefix f path ++ n.2.1]
        | none => [] := rfl

/-- `-m`: one record per node in result order, each the escaped prefix ++ serialisation -/
theorem records_xml (f : Flags) (path : Chars) (ns : List (Nat × Chars × Chars)) (hm : f.asXml = true) :
    records f path (.nodes ns) = ns.map (fun n => escapeNewlines (linePrefix f path ++ n.2.2)) := by
  cases ns with
  | nil => rfl
  | cons n ns => rw [records_nodes_cons, if_pos hm]

/-- `-a` without `-m`: one record per node in result order -/
theorem records_all (f : Flags) (path : Chars) (ns : List (Nat × Chars × Chars))
    (hm : f.asXml = false) (ha : f.printAll = true) :
    records f path (.nodes ns) = ns.map (fun n => linePrefix f path ++ n.2.1) := by
  cases ns with
  | nil => rfl
  | cons n ns => rw [records_nodes_cons, if_neg (by simp [hm]), if_pos ha]

/-- neither `-a` nor `-m`, non-empty node-set: exactly one record, the string-value of the first
    node in document order -/
theorem records_default (f : Flags) (path : Chars) (ns : List (Nat × Chars × Chars)) (hne : ns ≠ [])
    (hm : f.asXml = false) (ha : f.printAll = false) :
    ∃ n, n ∈ ns ∧ (∀ m ∈ ns, n.1 ≤ m.1) ∧ firstInDocOrder ns = some n ∧
      records f path (.nodes ns) = [linePrefix f path ++ n.2.1] := by
  obtain ⟨n, e, hmem, hmin⟩ := firstInDocOrder_spec hne
  refine ⟨n, hmem, hmin, e, ?_⟩
  cases ns with
  | nil => exact absurd rfl hne
  | cons x xs => rw [records_nodes_cons, if_neg (by simp [hm]), if_neg (by simp [ha]), e]

/-- with `-m` every record of a node-set result is a single line -/
theorem m_records_single_line (f : Flags) (path : Chars) (ns : List (Nat × Chars × Chars))
    (hm : f.asXml = true) : ∀ r ∈ records f path (.nodes ns), '\n' ∉ r := by
  intro r hr
  rw [records_xml f path ns hm] at hr
  obtain ⟨n, _, rfl⟩ := List.mem_map.mp hr
  exact newline_not_mem_escapeNewlines _

/-! ### block -/

/-- the block of a file is its records, each followed by a newline -/
theorem block_is_lines (f : Flags) (path : Chars) (r : FileResult) :
    block f path r = ((records f path r).map (fun l => l ++ ['\n'])).flatten := by
  simp [block, List.flatMap_def]

theorem block_failed (f : Flags) (path : Chars) : block f path .failed = [] := rfl

theorem block_empty_nodeset (f : Flags) (path : Chars) : block f path (.nodes []) = [] := rfl

/-- the number of newline-terminated records in a block whose records are single lines -/
theorem block_nil_iff (f : Flags) (path : Chars) (r : FileResult) :
    block f path r = [] ↔ records f path r = [] := by
  unfold block
  constructor
  · intro h
    cases hr : records f path r with
    | nil => rfl
    | cons a as => rw [hr] at h; simp at h
  · intro h; rw [h]; rfl

end Cli
end Xsel
