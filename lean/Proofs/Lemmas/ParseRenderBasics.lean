/-
  Proofs/Lemmas/ParseRenderBasics.lean — follow sets, monotonicity of the levelled parser, and the
  tower: the parser of a looser level reads what the parser of a tighter level reads.
-/
import Proofs.Lemmas.ParseRenderDefs

namespace Xsel.Syntax

/-! ### follow sets -/

theorem folTok_mono {k k' : Nat} {t : Tok} (h : folTok k t = true) (hk : k ≤ k') : folTok k' t = true := by
  cases t with
  | p x => cases x <;> simp [folTok] at h ⊢ <;> omega
  | kw x => cases x <;> simp [folTok] at h ⊢ <;> omega
  | _ => simp [folTok] at h

theorem fol_mono {k k' : Nat} {rest : Toks} (h : fol k rest = true) (hk : k ≤ k') : fol k' rest = true := by
  cases rest with
  | nil => rfl
  | cons t r => exact folTok_mono h hk

theorem opAt_le_of_folTok {k L : Nat} {t : Tok} {op : BinOp} (ho : opAt L t = some op)
    (h : folTok k t = true) : L ≤ k := by
  unfold opAt at ho
  split at ho <;> simp [folTok] at h <;> first | omega | cases ho

theorem opAt_none_of_fol {k L : Nat} {t : LTok} {r : Toks} (h : fol k (t :: r) = true) (hk : k < L) :
    opAt L t.tok = none := by
  cases ho : opAt L t.tok with
  | none => rfl
  | some op => have := opAt_le_of_folTok ho h; omega

theorem opAt_opTok (op : BinOp) (h : opLevel op ≤ 5) : opAt (opLevel op) (opTok op) = some op := by
  cases op with
  | cmp o => cases o <;> rfl
  | union => simp [opLevel] at h
  | _ => rfl

theorem folTok_opTok (op : BinOp) : folTok (opLevel op) (opTok op) = true := by
  cases op with
  | cmp o => cases o <;> rfl
  | _ => rfl

theorem fol_not_pipe {k : Nat} {rest : Toks} (h : fol k rest = true) (hk : k < 7) :
    ∀ g r, rest ≠ P .pipe g :: r := by
  intro g r he; subst he; simp [fol, folTok] at h; omega

theorem fol_not_slash {k : Nat} {rest : Toks} (h : fol k rest = true) (hk : k < 8) :
    ∀ g r, rest ≠ P .slash g :: r := by
  intro g r he; subst he; simp [fol, folTok] at h; omega

theorem fol_not_dslash {k : Nat} {rest : Toks} (h : fol k rest = true) :
    ∀ g r, rest ≠ P .dslash g :: r := by
  intro g r he; subst he; simp [fol, folTok] at h

theorem fol_not_lbrack {k : Nat} {rest : Toks} (h : fol k rest = true) (hk : k < 9) :
    ∀ g r, rest ≠ P .lbrack g :: r := by
  intro g r he; subst he; simp [fol, folTok] at h; omega

theorem pathCont_trivial {c : Cfg} {f : Nat} {x : Expr} {rest : Toks}
    (h1 : ∀ g r, rest ≠ P .slash g :: r) (h2 : ∀ g r, rest ≠ P .dslash g :: r) :
    pathCont c f x rest = some (x, rest) := by
  unfold pathCont
  split
  · exact absurd rfl (h1 _ _)
  · exact absurd rfl (h2 _ _)
  · rfl

theorem pBinRest_trivial {c : Cfg} {f k L : Nat} {x : Expr} {rest : Toks} (h : fol k rest = true) (hk : k < L) :
    pBinRest c (f + 1) L x rest = some (x, rest) := by
  rw [pBinRest_succ]
  cases rest with
  | nil => rfl
  | cons t r => simp only [opAt_none_of_fol h hk]

theorem pUnionRest_trivial {c : Cfg} {f : Nat} {x : Expr} {rest : Toks} (h : ∀ g r, rest ≠ P .pipe g :: r) :
    pUnionRest c (f + 1) x rest = some (x, rest) := by
  rw [pUnionRest_succ]
  split
  · exact absurd rfl (h _ _)
  · rfl

theorem pFilt_trivial {c : Cfg} {f : Nat} {x : Expr} {rest : Toks} (h : ∀ g r, rest ≠ P .lbrack g :: r) :
    pFilt c (f + 1) x rest = some (x, rest) := by
  rw [pFilt_succ]
  split
  · exact absurd rfl (h _ _)
  · rfl

theorem pPreds_trivial {c : Cfg} {f : Nat} {rest : Toks} (h : ∀ g r, rest ≠ P .lbrack g :: r) :
    pPreds c (f + 1) rest = some (.nil, rest) := by
  rw [pPreds_succ]
  split
  · exact absurd rfl (h _ _)
  · rfl

theorem after_trivial {c : Cfg} {f k : Nat} {x : Expr} {rest : Toks} (h : fol k rest = true) (hf : 1 ≤ f) (hk : k < 9) :
    after c f (k + 1) x rest = some (x, rest) := by
  obtain ⟨f, rfl⟩ : ∃ f', f = f' + 1 := ⟨f - 1, by omega⟩
  unfold after
  split
  · exact pBinRest_trivial h (by omega)
  · split
    · rfl
    · split
      · exact pUnionRest_trivial (fol_not_pipe h (by omega))
      · split
        · exact pathCont_trivial (fol_not_slash h (by omega)) (fol_not_dslash h)
        · exact pFilt_trivial (fol_not_lbrack h hk)

theorem pathCont_mono {c : Cfg} {f f' : Nat} {x : Expr} {rest : Toks} {R} (h : pathCont c f x rest = some R)
    (hf : f ≤ f') : pathCont c f' x rest = some R := by
  unfold pathCont at h ⊢
  split at h
  · exact pRel_mono h hf
  · exact pRel_mono h hf
  · exact h

theorem pUnion_mono {c : Cfg} {f f' : Nat} {ts : Toks} {R} (h : pUnion c f ts = some R)
    (hf : f ≤ f') : pUnion c f' ts = some R := by
  unfold pUnion at h ⊢
  split at h
  · rename_i hp; simp only [pPath_mono hp hf]; exact pUnionRest_mono h hf
  · cases h

theorem pPrimFilt_mono {c : Cfg} {f f' : Nat} {ts : Toks} {R} (h : pPrimFilt c f ts = some R)
    (hf : f ≤ f') : pPrimFilt c f' ts = some R := by
  unfold pPrimFilt at h ⊢
  split at h
  · rename_i hp; simp only [pPrimary_mono hp hf]; exact pFilt_mono h hf
  · cases h

theorem after_mono {c : Cfg} {f f' k : Nat} {x : Expr} {rest : Toks} {R} (h : after c f k x rest = some R)
    (hf : f ≤ f') : after c f' k x rest = some R := by
  unfold after at h ⊢
  split
  · rename_i hk; rw [if_pos hk] at h; exact pBinRest_mono h hf
  · rename_i hk; rw [if_neg hk] at h
    split
    · rename_i hk; rw [if_pos hk] at h; exact h
    · rename_i hk; rw [if_neg hk] at h
      split
      · rename_i hk; rw [if_pos hk] at h; exact pUnionRest_mono h hf
      · rename_i hk; rw [if_neg hk] at h
        split
        · rename_i hk; rw [if_pos hk] at h; exact pathCont_mono h hf
        · rename_i hk; rw [if_neg hk] at h; exact pFilt_mono h hf

theorem entryThen_mono {c : Cfg} {f f' k : Nat} {ts : Toks} {R} (h : entryThen c f k ts = some R)
    (hf : f ≤ f') : entryThen c f' k ts = some R := by
  unfold entryThen at h ⊢
  split
  · rename_i hk; rw [if_pos hk] at h; exact pBin_mono h hf
  · rename_i hk; rw [if_neg hk] at h
    split
    · rename_i hk; rw [if_pos hk] at h; exact pUnary_mono h hf
    · rename_i hk; rw [if_neg hk] at h
      split
      · rename_i hk; rw [if_pos hk] at h; exact pUnion_mono h hf
      · rename_i hk; rw [if_neg hk] at h
        split
        · rename_i hk; rw [if_pos hk] at h; exact pPath_mono h hf
        · rename_i hk; rw [if_neg hk] at h; exact pPrimFilt_mono h hf


theorem entryThen_bin {c : Cfg} {f k : Nat} {ts : Toks} (hk : k ≤ 5) : entryThen c f k ts = pBin c f k ts := by
  unfold entryThen; rw [if_pos hk]
theorem entryThen_6 {c : Cfg} {f : Nat} {ts : Toks} : entryThen c f 6 ts = pUnary c f ts := rfl
theorem entryThen_7 {c : Cfg} {f : Nat} {ts : Toks} : entryThen c f 7 ts = pUnion c f ts := rfl
theorem entryThen_8 {c : Cfg} {f : Nat} {ts : Toks} : entryThen c f 8 ts = pPath c f ts := rfl
theorem entryThen_9 {c : Cfg} {f : Nat} {ts : Toks} : entryThen c f 9 ts = pPrimFilt c f ts := rfl
theorem after_bin {c : Cfg} {f k : Nat} {x : Expr} {ts : Toks} (hk : k ≤ 5) : after c f k x ts = pBinRest c f k x ts := by
  unfold after; rw [if_pos hk]
theorem after_6 {c : Cfg} {f : Nat} {x : Expr} {ts : Toks} : after c f 6 x ts = some (x, ts) := rfl
theorem after_7 {c : Cfg} {f : Nat} {x : Expr} {ts : Toks} : after c f 7 x ts = pUnionRest c f x ts := rfl
theorem after_8 {c : Cfg} {f : Nat} {x : Expr} {ts : Toks} : after c f 8 x ts = pathCont c f x ts := rfl
theorem after_9 {c : Cfg} {f : Nat} {x : Expr} {ts : Toks} : after c f 9 x ts = pFilt c f x ts := rfl

/-! ### tokens no operand starts with -/

theorem callStart_none_of_fnTok {c : Cfg} {a : LTok} {r : Toks} (h : fnTok c a.tok = none) :
    callStart c (a :: r) = none := by
  unfold callStart
  split
  · rename_i heq; cases heq
    split <;> simp_all
  · rename_i heq; cases heq
    split
    · split <;> simp_all
    · rfl
  · rfl

theorem nodeTest_dead {c : Cfg} {g : Bool} {x : Punct} {r : Toks}
    (h : x = .minus ∨ x = .rparen) : nodeTest c (⟨.p x, g⟩ :: r) = none := by
  rcases h with rfl | rfl <;> simp [nodeTest, nameTok]

theorem pStep_dead {c : Cfg} {f : Nat} {b : Expr} {g : Bool} {x : Punct} {r : Toks}
    (h : x = .minus ∨ x = .rparen) : pStep c f b (⟨.p x, g⟩ :: r) = none := by
  cases f with
  | zero => rfl
  | succ f =>
    rw [pStep_succ]
    have h1 : callStart c (⟨.p x, g⟩ :: r) = none := callStart_none_of_fnTok rfl
    have h2 := nodeTest_dead (c := c) (g := g) (r := r) h
    rcases h with rfl | rfl <;> simp [h1, h2]

theorem startsPrimary_dead {c : Cfg} {g : Bool} {x : Punct} {r : Toks}
    (h : x = .minus ∨ x = .rparen) : startsPrimary c (⟨.p x, g⟩ :: r) = false := by
  have h1 : callStart c (⟨.p x, g⟩ :: r) = none := callStart_none_of_fnTok rfl
  rcases h with rfl | rfl <;> simp [startsPrimary, h1]

theorem pPath_dead {c : Cfg} {f : Nat} {g : Bool} {x : Punct} {r : Toks}
    (h : x = .minus ∨ x = .rparen) : pPath c f (⟨.p x, g⟩ :: r) = none := by
  cases f with
  | zero => rfl
  | succ f =>
    rw [pPath_succ]
    have hs := startsPrimary_dead (c := c) (g := g) (r := r) h
    have hr : pRel c f .ctx (⟨.p x, g⟩ :: r) = none := by
      cases f with
      | zero => rfl
      | succ f => rw [pRel_succ, pStep_dead h]
    rcases h with rfl | rfl <;> simp [hs, hr]


theorem pUnary_rparen {c : Cfg} {f : Nat} {g : Bool} {r : Toks} : pUnary c f (⟨.p .rparen, g⟩ :: r) = none := by
  cases f with
  | zero => rfl
  | succ f => rw [pUnary_succ]; simp [pPath_dead]

theorem pBin_rparen {c : Cfg} {f : Nat} {g : Bool} {r : Toks} : ∀ lvl, pBin c f lvl (⟨.p .rparen, g⟩ :: r) = none := by
  induction f with
  | zero => intro _; rfl
  | succ f ih =>
    intro lvl
    rw [pBin_succ]
    split
    · exact pUnary_rparen
    · rw [ih]

theorem number_some_starts {c : Cfg} {ts : Toks} {R} (h : number c ts = some R) : startsPrimary c ts = true := by
  unfold number at h
  split at h
  · rfl
  · rfl
  · rfl
  · split at h
    · rename_i hg; simp [startsPrimary, hg]
    · cases h
  · cases h

theorem callStart_some_starts {c : Cfg} {ts : Toks} {R} (h : callStart c ts = some R) : startsPrimary c ts = true := by
  unfold startsPrimary
  split
  · rfl
  · rfl
  · rfl
  · rfl
  · rw [callStart_none_of_fnTok rfl] at h; cases h
  · rw [h]; rfl

theorem pPrimary_some_starts {c : Cfg} {f : Nat} {ts : Toks} {R} (h : pPrimary c f ts = some R) :
    startsPrimary c ts = true ∧ (∀ g r, ts ≠ P .slash g :: r) ∧ (∀ g r, ts ≠ P .dslash g :: r) := by
  cases f with
  | zero => cases h
  | succ f =>
    rw [pPrimary_succ] at h
    split at h
    · simp [startsPrimary, P]
    · simp [startsPrimary, P]
    · simp [startsPrimary, P]
    · have hs : startsPrimary c ts = true := by
        split at h
        · rename_i hc; exact callStart_some_starts hc
        · exact number_some_starts h
      refine ⟨hs, ?_, ?_⟩
      · intro g r he; subst he
        rw [callStart_none_of_fnTok rfl] at h
        simp [number] at h
      · intro g r he; subst he
        rw [callStart_none_of_fnTok rfl] at h
        simp [number] at h

/-! ### the tower -/

theorem tower_step {c : Cfg} {F k : Nat} {ts rest : Toks} {x : Expr} {R} (hk : k < 9)
    (he : entryThen c F (k + 1) ts = some (x, rest)) (ha : after c F k x rest = some R) :
    entryThen c (F + 2) k ts = some R := by
  by_cases h4 : k ≤ 4
  · rw [entryThen_bin (by omega)] at he ⊢
    rw [after_bin (by omega)] at ha
    rw [pBin_succ, if_neg (by omega), pBin_mono he (Nat.le_succ _)]
    exact pBinRest_mono ha (Nat.le_succ _)
  by_cases h5 : k = 5
  · subst h5
    rw [entryThen_bin (by omega)]
    rw [after_bin (by omega)] at ha
    rw [entryThen_6] at he
    rw [pBin_succ, if_neg (by omega), pBin_succ, if_pos (by omega), he]
    exact pBinRest_mono ha (Nat.le_succ _)
  by_cases h6 : k = 6
  · subst h6
    rw [entryThen_7] at he
    rw [after_6] at ha
    rw [entryThen_6]
    apply pUnary_mono (f := F + 1) _ (Nat.le_succ _)
    rw [pUnary_succ]
    unfold pUnion at he
    split
    · rw [pPath_dead (Or.inl rfl)] at he; cases he
    · rw [ha] at he; exact he
  by_cases h7 : k = 7
  · subst h7
    rw [entryThen_8] at he
    rw [after_7] at ha
    rw [entryThen_7]
    apply pUnion_mono (f := F) _ (by omega)
    unfold pUnion
    rw [he]; exact ha
  · obtain rfl : k = 8 := by omega
    rw [entryThen_9] at he
    rw [after_8] at ha
    rw [entryThen_8]
    apply pPath_mono (f := F + 1) _ (Nat.le_succ _)
    rw [pPath_succ]
    unfold pPrimFilt at he
    split at he
    · rename_i hp
      obtain ⟨hs, h1, h2⟩ := pPrimary_some_starts hp
      split
      · exact absurd rfl (h1 _ _)
      · exact absurd rfl (h2 _ _)
      · rw [if_pos hs, hp]
        simp only [he]
        unfold pathCont at ha
        split at ha
        · exact ha
        · exact ha
        · rename_i hn1 hn2
          split
          · rename_i heq; cases heq; exact absurd rfl (hn1 _ _)
          · rename_i heq; cases heq; exact absurd rfl (hn2 _ _)
          · exact ha
    · cases he


theorem tower {c : Cfg} {x : Expr} {ts rest : Toks} {L K : Nat} (hL : L ≤ 9)
    (H : ∀ f R, 1 ≤ f → after c f L x rest = some R → entryThen c (f + K) L ts = some R) :
    ∀ d min, min + d = L → fol min rest = true → ∀ f R, 1 ≤ f → after c f min x rest = some R →
      entryThen c (f + K + 2 * d) min ts = some R := by
  intro d
  induction d with
  | zero => intro min hm _ f R hf ha; subst hm; exact H f R hf ha
  | succ d ih =>
    intro min hm hfol f R hf ha
    have h1 := ih (min + 1) (by omega) (fol_mono hfol (Nat.le_succ _)) f (x, rest) hf
      (after_trivial hfol hf (by omega))
    have := tower_step (by omega) h1 (after_mono ha (by omega))
    exact entryThen_mono this (by omega)


/-! ### from the own level of an expression to every level -/

theorem opLevel_le (op : BinOp) : opLevel op ≤ 7 := by
  cases op with
  | cmp o => cases o <;> simp [opLevel]
  | _ => simp [opLevel]

theorem level_le (e : Expr) : level e ≤ 9 := by
  cases e with
  | bin op l r => have := opLevel_le op; simp only [level]; omega
  | call b p n a => cases b <;> simp [level]
  | _ => simp [level]

/-- `e` is read back by the parser of its own level -/
def ReadsAt (c : Cfg) (e : Expr) : Prop :=
  ∀ rest f R, fol (level e) rest = true → 1 ≤ f → after c f (level e) (normCtx e) rest = some R →
    entryThen c (f + own e) (level e) (raw e ++ rest) = some R

/-- `e` is read back by the parser of every level -/
def Reads (c : Cfg) (e : Expr) : Prop :=
  ∀ min rest f R, min ≤ 9 → fol min rest = true → 1 ≤ f → after c f min (normCtx e) rest = some R →
    entryThen c (f + costAt e min) min (render e min ++ rest) = some R

theorem fol_rparen (k : Nat) (g : Bool) (r : Toks) : fol k (⟨.p .rparen, g⟩ :: r) = true := rfl
theorem fol_rbrack (k : Nat) (g : Bool) (r : Toks) : fol k (⟨.p .rbrack, g⟩ :: r) = true := rfl
theorem fol_comma (k : Nat) (g : Bool) (r : Toks) : fol k (⟨.p .comma, g⟩ :: r) = true := rfl

theorem reads_of_at {c : Cfg} {e : Expr} (h : ReadsAt c e) : Reads c e := by
  intro min rest f R hmin hfol hf ha
  have hL := level_le e
  unfold costAt tw render wrap
  by_cases hw : level e < min
  · simp only [if_pos hw]
    -- inside the parentheses
    have hin := tower (c := c) (x := normCtx e) (ts := raw e ++ U (.p .rparen) :: rest)
      (rest := U (.p .rparen) :: rest) (K := own e) hL
      (fun f R hf ha => h _ f R (fol_rparen _ _ _) hf ha) (level e) 0 (by omega) (fol_rparen _ _ _) 1
      (normCtx e, U (.p .rparen) :: rest) (Nat.le_refl _)
      (by rw [after_bin (by omega)]; rfl)
    rw [entryThen_bin (by omega)] at hin
    have hprim : pPrimary c (1 + own e + 2 * level e + 1) (U (.p .lparen) :: (raw e ++ U (.p .rparen) :: rest))
        = some (normCtx e, rest) := by
      rw [pPrimary_succ]
      simp only [U] at hin ⊢
      rw [hin]
    have h9 : ∀ f R, 1 ≤ f → after c f 9 (normCtx e) rest = some R →
        entryThen c (f + (1 + own e + 2 * level e + 1)) 9 (U (.p .lparen) :: (raw e ++ U (.p .rparen) :: rest)) = some R := by
      intro f R _ ha
      rw [entryThen_9]; rw [after_9] at ha
      unfold pPrimFilt
      rw [pPrimary_mono hprim (by omega)]
      exact pFilt_mono ha (by omega)
    have := tower (c := c) (L := 9) (Nat.le_refl _) h9 (9 - min) min (by omega) hfol f R hf ha
    have hts : U (.p .lparen) :: (raw e ++ [U (.p .rparen)]) ++ rest = U (.p .lparen) :: (raw e ++ U (.p .rparen) :: rest) := by
      simp
    rw [hts]
    exact entryThen_mono this (by omega)
  · simp only [if_neg hw]
    have := tower (c := c) (x := normCtx e) (ts := raw e ++ rest) (rest := rest) (K := own e) hL
      (fun f R hf ha => h rest f R (fol_mono hfol (by omega)) hf ha) (level e - min) min (by omega) hfol f R hf ha
    exact entryThen_mono this (by omega)


end Xsel.Syntax
