/-
  Proofs/Lemmas/WalkValid2.lean — `derivTop e` is a derivation tree of the regenerated grammar, for every `e`.
-/
import Proofs.Lemmas.WalkValid

namespace Xsel.Walk
open Xsel Xsel.Syntax

/-- build a rooted node from its children list once the production is checked -/
theorem rooted_node (n : String) (ks : List PT) (rhs : List (Bool × String))
    (hr : (PTs.ofList ks).rhs = rhs) (hv : (PTs.ofList ks).valid prods = true)
    (hp : prods.contains (n, rhs) = true) : Rooted n (N n ks) := by
  refine ⟨rfl, rfl, ?_⟩
  rw [valid_N, hr, hp, hv]; rfl

theorem level_le (e : Expr) : level e ≤ 9 := by
  cases e with
  | bin op l r => cases op with | cmp o => cases o <;> simp [level, opLevel] | _ => simp [level, opLevel]
  | call b p n as => cases b <;> simp [level]
  | _ => simp [level]

theorem opLevel_le (op : BinOp) : opLevel op + 1 ≤ 9 := by
  cases op with | cmp o => cases o <;> decide | _ => decide

theorem rooted_litNode (s : Chars) : Rooted "Literal" (litNode s) := by
  unfold litNode litTok
  cases s.contains '\''
  · exact rooted_node _ _ [(false, "singlequote")] rfl rfl (by decide +kernel)
  · exact rooted_node _ _ [(false, "doublequote")] rfl rfl (by decide +kernel)

theorem rooted_numNode (n : Num) : Rooted "Number" (numNode n) := by
  unfold numNode
  simp only
  split
  · exact rooted_node _ _ [(false, "digits")] rfl rfl (by decide +kernel)
  · exact rooted_node _ _ [(false, "digits"), (false, "."), (false, "digits")] rfl rfl (by decide +kernel)

theorem rooted_qnameNode (p : Option Chars) (n : Chars) : Rooted "QName" (qnameNode p n) := by
  cases p with
  | none =>
    exact rooted_unit _ _ _ (rooted_node "QNameLocalOnly" _ [(false, "ncname")] rfl rfl (by decide +kernel)) (by decide +kernel)
  | some q =>
    exact rooted_unit _ _ _ (rooted_node "QNameNamespaceWithLocal" _ [(false, "ncname"), (false, ":"), (false, "ncname")] rfl rfl (by decide +kernel)) (by decide +kernel)

theorem rooted_nodeType (k : Kw) (hk : k = .node ∨ k = .text ∨ k = .comment ∨ k = .pi) :
    Rooted "NodeTest" (nodeTypeNode k) := by
  unfold nodeTypeNode
  have h1 : Rooted "NodeType" (N "NodeType" [.tk (.kw k)]) := by
    rcases hk with h | h | h | h <;> subst h <;> exact rooted_node _ _ _ rfl rfl (by decide +kernel)
  have h2 : Rooted "NodeTestNodeTypeNoArgTest" (N "NodeTestNodeTypeNoArgTest" [N "NodeType" [.tk (.kw k)], tkp .lparen, tkp .rparen]) := by
    refine rooted_node _ _ [(true, "NodeType"), (false, "("), (false, ")")] ?_ ?_ (by decide +kernel)
    · simp only [PTs.ofList, rhs_cons_nt _ _ _ h1, rhs_cons_tkp, rhs_nil]; rfl
    · simp only [PTs.ofList, valid_cons, h1.2.2, valid_tkp, valid_nil]; rfl
  exact rooted_unit _ _ _ h2 (by decide +kernel)

theorem rooted_testNode (t : NodeTest) : Rooted "NodeTest" (testNode t) := by
  cases t with
  | node => exact rooted_nodeType _ (.inl rfl)
  | text => exact rooted_nodeType _ (.inr (.inl rfl))
  | comment => exact rooted_nodeType _ (.inr (.inr (.inl rfl)))
  | pi => exact rooted_nodeType _ (.inr (.inr (.inr rfl)))
  | piTarget s =>
    have hl := rooted_litNode s
    have h2 : Rooted "NodeTestProcInstTargetTest" (N "NodeTestProcInstTargetTest" [.tk (.kw .pi), tkp .lparen, litNode s, tkp .rparen]) := by
      refine rooted_node _ _ [(false, "processing-instruction"), (false, "("), (true, "Literal"), (false, ")")] ?_ ?_ (by decide +kernel)
      · simp only [PTs.ofList, rhs_cons_tk, rhs_cons_tkp, rhs_cons_nt _ _ _ hl, rhs_nil]; rfl
      · simp only [PTs.ofList, valid_cons, valid_tk, valid_tkp, hl.2.2, valid_nil]; rfl
    exact rooted_unit _ _ _ h2 (by decide +kernel)
  | any => exact rooted_unit _ _ _ (rooted_node "NameTestAnyElement" _ _ rfl rfl (by decide +kernel)) (by decide +kernel)
  | nsAny p => exact rooted_unit _ _ _ (rooted_node "NameTestNamespaceAnyLocal" _ [(false, "ncname"), (false, ":"), (false, "*")] rfl rfl (by decide +kernel)) (by decide +kernel)
  | localAny l => exact rooted_unit _ _ _ (rooted_node "NameTestLocalAnyNamespace" _ [(false, "*"), (false, ":"), (false, "ncname")] rfl rfl (by decide +kernel)) (by decide +kernel)
  | qname p l => exact rooted_unit _ _ _ (rooted_node "NameTestQNameNamespaceWithLocal" _ [(false, "ncname"), (false, ":"), (false, "ncname")] rfl rfl (by decide +kernel)) (by decide +kernel)
  | name l => exact rooted_unit _ _ _ (rooted_node "NameTestQNameLocalOnly" _ [(false, "ncname")] rfl rfl (by decide +kernel)) (by decide +kernel)

theorem rooted_axisNode (ax : Axis) : Rooted "AxisSpecifier" (axisNode ax) := by
  unfold axisNode
  have h1 : Rooted "AxisName" (N "AxisName" [.tk (.kw (.axis ax))]) := by
    cases ax <;> exact rooted_node _ _ _ rfl rfl (by decide +kernel)
  have h2 : Rooted "AxisSpecifierWithAxisName" (N "AxisSpecifierWithAxisName" [N "AxisName" [.tk (.kw (.axis ax))], tkp .coloncolon]) := by
    refine rooted_node _ _ [(true, "AxisName"), (false, "::")] ?_ ?_ (by decide +kernel)
    · simp only [PTs.ofList, rhs_cons_nt _ _ _ h1, rhs_cons_tkp, rhs_nil]; rfl
    · simp only [PTs.ofList, valid_cons, h1.2.2, valid_tkp, valid_nil]; rfl
  exact rooted_unit _ _ _ h2 (by decide +kernel)

/-- two nonterminal children -/
theorem rooted_pair (n a b : String) (x y : PT) (hx : Rooted a x) (hy : Rooted b y)
    (hp : prods.contains (n, [(true, a), (true, b)]) = true) : Rooted n (N n [x, y]) := by
  refine rooted_node _ _ _ ?_ ?_ hp
  · simp only [PTs.ofList, rhs_cons_nt _ _ _ hx, rhs_cons_nt _ _ _ hy, rhs_nil]
  · simp only [PTs.ofList, valid_cons, hx.2.2, hy.2.2, valid_nil]; rfl

/-- nonterminal, token, nonterminal -/
theorem rooted_infix (n a b : String) (x y : PT) (t : Tok) (hx : Rooted a x) (hy : Rooted b y)
    (hp : prods.contains (n, [(true, a), (false, t.term), (true, b)]) = true) : Rooted n (N n [x, .tk t, y]) := by
  refine rooted_node _ _ _ ?_ ?_ hp
  · simp only [PTs.ofList, rhs_cons_nt _ _ _ hx, rhs_cons_tk, rhs_cons_nt _ _ _ hy, rhs_nil]
  · simp only [PTs.ofList, valid_cons, hx.2.2, valid_tk, hy.2.2, valid_nil]; rfl

theorem rooted_predNode (t : PT) (h : Rooted "OrExpr" t) : Rooted "Predicate" (predNode t) := by
  unfold predNode
  refine rooted_node _ _ [(false, "["), (true, "OrExpr"), (false, "]")] ?_ ?_ (by decide +kernel)
  · simp only [PTs.ofList, rhs_cons_tkp, rhs_cons_nt _ _ _ h, rhs_nil]; rfl
  · simp only [PTs.ofList, valid_cons, valid_tkp, h.2.2, valid_nil]; rfl

def HeadValid : Head → Prop
  | .filt f => Rooted "FilterExpr" f
  | _ => True

theorem rooted_pathNode (h : Head) (r : PT) (hh : HeadValid h) (hr : Rooted "RelativeLocationPath" r) :
    Rooted "PathExpr" (pathNode h r) := by
  cases h with
  | rel =>
    exact rooted_unit _ _ _ (rooted_unit "LocationPath" _ _ hr (by decide +kernel)) (by decide +kernel)
  | abs =>
    have h1 : Rooted "AbsoluteLocationPathWithRelative" (N "AbsoluteLocationPathWithRelative" [tkp .slash, r]) := by
      refine rooted_node _ _ [(false, "/"), (true, "RelativeLocationPath")] ?_ ?_ (by decide +kernel)
      · simp only [PTs.ofList, rhs_cons_tkp, rhs_cons_nt _ _ _ hr, rhs_nil]; rfl
      · simp only [PTs.ofList, valid_cons, valid_tkp, hr.2.2, valid_nil]; rfl
    exact rooted_unit _ _ _ (rooted_unit "LocationPath" _ _ (rooted_unit "AbsoluteLocationPath" _ _ h1 (by decide +kernel))
      (by decide +kernel)) (by decide +kernel)
  | filt f =>
    have hf : Rooted "FilterExpr" f := hh
    have h1 : Rooted "PathExprFilterWithPath" (N "PathExprFilterWithPath" [f, tkp .slash, r]) :=
      rooted_infix _ _ _ f r (.p .slash) hf hr (by decide +kernel)
    exact rooted_unit _ _ _ h1 (by decide +kernel)

end Xsel.Walk
