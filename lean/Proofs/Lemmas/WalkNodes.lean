/-
  Proofs/Lemmas/WalkNodes.lean — `walk` at the leaves and at the path, step, predicate and call nodes of
  a derivation tree (handler table of the code).
-/
import Proofs.Lemmas.WalkHandlers

namespace Xsel.Walk
open Xsel Xsel.Syntax

/-! ### unary minus, literals, numbers, variables -/

theorem walk_negate (T : PT) (w : WCtx) (ht : T.isNt = true) :
    walk tbl (N "UnaryExprNegate" [tkp .minus, T]) w =
      (walk tbl T w >>= fun x => .ok (w.set (.num (Num.neg (Model.toNum (Model.strval w.c.a) x.res))))) := by
  simp only [N, ofList_cons, ofList_nil]
  rw [walk]
  simp [walkLast_cons, ht]
  rfl

theorem dropLast_append_singleton {α} (l : List α) (x : α) : (l ++ [x]).dropLast = l := by simp

theorem walk_literal (s : Chars) (w : WCtx) : walk tbl (litNode s) w = .ok (w.set (.str s)) := by
  simp only [litNode, N, ofList_cons, ofList_nil]
  rw [walk]
  simp [PTs.text, PT.text, tokText, litTok]

theorem opt_map_beq {q : Option Rat} {n : Num} (h : (q.map Num.rnd == some n) = true) :
    ∃ r, q = some r ∧ Num.rnd r = n := by
  cases q with
  | none => simp at h
  | some r => exact ⟨r, rfl, by simpa using h⟩

theorem walk_number (n : Num) (w : WCtx) (h : numOk n = true) :
    walk tbl (numNode n) w = .ok (w.set (.num n)) := by
  unfold numOk at h
  unfold numNode
  simp only at h ⊢
  split at h
  · next heq =>
    simp only [heq, N, ofList_cons, ofList_nil]
    simp only [Bool.and_eq_true] at h
    obtain ⟨r, hr, hn⟩ := opt_map_beq h.2
    rw [walk]
    simp [PTs.text, PT.text, tokText, hr, hn]
  · next ch fr heq =>
    simp only [heq, N, ofList_cons, ofList_nil]
    simp only [Bool.and_eq_true] at h
    obtain ⟨r, hr, hn⟩ := opt_map_beq h.2
    rw [walk]
    simp [PTs.text, PT.text, tokText, tkp, Punct.chars, hr, hn]

theorem takeWhile_all {p : Char → Bool} : ∀ {s : Chars}, s.all p = true → s.takeWhile p = s
  | [], _ => rfl
  | x :: xs, h => by
    simp only [List.all_cons, Bool.and_eq_true] at h
    simp [List.takeWhile, h.1, takeWhile_all h.2]

theorem dropWhile_all {p : Char → Bool} : ∀ {s : Chars}, s.all p = true → s.dropWhile p = []
  | [], _ => rfl
  | x :: xs, h => by
    simp only [List.all_cons, Bool.and_eq_true] at h
    simp [List.dropWhile, h.1, dropWhile_all h.2]

theorem splitQName_none {s : Chars} (h : noColon s = true) : splitQName s = (none, s) := by
  unfold splitQName
  have : s.dropWhile (· != ':') = [] := dropWhile_all h
  simp [this]


theorem splitQName_some {p s : Chars} (hp : noColon p = true) (hs : noColon s = true) :
    splitQName (p ++ ':' :: s) = (some p, s) := by
  unfold splitQName
  have h1 : (p ++ ':' :: s).dropWhile (· != ':') = ':' :: s := by
    rw [List.dropWhile_append_of_pos (fun x hx => (List.all_eq_true.mp hp) x hx)]
    simp [List.dropWhile]
  have h2 : (p ++ ':' :: s).takeWhile (· != ':') = p := by
    rw [List.takeWhile_append_of_pos (fun x hx => (List.all_eq_true.mp hp) x hx)]
    simp [List.takeWhile]
  rw [h1, h2]
  simp only
  rw [takeWhile_all hs]

/-- the names of a variable or function are free of colons (the modelled domain of `GetQName`) -/
def qnOk (p : Option Chars) (n : Chars) : Bool :=
  noColon n && (match p with | none => true | some q => noColon q)

theorem splitQName_varTok (p : Option Chars) (n : Chars) (h : qnOk p n = true) :
    splitQName (match varTok p n with | .var s => s | _ => []) = (p, n) := by
  cases p with
  | none =>
    simp only [qnOk, Bool.and_true] at h
    simpa [varTok] using splitQName_none h
  | some q =>
    simp only [qnOk, Bool.and_eq_true] at h
    simpa [varTok] using splitQName_some h.2 h.1

theorem walk_var (p : Option Chars) (n : Chars) (w : WCtx) (h : qnOk p n = true) :
    Sim (walk tbl (N "VariableReference" [.tk (varTok p n)]) w) w.c (eval Model.sem (.var p n) w.c) := by
  simp only [N, ofList_cons, ofList_nil]
  rw [walk, eval]
  have hs := splitQName_varTok p n h
  have hv : ∃ s, varTok p n = .var s := by cases p <;> exact ⟨_, rfl⟩
  obtain ⟨s, hvs⟩ := hv
  rw [hvs] at hs
  simp only at hs
  simp [PTs.text, PT.text, tokText, hvs, hs]
  cases hr : resolve w.c.env p n with
  | error e => simp [bind, Except.bind, Sim]
  | ok q =>
    cases hl : lookupQ q w.c.env.vars with
    | none => simp [hr, hl, bind, Except.bind, Sim, throw, throwThe, MonadExceptOf.throw]
    | some v => simp [hr, hl, bind, Except.bind, Sim, pure, Except.pure, WCtx.set]

end Xsel.Walk
