/-
  Proofs/Lemmas/TreeSpec.lean — T7: facts about the specification `Spec.inAxis` on well-formed
  arenas: every axis is the converse of its dual, the five axes self / ancestor / descendant /
  following / preceding partition the tree nodes, the root is an ancestor of every other node,
  the root has no parent and no siblings.
-/
import Proofs.Lemmas.TreeRefine

namespace Xsel.Tree
open Xsel Arena

/-! ### dualities -/

/-- descendant / ancestor (needs no well-formedness) -/
theorem dual_descendant_ancestor {a : Arena} {c j : Nat} (tj : a.isTree j = true) :
    Spec.inAxis a .descendant c j = true ↔ Spec.inAxis a .ancestor j c = true := by
  simp [Spec.inAxis, tj]

/-- following / preceding (needs no well-formedness) -/
theorem dual_following_preceding {a : Arena} {c j : Nat} (tc : a.isTree c = true)
    (tj : a.isTree j = true) :
    Spec.inAxis a .following c j = true ↔ Spec.inAxis a .preceding j c = true := by
  simp [Spec.inAxis, tc, tj]

/-- following-sibling / preceding-sibling (needs no well-formedness) -/
theorem dual_siblings {a : Arena} {c j : Nat} :
    Spec.inAxis a .followingSibling c j = true ↔ Spec.inAxis a .precedingSibling j c = true := by
  simp only [Spec.inAxis, Bool.and_eq_true, bne_iff_ne, ne_eq, beq_iff_eq, decide_eq_true_eq]
  constructor
  · rintro ⟨⟨⟨⟨⟨h1, h2⟩, h3⟩, h4⟩, h5⟩, h6⟩; exact ⟨⟨⟨⟨⟨h3, h4⟩, h1⟩, h2⟩, h5.symm⟩, h6⟩
  · rintro ⟨⟨⟨⟨⟨h1, h2⟩, h3⟩, h4⟩, h5⟩, h6⟩; exact ⟨⟨⟨⟨⟨h3, h4⟩, h1⟩, h2⟩, h5.symm⟩, h6⟩

section
variable {a : Arena} (h : wfb a = true)
include h

/-- child / parent: a tree node `j` is a child of `c` iff `c` is the parent of `j` -/
theorem dual_child_parent {c j : Nat} (hj : j < a.size) (tj : a.isTree j = true) :
    Spec.inAxis a .child c j = true ↔ Spec.inAxis a .parent j c = true := by
  simp only [Spec.inAxis, Bool.and_eq_true, bne_iff_ne, ne_eq, beq_iff_eq, tj, true_and]
  constructor
  · rintro ⟨⟨h1, h2⟩, _⟩; exact ⟨h1, h2.symm⟩
  · rintro ⟨h1, h2⟩; exact ⟨⟨h1, h2.symm⟩, h2 ▸ parent_isTree h h1 hj⟩

/-! ### partition -/

/-- for tree nodes `c`, `j` exactly one of the five axes self / ancestor / descendant /
    following / preceding relates `c` to `j` -/
theorem partition {c j : Nat} (tj : a.isTree j = true) :
    ([Axis.self, .ancestor, .descendant, .following, .preceding].filter
        (fun ax => Spec.inAxis a ax c j)).length = 1 := by
  have h1 : Spec.anc a c j = true → c < j := anc_lt h
  have h2 : Spec.anc a j c = true → j < c := anc_lt h
  rcases Nat.lt_trichotomy c j with hlt | heq | hgt
  · have hne : j ≠ c := by omega
    have hn : ¬ j < c := by omega
    have e2 : Spec.anc a j c = false := by
      cases e : Spec.anc a j c with
      | false => rfl
      | true => have := h2 e; omega
    cases e1 : Spec.anc a c j <;>
      simp [Spec.inAxis, tj, e1, e2, hne, hlt, hn]
  · subst heq
    simp [Spec.inAxis, anc_irrefl h]
  · have hne : j ≠ c := by omega
    have hn : ¬ c < j := by omega
    have e1 : Spec.anc a c j = false := by
      cases e : Spec.anc a c j with
      | false => rfl
      | true => have := h1 e; omega
    cases e2 : Spec.anc a j c <;>
      simp [Spec.inAxis, tj, e1, e2, hne, hgt, hn]

omit h in
/-- the five axes cover all tree nodes -/
theorem partition_cover {c j : Nat} (tj : a.isTree j = true) :
    Spec.inAxis a .self c j = true ∨ Spec.inAxis a .ancestor c j = true
    ∨ Spec.inAxis a .descendant c j = true ∨ Spec.inAxis a .following c j = true
    ∨ Spec.inAxis a .preceding c j = true := by
  simp only [Spec.inAxis, tj, Bool.true_and, Bool.and_eq_true, beq_iff_eq, decide_eq_true_eq,
    Bool.not_eq_true']
  cases e1 : Spec.anc a c j <;> cases e2 : Spec.anc a j c <;> simp <;> omega

/-- the five axes are pairwise disjoint -/
theorem partition_disjoint {c j : Nat} {ax1 ax2 : Axis}
    (m1 : ax1 ∈ [Axis.self, .ancestor, .descendant, .following, .preceding])
    (m2 : ax2 ∈ [Axis.self, .ancestor, .descendant, .following, .preceding])
    (hne : ax1 ≠ ax2) :
    ¬ (Spec.inAxis a ax1 c j = true ∧ Spec.inAxis a ax2 c j = true) := by
  have h1 : Spec.anc a c j = true → c < j := anc_lt h
  have h2 : Spec.anc a j c = true → j < c := anc_lt h
  simp only [List.mem_cons, List.not_mem_nil, or_false] at m1 m2
  rcases Nat.lt_trichotomy c j with hlt | heq | hgt
  · have hne' : j ≠ c := by omega
    have hn : ¬ j < c := by omega
    have e2 : Spec.anc a j c = false := by
      cases e : Spec.anc a j c with
      | false => rfl
      | true => have := h2 e; omega
    cases e1 : Spec.anc a c j <;>
    rcases m1 with rfl | rfl | rfl | rfl | rfl <;> rcases m2 with rfl | rfl | rfl | rfl | rfl <;>
      first
      | exact absurd rfl hne
      | simp [Spec.inAxis, e1, e2, hne', hlt, hn]
  · subst heq
    have e := anc_irrefl h c
    rcases m1 with rfl | rfl | rfl | rfl | rfl <;> rcases m2 with rfl | rfl | rfl | rfl | rfl <;>
      first
      | exact absurd rfl hne
      | simp [Spec.inAxis, e]
  · have hne' : j ≠ c := by omega
    have hn : ¬ c < j := by omega
    have e1 : Spec.anc a c j = false := by
      cases e : Spec.anc a c j with
      | false => rfl
      | true => have := h1 e; omega
    cases e2 : Spec.anc a j c <;>
    rcases m1 with rfl | rfl | rfl | rfl | rfl <;> rcases m2 with rfl | rfl | rfl | rfl | rfl <;>
      first
      | exact absurd rfl hne
      | simp [Spec.inAxis, e1, e2, hne', hgt, hn]

/-! ### the root -/

/-- the root is an ancestor of every other node -/
theorem root_is_ancestor {c : Nat} (hc : c ≠ 0) : Spec.inAxis a .ancestor c 0 = true :=
  root_anc h hc

theorem root_is_ancestorOrSelf (c : Nat) : Spec.inAxis a .ancestorOrSelf c 0 = true := by
  by_cases hc : c = 0
  · simp [Spec.inAxis, hc]
  · simp [Spec.inAxis, root_anc h hc]

omit h in
/-- the root has no parent -/
theorem root_no_parent (j : Nat) : Spec.inAxis a .parent 0 j = false := by
  simp [Spec.inAxis]

omit h in
/-- the root has no siblings, and is nobody's sibling -/
theorem root_no_siblings (j : Nat) :
    Spec.inAxis a .followingSibling 0 j = false ∧ Spec.inAxis a .precedingSibling 0 j = false
    ∧ Spec.inAxis a .followingSibling j 0 = false ∧ Spec.inAxis a .precedingSibling j 0 = false := by
  simp [Spec.inAxis]

omit h in
/-- the root has no ancestors and nothing precedes it -/
theorem root_no_ancestor (j : Nat) :
    Spec.inAxis a .ancestor 0 j = false ∧ Spec.inAxis a .preceding 0 j = false := by
  simp [Spec.inAxis, anc_zero_right]

/-- the children of the root do have siblings: two children of the root are siblings -/
theorem root_children_siblings {k1 k2 : Nat} (m1 : k1 ∈ a.kids 0) (m2 : k2 ∈ a.kids 0)
    (hlt : k1 < k2) :
    Spec.inAxis a .followingSibling k1 k2 = true ∧ Spec.inAxis a .precedingSibling k2 k1 = true := by
  obtain ⟨a1, _, a3, a4⟩ := mem_kids h m1
  obtain ⟨b1, _, b3, b4⟩ := mem_kids h m2
  have : k1 ≠ 0 := by omega
  have : k2 ≠ 0 := by omega
  simp [Spec.inAxis, *]

/-- the model agrees: from the root the parent and sibling selectors return nothing -/
theorem root_model_no_parent_no_siblings :
    Model.axis a .parent [0] = [] ∧ Model.axis a .followingSibling [0] = []
    ∧ Model.axis a .precedingSibling [0] = [] := by
  have hs := size_pos h
  refine ⟨?_, ?_, ?_⟩ <;>
  · rw [axis_refines h _ hs]
    apply List.eq_nil_iff_forall_not_mem.mpr
    intro x hx
    have := (mem_axisList.mp hx).2
    simp [Spec.inAxis] at this

end

end Xsel.Tree
