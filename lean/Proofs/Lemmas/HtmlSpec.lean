/-
  Proofs/Lemmas/HtmlSpec.lean — facts about the SPECIFICATION side of Xsel/Html.lean:
  the attribute rule (`createAttrs = specAttrs`), well-typed DOM trees, sizes, and the structural
  facts on the mirrored event list (no namespaces, nothing skipped or duplicated).
-/
import Xsel.Html

namespace Xsel
namespace Html

/-! ### the attribute rule -/

theorem attrs_agree (attrs : List HAttr) : createAttrs attrs = specAttrs attrs := by
  induction attrs with
  | nil => rfl
  | cons a as ih =>
    have ih' : List.filterMap (fun ha : HAttr =>
        if ha.key == xmlnsC then none
        else if (xmlnsC ++ [':']).isPrefixOf ha.key then none
        else if ha.ns == xmlnsC then none
        else some (Ev.attr [] (localName ha.key) ha.val)) as = specAttrs as := ih
    unfold createAttrs specAttrs
    simp only [List.filterMap_cons, List.filter_cons, isXmlnsDecl]
    by_cases h1 : (a.key == xmlnsC) = true
    · simp only [h1, if_true, Bool.true_or, Bool.not_true]
      exact ih'
    · by_cases h2 : ((xmlnsC ++ [':']).isPrefixOf a.key) = true
      · simp only [h1, h2, if_true, Bool.true_or, Bool.or_true, Bool.not_true]
        exact ih'
      · by_cases h3 : (a.ns == xmlnsC) = true
        · simp only [h1, h2, h3, if_true, Bool.or_true, Bool.not_true]
          exact ih'
        · simp only [h1, h2, h3, Bool.or_false, Bool.not_false, if_true, List.map_cons]
          simp only [Bool.false_eq_true, if_false]
          rw [ih']; rfl

theorem createAttrs_length_le (attrs : List HAttr) : (createAttrs attrs).length ≤ attrs.length := by
  unfold createAttrs
  exact List.length_filterMap_le _ _

/-! ### well-typed DOM trees: what `html.Parse` guarantees below the document node -/

/-- does the forest have a first tree? -/
def HForest.hasKids : HForest → Bool
  | .nil => false
  | .cons _ _ => true

mutual
/-- element, text or comment; text and comment nodes are leaves -/
def wtTree : HTree → Bool
  | .node .element _ _ kids => wtForest kids
  | .node .text _ _ kids => !kids.hasKids
  | .node .comment _ _ kids => !kids.hasKids
  | .node _ _ _ _ => false
def wtForest : HForest → Bool
  | .nil => true
  | .cons t ts => wtTree t && wtForest ts
end

/-- every node is of type element, text or comment (no error/raw/document/doctype nodes), text and
    comment nodes have no children -/
def WellTyped (f : HForest) : Prop := wtForest f = true

instance (f : HForest) : Decidable (WellTyped f) := inferInstanceAs (Decidable (_ = true))

/-! ### sizes and node counts -/

mutual
/-- number of nodes of the subtree (= number of cells of its pre-order layout) -/
def size : HTree → Nat
  | .node _ _ _ kids => 1 + fsize kids
def fsize : HForest → Nat
  | .nil => 0
  | .cons t ts => size t + fsize ts
end

mutual
/-- total number of attributes -/
def tattrs : HTree → Nat
  | .node _ _ attrs kids => attrs.length + fattrs kids
def fattrs : HForest → Nat
  | .nil => 0
  | .cons t ts => tattrs t + fattrs ts
end

mutual
/-- number of nodes of type `ty` in the subtree -/
def countTy (ty : HType) : HTree → Nat
  | .node ty' _ _ kids => (if ty' = ty then 1 else 0) + countTyF ty kids
def countTyF (ty : HType) : HForest → Nat
  | .nil => 0
  | .cons t ts => countTy ty t + countTyF ty ts
end

theorem size_pos (t : HTree) : 0 < size t := by
  cases t; simp [size]; omega

theorem fsize_pos_of_hasKids : {f : HForest} → f.hasKids = true → 0 < fsize f
  | .cons t ts, _ => by have := size_pos t; simp [fsize]; omega

/-! ### the mirrored events -/

def Ev.isElem : Ev → Bool
  | .elem _ _ => true
  | _ => false
def Ev.isText : Ev → Bool
  | .text _ => true
  | _ => false
def Ev.isComment : Ev → Bool
  | .comment _ => true
  | _ => false
def Ev.isClose : Ev → Bool
  | .close => true
  | _ => false

/-- element and attribute events are in no namespace -/
def Ev.noNs : Ev → Prop
  | .elem u _ => u = []
  | .attr u _ _ => u = []
  | _ => True

theorem specAttrs_noNs (attrs : List HAttr) : ∀ e ∈ specAttrs attrs, Ev.noNs e := by
  intro e he
  simp only [specAttrs, List.mem_map] at he
  obtain ⟨_, _, rfl⟩ := he
  rfl

theorem specAttrs_kinds (attrs : List HAttr) : ∀ e ∈ specAttrs attrs,
    Ev.isElem e = false ∧ Ev.isText e = false ∧ Ev.isComment e = false ∧ Ev.isClose e = false := by
  intro e he
  simp only [specAttrs, List.mem_map] at he
  obtain ⟨_, _, rfl⟩ := he
  exact ⟨rfl, rfl, rfl, rfl⟩

theorem countP_specAttrs {p : Ev → Bool} (attrs : List HAttr)
    (h : ∀ e ∈ specAttrs attrs, p e = false) : (specAttrs attrs).countP p = 0 := by
  rw [List.countP_eq_zero]
  intro e he
  simp [h e he]

mutual
theorem mirror_noNs (t : HTree) : ∀ e ∈ mirror t, Ev.noNs e :=
  match t with
  | .node .element data attrs kids => by
    intro e he
    simp only [mirror, List.mem_cons, List.mem_append, List.mem_nil_iff, or_false] at he
    rcases he with rfl | (he | he) | rfl
    · rfl
    · exact specAttrs_noNs attrs e he
    · exact mirrorForest_noNs kids e he
    · trivial
  | .node .text data _ _ => by intro e he; simp only [mirror, List.mem_singleton] at he; subst he; trivial
  | .node .comment data _ _ => by
    intro e he; simp only [mirror, List.mem_singleton] at he; subst he; trivial
  | .node .error _ _ _ | .node .document _ _ _ | .node .doctype _ _ _ | .node .raw _ _ _ => by
    intro e he; simp [mirror] at he
theorem mirrorForest_noNs (f : HForest) : ∀ e ∈ mirrorForest f, Ev.noNs e :=
  match f with
  | .nil => by intro e he; simp [mirrorForest] at he
  | .cons t ts => by
    intro e he
    simp only [mirrorForest, List.mem_append] at he
    rcases he with he | he
    · exact mirror_noNs t e he
    · exact mirrorForest_noNs ts e he
end

/-- the event kinds the HTML adapter produces: no namespace declarations, no processing
    instructions -/
def Ev.htmlKind : Ev → Prop
  | .ns _ _ => False
  | .pi _ _ => False
  | _ => True

mutual
theorem mirror_kind (t : HTree) : ∀ e ∈ mirror t, Ev.htmlKind e :=
  match t with
  | .node .element data attrs kids => by
    intro e he
    simp only [mirror, List.mem_cons, List.mem_append, List.mem_nil_iff, or_false] at he
    rcases he with rfl | (he | he) | rfl
    · trivial
    · simp only [specAttrs, List.mem_map] at he
      obtain ⟨_, _, rfl⟩ := he
      trivial
    · exact mirrorForest_kind kids e he
    · trivial
  | .node .text data _ _ => by intro e he; simp only [mirror, List.mem_singleton] at he; subst he; trivial
  | .node .comment data _ _ => by
    intro e he; simp only [mirror, List.mem_singleton] at he; subst he; trivial
  | .node .error _ _ _ | .node .document _ _ _ | .node .doctype _ _ _ | .node .raw _ _ _ => by
    intro e he; simp [mirror] at he
theorem mirrorForest_kind (f : HForest) : ∀ e ∈ mirrorForest f, Ev.htmlKind e :=
  match f with
  | .nil => by intro e he; simp [mirrorForest] at he
  | .cons t ts => by
    intro e he
    simp only [mirrorForest, List.mem_append] at he
    rcases he with he | he
    · exact mirror_kind t e he
    · exact mirrorForest_kind ts e he
end

/-- which node type produces which kind of event -/
def kindOf : HType → Ev → Bool
  | .element => Ev.isElem
  | .text => Ev.isText
  | .comment => Ev.isComment
  | _ => fun _ => false

theorem kindOf_specAttrs (ty : HType) (attrs : List HAttr) :
    (specAttrs attrs).countP (kindOf ty) = 0 := by
  apply countP_specAttrs
  intro e he
  obtain ⟨h1, h2, h3, _⟩ := specAttrs_kinds attrs e he
  cases ty <;> simp [kindOf, h1, h2, h3]

mutual
/-- nothing skipped or duplicated: for `ty ∈ {element, text, comment}` the number of events of that
    kind is the number of nodes of that type (on well-typed trees) -/
theorem mirror_count (ty : HType) (hty : ty = .element ∨ ty = .text ∨ ty = .comment) (t : HTree)
    (h : wtTree t = true) : (mirror t).countP (kindOf ty) = countTy ty t :=
  match t, h with
  | .node .element data attrs kids, h => by
    simp only [wtTree] at h
    simp only [mirror, List.countP_cons, List.countP_append, kindOf_specAttrs,
      mirrorForest_count ty hty kids h, countTy, List.countP_nil]
    rcases hty with rfl | rfl | rfl <;> simp [kindOf, Ev.isElem, Ev.isText, Ev.isComment] <;> omega
  | .node .text data _ kids, h => by
    simp only [wtTree, Bool.not_eq_true'] at h
    cases kids with
    | cons _ _ => simp [HForest.hasKids] at h
    | nil =>
      rcases hty with rfl | rfl | rfl <;>
        simp [mirror, countTy, countTyF, kindOf, Ev.isElem, Ev.isText, Ev.isComment]
  | .node .comment data _ kids, h => by
    simp only [wtTree, Bool.not_eq_true'] at h
    cases kids with
    | cons _ _ => simp [HForest.hasKids] at h
    | nil =>
      rcases hty with rfl | rfl | rfl <;>
        simp [mirror, countTy, countTyF, kindOf, Ev.isElem, Ev.isText, Ev.isComment]
  | .node .error _ _ _, h | .node .document _ _ _, h | .node .doctype _ _ _, h
  | .node .raw _ _ _, h => by simp [wtTree] at h
theorem mirrorForest_count (ty : HType) (hty : ty = .element ∨ ty = .text ∨ ty = .comment)
    (f : HForest) (h : wtForest f = true) :
    (mirrorForest f).countP (kindOf ty) = countTyF ty f :=
  match f, h with
  | .nil, _ => by simp [mirrorForest, countTyF]
  | .cons t ts, h => by
    simp only [wtForest, Bool.and_eq_true] at h
    simp only [mirrorForest, List.countP_append, countTyF, mirror_count ty hty t h.1,
      mirrorForest_count ty hty ts h.2]
end

mutual
/-- every element is closed exactly once -/
theorem mirror_close_count (t : HTree) (h : wtTree t = true) :
    (mirror t).countP Ev.isClose = countTy .element t :=
  match t, h with
  | .node .element data attrs kids, h => by
    simp only [wtTree] at h
    have hz : (specAttrs attrs).countP Ev.isClose = 0 :=
      countP_specAttrs attrs (fun e he => (specAttrs_kinds attrs e he).2.2.2)
    simp only [mirror, List.countP_cons, List.countP_append, hz,
      mirrorForest_close_count kids h, countTy, List.countP_nil]
    simp [Ev.isClose]; omega
  | .node .text data _ kids, h => by
    simp only [wtTree, Bool.not_eq_true'] at h
    cases kids with
    | cons _ _ => simp [HForest.hasKids] at h
    | nil => simp [mirror, countTy, countTyF, Ev.isClose]
  | .node .comment data _ kids, h => by
    simp only [wtTree, Bool.not_eq_true'] at h
    cases kids with
    | cons _ _ => simp [HForest.hasKids] at h
    | nil => simp [mirror, countTy, countTyF, Ev.isClose]
  | .node .error _ _ _, h | .node .document _ _ _, h | .node .doctype _ _ _, h
  | .node .raw _ _ _, h => by simp [wtTree] at h
theorem mirrorForest_close_count (f : HForest) (h : wtForest f = true) :
    (mirrorForest f).countP Ev.isClose = countTyF .element f :=
  match f, h with
  | .nil, _ => by simp [mirrorForest, countTyF]
  | .cons t ts, h => by
    simp only [wtForest, Bool.and_eq_true] at h
    simp only [mirrorForest, List.countP_append, countTyF, mirror_close_count t h.1,
      mirrorForest_close_count ts h.2]
end

end Html
end Xsel
