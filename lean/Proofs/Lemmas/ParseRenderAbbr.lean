/-
  Proofs/Lemmas/ParseRenderAbbr.lean — the parser reads the ABBREVIATED spelling (`renderAbbrTop` in
  `Xsel/Render.lean`: `child::` omitted, `@`, `.`, `..`, `//`) of every well-formed tree back as the tree it
  came from: `parseToks c (renderAbbrTop e) = some (normCtx e)`, hence as what it reads from the
  unabbreviated spelling.

  Here: path prefixes (`RdBase`: nothing, `/`, `b/`, `//`, `b//`), the five spellings of a step, the
  induction, the theorem.  The renderer-independent part is in `ParseRenderAbbrBasics.lean`.
-/
import Proofs.Lemmas.ParseRenderAbbrBasics

namespace Xsel.Syntax

/-! ### path prefixes -/

/-- `pre` spells the part of a path before its last step (with the `/` or `//`; `ic`: there is no such
    part, the path is relative and the step is its first): whatever step follows, `pPath` reads
    `pre` as `xb` and hands it to the step -/
def RdBase (c : Cfg) (pre : Toks) (ic : Bool) (xb : Expr) : Prop :=
  ∃ n, n ≤ 20 * pre.length ∧ ∀ (mk : Expr → Expr) (sts : Toks) (S : Nat) (rest : Toks) (f : Nat) R,
    (∀ base, pStep c S base (sts ++ rest) = some (mk base, rest)) →
    startsStep c (sts ++ rest) = true →
    (ic = true → startsPrimary c (sts ++ rest) = false ∧ (∀ g r, sts ++ rest ≠ P .slash g :: r) ∧
      (∀ g r, sts ++ rest ≠ P .dslash g :: r)) →
    pathCont c f (mk xb) rest = some R →
    pPath c (f + n + S + 2) (pre ++ (sts ++ rest)) = some R

theorem pRel_of_stepA {c : Cfg} {mk : Expr → Expr} {sts rest : Toks} {S f : Nat} {R}
    (hstep : ∀ base, pStep c S base (sts ++ rest) = some (mk base, rest)) (base : Expr)
    (ha : pathCont c f (mk base) rest = some R) : pRel c (f + S + 1) base (sts ++ rest) = some R :=
  pRel_of_step (pStep_mono (hstep base) (by omega)) (pathCont_mono ha (by omega))

theorem rdBase_ctx {c : Cfg} : RdBase c [] true .ctx := by
  refine ⟨0, by simp, ?_⟩
  intro mk sts S rest f R hstep _ hsp ha
  obtain ⟨hp, hn1, hn2⟩ := hsp rfl
  rw [List.nil_append]
  apply pPath_mono (f := f + S + 1 + 1) _ (by omega)
  rw [pPath_succ]
  split
  · rename_i heq; exact absurd heq (hn1 _ _)
  · rename_i heq; exact absurd heq (hn2 _ _)
  · rw [hp]; exact pRel_of_stepA hstep _ ha

theorem rdBase_root {c : Cfg} : RdBase c [U (.p .slash)] false .root := by
  refine ⟨0, by simp, ?_⟩
  intro mk sts S rest f R hstep hss _ ha
  apply pPath_mono (f := f + S + 1 + 1) _ (by omega)
  rw [pPath_succ]
  simp only [U, List.cons_append, List.nil_append, hss, if_true]
  exact pRel_of_stepA hstep _ ha

theorem rdBase_dos_root {c : Cfg} : RdBase c [U (.p .dslash)] false (dos .root) := by
  refine ⟨0, by simp, ?_⟩
  intro mk sts S rest f R hstep _ _ ha
  apply pPath_mono (f := f + S + 1 + 1) _ (by omega)
  rw [pPath_succ]
  simp only [U, List.cons_append, List.nil_append]
  exact pRel_of_stepA hstep _ ha

theorem rdBase_slash {c : Cfg} {tb : Toks} {lb : Nat} {xb : Expr} (hb : Rd c tb lb xb) :
    RdBase c (wrap lb 8 tb ++ [U (.p .slash)]) false xb := by
  obtain ⟨nb, hbb, hb⟩ := hb 8 (by omega)
  refine ⟨nb, by simp only [List.length_append]; omega, ?_⟩
  intro mk sts S rest f R hstep _ _ ha
  have h3 : after c (f + S + 1) 8 xb (U (.p .slash) :: (sts ++ rest)) = some R := by
    rw [after_8]; exact pRel_of_stepA hstep _ ha
  have h4 := hb _ _ R (by rfl) (by omega) h3
  rw [entryThen_8] at h4
  simp only [List.append_assoc, List.cons_append, List.nil_append]
  exact pPath_mono h4 (by omega)

theorem rdBase_dslash {c : Cfg} {tb : Toks} {lb : Nat} {xb : Expr} (hb : Rd c tb lb xb) :
    RdBase c (wrap lb 8 tb ++ [U (.p .dslash)]) false (dos xb) := by
  obtain ⟨nb, hbb, hb⟩ := hb 8 (by omega)
  refine ⟨nb, by simp only [List.length_append]; omega, ?_⟩
  intro mk sts S rest f R hstep _ _ ha
  have h3 : after c (f + S + 1) 8 xb (U (.p .dslash) :: (sts ++ rest)) = some R := by
    rw [after_8]; exact pRel_of_stepA hstep _ ha
  have h4 := hb _ _ R (by rfl) (by omega) h3
  rw [entryThen_8] at h4
  simp only [List.append_assoc, List.cons_append, List.nil_append]
  exact pPath_mono h4 (by omega)

/-- a path: a prefix and a last step spelled `sts`, which `pStep` reads as `mk base` -/
theorem rdAt_path {c : Cfg} {pre : Toks} {ic : Bool} {xb : Expr} (hb : RdBase c pre ic xb)
    (mk : Expr → Expr) (sts : Toks) (S : Nat) (hS : S + 18 ≤ 20 * sts.length)
    (hstep : ∀ rest, folA 8 rest = true → ∀ base, pStep c S base (sts ++ rest) = some (mk base, rest))
    (hss : ∀ rest, startsStep c (sts ++ rest) = true)
    (hsp : ic = true → ∀ rest, folA 8 rest = true → startsPrimary c (sts ++ rest) = false ∧
      (∀ g r, sts ++ rest ≠ P .slash g :: r) ∧ (∀ g r, sts ++ rest ≠ P .dslash g :: r)) :
    RdAt c (pre ++ sts) 8 (mk xb) := by
  obtain ⟨n, hn, hb⟩ := hb
  refine ⟨n + S + 2, by simp only [List.length_append]; omega, ?_⟩
  intro rest f R hfol hf ha
  rw [entryThen_8]; rw [after_8] at ha
  have := hb mk sts S rest f R (hstep rest hfol) (hss rest) (fun h => hsp h rest hfol) ha
  simp only [List.append_assoc]
  exact pPath_mono this (by omega)

/-! ### the first token of a node test: never the start of a call or of a primary expression -/

/-- tokens a node test starts with -/
def plainHead : Tok → Bool
  | .ncname _ => true
  | .p .star => true
  | .kw k => k.isNodeType
  | _ => false

theorem testToks_head (t : NodeTest) : ∃ a tl, testToks t = a :: tl ∧ plainHead a.tok = true := by
  cases t <;> exact ⟨_, _, rfl, rfl⟩

theorem pStep_plainHead {c : Cfg} {f : Nat} {base : Expr} {a : LTok} {r : Toks} (h : plainHead a.tok = true) :
    pStep c (f + 1) base (a :: r) =
      match callStart c (a :: r) with
      | some (pfx, name, r) =>
        (match pArgs c f r with
         | some (args, r') => some (.call base pfx name args, r')
         | none => none)
      | none =>
        match nodeTest c (a :: r) with
        | some (t, r') => (match pPreds c f r' with
                           | some (ps, r'') => some (.step base .child t ps, r'')
                           | none => none)
        | none => none := by
  obtain ⟨tok, g⟩ := a
  cases tok with
  | p x => cases x <;> first | rfl | simp [plainHead] at h
  | kw k => cases k <;> first | rfl | simp [plainHead, Kw.isNodeType] at h
  | ncname s => rfl
  | _ => simp [plainHead] at h

theorem startsStep_plainHead {c : Cfg} {a : LTok} {r : Toks} (h : plainHead a.tok = true) :
    startsStep c (a :: r) = true := by
  obtain ⟨tok, g⟩ := a
  cases tok with
  | p x => cases x <;> first | rfl | simp [plainHead] at h
  | kw k => cases k <;> first | (simp [plainHead, Kw.isNodeType] at h; done) | simp [startsStep, nameTok, Kw.isOpName]
  | ncname s => rfl
  | _ => simp [plainHead] at h

theorem startsPrimary_plainHead {c : Cfg} {a : LTok} {r : Toks} (h : plainHead a.tok = true)
    (hc : callStart c (a :: r) = none) : startsPrimary c (a :: r) = false := by
  obtain ⟨tok, g⟩ := a
  cases tok with
  | p x => cases x <;> first | (simp [plainHead] at h; done) | simp [startsPrimary, hc]
  | kw k => simp [startsPrimary, hc]
  | ncname s => simp [startsPrimary, hc]
  | _ => simp [plainHead] at h

theorem not_sep_plainHead {a : LTok} {r : Toks} (h : plainHead a.tok = true) :
    (∀ g r', a :: r ≠ P .slash g :: r') ∧ (∀ g r', a :: r ≠ P .dslash g :: r') := by
  constructor <;> intro g r' he <;> cases he <;> simp [plainHead] at h

/-- one token, and nothing after it that would continue a name -/
theorem callStart_none_plain1 {c : Cfg} {a : LTok} {r : Toks} (hr : folPlain r = true) :
    callStart c (a :: r) = none := by
  cases r with
  | nil => simp [callStart]
  | cons t r =>
    obtain ⟨tok, g'⟩ := t
    cases tok with
    | p x => cases x <;> first | (simp [folPlain] at hr; done) | simp [callStart]
    | _ => simp [callStart]

/-- three tokens `a : b`, and no `(` after them -/
theorem callStart_none_plain3 {c : Cfg} {a b : LTok} {g : Bool} {r : Toks} (hr : folPlain r = true) :
    callStart c (a :: ⟨.p .colon, g⟩ :: b :: r) = none := by
  cases r with
  | nil => simp [callStart]
  | cons t r =>
    obtain ⟨tok, g'⟩ := t
    cases tok with
    | p x => cases x <;> first | (simp [folPlain] at hr; done) | simp [callStart]
    | _ => simp [callStart]

theorem callStart_testToks {c : Cfg} {t : NodeTest} {r : Toks} (hr : folPlain r = true) :
    callStart c (testToks t ++ r) = none := by
  cases t with
  | any => exact callStart_none_of_fnTok rfl
  | localAny l => exact callStart_none_of_fnTok rfl
  | name l => exact callStart_none_plain1 hr
  | nsAny p => exact callStart_none_plain3 hr
  | qname p l => exact callStart_none_plain3 hr
  | _ => simp [testToks, callStart, U, Kw.isNodeType]

theorem folPlain_predsA {ps : Exprs} {rest : Toks} (h : folPlain rest = true) :
    folPlain (predsAbbr ps ++ rest) = true := by
  cases ps with
  | nil => simpa [predsAbbr] using h
  | cons p ps => simp [predsAbbr, U, folPlain]

/-! ### the spellings of a step -/

section steps
variable {c : Cfg} {t : NodeTest} {ps : Exprs}

/-- `axis::test[preds]` -/
theorem step_full (ax : Axis) (hps : RdPreds c (predsAbbr ps) (normCtxs ps)) :
    ∃ S, S + 18 ≤ 20 * (U (.kw (.axis ax)) :: U (.p .coloncolon) :: (testToks t ++ predsAbbr ps)).length ∧
      ∀ rest, folA 8 rest = true → ∀ base,
        pStep c S base (U (.kw (.axis ax)) :: U (.p .coloncolon) :: (testToks t ++ predsAbbr ps) ++ rest)
          = some (.step base ax t (normCtxs ps), rest) := by
  obtain ⟨n, hn, hps⟩ := hps
  refine ⟨n + 1, by simp only [List.length_cons, List.length_append]; omega, ?_⟩
  intro rest hfol base
  rw [pStep_succ]
  simp only [U, List.cons_append, List.append_assoc]
  rw [nodeTest_testToks (folPlain_predsA (folPlain_of_folA hfol))]
  simp only [hps rest (folA_not_lbrack hfol (by omega))]

/-- `@test[preds]` -/
theorem step_at (hps : RdPreds c (predsAbbr ps) (normCtxs ps)) :
    ∃ S, S + 18 ≤ 20 * (U (.p .at) :: (testToks t ++ predsAbbr ps)).length ∧
      ∀ rest, folA 8 rest = true → ∀ base,
        pStep c S base (U (.p .at) :: (testToks t ++ predsAbbr ps) ++ rest)
          = some (.step base .attribute t (normCtxs ps), rest) := by
  obtain ⟨n, hn, hps⟩ := hps
  refine ⟨n + 1, by simp only [List.length_cons, List.length_append]; omega, ?_⟩
  intro rest hfol base
  rw [pStep_succ]
  simp only [U, List.cons_append, List.append_assoc]
  rw [nodeTest_testToks (folPlain_predsA (folPlain_of_folA hfol))]
  simp only [hps rest (folA_not_lbrack hfol (by omega))]

/-- `test[preds]` -/
theorem step_child (hps : RdPreds c (predsAbbr ps) (normCtxs ps)) :
    ∃ S, S + 18 ≤ 20 * (testToks t ++ predsAbbr ps).length ∧
      ∀ rest, folA 8 rest = true → ∀ base,
        pStep c S base (testToks t ++ predsAbbr ps ++ rest)
          = some (.step base .child t (normCtxs ps), rest) := by
  obtain ⟨n, hn, hps⟩ := hps
  have := testToks_length t
  refine ⟨n + 1, by simp only [List.length_append]; omega, ?_⟩
  intro rest hfol base
  have hpl := folPlain_predsA (ps := ps) (folPlain_of_folA hfol)
  have hc := callStart_testToks (c := c) (t := t) hpl
  have hn := nodeTest_testToks (c := c) (t := t) hpl
  obtain ⟨a, tl, ha, hh⟩ := testToks_head t
  simp only [List.append_assoc]
  rw [ha] at hc hn ⊢
  rw [List.cons_append] at hc hn ⊢
  rw [pStep_plainHead hh, hc]
  simp only [hn, hps rest (folA_not_lbrack hfol (by omega))]

end steps

theorem dotAbbr_some {ax : Axis} {t : NodeTest} {ps : Exprs} {d : Tok} (h : dotAbbr ax t ps = some d) :
    t = .node ∧ ps = .nil ∧ ((ax = .self ∧ d = .p .dot) ∨ (ax = .parent ∧ d = .p .dotdot)) := by
  unfold dotAbbr at h
  split at h
  · cases h; exact ⟨rfl, rfl, Or.inl ⟨rfl, rfl⟩⟩
  · cases h; exact ⟨rfl, rfl, Or.inr ⟨rfl, rfl⟩⟩
  · cases h

theorem startsPrimary_dotdot {c : Cfg} {g : Bool} {rest : Toks} :
    startsPrimary c (⟨.p .dotdot, g⟩ :: rest) = false := by
  have h1 : callStart c (⟨.p .dotdot, g⟩ :: rest) = none := callStart_none_of_fnTok rfl
  simp [startsPrimary, h1]

theorem startsPrimary_at {c : Cfg} {g : Bool} {rest : Toks} :
    startsPrimary c (⟨.p .at, g⟩ :: rest) = false := by
  have h1 : callStart c (⟨.p .at, g⟩ :: rest) = none := callStart_none_of_fnTok rfl
  simp [startsPrimary, h1]

/-- a step in the abbreviated spelling, after any path prefix -/
theorem rdAt_step {c : Cfg} {pre : Toks} {ic : Bool} {xb : Expr} {ax : Axis} {t : NodeTest} {ps : Exprs}
    (hb : RdBase c pre ic xb) (hps : RdPreds c (predsAbbr ps) (normCtxs ps)) :
    RdAt c (pre ++ (match dotAbbr ax t ps with
                    | some d => [U d]
                    | none => axisAbbr ax ++ (testToks t ++ predsAbbr ps))) 8
      (.step xb ax t (normCtxs ps)) := by
  cases hd : dotAbbr ax t ps with
  | some d =>
    obtain ⟨rfl, rfl, ⟨rfl, rfl⟩ | ⟨rfl, rfl⟩⟩ := dotAbbr_some hd
    · exact rdAt_path hb (fun base => .step base .self .node .nil) [U (.p .dot)] 1 (by simp)
        (fun rest _ base => rfl) (fun _ => rfl)
        (fun _ rest hfol => ⟨startsPrimary_dot (folPlain_of_folA hfol),
          by intro g r h; simp [U, P] at h, by intro g r h; simp [U, P] at h⟩)
    · exact rdAt_path hb (fun base => .step base .parent .node .nil) [U (.p .dotdot)] 1 (by simp)
        (fun rest _ base => rfl) (fun _ => rfl)
        (fun _ rest hfol => ⟨startsPrimary_dotdot,
          by intro g r h; simp [U, P] at h, by intro g r h; simp [U, P] at h⟩)
  | none =>
    simp only
    by_cases hch : ax = .child
    · subst hch
      obtain ⟨S, hS, hstep⟩ := step_child (c := c) (t := t) hps
      obtain ⟨a, tl, ha, hh⟩ := testToks_head t
      refine rdAt_path hb (fun base => .step base .child t (normCtxs ps)) _ S
        (by simpa [axisAbbr] using hS) (by simpa [axisAbbr] using hstep) ?_ ?_
      · intro rest
        simp only [axisAbbr, List.nil_append, ha, List.cons_append]
        exact startsStep_plainHead hh
      · intro _ rest hfol
        have hc := callStart_testToks (c := c) (t := t)
          (folPlain_predsA (ps := ps) (folPlain_of_folA hfol))
        simp only [axisAbbr, List.nil_append, List.append_assoc]
        rw [ha] at hc ⊢
        rw [List.cons_append] at hc ⊢
        exact ⟨startsPrimary_plainHead hh hc, not_sep_plainHead hh⟩
    by_cases hat : ax = .attribute
    · subst hat
      obtain ⟨S, hS, hstep⟩ := step_at (c := c) (t := t) hps
      refine rdAt_path hb (fun base => .step base .attribute t (normCtxs ps)) _ S hS hstep
        (fun _ => rfl) ?_
      intro _ rest hfol
      exact ⟨startsPrimary_at, by intro g r h; simp [axisAbbr, U, P] at h,
        by intro g r h; simp [axisAbbr, U, P] at h⟩
    · have hax : axisAbbr ax = [U (.kw (.axis ax)), U (.p .coloncolon)] := by
        cases ax <;> first | rfl | exact absurd rfl hch | exact absurd rfl hat
      rw [hax]
      obtain ⟨S, hS, hstep⟩ := step_full (c := c) (t := t) ax hps
      refine rdAt_path hb (fun base => .step base ax t (normCtxs ps)) _ S hS hstep
        (fun _ => by simp [U, startsStep, nameTok, Kw.isOpName]) ?_
      intro _ rest hfol
      refine ⟨by simp [U, startsPrimary, callStart], ?_, ?_⟩
      · intro g r h; simp [U, P] at h
      · intro g r h; simp [U, P] at h

/-! ### function calls -/

theorem rdAt_call {c : Cfg} {pre : Toks} {xb : Expr} {p : Option Chars} {n : Chars} {ta : Toks} {xs : Exprs}
    (hb : RdBase c pre false xb) (has : RdArgs c ta xs) :
    RdAt c (pre ++ fnToks p n ++ U (.p .lparen) :: ta) 8 (.call xb p n xs) := by
  obtain ⟨na, hna, has⟩ := has
  have hlen := fnToks_length p n
  have := rdAt_path hb (fun base => .call base p n xs) (fnToks p n ++ U (.p .lparen) :: ta) (na + 1)
    (by simp only [List.length_append, List.length_cons]; omega)
    (by
      intro rest _ base
      have hc := callStart_fnToks (c := c) (p := p) (n := n) (r := ta ++ rest)
      obtain ⟨s, tl, hs⟩ := fnToks_cons p n
      simp only [List.append_assoc, List.cons_append]
      rw [hs] at hc ⊢
      simp only [List.cons_append] at hc ⊢
      rw [pStep_ncname, hc]
      simp only [(has rest).1])
    (by intro rest; obtain ⟨s, tl, hs⟩ := fnToks_cons p n; rw [hs]; simp [startsStep, nameTok])
    (fun h => by cases h)
  simpa only [List.append_assoc] using this

theorem rdAt_call_ctx {c : Cfg} {p : Option Chars} {n : Chars} {ta : Toks} {xs : Exprs}
    (has : RdArgs c ta xs) : RdAt c (fnToks p n ++ U (.p .lparen) :: ta) 9 (.call .ctx p n xs) := by
  obtain ⟨na, hna, has⟩ := has
  have hlen := fnToks_length p n
  refine ⟨na + 1, by simp only [List.length_append, List.length_cons]; omega, ?_⟩
  intro rest f R hfol hf ha
  refine primary_reads (K := na + 1) ?_ ha
  have hc := callStart_fnToks (c := c) (p := p) (n := n) (r := ta ++ rest)
  obtain ⟨s, tl, hs⟩ := fnToks_cons p n
  simp only [List.append_assoc, List.cons_append]
  rw [hs] at hc ⊢
  simp only [List.cons_append] at hc ⊢
  rw [pPrimary_ncname, hc]
  simp only [(has rest).1]

/-! ### `(/)` and `.` -/

theorem rdAt_root {c : Cfg} : RdAt c [U (.p .lparen), U (.p .slash), U (.p .rparen)] 8 .root := by
  refine ⟨20, by simp, ?_⟩
  intro rest f R hfol hf ha
  have hin := towerA (c := c) (x := .root) (ts := U (.p .slash) :: U (.p .rparen) :: rest)
      (rest := U (.p .rparen) :: rest) (L := 8) (K := 0) (by omega)
      (by
        intro f R hf ha
        obtain ⟨f, rfl⟩ : ∃ f', f = f' + 1 := ⟨f - 1, by omega⟩
        rw [entryThen_8, Nat.add_zero, pPath_succ]
        rw [after_8] at ha
        simpa [T, U, startsStep, nameTok, pathCont] using ha)
      8 0 (by omega) (folA_rparen _ _ _) 1 (.root, U (.p .rparen) :: rest) (Nat.le_refl _)
      (by rw [after_bin (by omega)]; rfl)
  rw [entryThen_bin (by omega)] at hin
  have hprim : pPrimary c 18 ([U (.p .lparen), U (.p .slash), U (.p .rparen)] ++ rest) = some (.root, rest) := by
    rw [pPrimary_succ]
    simp only [U, List.cons_append, List.nil_append] at hin ⊢
    rw [hin]
  have h9 := primary_reads hprim (after_trivialA (c := c) (x := .root) (k := 8) hfol hf (by omega))
  exact tower_step (by omega) h9 (after_mono ha (by omega))

theorem rdAt_ctx {c : Cfg} : RdAt c [U (.p .dot)] 8 (.step .ctx .self .node .nil) := by
  refine ⟨3, by simp, ?_⟩
  intro rest f R hfol hf ha
  rw [entryThen_8]; rw [after_8] at ha
  rw [pPath_succ]
  simp only [U, List.cons_append, List.nil_append, startsPrimary_dot (folPlain_of_folA hfol)]
  exact pRel_of_step (F := f + 1) rfl (pathCont_mono ha (by omega))

/-! ### the path prefix of a tree -/

def isCtxE : Expr → Bool
  | .ctx => true
  | _ => false

theorem dosAbbr_true {b : Expr} {ax : Axis} {t : NodeTest} {ps : Exprs} (h : dosAbbr b ax t ps = true) :
    b ≠ .ctx ∧ ax = .descendantOrSelf ∧ t = .node ∧ ps = .nil := by
  unfold dosAbbr at h
  split at h
  · cases h
  · rename_i hne; exact ⟨hne, rfl, rfl, rfl⟩
  · cases h

theorem prefixAbbr_of_ne {sep : Tok} {b : Expr} (h : b ≠ .root) :
    prefixAbbr sep b = wrap (level b) 8 (rawAbbr b) ++ [U sep] := by
  cases b <;> first | exact absurd rfl h | simp [prefixAbbr]

theorem basePrefixAbbr_of_not_step {b : Expr} (h1 : b ≠ .ctx) (h2 : ∀ b' ax t ps, b ≠ .step b' ax t ps) :
    basePrefixAbbr b = prefixAbbr (.p .slash) b := by
  cases b <;> first | exact absurd rfl h1 | exact absurd rfl (h2 _ _ _ _) | simp [basePrefixAbbr]

/-- the prefix of a path with base `b`, given that `b` is read back, and also its own base if it is
    `…/descendant-or-self::node()` spelled `…//` -/
theorem rdBase_of {c : Cfg} {b : Expr}
    (hb : b ≠ .ctx → b ≠ .root → Rd c (rawAbbr b) (level b) (normCtx b))
    (hb' : ∀ b' ax t ps, b = .step b' ax t ps → dosAbbr b' ax t ps = true → b' ≠ .root →
      Rd c (rawAbbr b') (level b') (normCtx b')) :
    RdBase c (basePrefixAbbr b) (isCtxE b) (normBase b) := by
  by_cases h1 : b = .ctx
  · subst h1; simpa [basePrefixAbbr, isCtxE, normBase] using rdBase_ctx (c := c)
  have hic : isCtxE b = false := by cases b <;> first | rfl | exact absurd rfl h1
  rw [hic]
  by_cases h2 : b = .root
  · subst h2; simpa [basePrefixAbbr, prefixAbbr, normBase] using rdBase_root (c := c)
  by_cases h3 : ∃ b' ax t ps, b = .step b' ax t ps ∧ dosAbbr b' ax t ps = true
  · obtain ⟨b', ax, t, ps, rfl, hd⟩ := h3
    obtain ⟨hne, rfl, rfl, rfl⟩ := dosAbbr_true hd
    have hpre : basePrefixAbbr (.step b' .descendantOrSelf .node .nil) = prefixAbbr (.p .dslash) b' := by
      rw [basePrefixAbbr, if_pos hd]
    have hx : normBase (.step b' .descendantOrSelf .node .nil) = dos (normBase b') := by
      simp [normBase, normCtxs, dos]
    rw [hpre, hx]
    by_cases h4 : b' = .root
    · subst h4; simpa [prefixAbbr, normBase] using rdBase_dos_root (c := c)
    · rw [prefixAbbr_of_ne h4, normBase_of_ne hne]
      exact rdBase_dslash (hb' _ _ _ _ rfl hd h4)
  · have hpre : basePrefixAbbr b = prefixAbbr (.p .slash) b := by
      by_cases h4 : ∃ b' ax t ps, b = .step b' ax t ps
      · obtain ⟨b', ax, t, ps, rfl⟩ := h4
        have hd : ¬ dosAbbr b' ax t ps = true := fun hd => h3 ⟨_, _, _, _, rfl, hd⟩
        rw [basePrefixAbbr, if_neg hd]
      · exact basePrefixAbbr_of_not_step h1 (fun b' ax t ps he => h4 ⟨_, _, _, _, he⟩)
    rw [hpre, prefixAbbr_of_ne h2, normBase_of_ne h1]
    exact rdBase_slash (hb h1 h2)

/-! ### the induction -/

mutual
theorem readsA (c : Cfg) : (e : Expr) → wfE e = true → Rd c (rawAbbr e) (level e) (normCtx e)
  | .bin op l r, h => by
    simp only [wfE, Bool.and_eq_true] at h
    rw [rawAbbr, normCtx, level_bin]
    have := opLevel_le op
    by_cases hu : op = .union
    · subst hu; exact rd_of_at (by omega) (rdAt_union (readsA c l h.1) (readsA c r h.2))
    · exact rd_of_at (by omega) (rdAt_bin (opLevel_le5_of_ne hu) (readsA c l h.1) (readsA c r h.2))
  | .neg e, h => by
    simp only [wfE] at h
    rw [rawAbbr, normCtx, level_neg]
    exact rd_of_at (by omega) (rdAt_neg (readsA c e h))
  | .num n, h => by
    simp only [wfE] at h
    simp only [rawAbbr, normCtx]
    exact rd_of_at (Nat.le_refl _) (rdAt_num h)
  | .lit s, _ => by
    simp only [rawAbbr, normCtx]
    exact rd_of_at (Nat.le_refl _) rdAt_lit
  | .var p n, h => by
    simp only [rawAbbr, normCtx]
    exact rd_of_at (Nat.le_refl _) (rdAt_var h)
  | .call b p n as, h => by
    simp only [wfE, Bool.and_eq_true] at h
    rw [rawAbbr, normCtx]
    by_cases hb : b = .ctx
    · subst hb
      simp only [basePrefixAbbr, List.nil_append, normBase, level_call_ctx]
      exact rd_of_at (Nat.le_refl _) (rdAt_call_ctx (readsArgsA c as h.2))
    · rw [level_call_ne hb]
      have hbase : RdBase c (basePrefixAbbr b) (isCtxE b) (normBase b) :=
        rdBase_of (fun _ _ => readsA c b h.1)
          (fun b' ax' t' ps' heq _ _ => by
            have hlt : sizeOf b' < sizeOf b := by rw [heq]; simp only [Expr.step.sizeOf_spec]; omega
            have hw : wfE b' = true := by
              have := h.1; rw [heq] at this; simp only [wfE, Bool.and_eq_true] at this; exact this.1
            exact readsA c b' hw)
      have hic : isCtxE b = false := by cases b <;> first | rfl | exact absurd rfl hb
      rw [hic] at hbase
      exact rd_of_at (by omega) (rdAt_call hbase (readsArgsA c as h.2))
  | .root, _ => by
    simp only [rawAbbr, normCtx, level_root]
    exact rd_of_at (by omega) rdAt_root
  | .ctx, _ => by
    rw [rawAbbr, normCtx, level_ctx]
    exact rd_of_at (by omega) rdAt_ctx
  | .step b ax t ps, h => by
    simp only [wfE, Bool.and_eq_true] at h
    rw [rawAbbr, normCtx, level_step]
    have hbase : RdBase c (basePrefixAbbr b) (isCtxE b) (normBase b) :=
      rdBase_of (fun _ _ => readsA c b h.1)
        (fun b' ax' t' ps' heq _ _ => by
          have hlt : sizeOf b' < sizeOf b := by rw [heq]; simp only [Expr.step.sizeOf_spec]; omega
          have hw : wfE b' = true := by
            have := h.1; rw [heq] at this; simp only [wfE, Bool.and_eq_true] at this; exact this.1
          exact readsA c b' hw)
    exact rd_of_at (by omega) (rdAt_step hbase (readsPredsA c ps h.2))
  | .filt b p, h => by
    simp only [wfE, Bool.and_eq_true] at h
    rw [rawAbbr, normCtx, level_filt]
    exact rd_of_at (Nat.le_refl _) (rdAt_filt (readsA c b h.1) (readsA c p h.2))
termination_by e => sizeOf e
decreasing_by
  all_goals (simp_wf <;> omega)
theorem readsPredsA (c : Cfg) : (ps : Exprs) → wfEs ps = true → RdPreds c (predsAbbr ps) (normCtxs ps)
  | .nil, _ => by
    rw [predsAbbr, normCtxs]; exact rdPreds_nil
  | .cons p ps, h => by
    simp only [wfEs, Bool.and_eq_true] at h
    rw [predsAbbr, normCtxs]
    exact rdPreds_cons (readsA c p h.1) (readsPredsA c ps h.2)
termination_by ps => sizeOf ps
decreasing_by
  all_goals (simp_wf <;> omega)
theorem readsArgsA (c : Cfg) : (as : Exprs) → wfEs as = true → RdArgs c (argsAbbr as) (normCtxs as)
  | .nil, _ => by
    rw [argsAbbr, normCtxs]; exact rdArgs_nil
  | .cons a .nil, h => by
    simp only [wfEs, Bool.and_eq_true] at h
    rw [argsAbbr, normCtxs, normCtxs]
    exact rdArgs_one (readsA c a h.1)
  | .cons a (.cons b bs), h => by
    simp only [wfEs, Bool.and_eq_true] at h
    have h2 : wfEs (.cons b bs) = true := by simp only [wfEs, Bool.and_eq_true]; exact h.2
    have e1 : argsAbbr (.cons a (.cons b bs))
        = wrap (level a) 0 (rawAbbr a) ++ U (.p .comma) :: argsAbbr (.cons b bs) := by
      rw [argsAbbr]; intro he; cases he
    rw [e1, normCtxs]
    exact rdArgs_more (readsA c a h.1) (readsArgsA c (.cons b bs) h2) (by simp [normCtxs])
termination_by as => sizeOf as
decreasing_by
  all_goals (simp_wf <;> omega)
end

/-! ### the theorem -/

theorem pBin_renderAbbrTop (c : Cfg) (e : Expr) (h : wfE e = true) :
    pBin c (fuelFor (renderAbbrTop e)) 0 (renderAbbrTop e) = some (normCtx e, []) := by
  by_cases hr : e = .root
  · subst hr; exact pBin_renderTop c .root h
  · have hrt : renderAbbrTop e = wrap (level e) 0 (rawAbbr e) := by
      cases e <;> first | rfl | exact absurd rfl hr
    obtain ⟨n, hn, hrd⟩ := readsA c e h 0 (by omega)
    have := hrd [] 1 (normCtx e, []) rfl (Nat.le_refl _) (by rw [after_bin (by omega)]; rfl)
    rw [entryThen_bin (by omega), List.append_nil] at this
    rw [hrt]
    exact pBin_mono this (by unfold fuelFor; omega)

/-- the parser reads the abbreviated spelling of every well-formed tree back as the tree it came from
    (whatever the switches: the spelling marks tokens adjacent wherever the parser may ask for it) -/
theorem parse_renderAbbr (c : Cfg) (e : Expr) (h : wfE e = true) :
    parseToks c (renderAbbrTop e) = some (normCtx e) := by
  unfold parseToks
  rw [pBin_renderAbbrTop c e h]

/-- the abbreviated and the unabbreviated spelling are read alike -/
theorem abbreviated_equals_unabbreviated (c : Cfg) (e : Expr) (h : wfE e = true) :
    parseToks c (renderAbbrTop e) = parseToks c (renderTop e) := by
  rw [parse_renderAbbr c e h, parse_render_any c e h]

end Xsel.Syntax
