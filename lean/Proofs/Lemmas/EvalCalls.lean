/-
  Proofs/Lemmas/EvalCalls.lean — evaluation of calls of `position()`, `last()` and of the
  functions that default their argument to the context node; helpers for C02 and C18.
  Function names are kept abstract (`String.ofList nm = "position"`) so that no proof has to
  unfold a string literal.
-/
import Proofs.Lemmas.EvalMain

namespace Xsel
open Arena

theorem builtin_position (sem : Sem) (c : Ctx) {nm : Chars} (hnm : String.ofList nm = "position")
    (args : List Val) :
    builtin sem c nm args = some (.ok (.num (Num.ofNat (c.pos + 1)))) := by
  unfold builtin
  simp only [hnm]

theorem builtin_last (sem : Sem) (c : Ctx) {nm : Chars} (hnm : String.ofList nm = "last")
    (args : List Val) :
    builtin sem c nm args = some (.ok (.num (Num.ofNat c.size))) := by
  unfold builtin
  simp only [hnm]

/-- a call without prefix of a name that no user function shadows is a call of the library -/
theorem eval_call_builtin (sem : Sem) (c : Ctx) (base : Expr) (nm : Chars) (args : Exprs)
    (hu : lookupQ ([], nm) c.env.fns = none) :
    eval sem (.call base none nm args) c = (do
      let b ← eval sem base c
      let vs ← evalArgs sem args { c with result := b }
      match builtin sem { c with result := b } nm vs with
      | some r => r
      | none => throw .unknownFn) := by
  rw [eval]
  simp only [resolve, bind, Except.bind, hu, List.isEmpty_nil, if_true]
  rfl

theorem eval_position (sem : Sem) (c : Ctx) {nm : Chars} (hnm : String.ofList nm = "position")
    (hu : lookupQ ([], nm) c.env.fns = none) :
    eval sem (.call .ctx none nm .nil) c = .ok (.num (Num.ofNat (c.pos + 1))) := by
  rw [eval_call_builtin sem c .ctx nm .nil hu]
  simp only [eval, evalArgs, bind, Except.bind, builtin_position _ _ hnm]

theorem eval_last (sem : Sem) (c : Ctx) {nm : Chars} (hnm : String.ofList nm = "last")
    (hu : lookupQ ([], nm) c.env.fns = none) :
    eval sem (.call .ctx none nm .nil) c = .ok (.num (Num.ofNat c.size)) := by
  rw [eval_call_builtin sem c .ctx nm .nil hu]
  simp only [eval, evalArgs, bind, Except.bind, builtin_last _ _ hnm]

/-- the functions whose optional argument defaults to the context node -/
def ctxDefault (nm : Chars) : Bool :=
  String.ofList nm ∈ ["string", "number", "name", "local-name", "namespace-uri",
    "string-length", "normalize-space"]

/-- for these functions, `f()` with context value `b` is `f(b)` -/
theorem builtin_ctx_arg (sem : Sem) (c : Ctx) {nm : Chars} (hnm : ctxDefault nm = true) (b : Val) :
    builtin sem { c with result := b } nm [] = builtin sem c nm [b] := by
  unfold builtin
  simp only []
  split <;> first
    | rfl
    | (rename_i heq; simp [ctxDefault, heq] at hnm)
    | (rename_i hne1 hne2 hne3 hne4 hne5 hne6 hne7 _ _ _ _ _ _ _ _ _ _ _ _ _ _
       simp [ctxDefault] at hnm
       rcases hnm with e | e | e | e | e | e | e <;> contradiction)

end Xsel
