/-
  Proofs/Lemmas/EvalMain.lean — the central refinement theorem: on a well-formed arena the
  evaluator shaped like the Go code (`eval Model.sem`) and the evaluator written from the
  XPath 1.0 Recommendation (`eval Spec.semKF`) agree on every expression, up to the order in
  which a node-set is listed.
-/
import Proofs.Lemmas.EvalStep

namespace Xsel
open Arena

/-- the two contexts of a simulation step -/
structure CtxRel (a : Arena) (env : Env) (ca : Bool) (c c' : Ctx) : Prop where
  ha : c.a = a
  ha' : c'.a = a
  he : c.env = env
  he' : c'.env = env
  pos : c.pos = c'.pos
  size : c.size = c'.size
  res : Val.Equiv c.result c'.result
  ok : Val.Ok a c.result
  asc : ca = true → Val.Asc c.result ∧ Val.Asc c'.result

theorem CtxRel.equiv {a : Arena} {env : Env} {ca : Bool} {c c' : Ctx} (h : CtxRel a env ca c c') :
    Ctx.Equiv c c' :=
  ⟨h.ha.trans h.ha'.symm, h.he.trans h.he'.symm, h.pos, h.size, h.res⟩

/-- the contexts in which a predicate is evaluated -/
theorem CtxRel.pred {a : Arena} {env : Env} {c c' : Ctx} (ha : c.a = a) (ha' : c'.a = a)
    (he : c.env = env) (he' : c'.env = env) {n : Nat} (hn : n < a.size) (i k : Nat) :
    CtxRel a env true { c with result := .nodes [n], pos := i, size := k }
      { c' with result := .nodes [n], pos := i, size := k } :=
  ⟨ha, ha', he, he', rfl, rfl, .refl _, Val.Ok.single hn,
    fun _ => ⟨Val.Asc.single n, Val.Asc.single n⟩⟩

def RefE (a : Arena) (env : Env) (e : Expr) : Prop :=
  ∀ (ca : Bool) (c c' : Ctx), CtxRel a env ca c c' → sumSafe ca e = true →
    Res.Equiv (eval Model.sem e c) (eval Spec.semKF e c')

def RefArgs (a : Arena) (env : Env) (es : Exprs) : Prop :=
  ∀ (ca : Bool) (c c' : Ctx), CtxRel a env ca c c' → sumSafeL ca es = true →
    ExRel Vals.Equiv (evalArgs Model.sem es c) (evalArgs Spec.semKF es c')

def RefPreds (a : Arena) (env : Env) (es : Exprs) : Prop :=
  ∀ (c c' : Ctx) (l : List Nat), c.a = a → c'.a = a → c.env = env → c'.env = env →
    (∀ x ∈ l, x < a.size) → sumSafeL true es = true →
    ExRel Eq (applyPreds Model.sem es c l) (applyPreds Spec.semKF es c' l)

/-! ## predicates -/

theorem filterIdx_congr {t t' : Nat → Nat → Except Err Bool} :
    ∀ (l : List Nat) (i : Nat), (∀ j n, n ∈ l → ExRel Eq (t j n) (t' j n)) →
      ExRel Eq (filterIdx t l i) (filterIdx t' l i)
  | [], _, _ => rfl
  | n :: r, i, h => by
    simp only [filterIdx]
    refine ExRel.bind (h i n List.mem_cons_self) ?_
    rintro k _ _ _ rfl
    refine ExRel.bind (filterIdx_congr r (i + 1) (fun j m hm => h j m (List.mem_cons_of_mem _ hm))) ?_
    rintro u _ _ _ rfl
    exact rfl

theorem refPred {a : Arena} {env : Env} {p : Expr} (ih : RefE a env p) (c c' : Ctx) (l : List Nat)
    (ha : c.a = a) (ha' : c'.a = a) (he : c.env = env) (he' : c'.env = env)
    (hl : ∀ x ∈ l, x < a.size) (hs : sumSafe true p = true) :
    ExRel Eq (applyPred Model.sem p c l) (applyPred Spec.semKF p c' l) := by
  rw [applyPred, applyPred]
  apply filterIdx_congr
  intro j n hn
  refine ExRel.bind (ih true _ _ (CtxRel.pred ha ha' he he' (hl n hn) j l.length) hs) ?_
  intro u v _ _ huv
  exact ExRel.pure_pure (predTruth_congr _ huv)

theorem refPreds_nil {a : Arena} {env : Env} : RefPreds a env .nil := by
  intro c c' l _ _ _ _ _ _
  rw [applyPreds, applyPreds]
  exact rfl

theorem refPreds_cons {a : Arena} {env : Env} {p : Expr} {ps : Exprs} (ihp : RefE a env p)
    (ihps : RefPreds a env ps) : RefPreds a env (.cons p ps) := by
  intro c c' l ha ha' he he' hl hs
  rw [applyPreds, applyPreds]
  simp only [sumSafeL, Bool.and_eq_true] at hs
  refine ExRel.bind (refPred ihp c c' l ha ha' he he' hl hs.1) ?_
  rintro kept _ hk _ rfl
  exact ihps c c' kept ha ha' he he'
    (fun x hx => hl x ((applyPred_sublist _ _ _ _ hk).subset hx)) hs.2

theorem refArgs_nil {a : Arena} {env : Env} : RefArgs a env .nil := by
  intro ca c c' _ _
  rw [evalArgs, evalArgs]
  exact Vals.Equiv.nil

theorem refArgs_cons {a : Arena} {env : Env} {e : Expr} {es : Exprs} (ihe : RefE a env e)
    (ihes : RefArgs a env es) : RefArgs a env (.cons e es) := by
  intro ca c c' hr hs
  rw [evalArgs, evalArgs]
  simp only [sumSafeL, Bool.and_eq_true] at hs
  refine ExRel.bind (ihe ca c c' hr hs.1) ?_
  intro v w _ _ hvw
  refine ExRel.bind (ihes ca c c' hr hs.2) ?_
  intro vs ws _ _ hvs
  exact ExRel.pure_pure (.cons hvw hvs)

/-! ## expressions -/

theorem refE_num {a : Arena} {env : Env} (n : Num) : RefE a env (.num n) := by
  intro ca c c' _ _
  rw [eval, eval]
  exact Val.Equiv.refl _

theorem refE_lit {a : Arena} {env : Env} (s : Chars) : RefE a env (.lit s) := by
  intro ca c c' _ _
  rw [eval, eval]
  exact Val.Equiv.refl _

theorem refE_root {a : Arena} {env : Env} : RefE a env .root := by
  intro ca c c' _ _
  rw [eval, eval]
  exact Val.Equiv.refl _

theorem refE_ctx {a : Arena} {env : Env} : RefE a env .ctx := by
  intro ca c c' hr _
  rw [eval, eval]
  exact hr.res

theorem refE_var {a : Arena} {env : Env} (pfx : Option Chars) (name : Chars) :
    RefE a env (.var pfx name) := by
  intro ca c c' hr _
  rw [eval, eval, hr.he, hr.he']
  exact ExRel.refl Val.Equiv.refl _

section
variable {a : Arena} (h : wfb a = true)
  (hsv : ∀ i, i < a.size → Model.strval a i = Spec.strval a i)
  {env : Env} (henv : EnvOk a env)

include h hsv in
theorem refE_neg {e : Expr} (ih : RefE a env e) : RefE a env (.neg e) := by
  intro ca c c' hr hs
  rw [eval, eval]
  simp only [sumSafe] at hs
  refine ExRel.bind (ih ca c c' hr hs) ?_
  intro u v _ _ huv
  refine ExRel.pure_pure ?_
  show Val.Equiv (.num (Num.neg (Model.toNum (Model.strval c.a) u)))
    (.num (Num.neg (Model.toNum (Spec.strval c'.a) v)))
  rw [hr.ha, hr.ha', strval_eq h hsv, toNum_congr _ huv]
  exact .refl _

/-- the union operator on values -/
def unionV (x y : Val) : Except Err Val :=
  match x, y with
  | .nodes p, .nodes q => pure (.nodes (cleanupFwd (p ++ q)))
  | _, _ => throw .notNodeSet

theorem union_congr {x x' y y' : Val} (hx : Val.Equiv x x') (hy : Val.Equiv y y') :
    Res.Equiv (unionV x y) (unionV x' y') := by
  cases hx with
  | refl =>
    cases hy with
    | refl => exact ExRel.refl Val.Equiv.refl _
    | nodes hq =>
      cases x with
      | nodes p =>
        exact ExRel.pure_pure
          (by rw [cleanupFwd_perm (List.Perm.append (.refl p) hq)]; exact .refl _)
      | _ => exact True.intro
  | nodes hp =>
    cases hy with
    | refl =>
      cases y with
      | nodes q =>
        exact ExRel.pure_pure
          (by rw [cleanupFwd_perm (List.Perm.append hp (.refl q))]; exact .refl _)
      | _ => exact True.intro
    | nodes hq =>
      exact ExRel.pure_pure (by rw [cleanupFwd_perm (List.Perm.append hp hq)]; exact .refl _)

include h hsv in
theorem refE_bin (op : BinOp) {l r : Expr} (ihl : RefE a env l) (ihr : RefE a env r) :
    RefE a env (.bin op l r) := by
  intro ca c c' hr hs
  rw [eval, eval]
  simp only [sumSafe, Bool.and_eq_true] at hs
  refine ExRel.bind (ihl ca c c' hr hs.1) ?_
  intro x x' _ _ hx
  refine ExRel.bind (ihr ca c c' hr hs.2) ?_
  intro y y' _ _ hy
  have esv : Model.sem.sv c.a = Spec.semKF.sv c'.a := by
    show Model.strval c.a = Spec.strval c'.a
    rw [hr.ha, hr.ha', strval_eq h hsv]
  cases op
  case union => exact union_congr hx hy
  case cmp o =>
    refine ExRel.pure_pure ?_
    show Val.Equiv (.bool (Model.compare (Model.sem.sv c.a) o x y))
      (.bool (Spec.compare (Spec.semKF.sv c'.a) o x' y'))
    rw [esv, compare_congr _ o hx hy]
    exact .refl _
  all_goals
    refine ExRel.pure_pure ?_
    simp only [esv, toBool_congr hx, toBool_congr hy, toNum_congr _ hx, toNum_congr _ hy]
    exact .refl _

include h henv in
theorem refE_filt {base pred : Expr} (ihb : RefE a env base) (ihp : RefE a env pred) :
    RefE a env (.filt base pred) := by
  intro ca c c' hr hs
  rw [eval, eval]
  simp only [sumSafe, Bool.and_eq_true] at hs
  refine ExRel.bind (ihb ca c c' hr hs.1) ?_
  intro b b' hbv _ hbb
  have ob : Val.Ok a b := eval_ok h base c b hr.ha (hr.he ▸ henv) hr.ok hbv
  refine ExRel.bind (nodes?_congr hbb) ?_
  intro l l' hl _ hll
  rw [nodes?_ok] at hl
  subst hl
  rw [cleanupFwd_perm hll]
  refine ExRel.bind (refPred ihp c c' _ hr.ha hr.ha' hr.he hr.he' ?_ hs.2) ?_
  · intro x hx
    exact ob.1 x (hll.mem_iff.mpr (mem_cleanupFwd.mp hx))
  · rintro r _ _ _ rfl
    exact ExRel.pure_pure (.refl _)

include h henv in
theorem refE_step {base : Expr} (ax : Axis) (t : NodeTest) {preds : Exprs}
    (ihb : RefE a env base) (ihp : RefPreds a env preds) :
    RefE a env (.step base ax t preds) := by
  intro ca c c' hr hs
  rw [eval, eval]
  simp only [sumSafe, Bool.and_eq_true] at hs
  refine ExRel.bind (ihb ca c c' hr hs.1) ?_
  intro b b' hbv _ hbb
  have ob : Val.Ok a b := eval_ok h base c b hr.ha (hr.he ▸ henv) hr.ok hbv
  refine ExRel.bind (nodes?_congr hbb) ?_
  intro s s' hl _ hss
  rw [nodes?_ok] at hl
  subst hl
  exact step_refines h hr.ha hr.ha' hr.he hr.he' ax t
    (fun l hl => ihp c c' l hr.ha hr.ha' hr.he hr.he' hl hs.2) hss ob

omit h hsv henv in
theorem resolve_snd {env : Env} {pfx : Option Chars} {name : Chars} {q : QName}
    (hq : resolve env pfx name = .ok q) : q.2 = name := by
  unfold resolve at hq
  split at hq
  · cases hq; rfl
  · split at hq
    · cases hq; rfl
    · cases hq

omit h hsv henv in
theorem evalArgs_ne_nil {sem : Sem} {e : Expr} {es : Exprs} {c : Ctx} {vs : List Val}
    (hv : evalArgs sem (.cons e es) c = .ok vs) : ∃ v ws, vs = v :: ws ∧ eval sem e c = .ok v
      ∧ evalArgs sem es c = .ok ws := by
  rw [evalArgs] at hv
  simp only [bind_ok, pure_ok] at hv
  obtain ⟨v, hv1, ws, hws, rfl⟩ := hv
  exact ⟨v, ws, rfl, hv1, hws⟩

omit h hsv henv in
/-- a one-element argument list comes from a one-element list of argument expressions -/
theorem evalArgs_single {sem : Sem} {es : Exprs} {c : Ctx} {v : Val}
    (hv : evalArgs sem es c = .ok [v]) : ∃ x, es = .cons x .nil ∧ eval sem x c = .ok v := by
  cases es with
  | nil => rw [evalArgs] at hv; cases hv
  | cons x es =>
    obtain ⟨v', ws, e, hx, hws⟩ := evalArgs_ne_nil hv
    cases e
    cases es with
    | nil => exact ⟨x, rfl, hx⟩
    | cons y es =>
      obtain ⟨_, _, e, _, _⟩ := evalArgs_ne_nil hws
      cases e

include h hsv henv in
theorem refE_call {base : Expr} (pfx : Option Chars) (name : Chars) {args : Exprs}
    (ihb : RefE a env base) (iha : RefArgs a env args) :
    RefE a env (.call base pfx name args) := by
  intro ca c c' hr hs
  rw [eval, eval]
  simp only [sumSafe, Bool.and_eq_true, Bool.or_eq_true, bne_iff_ne, ne_eq] at hs
  obtain ⟨⟨⟨hs1, hs2⟩, hs3⟩, hs4⟩ := hs
  refine ExRel.bind (ihb ca c c' hr hs1) ?_
  intro b b' hbv hbv' hbb
  have henvc : EnvOk a c.env := hr.he ▸ henv
  have henvc' : EnvOk a c'.env := hr.he' ▸ henv
  have ob : Val.Ok a b := eval_ok h base c b hr.ha henvc hr.ok hbv
  have hasc : ascending ca base = true → Val.Asc b ∧ Val.Asc b' := fun hab =>
    ⟨eval_asc semOk_model base ca c b (fun hca => (hr.asc hca).1) henvc hab hbv,
     eval_asc semOk_specKF base ca c' b' (fun hca => (hr.asc hca).2) henvc' hab hbv'⟩
  have hr1 : CtxRel a env (ascending ca base) { c with result := b } { c' with result := b' } :=
    ⟨hr.ha, hr.ha', hr.he, hr.he', hr.pos, hr.size, hbb, ob, hasc⟩
  have hres1 : ({ c with result := b } : Ctx).result = b := rfl
  have hres1' : ({ c' with result := b' } : Ctx).result = b' := rfl
  revert hr1 hres1 hres1'
  generalize ({ c with result := b } : Ctx) = c1
  generalize ({ c' with result := b' } : Ctx) = c1'
  intro hr1 hres1 hres1'
  refine ExRel.bind (iha _ _ _ hr1 hs2) ?_
  intro vs vs' hvs hvs' hvv
  rw [hr.he, hr.he']
  refine ExRel.bind (ExRel.refl (R := Eq) (fun _ => rfl) _) ?_
  rintro q _ hq _ rfl
  have esv : Model.sem.sv c1.a = Spec.semKF.sv c1.a := by
    show Model.strval c1.a = Spec.strval c1.a
    rw [hr1.ha, strval_eq h hsv]
  split
  · rw [userFn_sem_congr Model.sem Spec.semKF _ esv]
    exact userFn_congr Spec.semKF hr1.equiv hvv _
  · split
    · rw [builtin_sem_congr Model.sem Spec.semKF _ esv rfl]
      have hname := resolve_snd hq
      have hcong := builtin_congr Spec.semKF hr1.equiv hvv q.2
        (by
          intro hsum v w ev ew
          subst ev ew
          rw [hname] at hsum
          have hsa := hs3.resolve_left (fun hne => hne hsum)
          obtain ⟨x, ex, hx⟩ := evalArgs_single hvs
          obtain ⟨x', ex', hx'⟩ := evalArgs_single hvs'
          subst ex
          cases ex'
          simp only [sumArgAsc] at hsa
          have hvw : Val.Equiv v w := by
            cases hvv with
            | cons h1 _ => exact h1
          exact hvw.eq_of_asc
            (eval_asc semOk_model x _ _ v (fun hca => (hr1.asc hca).1) (hr1.he ▸ henv) hsa hx)
            (eval_asc semOk_specKF x _ _ w (fun hca => (hr1.asc hca).2) (hr1.he' ▸ henv) hsa
              hx'))
        (by
          intro hlang
          rw [hname] at hlang
          have hab := hs4.resolve_left (fun hne => hne hlang)
          rw [hres1, hres1']
          exact hbb.eq_of_asc (hasc hab).1 (hasc hab).2)
      revert hcong
      generalize builtin Spec.semKF c1 q.2 vs = r1
      generalize builtin Spec.semKF c1' q.2 vs' = r2
      intro hcong
      cases r1 <;> cases r2 <;> simp only [OptRel] at hcong
      · exact True.intro
      · exact hcong
    · exact True.intro

include h hsv henv in
/-- the simulation, for expressions and (as arguments and as predicates) expression lists -/
theorem refE_all (e : Expr) : RefE a env e :=
  @Expr.rec (fun e => RefE a env e) (fun es => RefArgs a env es ∧ RefPreds a env es)
    (fun op _ _ ihl ihr => refE_bin h hsv op ihl ihr)
    (fun _ ih => refE_neg h hsv ih)
    refE_num refE_lit refE_var
    (fun _ pfx name _ ihb iha => refE_call h hsv henv pfx name ihb iha.1)
    refE_root refE_ctx
    (fun _ ax t _ ihb ihp => refE_step h henv ax t ihb ihp.2)
    (fun _ _ ihb ihp => refE_filt h henv ihb ihp)
    ⟨refArgs_nil, refPreds_nil⟩
    (fun _ _ ihe ihes => ⟨refArgs_cons ihe ihes.1, refPreds_cons ihe ihes.2⟩)
    e

include h hsv henv in
theorem refEs_all (es : Exprs) : RefArgs a env es ∧ RefPreds a env es :=
  @Exprs.rec (fun e => RefE a env e) (fun es => RefArgs a env es ∧ RefPreds a env es)
    (fun op _ _ ihl ihr => refE_bin h hsv op ihl ihr)
    (fun _ ih => refE_neg h hsv ih)
    refE_num refE_lit refE_var
    (fun _ pfx name _ ihb iha => refE_call h hsv henv pfx name ihb iha.1)
    refE_root refE_ctx
    (fun _ ax t _ ihb ihp => refE_step h henv ax t ihb ihp.2)
    (fun _ _ ihb ihp => refE_filt h henv ihb ihp)
    ⟨refArgs_nil, refPreds_nil⟩
    (fun _ _ ihe ihes => ⟨refArgs_cons ihe ihes.1, refPreds_cons ihe ihes.2⟩)
    es

end

/-! ## the theorems -/

/-- **exec_refines_spec.**  On a well-formed arena (`wfb`), with string-values that agree
    (`hsv`), an environment whose node-set variables are in document order (`EnvOk`), and
    contexts that agree up to the listing order of the context node-set, the evaluator of the
    model and the evaluator of the specification return the same value up to the listing order
    of a node-set, or both fail.

    `ca` says whether the context node-sets are known to be listed in ascending document order
    (`hasc`); it is `true` for `Model.run`, whose context is a single node.
    Side condition on the expression: `sumSafe ca e` (arguments of `sum` and context of `lang`
    are provably in ascending order).  Nothing is assumed about namespace prefixes: a node test
    whose prefix is not bound is resolved before the context nodes are looked at, so both
    evaluators fail with `unboundPrefix`, also on an EMPTY context node-set. -/
theorem exec_refines_spec (a : Arena) (h : wfb a = true)
    (hsv : ∀ i, i < a.size → Model.strval a i = Spec.strval a i)
    (env : Env) (henv : EnvOk a env) (e : Expr) (ca : Bool)
    (hs : sumSafe ca e = true)
    (c c' : Ctx) (hc : Ctx.Equiv c c') (hok : Val.Ok a c.result)
    (hasc : ca = true → Val.Asc c.result ∧ Val.Asc c'.result)
    (ha : c.a = a) (he : c.env = env) :
    Res.Equiv (eval Model.sem e c) (eval Spec.semKF e c') :=
  refE_all h hsv henv e ca c c'
    ⟨ha, hc.a ▸ ha, he, hc.env ▸ he, hc.pos, hc.size, hc.result, hok, hasc⟩ hs

/-- the same for argument lists -/
theorem evalArgs_refines_spec (a : Arena) (h : wfb a = true)
    (hsv : ∀ i, i < a.size → Model.strval a i = Spec.strval a i)
    (env : Env) (henv : EnvOk a env) (es : Exprs) (ca : Bool)
    (hs : sumSafeL ca es = true)
    (c c' : Ctx) (hc : Ctx.Equiv c c') (hok : Val.Ok a c.result)
    (hasc : ca = true → Val.Asc c.result ∧ Val.Asc c'.result)
    (ha : c.a = a) (he : c.env = env) :
    ExRel Vals.Equiv (evalArgs Model.sem es c) (evalArgs Spec.semKF es c') :=
  (refEs_all h hsv henv es).1 ca c c'
    ⟨ha, hc.a ▸ ha, he, hc.env ▸ he, hc.pos, hc.size, hc.result, hok, hasc⟩ hs

/-- predicates: applied to the same node list, the two evaluators keep the same nodes -/
theorem applyPreds_refines_spec (a : Arena) (h : wfb a = true)
    (hsv : ∀ i, i < a.size → Model.strval a i = Spec.strval a i)
    (env : Env) (henv : EnvOk a env) (ps : Exprs)
    (hs : sumSafeL true ps = true)
    (c c' : Ctx) (ha : c.a = a) (ha' : c'.a = a) (he : c.env = env) (he' : c'.env = env)
    (l : List Nat) (hl : ∀ x ∈ l, x < a.size) :
    ExRel Eq (applyPreds Model.sem ps c l) (applyPreds Spec.semKF ps c' l) :=
  (refEs_all h hsv henv ps).2 c c' l ha ha' he he' hl hs

theorem applyPred_refines_spec (a : Arena) (h : wfb a = true)
    (hsv : ∀ i, i < a.size → Model.strval a i = Spec.strval a i)
    (env : Env) (henv : EnvOk a env) (p : Expr)
    (hs : sumSafe true p = true)
    (c c' : Ctx) (ha : c.a = a) (ha' : c'.a = a) (he : c.env = env) (he' : c'.env = env)
    (l : List Nat) (hl : ∀ x ∈ l, x < a.size) :
    ExRel Eq (applyPred Model.sem p c l) (applyPred Spec.semKF p c' l) :=
  refPred (refE_all h hsv henv p) c c' l ha ha' he he' hl hs

/-- `exec.Exec` from a start node: the library's result is the specification's result
    (with the recorded `round` deviation) up to the listing order of a node-set -/
theorem run_refines_spec (a : Arena) (h : wfb a = true)
    (hsv : ∀ i, i < a.size → Model.strval a i = Spec.strval a i)
    (env : Env) (henv : EnvOk a env) (start : Nat) (hstart : start < a.size) (e : Expr)
    (hs : sumSafe true e = true) :
    Res.Equiv (Model.run a env start e) (Spec.runKF a env start e) :=
  exec_refines_spec a h hsv env henv e true hs _ _
    ⟨rfl, rfl, rfl, rfl, .refl _⟩ (Val.Ok.single hstart)
    (fun _ => ⟨Val.Asc.single start, Val.Asc.single start⟩) rfl rfl

end Xsel
