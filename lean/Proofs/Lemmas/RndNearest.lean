/-
  Proofs/Lemmas/RndNearest.lean — `Num.rnd` IS IEEE-754 binary64 round-to-nearest, ties-to-even,
  with overflow to ±infinity and gradual underflow (property C06).

  Main results (namespace `Xsel.Rnd`):
    `IsDouble`            the finite binary64 values  ±m·2^e, m < 2^53, -1074 ≤ e ≤ 971, and 0
    `rnd_range`           `rnd q` is a finite double, `-0`, or an infinity (never NaN)
    `rnd_fixes_doubles`   `rnd` is the identity on doubles (`rnd_idem`: idempotent)
    `rhe_nat`             `roundHalfEvenNat` is within ½, and even at a tie
    `ulpExp_spec`, `ulpExp_unique`, `ulpExp_sub`   the binade exponent
    `rnd_nearest`         a finite result is at least as near as EVERY double
    `rnd_ties_even`, `rnd_ties_even'`   at a tie the even significand is returned
    `rnd_monotone`        `p ≤ q → rnd p ≤ rnd q`
    `rnd_overflow`, `rnd_finite`        ±inf exactly from `2^1024 - 2^970` on
    `rnd_underflow`, `rnd_underflow_sign`  a zero exactly up to `2^-1075`, with the sign of `q`
    `rnd_neg`             `rnd (-q) = -(rnd q)`
    `arith_nearest`, `arith_exact`      consequences for `+ - * div` on finite operands
-/
import Proofs.Lemmas.NumRound
import Proofs.Lemmas.NumRoundTrip
namespace Xsel.Rnd
open Xsel Xsel.Num Xsel.NumL

theorem two_ne : (2 : Rat) ≠ 0 := by decide +kernel

theorem pow2_pos (e : Int) : 0 < pow2 e := Rat.zpow_pos (by decide +kernel)

theorem pow2_ne (e : Int) : pow2 e ≠ 0 := Rat.ne_of_gt (pow2_pos e)

theorem pow2_add (a b : Int) : pow2 (a + b) = pow2 a * pow2 b := Rat.zpow_add two_ne a b

theorem pow2_zero : pow2 0 = 1 := Rat.zpow_zero 2

theorem pow2_one : pow2 1 = 2 := Rat.zpow_one 2

theorem pow2_succ (a : Int) : pow2 (a + 1) = 2 * pow2 a := by
  rw [pow2_add, pow2_one, Rat.mul_comm]

theorem pow2_neg_mul (e : Int) : pow2 (-e) * pow2 e = 1 := by
  rw [← pow2_add, Int.add_comm, Int.add_right_neg, pow2_zero]

theorem pow2_mul_neg (e : Int) : pow2 e * pow2 (-e) = 1 := by
  rw [Rat.mul_comm, pow2_neg_mul]

theorem div_pow2 (a : Rat) (e : Int) : a / pow2 e = a * pow2 (-e) := by
  rw [Rat.div_def]; unfold pow2; rw [Rat.zpow_neg]

theorem pow2_nat (n : Nat) : pow2 (n : Int) = ((2 ^ n : Nat) : Rat) := by
  unfold pow2; rw [Rat.zpow_natCast, Rat.natCast_pow]; rfl

theorem one_le_pow2_nat (n : Nat) : 1 ≤ pow2 (n : Int) := by
  rw [pow2_nat]
  have : 1 ≤ 2 ^ n := Nat.one_le_two_pow
  have := (Rat.natCast_le_natCast (a := 1) (b := 2 ^ n)).2 this
  simpa using this

theorem pow2_mono {a b : Int} (h : a ≤ b) : pow2 a ≤ pow2 b := by
  obtain ⟨n, hn⟩ := Int.le.dest h
  rw [← hn, pow2_add]
  have h1 := one_le_pow2_nat n
  have h2 := pow2_pos a
  have := Rat.mul_le_mul_of_nonneg_left h1 (Rat.le_of_lt h2)
  simpa using this

theorem pow2_lt {a b : Int} (h : a < b) : 2 * pow2 a ≤ pow2 b := by
  rw [← pow2_succ]; exact pow2_mono (by omega)

/-! ### roundHalfEvenNat -/

theorem half_lt_irrefl : ¬ ((1 : Rat) / 2 < (1 : Rat) / 2) := Rat.lt_irrefl

/-- the integer chosen by `roundHalfEvenNat` -/
theorem rhe_int (x : Rat) (hx : 0 ≤ x) :
    ∃ r : Int, 0 ≤ r ∧ roundHalfEvenNat x = r.toNat ∧ ((roundHalfEvenNat x : Nat) : Rat) = (r : Rat) ∧
      2 * ((r : Rat) - x) ≤ 1 ∧ 2 * (x - (r : Rat)) ≤ 1 ∧
      ((2 * ((r : Rat) - x) = 1 ∨ 2 * (x - (r : Rat)) = 1) → r % 2 = 0) := by
  have ⟨h1, h2⟩ := floor_bounds x
  have hf : 0 ≤ x.floor := Rat.le_floor_iff.2 (by simpa using hx)
  have hcast : ∀ r : Int, 0 ≤ r → ((r.toNat : Nat) : Rat) = (r : Rat) := by
    intro r hr
    obtain ⟨n, rfl⟩ := Int.eq_ofNat_of_zero_le hr
    simp [Rat.intCast_natCast]
  unfold roundHalfEvenNat
  dsimp only
  generalize x.floor = f at *
  have hc1 : (((f + 1 : Int)) : Rat) = (f : Rat) + 1 := by
    rw [Rat.intCast_add]; simp
  by_cases c1 : x - (f : Rat) < (1 : Rat) / 2
  · simp only [c1, if_true]
    refine ⟨f, hf, rfl, hcast f hf, ?_, ?_, ?_⟩ <;> clear hcast <;> grind
  · simp only [c1, if_false]
    by_cases c2 : (1 : Rat) / 2 < x - (f : Rat)
    · simp only [c2, if_true]
      refine ⟨f + 1, by omega, rfl, hcast _ (by omega), ?_, ?_, ?_⟩ <;> clear hcast <;> grind
    · simp only [c2, if_false]
      by_cases c3 : f % 2 = 0
      · have : (f % 2 == 0) = true := by simpa using c3
        simp only [this, if_true]
        refine ⟨f, hf, rfl, hcast f hf, ?_, ?_, fun _ => c3⟩ <;> clear hcast <;> grind
      · have : (f % 2 == 0) = false := by simpa using c3
        simp only [this, Bool.false_eq_true, if_false]
        refine ⟨f + 1, by omega, rfl, hcast _ (by omega), ?_, ?_, fun _ => by omega⟩ <;>
          clear hcast <;> grind

/-! ### ulpExp -/

theorem p52 : pow2 52 = 4503599627370496 := by decide +kernel
theorem p53 : pow2 53 = 9007199254740992 := by decide +kernel

theorem div_pow2_pred (a : Rat) (e : Int) : a / pow2 (e - 1) = 2 * (a / pow2 e) := by
  rw [div_pow2, div_pow2]
  have : -(e - 1) = -e + 1 := by omega
  rw [this, pow2_succ]
  grind

theorem div_pow2_succ (a : Rat) (e : Int) : 2 * (a / pow2 (e + 1)) = a / pow2 e := by
  have := div_pow2_pred a (e + 1)
  rw [Int.add_sub_cancel] at this
  exact this.symm

theorem div_pow2_pos (a : Rat) (ha : 0 < a) (e : Int) : 0 < a / pow2 e := by
  rw [div_pow2]; exact Rat.mul_pos ha (pow2_pos _)

theorem mul_den_eq (a : Rat) (ha : 0 < a) : a * (a.den : Rat) = ((a.num.toNat : Nat) : Rat) := by
  have h := Rat.mkRat_self a
  rw [Rat.mkRat_eq_div] at h
  have hd : (a.den : Rat) ≠ 0 := by
    intro h0
    exact a.den_nz (Rat.natCast_eq_zero_iff.1 h0)
  have hn : 0 ≤ a.num := Rat.num_nonneg.2 (Rat.le_of_lt ha)
  have hc : ((a.num.toNat : Nat) : Rat) = (a.num : Rat) := by
    obtain ⟨n, hn'⟩ := Int.eq_ofNat_of_zero_le hn
    rw [hn', Int.toNat_natCast, Rat.intCast_natCast]
  rw [hc]
  have := Rat.div_mul_cancel (a := (a.num : Rat)) hd
  rw [h] at this
  exact this

theorem log2_bounds (n : Nat) (hn : n ≠ 0) :
    pow2 (n.log2 : Int) ≤ (n : Rat) ∧ (n : Rat) < 2 * pow2 (n.log2 : Int) := by
  constructor
  · rw [pow2_nat]; exact Rat.natCast_le_natCast.2 (Nat.log2_self_le hn)
  · rw [← pow2_succ]
    have : ((n.log2 : Int) + 1) = ((n.log2 + 1 : Nat) : Int) := by omega
    rw [this, pow2_nat]; exact Rat.natCast_lt_natCast.2 Nat.lt_log2_self

/-- the exponent found by `ulpExp` before clamping -/
theorem ulpExp_char (a : Rat) (ha : 0 < a) :
    ∃ e2 : Int, pow2 52 ≤ a / pow2 e2 ∧ a / pow2 e2 < pow2 53 ∧
      ulpExp a = if e2 < -1074 then -1074 else e2 := by
  have hnum : 0 < a.num := by
    have := Rat.num_nonneg.2 (Rat.le_of_lt ha)
    have h0 : a.num ≠ 0 := fun h => Rat.ne_of_gt ha (Rat.num_eq_zero.1 h)
    omega
  have hn0 : a.num.toNat ≠ 0 := by omega
  have hd0 : a.den ≠ 0 := a.den_nz
  have had := mul_den_eq a ha
  obtain ⟨hN1, hN2⟩ := log2_bounds _ hn0
  obtain ⟨hD1, hD2⟩ := log2_bounds _ hd0
  unfold ulpExp
  dsimp only
  generalize a.num.toNat = n at *
  generalize a.den = d at *
  generalize (n.log2 : Int) = N at *
  generalize (d.log2 : Int) = D at *
  -- t = a · 2^D · 2^-N ∈ (1/2, 2)
  have hu1 : a * pow2 D ≤ (n : Rat) := by
    have := Rat.mul_le_mul_of_nonneg_left hD1 (Rat.le_of_lt ha)
    rwa [had] at this
  have hu2 : (n : Rat) < 2 * (a * pow2 D) := by
    have := Rat.mul_lt_mul_of_pos_left hD2 ha
    rw [had] at this
    grind
  have hv := pow2_pos (-N)
  have hvw : pow2 N * pow2 (-N) = 1 := pow2_mul_neg N
  have ht1 : a * pow2 D * pow2 (-N) < 2 := by
    have h1 : a * pow2 D < 2 * pow2 N := by grind
    have := Rat.mul_lt_mul_of_pos_right h1 hv
    grind
  have ht2 : 1 < 2 * (a * pow2 D * pow2 (-N)) := by
    have h1 : pow2 N < 2 * (a * pow2 D) := by grind
    have := Rat.mul_lt_mul_of_pos_right h1 hv
    grind
  have hx0 : a / pow2 (N - D - 52) = a * pow2 D * pow2 (-N) * pow2 52 := by
    rw [div_pow2]
    have : -(N - D - 52) = D + -N + 52 := by omega
    rw [this, pow2_add, pow2_add]
    grind
  generalize a * pow2 D * pow2 (-N) = t at *
  generalize N - D - 52 = e0 at *
  have hb1 : 2251799813685248 < a / pow2 e0 := by rw [hx0, p52]; clear hx0; grind
  have hb2 : a / pow2 e0 < 9007199254740992 := by rw [hx0, p52]; clear hx0; grind
  have hp1 := div_pow2_pred a e0
  clear hx0 ht1 ht2 hvw hv hu1 hu2 hD1 hD2 hN1 hN2 had hn0 hd0 hnum
  rw [p52, p53]
  generalize hX : a / pow2 e0 = X0 at *
  by_cases c1 : X0 < 4503599627370496
  · simp only [c1, if_true]
    have c2 : ¬ (9007199254740992 : Rat) ≤ a / pow2 (e0 - 1) := by
      rw [hp1]; grind
    simp only [c2, if_false]
    refine ⟨e0 - 1, ?_, ?_, rfl⟩
    · rw [hp1]; grind
    · rw [hp1]; grind
  · have c2 : ¬ (9007199254740992 : Rat) ≤ X0 := by grind
    simp only [c1, if_false, hX, c2]
    refine ⟨e0, ?_, ?_, rfl⟩
    · rw [hX]; exact Rat.not_lt.1 c1
    · rw [hX]; exact Rat.not_le.1 c2

theorem div_pow2_shift (a : Rat) (e k : Int) : a / pow2 e = a / pow2 (e + k) * pow2 k := by
  rw [div_pow2, div_pow2]
  have : -e = -(e + k) + k := by omega
  rw [this, pow2_add, Rat.mul_assoc]

theorem div_pow2_anti (a : Rat) (ha : 0 < a) {e e' : Int} (h : e ≤ e') :
    a / pow2 e' ≤ a / pow2 e := by
  have h1 := div_pow2_shift a e (e' - e)
  have : e + (e' - e) = e' := by omega
  rw [this] at h1
  rw [h1]
  have h2 : pow2 0 ≤ pow2 (e' - e) := pow2_mono (by omega)
  rw [pow2_zero] at h2
  have := Rat.mul_le_mul_of_nonneg_left h2 (Rat.le_of_lt (div_pow2_pos a ha e'))
  simpa using this

theorem div_pow2_anti2 (a : Rat) (ha : 0 < a) {e e' : Int} (h : e < e') :
    2 * (a / pow2 e') ≤ a / pow2 e := by
  have h1 := div_pow2_succ a (e' - 1)
  have : e' - 1 + 1 = e' := by omega
  rw [this] at h1
  rw [h1]
  exact div_pow2_anti a ha (by omega)

/-- **ulpExp_spec** -/
theorem ulpExp_spec (a : Rat) (ha : 0 < a) :
    -1074 ≤ ulpExp a ∧
    (-1074 < ulpExp a → pow2 52 ≤ a / pow2 (ulpExp a) ∧ a / pow2 (ulpExp a) < pow2 53) ∧
    (ulpExp a = -1074 → a / pow2 (ulpExp a) < pow2 53) := by
  obtain ⟨e2, h1, h2, h3⟩ := ulpExp_char a ha
  rw [h3]
  by_cases c : e2 < -1074
  · simp only [c, if_true]
    refine ⟨by omega, fun h => absurd h (by omega), fun _ => ?_⟩
    have := div_pow2_anti a ha (e := e2) (e' := -1074) (by omega)
    grind
  · simp only [c, if_false]
    exact ⟨by omega, fun _ => ⟨h1, h2⟩, fun _ => h2⟩

theorem ulpExp_lt (a : Rat) (ha : 0 < a) : a / pow2 (ulpExp a) < pow2 53 := by
  obtain ⟨h1, h2, h3⟩ := ulpExp_spec a ha
  by_cases c : ulpExp a = -1074
  · exact h3 c
  · exact (h2 (by omega)).2

/-- the exponent is determined by the binade (normal range) -/
theorem ulpExp_unique (a : Rat) (ha : 0 < a) (e : Int) (he : -1074 ≤ e)
    (h1 : pow2 52 ≤ a / pow2 e) (h2 : a / pow2 e < pow2 53) : ulpExp a = e := by
  obtain ⟨e2, g1, g2, g3⟩ := ulpExp_char a ha
  have hee : e2 = e := by
    rw [p52, p53] at *
    rcases Int.lt_trichotomy e2 e with c | c | c
    · have := div_pow2_anti2 a ha c; grind
    · exact c
    · have := div_pow2_anti2 a ha c; grind
  rw [g3, hee]
  have : ¬ e < -1074 := by omega
  simp only [this, if_false]

/-- … and is -1074 below the normal range -/
theorem ulpExp_sub (a : Rat) (ha : 0 < a) (h : a / pow2 (-1074) < pow2 53) : ulpExp a = -1074 := by
  obtain ⟨e2, g1, g2, g3⟩ := ulpExp_char a ha
  rw [g3]
  by_cases c : e2 < -1074
  · simp only [c, if_true]
  · simp only [c, if_false]
    by_cases c' : e2 = -1074
    · exact c'
    · have : (-1074 : Int) < e2 := by omega
      have := div_pow2_anti2 a ha this
      rw [p52, p53] at *
      grind

/-! ### `rnd` through its positive part -/

/-- `rnd` on a positive rational -/
def rndPos (a : Rat) : Num :=
  if roundHalfEvenNat (a / pow2 (ulpExp a)) = 0 then .fin 0
  else if 971 < ulpExp a ∨ (ulpExp a = 971 ∧ 2 ^ 53 ≤ roundHalfEvenNat (a / pow2 (ulpExp a))) then .pinf
  else .fin ((roundHalfEvenNat (a / pow2 (ulpExp a)) : Rat) * pow2 (ulpExp a))

theorem rnd_of_pos (a : Rat) (ha : 0 < a) : rnd a = rndPos a := by
  have h0 : (a == 0) = false := by simpa using Rat.ne_of_gt ha
  have hn : decide (a < 0) = false := by
    have : ¬ a < 0 := by grind
    simpa using this
  unfold rnd rndPos
  simp only [h0, hn, Bool.false_eq_true, if_false]
  simp only [beq_iff_eq, gt_iff_lt, ge_iff_le, Bool.or_eq_true, Bool.and_eq_true, decide_eq_true_eq]

theorem rnd_of_neg (q : Rat) (hq : q < 0) : rnd q = Num.neg (rndPos (-q)) := by
  have h0 : (q == 0) = false := by simpa using Rat.ne_of_lt hq
  have hn : decide (q < 0) = true := by simpa using hq
  unfold rnd rndPos
  simp only [h0, hn, Bool.false_eq_true, if_false, if_true]
  simp only [beq_iff_eq, gt_iff_lt, ge_iff_le, Bool.or_eq_true, Bool.and_eq_true, decide_eq_true_eq]
  split
  · decide +kernel
  · rename_i hm
    split
    · rfl
    · have hm' : ((roundHalfEvenNat (-q / pow2 (ulpExp (-q))) : Nat) : Rat) ≠ 0 := by
        intro h; exact hm (Rat.natCast_eq_zero_iff.1 h)
      have hv : ((roundHalfEvenNat (-q / pow2 (ulpExp (-q))) : Nat) : Rat) * pow2 (ulpExp (-q)) ≠ 0 := by
        intro h
        rcases Rat.mul_eq_zero.1 h with h | h
        · exact hm' h
        · exact pow2_ne _ h
      simp [Num.neg, hv]

theorem num_neg_neg (x : Num) : Num.neg (Num.neg x) = x := by
  cases x with
  | fin q =>
    by_cases h : q = 0
    · subst h; decide +kernel
    · have : -q ≠ 0 := by grind
      simp [Num.neg, h, this, Rat.neg_neg]
  | _ => rfl

/-- rounding is symmetric: `rnd (-q) = -(rnd q)` (with IEEE negation: `-(+0) = -0`) -/
theorem rnd_neg (q : Rat) (hq : q ≠ 0) : rnd (-q) = Num.neg (rnd q) := by
  by_cases h : q < 0
  · have : 0 < -q := by grind
    rw [rnd_of_pos _ this, rnd_of_neg q h, num_neg_neg]
  · have hp : 0 < q := by grind
    have : -q < 0 := by grind
    rw [rnd_of_neg _ this, Rat.neg_neg, rnd_of_pos q hp]

/-! ### the rounded significand -/

/-- `roundHalfEvenNat` in terms of naturals (doubled, to stay in linear arithmetic) -/
theorem rhe_nat (x : Rat) (hx : 0 ≤ x) :
    2 * ((roundHalfEvenNat x : Rat) - x) ≤ 1 ∧ 2 * (x - (roundHalfEvenNat x : Rat)) ≤ 1 ∧
    ((2 * ((roundHalfEvenNat x : Rat) - x) = 1 ∨ 2 * (x - (roundHalfEvenNat x : Rat)) = 1) →
      roundHalfEvenNat x % 2 = 0) := by
  obtain ⟨r, hr, h1, h2, h3, h4, h5⟩ := rhe_int x hx
  rw [h2]
  refine ⟨h3, h4, fun h => ?_⟩
  have := h5 h
  rw [h1]; omega

/-- an integer within ½ of `x` is a nearest integer; another integer is as near only at a tie -/
theorem nearest_int (m k : Int) (x : Rat) (h1 : 2 * ((m : Rat) - x) ≤ 1) (h2 : 2 * (x - (m : Rat)) ≤ 1) :
    ((m : Rat) - x).abs ≤ ((k : Rat) - x).abs ∧
    (k ≠ m → ((k : Rat) - x).abs = ((m : Rat) - x).abs →
      2 * ((m : Rat) - x) = 1 ∨ 2 * (x - (m : Rat)) = 1) := by
  have hk : k = m ∨ (k : Rat) + 1 ≤ (m : Rat) ∨ (m : Rat) + 1 ≤ (k : Rat) := by
    rcases Int.lt_trichotomy k m with c | c | c
    · right; left
      have : k + 1 ≤ m := by omega
      have := Rat.intCast_le_intCast.2 this
      rw [Rat.intCast_add] at this; simpa using this
    · left; exact c
    · right; right
      have : m + 1 ≤ k := by omega
      have := Rat.intCast_le_intCast.2 this
      rw [Rat.intCast_add] at this; simpa using this
  rcases hk with hk | hk | hk
  · subst hk; exact ⟨Rat.le_refl, fun h => absurd rfl h⟩
  · rcases abs_cases ((m : Rat) - x) with ⟨_, e1⟩ | ⟨_, e1⟩ <;>
      rcases abs_cases ((k : Rat) - x) with ⟨_, e2⟩ | ⟨_, e2⟩ <;> rw [e1, e2] <;>
      refine ⟨by grind, fun _ _ => ?_⟩ <;> grind
  · rcases abs_cases ((m : Rat) - x) with ⟨_, e1⟩ | ⟨_, e1⟩ <;>
      rcases abs_cases ((k : Rat) - x) with ⟨_, e2⟩ | ⟨_, e2⟩ <;> rw [e1, e2] <;>
      refine ⟨by grind, fun _ _ => ?_⟩ <;> grind

theorem abs_scale (u p : Rat) (hp : 0 < p) : (u * p).abs = u.abs * p := by
  rcases abs_cases u with ⟨h, e⟩ | ⟨h, e⟩
  · rw [e, Rat.abs_of_nonneg (Rat.mul_nonneg h (Rat.le_of_lt hp))]
  · have : u * p < 0 := (Rat.mul_neg_iff_of_pos_right hp).2 h
    rw [e, Rat.abs_of_nonpos (Rat.le_of_lt this), Rat.neg_mul]

/-! ### the finite binary64 values -/

/-- `q` is (the value of) a finite binary64 number: zero, or `±m·2^e` with a significand below
    `2^53` and an exponent between the subnormal unit `2^-1074` and `2^971` -/
def IsDouble (q : Rat) : Prop :=
  q = 0 ∨ ∃ (m : Nat) (e : Int) (s : Bool),
    q = (if s then -((m : Rat) * pow2 e) else (m : Rat) * pow2 e) ∧
    0 < m ∧ m < 2 ^ 53 ∧ -1074 ≤ e ∧ e ≤ 971

theorem isDouble_zero : IsDouble 0 := .inl rfl

theorem isDouble_neg {q : Rat} (h : IsDouble q) : IsDouble (-q) := by
  rcases h with h | ⟨m, e, s, h, hm⟩
  · subst h; exact .inl (by decide +kernel)
  · refine .inr ⟨m, e, !s, ?_, hm⟩
    subst h
    cases s <;> simp [Rat.neg_neg]

theorem natCast_lt_p53 (m : Nat) : (m : Rat) < 9007199254740992 ↔ m < 2 ^ 53 := by
  have : (9007199254740992 : Rat) = ((2 ^ 53 : Nat) : Rat) := by decide +kernel
  rw [this]; exact Rat.natCast_lt_natCast

theorem natCast_pos' {m : Nat} (h : 0 < m) : (0 : Rat) < (m : Rat) := Rat.natCast_pos.2 h

/-- Every double is dominated by a point `k·2^e` of the grid of the binade of `a`: the grid point
    is at least as near to `a`, and strictly nearer unless the double IS that grid point.
    (`e` is the exponent `ulpExp a`; doubles with a finer exponent lie below the binade.) -/
theorem double_dominated (a : Rat) (ha : 0 < a) (e : Int) (he : -1074 ≤ e)
    (hlow : -1074 < e → 4503599627370496 * pow2 e ≤ a) (d : Rat) (hd : IsDouble d) :
    ∃ k : Int, ((k : Rat) * pow2 e - a).abs ≤ (d - a).abs ∧
      (d ≠ (k : Rat) * pow2 e → ((k : Rat) * pow2 e - a).abs < (d - a).abs) := by
  rcases hd with hd | ⟨m', e', sg, hd, hm0, hm1, he0, he1⟩
  · subst hd
    refine ⟨0, ?_, fun h => absurd ?_ h⟩
    · simp
    · simp
  · have hpos : 0 < (m' : Rat) * pow2 e' := Rat.mul_pos (natCast_pos' hm0) (pow2_pos _)
    cases sg with
    | true =>
      simp only [if_true] at hd
      refine ⟨0, ?_, fun _ => ?_⟩ <;>
      · simp only [Rat.intCast_zero, Rat.zero_mul]
        rw [Rat.abs_of_nonpos (x := 0 - a) (by grind), Rat.abs_of_nonpos (x := d - a) (by grind)]
        grind
    | false =>
      simp only [Bool.false_eq_true, if_false] at hd
      by_cases hee : e ≤ e'
      · -- on the grid
        obtain ⟨n, hn⟩ := Int.le.dest hee
        have hk : d = (((m' * 2 ^ n : Nat) : Int) : Rat) * pow2 e := by
          rw [Rat.intCast_natCast, Rat.natCast_mul, ← pow2_nat, hd, ← hn, pow2_add, Rat.mul_assoc,
            Rat.mul_comm (pow2 e)]
        refine ⟨((m' * 2 ^ n : Nat) : Int), ?_, fun h => absurd hk h⟩
        rw [← hk]; exact Rat.le_refl
      · -- below the binade
        have hlt : e' + 1 ≤ e := by omega
        have h1 := hlow (by omega)
        have h2 : d < 4503599627370496 * pow2 e := by
          have hm : (m' : Rat) < 9007199254740992 := (natCast_lt_p53 m').2 hm1
          have h3 := Rat.mul_lt_mul_of_pos_right hm (pow2_pos e')
          have h4 := pow2_mono hlt
          rw [pow2_succ] at h4
          rw [hd]
          grind
        refine ⟨4503599627370496, ?_, fun _ => ?_⟩ <;>
        · have : ((4503599627370496 : Int) : Rat) = 4503599627370496 := by simp
          rw [this, Rat.abs_of_nonpos (x := 4503599627370496 * pow2 e - a) (by grind),
            Rat.abs_of_nonpos (x := d - a) (by grind)]
          grind

/-! ### rounding a positive rational -/

/-- the scaled value `x = a / 2^e`, `e = ulpExp a`, and its rounded significand -/
theorem pos_setup (a : Rat) (ha : 0 < a) :
    a = a / pow2 (ulpExp a) * pow2 (ulpExp a) ∧ 0 < a / pow2 (ulpExp a) ∧
    a / pow2 (ulpExp a) < 9007199254740992 ∧ -1074 ≤ ulpExp a ∧
    (-1074 < ulpExp a → 4503599627370496 ≤ a / pow2 (ulpExp a)) := by
  obtain ⟨h1, h2, _⟩ := ulpExp_spec a ha
  have h3 := ulpExp_lt a ha
  rw [p52] at h2; rw [p53] at h2 h3
  exact ⟨(Rat.div_mul_cancel (pow2_ne _)).symm, div_pow2_pos a ha _, h3, h1, fun h => (h2 h).1⟩

theorem natCast_le_of_lt_succ (m : Nat) (h : (m : Rat) < 9007199254740992 + 1) : m ≤ 2 ^ 53 := by
  apply Nat.le_of_lt_succ
  have : (9007199254740992 + 1 : Rat) = ((2 ^ 53 + 1 : Nat) : Rat) := by decide +kernel
  rw [this] at h
  exact Rat.natCast_lt_natCast.1 h

/-- the three outcomes of rounding a positive rational -/
theorem rndPos_cases (a : Rat) :
    (roundHalfEvenNat (a / pow2 (ulpExp a)) = 0 ∧ rndPos a = .fin 0) ∨
    (roundHalfEvenNat (a / pow2 (ulpExp a)) ≠ 0 ∧
      (971 < ulpExp a ∨ (ulpExp a = 971 ∧ 2 ^ 53 ≤ roundHalfEvenNat (a / pow2 (ulpExp a)))) ∧
      rndPos a = .pinf) ∨
    (roundHalfEvenNat (a / pow2 (ulpExp a)) ≠ 0 ∧ ulpExp a ≤ 971 ∧
      (ulpExp a = 971 → roundHalfEvenNat (a / pow2 (ulpExp a)) < 2 ^ 53) ∧
      rndPos a = .fin ((roundHalfEvenNat (a / pow2 (ulpExp a)) : Rat) * pow2 (ulpExp a))) := by
  unfold rndPos
  by_cases c1 : roundHalfEvenNat (a / pow2 (ulpExp a)) = 0
  · left; simp only [c1, if_true]; exact ⟨trivial, trivial⟩
  · right
    simp only [c1, if_false]
    by_cases c2 : 971 < ulpExp a ∨ (ulpExp a = 971 ∧ 2 ^ 53 ≤ roundHalfEvenNat (a / pow2 (ulpExp a)))
    · left; simp only [c2, if_true]; exact ⟨c1, trivial, trivial⟩
    · right; simp only [c2, if_false]
      refine ⟨c1, by omega, fun h => by omega, trivial⟩

/-- the grid value `m·2^e` is a nearest double … -/
theorem grid_nearest (a : Rat) (ha : 0 < a) (d : Rat) (hd : IsDouble d) :
    ((roundHalfEvenNat (a / pow2 (ulpExp a)) : Rat) * pow2 (ulpExp a) - a).abs ≤ (d - a).abs := by
  obtain ⟨hax, hx0, hx1, he, hlow⟩ := pos_setup a ha
  obtain ⟨r1, r2, _⟩ := rhe_nat _ (Rat.le_of_lt hx0)
  have hP := pow2_pos (ulpExp a)
  have hlow' : -1074 < ulpExp a → 4503599627370496 * pow2 (ulpExp a) ≤ a := by
    intro h
    have := Rat.mul_le_mul_of_nonneg_right (hlow h) (Rat.le_of_lt hP)
    rwa [← hax] at this
  obtain ⟨k, hk, _⟩ := double_dominated a ha _ he hlow' d hd
  refine Rat.le_trans ?_ hk
  generalize pow2 (ulpExp a) = P at *
  generalize a / P = x at *
  generalize roundHalfEvenNat x = m at *
  have hn := (nearest_int (m : Int) k x (by rwa [Rat.intCast_natCast]) (by rwa [Rat.intCast_natCast])).1
  rw [Rat.intCast_natCast] at hn
  have e1 : (m : Rat) * P - a = ((m : Rat) - x) * P := by rw [hax]; grind
  have e2 : (k : Rat) * P - a = ((k : Rat) - x) * P := by rw [hax]; grind
  rw [e1, e2, abs_scale _ _ hP, abs_scale _ _ hP]
  exact Rat.mul_le_mul_of_nonneg_right hn (Rat.le_of_lt hP)

/-- … and when another double is equally near, its significand is even -/
theorem grid_tie (a : Rat) (ha : 0 < a) (d : Rat) (hd : IsDouble d)
    (hne : d ≠ (roundHalfEvenNat (a / pow2 (ulpExp a)) : Rat) * pow2 (ulpExp a))
    (heq : (d - a).abs = ((roundHalfEvenNat (a / pow2 (ulpExp a)) : Rat) * pow2 (ulpExp a) - a).abs) :
    roundHalfEvenNat (a / pow2 (ulpExp a)) % 2 = 0 := by
  obtain ⟨hax, hx0, hx1, he, hlow⟩ := pos_setup a ha
  obtain ⟨r1, r2, r3⟩ := rhe_nat _ (Rat.le_of_lt hx0)
  have hP := pow2_pos (ulpExp a)
  have hlow' : -1074 < ulpExp a → 4503599627370496 * pow2 (ulpExp a) ≤ a := by
    intro h
    have := Rat.mul_le_mul_of_nonneg_right (hlow h) (Rat.le_of_lt hP)
    rwa [← hax] at this
  obtain ⟨k, hk1, hk2⟩ := double_dominated a ha _ he hlow' d hd
  apply r3
  generalize pow2 (ulpExp a) = P at *
  generalize a / P = x at *
  generalize roundHalfEvenNat x = m at *
  have hn := nearest_int (m : Int) k x (by rwa [Rat.intCast_natCast]) (by rwa [Rat.intCast_natCast])
  rw [Rat.intCast_natCast] at hn
  have e1 : (m : Rat) * P - a = ((m : Rat) - x) * P := by rw [hax]; grind
  have e2 : (k : Rat) * P - a = ((k : Rat) - x) * P := by rw [hax]; grind
  have hle : ((m : Rat) * P - a).abs ≤ ((k : Rat) * P - a).abs := by
    rw [e1, e2, abs_scale _ _ hP, abs_scale _ _ hP]
    exact Rat.mul_le_mul_of_nonneg_right hn.1 (Rat.le_of_lt hP)
  -- `d` is the grid point `k·P`
  have hdk : d = (k : Rat) * P := by
    apply Classical.byContradiction
    intro h
    have := hk2 h
    grind
  have hkm : k ≠ (m : Int) := by
    intro h
    apply hne
    rw [hdk, h, Rat.intCast_natCast]
  apply hn.2 hkm
  rw [hdk, e1, e2, abs_scale _ _ hP, abs_scale _ _ hP] at heq
  have h1 := Rat.le_of_mul_le_mul_right (by rw [heq]; exact Rat.le_refl :
    ((k : Rat) - x).abs * P ≤ ((m : Rat) - x).abs * P) hP
  have h2 := Rat.le_of_mul_le_mul_right (by rw [heq]; exact Rat.le_refl :
    ((m : Rat) - x).abs * P ≤ ((k : Rat) - x).abs * P) hP
  exact Rat.le_antisymm h1 h2

/-- a finite result is a double -/
theorem grid_isDouble (a : Rat) (ha : 0 < a)
    (hm : roundHalfEvenNat (a / pow2 (ulpExp a)) ≠ 0) (he : ulpExp a ≤ 971)
    (he' : ulpExp a = 971 → roundHalfEvenNat (a / pow2 (ulpExp a)) < 2 ^ 53) :
    IsDouble ((roundHalfEvenNat (a / pow2 (ulpExp a)) : Rat) * pow2 (ulpExp a)) ∧
    0 < (roundHalfEvenNat (a / pow2 (ulpExp a)) : Rat) * pow2 (ulpExp a) := by
  obtain ⟨hax, hx0, hx1, hel, hlow⟩ := pos_setup a ha
  obtain ⟨r1, r2, _⟩ := rhe_nat _ (Rat.le_of_lt hx0)
  generalize roundHalfEvenNat (a / pow2 (ulpExp a)) = m at *
  have hm0 : 0 < m := by omega
  refine ⟨?_, Rat.mul_pos (natCast_pos' hm0) (pow2_pos _)⟩
  have hle : m ≤ 2 ^ 53 := natCast_le_of_lt_succ m (by grind)
  by_cases c : m < 2 ^ 53
  · exact .inr ⟨m, _, false, by simp, hm0, c, hel, he⟩
  · have hm' : m = 2 ^ 53 := by omega
    have hlt : ulpExp a < 971 := by
      by_cases h : ulpExp a < 971
      · exact h
      · exact absurd (he' (by omega)) c
    refine .inr ⟨2 ^ 52, ulpExp a + 1, false, ?_, by omega, by omega, by omega, by omega⟩
    subst hm'
    have : ((2 ^ 53 : Nat) : Rat) = ((2 ^ 52 : Nat) : Rat) * 2 := by decide +kernel
    simp only [Bool.false_eq_true, if_false]
    rw [pow2_succ, this, Rat.mul_assoc]

/-- **rnd_range** — `rnd` never yields NaN: the result is a finite double, `-0`, or an infinity -/
theorem rnd_range (q : Rat) :
    (∃ q', rnd q = .fin q' ∧ IsDouble q') ∨ rnd q = .nzero ∨ rnd q = .pinf ∨ rnd q = .ninf := by
  by_cases h0 : q = 0
  · subst h0; exact .inl ⟨0, by decide +kernel, isDouble_zero⟩
  by_cases hq : 0 < q
  · rw [rnd_of_pos q hq]
    rcases rndPos_cases q with ⟨_, h⟩ | ⟨_, _, h⟩ | ⟨h1, h2, h3, h⟩
    · exact .inl ⟨0, h, isDouble_zero⟩
    · exact .inr (.inr (.inl h))
    · exact .inl ⟨_, h, (grid_isDouble q hq h1 h2 h3).1⟩
  · have hn : q < 0 := by grind
    have hp : 0 < -q := by grind
    rw [rnd_of_neg q hn]
    rcases rndPos_cases (-q) with ⟨_, h⟩ | ⟨_, _, h⟩ | ⟨h1, h2, h3, h⟩
    · rw [h]; exact .inr (.inl (by decide +kernel))
    · rw [h]; exact .inr (.inr (.inr rfl))
    · obtain ⟨hd, hv⟩ := grid_isDouble (-q) hp h1 h2 h3
      rw [h]
      refine .inl ⟨-_, ?_, isDouble_neg hd⟩
      simp [Num.neg, Rat.ne_of_gt hv]

theorem rnd_ne_nan' (q : Rat) : rnd q ≠ .nan := by
  rcases rnd_range q with ⟨_, h, _⟩ | h | h | h <;> rw [h] <;> simp

/-! ### representable values are fixed points -/

theorem rhe_natCast (n : Nat) : roundHalfEvenNat (n : Rat) = n := by
  obtain ⟨r1, r2, _⟩ := rhe_nat (n : Rat) (Rat.natCast_nonneg)
  generalize roundHalfEvenNat (n : Rat) = m at *
  rcases Nat.lt_trichotomy m n with c | c | c
  · have : m + 1 ≤ n := c
    have := Rat.natCast_le_natCast.2 this
    rw [Rat.natCast_add] at this
    have h1 : ((1 : Nat) : Rat) = 1 := rfl
    grind
  · exact c
  · have : n + 1 ≤ m := c
    have := Rat.natCast_le_natCast.2 this
    rw [Rat.natCast_add] at this
    have h1 : ((1 : Nat) : Rat) = 1 := rfl
    grind

/-- a positive double is returned unchanged -/
theorem rndPos_fixes (m : Nat) (e' : Int) (hm0 : 0 < m) (hm1 : m < 2 ^ 53) (he0 : -1074 ≤ e')
    (he1 : e' ≤ 971) : rndPos ((m : Rat) * pow2 e') = .fin ((m : Rat) * pow2 e') := by
  have ha : 0 < (m : Rat) * pow2 e' := Rat.mul_pos (natCast_pos' hm0) (pow2_pos _)
  generalize hae : (m : Rat) * pow2 e' = a at *
  obtain ⟨hax, hx0, hx1, hel, hlow⟩ := pos_setup a ha
  have hmm : a / pow2 e' = (m : Rat) := by
    rw [← hae, Rat.div_def, Rat.mul_assoc, Rat.mul_inv_cancel _ (pow2_ne _), Rat.mul_one]
  have hmr : (m : Rat) < 9007199254740992 := (natCast_lt_p53 m).2 hm1
  -- the exponent of the binade is not above the exponent of the representation
  have hee : ulpExp a ≤ e' := by
    by_cases c : ulpExp a = -1074
    · omega
    · have h1 := hlow (by omega)
      apply Classical.byContradiction
      intro h
      have := div_pow2_anti2 a ha (e := e') (e' := ulpExp a) (by omega)
      rw [hmm] at this
      grind
  obtain ⟨n, hn⟩ := Int.le.dest hee
  have key : ∀ e : Int, e + n = e' → a / pow2 e = ((m * 2 ^ n : Nat) : Rat) := by
    intro e he
    rw [div_pow2, ← hae, ← he, Rat.natCast_mul, ← pow2_nat, Rat.mul_assoc]
    congr 1
    rw [Int.add_comm, pow2_add, Rat.mul_assoc, pow2_mul_neg, Rat.mul_one]
  have hx := key _ hn
  have hr : roundHalfEvenNat (a / pow2 (ulpExp a)) = m * 2 ^ n := by rw [hx, rhe_natCast]
  have hM0 : m * 2 ^ n ≠ 0 := by
    have : 0 < 2 ^ n := Nat.two_pow_pos n
    exact Nat.ne_of_gt (Nat.mul_pos hm0 this)
  have hM1 : m * 2 ^ n < 2 ^ 53 := by
    rw [hx] at hx1
    exact (natCast_lt_p53 _).1 hx1
  rcases rndPos_cases a with ⟨h, _⟩ | ⟨_, h, _⟩ | ⟨_, _, _, h⟩
  · rw [hr] at h; exact absurd h hM0
  · rw [hr] at h; omega
  · rw [h, hr, ← hx, ← hax]

/-- **rnd_fixes_doubles** — `rnd` is the identity on representable values -/
theorem rnd_fixes_doubles (q : Rat) (h : IsDouble q) : rnd q = .fin q := by
  rcases h with h | ⟨m, e, s, h, hm0, hm1, he0, he1⟩
  · subst h; decide +kernel
  · have hpos : 0 < (m : Rat) * pow2 e := Rat.mul_pos (natCast_pos' hm0) (pow2_pos _)
    cases s with
    | false =>
      simp only [Bool.false_eq_true, if_false] at h
      subst h
      rw [rnd_of_pos _ hpos, rndPos_fixes m e hm0 hm1 he0 he1]
    | true =>
      simp only [if_true] at h
      subst h
      rw [rnd_of_neg _ (by grind), Rat.neg_neg, rndPos_fixes m e hm0 hm1 he0 he1]
      simp [Num.neg, Rat.ne_of_gt hpos]

/-- `rnd` is idempotent -/
theorem rnd_idem (q q' : Rat) (h : rnd q = .fin q') : rnd q' = .fin q' := by
  rcases rnd_range q with ⟨v, hv, hd⟩ | h' | h' | h'
  · rw [hv] at h
    cases h
    exact rnd_fixes_doubles _ hd
  all_goals (rw [h'] at h; cases h)

/-! ### round to nearest, ties to even -/

/-- the value of a finite result for a positive argument is the grid value `m·2^e` -/
theorem rndPos_toRat (a q' : Rat) (h : (rndPos a).toRat? = some q') :
    q' = (roundHalfEvenNat (a / pow2 (ulpExp a)) : Rat) * pow2 (ulpExp a) := by
  rcases rndPos_cases a with ⟨h0, h1⟩ | ⟨_, _, h1⟩ | ⟨_, _, _, h1⟩ <;> rw [h1] at h
  · rw [h0]; simp [Num.toRat?] at h; rw [← h]; simp
  · simp [Num.toRat?] at h
  · simp [Num.toRat?] at h; exact h.symm

theorem rndNeg_toRat (a q' : Rat) (h : (Num.neg (rndPos a)).toRat? = some q') :
    q' = -((roundHalfEvenNat (a / pow2 (ulpExp a)) : Rat) * pow2 (ulpExp a)) := by
  rcases rndPos_cases a with ⟨h0, h1⟩ | ⟨_, _, h1⟩ | ⟨_, _, _, h1⟩ <;> rw [h1] at h
  · rw [h0]
    have : Num.neg (.fin 0) = .nzero := by decide +kernel
    rw [this] at h
    simp [Num.toRat?] at h; rw [← h]; simp
  · simp [Num.neg, Num.toRat?] at h
  · simp only [Num.neg] at h
    split at h
    · rename_i hz
      simp [Num.toRat?] at h
      rw [← h, beq_iff_eq.1 hz]; simp
    · simp [Num.toRat?] at h; exact h.symm

theorem abs_neg_sub_neg (u w : Rat) : (-u - -w).abs = (u - w).abs := by
  have : -u - -w = -(u - w) := by grind
  rw [this, Rat.abs_neg]

/-- **rnd_nearest** — a finite result (`-0` counts as `0`) is a representable value nearest to the
    argument: no double is nearer.  (Stated for EVERY double `d`.) -/
theorem rnd_nearest (q q' : Rat) (h : (rnd q).toRat? = some q') (d : Rat) (hd : IsDouble d) :
    (q' - q).abs ≤ (d - q).abs := by
  by_cases h0 : q = 0
  · subst h0
    have : rnd 0 = .fin 0 := by decide +kernel
    rw [this] at h
    simp [Num.toRat?] at h
    subst h
    rw [Rat.sub_self, Rat.abs_zero]
    exact Rat.abs_nonneg
  by_cases hq : 0 < q
  · rw [rnd_of_pos q hq] at h
    rw [rndPos_toRat q q' h]
    exact grid_nearest q hq d hd
  · have hn : q < 0 := by grind
    have hp : 0 < -q := by grind
    rw [rnd_of_neg q hn] at h
    rw [rndNeg_toRat (-q) q' h]
    have := grid_nearest (-q) hp (-d) (isDouble_neg hd)
    rw [abs_neg_sub_neg] at this
    rw [← abs_neg_sub_neg, Rat.neg_neg]
    exact this

/-- **rnd_ties_even** — when some other double is exactly as near to `q` as the result, the result
    is the one with the even significand: `|q'| = M·2^e` with `e = ulpExp |q|` and `M` even. -/
theorem rnd_ties_even (q q' : Rat) (h : (rnd q).toRat? = some q') (d : Rat) (hd : IsDouble d)
    (hne : d ≠ q') (heq : (d - q).abs = (q' - q).abs) :
    ∃ M : Nat, M % 2 = 0 ∧ q'.abs = (M : Rat) * pow2 (ulpExp q.abs) := by
  by_cases h0 : q = 0
  · subst h0
    have : rnd 0 = .fin 0 := by decide +kernel
    rw [this] at h
    simp [Num.toRat?] at h
    subst h
    simp only [Rat.sub_self, Rat.abs_zero] at heq
    have : d - 0 = 0 := Rat.abs_eq_zero_iff.1 heq
    exact absurd (by grind) hne
  by_cases hq : 0 < q
  · rw [rnd_of_pos q hq] at h
    have hv := rndPos_toRat q q' h
    rw [Rat.abs_of_nonneg (Rat.le_of_lt hq)]
    refine ⟨_, grid_tie q hq d hd (hv ▸ hne) (hv ▸ heq), ?_⟩
    rw [hv]
    exact Rat.abs_of_nonneg (Rat.mul_nonneg Rat.natCast_nonneg (Rat.le_of_lt (pow2_pos _)))
  · have hn : q < 0 := by grind
    have hp : 0 < -q := by grind
    rw [rnd_of_neg q hn] at h
    have hv := rndNeg_toRat (-q) q' h
    rw [Rat.abs_of_nonpos (Rat.le_of_lt hn)]
    have hne' : -d ≠ (roundHalfEvenNat (-q / pow2 (ulpExp (-q))) : Rat) * pow2 (ulpExp (-q)) := by
      intro hc; apply hne; rw [hv, ← hc, Rat.neg_neg]
    have heq' : (-d - -q).abs =
        ((roundHalfEvenNat (-q / pow2 (ulpExp (-q))) : Rat) * pow2 (ulpExp (-q)) - -q).abs := by
      rw [abs_neg_sub_neg, heq, hv, ← abs_neg_sub_neg, Rat.neg_neg]
    refine ⟨_, grid_tie (-q) hp (-d) (isDouble_neg hd) hne' heq', ?_⟩
    rw [hv, Rat.abs_neg]
    exact Rat.abs_of_nonneg (Rat.mul_nonneg Rat.natCast_nonneg (Rat.le_of_lt (pow2_pos _)))

/-! ### overflow -/

theorem p1024 : pow2 1024 = 9007199254740992 * pow2 971 := by
  have : (1024 : Int) = 53 + 971 := by decide
  rw [this, pow2_add, p53]

theorem p971 : pow2 971 = 2 * pow2 970 := by
  have : (971 : Int) = 970 + 1 := by decide
  rw [this, pow2_succ]

/-- `a / 2^971` from a bound on `a` in units of `2^970` -/
theorem div_p971 (a : Rat) : 2 * a = 4 * (a / pow2 971) * pow2 970 := by
  have h := Rat.div_mul_cancel (a := a) (pow2_ne 971)
  have h2 := p971
  generalize a / pow2 971 = y at *
  generalize pow2 971 = T at *
  rw [← h, h2]; grind

theorem odd_p53 : (2 ^ 53 - 1) % 2 = 1 := by decide

theorem rndPos_overflow (a : Rat) (ha : 0 < a) (h : pow2 1024 - pow2 970 ≤ a) : rndPos a = .pinf := by
  obtain ⟨hax, hx0, hx1, hel, hlow⟩ := pos_setup a ha
  obtain ⟨r1, r2, r3⟩ := rhe_nat _ (Rat.le_of_lt hx0)
  -- y = a / 2^971 ≥ 2^53 - ½
  have hy : 2 * 9007199254740992 - 1 ≤ 2 * (a / pow2 971) := by
    have h1 := div_p971 a
    rw [p1024, p971] at h
    have hp := pow2_pos 970
    generalize a / pow2 971 = y at *
    generalize pow2 970 = S at *
    have h2 : (2 * (2 * 9007199254740992 - 1)) * S ≤ (4 * y) * S := by grind
    have := Rat.le_of_mul_le_mul_right h2 hp
    grind
  have he : 971 ≤ ulpExp a := by
    apply Classical.byContradiction
    intro hc
    have := div_pow2_anti2 a ha (e := ulpExp a) (e' := 971) (by omega)
    grind
  have hx52 := hlow (by omega)
  have hm0 : roundHalfEvenNat (a / pow2 (ulpExp a)) ≠ 0 := by
    intro hc
    rw [hc] at r2
    have e0 : ((0 : Nat) : Rat) = 0 := rfl
    rw [e0] at r2
    clear r1 r3 hax
    grind
  rcases rndPos_cases a with ⟨h0, _⟩ | ⟨_, _, h1⟩ | ⟨_, he1, he2, _⟩
  · exact absurd h0 hm0
  · exact h1
  · exfalso
    have he971 : ulpExp a = 971 := by omega
    have hlt := he2 he971
    rw [he971] at r1 r2 r3 hlt
    generalize roundHalfEvenNat (a / pow2 971) = m at *
    have hm1 : m ≤ 2 ^ 53 - 1 := by omega
    have hc1 : (m : Rat) ≤ 9007199254740992 - 1 := by
      have := Rat.natCast_le_natCast.2 hm1
      have e : ((2 ^ 53 - 1 : Nat) : Rat) = 9007199254740992 - 1 := by decide +kernel
      rwa [e] at this
    have hmeq : (m : Rat) = 9007199254740992 - 1 := by grind
    have hev := r3 (.inr (by grind))
    have e : (9007199254740992 - 1 : Rat) = ((2 ^ 53 - 1 : Nat) : Rat) := by decide +kernel
    rw [e] at hmeq
    have := Rat.natCast_inj.1 hmeq
    rw [this] at hev
    exact absurd hev (by decide)

theorem rndPos_finite (a : Rat) (ha : 0 < a) (h : a < pow2 1024 - pow2 970) : rndPos a ≠ .pinf := by
  obtain ⟨hax, hx0, hx1, hel, hlow⟩ := pos_setup a ha
  obtain ⟨r1, r2, r3⟩ := rhe_nat _ (Rat.le_of_lt hx0)
  have hy : 2 * (a / pow2 971) < 2 * 9007199254740992 - 1 := by
    have h1 := div_p971 a
    rw [p1024, p971] at h
    have hp := pow2_pos 970
    generalize a / pow2 971 = y at *
    generalize pow2 970 = S at *
    have h2 : (4 * y) * S < (2 * (2 * 9007199254740992 - 1)) * S := by grind
    have := Rat.lt_of_mul_lt_mul_right h2 (Rat.le_of_lt hp)
    grind
  rcases rndPos_cases a with ⟨_, h1⟩ | ⟨_, hov, _⟩ | ⟨_, _, _, h1⟩
  · rw [h1]; simp
  · exfalso
    rcases hov with hov | ⟨he, hm⟩
    · have h1 := hlow (by omega)
      have := div_pow2_anti2 a ha (e := 971) (e' := ulpExp a) (by omega)
      grind
    · rw [he] at r1 r2 hm
      clear r3 hax hlow hx0 hx1
      generalize roundHalfEvenNat (a / pow2 971) = m at *
      have := Rat.natCast_le_natCast.2 hm
      have e : ((2 ^ 53 : Nat) : Rat) = 9007199254740992 := by decide +kernel
      rw [e] at this
      grind
  · rw [h1]; simp

/-- **rnd_overflow** — from the rounding boundary `2^1024 - 2^970` (the midpoint between the largest
    double and `2^1024`) on, the result is the infinity with the sign of the argument -/
theorem rnd_overflow (q : Rat) (h : pow2 1024 - pow2 970 ≤ q.abs) :
    rnd q = if q < 0 then .ninf else .pinf := by
  have hb : 0 < pow2 1024 - pow2 970 := by
    rw [p1024, p971]; have := pow2_pos 970; grind
  rcases abs_cases q with ⟨h1, e⟩ | ⟨h1, e⟩ <;> rw [e] at h
  · have hq : 0 < q := by grind
    have : ¬ q < 0 := by grind
    simp only [this, if_false]
    rw [rnd_of_pos q hq, rndPos_overflow q hq h]
  · simp only [h1, if_true]
    rw [rnd_of_neg q h1, rndPos_overflow (-q) (by grind) h]; rfl

/-- below the boundary the result is finite: a double (or `-0`) -/
theorem rnd_finite (q : Rat) (h : q.abs < pow2 1024 - pow2 970) :
    ∃ q', (rnd q).toRat? = some q' ∧ IsDouble q' := by
  have key : rnd q ≠ .pinf ∧ rnd q ≠ .ninf := by
    by_cases h0 : q = 0
    · subst h0; decide +kernel
    rcases abs_cases q with ⟨h1, e⟩ | ⟨h1, e⟩ <;> rw [e] at h
    · have hq : 0 < q := by grind
      rw [rnd_of_pos q hq]
      refine ⟨rndPos_finite q hq h, ?_⟩
      rcases rndPos_cases q with ⟨_, h1⟩ | ⟨_, _, h1⟩ | ⟨_, _, _, h1⟩ <;> rw [h1] <;> simp
    · have hq : 0 < -q := by grind
      rw [rnd_of_neg q h1]
      have := rndPos_finite (-q) hq h
      rcases rndPos_cases (-q) with ⟨_, h1⟩ | ⟨_, _, h1⟩ | ⟨_, _, _, h1⟩
      · rw [h1]; decide +kernel
      · exact absurd h1 this
      · rw [h1]; simp only [Num.neg]; split <;> simp
  rcases rnd_range q with ⟨v, hv, hd⟩ | h' | h' | h'
  · exact ⟨v, by rw [hv]; rfl, hd⟩
  · exact ⟨0, by rw [h']; rfl, isDouble_zero⟩
  · exact absurd h' key.1
  · exact absurd h' key.2

/-! ### underflow -/

theorem rndPos_ne_zero_of_fin (a : Rat) (ha : 0 < a)
    (hm : roundHalfEvenNat (a / pow2 (ulpExp a)) ≠ 0) : rndPos a ≠ .fin 0 := by
  rcases rndPos_cases a with ⟨h0, _⟩ | ⟨_, _, h1⟩ | ⟨h1, h2, h3, h4⟩
  · exact absurd h0 hm
  · rw [h1]; simp
  · rw [h4]
    have := (grid_isDouble a ha h1 h2 h3).2
    intro hc
    rw [Num.fin.inj hc] at this
    exact absurd this Rat.lt_irrefl

theorem pm1074 : pow2 (-1074) = 2 * pow2 (-1075) := by
  have : (-1074 : Int) = -1075 + 1 := by decide
  rw [this, pow2_succ]

/-- a positive rational rounds to zero exactly when it is at most half the smallest subnormal
    (the tie `2^-1075` goes to the even neighbour, which is 0) -/
theorem rndPos_zero_iff (a : Rat) (ha : 0 < a) : rndPos a = .fin 0 ↔ a ≤ pow2 (-1075) := by
  obtain ⟨hax, hx0, hx1, hel, hlow⟩ := pos_setup a ha
  obtain ⟨r1, r2, r3⟩ := rhe_nat _ (Rat.le_of_lt hx0)
  have hS := pow2_pos (-1075)
  constructor
  · intro h
    have hm : roundHalfEvenNat (a / pow2 (ulpExp a)) = 0 := by
      apply Classical.byContradiction
      intro hc
      exact rndPos_ne_zero_of_fin a ha hc h
    rw [hm] at r2
    have e0 : ((0 : Nat) : Rat) = 0 := rfl
    rw [e0] at r2
    have he : ulpExp a = -1074 := by
      apply Classical.byContradiction
      intro hc
      have := hlow (by omega)
      clear r1 r3 hax
      grind
    rw [he] at hax r2
    have hP := pm1074
    clear r1 r3 hlow hx0 hx1 h hm
    generalize a / pow2 (-1074) = x at *
    generalize pow2 (-1074) = P at *
    generalize pow2 (-1075) = S at *
    have : 2 * x * S ≤ 1 * S := Rat.mul_le_mul_of_nonneg_right (by grind) (Rat.le_of_lt hS)
    rw [hax, hP]; grind
  · intro h
    have hx : 2 * (a / pow2 (-1074)) ≤ 1 := by
      have h1 := Rat.div_mul_cancel (a := a) (pow2_ne (-1074))
      have hP := pm1074
      clear r1 r2 r3 hlow hx0 hx1 hax
      generalize a / pow2 (-1074) = x at *
      generalize pow2 (-1074) = P at *
      generalize pow2 (-1075) = S at *
      have : (2 * x) * S ≤ 1 * S := by rw [hP] at h1; grind
      exact Rat.le_of_mul_le_mul_right this hS
    have he : ulpExp a = -1074 := ulpExp_sub a ha (by rw [p53]; grind)
    rw [he] at r1 r2 r3
    have hm : roundHalfEvenNat (a / pow2 (-1074)) = 0 := by
      generalize roundHalfEvenNat (a / pow2 (-1074)) = m at *
      apply Classical.byContradiction
      intro hc
      have h1 : 1 ≤ m := by omega
      have h1' := Rat.natCast_le_natCast.2 h1
      have e1 : ((1 : Nat) : Rat) = 1 := rfl
      rw [e1] at h1'
      have hm1 : (m : Rat) = 1 := by clear r3 hax; grind
      have := r3 (.inl (by clear r3 hax; grind))
      rw [← e1] at hm1
      have := Rat.natCast_inj.1 hm1
      omega
    rcases rndPos_cases a with ⟨_, h1⟩ | ⟨h0, _⟩ | ⟨h0, _⟩
    · exact h1
    · rw [he] at h0; exact absurd hm h0
    · rw [he] at h0; exact absurd hm h0

/-- **rnd_underflow_sign** — a non-zero argument that rounds to a zero gives the zero of its sign -/
theorem rnd_underflow_sign (q : Rat) (hz : (rnd q).isZero = true) :
    (q < 0 → rnd q = .nzero) ∧ (0 < q → rnd q = .fin 0) := by
  constructor
  · intro hq
    rw [rnd_of_neg q hq] at hz ⊢
    rcases rndPos_cases (-q) with ⟨_, h1⟩ | ⟨_, _, h1⟩ | ⟨h1, h2, h3, h4⟩
    · rw [h1]; decide +kernel
    · rw [h1] at hz; simp [Num.neg, Num.isZero] at hz
    · have := (grid_isDouble (-q) (by grind) h1 h2 h3).2
      rw [h4] at hz
      simp [Num.neg, Num.isZero, Rat.ne_of_gt this] at hz
      exfalso; clear h4; grind
  · intro hq
    rw [rnd_of_pos q hq] at hz ⊢
    rcases rndPos_cases q with ⟨_, h1⟩ | ⟨_, _, h1⟩ | ⟨h1, h2, h3, h4⟩
    · exact h1
    · rw [h1] at hz; simp [Num.isZero] at hz
    · have := (grid_isDouble q hq h1 h2 h3).2
      rw [h4] at hz
      simp [Num.isZero, Rat.ne_of_gt this] at hz

/-- **rnd_underflow** — a non-zero argument rounds to a zero exactly when `|q| ≤ 2^-1075` -/
theorem rnd_underflow (q : Rat) (hq : q ≠ 0) : (rnd q).isZero = true ↔ q.abs ≤ pow2 (-1075) := by
  rcases abs_cases q with ⟨h1, e⟩ | ⟨h1, e⟩ <;> rw [e]
  · have hp : 0 < q := by grind
    rw [← rndPos_zero_iff q hp, rnd_of_pos q hp]
    constructor
    · intro hz
      have := (rnd_underflow_sign q (by rwa [rnd_of_pos q hp])).2 hp
      rwa [rnd_of_pos q hp] at this
    · intro h; rw [h]; rfl
  · have hp : 0 < -q := by grind
    rw [← rndPos_zero_iff (-q) hp, rnd_of_neg q h1]
    constructor
    · intro hz
      rcases rndPos_cases (-q) with ⟨_, h2⟩ | ⟨_, _, h2⟩ | ⟨h2, h3, h4, h5⟩
      · exact h2
      · rw [h2] at hz; simp [Num.neg, Num.isZero] at hz
      · have := (grid_isDouble (-q) hp h2 h3 h4).2
        rw [h5] at hz
        simp [Num.neg, Num.isZero, Rat.ne_of_gt this] at hz
        exfalso; clear h5; grind
    · intro h; rw [h]; decide +kernel

/-! ### the arithmetic operations on finite operands -/

theorem add_is_rounded_sum (a b : Rat) : Num.add (.fin a) (.fin b) = rnd (a + b) := rfl

theorem sub_is_rounded_difference (a b : Rat) (hb : b ≠ 0) :
    Num.sub (.fin a) (.fin b) = rnd (a - b) := by
  simp [Num.sub, Num.neg, hb, Num.add, Rat.sub_eq_add_neg]

/-- subtracting `+0` leaves the operand unchanged -/
theorem sub_zero (a : Rat) : Num.sub (.fin a) (.fin 0) = .fin a := by
  have : Num.neg (.fin 0) = .nzero := by decide +kernel
  rw [Num.sub, this]; rfl

theorem mul_is_rounded_product (a b : Rat) (ha : a ≠ 0) (hb : b ≠ 0) :
    Num.mul (.fin a) (.fin b) = rnd (a * b) := by
  simp [Num.mul, Num.isNaN, Num.isInf, Num.toRat?, ha, hb]

theorem div_is_rounded_quotient (a b : Rat) (ha : a ≠ 0) (hb : b ≠ 0) :
    Num.div (.fin a) (.fin b) = rnd (a / b) := by
  simp [Num.div, Num.isNaN, Num.isInf, Num.toRat?, ha, hb]

/-- **arith_nearest** — on finite non-zero operands each of `+ - * div` returns, when the result is
    finite, a double nearest to the exact rational result (and by `rnd_ties_even` the even one at a
    tie; by `rnd_overflow`/`rnd_finite` the result is infinite exactly from `2^1024 - 2^970` on). -/
theorem arith_nearest (a b : Rat) (ha : a ≠ 0) (hb : b ≠ 0) (d : Rat) (hd : IsDouble d) :
    (∀ q', (Num.add (.fin a) (.fin b)).toRat? = some q' → (q' - (a + b)).abs ≤ (d - (a + b)).abs) ∧
    (∀ q', (Num.sub (.fin a) (.fin b)).toRat? = some q' → (q' - (a - b)).abs ≤ (d - (a - b)).abs) ∧
    (∀ q', (Num.mul (.fin a) (.fin b)).toRat? = some q' → (q' - a * b).abs ≤ (d - a * b).abs) ∧
    (∀ q', (Num.div (.fin a) (.fin b)).toRat? = some q' → (q' - a / b).abs ≤ (d - a / b).abs) := by
  rw [add_is_rounded_sum, sub_is_rounded_difference a b hb, mul_is_rounded_product a b ha hb,
    div_is_rounded_quotient a b ha hb]
  exact ⟨fun q' h => rnd_nearest _ q' h d hd, fun q' h => rnd_nearest _ q' h d hd,
    fun q' h => rnd_nearest _ q' h d hd, fun q' h => rnd_nearest _ q' h d hd⟩

/-- an operation whose exact result is representable is exact -/
theorem arith_exact (a b : Rat) (ha : a ≠ 0) (hb : b ≠ 0) :
    (IsDouble (a + b) → Num.add (.fin a) (.fin b) = .fin (a + b)) ∧
    (IsDouble (a - b) → Num.sub (.fin a) (.fin b) = .fin (a - b)) ∧
    (IsDouble (a * b) → Num.mul (.fin a) (.fin b) = .fin (a * b)) ∧
    (IsDouble (a / b) → Num.div (.fin a) (.fin b) = .fin (a / b)) := by
  rw [add_is_rounded_sum, sub_is_rounded_difference a b hb, mul_is_rounded_product a b ha hb,
    div_is_rounded_quotient a b ha hb]
  exact ⟨rnd_fixes_doubles _, rnd_fixes_doubles _, rnd_fixes_doubles _, rnd_fixes_doubles _⟩

/-! ### monotonicity -/

theorem ext_neg (x : Num) : (Num.neg x).ext = x.ext.map (fun p => (-p.1, -p.2)) := by
  cases x with
  | fin q =>
    by_cases h : q = 0
    · subst h; decide +kernel
    · simp [Num.neg, h, Num.ext]
  | _ => decide +kernel

theorem le_neg (x y : Num) (h : Num.le x y = true) : Num.le (Num.neg y) (Num.neg x) = true := by
  unfold Num.le at h ⊢
  rw [ext_neg, ext_neg]
  cases hx : x.ext with
  | none => rw [hx] at h; simp at h
  | some p =>
    cases hy : y.ext with
    | none => rw [hx, hy] at h; simp at h
    | some r =>
      rw [hx, hy] at h
      obtain ⟨i, u⟩ := p
      obtain ⟨j, v⟩ := r
      simp only [Option.map_some, Bool.or_eq_true, decide_eq_true_eq, Bool.and_eq_true, beq_iff_eq] at h ⊢
      rcases h with h | ⟨h1, h2⟩
      · left; omega
      · right; exact ⟨by omega, Rat.neg_le_neg h2⟩

theorem le_trans_zero (x y : Num) (hx : Num.le x (.fin 0) = true) (hy : Num.le (.fin 0) y = true) :
    Num.le x y = true := by
  unfold Num.le at *
  cases hxe : x.ext with
  | none => rw [hxe] at hx; simp at hx
  | some p =>
    cases hye : y.ext with
    | none => rw [hye] at hy; simp [Num.ext] at hy
    | some r =>
      rw [hxe] at hx; rw [hye] at hy
      obtain ⟨i, u⟩ := p
      obtain ⟨j, v⟩ := r
      simp only [Num.ext, Bool.or_eq_true, decide_eq_true_eq, Bool.and_eq_true, beq_iff_eq] at hx hy ⊢
      rcases hx with hx | ⟨hx1, hx2⟩ <;> rcases hy with hy | ⟨hy1, hy2⟩
      · left; omega
      · left; omega
      · left; omega
      · right; exact ⟨by omega, Rat.le_trans hx2 hy2⟩
theorem rhe_mono {x y : Rat} (hx : 0 ≤ x) (hxy : x ≤ y) :
    roundHalfEvenNat x ≤ roundHalfEvenNat y := by
  by_cases he : x = y
  · subst he; exact Nat.le_refl _
  obtain ⟨a1, a2, _⟩ := rhe_nat x hx
  obtain ⟨b1, b2, _⟩ := rhe_nat y (Rat.le_trans hx hxy)
  generalize roundHalfEvenNat x = mx at *
  generalize roundHalfEvenNat y = my at *
  apply Classical.byContradiction
  intro hc
  have h1 : my + 1 ≤ mx := by omega
  have := Rat.natCast_le_natCast.2 h1
  rw [Rat.natCast_add] at this
  have e1 : ((1 : Nat) : Rat) = 1 := rfl
  rw [e1] at this
  grind

theorem div_pow2_le {a b : Rat} (hab : a ≤ b) (e : Int) : a / pow2 e ≤ b / pow2 e := by
  rw [div_pow2, div_pow2]
  exact Rat.mul_le_mul_of_nonneg_right hab (Rat.le_of_lt (pow2_pos _))

theorem ulpExp_mono {a b : Rat} (ha : 0 < a) (hab : a ≤ b) : ulpExp a ≤ ulpExp b := by
  have hb : 0 < b := by grind
  obtain ⟨_, _, _, _, hlow⟩ := pos_setup a ha
  obtain ⟨_, _, hx1, hel, _⟩ := pos_setup b hb
  apply Classical.byContradiction
  intro hc
  have h1 := hlow (by omega)
  have h2 := div_pow2_anti2 a ha (e := ulpExp b) (e' := ulpExp a) (by omega)
  have h3 := div_pow2_le hab (ulpExp b)
  grind

/-- the overflow test of `rnd` -/
def ovf (a : Rat) : Prop :=
  971 < ulpExp a ∨ (ulpExp a = 971 ∧ 2 ^ 53 ≤ roundHalfEvenNat (a / pow2 (ulpExp a)))

/-- the grid value `m·2^e` -/
def gv (a : Rat) : Rat := (roundHalfEvenNat (a / pow2 (ulpExp a)) : Rat) * pow2 (ulpExp a)

theorem gv_nonneg (a : Rat) : 0 ≤ gv a :=
  Rat.mul_nonneg Rat.natCast_nonneg (Rat.le_of_lt (pow2_pos _))

theorem le_p52_of (m : Nat) (h : 2 * (4503599627370496 - (m : Rat)) ≤ 1) : 2 ^ 52 ≤ m := by
  apply Classical.byContradiction
  intro hc
  have h1 : m + 1 ≤ 2 ^ 52 := by omega
  have := Rat.natCast_le_natCast.2 h1
  rw [Rat.natCast_add] at this
  have e1 : ((1 : Nat) : Rat) = 1 := rfl
  have e2 : ((2 ^ 52 : Nat) : Rat) = 4503599627370496 := by decide +kernel
  rw [e1, e2] at this
  grind

open Classical in
theorem rndPos_eq (a : Rat) (ha : 0 < a) : rndPos a = if ovf a then .pinf else .fin (gv a) := by
  obtain ⟨hax, hx0, hx1, hel, hlow⟩ := pos_setup a ha
  obtain ⟨r1, r2, _⟩ := rhe_nat _ (Rat.le_of_lt hx0)
  unfold ovf gv
  rcases rndPos_cases a with ⟨h0, h1⟩ | ⟨_, h0, h1⟩ | ⟨_, h2, h3, h1⟩
  · have hno : ¬ (971 < ulpExp a ∨ (ulpExp a = 971 ∧ 2 ^ 53 ≤ roundHalfEvenNat (a / pow2 (ulpExp a)))) := by
      intro hc
      have := hlow (by omega)
      rw [h0] at r2
      have e0 : ((0 : Nat) : Rat) = 0 := rfl
      rw [e0] at r2
      clear r1 hax
      grind
    rw [if_neg hno, h1, h0]; simp
  · rw [if_pos h0, h1]
  · have hno : ¬ (971 < ulpExp a ∨ (ulpExp a = 971 ∧ 2 ^ 53 ≤ roundHalfEvenNat (a / pow2 (ulpExp a)))) := by
      intro hc
      rcases hc with hc | ⟨hc1, hc2⟩
      · omega
      · have := h3 hc1; omega
    rw [if_neg hno, h1]

theorem gv_ovf_mono {a b : Rat} (ha : 0 < a) (hab : a ≤ b) :
    gv a ≤ gv b ∧ (ovf a → ovf b) := by
  have hb : 0 < b := by grind
  have hee := ulpExp_mono ha hab
  obtain ⟨_, hxa0, hxa1, _, _⟩ := pos_setup a ha
  obtain ⟨_, hxb0, _, hel, hlow⟩ := pos_setup b hb
  obtain ⟨a1, _, _⟩ := rhe_nat _ (Rat.le_of_lt hxa0)
  obtain ⟨_, b2, _⟩ := rhe_nat _ (Rat.le_of_lt hxb0)
  unfold gv ovf
  by_cases he : ulpExp a = ulpExp b
  · have hx : a / pow2 (ulpExp a) ≤ b / pow2 (ulpExp b) := by
      rw [he]; exact div_pow2_le hab _
    have hm := rhe_mono (Rat.le_of_lt hxa0) hx
    constructor
    · rw [he] at hm ⊢
      exact Rat.mul_le_mul_of_nonneg_right (Rat.natCast_le_natCast.2 hm) (Rat.le_of_lt (pow2_pos _))
    · rintro (h | ⟨h1, h2⟩)
      · left; omega
      · right; exact ⟨by omega, Nat.le_trans h2 hm⟩
  · have hlt : ulpExp a < ulpExp b := by omega
    constructor
    · have hx52 := hlow (by omega)
      have hmb : 2 ^ 52 ≤ roundHalfEvenNat (b / pow2 (ulpExp b)) := le_p52_of _ (by grind)
      have hma : roundHalfEvenNat (a / pow2 (ulpExp a)) ≤ 2 ^ 53 := natCast_le_of_lt_succ _ (by grind)
      have hmb' := Rat.natCast_le_natCast.2 hmb
      have hma' := Rat.natCast_le_natCast.2 hma
      have e2 : ((2 ^ 52 : Nat) : Rat) = 4503599627370496 := by decide +kernel
      have e3 : ((2 ^ 53 : Nat) : Rat) = 9007199254740992 := by decide +kernel
      rw [e2] at hmb'; rw [e3] at hma'
      have hP := pow2_lt hlt
      have hPa := pow2_pos (ulpExp a)
      have hPb := pow2_pos (ulpExp b)
      have h1 := Rat.mul_le_mul_of_nonneg_right hma' (Rat.le_of_lt hPa)
      have h2 := Rat.mul_le_mul_of_nonneg_right hmb' (Rat.le_of_lt hPb)
      generalize (roundHalfEvenNat (a / pow2 (ulpExp a)) : Rat) * pow2 (ulpExp a) = va at *
      generalize (roundHalfEvenNat (b / pow2 (ulpExp b)) : Rat) * pow2 (ulpExp b) = vb at *
      clear a1 b2 hx52 hxa0 hxa1 hxb0 hlow
      grind
    · rintro (h | ⟨h1, _⟩)
      · left; omega
      · left; omega

theorem rndPos_mono {a b : Rat} (ha : 0 < a) (hab : a ≤ b) :
    Num.le (rndPos a) (rndPos b) = true := by
  have hb : 0 < b := by grind
  obtain ⟨hg, ho⟩ := gv_ovf_mono ha hab
  rw [rndPos_eq a ha, rndPos_eq b hb]
  by_cases ca : ovf a
  · rw [if_pos ca, if_pos (ho ca)]; decide +kernel
  · rw [if_neg ca]
    by_cases cb : ovf b
    · rw [if_pos cb]; simp [Num.le, Num.ext]
    · rw [if_neg cb]; simp [Num.le, Num.ext, hg]

theorem rndPos_nonneg (a : Rat) (ha : 0 < a) : Num.le (.fin 0) (rndPos a) = true := by
  rw [rndPos_eq a ha]
  by_cases ca : ovf a
  · rw [if_pos ca]; decide +kernel
  · rw [if_neg ca]; simp [Num.le, Num.ext, gv_nonneg]

/-- **rnd_monotone** — rounding preserves order (in the order of IEEE comparison `≤`, extended
    with the infinities; `-0` and `+0` compare equal) -/
theorem rnd_monotone (p q : Rat) (h : p ≤ q) : Num.le (rnd p) (rnd q) = true := by
  have hz : rnd 0 = .fin 0 := by decide +kernel
  have hneg0 : Num.neg (.fin 0) = .nzero := by decide +kernel
  have hnz : ∀ x, Num.le x .nzero = Num.le x (.fin 0) := by
    intro x; simp [Num.le, Num.ext]
  have hnp : ∀ a, 0 < a → Num.le (Num.neg (rndPos a)) (.fin 0) = true := by
    intro a ha
    have := le_neg _ _ (rndPos_nonneg a ha)
    rwa [hneg0, hnz] at this
  by_cases hp : 0 < p
  · have hq : 0 < q := by grind
    rw [rnd_of_pos p hp, rnd_of_pos q hq]
    exact rndPos_mono hp h
  by_cases hp0 : p = 0
  · subst hp0
    rw [hz]
    by_cases hq0 : q = 0
    · subst hq0; rw [hz]; decide +kernel
    · have hq : 0 < q := by grind
      rw [rnd_of_pos q hq]; exact rndPos_nonneg q hq
  have hpn : p < 0 := by grind
  rw [rnd_of_neg p hpn]
  by_cases hq : 0 < q
  · rw [rnd_of_pos q hq]
    exact le_trans_zero _ _ (hnp _ (by grind)) (rndPos_nonneg q hq)
  by_cases hq0 : q = 0
  · subst hq0; rw [hz]; exact hnp _ (by grind)
  have hqn : q < 0 := by grind
  rw [rnd_of_neg q hqn]
  exact le_neg _ _ (rndPos_mono (a := -q) (b := -p) (by grind) (by grind))

/-! ### the normalised significand of the result -/

/-- the grid value in its own normal form: `m·2^e = M·2^(ulpExp (m·2^e))`, and `M` is even when
    `m` is (`M = m`, except that `m = 2^53` becomes `M = 2^52` one binade up) -/
theorem gv_canonical (a : Rat) (ha : 0 < a) :
    ∃ M : Nat, gv a = (M : Rat) * pow2 (ulpExp (gv a)) ∧ M < 2 ^ 53 ∧
      (roundHalfEvenNat (a / pow2 (ulpExp a)) % 2 = 0 → M % 2 = 0) := by
  obtain ⟨hax, hx0, hx1, hel, hlow⟩ := pos_setup a ha
  obtain ⟨r1, r2, _⟩ := rhe_nat _ (Rat.le_of_lt hx0)
  by_cases hm0 : roundHalfEvenNat (a / pow2 (ulpExp a)) = 0
  · refine ⟨0, ?_, by decide, fun _ => rfl⟩
    unfold gv; rw [hm0]; simp
  have hmle : roundHalfEvenNat (a / pow2 (ulpExp a)) ≤ 2 ^ 53 := natCast_le_of_lt_succ _ (by grind)
  have hv : 0 < gv a := by
    unfold gv
    exact Rat.mul_pos (natCast_pos' (by omega)) (pow2_pos _)
  have hdiv : gv a / pow2 (ulpExp a) = (roundHalfEvenNat (a / pow2 (ulpExp a)) : Rat) := by
    unfold gv; exact Rat.mul_div_cancel (pow2_ne _)
  by_cases hm53 : roundHalfEvenNat (a / pow2 (ulpExp a)) = 2 ^ 53
  · -- one binade up
    have e3 : ((2 ^ 53 : Nat) : Rat) = 2 * 4503599627370496 := by decide +kernel
    have hd1 : gv a / pow2 (ulpExp a + 1) = 4503599627370496 := by
      have := div_pow2_succ (gv a) (ulpExp a)
      rw [hdiv, hm53, e3] at this
      grind
    have he : ulpExp (gv a) = ulpExp a + 1 :=
      ulpExp_unique (gv a) hv _ (by omega) (by rw [hd1, p52]; exact Rat.le_refl)
        (by rw [hd1, p53]; decide +kernel)
    refine ⟨2 ^ 52, ?_, by decide, fun _ => by decide⟩
    rw [he, pow2_succ]
    unfold gv
    rw [hm53, e3]
    have e2 : ((2 ^ 52 : Nat) : Rat) = 4503599627370496 := by decide +kernel
    rw [e2]; grind
  · have hmlt : roundHalfEvenNat (a / pow2 (ulpExp a)) < 2 ^ 53 := by omega
    have hmr := (natCast_lt_p53 _).2 hmlt
    have he : ulpExp (gv a) = ulpExp a := by
      by_cases hsub : ulpExp a = -1074
      · rw [hsub] at hdiv ⊢
        exact ulpExp_sub (gv a) hv (by rw [hdiv, p53, ← hsub]; exact hmr)
      · have h52 := hlow (by omega)
        have hm52 : 2 ^ 52 ≤ roundHalfEvenNat (a / pow2 (ulpExp a)) := le_p52_of _ (by grind)
        have hm52' := Rat.natCast_le_natCast.2 hm52
        have e2 : ((2 ^ 52 : Nat) : Rat) = 4503599627370496 := by decide +kernel
        rw [e2] at hm52'
        exact ulpExp_unique (gv a) hv _ hel (by rw [hdiv, p52]; exact hm52')
          (by rw [hdiv, p53]; exact hmr)
    refine ⟨_, ?_, hmlt, fun h => h⟩
    rw [he]; rfl

/-- **rnd_ties_even'** — the tie rule in terms of the RESULT alone: when another double is exactly
    as near to `q`, the result `q'` has an even significand in its own normal form
    `|q'| = M·2^(ulpExp |q'|)`, `M < 2^53` -/
theorem rnd_ties_even' (q q' : Rat) (h : (rnd q).toRat? = some q') (d : Rat) (hd : IsDouble d)
    (hne : d ≠ q') (heq : (d - q).abs = (q' - q).abs) :
    ∃ M : Nat, M % 2 = 0 ∧ M < 2 ^ 53 ∧ q'.abs = (M : Rat) * pow2 (ulpExp q'.abs) := by
  by_cases h0 : q = 0
  · subst h0
    have : rnd 0 = .fin 0 := by decide +kernel
    rw [this] at h
    simp [Num.toRat?] at h
    subst h
    simp only [Rat.sub_self, Rat.abs_zero] at heq
    have : d - 0 = 0 := Rat.abs_eq_zero_iff.1 heq
    exact absurd (by grind) hne
  by_cases hq : 0 < q
  · rw [rnd_of_pos q hq] at h
    have hv := rndPos_toRat q q' h
    have hev := grid_tie q hq d hd (hv ▸ hne) (hv ▸ heq)
    obtain ⟨M, h1, h2, h3⟩ := gv_canonical q hq
    have hqa : q'.abs = gv q := by rw [hv]; exact Rat.abs_of_nonneg (gv_nonneg q)
    exact ⟨M, h3 hev, h2, by rw [hqa]; exact h1⟩
  · have hn : q < 0 := by grind
    have hp : 0 < -q := by grind
    rw [rnd_of_neg q hn] at h
    have hv := rndNeg_toRat (-q) q' h
    have hne' : -d ≠ (roundHalfEvenNat (-q / pow2 (ulpExp (-q))) : Rat) * pow2 (ulpExp (-q)) := by
      intro hc; apply hne; rw [hv, ← hc, Rat.neg_neg]
    have heq' : (-d - -q).abs =
        ((roundHalfEvenNat (-q / pow2 (ulpExp (-q))) : Rat) * pow2 (ulpExp (-q)) - -q).abs := by
      rw [abs_neg_sub_neg, heq, hv, ← abs_neg_sub_neg, Rat.neg_neg]
    have hev := grid_tie (-q) hp (-d) (isDouble_neg hd) hne' heq'
    obtain ⟨M, h1, h2, h3⟩ := gv_canonical (-q) hp
    have hqa : q'.abs = gv (-q) := by
      rw [hv, Rat.abs_neg]; exact Rat.abs_of_nonneg (gv_nonneg (-q))
    exact ⟨M, h3 hev, h2, by rw [hqa]; exact h1⟩

/-! ### `roundHalfEvenNat` with absolute values -/

theorem half_spec : (2 : Rat) * ((1 : Rat) / 2) = 1 := by decide +kernel

/-- **roundHalfEvenNat_nearest** — for `x ≥ 0` the result is within ½ of `x`, and at distance
    exactly ½ it is even -/
theorem roundHalfEvenNat_nearest (x : Rat) (hx : 0 ≤ x) :
    ((roundHalfEvenNat x : Rat) - x).abs ≤ (1 : Rat) / 2 ∧
    (((roundHalfEvenNat x : Rat) - x).abs = (1 : Rat) / 2 → roundHalfEvenNat x % 2 = 0) := by
  obtain ⟨r1, r2, r3⟩ := rhe_nat x hx
  have hh := half_spec
  generalize (1 : Rat) / 2 = hf at *
  generalize (roundHalfEvenNat x : Rat) = n at *
  rcases abs_cases (n - x) with ⟨_, e⟩ | ⟨_, e⟩ <;> rw [e]
  · exact ⟨by grind, fun h => r3 (.inl (by grind))⟩
  · exact ⟨by grind, fun h => r3 (.inr (by grind))⟩

/-! ### sanity checks on concrete values -/

/-- `1`, the largest double and the smallest subnormal are doubles -/
example : IsDouble 1 := .inr ⟨1, 0, false, by decide +kernel, by decide, by decide, by decide, by decide⟩
/-- `2^53 + 1` is a tie between `2^53` and `2^53 + 2`: the even significand wins -/
example : rnd 9007199254740993 = .fin 9007199254740992 := by decide +kernel
/-- `2^53 + 3` is a tie between `2^53 + 2` and `2^53 + 4`: up, to the even significand -/
example : rnd 9007199254740995 = .fin 9007199254740996 := by decide +kernel
/-- `0.1` -/
example : rnd (1 / 10) = .fin (3602879701896397 / 36028797018963968) := by decide +kernel
/-- the rounding boundary overflows, half the smallest subnormal underflows to zero -/
example : rnd (pow2 1024 - pow2 970) = .pinf := by decide +kernel
example : rnd (pow2 (-1075)) = .fin 0 ∧ rnd (-pow2 (-1075)) = .nzero := by decide +kernel
example : rnd (3 * pow2 (-1076)) = .fin (pow2 (-1074)) := by decide +kernel

end Xsel.Rnd
