/-
  Proofs/Lemmas/CliWalk.lean — which files the command-line tool processes (`walkArg`, `processed`)
  and that a failing file contributes nothing to stdout, wherever it is.
-/
import Xsel.Cli
import Proofs.Lemmas.CliRecords

namespace Xsel
namespace Cli

/-! ### the files below a directory -/

mutual
/-- the paths of the files in a tree that sits in directory `base`, in walk order -/
def pathsTree (base : Chars) : FTree → List Chars
  | .file name _ => [joinPath base name]
  | .dir name entries => pathsForest (joinPath base name) entries
def pathsForest (base : Chars) : FForest → List Chars
  | .nil => []
  | .cons t ts => pathsTree base t ++ pathsForest base ts
end

/-- the files below a directory argument `n` with entries `es` -/
def pathsBelow (n : Chars) (es : FForest) : List Chars := pathsForest n es

/-- membership, stated independently: `FileBelow base es p r` — `p` is the path of a regular file
    with result `r` somewhere below the directory `base` whose entries are `es` -/
inductive FileBelow : Chars → FForest → Chars → FileResult → Prop
  | here {base name r ts} : FileBelow base (.cons (.file name r) ts) (joinPath base name) r
  | inDir {base name es ts p r} : FileBelow (joinPath base name) es p r →
      FileBelow base (.cons (.dir name es) ts) p r
  | next {base t ts p r} : FileBelow base ts p r → FileBelow base (.cons t ts) p r

mutual
theorem walkTree_fst (base : Chars) : ∀ t : FTree, (walkTree base t).map Prod.fst = pathsTree base t
  | .file name r => by simp [walkTree, pathsTree]
  | .dir name es => by simp only [walkTree, pathsTree]; exact walkForest_fst _ es
theorem walkForest_fst (base : Chars) : ∀ ts : FForest, (walkForest base ts).map Prod.fst = pathsForest base ts
  | .nil => by simp [walkForest, pathsForest]
  | .cons t ts => by
    simp only [walkForest, pathsForest, List.map_append, walkTree_fst base t, walkForest_fst base ts]
end

mutual
theorem mem_walkTree_sound (base : Chars) (p : Chars) (r : FileResult) :
    ∀ (t : FTree) (ts : FForest), (p, r) ∈ walkTree base t → FileBelow base (.cons t ts) p r
  | .file name r', ts, h => by
    simp only [walkTree, List.mem_singleton, Prod.mk.injEq] at h
    obtain ⟨rfl, rfl⟩ := h
    exact .here
  | .dir name es, ts, h => by
    simp only [walkTree] at h
    exact .inDir (mem_walkForest_sound _ p r es h)
theorem mem_walkForest_sound (base : Chars) (p : Chars) (r : FileResult) :
    ∀ ts : FForest, (p, r) ∈ walkForest base ts → FileBelow base ts p r
  | .nil, h => by simp [walkForest] at h
  | .cons t ts, h => by
    simp only [walkForest, List.mem_append] at h
    rcases h with h | h
    · exact mem_walkTree_sound base p r t ts h
    · exact .next (mem_walkForest_sound base p r ts h)
end

theorem mem_walkForest_complete {base : Chars} {es : FForest} {p : Chars} {r : FileResult}
    (h : FileBelow base es p r) : (p, r) ∈ walkForest base es := by
  induction h with
  | here => simp [walkForest, walkTree]
  | inDir _ ih => simp only [walkForest, walkTree, List.mem_append]; exact Or.inl ih
  | next _ ih => simp only [walkForest, List.mem_append]; exact Or.inr ih

/-- `walkForest` lists exactly the regular files below the directory, with their results -/
theorem mem_walkForest (base : Chars) (es : FForest) (p : Chars) (r : FileResult) :
    (p, r) ∈ walkForest base es ↔ FileBelow base es p r :=
  ⟨mem_walkForest_sound base p r es, mem_walkForest_complete⟩

/-! ### arguments -/

/-- a directory argument is never descended without `-r` -/
theorem walkArg_dir_no_r (f : Flags) (n : Chars) (es : FForest) (hr : f.recursive = false) :
    walkArg f (.dir n es) = [] := by
  simp [walkArg, hr]

theorem walkArg_dir_r (f : Flags) (n : Chars) (es : FForest) (hr : f.recursive = true) :
    walkArg f (.dir n es) = walkForest n es := by
  simp [walkArg, hr]

theorem walkArg_file (f : Flags) (n : Chars) (r : FileResult) : walkArg f (.file n r) = [(n, r)] := rfl

/-- the paths an argument contributes -/
def argPaths (f : Flags) : FTree → List Chars
  | .file n _ => [n]
  | .dir n es => if f.recursive then pathsBelow n es else []

theorem walkArg_fst (f : Flags) (t : FTree) : (walkArg f t).map Prod.fst = argPaths f t := by
  cases t with
  | file n r => rfl
  | dir n es =>
    simp only [walkArg, argPaths, pathsBelow]
    split
    · exact walkForest_fst n es
    · rfl

/-- **walk_exact**: the processed paths are, argument by argument in argument order, the file
    arguments themselves and — iff `-r` — every file below a directory argument -/
theorem walk_exact (f : Flags) (args : List FTree) :
    (processed f args).map Prod.fst = args.flatMap (argPaths f) := by
  induction args with
  | nil => rfl
  | cons t ts ih =>
    simp only [processed, List.flatMap_cons, List.map_append] at ih ⊢
    rw [ih, walkArg_fst]

/-- membership form: what is processed, with which result -/
theorem mem_processed (f : Flags) (args : List FTree) (p : Chars) (r : FileResult) :
    (p, r) ∈ processed f args ↔
      (FTree.file p r ∈ args) ∨ (f.recursive = true ∧ ∃ n es, FTree.dir n es ∈ args ∧ FileBelow n es p r) := by
  simp only [processed, List.mem_flatMap]
  constructor
  · rintro ⟨t, ht, h⟩
    cases t with
    | file n r' =>
      simp only [walkArg, List.mem_singleton, Prod.mk.injEq] at h
      obtain ⟨rfl, rfl⟩ := h
      exact Or.inl ht
    | dir n es =>
      by_cases hr : f.recursive = true
      · rw [walkArg_dir_r f n es hr] at h
        exact Or.inr ⟨hr, n, es, ht, (mem_walkForest n es p r).mp h⟩
      · rw [walkArg_dir_no_r f n es (by simpa using hr)] at h
        simp at h
  · rintro (h | ⟨hr, n, es, ht, h⟩)
    · exact ⟨_, h, by simp [walkArg]⟩
    · exact ⟨_, ht, by rw [walkArg_dir_r f n es hr]; exact (mem_walkForest n es p r).mpr h⟩

theorem processed_append (f : Flags) (a b : List FTree) :
    processed f (a ++ b) = processed f a ++ processed f b := by
  simp [processed]

theorem stdout_append (f : Flags) (a b : List FTree) : stdout f (a ++ b) = stdout f a ++ stdout f b := by
  simp [stdout, processed_append]

/-- a file argument contributes exactly its block -/
theorem stdout_file (f : Flags) (n : Chars) (r : FileResult) : stdout f [.file n r] = block f n r := by
  simp [stdout, processed, walkArg]

/-- **bad_file_isolated** (arguments): a failing file argument does not affect the output for the
    other arguments -/
theorem bad_file_isolated (f : Flags) (a b : List FTree) (n : Chars) :
    stdout f (a ++ [.file n .failed] ++ b) = stdout f a ++ stdout f b := by
  rw [stdout_append, stdout_append, stdout_file, block_failed, List.append_nil]

/-! ### a failing file inside a directory -/

/-- stdout contributed by the entries `es` of the directory `base` -/
def outForest (f : Flags) (base : Chars) (es : FForest) : Chars :=
  (walkForest base es).flatMap (fun pr => block f pr.1 pr.2)

def FForest.append : FForest → FForest → FForest
  | .nil, w => w
  | .cons t ts, w => .cons t (FForest.append ts w)

theorem walkForest_append (base : Chars) : ∀ (a b : FForest),
    walkForest base (a.append b) = walkForest base a ++ walkForest base b
  | .nil, b => by simp [FForest.append, walkForest]
  | .cons t ts, b => by simp [FForest.append, walkForest, walkForest_append base ts b]

theorem outForest_append (f : Flags) (base : Chars) (a b : FForest) :
    outForest f base (a.append b) = outForest f base a ++ outForest f base b := by
  simp [outForest, walkForest_append]

/-- **bad_file_isolated** (inside a directory): a failing file between the entries `a` and `b` of a
    directory does not affect what the directory contributes -/
theorem bad_file_isolated_dir (f : Flags) (base : Chars) (a b : FForest) (n : Chars) :
    outForest f base (a.append (.cons (.file n .failed) b)) = outForest f base a ++ outForest f base b := by
  rw [outForest_append]
  simp [outForest, walkForest, walkTree, block_failed]

/-- removing every failing file at every depth -/
def isFailed : FileResult → Bool
  | .failed => true
  | _ => false

mutual
def pruneTree : FTree → FForest → FForest
  | .file n r, rest => if isFailed r then rest else .cons (.file n r) rest
  | .dir n es, rest => .cons (.dir n (pruneForest es)) rest
def pruneForest : FForest → FForest
  | .nil => .nil
  | .cons t ts => pruneTree t (pruneForest ts)
end

mutual
theorem out_pruneTree (f : Flags) (base : Chars) : ∀ (t : FTree) (rest : FForest),
    outForest f base (pruneTree t rest) = outForest f base (.cons t .nil) ++ outForest f base rest
  | .file n r, rest => by
    cases r with
    | failed => simp [pruneTree, isFailed, outForest, walkForest, walkTree, block_failed]
    | nodes ns => simp [pruneTree, isFailed, outForest, walkForest, walkTree]
    | scalar s => simp [pruneTree, isFailed, outForest, walkForest, walkTree]
  | .dir n es, rest => by
    have ih := out_pruneForest f (joinPath base n) es
    simp only [outForest] at ih
    simp [pruneTree, outForest, walkForest, walkTree, ih]
theorem out_pruneForest (f : Flags) (base : Chars) : ∀ es : FForest,
    outForest f base (pruneForest es) = outForest f base es
  | .nil => rfl
  | .cons t ts => by
    rw [pruneForest, out_pruneTree f base t, out_pruneForest f base ts]
    simp [outForest, walkForest]
end

/-- remove failing files from the arguments, at every depth -/
def pruneArgs : List FTree → List FTree
  | [] => []
  | .file n r :: ts => if isFailed r then pruneArgs ts else .file n r :: pruneArgs ts
  | .dir n es :: ts => .dir n (pruneForest es) :: pruneArgs ts

/-- **bad files are isolated, everywhere**: stdout is what it would be had the failing files not
    been there at all -/
theorem stdout_pruneArgs (f : Flags) : ∀ args : List FTree, stdout f (pruneArgs args) = stdout f args
  | [] => rfl
  | .file n r :: ts => by
    have ih := stdout_pruneArgs f ts
    have e : stdout f (.file n r :: ts) = block f n r ++ stdout f ts := by
      rw [← List.singleton_append, stdout_append, stdout_file]
    cases r with
    | failed => simp [pruneArgs, isFailed, e, ih, block_failed]
    | nodes ns =>
      have : stdout f (.file n (.nodes ns) :: pruneArgs ts) = block f n (.nodes ns) ++ stdout f (pruneArgs ts) := by
        rw [← List.singleton_append, stdout_append, stdout_file]
      simp [pruneArgs, isFailed, e, this, ih]
    | scalar s =>
      have : stdout f (.file n (.scalar s) :: pruneArgs ts) = block f n (.scalar s) ++ stdout f (pruneArgs ts) := by
        rw [← List.singleton_append, stdout_append, stdout_file]
      simp [pruneArgs, isFailed, e, this, ih]
  | .dir n es :: ts => by
    have ih := stdout_pruneArgs f ts
    have e : ∀ es' rest, stdout f (.dir n es' :: rest) =
        (if f.recursive then outForest f n es' else []) ++ stdout f rest := by
      intro es' rest
      rw [← List.singleton_append, stdout_append]
      congr 1
      simp only [stdout, processed, List.flatMap_cons, List.flatMap_nil, List.append_nil, walkArg, outForest]
      split <;> rfl
    rw [pruneArgs, e, e, ih, out_pruneForest]

end Cli
end Xsel
