/-
  Proofs/Lemmas/WalkFit.lean — which SHAPE of production each handler needs in order not to panic.

  A handler indexes the children of its node (`children[0]`, `children[1]`, the last nonterminal child,
  `GetTChildI(i)`), slices the text of a literal, looks for "(" in the text of a node-type test.  `fits h rhs`
  is the decidable condition on the right-hand side of a production under which the handler function `h`
  performs none of these operations out of range.  `Proofs/GenWalk.lean` checks by kernel evaluation, on every
  run, that EVERY production of the regenerated grammar fits the handler the regenerated table registers for
  its nonterminal; `Proofs/Lemmas/WalkNoPanic.lean` proves that the walk over ANY derivation tree of such a
  grammar never panics.
-/
import Xsel.Deriv

namespace Xsel.Walk
open Xsel Xsel.Syntax

/-- number of nonterminals of a right-hand side -/
def ntCountR (rhs : List (Bool × String)) : Nat := (rhs.filter (·.1)).length

def isTermAt (rhs : List (Bool × String)) (i : Nat) : Bool :=
  match rhs[i]? with
  | some (false, _) => true
  | _ => false

def twoChildHandlers : List String :=
  ["leftRightDependentResult", "execAbbreviatedRelativeLocationPath", "execFilterExprWithPredicate",
   "execOrExprOr", "execAndExprAnd", "execUnionExprUnion", "execEqualityExprEqual", "execEqualityExprNotEqual",
   "execRelationalExprLessThan", "execRelationalExprLessThanOrEqual", "execRelationalExprGreaterThan",
   "execRelationalExprGreaterThanOrEqual", "execAdditiveExprAdd", "execAdditiveExprSubtract",
   "execMultiplicativeExprMultiply", "execMultiplicativeExprDivide", "execMultiplicativeExprMod", "execFunctionCall"]

def oneChildHandlers : List String :=
  ["execStep", "execPredicate", "execUnaryExprNegate", "execNodeTestProcInstTargetTest"]

def freeHandlers : List String :=
  ["execAbsoluteLocationPathOnly", "execAbsoluteLocationPathWithRelative", "execAbbreviatedAbsoluteLocationPath",
   "execNameTestAnyElement", "execNameTestQNameLocalOnly", "execAxisName", "execAbbreviatedStepParent",
   "execAbbreviatedStepSelf", "execAbbreviatedAxisSpecifier", "execNumber", "execVariableReference"]

/-- the production `rhs` has the children the handler function `h` indexes -/
def fits (h : String) (rhs : List (Bool × String)) : Bool :=
  if twoChildHandlers.contains h then decide (2 ≤ ntCountR rhs)
  else if oneChildHandlers.contains h then decide (1 ≤ ntCountR rhs)
  else if freeHandlers.contains h then true
  else if h == "execLiteral" then rhs == [(false, "singlequote")] || rhs == [(false, "doublequote")]
  else if h == "execNodeTestNodeTypeNoArgTest" then rhs.contains (false, "(")
  else if h == "execNameTestNamespaceAnyLocal" then isTermAt rhs 0
  else if h == "execNameTestLocalAnyNamespace" then isTermAt rhs 2
  else if h == "execNameTestQNameNamespaceWithLocal" then isTermAt rhs 0 && isTermAt rhs 2
  else if h == "execNameTestNamespaceAnyLocalReservedNameConflict" then decide (1 ≤ ntCountR rhs)
  else if h == "execNameTestLocalAnyNamespaceReservedNameConflict" then decide (1 ≤ ntCountR rhs)
  else if h == "execNameTestQNameNamespaceWithLocalReservedNameConflictNamespace" then decide (1 ≤ ntCountR rhs) && isTermAt rhs 2
  else if h == "execNameTestQNameNamespaceWithLocalReservedNameConflictLocal" then decide (1 ≤ ntCountR rhs) && isTermAt rhs 0
  else if h == "execNameTestQNameNamespaceWithLocalReservedNameConflictBoth" then decide (2 ≤ ntCountR rhs)
  else false

/-- the production `n → rhs` fits the handler registered for `n` (none: `execChildren`, always fine) -/
def fitsNode (handlers : List (String × String)) (n : String) (rhs : List (Bool × String)) : Bool :=
  match lookupS n handlers with
  | none => true
  | some h => fits h rhs

/-- every production fits the handler registered for its nonterminal -/
def allFit (handlers : List (String × String)) (prods : List (String × List (Bool × String))) : Bool :=
  prods.all (fun p => fitsNode handlers p.1 p.2)

end Xsel.Walk
