/-
  Proofs/Lemmas/ParseRenderDefs.lean — well-formed expressions, follow sets, the levelled view of the
  parser (`entryThen` / `after`) and the fuel bound `costAt` used by `Proofs/Lemmas/ParseRender.lean`.
-/
import Proofs.Lemmas.ParseRenderMono

namespace Xsel.Syntax

/-! ### well-formed expressions: `numOk`, `noColon`, `wfE`, `wfEs` are defined in `Xsel/Render.lean` -/

example : numOk (.fin 0) = true := by decide +kernel
example : numOk (.fin 1) = true := by decide +kernel
example : numOk (.fin (5/2)) = true := by decide +kernel
example : numOk (.fin (1/8)) = true := by decide +kernel
example : numOk .nan = false := by decide +kernel
example : numOk (.fin (-1)) = false := by decide +kernel

/-! ### follow sets -/

/-- may token `t` follow the spelling of an operand where level `k` or tighter is expected?  Closing
    tokens always; an operator (or `|`, `/`, `[`) only if it binds at most as tightly as `k`, so that
    the parser at level `k` either continues with it (its own level) or stops (a looser level). -/
def folTok (k : Nat) : Tok → Bool
  | .p .rparen | .p .rbrack | .p .comma => true
  | .kw .or => true
  | .kw .and => decide (1 ≤ k)
  | .p .eq | .p .ne => decide (2 ≤ k)
  | .p .lt | .p .le | .p .gt | .p .ge => decide (3 ≤ k)
  | .p .plus | .p .minus => decide (4 ≤ k)
  | .p .star | .kw .div | .kw .mod => decide (5 ≤ k)
  | .p .pipe => decide (7 ≤ k)
  | .p .slash => decide (8 ≤ k)
  | .p .lbrack => decide (9 ≤ k)
  | _ => false

def fol (k : Nat) : Toks → Bool
  | [] => true
  | t :: _ => folTok k t.tok

/-! ### the parser by levels: 0–5 binary, 6 unary, 7 union, 8 path, 9 primary with predicates -/

def pUnion (c : Cfg) (f : Nat) (ts : Toks) : PRes :=
  match pPath c f ts with
  | some (l, r) => pUnionRest c f l r
  | none => none

def pPrimFilt (c : Cfg) (f : Nat) (ts : Toks) : PRes :=
  match pPrimary c f ts with
  | some (e, r) => pFilt c f e r
  | none => none

/-- what `pPath` and `pRel` do after a complete step or filter expression -/
def pathCont (c : Cfg) (f : Nat) (e : Expr) (rest : Toks) : PRes :=
  match rest with
  | P .slash _ :: r => pRel c f e r
  | P .dslash _ :: r => pRel c f (dos e) r
  | _ => some (e, rest)

/-- the parser for level `min` -/
def entryThen (c : Cfg) (f : Nat) (min : Nat) (ts : Toks) : PRes :=
  if min ≤ 5 then pBin c f min ts
  else if min = 6 then pUnary c f ts
  else if min = 7 then pUnion c f ts
  else if min = 8 then pPath c f ts
  else pPrimFilt c f ts

/-- what the parser for level `min` does after it has read a complete operand `x` of a tighter level -/
def after (c : Cfg) (f : Nat) (min : Nat) (x : Expr) (rest : Toks) : PRes :=
  if min ≤ 5 then pBinRest c f min x rest
  else if min = 6 then some (x, rest)
  else if min = 7 then pUnionRest c f x rest
  else if min = 8 then pathCont c f x rest
  else pFilt c f x rest

/-! ### fuel bound -/

/-- fuel for getting from the parser of level `min` to the spelling of an expression of level `lv`
    (through a pair of parentheses if `lv < min`) -/
def tw (lv min : Nat) : Nat :=
  if lv < min then 2 * lv + 2 * (9 - min) + 4 else 2 * (lv - min)

mutual
/-- fuel that the parser of `level e` needs for `raw e`, beyond what its continuation needs -/
def own : Expr → Nat
  | .bin op l r => own l + tw (level l) (opLevel op) + (own r + tw (level r) (opLevel op + 1)) + 3
  | .neg e => own e + tw (level e) 6 + 2
  | .num _ => 1
  | .lit _ => 1
  | .var _ _ => 1
  | .call b _ _ as => ownBase b + ownArgs as + 4
  | .root => 20
  | .ctx => 3
  | .step b _ _ ps => ownBase b + ownPreds ps + 4
  | .filt b p => own b + tw (level b) 9 + (own p + tw (level p) 0) + 3
def ownBase : Expr → Nat
  | .ctx => 0
  | .root => 0
  | b => own b + tw (level b) 8
def ownPreds : Exprs → Nat
  | .nil => 1
  | .cons p ps => own p + tw (level p) 0 + ownPreds ps + 2
def ownArgs : Exprs → Nat
  | .nil => 1
  | .cons a as => own a + tw (level a) 0 + ownArgs as + 3
end

def costAt (e : Expr) (min : Nat) : Nat := own e + tw (level e) min

end Xsel.Syntax
