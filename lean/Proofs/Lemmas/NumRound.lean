/-
  Proofs/Lemmas/NumRound.lean — floor characterisation and the two `round` functions.
-/
import Proofs.Lemmas.NumArith

namespace Xsel.NumL
open Xsel

theorem floor_eq (x : Rat) (n : Int) (h1 : (n : Rat) ≤ x) (h2 : x < (n : Rat) + 1) : x.floor = n := by
  have a : n ≤ x.floor := Rat.le_floor_iff.2 h1
  have b : x.floor < n + 1 := by
    apply Rat.floor_lt_iff.2
    rw [Rat.intCast_add]; simpa using h2
  omega

/-- `⌊q + ½⌋` in terms of `⌊q⌋` and the fractional part -/
theorem floor_add_half (q : Rat) :
    (q + (1 : Rat) / 2).floor = if (1 : Rat) / 2 ≤ q - ((q.floor : Int) : Rat) then q.floor + 1 else q.floor := by
  have ⟨h1, h2⟩ := floor_bounds q
  split
  · apply floor_eq
    · rw [Rat.intCast_add]; simp only [Rat.intCast_ofNat]; grind
    · rw [Rat.intCast_add]; simp only [Rat.intCast_ofNat]; grind
  · apply floor_eq <;> grind

theorem frac_zero_of_zero : (0 : Rat) - (((0 : Rat).floor : Int) : Rat) = 0 := by decide +kernel

theorem round_partial (x : Num) (h : Spec.isNegativeTie x = false) : Model.round x = Spec.round x := by
  cases x with
  | fin q =>
    simp only [Model.round, Spec.round, floor_add_half]
    simp only [Spec.isNegativeTie, Bool.and_eq_false_iff, decide_eq_false_iff_not, beq_eq_false_iff_ne] at h
    have ⟨h1, h2⟩ := floor_bounds q
    have hz : q = 0 → q - ((q.floor : Int) : Rat) ≠ (1 : Rat) / 2 := by
      intro h; subst h; decide +kernel
    generalize q.floor = f at *
    by_cases hd : (1 : Rat) / 2 < q - (f : Rat)
    · have : (1 : Rat) / 2 ≤ q - (f : Rat) := Rat.le_of_lt hd
      simp [hd, this]
    · by_cases he : q - (f : Rat) = (1 : Rat) / 2
      · have hq : 0 < q := by
          rcases h with h | h
          · have : q ≠ 0 := fun h' => absurd he (hz h')
            grind
          · exact absurd he h
        simp [he, hq]
      · have : ¬ (1 : Rat) / 2 ≤ q - (f : Rat) := by grind
        simp [hd, he, this]
  | _ => rfl

end Xsel.NumL
