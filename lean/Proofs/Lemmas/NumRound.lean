/-
  Proofs/Lemmas/NumRound.lean — floor characterisation and the two `round` functions.
-/
import Proofs.Lemmas.NumArith

namespace Xsel.NumL
open Xsel

theorem floor_eq (x : Rat) (n : Int) (h1 : (n : Rat) ≤ x) (h2 : x < (n : Rat) + 1) : x.floor = n := by
  have a : n ≤ x.floor := Rat.le_floor_iff.2 h1
  have b : x.floor < n + 1 := by
    apply Rat.floor_lt_iff.2
    rw [Rat.intCast_add]; simpa using h2
  omega

/-- `⌊q + ½⌋` in terms of `⌊q⌋` and the fractional part -/
theorem floor_add_half (q : Rat) :
    (q + (1 : Rat) / 2).floor = if (1 : Rat) / 2 ≤ q - ((q.floor : Int) : Rat) then q.floor + 1 else q.floor := by
  have ⟨h1, h2⟩ := floor_bounds q
  split
  · apply floor_eq
    · rw [Rat.intCast_add]; simp only [Rat.intCast_ofNat]; grind
    · rw [Rat.intCast_add]; simp only [Rat.intCast_ofNat]; grind
  · apply floor_eq <;> grind

theorem frac_zero_of_zero : (0 : Rat) - (((0 : Rat).floor : Int) : Rat) = 0 := by decide +kernel

/-! ### the sign of a zero result (§4.4: "If the argument is less than zero, but greater than or
    equal to -0.5, then negative zero is returned.") -/

/-- §4.4: negative zero for arguments in [-0.5, 0) -/
theorem spec_round_negative_zero (q : Rat) (h1 : -(1 : Rat) / 2 ≤ q) (h2 : q < 0) :
    Spec.round (.fin q) = .nzero := by
  simp [Spec.round, h1, h2]

/-- the code: negative zero for arguments in (-0.5, 0) -/
theorem model_round_negative_zero (q : Rat) (h1 : -(1 : Rat) / 2 < q) (h2 : q < 0) :
    Model.round (.fin q) = .nzero := by
  simp [Model.round, h1, h2]

/-- outside [-0.5, 0) the Recommendation's `round` is `⌊q + ½⌋` -/
theorem spec_round_outside (q : Rat) (h : ¬ (-(1 : Rat) / 2 ≤ q ∧ q < 0)) :
    Spec.round (.fin q) = .fin (((q + (1 : Rat) / 2).floor : Int) : Rat) := by
  simp only [Spec.round, Bool.and_eq_true, decide_eq_true_eq, h]
  rfl

/-- outside (-0.5, 0) the code's `getRound` is "floor, plus one when the fraction says so" -/
theorem model_round_outside (q : Rat) (h : ¬ (-(1 : Rat) / 2 < q ∧ q < 0)) :
    Model.round (.fin q) =
      (if (1 : Rat) / 2 < q - ((q.floor : Int) : Rat) ||
          (q - ((q.floor : Int) : Rat) == (1 : Rat) / 2 && 0 < q)
       then .fin ((q.floor + 1 : Int) : Rat) else .fin ((q.floor : Int) : Rat)) := by
  simp only [Model.round, Bool.and_eq_true, decide_eq_true_eq, h]
  rfl

theorem floor_neg_half : (-(1 : Rat) / 2).floor = -1 := by decide +kernel

/-- a result of `⌊q + ½⌋ = 0` for negative `q` happens exactly on [-0.5, 0) -/
theorem floor_add_half_eq_zero_of_neg (q : Rat) (h1 : -(1 : Rat) / 2 ≤ q) (h2 : q < 0) :
    (q + (1 : Rat) / 2).floor = 0 := by
  apply floor_eq
  · simp only [Rat.intCast_ofNat]; grind
  · simp only [Rat.intCast_ofNat]; grind

/-- as a rational (both zeros are 0) the Recommendation's `round` is `⌊q + ½⌋` for EVERY `q` -/
theorem spec_round_toRat (q : Rat) :
    (Spec.round (.fin q)).toRat? = some (((q + (1 : Rat) / 2).floor : Int) : Rat) := by
  by_cases h : -(1 : Rat) / 2 ≤ q ∧ q < 0
  · rw [spec_round_negative_zero q h.1 h.2, floor_add_half_eq_zero_of_neg q h.1 h.2]
    rfl
  · rw [spec_round_outside q h]; rfl

/-- as a rational the code's `getRound` is "floor, plus one when the fraction says so" for EVERY `q` -/
theorem model_round_toRat (q : Rat) :
    (Model.round (.fin q)).toRat? =
      some (if (1 : Rat) / 2 < q - ((q.floor : Int) : Rat) ||
              (q - ((q.floor : Int) : Rat) == (1 : Rat) / 2 && 0 < q)
            then ((q.floor + 1 : Int) : Rat) else ((q.floor : Int) : Rat)) := by
  by_cases h : -(1 : Rat) / 2 < q ∧ q < 0
  · rw [model_round_negative_zero q h.1 h.2]
    have hf : q.floor = -1 := by
      apply floor_eq
      · show ((-1 : Int) : Rat) ≤ q
        have : ((-1 : Int) : Rat) = -1 := by decide +kernel
        rw [this]; grind
      · show q < ((-1 : Int) : Rat) + 1
        have : ((-1 : Int) : Rat) + 1 = 0 := by decide +kernel
        rw [this]; exact h.2
    rw [hf]
    have e1 : (((-1 : Int) : Rat)) = -1 := by decide +kernel
    have e2 : (((-1 + 1 : Int)) : Rat) = 0 := by decide +kernel
    have hd : (1 : Rat) / 2 < q - ((-1 : Int) : Rat) := by rw [e1]; grind
    simp only [hd, decide_true, Bool.true_or, if_true, e2]
    rfl
  · rw [model_round_outside q h]
    split <;> rfl

theorem round_partial (x : Num) (h : Spec.isNegativeTie x = false) : Model.round x = Spec.round x := by
  cases x with
  | fin q =>
    by_cases hlo : -(1 : Rat) / 2 < q ∧ q < 0
    · rw [model_round_negative_zero q hlo.1 hlo.2,
        spec_round_negative_zero q (Rat.le_of_lt hlo.1) hlo.2]
    · have hne : q ≠ -(1 : Rat) / 2 := by
        intro e; subst e
        revert h; decide +kernel
      have hlo' : ¬ (-(1 : Rat) / 2 ≤ q ∧ q < 0) := by grind
      rw [model_round_outside q hlo, spec_round_outside q hlo']
      simp only [floor_add_half]
      simp only [Spec.isNegativeTie, Bool.and_eq_false_iff, decide_eq_false_iff_not, beq_eq_false_iff_ne] at h
      have ⟨h1, h2⟩ := floor_bounds q
      have hz : q = 0 → q - ((q.floor : Int) : Rat) ≠ (1 : Rat) / 2 := by
        intro h; subst h; decide +kernel
      generalize q.floor = f at *
      by_cases hd : (1 : Rat) / 2 < q - (f : Rat)
      · have : (1 : Rat) / 2 ≤ q - (f : Rat) := Rat.le_of_lt hd
        simp [hd, this]
      · by_cases he : q - (f : Rat) = (1 : Rat) / 2
        · have hq : 0 < q := by
            rcases h with h | h
            · have : q ≠ 0 := fun h' => absurd he (hz h')
              grind
            · exact absurd he h
          simp [he, hq]
        · have : ¬ (1 : Rat) / 2 ≤ q - (f : Rat) := by grind
          simp [hd, he, this]
  | _ => rfl

end Xsel.NumL
