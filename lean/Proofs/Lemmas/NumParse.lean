/-
  Proofs/Lemmas/NumParse.lean — the XPath `Number` grammar and `strToNum` (used by C04).
-/
import Xsel.NumStr

namespace Xsel.NumL
open Xsel

/-! ### rounding never produces NaN -/

theorem rnd_ne_nan (q : Rat) : Num.rnd q ≠ .nan := by
  unfold Num.rnd
  dsimp only
  repeat' split
  all_goals simp

theorem neg_ne_nan (x : Num) (h : x ≠ .nan) : Num.neg x ≠ .nan := by
  cases x with
  | nan => exact absurd rfl h
  | fin q => simp only [Num.neg]; split <;> simp
  | _ => simp [Num.neg]

/-! ### the grammar -/

/-- `Digits ('.' Digits?)? | '.' Digits` (XPath 1.0 production [30] Number) -/
inductive UNumber : Chars → Prop
  | int (ds : Chars) : ds ≠ [] → (∀ c ∈ ds, isDigit c = true) → UNumber ds
  | dec (ds fr : Chars) : (∀ c ∈ ds, isDigit c = true) → (∀ c ∈ fr, isDigit c = true) →
      ¬ (ds = [] ∧ fr = []) → UNumber (ds ++ '.' :: fr)

/-- what `number()` accepts: optional XML white space, an optional minus sign, a Number,
    optional XML white space -/
def Grammar (s : Chars) : Prop :=
  ∃ ws1 sign body ws2 : Chars, s = ws1 ++ sign ++ body ++ ws2 ∧
    (∀ c ∈ ws1, isXmlSpace c = true) ∧ (∀ c ∈ ws2, isXmlSpace c = true) ∧
    (sign = [] ∨ sign = ['-']) ∧ UNumber body

theorem takeWhile_all {p : Char → Bool} (l : Chars) (h : ∀ c ∈ l, p c = true) :
    l.takeWhile p = l ∧ l.dropWhile p = [] := by
  have h1 := List.takeWhile_append_of_pos (p := p) (l₁ := l) (l₂ := []) h
  have h2 := List.dropWhile_append_of_pos (p := p) (l₁ := l) (l₂ := []) h
  simpa using And.intro h1 h2

theorem mem_takeWhile_imp {p : Char → Bool} (l : Chars) : ∀ c ∈ l.takeWhile p, p c = true := by
  induction l with
  | nil => simp
  | cons x t ih =>
    intro c hc
    by_cases hx : p x = true
    · rw [List.takeWhile_cons_of_pos hx] at hc
      rcases List.mem_cons.1 hc with h | h
      · subst h; exact hx
      · exact ih c h
    · rw [List.takeWhile_cons_of_neg hx] at hc
      simp at hc

theorem parseUnsigned_isSome_iff (s : Chars) : (parseUnsigned s).isSome = true ↔ UNumber s := by
  constructor
  · intro h
    have hs : s.takeWhile isDigit ++ s.dropWhile isDigit = s := List.takeWhile_append_dropWhile
    have hip := mem_takeWhile_imp (p := isDigit) s
    unfold parseUnsigned at h
    simp only [] at h
    split at h
    · rename_i hr
      rw [hr, List.append_nil] at hs
      split at h
      · simp at h
      · rename_i hne
        rw [← hs]
        exact .int _ (by simpa using hne) hip
    · rename_i fr hr
      rw [hr] at hs
      split at h
      · rename_i hc
        simp only [Bool.and_eq_true, List.all_eq_true, Bool.not_eq_true', Bool.and_eq_false_iff,
          List.isEmpty_eq_false_iff] at hc
        rw [← hs]
        refine .dec _ fr hip hc.1 ?_
        rintro ⟨h1, h2⟩
        rcases hc.2 with h' | h'
        · exact h' h1
        · exact h' h2
      · simp at h
    · simp at h
  · intro h
    cases h with
    | int ds hne hd =>
      have ⟨h1, h2⟩ := takeWhile_all (p := isDigit) s hd
      unfold parseUnsigned
      simp only [h1, h2]
      have : s.isEmpty = false := by simpa using hne
      simp [this]
    | dec ds fr hd hf hne =>
      have hdot : ¬ isDigit '.' = true := by decide
      have h1 : (ds ++ '.' :: fr).takeWhile isDigit = ds := by
        rw [List.takeWhile_append_of_pos hd, List.takeWhile_cons_of_neg hdot, List.append_nil]
      have h2 : (ds ++ '.' :: fr).dropWhile isDigit = '.' :: fr := by
        rw [List.dropWhile_append_of_pos hd, List.dropWhile_cons_of_neg hdot]
      unfold parseUnsigned
      simp only [h1, h2]
      have h3 : fr.all isDigit = true := by simpa [List.all_eq_true] using hf
      have h4 : (!(ds.isEmpty && fr.isEmpty)) = true := by
        cases ds <;> cases fr <;> simp_all
      simp [h3, h4]

/-! ### trimming -/

theorem trimXml_decomp (s : Chars) :
    ∃ ws1 ws2 : Chars, s = ws1 ++ trimXml s ++ ws2 ∧
      (∀ c ∈ ws1, isXmlSpace c = true) ∧ (∀ c ∈ ws2, isXmlSpace c = true) := by
  refine ⟨s.takeWhile isXmlSpace, ((trimLeft s).reverse.takeWhile isXmlSpace).reverse, ?_,
    mem_takeWhile_imp s, ?_⟩
  · have h1 : s.takeWhile isXmlSpace ++ trimLeft s = s := List.takeWhile_append_dropWhile
    have h2 : (trimLeft s).reverse.takeWhile isXmlSpace ++ (trimLeft s).reverse.dropWhile isXmlSpace
        = (trimLeft s).reverse := List.takeWhile_append_dropWhile
    have h3 : trimLeft s = trimXml s ++ ((trimLeft s).reverse.takeWhile isXmlSpace).reverse := by
      have := congrArg List.reverse h2
      rw [List.reverse_append, List.reverse_reverse] at this
      exact this.symm
    rw [List.append_assoc, ← h3, h1]
  · intro c hc
    exact mem_takeWhile_imp _ c (List.mem_reverse.1 hc)

/-- a core that neither starts nor ends with white space is what trimming leaves -/
theorem trimXml_of_core (ws1 core ws2 : Chars)
    (h1 : ∀ c ∈ ws1, isXmlSpace c = true) (h2 : ∀ c ∈ ws2, isXmlSpace c = true)
    (hh : ∀ c, core.head? = some c → isXmlSpace c = false)
    (hl : ∀ c, core.getLast? = some c → isXmlSpace c = false) (hne : core ≠ []) :
    trimXml (ws1 ++ core ++ ws2) = core := by
  have dropW : ∀ l : Chars, (∀ c, l.head? = some c → isXmlSpace c = false) → l.dropWhile isXmlSpace = l := by
    intro l hl
    cases l with
    | nil => rfl
    | cons x t => exact List.dropWhile_cons_of_neg (by simp [hl x rfl])
  unfold trimXml trimRight trimLeft
  rw [List.append_assoc, List.dropWhile_append_of_pos h1]
  rw [dropW (core ++ ws2)]
  · rw [List.reverse_append,
      List.dropWhile_append_of_pos (fun c hc => h2 c (List.mem_reverse.1 hc)),
      dropW core.reverse, List.reverse_reverse]
    intro c hc
    rw [List.head?_reverse] at hc
    exact hl c hc
  · intro c hc
    cases core with
    | nil => exact absurd rfl hne
    | cons x t => exact hh c (by simpa using hc)

theorem isDigit_not_space (c : Char) (h : isDigit c = true) : isXmlSpace c = false ∧ c ≠ '-' := by
  simp only [isDigit, Bool.and_eq_true, decide_eq_true_eq, Char.le_def, UInt32.le_iff_toNat_le] at h
  have h1 : 48 ≤ c.val.toNat := h.1
  have h2 : c.val.toNat ≤ 57 := h.2
  have key : ∀ d : Char, d.val.toNat < 48 → c ≠ d := by
    intro d hd e; subst e; omega
  refine ⟨?_, key '-' (by decide)⟩
  simp only [isXmlSpace, Bool.or_eq_false_iff, beq_eq_false_iff_ne]
  exact ⟨⟨⟨key ' ' (by decide), key '\t' (by decide)⟩, key '\r' (by decide)⟩, key '\n' (by decide)⟩

/-- a Number starts and ends with a digit or '.', never with white space or '-' -/
theorem UNumber_ends (b : Chars) (h : UNumber b) :
    b ≠ [] ∧ (∀ c, b.head? = some c → isXmlSpace c = false ∧ c ≠ '-') ∧
    (∀ c, b.getLast? = some c → isXmlSpace c = false) := by
  have dot : isXmlSpace '.' = false ∧ '.' ≠ '-' := by decide
  cases h with
  | int ds hne hd =>
    refine ⟨hne, ?_, ?_⟩
    · intro c hc; exact isDigit_not_space c (hd c (List.mem_of_head? hc))
    · intro c hc; exact (isDigit_not_space c (hd c (List.mem_of_getLast? hc))).1
  | dec ds fr hd hf hne =>
    refine ⟨by simp, ?_, ?_⟩
    · intro c hc
      cases ds with
      | nil => simp at hc; subst hc; exact dot
      | cons x t => simp at hc; subst hc; exact isDigit_not_space _ (hd _ (by simp))
    · intro c hc
      rw [List.getLast?_append] at hc
      cases hfr : fr.getLast? with
      | none =>
        have : fr = [] := List.getLast?_eq_none_iff.1 hfr
        subst this; simp at hc; subst hc; exact dot.1
      | some y =>
        have e : ('.' :: fr).getLast? = some y := by
          rw [List.getLast?_cons_of_ne_nil, hfr]
          intro h; subst h; simp at hfr
        rw [e] at hc; simp at hc; subst hc
        exact (isDigit_not_space _ (hf _ (List.mem_of_getLast? hfr))).1

theorem strToNum_nan_iff (s : Chars) : strToNum s = .nan ↔ ¬ Grammar s := by
  constructor
  · intro h ⟨ws1, sign, body, ws2, e, h1, h2, hs, hb⟩
    obtain ⟨bne, bh, bl⟩ := UNumber_ends body hb
    have hsome := (parseUnsigned_isSome_iff body).2 hb
    obtain ⟨q, hq⟩ := Option.isSome_iff_exists.1 hsome
    have htrim : trimXml s = sign ++ body := by
      subst e
      rw [List.append_assoc ws1 sign body]
      apply trimXml_of_core _ _ _ h1 h2
      · intro c hc
        rcases hs with hs | hs <;> subst hs
        · exact (bh c (by simpa using hc)).1
        · simp at hc; subst hc; decide
      · intro c hc
        rw [List.getLast?_append] at hc
        cases hbl : body.getLast? with
        | none => exact absurd (List.getLast?_eq_none_iff.1 hbl) bne
        | some y => rw [hbl] at hc; simp at hc; subst hc; exact bl _ hbl
      · rcases hs with hs | hs <;> subst hs <;> simp [bne]
    unfold strToNum at h
    rw [htrim] at h
    rcases hs with hs | hs <;> subst hs
    · simp only [List.nil_append] at h
      split at h
      · exact (bh '-' rfl).2 rfl
      · rw [hq] at h
        exact rnd_ne_nan q h
    · simp only [List.cons_append, List.nil_append, hq] at h
      exact neg_ne_nan _ (rnd_ne_nan q) h
  · intro hg
    obtain ⟨ws1, ws2, e, h1, h2⟩ := trimXml_decomp s
    unfold strToNum
    split
    · rename_i r hr
      cases hp : parseUnsigned r with
      | none => rfl
      | some q =>
        exfalso; apply hg
        refine ⟨ws1, ['-'], r, ws2, ?_, h1, h2, .inr rfl, (parseUnsigned_isSome_iff r).1 (by simp [hp])⟩
        rw [hr] at e; simpa using e
    · rename_i r hr
      cases hp : parseUnsigned (trimXml s) with
      | none => rfl
      | some q =>
        exfalso; apply hg
        refine ⟨ws1, [], trimXml s, ws2, ?_, h1, h2, .inl rfl,
          (parseUnsigned_isSome_iff _).1 (by simp [hp])⟩
        simpa using e

end Xsel.NumL
