/-
  Proofs/Lemmas/UnmBasic.lean — unfolding lemmas for the model of exec/unmarshal.go
  (`Unm.fill`, `Unm.fillFields`, `Unm.fillSlice`): one step of each function, in a shape that does
  not mention the internal pattern matching.
-/
import Xsel.Unmarshal

namespace Xsel
namespace Unm

variable (run : Nat → Expr → Except Err Val) (sv : Nat → Chars)

/-! ### helpers -/

/-- the value computed for a tagged field whose type, stripped of pointers, is `base` -/
def fieldVal (fuel : Nat) (base : GoTy) (res : Val) : Except UErr GoVal :=
  match base with
  | .scalar s => .ok (createValue sv s res)
  | .struct _ | .slice _ => fill run sv fuel base (zero base) res
  | _ => .error .unsupported

/-- the value computed for one element of a slice whose element type, stripped of pointers, is `base` -/
def elemVal (fuel : Nat) (base : GoTy) (n : Nat) : Except UErr GoVal :=
  match base with
  | .slice _ => .error .multiDim
  | .struct _ => fill run sv fuel base (zero base) (.nodes [n])
  | .scalar s => .ok (createValue sv s (.nodes [n]))
  | _ => .error .badElem

/-- current value of the first field / of the remaining fields -/
def curOf (ty : GoTy) : GoVals → GoVal
  | .cons v _ => v
  | .nil => zero ty
def othersOf : GoVals → GoVals
  | .cons _ vs => vs
  | .nil => .nil

/-- the current field values of a struct target -/
def valsOf (fs : GoFields) : GoVal → GoVals
  | .struct vals => vals
  | _ => zeroFields fs

/-- the current items of a slice target -/
def itemsOf : GoVal → GoVals
  | .slice it => it
  | _ => .nil

def GoVals.ofList : List GoVal → GoVals
  | [] => .nil
  | v :: vs => .cons v (GoVals.ofList vs)

def GoVals.toList : GoVals → List GoVal
  | .nil => []
  | .cons v vs => v :: GoVals.toList vs

theorem GoVals.toList_ofList : ∀ l : List GoVal, (GoVals.ofList l).toList = l
  | [] => rfl
  | v :: vs => by simp [GoVals.ofList, GoVals.toList, GoVals.toList_ofList vs]

theorem GoVals.toList_append : ∀ a b : GoVals, (a.append b).toList = a.toList ++ b.toList
  | .nil, b => rfl
  | .cons v vs, b => by simp [GoVals.append, GoVals.toList, GoVals.toList_append vs b]

theorem GoVals.append_nil : ∀ a : GoVals, a.append .nil = a
  | .nil => rfl
  | .cons v vs => by simp [GoVals.append, GoVals.append_nil vs]

theorem GoVals.append_assoc : ∀ a b c : GoVals, (a.append b).append c = a.append (b.append c)
  | .nil, _, _ => rfl
  | .cons v vs, b, c => by simp [GoVals.append, GoVals.append_assoc vs b c]

theorem GoVals.snoc_append (a : GoVals) (v : GoVal) (b : GoVals) :
    (a.snoc v).append b = a.append (.cons v b) := by
  simp [GoVals.snoc, GoVals.append_assoc, GoVals.append]

/-! ### `fill` -/

theorem fill_zero (ty : GoTy) (cur : GoVal) (res : Val) :
    fill run sv 0 ty cur res = .error .unsupported := by
  rw [fill.eq_def]

theorem fill_struct_one (fuel : Nat) (fs : GoFields) (cur : GoVal) (n : Nat) :
    fill run sv (fuel + 1) (.struct fs) cur (.nodes [n]) =
      (fillFields run sv fuel fs (valsOf fs cur) n).map .struct := by
  rw [fill.eq_def]
  cases cur <;> rfl

theorem fill_struct_notOne (fuel : Nat) (fs : GoFields) (cur : GoVal) (res : Val)
    (h : ∀ n, res ≠ .nodes [n]) :
    fill run sv (fuel + 1) (.struct fs) cur res = .error .notOneNode := by
  rw [fill.eq_def]
  simp only

theorem fill_slice_nodes (fuel : Nat) (et : GoTy) (cur : GoVal) (ns : List Nat) :
    fill run sv (fuel + 1) (.slice et) cur (.nodes ns) =
      (fillSlice run sv fuel et ns (itemsOf cur) true).map .slice := by
  rw [fill.eq_def]
  cases cur <;> rfl

theorem fill_slice_notNodes (fuel : Nat) (et : GoTy) (cur : GoVal) (res : Val)
    (h : ∀ ns, res ≠ .nodes ns) :
    fill run sv (fuel + 1) (.slice et) cur res = .error .notNodeSet := by
  rw [fill.eq_def]
  simp only

theorem fill_scalar (fuel : Nat) (s : Scalar) (cur : GoVal) (res : Val) :
    fill run sv fuel (.scalar s) cur res = .error .unsupported := by
  rw [fill.eq_def]; cases fuel <;> rfl

theorem fill_other (fuel : Nat) (cur : GoVal) (res : Val) :
    fill run sv fuel .other cur res = .error .unsupported := by
  rw [fill.eq_def]; cases fuel <;> rfl

theorem fill_ptr (fuel : Nat) (t : GoTy) (cur : GoVal) (res : Val) :
    fill run sv fuel (.ptr t) cur res = .error .unsupported := by
  rw [fill.eq_def]; cases fuel <;> rfl

/-! ### `fillFields` -/

theorem fillFields_nil (fuel : Nat) (vals : GoVals) (n : Nat) :
    fillFields run sv fuel .nil vals n = .ok .nil := by
  rw [fillFields.eq_def]

theorem fillFields_zero_cons (name : Chars) (ex : Bool) (tag : Option Expr) (bt : Bool) (ty : GoTy)
    (rest : GoFields) (vals : GoVals) (n : Nat) :
    fillFields run sv 0 (.cons name ex tag bt ty rest) vals n = .error .unsupported := by
  rw [fillFields.eq_def]

theorem fillFields_untagged (fuel : Nat) (name : Chars) (ex : Bool) (bt : Bool) (ty : GoTy)
    (rest : GoFields) (vals : GoVals) (n : Nat) :
    fillFields run sv (fuel + 1) (.cons name ex none bt ty rest) vals n =
      if bt then .error .badTag
      else (fillFields run sv fuel rest (othersOf vals) n).map (GoVals.cons (curOf ty vals)) := by
  rw [fillFields.eq_def]
  cases vals <;> rfl

theorem fillFields_query_error (fuel : Nat) (name : Chars) (ex : Bool) (e : Expr) (bt : Bool) (ty : GoTy)
    (rest : GoFields) (vals : GoVals) (n : Nat) (err : Err) (hr : run n e = .error err) :
    fillFields run sv (fuel + 1) (.cons name ex (some e) bt ty rest) vals n = .error .query := by
  rw [fillFields.eq_def]
  simp only [hr]

theorem fillFields_tagged (fuel : Nat) (name : Chars) (ex : Bool) (e : Expr) (bt : Bool) (ty : GoTy)
    (rest : GoFields) (vals : GoVals) (n : Nat) (res : Val) (hr : run n e = .ok res) :
    fillFields run sv (fuel + 1) (.cons name ex (some e) bt ty rest) vals n =
      match fieldVal run sv fuel (stripPtr ty).2 res with
      | .error err => .error err
      | .ok v =>
        if !ex then .error .notSettable
        else (fillFields run sv fuel rest (othersOf vals) n).map (GoVals.cons (wrapPtr (stripPtr ty).1 v)) := by
  rw [fillFields.eq_def]
  simp only [hr]
  cases vals <;> simp only [othersOf, fieldVal] <;> rfl

/-! ### `fillSlice` -/

theorem fillSlice_nil (fuel : Nat) (et : GoTy) (items : GoVals) (st : Bool) :
    fillSlice run sv fuel et [] items st = .ok items := by
  rw [fillSlice.eq_def]

theorem fillSlice_zero_cons (et : GoTy) (n : Nat) (ns : List Nat) (items : GoVals) (st : Bool) :
    fillSlice run sv 0 et (n :: ns) items st = .error .unsupported := by
  rw [fillSlice.eq_def]

theorem fillSlice_cons (fuel : Nat) (et : GoTy) (n : Nat) (ns : List Nat) (items : GoVals) (st : Bool) :
    fillSlice run sv (fuel + 1) et (n :: ns) items st =
      match elemVal run sv fuel (stripPtr et).2 n with
      | .error err => .error err
      | .ok v =>
        if !st then .error .notSettable
        else fillSlice run sv (fuel + 1) et ns (items.snoc (wrapPtr (stripPtr et).1 v)) st := by
  rw [fillSlice.eq_def]
  simp only [elemVal]
  rfl

end Unm
end Xsel
