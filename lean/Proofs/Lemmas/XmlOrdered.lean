/-
  Proofs/Lemmas/XmlOrdered.lean — C09 step (b): the event list of a document honours the Parser
  contract (`StoreL.Ordered`): in every element the namespace events come first, then the attribute
  events, then the children.  Holds for every abstract document (no well-formedness needed).
-/
import Proofs.Lemmas.XmlSpec
import Proofs.Lemmas.StoreOrd

namespace Xsel.XmlL
open Xsel Xsel.Xml Xsel.StoreL

/-- an event list that may follow anything (it starts with a child event, or is empty) -/
def ChildOK (evs : List Ev) : Prop := ∀ ph, orderedFrom ph evs = true

theorem ChildOK.nil : ChildOK [] := fun _ => rfl

theorem ChildOK.close {evs : List Ev} (h : ChildOK evs) : ChildOK (.close :: evs) := by
  intro ph; cases ph <;> simp only [orderedFrom, nextPhase] <;> exact h _

theorem ChildOK.text {evs : List Ev} (v : Chars) (h : ChildOK evs) : ChildOK (.text v :: evs) := by
  intro ph; cases ph <;> simp only [orderedFrom, nextPhase] <;> exact h _

theorem ChildOK.comment {evs : List Ev} (v : Chars) (h : ChildOK evs) :
    ChildOK (.comment v :: evs) := by
  intro ph; cases ph <;> simp only [orderedFrom, nextPhase] <;> exact h _

theorem ChildOK.pi {evs : List Ev} (t v : Chars) (h : ChildOK evs) : ChildOK (.pi t v :: evs) := by
  intro ph; cases ph <;> simp only [orderedFrom, nextPhase] <;> exact h _

theorem ordered_elem (ph : Phase) (u l : Chars) (evs : List Ev) :
    orderedFrom ph (.elem u l :: evs) = orderedFrom .ns evs := by
  cases ph <;> rfl

theorem ordered_ns (p u : Chars) (evs : List Ev) :
    orderedFrom .ns (.ns p u :: evs) = orderedFrom .ns evs := rfl

theorem ordered_decls (evs : List Ev) : ∀ decls : List (Chars × Chars),
    orderedFrom .ns (decls.map (fun pu => Ev.ns pu.1 pu.2) ++ evs) = orderedFrom .ns evs
  | [] => rfl
  | _ :: t => by rw [List.map_cons, List.cons_append, ordered_ns, ordered_decls evs t]

theorem ordered_attrs (sc : List (Chars × Chars)) (evs : List Ev) (h : ChildOK evs) :
    ∀ (attrs : List (Option Chars × Chars × Chars)) (ph : Phase), ph ≠ .child →
      orderedFrom ph (attrEvents sc attrs ++ evs) = true
  | [], ph, _ => h ph
  | _ :: t, ph, hp => by
    have ih := ordered_attrs sc evs h t .attr (by decide)
    cases ph
    · exact ih
    · exact ih
    · exact absurd rfl hp

mutual
theorem childOK_node (sc : List (Chars × Chars)) (n : XNode) (evs : List Ev) (h : ChildOK evs) :
    ChildOK (specEvents sc n ++ evs) :=
  match n with
  | .elem pfx loc decls attrs af kids => by
    intro ph
    simp only [specEvents, nsEvents, List.cons_append, List.append_assoc, ordered_elem, ordered_ns,
      ordered_decls]
    exact ordered_attrs _ _ (childOK_list _ kids _ h.close) attrs .ns (by decide)
  | .text segs => h.text _
  | .comment s => h.comment _
  | .pi t v => h.pi _ _
  | .xmldecl _ => h
  | .doctype => h
  | .ws _ => h
theorem childOK_list (sc : List (Chars × Chars)) (l : XNodes) (evs : List Ev) (h : ChildOK evs) :
    ChildOK (specEventsList sc l ++ evs) :=
  match l with
  | .nil => h
  | .cons n t => by
    rw [specEventsList, List.append_assoc]
    exact childOK_node sc n _ (childOK_list sc t evs h)
end

/-- (b) the event list of a document is `Ordered` -/
theorem docEvents_ordered (top : XNodes) : Ordered (docEvents top) := by
  have := childOK_list topScope top [] ChildOK.nil .ns
  rwa [List.append_nil] at this

end Xsel.XmlL
