/-
  Proofs/Lemmas/Tree.lean — facts about well-formed arenas (`wfb a = true`):
  T1 extraction of Prop-level facts from the decidable contract,
  T2 parent chains (`Spec.ancestors`, `Spec.anc`, `Model.ancestorsOrSelf`),
  T3 the descendant walker selects exactly the tree nodes below the cursor.
-/
import Xsel.WF
import Proofs.Lemmas.Cleanup

namespace Xsel.Tree
open Xsel Arena

/-! ## T1 extraction -/

theorem strictAsc_pairwise : ∀ {l : List Nat}, strictAsc l = true → l.Pairwise (· < ·)
  | [], _ => List.Pairwise.nil
  | [_], _ => by simp
  | x :: y :: t, h => by
    simp only [strictAsc, Bool.and_eq_true, decide_eq_true_eq] at h
    have ih := strictAsc_pairwise h.2
    refine List.pairwise_cons.mpr ⟨?_, ih⟩
    intro z hz
    rcases List.mem_cons.mp hz with rfl | hz'
    · exact h.1
    · have := (List.pairwise_cons.mp ih).1 z hz'
      omega

theorem allLt_iff {l m : List Nat} : allLt l m = true ↔ ∀ x ∈ l, ∀ y ∈ m, x < y := by
  simp [allLt]

/-- the per-cell clauses of the contract, as propositions -/
structure CellWF (a : Arena) (i : Nat) : Prop where
  nss_asc : (a.nss i).Pairwise (· < ·)
  attrs_asc : (a.attrs i).Pairwise (· < ·)
  kids_asc : (a.kids i).Pairwise (· < ·)
  nss_ok : ∀ j ∈ a.nss i, i < j ∧ j < a.size ∧ a.kind j = .ns ∧ a.parent j = i
  attrs_ok : ∀ j ∈ a.attrs i, i < j ∧ j < a.size ∧ a.kind j = .attr ∧ a.parent j = i
  kids_ok : ∀ j ∈ a.kids i,
    i < j ∧ j < a.size ∧ a.isTree j = true ∧ a.kind j ≠ .root ∧ a.parent j = i
  nss_lt_attrs : ∀ x ∈ a.nss i, ∀ y ∈ a.attrs i, x < y
  nss_lt_kids : ∀ x ∈ a.nss i, ∀ y ∈ a.kids i, x < y
  attrs_lt_kids : ∀ x ∈ a.attrs i, ∀ y ∈ a.kids i, x < y
  container : a.kind i = .root ∨ a.kind i = .elem ∨
    (a.nss i = [] ∧ a.attrs i = [] ∧ a.kids i = [])
  at_root : i = 0 → a.kind i = .root ∧ a.parent i = 0
  at_other : i ≠ 0 →
    a.kind i ≠ .root ∧ a.parent i < i
    ∧ (a.kind i = .ns → i ∈ a.nss (a.parent i))
    ∧ (a.kind i = .attr → i ∈ a.attrs (a.parent i))
    ∧ (a.isTree i = true → i ∈ a.kids (a.parent i))
    ∧ (a.parent i = i - 1 ∨ Spec.anc a (a.parent i) (i - 1) = true)

theorem size_pos {a : Arena} (h : wfb a = true) : 0 < a.size := by
  simp [wfb] at h; exact h.1

theorem wfCell_of {a : Arena} (h : wfb a = true) {i : Nat} (hi : i < a.size) :
    wfCell a i = true := by
  simp [wfb] at h; exact h.2 i hi

theorem cellWF_of_wfCell {a : Arena} {i : Nat} (h : wfCell a i = true) : CellWF a i := by
  unfold wfCell at h
  simp only [Bool.and_eq_true] at h
  obtain ⟨⟨⟨⟨⟨⟨⟨⟨⟨⟨h1, h2⟩, h3⟩, h4⟩, h5⟩, h6⟩, h7⟩, h8⟩, h9⟩, h10⟩, h11⟩ := h
  refine ⟨strictAsc_pairwise h1, strictAsc_pairwise h2, strictAsc_pairwise h3, ?_, ?_, ?_,
    allLt_iff.mp h7, allLt_iff.mp h8, allLt_iff.mp h9, ?_, ?_, ?_⟩
  · intro j hj
    have := List.all_eq_true.mp h4 j hj
    simpa [Bool.and_eq_true, and_assoc] using this
  · intro j hj
    have := List.all_eq_true.mp h5 j hj
    simpa [Bool.and_eq_true, and_assoc] using this
  · intro j hj
    have := List.all_eq_true.mp h6 j hj
    simpa [Bool.and_eq_true, and_assoc] using this
  · simpa [Arena.kind, Arena.nss, Arena.attrs, Arena.kids, or_assoc, and_assoc] using h10
  · intro hi
    subst hi
    simp at h11
    exact ⟨h11.1.1, h11.1.2⟩
  · intro hi
    have hi' : (i == 0) = false := by simpa using hi
    rw [hi'] at h11
    simp only [Bool.false_eq_true, if_false, Bool.and_eq_true] at h11
    obtain ⟨⟨⟨⟨k1, k2⟩, _⟩, k4⟩, k5⟩ := h11
    refine ⟨by simpa [Arena.kind] using k1, by simpa [Arena.parent] using k2, ?_, ?_, ?_, ?_⟩
    · intro hk
      have hk' : (a.cell i).kind = .ns := hk
      rw [hk'] at k4
      simpa [Arena.parent] using k4
    · intro hk
      have hk' : (a.cell i).kind = .attr := hk
      rw [hk'] at k4
      simpa [Arena.parent] using k4
    · intro hk
      have : (a.cell i).kind ≠ .ns ∧ (a.cell i).kind ≠ .attr := by
        simp [Arena.isTree, Arena.isAttrOrNs, Arena.kind] at hk
        constructor <;> intro e <;> simp [e] at hk
      revert k4
      cases hc : (a.cell i).kind <;> simp_all [Arena.parent]
    · simpa [Arena.parent] using k5

theorem cellWF {a : Arena} (h : wfb a = true) {i : Nat} (hi : i < a.size) : CellWF a i :=
  cellWF_of_wfCell (wfCell_of h hi)

/-! ### cells outside the arena are default cells -/

theorem cell_oob {a : Arena} {i : Nat} (hi : a.size ≤ i) : a.cell i = default := by
  simp [Arena.cell, Array.getD, Nat.not_lt.mpr hi]

theorem parent_oob {a : Arena} {i : Nat} (hi : a.size ≤ i) : a.parent i = 0 := by
  simp [Arena.parent, cell_oob hi]; rfl

theorem kids_oob {a : Arena} {i : Nat} (hi : a.size ≤ i) : a.kids i = [] := by
  simp [Arena.kids, cell_oob hi]; rfl

theorem attrs_oob {a : Arena} {i : Nat} (hi : a.size ≤ i) : a.attrs i = [] := by
  simp [Arena.attrs, cell_oob hi]; rfl

theorem nss_oob {a : Arena} {i : Nat} (hi : a.size ≤ i) : a.nss i = [] := by
  simp [Arena.nss, cell_oob hi]; rfl

theorem kind_oob {a : Arena} {i : Nat} (hi : a.size ≤ i) : a.kind i = .root := by
  simp [Arena.kind, cell_oob hi]; rfl

/-! ### the extracted facts, one lemma each -/

section
variable {a : Arena} (h : wfb a = true)
include h

theorem kind_zero : a.kind 0 = .root := ((cellWF h (size_pos h)).at_root rfl).1
theorem parent_zero : a.parent 0 = 0 := ((cellWF h (size_pos h)).at_root rfl).2

theorem isTree_zero : a.isTree 0 = true := by
  simp [Arena.isTree, Arena.isAttrOrNs, kind_zero h]

/-- the parent of every cell but the root has a smaller index (also outside the arena, where the
    parent of the default cell is 0) -/
theorem parent_lt {i : Nat} (hi : i ≠ 0) : a.parent i < i := by
  by_cases hr : i < a.size
  · exact ((cellWF h hr).at_other hi).2.1
  · rw [parent_oob (Nat.not_lt.mp hr)]; omega

theorem parent_le (i : Nat) : a.parent i ≤ i := by
  by_cases hi : i = 0
  · subst hi; rw [parent_zero h]; exact Nat.le_refl 0
  · exact Nat.le_of_lt (parent_lt h hi)

theorem parent_lt_size (i : Nat) : a.parent i < a.size := by
  by_cases hr : i < a.size
  · exact Nat.lt_of_le_of_lt (parent_le h i) hr
  · rw [parent_oob (Nat.not_lt.mp hr)]; exact size_pos h

theorem kind_ne_root {i : Nat} (hi : i ≠ 0) (hr : i < a.size) : a.kind i ≠ .root :=
  ((cellWF h hr).at_other hi).1

theorem mem_kids {i j : Nat} (hj : j ∈ a.kids i) :
    i < j ∧ j < a.size ∧ a.isTree j = true ∧ a.parent j = i := by
  by_cases hr : i < a.size
  · have := (cellWF h hr).kids_ok j hj
    exact ⟨this.1, this.2.1, this.2.2.1, this.2.2.2.2⟩
  · rw [kids_oob (Nat.not_lt.mp hr)] at hj; cases hj

theorem mem_attrs {i j : Nat} (hj : j ∈ a.attrs i) :
    i < j ∧ j < a.size ∧ a.kind j = .attr ∧ a.parent j = i := by
  by_cases hr : i < a.size
  · exact (cellWF h hr).attrs_ok j hj
  · rw [attrs_oob (Nat.not_lt.mp hr)] at hj; cases hj

theorem mem_nss {i j : Nat} (hj : j ∈ a.nss i) :
    i < j ∧ j < a.size ∧ a.kind j = .ns ∧ a.parent j = i := by
  by_cases hr : i < a.size
  · exact (cellWF h hr).nss_ok j hj
  · rw [nss_oob (Nat.not_lt.mp hr)] at hj; cases hj

theorem kids_sorted (i : Nat) : (a.kids i).Pairwise (· < ·) := by
  by_cases hr : i < a.size
  · exact (cellWF h hr).kids_asc
  · rw [kids_oob (Nat.not_lt.mp hr)]; exact List.Pairwise.nil

theorem attrs_sorted (i : Nat) : (a.attrs i).Pairwise (· < ·) := by
  by_cases hr : i < a.size
  · exact (cellWF h hr).attrs_asc
  · rw [attrs_oob (Nat.not_lt.mp hr)]; exact List.Pairwise.nil

theorem nss_sorted (i : Nat) : (a.nss i).Pairwise (· < ·) := by
  by_cases hr : i < a.size
  · exact (cellWF h hr).nss_asc
  · rw [nss_oob (Nat.not_lt.mp hr)]; exact List.Pairwise.nil

theorem attrs_lt_kids {i x y : Nat} (hx : x ∈ a.attrs i) (hy : y ∈ a.kids i) : x < y := by
  by_cases hr : i < a.size
  · exact (cellWF h hr).attrs_lt_kids x hx y hy
  · rw [kids_oob (Nat.not_lt.mp hr)] at hy; cases hy

theorem nss_lt_kids {i x y : Nat} (hx : x ∈ a.nss i) (hy : y ∈ a.kids i) : x < y := by
  by_cases hr : i < a.size
  · exact (cellWF h hr).nss_lt_kids x hx y hy
  · rw [kids_oob (Nat.not_lt.mp hr)] at hy; cases hy

theorem nss_lt_attrs {i x y : Nat} (hx : x ∈ a.nss i) (hy : y ∈ a.attrs i) : x < y := by
  by_cases hr : i < a.size
  · exact (cellWF h hr).nss_lt_attrs x hx y hy
  · rw [attrs_oob (Nat.not_lt.mp hr)] at hy; cases hy

/-- only the root and elements have namespace nodes, attributes or children -/
theorem container (i : Nat) :
    a.kind i = .root ∨ a.kind i = .elem ∨ (a.nss i = [] ∧ a.attrs i = [] ∧ a.kids i = []) := by
  by_cases hr : i < a.size
  · exact (cellWF h hr).container
  · exact Or.inl (kind_oob (Nat.not_lt.mp hr))

omit h in
theorem isTree_of_kind {i : Nat} (hk : a.kind i = .root ∨ a.kind i = .elem) :
    a.isTree i = true := by
  rcases hk with e | e <;> simp [Arena.isTree, Arena.isAttrOrNs, e]

/-- a tree node other than the root is listed among the children of its parent -/
theorem listed_kid {i : Nat} (hi : i ≠ 0) (hr : i < a.size) (ht : a.isTree i = true) :
    i ∈ a.kids (a.parent i) := ((cellWF h hr).at_other hi).2.2.2.2.1 ht

theorem listed_attr {i : Nat} (hr : i < a.size) (hk : a.kind i = .attr) :
    i ∈ a.attrs (a.parent i) := by
  have hi : i ≠ 0 := by
    intro e; subst e; rw [kind_zero h] at hk; cases hk
  exact ((cellWF h hr).at_other hi).2.2.2.1 hk

theorem listed_ns {i : Nat} (hr : i < a.size) (hk : a.kind i = .ns) :
    i ∈ a.nss (a.parent i) := by
  have hi : i ≠ 0 := by
    intro e; subst e; rw [kind_zero h] at hk; cases hk
  exact ((cellWF h hr).at_other hi).2.2.1 hk

/-- every cell but the root is listed by its parent, so the parent is the root or an element -/
theorem parent_kind {i : Nat} (hi : i ≠ 0) (hr : i < a.size) :
    a.kind (a.parent i) = .root ∨ a.kind (a.parent i) = .elem := by
  rcases container h (a.parent i) with e | e | ⟨e1, e2, e3⟩
  · exact Or.inl e
  · exact Or.inr e
  · exfalso
    cases hk : a.kind i with
    | ns => have := listed_ns h hr hk; rw [e1] at this; cases this
    | attr => have := listed_attr h hr hk; rw [e2] at this; cases this
    | _ =>
      have ht : a.isTree i = true := by simp [Arena.isTree, Arena.isAttrOrNs, hk]
      have := listed_kid h hi hr ht; rw [e3] at this; cases this

theorem parent_isTree {i : Nat} (hi : i ≠ 0) (hr : i < a.size) : a.isTree (a.parent i) = true :=
  isTree_of_kind (parent_kind h hi hr)

/-- attribute and namespace nodes have no children -/
theorem kids_of_attrOrNs {i : Nat} (hk : a.isAttrOrNs i = true) : a.kids i = [] := by
  rcases container h i with e | e | ⟨_, _, e3⟩
  · simp [Arena.isAttrOrNs, e] at hk
  · simp [Arena.isAttrOrNs, e] at hk
  · exact e3

/-- pre-order layout -/
theorem preorder {i : Nat} (hi : i ≠ 0) (hr : i < a.size) :
    a.parent i = i - 1 ∨ Spec.anc a (a.parent i) (i - 1) = true :=
  ((cellWF h hr).at_other hi).2.2.2.2.2

end

/-! ## T2 parent chains -/

open Spec in
theorem ancestors_zero (a : Arena) (f : Nat) : ancestors a f 0 = [] := by
  cases f <;> simp [ancestors]

/-- `appendAncestors` is the cursor followed by the specification's parent chain -/
theorem ancestorsOrSelf_eq (a : Arena) :
    ∀ f c, Model.ancestorsOrSelf a f c = c :: Spec.ancestors a f c
  | 0, c => by simp [Model.ancestorsOrSelf, Spec.ancestors]
  | f + 1, c => by
    by_cases hc : c = 0
    · simp [Model.ancestorsOrSelf, Spec.ancestors, hc]
    · simp [Model.ancestorsOrSelf, Spec.ancestors, hc, ancestorsOrSelf_eq a f]

section
variable {a : Arena} (h : wfb a = true)
include h

/-- the parent chain does not depend on the fuel once the fuel is at least the index -/
theorem ancestors_fuel : ∀ (f g j : Nat), j ≤ f → j ≤ g →
    Spec.ancestors a f j = Spec.ancestors a g j
  | 0, g, j, hf, _ => by
    have : j = 0 := by omega
    subst this; simp [ancestors_zero]
  | f + 1, 0, j, _, hg => by
    have : j = 0 := by omega
    subst this; simp [ancestors_zero]
  | f + 1, g + 1, j, hf, hg => by
    by_cases hj : j = 0
    · subst hj; simp [ancestors_zero]
    · have := parent_lt h hj
      simp only [Spec.ancestors, beq_iff_eq, hj, if_false]
      rw [ancestors_fuel f g (a.parent j) (by omega) (by omega)]

omit h in
theorem anc_zero_right (i : Nat) : Spec.anc a i 0 = false := by
  simp [Spec.anc, ancestors_zero]

/-- the recursive characterisation of "proper ancestor" -/
theorem anc_iff {i j : Nat} :
    Spec.anc a i j = true ↔ j ≠ 0 ∧ (a.parent j = i ∨ Spec.anc a i (a.parent j) = true) := by
  by_cases hj : j = 0
  · subst hj; simp [anc_zero_right]
  · have hs := size_pos h
    have hp := parent_lt_size h j
    obtain ⟨n, hn⟩ : ∃ n, a.size = n + 1 := ⟨a.size - 1, by omega⟩
    have e : Spec.ancestors a n (a.parent j) = Spec.ancestors a (n + 1) (a.parent j) :=
      ancestors_fuel h _ _ _ (by omega) (by omega)
    simp only [Spec.anc, hn, Spec.ancestors, beq_iff_eq, hj, if_false, List.contains_cons,
      Bool.or_eq_true, ne_eq, not_false_eq_true, true_and, e]
    constructor
    · rintro (e | e)
      · exact Or.inl e.symm
      · exact Or.inr e
    · rintro (e | e)
      · exact Or.inl e.symm
      · exact Or.inr e

theorem anc_parent {j : Nat} (hj : j ≠ 0) : Spec.anc a (a.parent j) j = true :=
  (anc_iff h).mpr ⟨hj, Or.inl rfl⟩

theorem anc_of_anc_parent {i j : Nat} (hj : j ≠ 0) (hp : Spec.anc a i (a.parent j) = true) :
    Spec.anc a i j = true :=
  (anc_iff h).mpr ⟨hj, Or.inr hp⟩

/-- an ancestor comes earlier in document order -/
theorem anc_lt {i : Nat} : ∀ {j : Nat}, Spec.anc a i j = true → i < j := by
  intro j
  induction j using Nat.strongRecOn with
  | ind j ih =>
    intro hij
    obtain ⟨hj, hc⟩ := (anc_iff h).mp hij
    have hp := parent_lt h hj
    rcases hc with e | e
    · omega
    · have := ih _ hp e; omega

theorem anc_irrefl (i : Nat) : Spec.anc a i i = false := by
  cases e : Spec.anc a i i with
  | false => rfl
  | true => have := anc_lt h e; omega

theorem anc_trans {i j : Nat} (hij : Spec.anc a i j = true) :
    ∀ {k : Nat}, Spec.anc a j k = true → Spec.anc a i k = true := by
  intro k
  induction k using Nat.strongRecOn with
  | ind k ih =>
    intro hjk
    obtain ⟨hk, hc⟩ := (anc_iff h).mp hjk
    rcases hc with e | e
    · exact anc_of_anc_parent h hk (e ▸ hij)
    · exact anc_of_anc_parent h hk (ih _ (parent_lt h hk) e)

/-- the root is a proper ancestor of every other cell -/
theorem root_anc : ∀ {j : Nat}, j ≠ 0 → Spec.anc a 0 j = true := by
  intro j
  induction j using Nat.strongRecOn with
  | ind j ih =>
    intro hj
    by_cases hp : a.parent j = 0
    · exact (anc_iff h).mpr ⟨hj, Or.inl hp⟩
    · exact anc_of_anc_parent h hj (ih _ (parent_lt h hj) hp)

/-- ancestors are in range -/
theorem anc_lt_size {i j : Nat} (hij : Spec.anc a i j = true) : i < a.size := by
  have := anc_lt h hij
  by_cases hr : j < a.size
  · omega
  · obtain ⟨hj, hc⟩ := (anc_iff h).mp hij
    rw [parent_oob (Nat.not_lt.mp hr)] at hc
    rcases hc with e | e
    · subst e; exact size_pos h
    · rw [anc_zero_right] at e; cases e

/-- a proper ancestor has a child, so it is the root or an element (hence a tree node) -/
theorem anc_kind {i : Nat} : ∀ {j : Nat}, j < a.size → Spec.anc a i j = true →
    a.kind i = .root ∨ a.kind i = .elem := by
  intro j
  induction j using Nat.strongRecOn with
  | ind j ih =>
    intro hr hij
    obtain ⟨hj, hc⟩ := (anc_iff h).mp hij
    rcases hc with e | e
    · exact e ▸ parent_kind h hj hr
    · have := parent_lt h hj
      exact ih _ this (by omega) e

theorem anc_isTree {i j : Nat} (hr : j < a.size) (hij : Spec.anc a i j = true) :
    a.isTree i = true := isTree_of_kind (anc_kind h hr hij)

omit h in
/-- the members of the parent chain are exactly the proper ancestors -/
theorem mem_ancestors {i j : Nat} : i ∈ Spec.ancestors a a.size j ↔ Spec.anc a i j = true := by
  simp [Spec.anc]

theorem ancestors_fuel_size {f j : Nat} (hj : j < a.size) (hf : j ≤ f) :
    Spec.ancestors a f j = Spec.ancestors a a.size j :=
  ancestors_fuel h _ _ _ hf (Nat.le_of_lt hj)

/-- top-down view of a chain: below a proper ancestor `i` of `j` there is a child of `i`
    that is `j` or an ancestor of `j` -/
theorem anc_child {i : Nat} : ∀ {j : Nat}, Spec.anc a i j = true →
    ∃ k, k ≠ 0 ∧ a.parent k = i ∧ (k = j ∨ Spec.anc a k j = true) := by
  intro j
  induction j using Nat.strongRecOn with
  | ind j ih =>
    intro hij
    obtain ⟨hj, hc⟩ := (anc_iff h).mp hij
    rcases hc with e | e
    · exact ⟨j, hj, e, Or.inl rfl⟩
    · obtain ⟨k, hk, hpk, hkj⟩ := ih _ (parent_lt h hj) e
      refine ⟨k, hk, hpk, Or.inr ?_⟩
      rcases hkj with e' | e'
      · exact e' ▸ anc_parent h hj
      · exact anc_of_anc_parent h hj e'

end

section
variable {a : Arena} (h : wfb a = true)
include h

/-- list-level unfolding of the full-fuel parent chain -/
theorem ancestors_cons {j : Nat} (hj : j ≠ 0) :
    Spec.ancestors a a.size j = a.parent j :: Spec.ancestors a a.size (a.parent j) := by
  have hs := size_pos h
  have hp := parent_lt_size h j
  obtain ⟨n, hn⟩ : ∃ n, a.size = n + 1 := ⟨a.size - 1, by omega⟩
  have e : Spec.ancestors a n (a.parent j) = Spec.ancestors a (n + 1) (a.parent j) :=
    ancestors_fuel h _ _ _ (by omega) (by omega)
  simp only [hn, Spec.ancestors, beq_iff_eq, hj, if_false, e]

/-- the parent chain of every cell but the root ends at the root -/
theorem ancestors_getLast : ∀ {j : Nat}, j ≠ 0 →
    (Spec.ancestors a a.size j).getLast? = some 0 := by
  intro j
  induction j using Nat.strongRecOn with
  | ind j ih =>
    intro hj
    rw [ancestors_cons h hj]
    by_cases hp : a.parent j = 0
    · rw [hp, ancestors_zero]; rfl
    · have := ih _ (parent_lt h hj) hp
      rw [ancestors_cons h hp] at this ⊢
      simpa [List.getLast?_cons_cons] using this

/-- the parent chain is strictly descending -/
theorem ancestors_desc : ∀ (j : Nat), (Spec.ancestors a a.size j).Pairwise (· > ·) := by
  intro j
  induction j using Nat.strongRecOn with
  | ind j ih =>
    by_cases hj : j = 0
    · subst hj; rw [ancestors_zero]; exact List.Pairwise.nil
    · rw [ancestors_cons h hj]
      refine List.pairwise_cons.mpr ⟨?_, ih _ (parent_lt h hj)⟩
      intro x hx
      exact anc_lt h ((mem_ancestors).mp hx)

/-! ## T3 descendants -/

omit h in
theorem mem_descendants_succ {f c j : Nat} :
    j ∈ Model.descendants a (f + 1) c ↔ ∃ k ∈ a.kids c, j = k ∨ j ∈ Model.descendants a f k := by
  simp [Model.descendants, List.mem_flatMap]

theorem descendants_sound : ∀ (f c j : Nat), j ∈ Model.descendants a f c →
    a.isTree j = true ∧ Spec.anc a c j = true ∧ j < a.size
  | 0, c, j, hj => by simp [Model.descendants] at hj
  | f + 1, c, j, hj => by
    obtain ⟨k, hk, hjk⟩ := mem_descendants_succ.mp hj
    obtain ⟨hck, hks, hkt, hkp⟩ := mem_kids h hk
    have hk0 : k ≠ 0 := by omega
    have hck' : Spec.anc a c k = true := hkp ▸ anc_parent h hk0
    rcases hjk with e | e
    · subst e; exact ⟨hkt, hck', hks⟩
    · obtain ⟨h1, h2, h3⟩ := descendants_sound f k j e
      exact ⟨h1, anc_trans h hck' h2, h3⟩

omit h in
/-- the walker's result is closed under taking children (with one more unit of fuel) -/
theorem descendants_kid : ∀ (f c p j : Nat), p ∈ Model.descendants a f c → j ∈ a.kids p →
    j ∈ Model.descendants a (f + 1) c
  | 0, c, p, j, hp, _ => by simp [Model.descendants] at hp
  | f + 1, c, p, j, hp, hj => by
    obtain ⟨k, hk, hpk⟩ := mem_descendants_succ.mp hp
    refine mem_descendants_succ.mpr ⟨k, hk, Or.inr ?_⟩
    rcases hpk with e | e
    · subst e
      exact mem_descendants_succ.mpr ⟨j, hj, Or.inl rfl⟩
    · exact descendants_kid f k p j e hj

theorem descendants_complete {c : Nat} : ∀ (j f : Nat), j ≤ c + f → j < a.size →
    a.isTree j = true → Spec.anc a c j = true → j ∈ Model.descendants a f c := by
  intro j
  induction j using Nat.strongRecOn with
  | ind j ih =>
    intro f hf hr ht hcj
    obtain ⟨hj, hc⟩ := (anc_iff h).mp hcj
    have hcl := anc_lt h hcj
    obtain ⟨f', rfl⟩ : ∃ f', f = f' + 1 := ⟨f - 1, by omega⟩
    have hlist := listed_kid h hj hr ht
    rcases hc with e | e
    · exact mem_descendants_succ.mpr ⟨j, e ▸ hlist, Or.inl rfl⟩
    · have hp := parent_lt h hj
      have := ih (a.parent j) hp f' (by omega) (by omega) (parent_isTree h hj hr) e
      exact descendants_kid _ _ _ _ this hlist

/-- every member of the parent chain of `j` is smaller than `j` and lies in the arena -/
theorem ancestors_lt {i j : Nat} (hm : i ∈ Spec.ancestors a a.size j) : i < j ∧ i < a.size :=
  ⟨anc_lt h (mem_ancestors.mp hm), anc_lt_size h (mem_ancestors.mp hm)⟩

omit h in
/-- more fuel never loses descendants -/
theorem descendants_mono : ∀ (f c j : Nat), j ∈ Model.descendants a f c →
    j ∈ Model.descendants a (f + 1) c
  | 0, c, j, hj => by simp [Model.descendants] at hj
  | f + 1, c, j, hj => by
    obtain ⟨k, hk, hjk⟩ := mem_descendants_succ.mp hj
    refine mem_descendants_succ.mpr ⟨k, hk, ?_⟩
    rcases hjk with e | e
    · exact Or.inl e
    · exact Or.inr (descendants_mono f k j e)

/-- T3: the descendant walker selects exactly the tree nodes that have the cursor as a
    proper ancestor -/
theorem mem_descendants {c j : Nat} :
    j ∈ Model.descendants a a.size c ↔
      (a.isTree j = true ∧ Spec.anc a c j = true ∧ j < a.size) := by
  constructor
  · exact descendants_sound h _ _ _
  · rintro ⟨ht, hc, hr⟩
    exact descendants_complete h j _ (by omega) hr ht hc

end

end Xsel.Tree
