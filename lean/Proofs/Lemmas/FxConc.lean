/-
  Proofs/Lemmas/FxConc.lean — several threads run node-set operations on ONE heap, over shared
  inputs.  Every interleaving gives each operation the value it has when its thread runs alone;
  no array is written by one thread and read or written by another.
-/
import Proofs.Lemmas.FxOps

namespace Xsel
namespace Effects

/-- `zs` is a merge of `xs` and `ys` that keeps the order inside each -/
inductive Interleaving {α : Type} : List α → List α → List α → Prop
  | nil : Interleaving [] [] []
  | left {x xs ys zs} : Interleaving xs ys zs → Interleaving (x :: xs) ys (x :: zs)
  | right {y xs ys zs} : Interleaving xs ys zs → Interleaving xs (y :: ys) (y :: zs)

theorem Interleaving.map {α β : Type} (f : α → β) {xs ys zs : List α} (h : Interleaving xs ys zs) :
    Interleaving (xs.map f) (ys.map f) (zs.map f) := by
  induction h with
  | nil => exact .nil
  | left _ ih => exact .left ih
  | right _ ih => exact .right ih

theorem Interleaving.mem {α : Type} {xs ys zs : List α} (h : Interleaving xs ys zs) (a : α) :
    a ∈ zs ↔ a ∈ xs ∨ a ∈ ys := by
  induction h with
  | nil => simp
  | left _ ih => simp [ih, or_assoc]
  | right _ ih => simp [ih]; constructor <;> (rintro (h | h | h) <;> simp [h])

/-! ### part 1: operations over shared inputs only -/

/-- run operations one after the other on one heap; the slices returned, in order -/
def runList : Heap → List Op → Heap × List Slice
  | h, [] => (h, [])
  | h, o :: os => ((runList (o.run h).1 os).1, (o.run h).2 :: (runList (o.run h).1 os).2)

/-- what the returned slices show at the end -/
def vals (h : Heap) (os : List Op) : List (List Nat) :=
  (runList h os).2.map (read (runList h os).1)

theorem runList_frame (h : Heap) (os : List Op) : Frame h.size h (runList h os).1 := by
  induction os generalizing h with
  | nil => exact Frame.refl _ _
  | cons o os ih =>
    have a := o.run_frame h
    exact a.trans ((ih _).mono a.1)

/-- operands are slices of the shared initial heap -/
def SharedOnly (h0 : Heap) (os : List Op) : Prop := ∀ o ∈ os, o.inHeap h0

/-- on any heap that extends the shared one, in any position of any sequence, an operation over
    shared inputs returns the value it denotes on the shared heap -/
theorem vals_eq {h0 h : Heap} (a : Frame h0.size h0 h) (os : List Op) (hs : SharedOnly h0 os) :
    vals h os = os.map (Op.value h0) := by
  induction os generalizing h with
  | nil => rfl
  | cons o os ih =>
    have ho : o.inHeap h0 := hs o (by simp)
    have b := o.run_frame h
    have ih' := ih (a.trans (b.mono a.1)) (fun o' ho' => hs o' (by simp [ho']))
    simp only [vals, runList, List.map_cons] at ih' ⊢
    rw [ih', (runList_frame _ os).read (o.run_valid h).1, Op.run_read (Op.inHeap_frame a ho),
      Op.value_frame a ho]

/-- **interleaving_eq_serial** (shared inputs): pairing each operation with the value of its result,
    the interleaved run is the same merge of the two runs in which each thread is alone on `h0`;
    and the arrays of `h0` are unchanged -/
theorem interleaving_eq_serial_shared (h0 : Heap) {xs ys zs : List Op} (hi : Interleaving xs ys zs)
    (hx : SharedOnly h0 xs) (hy : SharedOnly h0 ys) :
    Interleaving (xs.zip (vals h0 xs)) (ys.zip (vals h0 ys)) (zs.zip (vals h0 zs)) ∧
    (∀ id, id < h0.size → (runList h0 zs).1.arrD id = h0.arrD id) := by
  have hz : SharedOnly h0 zs := fun o ho => by
    rcases (hi.mem o).mp ho with h | h
    · exact hx o h
    · exact hy o h
  refine ⟨?_, (runList_frame h0 zs).2⟩
  rw [vals_eq (Frame.refl _ _) xs hx, vals_eq (Frame.refl _ _) ys hy, vals_eq (Frame.refl _ _) zs hz]
  have e : ∀ l : List Op, l.zip (l.map (Op.value h0)) = l.map (fun o => (o, o.value h0)) := by
    intro l; induction l with
    | nil => rfl
    | cons a l ih => simp [ih]
  rw [e, e, e]
  exact hi.map _

/-- any number of threads: whatever sequence of operations over shared inputs reaches the heap,
    each returns the value it denotes on `h0` -/
theorem any_schedule_shared (h0 : Heap) (zs : List Op) (hz : SharedOnly h0 zs) :
    vals h0 zs = zs.map (Op.value h0) ∧
    (∀ id, id < h0.size → (runList h0 zs).1.arrD id = h0.arrD id) :=
  ⟨vals_eq (Frame.refl _ _) zs hz, (runList_frame h0 zs).2⟩

/-! ### accesses -/

/-- the arrays an operation may write when run on `h`: exactly those it allocates -/
def writeSet (o : Op) (h : Heap) (id : Nat) : Prop := h.size ≤ id ∧ id < (o.run h).1.size

/-- the arrays an operation may read: its operands' arrays and those it allocates -/
def accessSet (o : Op) (h : Heap) (id : Nat) : Prop :=
  (∃ s ∈ o.operands, s.arr = id) ∨ writeSet o h id

/-- `writeSet` is sound: every array whose content differs afterwards is in it -/
theorem written_in_writeSet (o : Op) (h : Heap) (id : Nat)
    (hne : (o.run h).1.arrD id ≠ h.arrD id) : writeSet o h id := by
  have a := o.run_frame h
  refine ⟨Nat.le_of_not_lt (fun hlt => hne (a.2 id hlt)), ?_⟩
  apply Nat.lt_of_not_le
  intro hge
  apply hne
  have h1 : (o.run h).1.arrD id = #[] := by
    rw [arrD_eq, Array.getElem?_eq_none hge]; rfl
  have h2 : h.arrD id = #[] := by
    rw [arrD_eq, Array.getElem?_eq_none (Nat.le_trans a.1 hge)]; rfl
  rw [h1, h2]

/-- **no_conflicting_access.**  `o1` runs on heap `h1`, `o2` runs later (on a heap `h2` at least as
    large as the one `o1` left), both over inputs that existed before `o1` ran (`< h1.size`):
    no array is written by one and read or written by the other. -/
theorem no_conflicting_access (o1 o2 : Op) (h1 h2 : Heap)
    (hlater : (o1.run h1).1.size ≤ h2.size)
    (hin1 : o1.inHeap h1) (hin2 : o2.inHeap h1) (id : Nat) :
    ¬ (writeSet o1 h1 id ∧ accessSet o2 h2 id) ∧ ¬ (writeSet o2 h2 id ∧ accessSet o1 h1 id) := by
  constructor
  · rintro ⟨⟨w1, w2⟩, ⟨s, hs, rfl⟩ | ⟨a1, _⟩⟩
    · have := hin2 s hs; omega
    · omega
  · rintro ⟨⟨w1, w2⟩, ⟨s, hs, rfl⟩ | ⟨a1, a2⟩⟩
    · have := hin1 s hs; have := (o1.run_frame h1).1; omega
    · omega

/-- in a sequential execution the heap an operation sees is at least as large as the heap any
    earlier operation left -/
theorem runList_later (h : Heap) (pre : List Op) (o1 : Op) (mid : List Op) :
    (o1.run (runList h pre).1).1.size ≤ (runList h (pre ++ o1 :: mid)).1.size := by
  induction pre generalizing h with
  | nil => exact (runList_frame _ mid).1
  | cons p pre ih => exact ih _

theorem runList_append_heap (h : Heap) (pre post : List Op) :
    (runList h (pre ++ post)).1 = (runList (runList h pre).1 post).1 := by
  induction pre generalizing h with
  | nil => rfl
  | cons p pre ih => exact ih _

/-- `no_conflicting_access` inside one interleaved execution `pre ++ o1 :: mid ++ o2 :: post` from
    `h0`, operations over shared inputs -/
theorem no_conflicting_access_run (h0 : Heap) (pre : List Op) (o1 : Op) (mid : List Op) (o2 : Op)
    (hin1 : o1.inHeap h0) (hin2 : o2.inHeap h0) (id : Nat) :
    let h1 := (runList h0 pre).1
    let h2 := (runList h0 (pre ++ o1 :: mid)).1
    ¬ (writeSet o1 h1 id ∧ accessSet o2 h2 id) ∧ ¬ (writeSet o2 h2 id ∧ accessSet o1 h1 id) := by
  intro h1 h2
  have f := runList_frame h0 pre
  exact no_conflicting_access o1 o2 h1 h2 (runList_later h0 pre o1 mid)
    (Op.inHeap_frame f hin1) (Op.inHeap_frame f hin2) id

end Effects
end Xsel
