/-
  Proofs/Lemmas/UnmProps.lean — properties of the Unmarshal model: which targets/results are
  errors, what each kind of field receives, slices in result order, pointer wrapping.
-/
import Proofs.Lemmas.UnmBasic

namespace Xsel
namespace Unm

variable (run : Nat → Expr → Except Err Val) (sv : Nat → Chars)

theorem map_ok_inv {α β : Type} {f : α → β} {x : Except UErr α} {b : β}
    (h : x.map f = .ok b) : ∃ a, x = .ok a ∧ f a = b := by
  cases x with
  | error e => simp [Except.map] at h
  | ok a => exact ⟨a, rfl, by simpa [Except.map] using h⟩

/-! ### pointers -/

/-- remove `k` pointer layers, if they are there (and none of them is nil) -/
def peel : Nat → GoVal → Option GoVal
  | 0, v => some v
  | k + 1, .ptr v => peel k v
  | _ + 1, _ => none

/-- `wrapPtr k v` is `v` behind exactly `k` non-nil pointers -/
theorem peel_wrapPtr : ∀ (k : Nat) (v : GoVal), peel k (wrapPtr k v) = some v
  | 0, _ => rfl
  | k + 1, v => by simp [wrapPtr, peel, peel_wrapPtr k v]

theorem wrapPtr_succ_ne_nil (k : Nat) (v : GoVal) : wrapPtr (k + 1) v ≠ .nilPtr := by
  simp [wrapPtr]

theorem wrapPtr_injective : ∀ (k : Nat) {v w : GoVal}, wrapPtr k v = wrapPtr k w → v = w
  | 0, _, _, h => h
  | k + 1, _, _, h => by
    simp only [wrapPtr, GoVal.ptr.injEq] at h
    exact wrapPtr_injective k h

/-- `k` pointer layers around a type -/
def ptrTy : Nat → GoTy → GoTy
  | 0, t => t
  | k + 1, t => .ptr (ptrTy k t)

def isPtrTy : GoTy → Bool
  | .ptr _ => true
  | _ => false

theorem stripPtr_of_nonptr {t : GoTy} (h : isPtrTy t = false) : stripPtr t = (0, t) := by
  cases t <;> first | rfl | simp [isPtrTy] at h

theorem stripPtr_ptrTy : ∀ (k : Nat) {t : GoTy}, isPtrTy t = false → stripPtr (ptrTy k t) = (k, t)
  | 0, _, h => stripPtr_of_nonptr h
  | k + 1, _, h => by simp [ptrTy, stripPtr, stripPtr_ptrTy k h]

/-- the base of a type is never a pointer type, and the type is the base behind the counted layers -/
theorem stripPtr_spec : ∀ t : GoTy,
    isPtrTy (stripPtr t).2 = false ∧ t = ptrTy (stripPtr t).1 (stripPtr t).2 ∧
    tySize t = tySize (stripPtr t).2 + (stripPtr t).1
  | .ptr t => by
    obtain ⟨a, b, c⟩ := stripPtr_spec t
    refine ⟨by simpa [stripPtr] using a, ?_, ?_⟩
    · simp only [stripPtr, ptrTy]; rw [← b]
    · simp only [stripPtr, tySize]; omega
  | .scalar _ => ⟨rfl, rfl, rfl⟩
  | .slice _ => ⟨rfl, rfl, rfl⟩
  | .struct _ => ⟨rfl, rfl, rfl⟩
  | .other => ⟨rfl, rfl, rfl⟩

/-! ### targets that cannot be filled, results of the wrong shape -/

theorem unmarshal_nil (res : Val) : unmarshal run sv .nilIface res = .error .nilTarget := rfl

theorem unmarshal_nil_pointer (k j : Nat) (ty : GoTy) (cur : GoVal) (res : Val) :
    unmarshal run sv (.val k (some j) ty cur) res = .error .notPointer := rfl

theorem unmarshal_struct_by_value (fs : GoFields) (cur : GoVal) (res : Val) :
    unmarshal run sv (.val 0 none (.struct fs) cur) res = .error .notPointer := rfl

theorem unmarshal_scalar (k : Nat) (s : Scalar) (cur : GoVal) (res : Val) :
    unmarshal run sv (.val k none (.scalar s) cur) res = .error .unsupported := rfl

theorem unmarshal_other (k : Nat) (cur : GoVal) (res : Val) :
    unmarshal run sv (.val k none .other cur) res = .error .unsupported := rfl

theorem unmarshal_slice_not_nodeset (k : Nat) (et : GoTy) (cur : GoVal) (res : Val)
    (h : ∀ ns, res ≠ .nodes ns) :
    unmarshal run sv (.val k none (.slice et) cur) res = .error .notNodeSet := by
  cases res with
  | nodes ns => exact absurd rfl (h ns)
  | _ => rfl

theorem unmarshal_struct_eq (k : Nat) (fs : GoFields) (cur : GoVal) (res : Val) :
    unmarshal run sv (.val (k + 1) none (.struct fs) cur) res =
      fill run sv (2 * tySize (.struct fs) + 4) (.struct fs) cur res := rfl

theorem unmarshal_slice_eq (k : Nat) (et : GoTy) (cur : GoVal) (ns : List Nat) :
    unmarshal run sv (.val k none (.slice et) cur) (.nodes ns) =
      (fillSlice run sv (2 * tySize (.slice et) + 4) et ns (itemsOf cur) (k != 0)).map .slice := by
  cases cur <;> rfl

theorem unmarshal_struct_not_one_node (k : Nat) (fs : GoFields) (cur : GoVal) (res : Val)
    (h : ∀ n, res ≠ .nodes [n]) :
    unmarshal run sv (.val (k + 1) none (.struct fs) cur) res = .error .notOneNode := by
  rw [unmarshal_struct_eq]
  exact fill_struct_notOne run sv _ fs cur res h

/-! ### fields -/

/-- an untagged field keeps its current value -/
theorem untagged_untouched (fuel : Nat) (name : Chars) (ex : Bool) (ty : GoTy) (rest : GoFields)
    (cur : GoVal) (others : GoVals) (n : Nat) (v : GoVal) (vs : GoVals)
    (h : fillFields run sv fuel (.cons name ex none false ty rest) (.cons cur others) n = .ok (.cons v vs)) :
    v = cur ∧ fillFields run sv (fuel - 1) rest others n = .ok vs := by
  cases fuel with
  | zero => rw [fillFields_zero_cons] at h; cases h
  | succ fuel =>
    rw [fillFields_untagged] at h
    simp only [Bool.false_eq_true, if_false] at h
    obtain ⟨a, ha, e⟩ := map_ok_inv h
    simp only [curOf, GoVals.cons.injEq] at e
    exact ⟨e.1.symm, by simpa [othersOf, e.2] using ha⟩

/-- the same when the struct value was not given (the field starts from its zero value) -/
theorem untagged_untouched_zero (fuel : Nat) (name : Chars) (ex : Bool) (ty : GoTy) (rest : GoFields)
    (n : Nat) (v : GoVal) (vs : GoVals)
    (h : fillFields run sv fuel (.cons name ex none false ty rest) .nil n = .ok (.cons v vs)) :
    v = zero ty := by
  cases fuel with
  | zero => rw [fillFields_zero_cons] at h; cases h
  | succ fuel =>
    rw [fillFields_untagged] at h
    simp only [Bool.false_eq_true, if_false] at h
    obtain ⟨a, _, e⟩ := map_ok_inv h
    simp only [curOf, GoVals.cons.injEq] at e
    exact e.1.symm

theorem bad_tag_is_error (fuel : Nat) (name : Chars) (ex : Bool) (ty : GoTy) (rest : GoFields)
    (vals : GoVals) (n : Nat) :
    fillFields run sv (fuel + 1) (.cons name ex none true ty rest) vals n = .error .badTag := by
  rw [fillFields_untagged]; rfl

theorem query_error_is_error (fuel : Nat) (name : Chars) (ex : Bool) (e : Expr) (bt : Bool) (ty : GoTy)
    (rest : GoFields) (vals : GoVals) (n : Nat) (err : Err) (hr : run n e = .error err) :
    fillFields run sv (fuel + 1) (.cons name ex (some e) bt ty rest) vals n = .error .query :=
  fillFields_query_error run sv fuel name ex e bt ty rest vals n err hr

/-- an exported tagged field of scalar kind behind `k` pointers -/
theorem scalar_field_value (fuel : Nat) (name : Chars) (e : Expr) (bt : Bool) (ty : GoTy)
    (rest : GoFields) (vals : GoVals) (n : Nat) (res : Val) (k : Nat) (s : Scalar)
    (hr : run n e = .ok res) (hty : stripPtr ty = (k, .scalar s)) :
    fillFields run sv (fuel + 1) (.cons name true (some e) bt ty rest) vals n =
      (fillFields run sv fuel rest (othersOf vals) n).map
        (GoVals.cons (wrapPtr k (createValue sv s res))) := by
  rw [fillFields_tagged run sv fuel name true e bt ty rest vals n res hr, hty]
  rfl

/-- an exported tagged field of struct or slice kind behind `k` pointers: filled recursively from
    the zero value of its base type, with the result of the tag -/
theorem composite_field_value (fuel : Nat) (name : Chars) (e : Expr) (bt : Bool) (ty : GoTy)
    (rest : GoFields) (vals : GoVals) (n : Nat) (res : Val) (k : Nat) (base : GoTy) (v : GoVal)
    (hr : run n e = .ok res) (hty : stripPtr ty = (k, base))
    (hb : (∃ fs, base = .struct fs) ∨ (∃ et, base = .slice et))
    (hv : fill run sv fuel base (zero base) res = .ok v) :
    fillFields run sv (fuel + 1) (.cons name true (some e) bt ty rest) vals n =
      (fillFields run sv fuel rest (othersOf vals) n).map (GoVals.cons (wrapPtr k v)) := by
  rw [fillFields_tagged run sv fuel name true e bt ty rest vals n res hr, hty]
  have : fieldVal run sv fuel base res = .ok v := by
    rcases hb with ⟨fs, rfl⟩ | ⟨et, rfl⟩ <;> simpa [fieldVal] using hv
  simp only [this]
  rfl

/-- … and when the recursive fill fails, so does the whole struct, with that error -/
theorem composite_field_error (fuel : Nat) (name : Chars) (ex : Bool) (e : Expr) (bt : Bool) (ty : GoTy)
    (rest : GoFields) (vals : GoVals) (n : Nat) (res : Val) (k : Nat) (base : GoTy) (err : UErr)
    (hr : run n e = .ok res) (hty : stripPtr ty = (k, base))
    (hb : (∃ fs, base = .struct fs) ∨ (∃ et, base = .slice et))
    (hv : fill run sv fuel base (zero base) res = .error err) :
    fillFields run sv (fuel + 1) (.cons name ex (some e) bt ty rest) vals n = .error err := by
  rw [fillFields_tagged run sv fuel name ex e bt ty rest vals n res hr, hty]
  have : fieldVal run sv fuel base res = .error err := by
    rcases hb with ⟨fs, rfl⟩ | ⟨et, rfl⟩ <;> simpa [fieldVal] using hv
  simp only [this]

/-- a tagged field whose base type is a map, array, chan, … -/
theorem unsupported_field_is_error (fuel : Nat) (name : Chars) (ex : Bool) (e : Expr) (bt : Bool) (ty : GoTy)
    (rest : GoFields) (vals : GoVals) (n : Nat) (res : Val) (k : Nat)
    (hr : run n e = .ok res) (hty : stripPtr ty = (k, .other)) :
    fillFields run sv (fuel + 1) (.cons name ex (some e) bt ty rest) vals n = .error .unsupported := by
  rw [fillFields_tagged run sv fuel name ex e bt ty rest vals n res hr, hty]
  rfl

/-- an unexported field with a tag makes the whole call fail, whatever the fuel, tag and type -/
theorem unexported_tagged_is_error (fuel : Nat) (name : Chars) (e : Expr) (bt : Bool) (ty : GoTy)
    (rest : GoFields) (vals : GoVals) (n : Nat) :
    ∃ err, fillFields run sv fuel (.cons name false (some e) bt ty rest) vals n = .error err := by
  cases fuel with
  | zero => exact ⟨_, fillFields_zero_cons run sv _ _ _ _ _ _ _ _⟩
  | succ fuel =>
    cases hr : run n e with
    | error err => exact ⟨_, fillFields_query_error run sv fuel name false e bt ty rest vals n err hr⟩
    | ok res =>
      rw [fillFields_tagged run sv fuel name false e bt ty rest vals n res hr]
      cases fieldVal run sv fuel (stripPtr ty).2 res with
      | error err => exact ⟨err, rfl⟩
      | ok v => exact ⟨.notSettable, rfl⟩

/-- … for a scalar field whose query succeeds the error is "not settable" -/
theorem unexported_scalar_not_settable (fuel : Nat) (name : Chars) (e : Expr) (bt : Bool) (ty : GoTy)
    (rest : GoFields) (vals : GoVals) (n : Nat) (res : Val) (k : Nat) (s : Scalar)
    (hr : run n e = .ok res) (hty : stripPtr ty = (k, .scalar s)) :
    fillFields run sv (fuel + 1) (.cons name false (some e) bt ty rest) vals n = .error .notSettable := by
  rw [fillFields_tagged run sv fuel name false e bt ty rest vals n res hr, hty]
  rfl

/-- `createValue` by kind -/
theorem createValue_str (res : Val) : createValue sv .str res = .str (Model.toStr sv res) := rfl
theorem createValue_bool (res : Val) : createValue sv .bool res = .bool (Model.toBool res) := rfl
theorem createValue_int (b : Nat) (res : Val) :
    createValue sv (.int b) res = .int (toInt (Model.toNum sv res)) := rfl
theorem createValue_uint (b : Nat) (res : Val) :
    createValue sv (.uint b) res = .int (toInt (Model.toNum sv res)) := rfl
theorem createValue_float (b : Nat) (res : Val) :
    createValue sv (.float b) res
      = .float (if b == 32 then Num.toFloat32 (Model.toNum sv res) else Model.toNum sv res) := rfl

/-! ### slices -/

/-- whenever every element can be built, the slice receives one element per node, in result order,
    appended after the existing items -/
theorem slice_order_gen (fuel : Nat) (et : GoTy) (g : Nat → GoVal) :
    ∀ (ns : List Nat) (items : GoVals),
      (∀ n ∈ ns, elemVal run sv fuel (stripPtr et).2 n = .ok (g n)) →
      fillSlice run sv (fuel + 1) et ns items true =
        .ok (items.append (GoVals.ofList (ns.map (fun n => wrapPtr (stripPtr et).1 (g n)))))
  | [], items, _ => by
    rw [fillSlice_nil]; simp [GoVals.ofList, GoVals.append_nil]
  | n :: ns, items, h => by
    rw [fillSlice_cons, h n (by simp)]
    simp only [Bool.not_true, Bool.false_eq_true, if_false]
    rw [slice_order_gen fuel et g ns _ (fun m hm => h m (by simp [hm]))]
    simp [GoVals.ofList, GoVals.snoc_append]

/-- scalar elements behind `k` pointers -/
theorem slice_order (fuel : Nat) (et : GoTy) (k : Nat) (s : Scalar) (hty : stripPtr et = (k, .scalar s))
    (ns : List Nat) (items : GoVals) :
    fillSlice run sv (fuel + 1) et ns items true =
      .ok (items.append (GoVals.ofList (ns.map (fun n => wrapPtr k (createValue sv s (.nodes [n])))))) := by
  have := slice_order_gen run sv fuel et (fun n => createValue sv s (.nodes [n])) ns items
    (by intro n _; rw [hty]; rfl)
  rw [hty] at this
  exact this

/-- struct elements: each filled from the zero struct with the one-node node-set of its node -/
theorem slice_order_struct (fuel : Nat) (et : GoTy) (k : Nat) (fs : GoFields) (g : Nat → GoVal)
    (hty : stripPtr et = (k, .struct fs)) (ns : List Nat) (items : GoVals)
    (hg : ∀ n ∈ ns, fill run sv fuel (.struct fs) (zero (.struct fs)) (.nodes [n]) = .ok (g n)) :
    fillSlice run sv (fuel + 1) et ns items true =
      .ok (items.append (GoVals.ofList (ns.map (fun n => wrapPtr k (g n))))) := by
  have := slice_order_gen run sv fuel et g ns items
    (by intro n hn; rw [hty]; exact hg n hn)
  rw [hty] at this
  exact this

/-- the first element that cannot be built makes the call fail -/
theorem slice_elem_error (fuel : Nat) (et : GoTy) (n : Nat) (ns : List Nat) (items : GoVals) (st : Bool)
    (err : UErr) (h : elemVal run sv fuel (stripPtr et).2 n = .error err) :
    fillSlice run sv (fuel + 1) et (n :: ns) items st = .error err := by
  rw [fillSlice_cons, h]

theorem multi_dim_is_error (fuel : Nat) (et : GoTy) (k : Nat) (t : GoTy) (hty : stripPtr et = (k, .slice t))
    (n : Nat) (ns : List Nat) (items : GoVals) (st : Bool) :
    fillSlice run sv (fuel + 1) et (n :: ns) items st = .error .multiDim :=
  slice_elem_error run sv fuel et n ns items st .multiDim (by rw [hty]; rfl)

theorem bad_elem_is_error (fuel : Nat) (et : GoTy) (k : Nat) (hty : stripPtr et = (k, .other))
    (n : Nat) (ns : List Nat) (items : GoVals) (st : Bool) :
    fillSlice run sv (fuel + 1) et (n :: ns) items st = .error .badElem :=
  slice_elem_error run sv fuel et n ns items st .badElem (by rw [hty]; rfl)

/-- a slice that is not settable (passed by value): nothing to append is fine, anything else fails -/
theorem slice_not_settable_nil (fuel : Nat) (et : GoTy) (items : GoVals) :
    fillSlice run sv fuel et [] items false = .ok items :=
  fillSlice_nil run sv fuel et items false

theorem slice_not_settable (fuel : Nat) (et : GoTy) (n : Nat) (ns : List Nat) (items : GoVals) :
    ∃ err, fillSlice run sv fuel et (n :: ns) items false = .error err := by
  cases fuel with
  | zero => exact ⟨_, fillSlice_zero_cons run sv et n ns items false⟩
  | succ fuel =>
    rw [fillSlice_cons]
    cases elemVal run sv fuel (stripPtr et).2 n with
    | error err => exact ⟨err, rfl⟩
    | ok v => exact ⟨.notSettable, rfl⟩

theorem slice_not_settable_scalar (fuel : Nat) (et : GoTy) (k : Nat) (s : Scalar)
    (hty : stripPtr et = (k, .scalar s)) (n : Nat) (ns : List Nat) (items : GoVals) :
    fillSlice run sv (fuel + 1) et (n :: ns) items false = .error .notSettable := by
  rw [fillSlice_cons, hty]; rfl

end Unm
end Xsel
