/-
  Proofs/Lemmas/StoreInv.lean — the arena invariant `AInv` (positions, parents, list consistency)
  and its preservation by `Ext`.
-/
import Proofs.Lemmas.StoreExt

namespace Xsel.StoreL
open Xsel Xsel.Store Xsel.Arena

theorem strictAsc_iff_pairwise : ∀ (l : List Nat), strictAsc l = true ↔ l.Pairwise (· < ·)
  | [] => by simp [strictAsc]
  | [x] => by simp [strictAsc]
  | x :: y :: t => by
    have ih := strictAsc_iff_pairwise (y :: t)
    simp only [strictAsc, Bool.and_eq_true, decide_eq_true_eq, ih]
    constructor
    · rintro ⟨h1, h2⟩
      refine List.pairwise_cons.mpr ⟨?_, h2⟩
      intro z hz
      rcases List.mem_cons.mp hz with rfl | hz
      · exact h1
      · exact Nat.lt_trans h1 ((List.pairwise_cons.mp h2).1 z hz)
    · intro h
      have := List.pairwise_cons.mp h
      exact ⟨this.1 y (List.mem_cons_self ..), this.2⟩

structure AInv (a : Arena) : Prop where
  pos : ∀ i, i < a.size → (cell a i).pos = i
  root : (cell a 0).kind = .root ∧ (cell a 0).parent = 0
  nonroot : ∀ i, 0 < i → i < a.size → (cell a i).kind ≠ .root ∧ (cell a i).parent < i
  pkind : ∀ i, i < a.size →
    (cell a (cell a i).parent).kind = .root ∨ (cell a (cell a i).parent).kind = .elem
  leaf : ∀ i, i < a.size → (cell a i).kind ≠ .root → (cell a i).kind ≠ .elem →
    ∀ Y : Cls, Y.list (cell a i) = []
  lst : ∀ (Y : Cls) i, i < a.size → ∀ j ∈ Y.list (cell a i),
    i < j ∧ j < a.size ∧ Y.ok (cell a j).kind ∧ (cell a j).parent = i
  listed : ∀ j, 0 < j → j < a.size →
    j ∈ (clsOf (cell a j).kind).list (cell a (cell a j).parent)
  asc : ∀ (Y : Cls) i, i < a.size → (Y.list (cell a i)).Pairwise (· < ·)

theorem AInv.parent_lt_size {a : Arena} (h : AInv a) {i : Nat} (hi : i < a.size) :
    (cell a i).parent < a.size := by
  by_cases h0 : i = 0
  · subst h0; rw [h.root.2]; exact hi
  · have := (h.nonroot i (Nat.pos_of_ne_zero h0) hi).2; omega

section ext
variable {X : Cls} {cur : Nat} {a a' : Arena}

theorem Ext.mem_list (e : Ext X cur a a') {Y : Cls} {i j : Nat} (hi : i < a.size)
    (hj : j ∈ Y.list (cell a' i)) :
    j ∈ Y.list (cell a i) ∨ (Y = X ∧ i = cur ∧ a.size ≤ j ∧ j < a'.size) := by
  by_cases h : Y = X ∧ i = cur
  · obtain ⟨rfl, rfl⟩ := h
    rw [e.lcur] at hj
    rcases List.mem_append.mp hj with hj | hj
    · exact Or.inl hj
    · have := List.mem_range'_1.mp hj
      exact Or.inr ⟨rfl, rfl, this.1, by have := e.le; omega⟩
  · rw [e.list Y i hi (by by_cases hY : Y = X <;> simp_all)] at hj
    exact Or.inl hj

theorem Ext.list_mono (e : Ext X cur a a') {Y : Cls} {i j : Nat} (hi : i < a.size)
    (hj : j ∈ Y.list (cell a i)) : j ∈ Y.list (cell a' i) := by
  by_cases h : Y = X ∧ i = cur
  · obtain ⟨rfl, rfl⟩ := h
    rw [e.lcur]; exact List.mem_append_left _ hj
  · rw [e.list Y i hi (by by_cases hY : Y = X <;> simp_all)]; exact hj

theorem Ext.new_listed (e : Ext X cur a a') {j : Nat} (h1 : a.size ≤ j) (h2 : j < a'.size) :
    j ∈ X.list (cell a' cur) := by
  rw [e.lcur]
  apply List.mem_append_right
  apply List.mem_range'_1.mpr
  omega

theorem Cls.ok_ne_root {X : Cls} {k : Kind} (h : X.ok k) : k ≠ .root := by
  cases X <;> cases k <;> simp_all [Cls.ok]

theorem Cls.ok_ne_elem_of {X : Cls} {k : Kind} (h : X.ok k) : X ≠ .kid → k ≠ .elem := by
  cases X <;> cases k <;> simp_all [Cls.ok]

theorem AInv.ext (h : AInv a) (e : Ext X cur a a') (hc : cur < a.size)
    (hk : (cell a cur).kind = .root ∨ (cell a cur).kind = .elem) : AInv a' := by
  have hpos : 0 < a.size := by omega
  refine ⟨?_, ?_, ?_, ?_, ?_, ?_, ?_, ?_⟩
  · intro i hi
    by_cases ho : i < a.size
    · rw [e.pos i ho, h.pos i ho]
    · exact (e.new i (Nat.not_lt.mp ho) hi).pos
  · rw [e.kind 0 hpos, e.parent 0 hpos]; exact h.root
  · intro i h0 hi
    by_cases ho : i < a.size
    · rw [e.kind i ho, e.parent i ho]; exact h.nonroot i h0 ho
    · have n := e.new i (Nat.not_lt.mp ho) hi
      refine ⟨Cls.ok_ne_root n.kind, ?_⟩
      rw [n.parent]; omega
  · intro i hi
    by_cases ho : i < a.size
    · rw [e.parent i ho, e.kind _ (h.parent_lt_size ho)]; exact h.pkind i ho
    · rw [(e.new i (Nat.not_lt.mp ho) hi).parent, e.kind cur hc]; exact hk
  · intro i hi h1 h2 Y
    by_cases ho : i < a.size
    · rw [e.kind i ho] at h1 h2
      have : i ≠ cur := by
        rintro rfl
        rcases hk with hk | hk
        · exact h1 hk
        · exact h2 hk
      rw [e.list Y i ho (Or.inr this)]; exact h.leaf i ho h1 h2 Y
    · exact (e.new i (Nat.not_lt.mp ho) hi).list Y
  · intro Y i hi j hj
    by_cases ho : i < a.size
    · rcases e.mem_list ho hj with hj | ⟨rfl, rfl, h1, h2⟩
      · obtain ⟨h1, h2, h3, h4⟩ := h.lst Y i ho j hj
        refine ⟨h1, Nat.lt_of_lt_of_le h2 e.le, ?_, ?_⟩
        · rw [e.kind j h2]; exact h3
        · rw [e.parent j h2]; exact h4
      · have n := e.new j h1 h2
        exact ⟨by omega, h2, n.kind, n.parent⟩
    · rw [(e.new i (Nat.not_lt.mp ho) hi).list Y] at hj
      exact absurd hj (List.not_mem_nil)
  · intro j h0 hj
    by_cases ho : j < a.size
    · rw [e.kind j ho, e.parent j ho]
      exact e.list_mono (h.parent_lt_size ho) (h.listed j h0 ho)
    · have n := e.new j (Nat.not_lt.mp ho) hj
      rw [clsOf_ok n.kind, n.parent]
      exact e.new_listed (Nat.not_lt.mp ho) hj
  · intro Y i hi
    by_cases ho : i < a.size
    · by_cases hx : Y = X ∧ i = cur
      · obtain ⟨rfl, rfl⟩ := hx
        rw [e.lcur]
        refine List.pairwise_append.mpr ⟨h.asc Y i ho, List.pairwise_lt_range', ?_⟩
        intro x hx y hy
        have := (h.lst Y i ho x hx).2.1
        have := (List.mem_range'_1.mp hy).1
        omega
      · rw [e.list Y i ho (by by_cases hY : Y = X <;> simp_all)]; exact h.asc Y i ho
    · rw [(e.new i (Nat.not_lt.mp ho) hi).list Y]; exact List.Pairwise.nil

end ext

theorem AInv_init : AInv Store.init.a := by
  have hc : ∀ i, i < Store.init.a.size → cell Store.init.a i = { kind := .root, pos := 0, parent := 0 } := by
    intro i hi
    have : i = 0 := by simp [Store.init] at hi; omega
    subst this; rfl
  have hs : Store.init.a.size = 1 := rfl
  refine ⟨?_, ⟨rfl, rfl⟩, ?_, ?_, ?_, ?_, ?_, ?_⟩
  · intro i hi; rw [hc i hi]; show 0 = i; rw [hs] at hi; omega
  · intro i h0 hi; omega
  · intro i hi; rw [hc i hi]; left; rfl
  · intro i hi h1; rw [hc i hi] at h1; exact absurd rfl h1
  · intro Y i hi j hj; rw [hc i hi] at hj; cases Y <;> simp [Cls.list] at hj
  · intro j h0 hj; omega
  · intro Y i hi; rw [hc i hi]; cases Y <;> simp [Cls.list]

end Xsel.StoreL
