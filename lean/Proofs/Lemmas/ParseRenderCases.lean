/-
  Proofs/Lemmas/ParseRenderCases.lean — the parser of the level of an expression reads its spelling
  back, one lemma for every constructor of `Expr`, given that the sub-expressions are read back.
-/
import Proofs.Lemmas.ParseRenderToks

namespace Xsel.Syntax

theorem primary_reads {c : Cfg} {ts : Toks} {x : Expr} {K : Nat} {rest : Toks} {f : Nat} {R}
    (hp : pPrimary c K (ts ++ rest) = some (x, rest))
    (ha : after c f 9 x rest = some R) :
    entryThen c (f + K) 9 (ts ++ rest) = some R := by
  rw [entryThen_9]; rw [after_9] at ha
  unfold pPrimFilt
  rw [pPrimary_mono hp (by omega)]
  exact pFilt_mono ha (by omega)

theorem pPrimary_digits {c : Cfg} {f : Nat} {d : Chars} {g : Bool} {r : Toks} :
    pPrimary c (f + 1) (⟨.digits d, g⟩ :: r) = number c (⟨.digits d, g⟩ :: r) := by
  rw [pPrimary_succ]
  simp only [callStart_none_of_fnTok (c := c) (a := ⟨.digits d, g⟩) (r := r) rfl]

theorem numToks_cons (n : Num) : ∃ d tl, numToks n = ⟨.digits d, false⟩ :: tl := by
  unfold numToks
  simp only
  split
  · exact ⟨_, _, rfl⟩
  · exact ⟨_, _, rfl⟩

theorem readsAt_num {c : Cfg} {n : Num} (h : numOk n = true) : ReadsAt c (.num n) := by
  intro rest f R hfol hf ha
  simp only [level, normCtx, own, raw] at *
  refine primary_reads ?_ ha
  obtain ⟨d, tl, hd⟩ := numToks_cons n
  have := number_numToks (c := c) h (folPlain_of_fol hfol)
  rw [hd] at this ⊢
  rw [List.cons_append] at this ⊢
  rw [pPrimary_digits]; exact this

theorem readsAt_lit {c : Cfg} {s : Chars} : ReadsAt c (.lit s) := by
  intro rest f R hfol hf ha
  simp only [level, normCtx, own, raw] at *
  exact primary_reads rfl ha

theorem readsAt_var {c : Cfg} {p : Option Chars} {nm : Chars} (h : wfE (.var p nm) = true) : ReadsAt c (.var p nm) := by
  intro rest f R hfol hf ha
  simp only [level, normCtx, own, raw] at *
  refine primary_reads ?_ ha
  cases p with
  | none =>
    simp only [wfE] at h
    show some (mkVar nm, rest) = _
    rw [mkVar_varTok_none h]
  | some p =>
    simp only [wfE] at h
    show some (mkVar (p ++ ':' :: nm), rest) = _
    rw [mkVar_varTok_some h]


theorem pBin_of_entry {c : Cfg} {F k : Nat} {ts : Toks} {X} (hk : k ≤ 6) (h : entryThen c F k ts = some X) :
    pBin c (F + 1) k ts = some X := by
  by_cases h5 : k ≤ 5
  · rw [entryThen_bin h5] at h; exact pBin_mono h (Nat.le_succ _)
  · obtain rfl : k = 6 := by omega
    rw [pBin_succ, if_pos (by omega)]; exact h

theorem level_bin (op l r) : level (.bin op l r) = opLevel op := rfl
theorem level_neg (e) : level (.neg e) = 6 := rfl
theorem level_root : level .root = 8 := rfl
theorem level_ctx : level .ctx = 8 := rfl
theorem level_step (b a t ps) : level (.step b a t ps) = 8 := rfl
theorem level_filt (b p) : level (.filt b p) = 9 := rfl
theorem level_call_ctx (p n a) : level (.call .ctx p n a) = 9 := rfl
theorem level_call_ne {b : Expr} (h : b ≠ .ctx) (p n a) : level (.call b p n a) = 8 := by
  cases b <;> first | rfl | exact absurd rfl h

theorem readsAt_bin {c : Cfg} {op : BinOp} {l r : Expr} (hop : opLevel op ≤ 5)
    (hl : Reads c l) (hr : Reads c r) : ReadsAt c (.bin op l r) := by
  intro rest f R hfol hf ha
  simp only [level_bin, normCtx, own, raw] at *
  have h1 := hr (opLevel op + 1) rest 1 (normCtx r, rest) (by omega) (fol_mono hfol (Nat.le_succ _)) (Nat.le_refl _)
    (after_trivial hfol (Nat.le_refl _) (by omega))
  have h2 := pBin_of_entry (by omega) h1
  have h3 : after c (f + (1 + costAt r (opLevel op + 1) + 1) + 1) (opLevel op) (normCtx l)
      (U (opTok op) :: (render r (opLevel op + 1) ++ rest)) = some R := by
    rw [after_bin hop, pBinRest_succ]
    simp only [U, opAt_opTok op hop]
    rw [pBin_mono h2 (by omega)]
    rw [after_bin hop] at ha
    exact pBinRest_mono ha (by omega)
  have h4 := hl (opLevel op) _ _ R (by omega) (by exact folTok_opTok op) (by omega) h3
  simp only [List.append_assoc, List.cons_append]
  exact entryThen_mono h4 (by unfold costAt; omega)



theorem readsAt_union {c : Cfg} {l r : Expr}
    (hl : Reads c l) (hr : Reads c r) : ReadsAt c (.bin .union l r) := by
  intro rest f R hfol hf ha
  simp only [level_bin, normCtx, own, raw, opLevel, opTok, Nat.reduceAdd] at *
  have h1 := hr 8 rest 1 (normCtx r, rest) (by omega) (fol_mono hfol (Nat.le_succ _)) (Nat.le_refl _)
    (after_trivial hfol (Nat.le_refl _) (by omega))
  rw [entryThen_8] at h1
  have h3 : after c (f + (1 + costAt r 8) + 1) 7 (normCtx l)
      (U (.p .pipe) :: (render r 8 ++ rest)) = some R := by
    rw [after_7, pUnionRest_succ]
    simp only [U]
    rw [pPath_mono h1 (by omega)]
    rw [after_7] at ha
    exact pUnionRest_mono ha (by omega)
  have h4 := hl 7 _ _ R (by omega) (by rfl) (by omega) h3
  simp only [List.append_assoc, List.cons_append]
  exact entryThen_mono h4 (by unfold costAt; omega)

theorem readsAt_neg {c : Cfg} {e : Expr} (he : Reads c e) : ReadsAt c (.neg e) := by
  intro rest f R hfol hf ha
  simp only [level_neg, normCtx, own, raw] at *
  have h1 := he 6 rest 1 (normCtx e, rest) (by omega) hfol (Nat.le_refl _) rfl
  rw [entryThen_6] at h1 ⊢
  rw [after_6] at ha
  cases ha
  apply pUnary_mono (f := 1 + costAt e 6 + 1) _ (by unfold costAt; omega)
  rw [pUnary_succ]
  simp only [U, List.cons_append]
  show (match pUnary c (1 + costAt e 6) (render e 6 ++ rest) with
    | some (e, r') => some (Expr.neg e, r') | none => none) = _
  rw [h1]

theorem readsAt_filt {c : Cfg} {b p : Expr} (hb : Reads c b) (hp : Reads c p) : ReadsAt c (.filt b p) := by
  intro rest f R hfol hf ha
  simp only [level_filt, normCtx, own, raw] at *
  have h1 := hp 0 (U (.p .rbrack) :: rest) 1 (normCtx p, U (.p .rbrack) :: rest) (by omega) (fol_rbrack _ _ _)
    (Nat.le_refl _) (by rw [after_bin (by omega)]; rfl)
  rw [entryThen_bin (by omega)] at h1
  have h3 : after c (f + (1 + costAt p 0) + 1) 9 (normCtx b)
      (U (.p .lbrack) :: (render p 0 ++ U (.p .rbrack) :: rest)) = some R := by
    rw [after_9, pFilt_succ]
    simp only [U] at h1 ⊢
    rw [pBin_mono h1 (by omega)]
    rw [after_9] at ha
    exact pFilt_mono ha (by omega)
  have h4 := hb 9 _ _ R (by omega) (by rfl) (by omega) h3
  simp only [List.append_assoc, List.cons_append, List.nil_append]
  exact entryThen_mono h4 (by unfold costAt; omega)



theorem pRel_of_step {c : Cfg} {F : Nat} {b x : Expr} {ts rest : Toks} {R}
    (hs : pStep c F b ts = some (x, rest)) (ha : pathCont c F x rest = some R) :
    pRel c (F + 1) b ts = some R := by
  rw [pRel_succ, hs]
  unfold pathCont at ha
  split at ha
  · exact ha
  · exact ha
  · rename_i hn1 hn2
    split
    · rename_i heq; cases heq; exact absurd rfl (hn1 _ _)
    · rename_i heq; cases heq; exact absurd rfl (hn2 _ _)
    · exact ha

theorem readsAt_root {c : Cfg} : ReadsAt c .root := by
  intro rest f R hfol hf ha
  simp only [level_root, normCtx, own, raw] at *
  have hin := tower (c := c) (x := .root) (ts := U (.p .slash) :: U (.p .rparen) :: rest)
      (rest := U (.p .rparen) :: rest) (L := 8) (K := 0) (by omega)
      (by
        intro f R hf ha
        obtain ⟨f, rfl⟩ : ∃ f', f = f' + 1 := ⟨f - 1, by omega⟩
        rw [entryThen_8, Nat.add_zero, pPath_succ]
        rw [after_8] at ha
        simpa [T, U, startsStep, nameTok, pathCont] using ha)
      8 0 (by omega) (fol_rparen _ _ _) 1 (.root, U (.p .rparen) :: rest) (Nat.le_refl _)
      (by rw [after_bin (by omega)]; rfl)
  rw [entryThen_bin (by omega)] at hin
  have hprim : pPrimary c 18 ([U (.p .lparen), U (.p .slash), U (.p .rparen)] ++ rest) = some (.root, rest) := by
    rw [pPrimary_succ]
    simp only [U, List.cons_append, List.nil_append] at hin ⊢
    rw [hin]
  have h9 := primary_reads hprim (after_trivial (c := c) (x := .root) (k := 8) hfol hf (by omega))
  have := tower_step (by omega) h9 (after_mono ha (by omega))
  exact this

theorem startsPrimary_dot {c : Cfg} {g : Bool} {rest : Toks} (hr : folPlain rest = true) :
    startsPrimary c (⟨.p .dot, g⟩ :: rest) = false := by
  have h1 : callStart c (⟨.p .dot, g⟩ :: rest) = none := callStart_none_of_fnTok rfl
  cases rest with
  | nil => simp [startsPrimary, h1]
  | cons t r =>
    obtain ⟨tok, g'⟩ := t
    cases tok with
    | digits d => simp [folPlain] at hr
    | _ => simp [startsPrimary, h1]

theorem readsAt_ctx {c : Cfg} : ReadsAt c .ctx := by
  intro rest f R hfol hf ha
  simp only [level_ctx, normCtx, own, raw] at *
  rw [entryThen_8]; rw [after_8] at ha
  rw [pPath_succ]
  simp only [U, List.cons_append, List.nil_append, startsPrimary_dot (folPlain_of_fol hfol)]
  exact pRel_of_step (F := f + 1) rfl (pathCont_mono ha (by omega))



theorem normBase_of_ne {b : Expr} (h : b ≠ .ctx) : normBase b = normCtx b := by
  cases b <;> first | exact absurd rfl h | simp [normBase, normCtx]

theorem basePrefix_of_ne {b : Expr} (h : b ≠ .ctx) (h' : b ≠ .root) :
    basePrefix b = render b 8 ++ [U (.p .slash)] := by
  cases b <;> first | exact absurd rfl h | exact absurd rfl h' | simp [basePrefix, render]

theorem ownBase_of_ne {b : Expr} (h : b ≠ .ctx) (h' : b ≠ .root) : ownBase b = costAt b 8 := by
  cases b <;> first | exact absurd rfl h | exact absurd rfl h' | simp [ownBase, costAt]

/-- a path whose last step is spelled `sts` and read by `pStep` as `mk base` -/
theorem path_reads {c : Cfg} {b : Expr} (hb : b ≠ .ctx → b ≠ .root → Reads c b) (mk : Expr → Expr) (sts : Toks) (S : Nat)
    {rest : Toks} {f : Nat} {R}
    (hstep : ∀ base, pStep c S base (sts ++ rest) = some (mk base, rest))
    (hss : startsStep c (sts ++ rest) = true)
    (hsp : b = .ctx → startsPrimary c (sts ++ rest) = false ∧ (∀ g r, sts ++ rest ≠ P .slash g :: r) ∧
      (∀ g r, sts ++ rest ≠ P .dslash g :: r))
    (ha : pathCont c f (mk (normBase b)) rest = some R) :
    pPath c (f + ownBase b + S + 3) (basePrefix b ++ sts ++ rest) = some R := by
  have hrel : ∀ base, pathCont c f (mk base) rest = some R → pRel c (f + S + 1) base (sts ++ rest) = some R :=
    fun base ha => pRel_of_step (pStep_mono (hstep base) (by omega)) (pathCont_mono ha (by omega))
  by_cases h1 : b = .ctx
  · subst h1
    obtain ⟨hp, hn1, hn2⟩ := hsp rfl
    simp only [basePrefix, ownBase, List.nil_append, normBase] at *
    apply pPath_mono (f := f + S + 1 + 1) _ (by omega)
    rw [pPath_succ]
    split
    · rename_i heq; exact absurd heq (hn1 _ _)
    · rename_i heq; exact absurd heq (hn2 _ _)
    · rw [hp]; exact hrel _ ha
  by_cases h2 : b = .root
  · subst h2
    simp only [basePrefix, ownBase, List.cons_append, List.nil_append, normBase] at *
    apply pPath_mono (f := f + S + 1 + 1) _ (by omega)
    rw [pPath_succ]
    simp only [U, hss, if_true]
    exact hrel _ ha
  · rw [basePrefix_of_ne h1 h2, ownBase_of_ne h1 h2]
    rw [normBase_of_ne h1] at ha
    have h3 : after c (f + S + 1) 8 (normCtx b) (U (.p .slash) :: (sts ++ rest)) = some R := by
      rw [after_8]; exact hrel _ ha
    have h4 := hb h1 h2 8 _ _ R (by omega) (by rfl) (by omega) h3
    rw [entryThen_8] at h4
    simp only [List.append_assoc, List.cons_append, List.nil_append]
    exact pPath_mono h4 (by omega)



def ReadsPreds (c : Cfg) (ps : Exprs) : Prop :=
  ∀ rest, (∀ g r, rest ≠ P .lbrack g :: r) →
    pPreds c (ownPreds ps) (renderPreds ps ++ rest) = some (normCtxs ps, rest)

/-- arguments: `pArgs` reads them, and `pArgs1` if there is at least one -/
def ReadsArgs (c : Cfg) (as : Exprs) : Prop :=
  ∀ rest, pArgs c (ownArgs as) (renderArgs as ++ rest) = some (normCtxs as, rest) ∧
    (as ≠ .nil → pArgs1 c (ownArgs as - 1) (renderArgs as ++ rest) = some (normCtxs as, rest))

theorem folPlain_preds {ps : Exprs} {rest : Toks} (h : folPlain rest = true) :
    folPlain (renderPreds ps ++ rest) = true := by
  cases ps with
  | nil => simpa [renderPreds] using h
  | cons p ps => simp [renderPreds, U, folPlain]

theorem step_reads {c : Cfg} {ax : Axis} {t : NodeTest} {ps : Exprs} (hps : ReadsPreds c ps)
    {rest : Toks} (hfol : fol 8 rest = true) (base : Expr) :
    pStep c (ownPreds ps + 1) base
      (U (.kw (.axis ax)) :: U (.p .coloncolon) :: (testToks t ++ renderPreds ps) ++ rest)
      = some (.step base ax t (normCtxs ps), rest) := by
  rw [pStep_succ]
  simp only [U, List.cons_append, List.append_assoc]
  rw [nodeTest_testToks (folPlain_preds (folPlain_of_fol hfol))]
  simp only [hps rest (fol_not_lbrack hfol (by omega))]

theorem readsAt_step {c : Cfg} {b : Expr} {ax : Axis} {t : NodeTest} {ps : Exprs}
    (hb : b ≠ .ctx → b ≠ .root → Reads c b) (hps : ReadsPreds c ps) : ReadsAt c (.step b ax t ps) := by
  intro rest f R hfol hf ha
  simp only [level_step, normCtx, own, raw] at *
  rw [entryThen_8]; rw [after_8] at ha
  have := path_reads hb (fun base => .step base ax t (normCtxs ps))
    (U (.kw (.axis ax)) :: U (.p .coloncolon) :: (testToks t ++ renderPreds ps)) (ownPreds ps + 1)
    (rest := rest) (f := f) (R := R) (step_reads hps hfol)
    (by simp [U, startsStep, nameTok, Kw.isOpName])
    (by
      intro _
      refine ⟨?_, ?_, ?_⟩
      · simp [U, startsPrimary, callStart]
      · intro g r h; simp [U, P] at h
      · intro g r h; simp [U, P] at h)
    ha
  simp only [List.append_assoc] at this ⊢
  exact pPath_mono this (by omega)



theorem fnToks_cons (p : Option Chars) (n : Chars) : ∃ s tl, fnToks p n = ⟨.ncname s, false⟩ :: tl := by
  cases p with
  | none => exact ⟨_, _, rfl⟩
  | some p => exact ⟨_, _, rfl⟩

theorem pStep_ncname {c : Cfg} {f : Nat} {base : Expr} {s : Chars} {g : Bool} {r : Toks} :
    pStep c (f + 1) base (⟨.ncname s, g⟩ :: r) =
      match callStart c (⟨.ncname s, g⟩ :: r) with
      | some (pfx, name, r) =>
        (match pArgs c f r with
         | some (args, r') => some (.call base pfx name args, r')
         | none => none)
      | none =>
        match nodeTest c (⟨.ncname s, g⟩ :: r) with
        | some (t, r') => (match pPreds c f r' with
                           | some (ps, r'') => some (.step base .child t ps, r'')
                           | none => none)
        | none => none := rfl

theorem pPrimary_ncname {c : Cfg} {f : Nat} {s : Chars} {g : Bool} {r : Toks} :
    pPrimary c (f + 1) (⟨.ncname s, g⟩ :: r) =
      match callStart c (⟨.ncname s, g⟩ :: r) with
      | some (pfx, name, r) =>
        (match pArgs c f r with
         | some (args, r') => some (.call .ctx pfx name args, r')
         | none => none)
      | none => number c (⟨.ncname s, g⟩ :: r) := rfl

theorem call_reads {c : Cfg} {p : Option Chars} {n : Chars} {as : Exprs} (has : ReadsArgs c as)
    {rest : Toks} (base : Expr) :
    pStep c (ownArgs as + 1) base (fnToks p n ++ U (.p .lparen) :: renderArgs as ++ rest)
      = some (.call base p n (normCtxs as), rest) := by
  have hc := callStart_fnToks (c := c) (p := p) (n := n) (r := renderArgs as ++ rest)
  obtain ⟨s, tl, hs⟩ := fnToks_cons p n
  simp only [List.append_assoc, List.cons_append]
  rw [hs] at hc ⊢
  simp only [List.cons_append] at hc ⊢
  rw [pStep_ncname, hc]
  simp only [(has rest).1]

theorem readsAt_call_ne {c : Cfg} {b : Expr} {p : Option Chars} {n : Chars} {as : Exprs} (hne : b ≠ .ctx)
    (hb : b ≠ .ctx → b ≠ .root → Reads c b) (has : ReadsArgs c as) : ReadsAt c (.call b p n as) := by
  intro rest f R hfol hf ha
  simp only [level_call_ne hne, normCtx, own, raw] at *
  rw [entryThen_8]; rw [after_8] at ha
  have := path_reads hb (fun base => .call base p n (normCtxs as))
    (fnToks p n ++ U (.p .lparen) :: renderArgs as) (ownArgs as + 1)
    (rest := rest) (f := f) (R := R) (call_reads has)
    (by obtain ⟨s, tl, hs⟩ := fnToks_cons p n; rw [hs]; simp [startsStep, nameTok])
    (fun h => absurd h hne)
    ha
  simp only [List.append_assoc] at this ⊢
  exact pPath_mono this (by omega)

theorem readsAt_call_ctx {c : Cfg} {p : Option Chars} {n : Chars} {as : Exprs}
    (has : ReadsArgs c as) : ReadsAt c (.call .ctx p n as) := by
  intro rest f R hfol hf ha
  simp only [level_call_ctx, normCtx, normBase, own, ownBase, raw, basePrefix, List.nil_append] at *
  refine entryThen_mono (primary_reads (K := ownArgs as + 1) ?_ ha) (by omega)
  have hc := callStart_fnToks (c := c) (p := p) (n := n) (r := renderArgs as ++ rest)
  obtain ⟨s, tl, hs⟩ := fnToks_cons p n
  simp only [List.append_assoc, List.cons_append]
  rw [hs] at hc ⊢
  simp only [List.cons_append] at hc ⊢
  rw [pPrimary_ncname, hc]
  simp only [(has rest).1]



theorem readsPreds_nil {c : Cfg} : ReadsPreds c .nil := by
  intro rest h
  simp only [ownPreds, renderPreds, normCtxs, List.nil_append]
  exact pPreds_trivial h

theorem pBin0_of_reads {c : Cfg} {p : Expr} (hp : Reads c p) (t : LTok) (rest : Toks) (ht : fol 0 (t :: rest) = true)
    (hop : opAt 0 t.tok = none) :
    pBin c (1 + costAt p 0) 0 (render p 0 ++ t :: rest) = some (normCtx p, t :: rest) := by
  have := hp 0 (t :: rest) 1 (normCtx p, t :: rest) (by omega) ht (Nat.le_refl _)
    (by rw [after_bin (by omega), pBinRest_succ]; simp only [hop])
  rw [entryThen_bin (by omega)] at this
  exact this

theorem readsPreds_cons {c : Cfg} {p : Expr} {ps : Exprs} (hp : Reads c p) (hps : ReadsPreds c ps) :
    ReadsPreds c (.cons p ps) := by
  intro rest h
  simp only [ownPreds, renderPreds, normCtxs, List.cons_append, List.append_assoc]
  have h1 := pBin0_of_reads hp (U (.p .rbrack)) (renderPreds ps ++ rest) rfl rfl
  have h2 := hps rest h
  have : own p + tw (level p) 0 + ownPreds ps + 2 = (costAt p 0 + ownPreds ps + 1) + 1 := by
    unfold costAt; omega
  rw [this, pPreds_succ]
  simp only [U, render] at h1 ⊢
  rw [pBin_mono h1 (by omega)]
  simp only [pPreds_mono h2 (show ownPreds ps ≤ costAt p 0 + ownPreds ps + 1 by omega)]

theorem pArgs_of_args1 {c : Cfg} {F : Nat} {ts : Toks} {X} (h : pArgs1 c F ts = some X) :
    pArgs c (F + 1) ts = some X := by
  rw [pArgs_succ]
  split
  · cases F with
    | zero => cases h
    | succ F => rw [pArgs1_succ, pBin_rparen] at h; cases h
  · exact h

theorem readsArgs_nil {c : Cfg} : ReadsArgs c .nil := by
  intro rest
  refine ⟨?_, fun h => absurd rfl h⟩
  simp only [ownArgs, renderArgs, normCtxs, U, List.cons_append, List.nil_append]
  rfl

theorem readsArgs_cons {c : Cfg} {a : Expr} {as : Exprs} (ha : Reads c a) (has : ReadsArgs c as) :
    ReadsArgs c (.cons a as) := by
  intro rest
  have h2 : pArgs1 c (ownArgs (.cons a as) - 1) (renderArgs (.cons a as) ++ rest) = some (normCtxs (.cons a as), rest) := by
    have : ownArgs (.cons a as) - 1 = (costAt a 0 + ownArgs as + 1) + 1 := by
      simp only [ownArgs]; unfold costAt; omega
    rw [this, pArgs1_succ]
    cases as with
    | nil =>
      have h1 := pBin0_of_reads ha (U (.p .rparen)) rest rfl rfl
      simp only [renderArgs, normCtxs, List.append_assoc, List.cons_append, List.nil_append, U, render] at h1 ⊢
      rw [pBin_mono h1 (by omega)]
    | cons b bs =>
      have h1 := pBin0_of_reads ha (U (.p .comma)) (renderArgs (.cons b bs) ++ rest) rfl rfl
      have h3 := (has rest).2 (by simp)
      simp only [renderArgs, List.append_assoc, List.cons_append, U, render] at h1 ⊢
      rw [pBin_mono h1 (by omega)]
      simp only [pArgs1_mono h3 (show ownArgs (.cons b bs) - 1 ≤ costAt a 0 + ownArgs (.cons b bs) + 1 by omega)]
      simp only [normCtxs]
  refine ⟨?_, fun _ => h2⟩
  have := pArgs_of_args1 h2
  have hpos : ownArgs (.cons a as) - 1 + 1 = ownArgs (.cons a as) := by simp only [ownArgs]; omega
  rw [hpos] at this
  exact this


end Xsel.Syntax
