/-
  Proofs/Lemmas/StoreFacts.lean — S1, S2, S3, S5: what `PInv` says about `Store.build evs`,
  for every event list `evs`, in terms of the `Arena` accessors.
-/
import Proofs.Lemmas.StoreStep

namespace Xsel.StoreL
open Xsel Xsel.Store Xsel.Arena

/-- `AncS` implies the fuel-based `Spec.anc` -/
theorem AncS.mem_ancestors {a : Arena} (h : AInv a) {i j : Nat} (hij : AncS a i j) :
    ∀ f, j ≤ f → j < a.size → i ≠ j → i ∈ Spec.ancestors a f j := by
  induction hij with
  | refl => intro _ _ _ hne; exact absurd rfl hne
  | @step j h0 _ ih =>
    intro f hf hj _
    cases f with
    | zero => omega
    | succ f =>
      have hne : (j == 0) = false := by simp; omega
      simp only [Spec.ancestors, hne]
      by_cases hp : i = (cell a j).parent
      · rw [hp]; exact List.mem_cons_self ..
      · have hlt := (h.nonroot j h0 hj).2
        exact List.mem_cons_of_mem _ (ih f (by omega) (h.parent_lt_size hj) hp)

theorem AncS.anc {a : Arena} (h : AInv a) {i j : Nat} (hij : AncS a i j) (hj : j < a.size)
    (hne : i ≠ j) : Spec.anc a i j = true := by
  simp only [Spec.anc, List.contains_iff_mem]
  exact hij.mem_ancestors h a.size (Nat.le_of_lt hj) hj hne

variable (evs : List Ev)

theorem build_ainv : AInv (build evs) := (build_pinv evs).ainv

theorem build_size_pos : 0 < (build evs).size := by
  have := (build_pinv evs).cur_lt; omega

/-- S1 -/
theorem build_pos_eq_index {i : Nat} (hi : i < (build evs).size) : ((build evs).cell i).pos = i :=
  (build_ainv evs).pos i hi

/-- S2 -/
theorem build_root : (build evs).kind 0 = .root ∧ (build evs).parent 0 = 0 :=
  (build_ainv evs).root

theorem build_kind_ne_root {i : Nat} (h0 : 0 < i) (hi : i < (build evs).size) :
    (build evs).kind i ≠ .root :=
  ((build_ainv evs).nonroot i h0 hi).1

theorem build_parent_lt {i : Nat} (h0 : 0 < i) (hi : i < (build evs).size) :
    (build evs).parent i < i :=
  ((build_ainv evs).nonroot i h0 hi).2

/-- S3 -/
theorem build_mem_nss {i j : Nat} (hi : i < (build evs).size) (hj : j ∈ (build evs).nss i) :
    i < j ∧ j < (build evs).size ∧ (build evs).kind j = .ns ∧ (build evs).parent j = i :=
  (build_ainv evs).lst .ns i hi j hj

theorem build_mem_attrs {i j : Nat} (hi : i < (build evs).size) (hj : j ∈ (build evs).attrs i) :
    i < j ∧ j < (build evs).size ∧ (build evs).kind j = .attr ∧ (build evs).parent j = i :=
  (build_ainv evs).lst .attr i hi j hj

theorem build_mem_kids {i j : Nat} (hi : i < (build evs).size) (hj : j ∈ (build evs).kids i) :
    i < j ∧ j < (build evs).size
    ∧ ((build evs).kind j ≠ .ns ∧ (build evs).kind j ≠ .attr ∧ (build evs).kind j ≠ .root)
    ∧ (build evs).parent j = i :=
  (build_ainv evs).lst .kid i hi j hj

theorem build_listed {j : Nat} (h0 : 0 < j) (hj : j < (build evs).size) :
    match (build evs).kind j with
    | .ns => j ∈ (build evs).nss ((build evs).parent j)
    | .attr => j ∈ (build evs).attrs ((build evs).parent j)
    | _ => j ∈ (build evs).kids ((build evs).parent j) := by
  have := (build_ainv evs).listed j h0 hj
  unfold Arena.kind
  cases hk : ((build evs).cell j).kind <;> rw [hk] at this <;> exact this

theorem build_lists_asc {i : Nat} (hi : i < (build evs).size) :
    strictAsc ((build evs).nss i) = true ∧ strictAsc ((build evs).attrs i) = true
    ∧ strictAsc ((build evs).kids i) = true :=
  ⟨(strictAsc_iff_pairwise _).mpr ((build_ainv evs).asc .ns i hi),
   (strictAsc_iff_pairwise _).mpr ((build_ainv evs).asc .attr i hi),
   (strictAsc_iff_pairwise _).mpr ((build_ainv evs).asc .kid i hi)⟩

theorem build_container {i : Nat} (hi : i < (build evs).size) :
    (build evs).kind i = .root ∨ (build evs).kind i = .elem
    ∨ ((build evs).nss i = [] ∧ (build evs).attrs i = [] ∧ (build evs).kids i = []) := by
  by_cases h1 : (build evs).kind i = .root
  · exact Or.inl h1
  · by_cases h2 : (build evs).kind i = .elem
    · exact Or.inr (Or.inl h2)
    · have := (build_ainv evs).leaf i hi h1 h2
      exact Or.inr (Or.inr ⟨this .ns, this .attr, this .kid⟩)

/-- S5 -/
theorem build_preorder {i : Nat} (h0 : 0 < i) (hi : i < (build evs).size) :
    (build evs).parent i = i - 1 ∨ Spec.anc (build evs) ((build evs).parent i) (i - 1) = true := by
  by_cases hp : (build evs).parent i = i - 1
  · exact Or.inl hp
  · exact Or.inr (((build_pinv evs).pre i h0 hi).anc (build_ainv evs) (by omega) hp)

end Xsel.StoreL
