/-
  Proofs/Lemmas/ParseFuel.lean — the fuel `parseToks` gives the parser is enough for every input.

  A successful call of a parser function returns a suffix of its input and needs no more fuel than
  an offset (its position in the longest chain of calls that consume no token) plus 12 per consumed
  token: every loop iteration and every nested re-entry of `pBin … 0` consumes a token first.
-/
import Proofs.Lemmas.ParseRenderMono

namespace Xsel.Syntax

/-! ### the helpers return suffixes -/

theorem nodeTest_len {c : Cfg} {ts : Toks} {t : NodeTest} {r : Toks} (h : nodeTest c ts = some (t, r)) :
    r.length ≤ ts.length := by
  unfold nodeTest at h
  split at h
  all_goals (try (injection h with h; injection h with h1 h2; subst h2; simp only [List.length_cons]; omega))
  · repeat' split at h
    all_goals (try (injection h with h; injection h with h1 h2; subst h2; simp only [List.length_cons]; omega))
  · repeat' split at h
    all_goals (try (injection h with h; injection h with h1 h2; subst h2; simp only [List.length_cons]; omega))
    all_goals (try cases h)
  · cases h

theorem callStart_len {c : Cfg} {ts : Toks} {p : Option Chars} {n : Chars} {r : Toks}
    (h : callStart c ts = some (p, n, r)) : r.length + 2 ≤ ts.length := by
  unfold callStart at h
  split at h
  · have hr : ∀ (o : Option Chars) (r0 : Toks),
        o.map (fun n => ((none : Option Chars), n, r0)) = some (p, n, r) → r0 = r := by
      intro o r0 ho; cases o with
      | none => cases ho
      | some x => injection ho with ho; injection ho with _ ho; injection ho
    repeat' split at h
    all_goals (try cases h)
    all_goals (have := hr _ _ h; subst this; simp only [List.length_cons]; omega)
  · repeat' split at h
    all_goals (try cases h)
    all_goals (simp only [List.length_cons]; omega)
  · cases h

theorem number_len {c : Cfg} {ts : Toks} {e : Expr} {r : Toks} (h : number c ts = some (e, r)) :
    r.length ≤ ts.length := by
  unfold number at h
  repeat' split at h
  all_goals (try (injection h with h; injection h with h1 h2; subst h2; simp only [List.length_cons]; omega))
  all_goals (try cases h)

/-! ### the bound -/

theorem exists_pred {x : Nat} (h : 0 < x) : ∃ g, x = g + 1 := ⟨x - 1, by omega⟩

/-- a call that succeeds with fuel `f` returns a suffix of its input (`n` tokens shorter) and
    succeeds with the stated fuel, linear in `n` -/
structure Adeq (c : Cfg) (f : Nat) : Prop where
  bin : ∀ lvl ts e r, pBin c f lvl ts = some (e, r) →
    ∃ n, ts.length = n + r.length ∧ pBin c (6 + (6 - lvl) + 12 * n) lvl ts = some (e, r)
  binRest : ∀ lvl l ts e r, pBinRest c f lvl l ts = some (e, r) →
    ∃ n, ts.length = n + r.length ∧ pBinRest c (1 + 12 * n) lvl l ts = some (e, r)
  unary : ∀ ts e r, pUnary c f ts = some (e, r) →
    ∃ n, ts.length = n + r.length ∧ pUnary c (5 + 12 * n) ts = some (e, r)
  unionRest : ∀ l ts e r, pUnionRest c f l ts = some (e, r) →
    ∃ n, ts.length = n + r.length ∧ pUnionRest c (1 + 12 * n) l ts = some (e, r)
  path : ∀ ts e r, pPath c f ts = some (e, r) →
    ∃ n, ts.length = n + r.length ∧ pPath c (4 + 12 * n) ts = some (e, r)
  filt : ∀ b ts e r, pFilt c f b ts = some (e, r) →
    ∃ n, ts.length = n + r.length ∧ pFilt c (1 + 12 * n) b ts = some (e, r)
  primary : ∀ ts e r, pPrimary c f ts = some (e, r) →
    ∃ n, ts.length = n + r.length ∧ pPrimary c (1 + 12 * n) ts = some (e, r)
  rel : ∀ b ts e r, pRel c f b ts = some (e, r) →
    ∃ n, ts.length = n + r.length ∧ pRel c (3 + 12 * n) b ts = some (e, r)
  step : ∀ b ts e r, pStep c f b ts = some (e, r) →
    ∃ n, ts.length = n + r.length ∧ pStep c (2 + 12 * n) b ts = some (e, r)
  preds : ∀ ts e r, pPreds c f ts = some (e, r) →
    ∃ n, ts.length = n + r.length ∧ pPreds c (1 + 12 * n) ts = some (e, r)
  args : ∀ ts e r, pArgs c f ts = some (e, r) →
    ∃ n, ts.length = n + r.length ∧ pArgs c (14 + 12 * n) ts = some (e, r)
  args1 : ∀ ts e r, pArgs1 c f ts = some (e, r) →
    ∃ n, ts.length = n + r.length ∧ pArgs1 c (13 + 12 * n) ts = some (e, r)

theorem adeq_zero (c : Cfg) : Adeq c 0 := by
  constructor <;> intros <;> simp_all [pBin_zero, pBinRest_zero, pUnary_zero, pUnionRest_zero, pPath_zero,
    pFilt_zero, pPrimary_zero, pRel_zero, pStep_zero, pPreds_zero, pArgs_zero, pArgs1_zero]

theorem adeq_bin {c : Cfg} {f : Nat} (ih : Adeq c f) : ∀ lvl ts e r, pBin c (f + 1) lvl ts = some (e, r) →
    ∃ n, ts.length = n + r.length ∧ pBin c (6 + (6 - lvl) + 12 * n) lvl ts = some (e, r) := by
  intro lvl ts e r h
  rw [pBin_succ] at h
  split at h
  · rename_i hl
    obtain ⟨n, hn, hu⟩ := ih.unary _ _ _ h
    refine ⟨n, hn, ?_⟩
    obtain ⟨g, hg⟩ := exists_pred (x := 6 + (6 - lvl) + 12 * n) (by omega)
    rw [hg, pBin_succ, if_pos hl]; exact pUnary_mono hu (by omega)
  · rename_i hl
    split at h
    · rename_i l r1 heq
      obtain ⟨n1, hn1, h1⟩ := ih.bin _ _ _ _ heq
      obtain ⟨n2, hn2, h2⟩ := ih.binRest _ _ _ _ _ h
      refine ⟨n1 + n2, by omega, ?_⟩
      obtain ⟨g, hg⟩ := exists_pred (x := 6 + (6 - lvl) + 12 * (n1 + n2)) (by omega)
      rw [hg, pBin_succ, if_neg hl, pBin_mono h1 (by omega)]
      exact pBinRest_mono h2 (by omega)
    · cases h

theorem adeq_binRest {c : Cfg} {f : Nat} (ih : Adeq c f) : ∀ lvl l ts e r, pBinRest c (f + 1) lvl l ts = some (e, r) →
    ∃ n, ts.length = n + r.length ∧ pBinRest c (1 + 12 * n) lvl l ts = some (e, r) := by
  intro lvl l ts e r h
  rw [pBinRest_succ] at h
  split at h
  · rename_i t r0
    split at h
    · rename_i op hop
      split at h
      · rename_i rhs r1 heq
        obtain ⟨n1, hn1, h1⟩ := ih.bin _ _ _ _ heq
        obtain ⟨n2, hn2, h2⟩ := ih.binRest _ _ _ _ _ h
        refine ⟨1 + n1 + n2, by simp only [List.length_cons]; omega, ?_⟩
        obtain ⟨g, hg⟩ := exists_pred (x := 1 + 12 * (1 + n1 + n2)) (by omega)
        rw [hg, pBinRest_succ]
        simp only [hop, pBin_mono h1 (show 6 + (6 - (lvl + 1)) + 12 * n1 ≤ g by omega)]
        exact pBinRest_mono h2 (by omega)
      · cases h
    · rename_i hop
      injection h with h; injection h with h1 h2; subst h1 h2
      refine ⟨0, by simp, ?_⟩
      show pBinRest c (0 + 1) _ _ _ = _
      rw [pBinRest_succ]; simp only [hop]
  · injection h with h; injection h with h1 h2; subst h1 h2
    exact ⟨0, by simp, rfl⟩

theorem adeq_unary {c : Cfg} {f : Nat} (ih : Adeq c f) : ∀ ts e r, pUnary c (f + 1) ts = some (e, r) →
    ∃ n, ts.length = n + r.length ∧ pUnary c (5 + 12 * n) ts = some (e, r) := by
  intro ts e r h
  rw [pUnary_succ] at h
  split at h
  · split at h
    · rename_i e0 r0 heq
      injection h with h; injection h with h1 h2; subst h1 h2
      obtain ⟨n, hn, hu⟩ := ih.unary _ _ _ heq
      refine ⟨n + 1, by simp only [List.length_cons]; omega, ?_⟩
      obtain ⟨g, hg⟩ := exists_pred (x := 5 + 12 * (n + 1)) (by omega)
      rw [hg, pUnary_succ]
      simp only [pUnary_mono hu (show 5 + 12 * n ≤ g by omega)]
    · cases h
  · rename_i hm
    split at h
    · rename_i l r1 heq
      obtain ⟨n1, hn1, h1⟩ := ih.path _ _ _ heq
      obtain ⟨n2, hn2, h2⟩ := ih.unionRest _ _ _ _ h
      refine ⟨n1 + n2, by omega, ?_⟩
      obtain ⟨g, hg⟩ := exists_pred (x := 5 + 12 * (n1 + n2)) (by omega)
      rw [hg, pUnary_succ]
      split
      · exact absurd rfl (hm _ _)
      · simp only [pPath_mono h1 (show 4 + 12 * n1 ≤ g by omega)]
        exact pUnionRest_mono h2 (by omega)
    · cases h

theorem adeq_unionRest {c : Cfg} {f : Nat} (ih : Adeq c f) : ∀ l ts e r, pUnionRest c (f + 1) l ts = some (e, r) →
    ∃ n, ts.length = n + r.length ∧ pUnionRest c (1 + 12 * n) l ts = some (e, r) := by
  intro l ts e r h
  rw [pUnionRest_succ] at h
  split at h
  · split at h
    · rename_i rhs r1 heq
      obtain ⟨n1, hn1, h1⟩ := ih.path _ _ _ heq
      obtain ⟨n2, hn2, h2⟩ := ih.unionRest _ _ _ _ h
      refine ⟨1 + n1 + n2, by simp only [List.length_cons]; omega, ?_⟩
      obtain ⟨g, hg⟩ := exists_pred (x := 1 + 12 * (1 + n1 + n2)) (by omega)
      rw [hg, pUnionRest_succ]
      simp only [pPath_mono h1 (show 4 + 12 * n1 ≤ g by omega)]
      exact pUnionRest_mono h2 (by omega)
    · cases h
  · rename_i hm
    injection h with h; injection h with h1 h2; subst h1 h2
    refine ⟨0, by simp, ?_⟩
    show pUnionRest c (0 + 1) _ _ = _
    rw [pUnionRest_succ]
    split
    · exact absurd rfl (hm _ _)
    · rfl

theorem adeq_path {c : Cfg} {f : Nat} (ih : Adeq c f) : ∀ ts e r, pPath c (f + 1) ts = some (e, r) →
    ∃ n, ts.length = n + r.length ∧ pPath c (4 + 12 * n) ts = some (e, r) := by
  intro ts e r h
  rw [pPath_succ] at h
  split at h
  · split at h
    · rename_i hs
      obtain ⟨n, hn, hr⟩ := ih.rel _ _ _ _ h
      refine ⟨n + 1, by simp only [List.length_cons]; omega, ?_⟩
      obtain ⟨g, hg⟩ := exists_pred (x := 4 + 12 * (n + 1)) (by omega)
      rw [hg, pPath_succ]
      simp only [hs, if_true]
      exact pRel_mono hr (by omega)
    · rename_i hs
      injection h with h; injection h with h1 h2; subst h1 h2
      refine ⟨1, by simp only [List.length_cons]; omega, ?_⟩
      show pPath c (15 + 1) _ = _
      rw [pPath_succ]
      simp only [hs]; rfl
  · obtain ⟨n, hn, hr⟩ := ih.rel _ _ _ _ h
    refine ⟨n + 1, by simp only [List.length_cons]; omega, ?_⟩
    obtain ⟨g, hg⟩ := exists_pred (x := 4 + 12 * (n + 1)) (by omega)
    rw [hg, pPath_succ]
    exact pRel_mono hr (by omega)
  · rename_i hn1 hn2
    split at h
    · rename_i hs
      split at h
      · rename_i e0 r0 hp
        obtain ⟨n1, hl1, h1⟩ := ih.primary _ _ _ hp
        split at h
        · rename_i e1 g1 r1 hf
          obtain ⟨n2, hl2, h2⟩ := ih.filt _ _ _ _ hf
          obtain ⟨n3, hl3, h3⟩ := ih.rel _ _ _ _ h
          refine ⟨n1 + n2 + 1 + n3, by simp only [List.length_cons] at hl2; omega, ?_⟩
          obtain ⟨g, hg⟩ := exists_pred (x := 4 + 12 * (n1 + n2 + 1 + n3)) (by omega)
          rw [hg, pPath_succ]
          split
          · exact absurd rfl (hn1 _ _)
          · exact absurd rfl (hn2 _ _)
          · simp only [hs, if_true, pPrimary_mono h1 (show 1 + 12 * n1 ≤ g by omega),
              pFilt_mono h2 (show 1 + 12 * n2 ≤ g by omega)]
            exact pRel_mono h3 (by omega)
        · rename_i e1 g1 r1 hf
          obtain ⟨n2, hl2, h2⟩ := ih.filt _ _ _ _ hf
          obtain ⟨n3, hl3, h3⟩ := ih.rel _ _ _ _ h
          refine ⟨n1 + n2 + 1 + n3, by simp only [List.length_cons] at hl2; omega, ?_⟩
          obtain ⟨g, hg⟩ := exists_pred (x := 4 + 12 * (n1 + n2 + 1 + n3)) (by omega)
          rw [hg, pPath_succ]
          split
          · exact absurd rfl (hn1 _ _)
          · exact absurd rfl (hn2 _ _)
          · simp only [hs, if_true, pPrimary_mono h1 (show 1 + 12 * n1 ≤ g by omega),
              pFilt_mono h2 (show 1 + 12 * n2 ≤ g by omega)]
            exact pRel_mono h3 (by omega)
        · rename_i hm1 hm2
          obtain ⟨n2, hl2, h2⟩ := ih.filt _ _ _ _ h
          refine ⟨n1 + n2, by omega, ?_⟩
          obtain ⟨g, hg⟩ := exists_pred (x := 4 + 12 * (n1 + n2)) (by omega)
          rw [hg, pPath_succ]
          split
          · exact absurd rfl (hn1 _ _)
          · exact absurd rfl (hn2 _ _)
          · simp only [hs, if_true, pPrimary_mono h1 (show 1 + 12 * n1 ≤ g by omega),
              pFilt_mono h2 (show 1 + 12 * n2 ≤ g by omega)]
            split
            · rename_i heq; exact absurd (heq ▸ h) (hm1 _ _ _)
            · rename_i heq; exact absurd (heq ▸ h) (hm2 _ _ _)
            · rfl
      · cases h
    · rename_i hs
      obtain ⟨n, hn, hr⟩ := ih.rel _ _ _ _ h
      refine ⟨n, hn, ?_⟩
      obtain ⟨g, hg⟩ := exists_pred (x := 4 + 12 * n) (by omega)
      rw [hg, pPath_succ]
      split
      · exact absurd rfl (hn1 _ _)
      · exact absurd rfl (hn2 _ _)
      · simp only [hs]
        exact pRel_mono hr (by omega)

theorem adeq_filt {c : Cfg} {f : Nat} (ih : Adeq c f) : ∀ b ts e r, pFilt c (f + 1) b ts = some (e, r) →
    ∃ n, ts.length = n + r.length ∧ pFilt c (1 + 12 * n) b ts = some (e, r) := by
  intro b ts e r h
  rw [pFilt_succ] at h
  split at h
  · split at h
    · rename_i p g1 r1 hb
      obtain ⟨n1, hl1, h1⟩ := ih.bin _ _ _ _ hb
      obtain ⟨n2, hl2, h2⟩ := ih.filt _ _ _ _ h
      refine ⟨1 + n1 + 1 + n2, by simp only [List.length_cons] at hl1 ⊢; omega, ?_⟩
      obtain ⟨g, hg⟩ := exists_pred (x := 1 + 12 * (1 + n1 + 1 + n2)) (by omega)
      rw [hg, pFilt_succ]
      simp only [pBin_mono h1 (show 6 + (6 - 0) + 12 * n1 ≤ g by omega)]
      exact pFilt_mono h2 (by omega)
    · cases h
  · rename_i hm
    injection h with h; injection h with h1 h2; subst h1 h2
    refine ⟨0, by simp, ?_⟩
    show pFilt c (0 + 1) _ _ = _
    rw [pFilt_succ]
    split
    · exact absurd rfl (hm _ _)
    · rfl

theorem adeq_primary {c : Cfg} {f : Nat} (ih : Adeq c f) : ∀ ts e r, pPrimary c (f + 1) ts = some (e, r) →
    ∃ n, ts.length = n + r.length ∧ pPrimary c (1 + 12 * n) ts = some (e, r) := by
  intro ts e r h
  rw [pPrimary_succ] at h
  split at h
  · split at h
    · rename_i e0 g1 r1 hb
      injection h with h; injection h with h1 h2; subst h1 h2
      obtain ⟨n1, hl1, h1⟩ := ih.bin _ _ _ _ hb
      refine ⟨1 + n1 + 1, by simp only [List.length_cons] at hl1 ⊢; omega, ?_⟩
      obtain ⟨g, hg⟩ := exists_pred (x := 1 + 12 * (1 + n1 + 1)) (by omega)
      rw [hg, pPrimary_succ]
      simp only [pBin_mono h1 (show 6 + (6 - 0) + 12 * n1 ≤ g by omega)]
    · cases h
  · injection h with h; injection h with h1 h2; subst h1 h2
    exact ⟨1, by simp only [List.length_cons]; omega, rfl⟩
  · injection h with h; injection h with h1 h2; subst h1 h2
    exact ⟨1, by simp only [List.length_cons]; omega, rfl⟩
  · rename_i hn1 hn2 hn3
    split at h
    · rename_i pfx name r0 hc
      split at h
      · rename_i as r1 ha
        injection h with h; injection h with h1 h2; subst h1 h2
        have hl0 := callStart_len hc
        obtain ⟨n1, hl1, h1⟩ := ih.args _ _ _ ha
        refine ⟨ts.length - r0.length + n1, by omega, ?_⟩
        obtain ⟨g, hg⟩ := exists_pred (x := 1 + 12 * (ts.length - r0.length + n1)) (by omega)
        rw [hg, pPrimary_succ]
        split
        · exact absurd rfl (hn1 _ _)
        · exact absurd rfl (hn2 _ _ _ _)
        · exact absurd rfl (hn3 _ _ _)
        · simp only [hc, pArgs_mono h1 (show 14 + 12 * n1 ≤ g by omega)]
      · cases h
    · rename_i hc
      have hl0 := number_len h
      refine ⟨ts.length - r.length, by omega, ?_⟩
      obtain ⟨g, hg⟩ := exists_pred (x := 1 + 12 * (ts.length - r.length)) (by omega)
      rw [hg, pPrimary_succ]
      split
      · exact absurd rfl (hn1 _ _)
      · exact absurd rfl (hn2 _ _ _ _)
      · exact absurd rfl (hn3 _ _ _)
      · simp only [hc]; exact h

theorem adeq_rel {c : Cfg} {f : Nat} (ih : Adeq c f) : ∀ b ts e r, pRel c (f + 1) b ts = some (e, r) →
    ∃ n, ts.length = n + r.length ∧ pRel c (3 + 12 * n) b ts = some (e, r) := by
  intro b ts e r h
  rw [pRel_succ] at h
  split at h
  · rename_i e1 g1 r1 hs
    obtain ⟨n1, hl1, h1⟩ := ih.step _ _ _ _ hs
    obtain ⟨n2, hl2, h2⟩ := ih.rel _ _ _ _ h
    refine ⟨n1 + 1 + n2, by simp only [List.length_cons] at hl1; omega, ?_⟩
    obtain ⟨g, hg⟩ := exists_pred (x := 3 + 12 * (n1 + 1 + n2)) (by omega)
    rw [hg, pRel_succ]
    simp only [pStep_mono h1 (show 2 + 12 * n1 ≤ g by omega)]
    exact pRel_mono h2 (by omega)
  · rename_i e1 g1 r1 hs
    obtain ⟨n1, hl1, h1⟩ := ih.step _ _ _ _ hs
    obtain ⟨n2, hl2, h2⟩ := ih.rel _ _ _ _ h
    refine ⟨n1 + 1 + n2, by simp only [List.length_cons] at hl1; omega, ?_⟩
    obtain ⟨g, hg⟩ := exists_pred (x := 3 + 12 * (n1 + 1 + n2)) (by omega)
    rw [hg, pRel_succ]
    simp only [pStep_mono h1 (show 2 + 12 * n1 ≤ g by omega)]
    exact pRel_mono h2 (by omega)
  · rename_i hm1 hm2
    obtain ⟨n1, hl1, h1⟩ := ih.step _ _ _ _ h
    refine ⟨n1, hl1, ?_⟩
    obtain ⟨g, hg⟩ := exists_pred (x := 3 + 12 * n1) (by omega)
    rw [hg, pRel_succ, pStep_mono h1 (show 2 + 12 * n1 ≤ g by omega)]
    split
    · rename_i heq; exact absurd (heq ▸ h) (hm1 _ _ _)
    · rename_i heq; exact absurd (heq ▸ h) (hm2 _ _ _)
    · rfl

theorem adeq_step {c : Cfg} {f : Nat} (ih : Adeq c f) : ∀ b ts e r, pStep c (f + 1) b ts = some (e, r) →
    ∃ n, ts.length = n + r.length ∧ pStep c (2 + 12 * n) b ts = some (e, r) := by
  intro b ts e r h
  rw [pStep_succ] at h
  split at h
  · injection h with h; injection h with h1 h2; subst h1 h2
    exact ⟨1, by simp only [List.length_cons]; omega, rfl⟩
  · injection h with h; injection h with h1 h2; subst h1 h2
    exact ⟨1, by simp only [List.length_cons]; omega, rfl⟩
  · rename_i g0 r0
    split at h
    · rename_i t r1 hnt
      split at h
      · rename_i ps r2 hp
        injection h with h; injection h with h1 h2; subst h1 h2
        have hl0 := nodeTest_len hnt
        obtain ⟨n1, hl1, h1⟩ := ih.preds _ _ _ hp
        refine ⟨1 + (r0.length - r1.length) + n1, by simp only [List.length_cons]; omega, ?_⟩
        obtain ⟨g, hg⟩ := exists_pred (x := 2 + 12 * (1 + (r0.length - r1.length) + n1)) (by omega)
        rw [hg, pStep_succ]
        simp only [hnt, pPreds_mono h1 (show 1 + 12 * n1 ≤ g by omega)]
      · cases h
    · cases h
  · rename_i a g0 g1 r0
    split at h
    · rename_i t r1 hnt
      split at h
      · rename_i ps r2 hp
        injection h with h; injection h with h1 h2; subst h1 h2
        have hl0 := nodeTest_len hnt
        obtain ⟨n1, hl1, h1⟩ := ih.preds _ _ _ hp
        refine ⟨2 + (r0.length - r1.length) + n1, by simp only [List.length_cons]; omega, ?_⟩
        obtain ⟨g, hg⟩ := exists_pred (x := 2 + 12 * (2 + (r0.length - r1.length) + n1)) (by omega)
        rw [hg, pStep_succ]
        simp only [hnt, pPreds_mono h1 (show 1 + 12 * n1 ≤ g by omega)]
      · cases h
    · cases h
  · rename_i hn1 hn2 hn3 hn4
    split at h
    · rename_i pfx name r0 hc
      split at h
      · rename_i as r1 ha
        injection h with h; injection h with h1 h2; subst h1 h2
        have hl0 := callStart_len hc
        obtain ⟨n1, hl1, h1⟩ := ih.args _ _ _ ha
        refine ⟨ts.length - r0.length + n1, by omega, ?_⟩
        obtain ⟨g, hg⟩ := exists_pred (x := 2 + 12 * (ts.length - r0.length + n1)) (by omega)
        rw [hg, pStep_succ]
        split
        · exact absurd rfl (hn1 _ _)
        · exact absurd rfl (hn2 _ _)
        · exact absurd rfl (hn3 _ _)
        · exact absurd rfl (hn4 _ _ _ _)
        · simp only [hc, pArgs_mono h1 (show 14 + 12 * n1 ≤ g by omega)]
      · cases h
    · rename_i hc
      split at h
      · rename_i t r1 hnt
        split at h
        · rename_i ps r2 hp
          injection h with h; injection h with h1 h2; subst h1 h2
          have hl0 := nodeTest_len hnt
          obtain ⟨n1, hl1, h1⟩ := ih.preds _ _ _ hp
          refine ⟨(ts.length - r1.length) + n1, by omega, ?_⟩
          obtain ⟨g, hg⟩ := exists_pred (x := 2 + 12 * ((ts.length - r1.length) + n1)) (by omega)
          rw [hg, pStep_succ]
          split
          · exact absurd rfl (hn1 _ _)
          · exact absurd rfl (hn2 _ _)
          · exact absurd rfl (hn3 _ _)
          · exact absurd rfl (hn4 _ _ _ _)
          · simp only [hc, hnt, pPreds_mono h1 (show 1 + 12 * n1 ≤ g by omega)]
        · cases h
      · cases h

theorem adeq_preds {c : Cfg} {f : Nat} (ih : Adeq c f) : ∀ ts e r, pPreds c (f + 1) ts = some (e, r) →
    ∃ n, ts.length = n + r.length ∧ pPreds c (1 + 12 * n) ts = some (e, r) := by
  intro ts e r h
  rw [pPreds_succ] at h
  split at h
  · split at h
    · rename_i p g1 r1 hb
      split at h
      · rename_i ps r2 hp
        injection h with h; injection h with h1 h2; subst h1 h2
        obtain ⟨n1, hl1, h1⟩ := ih.bin _ _ _ _ hb
        obtain ⟨n2, hl2, h2⟩ := ih.preds _ _ _ hp
        refine ⟨1 + n1 + 1 + n2, by simp only [List.length_cons] at hl1 ⊢; omega, ?_⟩
        obtain ⟨g, hg⟩ := exists_pred (x := 1 + 12 * (1 + n1 + 1 + n2)) (by omega)
        rw [hg, pPreds_succ]
        simp only [pBin_mono h1 (show 6 + (6 - 0) + 12 * n1 ≤ g by omega),
          pPreds_mono h2 (show 1 + 12 * n2 ≤ g by omega)]
      · cases h
    · cases h
  · rename_i hm
    injection h with h; injection h with h1 h2; subst h1 h2
    refine ⟨0, by simp, ?_⟩
    show pPreds c (0 + 1) _ = _
    rw [pPreds_succ]
    split
    · exact absurd rfl (hm _ _)
    · rfl

theorem adeq_args {c : Cfg} {f : Nat} (ih : Adeq c f) : ∀ ts e r, pArgs c (f + 1) ts = some (e, r) →
    ∃ n, ts.length = n + r.length ∧ pArgs c (14 + 12 * n) ts = some (e, r) := by
  intro ts e r h
  rw [pArgs_succ] at h
  split at h
  · injection h with h; injection h with h1 h2; subst h1 h2
    exact ⟨1, by simp only [List.length_cons]; omega, rfl⟩
  · rename_i hm
    obtain ⟨n, hl, h1⟩ := ih.args1 _ _ _ h
    refine ⟨n, hl, ?_⟩
    obtain ⟨g, hg⟩ := exists_pred (x := 14 + 12 * n) (by omega)
    rw [hg, pArgs_succ]
    split
    · exact absurd rfl (hm _ _)
    · exact pArgs1_mono h1 (by omega)

theorem adeq_args1 {c : Cfg} {f : Nat} (ih : Adeq c f) : ∀ ts e r, pArgs1 c (f + 1) ts = some (e, r) →
    ∃ n, ts.length = n + r.length ∧ pArgs1 c (13 + 12 * n) ts = some (e, r) := by
  intro ts e r h
  rw [pArgs1_succ] at h
  split at h
  · rename_i e0 g1 r1 hb
    split at h
    · rename_i es r2 ha
      injection h with h; injection h with h1 h2; subst h1 h2
      obtain ⟨n1, hl1, h1⟩ := ih.bin _ _ _ _ hb
      obtain ⟨n2, hl2, h2⟩ := ih.args1 _ _ _ ha
      refine ⟨n1 + 1 + n2, by simp only [List.length_cons] at hl1; omega, ?_⟩
      obtain ⟨g, hg⟩ := exists_pred (x := 13 + 12 * (n1 + 1 + n2)) (by omega)
      rw [hg, pArgs1_succ]
      simp only [pBin_mono h1 (show 6 + (6 - 0) + 12 * n1 ≤ g by omega),
        pArgs1_mono h2 (show 13 + 12 * n2 ≤ g by omega)]
    · cases h
  · rename_i e0 g1 r1 hb
    injection h with h; injection h with h1 h2; subst h1 h2
    obtain ⟨n1, hl1, h1⟩ := ih.bin _ _ _ _ hb
    refine ⟨n1 + 1, by simp only [List.length_cons] at hl1; omega, ?_⟩
    obtain ⟨g, hg⟩ := exists_pred (x := 13 + 12 * (n1 + 1)) (by omega)
    rw [hg, pArgs1_succ]
    simp only [pBin_mono h1 (show 6 + (6 - 0) + 12 * n1 ≤ g by omega)]
  · cases h

theorem adeq (c : Cfg) : ∀ f, Adeq c f
  | 0 => adeq_zero c
  | f + 1 =>
    have ih := adeq c f
    ⟨adeq_bin ih, adeq_binRest ih, adeq_unary ih, adeq_unionRest ih, adeq_path ih, adeq_filt ih,
      adeq_primary ih, adeq_rel ih, adeq_step ih, adeq_preds ih, adeq_args ih, adeq_args1 ih⟩

/-- a successful `pBin … lvl` run returns a suffix and needs at most `12 - lvl + 12 * consumed` fuel -/
theorem pBin_fuel {c : Cfg} {f lvl : Nat} {ts r : Toks} {e : Expr} (h : pBin c f lvl ts = some (e, r)) :
    ∃ n, ts.length = n + r.length ∧ pBin c (6 + (6 - lvl) + 12 * n) lvl ts = some (e, r) :=
  (adeq c f).bin _ _ _ _ h

/-- if ANY amount of fuel lets the parser read `ts` completely, `parseToks` (fuel `fuelFor ts`)
    finds the same tree -/
theorem parseToks_complete (c : Cfg) (ts : Toks) (e : Expr) (f : Nat)
    (h : pBin c f 0 ts = some (e, [])) : parseToks c ts = some e := by
  obtain ⟨n, hn, h1⟩ := pBin_fuel h
  have h2 : pBin c (fuelFor ts) 0 ts = some (e, []) :=
    pBin_mono h1 (by simp only [fuelFor, List.length_nil] at hn ⊢; omega)
  simp only [parseToks, h2]

/-- and conversely `parseToks` is such a run -/
theorem parseToks_sound (c : Cfg) (ts : Toks) (e : Expr) (h : parseToks c ts = some e) :
    ∃ f, pBin c f 0 ts = some (e, []) := by
  refine ⟨fuelFor ts, ?_⟩
  unfold parseToks at h
  split at h
  · injection h with h; subst h; assumption
  · cases h

theorem parseToks_iff (c : Cfg) (ts : Toks) (e : Expr) :
    parseToks c ts = some e ↔ ∃ f, pBin c f 0 ts = some (e, []) :=
  ⟨parseToks_sound c ts e, fun ⟨f, h⟩ => parseToks_complete c ts e f h⟩

end Xsel.Syntax
