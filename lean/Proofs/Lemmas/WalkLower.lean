/-
  Proofs/Lemmas/WalkLower.lean — the handler walk over ANY tree that `lower` reads computes the value of the
  abstract syntax `lower` reads from it.
-/
import Xsel.Lower
import Proofs.Lemmas.WalkNames
import Proofs.Lemmas.WalkFrame

namespace Xsel.Walk.L2
open Xsel Xsel.Syntax Xsel.Walk

theorem lowRnc_eq {r : PT} {n : Chars} (h : lowRnc r = some n) : ∃ k : Kw, r = rncNode k ∧ n = k.chars := by
  unfold lowRnc at h
  split at h
  · rename_i k
    exact ⟨k, rfl, by simpa using h.symm⟩
  · cases h

/-- every node test the grammar can produce is evaluated as the node test `lowTest` reads from it -/
theorem walk_lowTest {T : PT} {t : NodeTest} (h : lowTest T = some t) (w : WCtx) :
    walk tbl T w = walk tbl (testNode t) w := by
  unfold lowTest at h
  split at h
  · rename_i t0
    split at h
    case h_1 ty =>
      -- node type tests
      unfold lowNodeType at h
      split at h <;> first | (cases h; rfl) | cases h
    case h_2 dq s =>
      cases h
      -- the kind of quote the literal is written with does not matter
      simp only [testNode, litNode, N, ofList_cons, ofList_nil]
      rw [walk_nohandler _ _ _ _ lk_NodeTest, walkFirst_nt, walk_nohandler _ _ _ _ lk_NodeTest, walkFirst_nt, walk, walk]
      simp only [lk_NodeTestProcInstTargetTest, walkLast_cons, ntCount_cons, ntCount_nil, isNt_tk, isNt_tkp, isNt_nt]
      have e1 : ∀ (q : Bool), walk tbl (PT.nt "Literal" (PTs.cons (PT.tk (Tok.lit q s)) PTs.nil)) w = .ok (w.set (.str s)) := by
        intro q; rw [walk]; simp [PTs.text, PT.text, tokText]
      simp [e1, litTok, tkp]
    case h_3 => cases h; rfl
    case h_4 p => cases h; rfl
    case h_5 r =>
      cases hr : lowRnc r with
      | none => simp [hr] at h
      | some n =>
        obtain ⟨k, rfl, rfl⟩ := lowRnc_eq hr
        simp [hr] at h; subst h
        exact rnc_nsAny k w
    case h_6 l => cases h; rfl
    case h_7 r =>
      cases hr : lowRnc r with
      | none => simp [hr] at h
      | some n =>
        obtain ⟨k, rfl, rfl⟩ := lowRnc_eq hr
        simp [hr] at h; subst h
        exact rnc_localAny k w
    case h_8 l => cases h; rfl
    case h_9 r =>
      cases hr : lowRnc r with
      | none => simp [hr] at h
      | some n =>
        obtain ⟨k, rfl, rfl⟩ := lowRnc_eq hr
        simp [hr] at h; subst h
        exact rnc_name k w
    case h_10 p l => cases h; rfl
    case h_11 r l =>
      cases hr : lowRnc r with
      | none => simp [hr] at h
      | some n =>
        obtain ⟨k, rfl, rfl⟩ := lowRnc_eq hr
        simp [hr] at h; subst h
        exact rnc_qname_ns k l w
    case h_12 p r =>
      cases hr : lowRnc r with
      | none => simp [hr] at h
      | some n =>
        obtain ⟨k, rfl, rfl⟩ := lowRnc_eq hr
        simp [hr] at h; subst h
        exact rnc_qname_local p k w
    case h_13 r1 r2 =>
      cases hr1 : lowRnc r1 with
      | none => simp [hr1] at h
      | some n1 =>
        cases hr2 : lowRnc r2 with
        | none => simp [hr1, hr2] at h
        | some n2 =>
          obtain ⟨k1, rfl, rfl⟩ := lowRnc_eq hr1
          obtain ⟨k2, rfl, rfl⟩ := lowRnc_eq hr2
          simp [hr1, hr2] at h; subst h
          exact rnc_qname_both k1 k2 w
    case h_14 => cases h
  · cases h

theorem walk_lowAxis {A : PT} {ax : Axis} (h : lowAxis A = some ax) (w : WCtx) :
    walk tbl A w = walk tbl (axisNode ax) w := by
  unfold lowAxis at h
  split at h
  · cases h
    simp only [axisNode, N, ofList_cons, ofList_nil]
    rw [walk_nohandler _ _ _ _ lk_AxisSpecifier, walkFirst_nt, walk_nohandler _ _ _ _ lk_AxisSpecifier, walkFirst_nt,
      walk_nohandler _ _ _ _ lk_AxisSpecifierWithAxisName, walkFirst_nt, walk, walk]
    simp only [lk_AbbreviatedAxisSpecifier, lk_AxisName, PTs.text, PT.text, tokText, Kw.chars, List.append_nil,
      axisOfText_axisText]
  · cases h; rfl
  · cases h

theorem isNt_of_lowTest {T : PT} {t : NodeTest} (h : lowTest T = some t) : T.isNt = true := by
  cases T with
  | nt n k => rfl
  | tk x => simp [lowTest] at h

theorem isNt_of_lowAxis {A : PT} {ax : Axis} (h : lowAxis A = some ax) : A.isNt = true := by
  cases A with
  | nt n k => rfl
  | tk x => simp [lowAxis] at h

/-- `Axis Test` for any trees the grammar produces for them = the canonical node -/
theorem walk_lowAxisTest {A T : PT} {ax : Axis} {t : NodeTest} (ha : lowAxis A = some ax) (ht : lowTest T = some t)
    (w : WCtx) :
    walk tbl (N "StepWithAxisAndNodeTest" [A, T]) w = walk tbl (N "StepWithAxisAndNodeTest" [axisNode ax, testNode t]) w := by
  have hA := isNt_of_lowAxis ha
  have hT := isNt_of_lowTest ht
  have hA' : (axisNode ax).isNt = true := rfl
  have hT' : (testNode t).isNt = true := by cases t <;> rfl
  simp only [N, ofList_cons, ofList_nil]
  rw [walk, walk]
  simp only [lk_StepWithAxisAndNodeTest]
  rw [walkNth_cons_nt0 _ _ _ _ hA, walkNth_cons_nt0 _ _ _ _ hA']
  simp only [walkNth_one _ _ _ _ hA, walkNth_one _ _ _ _ hA', walkNth_cons_nt0 _ _ _ _ hT, walkNth_cons_nt0 _ _ _ _ hT']
  rw [walk_lowAxis ha]
  congr 1
  funext w1
  exact walk_lowTest ht w1

/-! ### congruence: a `Step` node only looks at the NAME and the WALK of its child -/

theorem step_congr (n : String) (k k' : PTs) (h : ∀ w, walk tbl (.nt n k) w = walk tbl (.nt n k') w) (w : WCtx) :
    walk tbl (N "Step" [.nt n k]) w = walk tbl (N "Step" [.nt n k']) w := by
  have hf : walk tbl (.nt n k) = walk tbl (.nt n k') := funext h
  simp only [N, ofList_cons, ofList_nil]
  rw [walk, walk]
  simp only [lk_Step, PTs.lastNtName, PT.isNt, PT.name, walkLast_cons, ntCount_nil, beq_self_eq_true, if_true, hf]

/-- the first of two nonterminal children of a `leftRightDependentResult` node may be replaced by a tree with
    the same walk -/
theorem lrdep_congr_first (name : String) (hl : lookupS name tbl = some "leftRightDependentResult")
    (X X' D : PT) (hX : X.isNt = true) (hX' : X'.isNt = true) (h : ∀ w, walk tbl X w = walk tbl X' w) (w : WCtx) :
    walk tbl (N name [X, D]) w = walk tbl (N name [X', D]) w := by
  simp only [N, ofList_cons, ofList_nil]
  rw [walk, walk]
  simp only [hl]
  rw [walkNth_cons_nt0 _ _ _ _ hX, walkNth_cons_nt0 _ _ _ _ hX', h]
  simp only [walkNth_one _ _ _ _ hX, walkNth_one _ _ _ _ hX']

/-! ### steps with an arbitrary predicate tree -/

/-- the walk of a predicate-list tree `D` applies the predicates `ps` -/
def PredsClaim (D : PT) (ps : Exprs) : Prop :=
  ∀ (w : WCtx) (l : List Nat), w.res = .nodes l →
    walk tbl D w = (match applyPreds Model.sem ps w.c l with
      | .ok r => .ok (w.set (.nodes r))
      | .error e => .error (.err e))

theorem walk_stepBodyG (ax : Axis) (t : NodeTest) (D : PT) (ps : Exprs) (x : WCtx) (s : List Nat)
    (hres : x.res = .nodes s) (hk : x.principal = .elem) (hD : D.isNt = true) (hP : PredsClaim D ps) :
    walk tbl (N "StepWithAxisAndNodeTestAndPredicate" [N "StepWithAxisAndNodeTest" [axisNode ax, testNode t], D]) x =
      (match (NodeTest.apply x.c.a x.c.env ax t (Model.axis x.c.a ax s) >>= fun l => applyPreds Model.sem ps x.c l) with
       | .ok r => .ok ({ x with principal := principalAfter ax .elem }.set (.nodes r))
       | .error e => .error (.err e)) := by
  simp only [N, ofList_cons, ofList_nil]
  rw [walk]
  simp only [lk_StepWithAxisAndNodeTestAndPredicate]
  rw [walkNth_nt0]
  simp only [walkNth_ntS, walkNth_cons_nt0 _ _ _ _ hD]
  have := walk_axisTest ax t x s hres hk
  simp only [N, ofList_cons, ofList_nil] at this
  rw [this]
  cases NodeTest.apply x.c.a x.c.env ax t (Model.axis x.c.a ax s) with
  | error e => rfl
  | ok l =>
    show walk tbl D ({ x with principal := principalAfter ax .elem }.set (.nodes l)) = _
    rw [hP _ l rfl]
    show (match applyPreds Model.sem ps { x.c with result := .nodes l } l with | .ok r => _ | .error e => _) = _
    rw [applyPreds_ctx]
    show _ = (match applyPreds Model.sem ps x.c l with | .ok r => _ | .error e => _)
    cases applyPreds Model.sem ps x.c l <;> rfl

/-- a step with predicates, for an arbitrary predicate tree -/
theorem sim_stepG (ax : Axis) (t : NodeTest) (D : PT) (p : Expr) (ps : Exprs) (w : WCtx)
    (hD : D.isNt = true) (hP : PredsClaim D (.cons p ps)) :
    Sim (walk tbl (N "Step" [N "StepWithAxisAndNodeTestAndPredicate" [N "StepWithAxisAndNodeTest" [axisNode ax, testNode t], D]]) w) w.c
      (stepSem ax t (.cons p ps) w.c w.res) := by
  simp only [N, ofList_cons, ofList_nil]
  rw [walk_Step_preds]
  unfold stepSem
  have body := fun (x : WCtx) (s' : List Nat) (h1 : x.res = .nodes s') (h2 : x.principal = .elem) =>
    walk_stepBodyG ax t D (.cons p ps) x s' h1 h2 hD hP
  simp only [N, ofList_cons, ofList_nil] at body
  cases hr : w.res with
  | nodes s =>
    simp only [Val.nodes?, Model.sem, Exprs.isNil, Bool.false_or, Bool.not_false, Bool.true_and, decide_eq_true_eq]
    show Sim _ _ (if s.length > 1 then _ else _)
    by_cases hl : s.length > 1
    · simp only [hl, if_true]
      have hf : ∀ n, (walk tbl (.nt "StepWithAxisAndNodeTestAndPredicate"
              (PTs.cons (PT.nt "StepWithAxisAndNodeTest" (PTs.cons (axisNode ax) (PTs.cons (testNode t) PTs.nil)))
                (PTs.cons D PTs.nil))) ((⟨w.c, .elem⟩ : WCtx).set (.nodes [n])) >>= nodesOf)
          = liftE (NodeTest.apply w.c.a w.c.env ax t (Model.axis w.c.a ax [n]) >>= fun l =>
              applyPreds Model.sem (.cons p ps) w.c l) := by
        intro n
        rw [body _ [n] rfl rfl]
        show (match (NodeTest.apply w.c.a w.c.env ax t (Model.axis w.c.a ax [n]) >>= fun l =>
            applyPreds Model.sem (.cons p ps) { w.c with result := .nodes [n] } l) with
          | .ok r => _ | .error e => _) >>= nodesOf = _
        simp only [applyPreds_ctx]
        cases (NodeTest.apply w.c.a w.c.env ax t (Model.axis w.c.a ax [n]) >>= fun l =>
            applyPreds Model.sem (.cons p ps) w.c l) <;> rfl
      rw [concatMapW_lift hf s]
      have hne : s ≠ [] := by intro h; rw [h] at hl; simp at hl
      show Sim _ _ (NodeTest.apply w.c.a w.c.env ax t [] >>= fun _ =>
        concatMapE (fun n => NodeTest.apply w.c.a w.c.env ax t (Model.axis w.c.a ax [n]) >>= fun l =>
          applyPreds Model.sem (.cons p ps) w.c l) s >>= fun r => pure (.nodes (cleanupFwd r)))
      have := nil_bind_concat w.c.a w.c.env ax t
        (fun l => applyPreds Model.sem (.cons p ps) w.c l) (fun n => Model.axis w.c.a ax [n]) s hne
      cases hb : NodeTest.apply w.c.a w.c.env ax t [] with
      | error e =>
        rw [hb] at this
        have h2 : concatMapE (fun n => NodeTest.apply w.c.a w.c.env ax t (Model.axis w.c.a ax [n]) >>= fun l =>
          applyPreds Model.sem (.cons p ps) w.c l) s = .error e := this.symm
        rw [h2]
        exact Sim.err rfl
      | ok v =>
        show Sim _ _ (concatMapE _ s >>= fun r => pure (.nodes (cleanupFwd r)))
        cases concatMapE (fun n => NodeTest.apply w.c.a w.c.env ax t (Model.axis w.c.a ax [n]) >>= fun l =>
          applyPreds Model.sem (.cons p ps) w.c l) s with
        | error e => exact Sim.err rfl
        | ok r => exact Sim.ok .elem rfl
    · simp only [hl, if_false]
      rw [body ⟨w.c, .elem⟩ s hr rfl]
      show Sim (match (NodeTest.apply w.c.a w.c.env ax t (Model.axis w.c.a ax s) >>= fun l =>
            applyPreds Model.sem (.cons p ps) w.c l) with
          | .ok r => .ok ((⟨w.c, principalAfter ax .elem⟩ : WCtx).set (.nodes r))
          | .error e => .error (.err e)) w.c
        (NodeTest.apply w.c.a w.c.env ax t (Model.axis w.c.a ax s) >>= fun l =>
          applyPreds Model.sem (.cons p ps) w.c l >>= fun r => pure (.nodes r))
      rw [← bind_assoc]
      generalize (NodeTest.apply w.c.a w.c.env ax t (Model.axis w.c.a ax s) >>= fun l =>
            applyPreds Model.sem (.cons p ps) w.c l) = z
      cases z with
      | error e => exact Sim.err rfl
      | ok r => exact Sim.ok _ rfl
  | num n =>
    have := walk_stepBody_notNodes ax t D ⟨w.c, .elem⟩ (fun l h => by rw [res_elem, hr] at h; cases h)
    simp only [N, ofList_cons, ofList_nil] at this
    exact Sim.err this
  | str n =>
    have := walk_stepBody_notNodes ax t D ⟨w.c, .elem⟩ (fun l h => by rw [res_elem, hr] at h; cases h)
    simp only [N, ofList_cons, ofList_nil] at this
    exact Sim.err this
  | bool n =>
    have := walk_stepBody_notNodes ax t D ⟨w.c, .elem⟩ (fun l h => by rw [res_elem, hr] at h; cases h)
    simp only [N, ofList_cons, ofList_nil] at this
    exact Sim.err this

/-! ### the claims of the induction -/

def SimT (t : PT) (e : Expr) : Prop := ∀ w : WCtx, Sim (walk tbl t w) w.c (eval Model.sem e w.c)

/-- `t` continues the path whose value so far is that of `base` -/
def RelClaim (t : PT) (base e : Expr) : Prop :=
  ∀ (w : WCtx) (r0 : R), Sim r0 w.c (eval Model.sem base w.c) → Sim (r0 >>= walk tbl t) w.c (eval Model.sem e w.c)

def PredClaim (P : PT) (p : Expr) : Prop :=
  ∀ (w : WCtx) (l : List Nat), w.res = .nodes l →
    walk tbl P w = (match applyPred Model.sem p w.c l with
      | .ok r => .ok (w.set (.nodes r))
      | .error e => .error (.err e))

def ArgsClaim (t : PT) (as : Exprs) : Prop := ∀ w : WCtx, walkArgs tbl t w = liftE (evalArgs Model.sem as w.c)

theorem predClaim_of (E : PT) (p : Expr) (hE : E.isNt = true) (h : SimT E p) : PredClaim (predNode E) p :=
  fun w l hres => walk_predNode E p w l hE hres h

theorem predsClaim_one (P : PT) (p : Expr) (hP : P.isNt = true) (h : PredClaim P p) :
    PredsClaim (N "StepWithPredicate" [P]) (.cons p .nil) := by
  intro w l hres
  rw [walk_unit _ _ _ _ lk_StepWithPredicate hP, h w l hres, applyPreds]
  cases applyPred Model.sem p w.c l with
  | error e => rfl
  | ok r => rw [show (Except.ok r >>= fun kept => applyPreds Model.sem .nil w.c kept) = applyPreds Model.sem .nil w.c r from rfl, applyPreds]

theorem predsClaim_more (P D : PT) (p : Expr) (ps : Exprs) (hP : P.isNt = true) (hD : D.isNt = true)
    (h : PredClaim P p) (hd : PredsClaim D ps) :
    PredsClaim (N "StepWithPredicate" [N "StepWithPredicateWithAnotherPredicate" [P, D]]) (.cons p ps) := by
  intro w l hres
  simp only [N, ofList_cons, ofList_nil]
  rw [walk_nohandler _ _ _ _ lk_StepWithPredicate, walkFirst_nt, walk]
  simp only [lk_StepWithPredicateWithAnotherPredicate]
  rw [walkNth_cons_nt0 _ _ _ _ hP]
  simp only [walkNth_one _ _ _ _ hP, walkNth_cons_nt0 _ _ _ _ hD]
  rw [h w l hres, applyPreds]
  cases hk : applyPred Model.sem p w.c l with
  | error e => rfl
  | ok kept =>
    show walk tbl D (w.set (.nodes kept)) = _
    rw [hd (w.set (.nodes kept)) kept rfl]
    show (match applyPreds Model.sem ps { w.c with result := .nodes kept } kept with | .ok r => _ | .error e => _) = _
    rw [applyPreds_ctx]
    show _ = (match applyPreds Model.sem ps w.c kept with | .ok r => _ | .error e => _)
    cases applyPreds Model.sem ps w.c kept <;> rfl

/-- from "the walk of `S` computes `F` of the current result" to "`S` continues a path" -/
theorem relClaim_of (S : PT) (base e : Expr) (F : Ctx → Val → Except Err Val)
    (hF : ∀ (c : Ctx) (x v : Val), F { c with result := x } v = F c v)
    (hS : ∀ w : WCtx, Sim (walk tbl S w) w.c (F w.c w.res))
    (he : ∀ c, eval Model.sem e c = (eval Model.sem base c >>= F c)) : RelClaim S base e := by
  intro w r0 h0
  rw [he]
  refine Sim.bind h0 (fun v k => ?_)
  have := hS ⟨{ w.c with result := v }, k⟩
  rw [show (⟨{ w.c with result := v }, k⟩ : WCtx).res = v from rfl, hF] at this
  exact this.ctx (fun _ => rfl)

/-! ### arguments and calls -/

theorem argsClaim_none :
    ArgsClaim (N "FunctionSignature" [N "FunctionSignatureNoArgs" [tkp .rparen]]) .nil := by
  intro w
  simp only [N, ofList_cons, ofList_nil]
  rw [walkArgs]
  simp
  rw [walkArgs]
  simp
  rw [evalArgs]; rfl

theorem argsClaim_sig (L : PT) (as : Exprs) (hL : L.isNt = true) (h : ArgsClaim L as) :
    ArgsClaim (N "FunctionSignature" [L]) as := by
  intro w
  simp only [N, ofList_cons, ofList_nil]
  rw [walkArgs]
  simp [hL, walkArgsNth_cons_nt0 _ _ _ _ hL]
  exact h w

theorem argsClaim_end (A : PT) (a : Expr) (hA : A.isNt = true) (h : SimT A a) :
    ArgsClaim (N "FunctionCallArgumentList" [N "FunctionCallArgumentListEndArg" [A, tkp .rparen]]) (.cons a .nil) := by
  intro w
  simp only [N, ofList_cons, ofList_nil]
  rw [walkArgs]
  simp only [ntCount_cons, ntCount_nil, isNt_nt]
  simp only [walkArgsNth_nt0]
  rw [walkArgs]
  simp [hA, walkNth_cons_nt0 _ _ _ _ hA]
  rw [evalArgs, evalArgs]
  cases hev : eval Model.sem a w.c with
  | error e =>
    have h2 := h w; rw [hev] at h2
    rw [show walk tbl A w = .error (.err e) from h2]; rfl
  | ok v =>
    have h2 := h w; rw [hev] at h2
    obtain ⟨k, hk⟩ := h2
    rw [hk]; rfl

theorem argsClaim_next (A Rest : PT) (a : Expr) (as : Exprs) (hA : A.isNt = true) (hR : Rest.isNt = true)
    (h : SimT A a) (hr : ArgsClaim Rest as) :
    ArgsClaim (N "FunctionCallArgumentList" [N "FunctionCallArgumentListArgWithNext" [A, tkp .comma, Rest]]) (.cons a as) := by
  intro w
  simp only [N, ofList_cons, ofList_nil]
  rw [walkArgs]
  simp only [ntCount_cons, ntCount_nil, isNt_nt]
  simp only [walkArgsNth_nt0]
  rw [walkArgs]
  simp [hA, hR, walkNth_cons_nt0 _ _ _ _ hA, walkArgsNth_cons_ntS _ _ _ _ _ hA, walkArgsNth_cons_nt0 _ _ _ _ hR]
  rw [hr w]
  conv => rhs; rw [evalArgs]
  cases hev : eval Model.sem a w.c with
  | error e =>
    have h2 := h w; rw [hev] at h2
    rw [show walk tbl A w = .error (.err e) from h2]; rfl
  | ok v =>
    have h2 := h w; rw [hev] at h2
    obtain ⟨k, hk⟩ := h2
    rw [hk]
    show (List.cons v <$> liftE (evalArgs Model.sem as w.c)) = liftE (evalArgs Model.sem as w.c >>= fun vs => pure (v :: vs))
    cases evalArgs Model.sem as w.c <;> rfl

/-- a function call node with an arbitrary argument tree -/
theorem sim_callG (p : Option Chars) (n : Chars) (Sig : PT) (as : Exprs) (hq : qnOk p n = true)
    (hS : Sig.isNt = true) (h : ArgsClaim Sig as) (w : WCtx) :
    Sim (walk tbl (N "FunctionCall" [qnameNode p n, tkp .lparen, Sig]) w) w.c (callSem p n as w.c w.res) := by
  have hqn : (qnameNode p n).isNt = true := by cases p <;> rfl
  unfold callSem
  rw [show ({ w.c with result := w.res } : Ctx) = w.c from ctx_eta w.c]
  simp only [N, ofList_cons, ofList_nil]
  rw [walk]
  simp only [lk_FunctionCall]
  have hc : (PTs.cons (qnameNode p n) (PTs.cons (tkp .lparen) (PTs.cons Sig .nil))).ntCount = 2 := by simp [hqn, hS]
  simp only [hc]
  simp [walkArgsNth_cons_ntS _ _ _ _ _ hqn, walkArgsNth_cons_nt0 _ _ _ _ hS, PTs.ntText, hqn]
  rw [h w]
  cases hev : evalArgs Model.sem as w.c with
  | error e => exact Sim.err rfl
  | ok vs =>
    have := callFn_sim p n w vs hq
    simpa [bind, Except.bind, liftE] using this

/-! ### the induction (on the size of the tree) -/

mutual
def tsize : PT → Nat
  | .nt _ ks => 1 + tssize ks
  | .tk _ => 1
def tssize : PTs → Nat
  | .nil => 0
  | .cons t ts => 1 + tsize t + tssize ts
end

@[simp] theorem tsize_nt (n : String) (ks : PTs) : tsize (.nt n ks) = 1 + tssize ks := by rw [tsize]
@[simp] theorem tsize_tk (t : Tok) : tsize (.tk t) = 1 := by rw [tsize]
@[simp] theorem tssize_nil : tssize .nil = 0 := by rw [tssize]
@[simp] theorem tssize_cons (t : PT) (ts : PTs) : tssize (.cons t ts) = 1 + tsize t + tssize ts := by rw [tssize]

/-- everything the induction proves about trees of size at most `n` -/
structure Claims (n : Nat) : Prop where
  e : ∀ (t : PT) (x : Expr), tsize t ≤ n → lowE t = some x → SimT t x
  rel : ∀ (t : PT) (base x : Expr), tsize t ≤ n → lowRel t base = some x → RelClaim t base x
  relKids : ∀ (ks : PTs) (base x : Expr), tssize ks ≤ n → lowRelKids ks base = some x →
    RelClaim (.nt "RelativeLocationPath" ks) base x
  step : ∀ (t : PT) (base x : Expr), tsize t ≤ n → lowStep t base = some x → RelClaim t base x
  preds : ∀ (t : PT) (ps : Exprs), tsize t ≤ n → lowPreds t = some ps → PredsClaim t ps ∧ t.isNt = true ∧ ps.isNil = false
  pred : ∀ (t : PT) (p : Expr), tsize t ≤ n → lowPred t = some p → PredClaim t p ∧ t.isNt = true
  args : ∀ (t : PT) (as : Exprs), tsize t ≤ n → lowArgs t = some as → ArgsClaim t as ∧ t.isNt = true

theorem isNt_of_lowE {t : PT} {x : Expr} (h : lowE t = some x) : t.isNt = true := by
  cases t with
  | nt n k => rfl
  | tk a => rw [lowE] at h; cases h

theorem claims_zero : Claims 0 := by
  refine ⟨?_, ?_, ?_, ?_, ?_, ?_, ?_⟩
  all_goals (intro t)
  · intro x hs; cases t <;> simp at hs
  · intro b x hs; cases t <;> simp at hs
  · intro b x hs h
    cases t with
    | nil => simp [lowRelKids] at h
    | cons a as => simp at hs
  · intro b x hs; cases t <;> simp at hs
  · intro ps hs; cases t <;> simp at hs
  · intro p hs; cases t <;> simp at hs
  · intro as hs; cases t <;> simp at hs

theorem succ_pred {n : Nat} (ih : Claims n) (t : PT) (p : Expr) (hs : tsize t ≤ n + 1) (h : lowPred t = some p) :
    PredClaim t p ∧ t.isNt = true := by
  unfold lowPred at h
  split at h
  · rename_i E
    have hE : tsize E ≤ n := by simp at hs; omega
    exact ⟨predClaim_of E p (isNt_of_lowE h) (ih.e E p hE h), rfl⟩
  · cases h

theorem succ_preds {n : Nat} (ih : Claims n) (t : PT) (ps : Exprs) (hs : tsize t ≤ n + 1) (h : lowPreds t = some ps) :
    PredsClaim t ps ∧ t.isNt = true ∧ ps.isNil = false := by
  unfold lowPreds at h
  split at h
  · rename_i X
    split at h
    · rename_i P rest
      cases hp : lowPred P with
      | none => simp [hp] at h
      | some a =>
        cases hr : lowPreds rest with
        | none => simp [hp, hr] at h
        | some qs =>
          simp [hp, hr] at h; subst h
          have h1 := ih.pred P a (by simp at hs; omega) hp
          have h2 := ih.preds rest qs (by simp at hs; omega) hr
          exact ⟨predsClaim_more P rest a qs h1.2 h2.2.1 h1.1 h2.1, rfl, rfl⟩
    · rename_i P hne
      cases hp : lowPred X with
      | none => simp [hp] at h
      | some a =>
        simp [hp] at h; subst h
        have h1 := ih.pred X a (by simp at hs; omega) hp
        exact ⟨predsClaim_one X a h1.2 h1.1, rfl, rfl⟩
  · cases h

theorem succ_args {n : Nat} (ih : Claims n) (t : PT) (as : Exprs) (hs : tsize t ≤ n + 1) (h : lowArgs t = some as) :
    ArgsClaim t as ∧ t.isNt = true := by
  unfold lowArgs at h
  split at h
  · rename_i X
    split at h
    · cases h; exact ⟨argsClaim_none, rfl⟩
    · rename_i L hne
      have h1 := ih.args X as (by simp at hs; omega) h
      exact ⟨argsClaim_sig X as h1.2 h1.1, rfl⟩
  · rename_i X
    split at h
    · rename_i A
      cases ha : lowE A with
      | none => simp [ha] at h
      | some x =>
        simp [ha] at h; subst h
        exact ⟨argsClaim_end A x (isNt_of_lowE ha) (ih.e A x (by simp at hs; omega) ha), rfl⟩
    · rename_i A rest
      cases ha : lowE A with
      | none => simp [ha] at h
      | some x =>
        cases hr : lowArgs rest with
        | none => simp [ha, hr] at h
        | some xs =>
          simp [ha, hr] at h; subst h
          have h2 := ih.args rest xs (by simp at hs; omega) hr
          exact ⟨argsClaim_next A rest x xs (isNt_of_lowE ha) h2.2 (ih.e A x (by simp at hs; omega) ha) h2.1, rfl⟩
    · cases h
  · cases h

/-! ### steps -/

theorem lowQName_eq {Q : PT} {p : Option Chars} {n : Chars} (h : lowQName Q = some (p, n)) :
    Q = qnameNode p n ∧ qnOk p n = true := by
  unfold lowQName at h
  split at h
  · rename_i l
    split at h
    · rename_i hc
      cases h
      exact ⟨rfl, by simp [qnOk, hc]⟩
    · cases h
  · rename_i a b
    split at h
    · rename_i hc
      cases h
      simp only [Bool.and_eq_true] at hc
      exact ⟨rfl, by simp [qnOk, hc.1, hc.2]⟩
    · cases h
  · cases h

theorem testNode_shape (t : NodeTest) : ∃ k, testNode t = .nt "NodeTest" k := by
  cases t <;> exact ⟨_, rfl⟩

theorem lowTest_shape {T : PT} {t : NodeTest} (h : lowTest T = some t) : ∃ k, T = .nt "NodeTest" k := by
  unfold lowTest at h
  split at h
  · exact ⟨_, rfl⟩
  · cases h

theorem walk_Step_callG (k : PTs) (w : WCtx) :
    walk tbl (N "Step" [.nt "FunctionCall" k]) w = walk tbl (.nt "FunctionCall" k) ⟨w.c, .elem⟩ := by
  simp only [N, ofList_cons, ofList_nil]
  rw [walk]
  simp [PTs.lastNtName, PT.isNt, PT.name, implicitChild, walkLast_cons]

theorem sim_selfStep (w : WCtx) :
    Sim (walk tbl (N "Step" [N "AbbreviatedStep" [N "AbbreviatedStepSelf" [tkp .dot]]]) w) w.c
      (stepSem .self .node .nil w.c w.res) := by
  simp only [N, ofList_cons, ofList_nil]
  rw [walk]
  simp [PTs.lastNtName, PT.isNt, PT.name, implicitChild, walkLast_cons]
  rw [walk_nohandler _ _ _ _ lk_AbbreviatedStep, walkFirst_nt, walk]
  simp only [lk_AbbreviatedStepSelf, nodesOf, WCtx.res]
  unfold stepSem
  cases hr : w.c.result with
  | nodes s =>
    simp [Val.nodes?, Model.sem, Exprs.isNil, NodeTest.apply, Model.axis, applyPreds, bind, Except.bind, pure, Except.pure]
    refine Sim.ok .elem ?_
    congr 2
    rw [← hr]
  | num n => exact Sim.err rfl
  | str n => exact Sim.err rfl
  | bool n => exact Sim.err rfl

/-- `walk tbl t` may be replaced in a `RelClaim` by an equal walk -/
theorem RelClaim.congr {t t' : PT} {base x : Expr} (h : ∀ w, walk tbl t w = walk tbl t' w) (hc : RelClaim t' base x) :
    RelClaim t base x := by
  intro w r0 h0
  rw [show walk tbl t = walk tbl t' from funext h]
  exact hc w r0 h0

theorem relClaim_step (S : PT) (base : Expr) (ax : Axis) (t : NodeTest) (ps : Exprs)
    (hS : ∀ w : WCtx, Sim (walk tbl S w) w.c (stepSem ax t ps w.c w.res)) :
    RelClaim S base (.step base ax t ps) :=
  relClaim_of S base _ (stepSem ax t ps) (stepSem_ctx ax t ps) hS (fun c => eval_step base ax t ps c)

theorem succ_step {n : Nat} (ih : Claims n) (t : PT) (base x : Expr) (hs : tsize t ≤ n + 1)
    (h : lowStep t base = some x) : RelClaim t base x := by
  unfold lowStep at h
  split at h
  · rename_i X b
    split at h
    · -- a node test alone: the implicit child axis
      rename_i k
      cases ht : lowTest (.nt "NodeTest" k) with
      | none => simp [ht] at h
      | some nt =>
        simp [ht] at h; subst h
        obtain ⟨k', hk'⟩ := testNode_shape nt
        refine RelClaim.congr (t' := dStep .child nt .nil) (fun w => ?_) (relClaim_step _ _ _ _ _ (sim_dStep_nil .child nt))
        have e1 := step_congr "NodeTest" k k' (fun w' => by rw [← hk']; exact walk_lowTest ht w') w
        rw [← hk'] at e1
        exact e1.trans (abbrev_child nt w)
    · -- node test and predicates
      rename_i T SP
      cases ht : lowTest T with
      | none => simp [ht] at h
      | some nt =>
        cases hp : lowPreds SP with
        | none => simp [ht, hp] at h
        | some ps =>
          simp [ht, hp] at h; subst h
          have hsp := ih.preds SP ps (by simp at hs; omega) hp
          cases ps with
          | nil => simp [Exprs.isNil] at hsp
          | cons p ps' =>
            have hT := isNt_of_lowTest ht
            have hT' : (testNode nt).isNt = true := by cases nt <;> rfl
            refine RelClaim.congr (t' := N "Step" [N "StepWithAxisAndNodeTestAndPredicate"
              [N "StepWithAxisAndNodeTest" [axisNode .child, testNode nt], SP]]) (fun w => ?_)
              (relClaim_step _ _ _ _ _ (fun w => sim_stepG .child nt SP p ps' w hsp.2.1 hsp.1))
            have e0 : ∀ w', walk tbl (N "NodeTestAndPredicate" [T, SP]) w' = walk tbl (N "NodeTestAndPredicate" [testNode nt, SP]) w' :=
              fun w' => lrdep_congr_first "NodeTestAndPredicate" lk_NodeTestAndPredicate T (testNode nt) SP hT hT' (walk_lowTest ht) w'
            have e1 := step_congr "NodeTestAndPredicate" _ _ e0 w
            exact e1.trans (abbrev_child_preds nt SP w hsp.2.1)
    · -- axis and node test
      rename_i A T
      cases ha : lowAxis A with
      | none => simp [ha] at h
      | some ax =>
        cases ht : lowTest T with
        | none => simp [ha, ht] at h
        | some nt =>
          simp [ha, ht] at h; subst h
          refine RelClaim.congr (t' := dStep ax nt .nil) (fun w => ?_) (relClaim_step _ _ _ _ _ (sim_dStep_nil ax nt))
          exact step_congr "StepWithAxisAndNodeTest" _ _ (fun w' => walk_lowAxisTest ha ht w') w
    · -- axis, node test and predicates
      rename_i A T SP
      cases ha : lowAxis A with
      | none => simp [ha] at h
      | some ax =>
        cases ht : lowTest T with
        | none => simp [ha, ht] at h
        | some nt =>
          cases hp : lowPreds SP with
          | none => simp [ha, ht, hp] at h
          | some ps =>
            simp [ha, ht, hp] at h; subst h
            have hsp := ih.preds SP ps (by simp at hs; omega) hp
            cases ps with
            | nil => simp [Exprs.isNil] at hsp
            | cons p ps' =>
              refine RelClaim.congr (t' := N "Step" [N "StepWithAxisAndNodeTestAndPredicate"
                [N "StepWithAxisAndNodeTest" [axisNode ax, testNode nt], SP]]) (fun w => ?_)
                (relClaim_step _ _ _ _ _ (fun w => sim_stepG ax nt SP p ps' w hsp.2.1 hsp.1))
              have e0 : ∀ w', walk tbl (N "StepWithAxisAndNodeTestAndPredicate" [N "StepWithAxisAndNodeTest" [A, T], SP]) w' =
                  walk tbl (N "StepWithAxisAndNodeTestAndPredicate" [N "StepWithAxisAndNodeTest" [axisNode ax, testNode nt], SP]) w' :=
                fun w' => lrdep_congr_first "StepWithAxisAndNodeTestAndPredicate" lk_StepWithAxisAndNodeTestAndPredicate _ _ SP rfl rfl
                  (walk_lowAxisTest ha ht) w'
              exact step_congr "StepWithAxisAndNodeTestAndPredicate" _ _ e0 w
    · -- `.`
      cases h
      exact relClaim_step _ _ _ _ _ sim_selfStep
    · -- `..`
      cases h
      exact RelClaim.congr (t' := dStep .parent .node .nil) abbrev_dotdot (relClaim_step _ _ _ _ _ (sim_dStep_nil .parent .node))
    · -- a function call as a step
      rename_i Q Sig
      cases hq : lowQName Q with
      | none => simp [hq] at h
      | some pn =>
        obtain ⟨p, nm⟩ := pn
        cases hg : lowArgs Sig with
        | none => simp [hq, hg] at h
        | some as =>
          simp [hq, hg] at h; subst h
          obtain ⟨rfl, hok⟩ := lowQName_eq hq
          have hsg := ih.args Sig as (by simp at hs; omega) hg
          refine relClaim_of _ base _ (callSem p nm as) (callSem_ctx p nm as) (fun w => ?_) (fun c => eval_call base p nm as c)
          have e1 := walk_Step_callG (PTs.cons (qnameNode p nm) (PTs.cons (PT.tk (Tok.p Punct.lparen)) (PTs.cons Sig PTs.nil))) w
          simp only [N, ofList_cons, ofList_nil] at e1
          rw [e1]
          exact sim_callG p nm Sig as hok hsg.2 hsg.1 ⟨w.c, .elem⟩
    · cases h
  · cases h

/-! ### paths -/

/-- `//`: the descendants-or-self of the current node-set, in the same context (principal node type kept) -/
def dosKeep (a : Arena) (w1 : WCtx) : R :=
  nodesOf w1 >>= fun s => .ok (w1.set (.nodes (Model.axis a .descendantOrSelf s)))

theorem eval_dosOf (b : Expr) (c : Ctx) :
    eval Model.sem (dosOf b) c = (eval Model.sem b c >>= stepSem .descendantOrSelf .node .nil c) := by
  rw [dosOf, eval_step]

theorem sim_dosKeep {r0 : R} {c : Ctx} {b : Expr} (h : Sim r0 c (eval Model.sem b c)) :
    Sim (r0 >>= dosKeep c.a) c (eval Model.sem (dosOf b) c) := by
  rw [eval_dosOf]
  refine Sim.bind h (fun v k => ?_)
  unfold dosKeep stepSem
  cases v with
  | nodes s =>
    simp [nodesOf, WCtx.res, Val.nodes?, Model.sem, Exprs.isNil, NodeTest.apply, applyPreds, bind, Except.bind, pure, Except.pure]
    exact Sim.ok k rfl
  | num n => exact Sim.err rfl
  | str n => exact Sim.err rfl
  | bool n => exact Sim.err rfl

theorem isNt_of_lowRel {t : PT} {b x : Expr} (h : lowRel t b = some x) : t.isNt = true := by
  cases t with
  | nt n k => rfl
  | tk a => simp [lowRel] at h

theorem isNt_of_lowStep {t : PT} {b x : Expr} (h : lowStep t b = some x) : t.isNt = true := by
  cases t with
  | nt n k => rfl
  | tk a => simp [lowStep] at h

theorem succ_relKids {n : Nat} (ih : Claims n) (ks : PTs) (base x : Expr) (hs : tssize ks ≤ n + 1)
    (h : lowRelKids ks base = some x) : RelClaim (.nt "RelativeLocationPath" ks) base x := by
  unfold lowRelKids at h
  split at h
  · rename_i _ks0 _b0 t
    split at h
    · -- r / s
      rename_i r s
      cases hr : lowRel r base with
      | none => simp [hr] at h
      | some bb =>
        simp [hr] at h
        have h1 := ih.rel r base bb (by simp at hs; omega) hr
        have h2 := ih.step s bb x (by simp at hs; omega) h
        intro w r0 h0
        have e : walk tbl (.nt "RelativeLocationPath" (.cons (.nt "RelativeLocationPathWithStep"
            (.cons r (.cons (.tk (.p .slash)) (.cons s .nil)))) .nil)) = fun w1 => walk tbl r w1 >>= walk tbl s :=
          funext (fun w1 => walk_rlp2 r s w1 (isNt_of_lowRel hr) (isNt_of_lowStep h))
        rw [e, ← bind_assoc]
        exact h2 w _ (h1 w r0 h0)
    · -- r // s
      rename_i r s
      cases hr : lowRel r base with
      | none => simp [hr] at h
      | some bb =>
        simp [hr] at h
        have h1 := ih.rel r base bb (by simp at hs; omega) hr
        have h2 := ih.step s (dosOf bb) x (by simp at hs; omega) h
        have hrn := isNt_of_lowRel hr
        have hsn := isNt_of_lowStep h
        intro w r0 h0
        -- the walk of the `//` node: the path so far, its descendants-or-self, the step
        have key : (r0 >>= walk tbl (.nt "RelativeLocationPath" (.cons (.nt "AbbreviatedRelativeLocationPath"
            (.cons r (.cons (.tk (.p .dslash)) (.cons s .nil)))) .nil))) =
            (((r0 >>= walk tbl r) >>= dosKeep w.c.a) >>= walk tbl s) := by
          cases hr0 : eval Model.sem base w.c with
          | error e => rw [hr0] at h0; rw [show r0 = .error (.err e) from h0]; rfl
          | ok v =>
            rw [hr0] at h0
            obtain ⟨k, hk⟩ := h0
            rw [hk]
            show walk tbl _ ⟨{ w.c with result := v }, k⟩ = ((walk tbl r ⟨{ w.c with result := v }, k⟩ >>= dosKeep w.c.a) >>= walk tbl s)
            rw [walk_nohandler _ _ _ _ lk_RelativeLocationPath, walkFirst_nt, walk]
            simp only [lk_AbbreviatedRelativeLocationPath]
            rw [walkNth_cons_nt0 _ _ _ _ hrn]
            simp only [walkNth_one _ _ _ _ hrn, walkNth_tk, walkNth_cons_nt0 _ _ _ _ hsn]
            rw [bind_assoc]
            congr 1
            funext w1
            unfold dosKeep
            rw [bind_assoc]
            rfl
        rw [key]
        exact h2 w _ (sim_dosKeep (h1 w r0 h0))
    · -- a single step
      rename_i hne1 hne2
      have h2 := ih.step t base x (by simp at hs; omega) h
      intro w r0 h0
      have e : walk tbl (.nt "RelativeLocationPath" (.cons t .nil)) = walk tbl t :=
        funext (fun w1 => walk_rlp1 t w1 (isNt_of_lowStep h))
      rw [e]
      exact h2 w r0 h0
  · cases h

theorem succ_rel {n : Nat} (ih : Claims n) (t : PT) (base x : Expr) (hs : tsize t ≤ n + 1)
    (h : lowRel t base = some x) : RelClaim t base x := by
  unfold lowRel at h
  split at h
  · rename_i _ _ ks
    exact ih.relKids ks base x (by simp at hs; omega) h
  · cases h

/-! ### expressions -/

theorem binOpOfNode_eq {name : String} {op : BinOp} (h : binOpOfNode name = some op) : name = opNode op := by
  unfold binOpOfNode at h
  split at h <;> first | (cases h; rfl) | cases h

theorem sim_ctx_start (w : WCtx) : Sim (.ok w : R) w.c (eval Model.sem .ctx w.c) := by
  rw [eval]
  refine Sim.ok w.principal ?_
  cases w with
  | mk c k => cases c; rfl

theorem unit_lookup {name : String} (h : unitNTs.contains name = true) : lookupS name tbl = none := by
  simp only [unitNTs, List.contains_cons, List.contains_nil, Bool.or_false, Bool.or_eq_true, beq_iff_eq] at h
  rcases h with rfl | rfl | rfl | rfl | rfl | rfl | rfl | rfl | rfl | rfl | rfl | rfl | rfl <;> simp

theorem succ_e {n : Nat} (ih : Claims n) (t : PT) (x : Expr) (hs : tsize t ≤ n + 1) (h : lowE t = some x) :
    SimT t x := by
  unfold lowE at h
  split at h
  · cases h
  · rename_i _ name ks
    split at h
    · -- a binary operator
      rename_i _ op hop
      split at h
      · rename_i l t0 r
        cases hl : lowE l with
        | none => simp [hl] at h
        | some a =>
          cases hr : lowE r with
          | none => simp [hl, hr] at h
          | some b =>
            simp only [hl, hr] at h
            split at h
            · rename_i ht0
              cases h
              have ht : t0 = opTok op := by simpa using ht0
              subst ht
              have hn := binOpOfNode_eq hop
              subst hn
              have il := ih.e l a (by simp at hs; omega) hl
              have ir := ih.e r b (by simp at hs; omega) hr
              intro w
              have hw := walk_opNode op l r w (isNt_of_lowE hl) (isNt_of_lowE hr)
              simp only [N, ofList_cons, ofList_nil] at hw
              rw [hw, eval_bin]
              cases h1 : eval Model.sem a w.c with
              | error e =>
                have := il w; rw [h1] at this
                rw [show walk tbl l w = .error (.err e) from this]; exact Sim.err rfl
              | ok xv =>
                have := il w; rw [h1] at this
                obtain ⟨k1, hk1⟩ := this; rw [hk1]
                cases h2 : eval Model.sem b w.c with
                | error e =>
                  have := ir w; rw [h2] at this
                  rw [show walk tbl r w = .error (.err e) from this]; exact Sim.err rfl
                | ok yv =>
                  have := ir w; rw [h2] at this
                  obtain ⟨k2, hk2⟩ := this; rw [hk2]
                  show Sim (match binSem (Model.strval w.c.a) op xv yv with | .ok v => _ | .error e => _) _ (binSem _ op xv yv)
                  cases binSem (Model.strval w.c.a) op xv yv with
                  | error e => exact Sim.err rfl
                  | ok v => exact Sim.ok w.principal rfl
            · cases h
      · cases h
    · rename_i _ hnb
      split at h
      · -- a relative location path from the context node
        rename_i hrl
        have hname : name = "RelativeLocationPath" := by simpa using hrl
        subst hname
        have := ih.relKids ks .ctx x (by simp at hs; omega) h
        intro w
        have h2 := this w (.ok w) (sim_ctx_start w)
        exact h2
      · rename_i hnrl
        split at h
        · -- unary minus
          rename_i u
          cases hu : lowE u with
          | none => simp [hu] at h
          | some a =>
            simp [hu] at h; subst h
            have iu := ih.e u a (by simp at hs; omega) hu
            intro w
            have hw := walk_negate u w (isNt_of_lowE hu)
            simp only [N, ofList_cons, ofList_nil, tkp] at hw
            rw [hw, eval]
            cases he : eval Model.sem a w.c with
            | error e => have := iu w; rw [he] at this; rw [show walk tbl u w = .error (.err e) from this]; exact Sim.err rfl
            | ok v => have := iu w; rw [he] at this; obtain ⟨k, hk⟩ := this; rw [hk]; exact Sim.ok w.principal rfl
        · -- a literal
          rename_i dq sl
          cases h
          intro w
          rw [walk, eval]
          simp only [lk_Literal]
          simp [PTs.text, PT.text, tokText]
          exact Sim.ok w.principal rfl
        · -- `/`
          cases h
          intro w
          rw [walk, eval]
          simp only [lk_AbsoluteLocationPathOnly]
          exact Sim.ok w.principal rfl
        · -- a number
          cases hq : parseUnsigned ks.text with
          | none => simp [hq] at h
          | some q =>
            simp [hq] at h; subst h
            intro w
            rw [walk, eval]
            simp only [lk_Number, hq]
            exact Sim.ok w.principal rfl
        · -- a variable reference
          rename_i sv
          cases h
          intro w
          rw [walk, eval]
          simp only [lk_VariableReference]
          simp only [PTs.text, PT.text, tokText, List.append_nil]
          cases hr : resolve w.c.env (splitQName sv).1 (splitQName sv).2 with
          | error e => simp [hr, bind, Except.bind, Sim]
          | ok q =>
            cases hl : lookupQ q w.c.env.vars with
            | none => simp [hr, hl, bind, Except.bind, Sim, throw, throwThe, MonadExceptOf.throw]
            | some v => simp [hr, hl, bind, Except.bind, Sim, pure, Except.pure, WCtx.set]
        · -- a function call as a primary expression
          rename_i Q Sig
          cases hq : lowQName Q with
          | none => simp [hq] at h
          | some pn =>
            obtain ⟨p, nm⟩ := pn
            cases hg : lowArgs Sig with
            | none => simp [hq, hg] at h
            | some as =>
              simp [hq, hg] at h; subst h
              obtain ⟨rfl, hok⟩ := lowQName_eq hq
              have hsg := ih.args Sig as (by simp at hs; omega) hg
              intro w
              rw [eval_call, eval]
              exact sim_callG p nm Sig as hok hsg.2 hsg.1 w
        · -- parentheses
          rename_i E
          have iE := ih.e E x (by simp at hs; omega) h
          intro w
          rw [walk_nohandler _ _ _ _ lk_PrimaryExprParenthetic, walkFirst_tk, walkFirst_cons_nt _ _ _ _ (isNt_of_lowE h)]
          exact iE w
        · -- a filter expression with a predicate
          rename_i F Pr
          cases hf : lowE F with
          | none => simp [hf] at h
          | some a =>
            cases hp : lowPred Pr with
            | none => simp [hf, hp] at h
            | some b =>
              simp [hf, hp] at h; subst h
              have iF := ih.e F a (by simp at hs; omega) hf
              -- the predicate node is `predNode E`
              unfold lowPred at hp
              split at hp
              · rename_i E
                have iE := ih.e E b (by simp at hs; omega) hp
                intro w
                have := sim_filt F E a b w (isNt_of_lowE hf) (isNt_of_lowE hp) (iF w) iE
                rw [walk_unit _ _ _ _ lk_FilterExpr rfl] at this
                exact this
              · cases hp
        · -- E / path
          rename_i F Rp
          cases hf : lowE F with
          | none => simp [hf] at h
          | some a =>
            simp [hf] at h
            have iF := ih.e F a (by simp at hs; omega) hf
            have iR := ih.rel Rp a x (by simp at hs; omega) h
            intro w
            have hw : walk tbl (.nt "PathExprFilterWithPath" (.cons F (.cons (.tk (.p .slash)) (.cons Rp .nil)))) w =
                (walk tbl F w >>= walk tbl Rp) := by
              rw [walk]
              simp only [lk_PathExprFilterWithPath]
              rw [walkNth_cons_nt0 _ _ _ _ (isNt_of_lowE hf)]
              simp only [walkNth_one _ _ _ _ (isNt_of_lowE hf), walkNth_tk, walkNth_cons_nt0 _ _ _ _ (isNt_of_lowRel h)]
            rw [hw]
            exact iR w _ (iF w)
        · -- E // path
          rename_i F Rp
          cases hf : lowE F with
          | none => simp [hf] at h
          | some a =>
            simp [hf] at h
            have iF := ih.e F a (by simp at hs; omega) hf
            have iR := ih.rel Rp (dosOf a) x (by simp at hs; omega) h
            intro w
            have hw : walk tbl (.nt "PathExprFilterWithAbbreviatedPath" (.cons F (.cons (.tk (.p .dslash)) (.cons Rp .nil)))) w =
                ((walk tbl F w >>= dosKeep w.c.a) >>= walk tbl Rp) := by
              rw [walk]
              simp only [lk_PathExprFilterWithAbbreviatedPath]
              rw [walkNth_cons_nt0 _ _ _ _ (isNt_of_lowE hf)]
              simp only [walkNth_one _ _ _ _ (isNt_of_lowE hf), walkNth_tk, walkNth_cons_nt0 _ _ _ _ (isNt_of_lowRel h)]
              rw [bind_assoc]
              congr 1
              funext w1
              unfold dosKeep
              rw [bind_assoc]
              rfl
            rw [hw]
            exact iR w _ (sim_dosKeep (iF w))
        · -- / path
          rename_i Rp
          have iR := ih.rel Rp .root x (by simp at hs; omega) h
          intro w
          have hw : walk tbl (.nt "AbsoluteLocationPathWithRelative" (.cons (.tk (.p .slash)) (.cons Rp .nil))) w =
              ((.ok (w.set (.nodes [0])) : R) >>= walk tbl Rp) := by
            rw [walk]
            simp only [lk_AbsoluteLocationPathWithRelative, walkFirst_tk, walkFirst_cons_nt _ _ _ _ (isNt_of_lowRel h)]
            rfl
          rw [hw]
          refine iR w _ ?_
          rw [eval]
          exact Sim.ok w.principal rfl
        · -- // path
          rename_i Rp
          have iR := ih.rel Rp (dosOf .root) x (by simp at hs; omega) h
          intro w
          have hw : walk tbl (.nt "AbbreviatedAbsoluteLocationPath" (.cons (.tk (.p .dslash)) (.cons Rp .nil))) w =
              (((.ok (w.set (.nodes [0])) : R) >>= dosKeep w.c.a) >>= walk tbl Rp) := by
            rw [walk]
            simp only [lk_AbbreviatedAbsoluteLocationPath, walkFirst_tk, walkFirst_cons_nt _ _ _ _ (isNt_of_lowRel h)]
            rfl
          rw [hw]
          refine iR w _ (sim_dosKeep ?_)
          rw [eval]
          exact Sim.ok w.principal rfl
        · -- a unit production
          rename_i t1 _ _ _ _
          split at h
          · rename_i hu
            have it := ih.e t1 x (by simp at hs; omega) h
            intro w
            rw [walk_nohandler _ _ _ _ (unit_lookup hu), walkFirst_cons_nt _ _ _ _ (isNt_of_lowE h)]
            exact it w
          · cases h
        · cases h

/-! ### the theorem -/

theorem claims_succ {n : Nat} (ih : Claims n) : Claims (n + 1) where
  e := fun t x hs h => succ_e ih t x hs h
  rel := fun t b x hs h => succ_rel ih t b x hs h
  relKids := fun ks b x hs h => succ_relKids ih ks b x hs h
  step := fun t b x hs h => succ_step ih t b x hs h
  preds := fun t ps hs h => succ_preds ih t ps hs h
  pred := fun t p hs h => succ_pred ih t p hs h
  args := fun t as hs h => succ_args ih t as hs h

theorem claims_all : ∀ n, Claims n
  | 0 => claims_zero
  | n + 1 => claims_succ (claims_all n)

/-- **walk_lower** — for EVERY tree that `lower` reads (every derivation tree of an expression in the parser's
    grammar: abbreviated or not, names that spell keywords, any parenthesisation, either derivation of an
    ambiguous sentence), in every context: the handler walk of the Go evaluator returns exactly the value (or the
    error) of the evaluator on the abstract syntax `lower` reads from the tree -/
theorem walk_lower (t : PT) (x : Expr) (h : lower t = some x) (w : WCtx) :
    Sim (walk tbl t w) w.c (eval Model.sem x w.c) :=
  (claims_all (tsize t)).e t x (Nat.le_refl _) h w

end Xsel.Walk.L2
