/-
  Proofs/Lemmas/StoreMirror.lean — S7: on streams that honour the Parser contract the built tree
  denotes the stream (`Spec.mirrors`): simulation between `Store.step` and `Spec.estep`.
-/
import Proofs.Lemmas.StoreLeaf

namespace Xsel.StoreL
open Xsel Xsel.Store Xsel.Arena Xsel.Spec

theorem mem_ancestors_lt {a : Arena} (h : AInv a) :
    ∀ f j, j < a.size → ∀ i ∈ Spec.ancestors a f j, i < j := by
  intro f
  induction f with
  | zero => intro j _ i hi; simp [Spec.ancestors] at hi
  | succ f ih =>
    intro j hj i hi
    by_cases h0 : j = 0
    · subst h0; rw [ancestors_zero] at hi; exact absurd hi List.not_mem_nil
    · have hb : (j == 0) = false := beq_eq_false_iff_ne.mpr h0
      have hlt := (h.nonroot j (Nat.pos_of_ne_zero h0) hj).2
      simp only [Spec.ancestors, hb, Bool.false_eq_true, if_false, Arena.parent] at hi
      rcases List.mem_cons.mp hi with rfl | hi
      · exact hlt
      · exact Nat.lt_trans (ih _ (h.parent_lt_size hj) i hi) hlt

/-- the open element and its ancestors, innermost first -/
def chain (a : Arena) (i : Nat) : List Nat := i :: Spec.ancestors a a.size i

theorem mem_chain_le {a : Arena} (h : AInv a) {i j : Nat} (hj : j < a.size) (hi : i ∈ chain a j) :
    i ≤ j := by
  rcases List.mem_cons.mp hi with rfl | hi
  · exact Nat.le_refl _
  · exact Nat.le_of_lt (mem_ancestors_lt h _ j hj i hi)

/-- the scope stack of the specification lists the bindings of the open elements -/
def ScopesOK (a : Arena) : List Nat → List (List (Chars × Chars)) → Prop
  | [], [] => True
  | i :: is, sc :: scs => (binds a i).Perm sc ∧ ScopesOK a is scs
  | [], _ :: _ => False
  | _ :: _, [] => False

theorem ScopesOK.length {a : Arena} : ∀ {is : List Nat} {scs : List (List (Chars × Chars))},
    ScopesOK a is scs → is.length = scs.length
  | [], [], _ => rfl
  | _ :: _, _ :: _, h => by simp [ScopesOK.length h.2]
  | [], _ :: _, h => h.elim
  | _ :: _, [], h => h.elim

theorem ScopesOK.congr {a a' : Arena} : ∀ {is : List Nat} {scs : List (List (Chars × Chars))},
    (∀ i ∈ is, binds a' i = binds a i) → ScopesOK a is scs → ScopesOK a' is scs
  | [], [], _, _ => trivial
  | i :: is, sc :: scs, hb, h => by
    refine ⟨?_, ScopesOK.congr (fun j hj => hb j (List.mem_cons_of_mem _ hj)) h.2⟩
    rw [hb i (List.mem_cons_self ..)]; exact h.1
  | [], _ :: _, _, h => h.elim
  | _ :: _, [], _, h => h.elim

structure MInv (s : BState) (es : EState) (ph : Phase) : Prop where
  out : describe (finish s).a = es.out.reverse
  scopes : ScopesOK (finish s).a (chain (finish s).a s.cur) es.scopes
  decl : ph = .ns → es.declaring = true
  nsPhase : ph = .ns → s.done = false
  nodup : NodupP s.pending

theorem finish_nodup {s : BState} (h : NodupP s.pending) : NodupP (finish s).pending := by
  cases hd : s.done
  · rw [finish_pending_fresh hd]; exact List.Pairwise.nil
  · rw [finish_of_done hd]; exact h

theorem descOf_leaf {a : Arena} {i : Nat} (h1 : (cell a i).kind ≠ .root)
    (h2 : (cell a i).kind ≠ .ns) (h3 : (cell a i).kind ≠ .elem) :
    descOf a i = some { kind := (cell a i).kind, uri := (cell a i).uri, loc := (cell a i).loc,
                        val := (cell a i).val, depth := depthIn a i, scope := [] } := by
  unfold descOf
  cases hk : (cell a i).kind <;> simp_all

/-- attribute, text, comment and processing-instruction events -/
theorem MInv.addLeaf {s : BState} {es es' : EState} {ph ph' : Phase} (m : MInv s es ph)
    (h : SInv s) (c : Cell) (b : Bool) (h1 : c.kind ≠ .root) (h2 : c.kind ≠ .ns)
    (h3 : c.kind ≠ .elem)
    (hout : es'.out = { kind := c.kind, uri := c.uri, loc := c.loc, val := c.val,
                        depth := es.scopes.length, scope := [] } :: es.out)
    (hsc : es'.scopes = es.scopes) (hph : ph' ≠ .ns) : MInv (addLeaf s c b) es' ph' := by
  have hf := h.finish
  have hd : (Store.addLeaf s c b).done = true := addLeaf_done s c b
  have hcur : (Store.addLeaf s c b).cur = (finish s).cur := rfl
  have hfc : (finish s).cur = s.cur := finish_cur s
  refine ⟨?_, ?_, fun e => absurd e hph, fun e => absurd e hph, finish_nodup m.nodup⟩
  · rw [finish_of_done hd, addLeaf_describe s c b hf, hout, List.reverse_cons, ← m.out]
    congr 1
    have hcell := addLeaf_cell_new s c b hf.cur_lt
    rw [descOf_leaf (by rw [hcell]; exact h1) (by rw [hcell]; exact h2) (by rw [hcell]; exact h3),
      hcell, addLeaf_depth_new s c b hf, ← m.scopes.length, hfc]
    rfl
  · rw [finish_of_done hd, hsc, hcur, hfc]
    have hlt : s.cur < (finish s).a.size := hfc ▸ hf.cur_lt
    have e : chain (Store.addLeaf s c b).a s.cur = chain (finish s).a s.cur := by
      unfold chain; rw [addLeaf_ancestors_old s c b hf hlt]
    rw [e]
    refine ScopesOK.congr (fun i hi => ?_) m.scopes
    have := mem_chain_le hf.ainv hlt hi
    exact addLeaf_binds_old s c b hf (by omega)

theorem estep_close_out (es : EState) : (estep es .close).out = es.out := by
  simp only [estep]; split <;> rfl

/-- end-of-element events -/
theorem MInv.close {s : BState} {es : EState} {ph : Phase} (m : MInv s es ph) (h : SInv s) :
    MInv (step s .close) (estep es .close) .child := by
  have hf := h.finish
  have hfc : (finish s).cur = s.cur := finish_cur s
  have hlt : s.cur < (finish s).a.size := hfc ▸ hf.cur_lt
  have hd : (step s .close).done = true := rfl
  have ha : (step s .close).a = (finish s).a := rfl
  have hcur : (step s .close).cur = (cell (finish s).a s.cur).parent := by rw [close_cur, hfc]
  refine ⟨?_, ?_, fun e => (by cases e), fun e => (by cases e), List.Pairwise.nil⟩
  · rw [finish_of_done hd, ha, estep_close_out]; exact m.out
  · rw [finish_of_done hd, ha, hcur]
    have ms := m.scopes
    by_cases h0 : s.cur = 0
    · rw [h0, hf.ainv.root.2]
      rw [h0] at ms
      unfold chain at ms ⊢
      rw [ancestors_zero] at ms ⊢
      simp only [estep]
      cases hs : es.scopes with
      | nil => rw [hs] at ms; exact ms.elim
      | cons sc rest =>
        rw [hs] at ms
        cases rest with
        | nil => exact ms
        | cons _ _ => exact ms.2.elim
    · unfold chain at ms
      rw [ancestors_pos hf.ainv (Nat.pos_of_ne_zero h0) hlt] at ms
      simp only [estep]
      cases hs : es.scopes with
      | nil => rw [hs] at ms; exact ms.elim
      | cons sc rest =>
        rw [hs] at ms
        cases rest with
        | nil => exact ms.2.elim
        | cons sc1 rest => exact ms.2

/-- start-of-element events -/
theorem MInv.elem {s : BState} {es : EState} {ph : Phase} (m : MInv s es ph) (h : SInv s)
    (u l : Chars) : MInv (step s (.elem u l)) (estep es (.elem u l)) .ns := by
  have hf := h.finish
  have hfc : (finish s).cur = s.cur := finish_cur s
  have hlt : s.cur < (finish s).a.size := hfc ▸ hf.cur_lt
  have hs' : SInv (step s (.elem u l)) := h.step _
  have hd : (step s (.elem u l)).done = false := rfl
  have hpe : (step s (.elem u l)).pending = [] := rfl
  have hcur : (step s (.elem u l)).cur = (finish s).a.size := rfl
  have ha : (step s (.elem u l)).a
      = (Store.addLeaf s { kind := .elem, uri := u, loc := l } false).a := rfl
  have hcell := addLeaf_cell_new s { kind := .elem, uri := u, loc := l } false hf.cur_lt
  have hn0 : ((finish s).a.size == 0) = false := beq_eq_false_iff_ne.mpr (by omega)
  -- the scope stack is not empty
  have ms := m.scopes
  unfold chain at ms
  obtain ⟨sc0, rest, hsc⟩ : ∃ sc0 rest, es.scopes = sc0 :: rest := by
    cases hs : es.scopes with
    | nil => rw [hs] at ms; exact ms.elim
    | cons a b => exact ⟨a, b, rfl⟩
  rw [hsc] at ms
  -- bindings of the parent
  have hpb : parentBinds (step s (.elem u l)) = binds (finish s).a s.cur := by
    unfold parentBinds
    rw [hcur, hn0, ha, hcell]
    simp only [Bool.false_eq_true, if_false]
    rw [hfc]
    exact addLeaf_binds_old s _ false hf hlt
  have hes : estep es (.elem u l)
      = { out := { kind := .elem, uri := u, loc := l, val := [], depth := es.scopes.length,
                   scope := sortBinds sc0 } :: es.out,
          scopes := sc0 :: es.scopes, declaring := true } := by
    simp only [estep, hsc, List.headD_cons]
  have hkeep := finish_keep (step s (.elem u l)) hs'.p.cur_lt
  have hanc : Spec.ancestors (finish (step s (.elem u l))).a
        (finish (step s (.elem u l))).a.size (finish s).a.size
      = chain (finish s).a s.cur := by
    rw [hkeep.ancestors_eq hs'.p.ainv (by rw [← hcur]; exact hs'.p.cur_lt), ha,
      addLeaf_ancestors_new s _ false hf, hfc]
    rfl
  refine ⟨?_, ?_, fun _ => by rw [hes], fun _ => hd, by rw [hpe]; exact List.Pairwise.nil⟩
  · rw [describe_fresh hs' hd, hpe, resolve_nil, hpb, hes]
    simp only [List.reverse_cons]
    congr 1
    · show (List.range (finish s).a.size).filterMap
        (descOf (Store.addLeaf s { kind := .elem, uri := u, loc := l } false).a) = _
      rw [addLeaf_front s _ false hf]; exact m.out
    · unfold curDesc
      rw [hcur, ha, hcell]
      simp only [if_true, Option.toList_some]
      rw [addLeaf_depth_new s _ false hf, hfc, sortBinds_congr ms.1]
      have := m.scopes.length
      unfold chain at this
      rw [this]
  · rw [hes, hcur]
    unfold chain
    rw [hanc]
    refine ⟨?_, ?_⟩
    · rw [← hcur, finish_binds hd hs'.p.cur_lt, hpe, resolve_nil, hpb]; exact ms.1
    · have hm : ScopesOK (finish s).a (chain (finish s).a s.cur) es.scopes := m.scopes
      refine ScopesOK.congr (fun i hi => ?_) hm
      have hle := mem_chain_le hf.ainv hlt hi
      have hi' : i < (step s (.elem u l)).a.size := by
        rw [ha, addLeaf_size]; omega
      rw [hkeep.binds_eq hs'.p.ainv hi'
        (finish_nss_old _ hs'.p.cur_lt hi' (by rw [hcur]; omega)), ha]
      exact addLeaf_binds_old s _ false hf (by omega)

theorem ns_pending_eq (s : BState) (p u : Chars) (hd : s.done = false) :
    step s (.ns p u) = { s with pending := declare p u s.pending } := by
  simp [step, hd]

theorem setHeadScope_elem (d : NodeDesc) (t : List NodeDesc) (sc : List (Chars × Chars))
    (hk : d.kind = .elem) : setHeadScope (d :: t) sc = { d with scope := sortBinds sc } :: t := by
  simp [setHeadScope, hk]

/-- the description of the open element -/
def elemD (s : BState) (sc : List (Chars × Chars)) : NodeDesc :=
  { kind := .elem, uri := (cell s.a s.cur).uri, loc := (cell s.a s.cur).loc, val := [],
    depth := depthIn s.a s.cur, scope := sortBinds sc }

theorem curDesc_elem {s : BState} (he : (cell s.a s.cur).kind = .elem)
    (sc : List (Chars × Chars)) : curDesc s sc = some (elemD s sc) := by
  unfold curDesc elemD; rw [he]; simp

/-- namespace events, while the element is still being declared -/
theorem MInv.ns {s : BState} {es : EState} (m : MInv s es .ns) (h : SInv s) (p u : Chars) :
    MInv (step s (.ns p u)) (estep es (.ns p u)) .ns := by
  have hd := m.nsPhase rfl
  have hc := h.p.cur_lt
  have A := h.p.ainv
  have hs' : SInv (step s (.ns p u)) := h.step _
  have hstep := ns_pending_eq s p u hd
  have hd' : (step s (.ns p u)).done = false := by rw [hstep]; exact hd
  have hcur' : (step s (.ns p u)).cur = s.cur := by rw [hstep]
  have ha' : (step s (.ns p u)).a = s.a := by rw [hstep]
  have hpe' : (step s (.ns p u)).pending = declare p u s.pending := by rw [hstep]
  have hfront : front (step s (.ns p u)) = front s := by rw [hstep]; rfl
  have hpb : parentBinds (step s (.ns p u)) = parentBinds s := by rw [hstep]; rfl
  have hcd : ∀ sc, curDesc (step s (.ns p u)) sc = curDesc s sc := by intro sc; rw [hstep]; rfl
  have k := finish_keep s hc
  have k' := finish_keep (step s (.ns p u)) hs'.p.cur_lt
  -- both chains are the chain in `s.a`
  have hch : chain (finish s).a s.cur = chain s.a s.cur := by
    unfold chain; rw [k.ancestors_eq A hc]
  have hch' : chain (finish (step s (.ns p u))).a s.cur = chain s.a s.cur := by
    unfold chain
    have := k'.ancestors_eq hs'.p.ainv (j := s.cur) (by rw [ha']; exact hc)
    rw [this, ha']
  -- the scope stack
  have ms := m.scopes
  rw [hch] at ms
  unfold chain at ms
  obtain ⟨sc, rest, hsc⟩ : ∃ sc rest, es.scopes = sc :: rest := by
    cases hs : es.scopes with
    | nil => rw [hs] at ms; exact ms.elim
    | cons a b => exact ⟨a, b, rfl⟩
  rw [hsc] at ms
  have hb : binds (finish s).a s.cur = resolve s.pending (parentBinds s) := finish_binds hd hc
  have hperm : (resolve (declare p u s.pending) (parentBinds s)).Perm (Spec.bind p u sc) :=
    (resolve_declare p u _ m.nodup).trans (bind_perm p u (hb ▸ ms.1))
  have hdecl := m.decl rfl
  have hout := m.out
  rw [describe_fresh h hd] at hout
  have hscopes : (estep es (.ns p u)).scopes = Spec.bind p u sc :: rest := by
    simp only [estep, hsc]; split <;> rfl
  have hdeclaring : (estep es (.ns p u)).declaring = true := by
    simp only [estep, hsc]; split <;> exact hdecl
  refine ⟨?_, ?_, fun _ => hdeclaring, fun _ => hd', by rw [hpe']; exact declare_nodup p u m.nodup⟩
  · rw [describe_fresh hs' hd', hfront, hpb, hpe', hcd]
    rcases h.p.cur_kind with hr | he
    · -- the document: no description, the output is unchanged
      have h0 : s.cur = 0 := by
        by_cases h0 : s.cur = 0
        · exact h0
        · exact absurd hr (A.nonroot s.cur (Nat.pos_of_ne_zero h0) hc).1
      have hrest : rest = [] := by
        rw [h0, ancestors_zero] at ms
        cases rest with
        | nil => rfl
        | cons _ _ => exact ms.2.elim
      have hcn : ∀ sc, curDesc s sc = none := by intro sc; unfold curDesc; rw [hr]; simp
      rw [hcn] at hout ⊢
      have : (estep es (.ns p u)).out = es.out := by
        simp [estep, hsc, hrest]
      rw [this]; exact hout
    · have hne : s.cur ≠ 0 := by
        intro h0; rw [h0, A.root.1] at he; cases he
      have hrest : rest ≠ [] := by
        rw [ancestors_pos A (Nat.pos_of_ne_zero hne) hc] at ms
        intro e; rw [e] at ms; exact ms.2.elim
      have hlen : (decide ((sc :: rest).length > 1) && es.declaring) = true := by
        cases rest with
        | nil => exact absurd rfl hrest
        | cons _ _ => simp [hdecl]
      have hcs : ∀ sc, curDesc s sc = some (elemD s sc) := curDesc_elem he
      rw [hcs] at hout ⊢
      have hout' : es.out = elemD s (resolve s.pending (parentBinds s)) :: (front s).reverse := by
        have := congrArg List.reverse hout
        simpa using this.symm
      have : (estep es (.ns p u)).out = setHeadScope es.out (Spec.bind p u sc) := by
        simp only [estep, hsc, hlen, if_true]
      rw [this, hout', setHeadScope_elem _ _ _ rfl, ← sortBinds_congr hperm]
      simp [elemD]
  · rw [hscopes, hcur', hch']
    unfold chain
    refine ⟨?_, ?_⟩
    · rw [← hcur', finish_binds hd' hs'.p.cur_lt, hpe', hpb]; exact hperm
    · refine ScopesOK.congr (fun i hi => ?_) ms.2
      have hlt := mem_ancestors_lt A _ s.cur hc i hi
      have e1 : binds (finish s).a i = binds s.a i :=
        k.binds_eq A (by omega) (finish_nss_old s hc (by omega) (by omega))
      have hi' : i < (step s (.ns p u)).a.size := by rw [ha']; omega
      have e2 : binds (finish (step s (.ns p u))).a i = binds (step s (.ns p u)).a i :=
        k'.binds_eq hs'.p.ainv hi' (finish_nss_old _ hs'.p.cur_lt hi' (by rw [hcur']; omega))
      rw [e2, ha', ← e1]

theorem MInv.step {s : BState} {es : EState} {ph ph' : Phase} (m : MInv s es ph) (h : SInv s)
    (e : Ev) (hn : nextPhase ph e = some ph') : MInv (step s e) (estep es e) ph' := by
  cases e with
  | elem u l =>
    have : ph' = .ns := by cases ph <;> simp [nextPhase] at hn <;> exact hn.symm
    subst this
    exact m.elem h u l
  | ns p u =>
    have hph : ph = .ns ∧ ph' = .ns := by cases ph <;> simp [nextPhase] at hn <;> simp [hn]
    obtain ⟨rfl, rfl⟩ := hph
    exact m.ns h p u
  | attr u l v =>
    have hph : ph' = .attr := by cases ph <;> simp [nextPhase] at hn <;> simp [hn]
    subst hph
    exact m.addLeaf h { kind := .attr, uri := u, loc := l, val := v } true (by simp) (by simp)
      (by simp) rfl rfl (by simp)
  | text v =>
    have : ph' = .child := by cases ph <;> simp [nextPhase] at hn <;> exact hn.symm
    subst this
    exact m.addLeaf h { kind := .text, val := v } false (by simp) (by simp) (by simp) rfl rfl
      (by simp)
  | comment v =>
    have : ph' = .child := by cases ph <;> simp [nextPhase] at hn <;> exact hn.symm
    subst this
    exact m.addLeaf h { kind := .comment, val := v } false (by simp) (by simp) (by simp) rfl rfl
      (by simp)
  | pi t v =>
    have : ph' = .child := by cases ph <;> simp [nextPhase] at hn <;> exact hn.symm
    subst this
    exact m.addLeaf h { kind := .pi, loc := t, val := v } false (by simp) (by simp) (by simp)
      rfl rfl (by simp)
  | close =>
    have : ph' = .child := by cases ph <;> simp [nextPhase] at hn <;> exact hn.symm
    subst this
    exact m.close h

theorem MInv_init : MInv Store.init {} .ns := by
  have hd : Store.init.done = false := rfl
  have hc : Store.init.cur < Store.init.a.size := by decide
  refine ⟨?_, ?_, fun _ => rfl, fun _ => rfl, List.Pairwise.nil⟩
  · rw [describe_fresh SInv_init hd]; rfl
  · show ScopesOK _ (chain _ 0) [[]]
    unfold chain
    rw [ancestors_zero]
    refine ⟨?_, trivial⟩
    have : binds (finish Store.init).a Store.init.cur = [] := by
      rw [finish_binds hd hc]; rfl
    rw [show (0 : Nat) = Store.init.cur from rfl, this]

theorem MInv.foldl {s : BState} {es : EState} {ph : Phase} (m : MInv s es ph) (h : SInv s)
    (evs : List Ev) (ho : orderedFrom ph evs = true) :
    describe (finish (evs.foldl Store.step s)).a = (evs.foldl estep es).out.reverse := by
  induction evs generalizing s es ph with
  | nil => exact m.out
  | cons e evs ih =>
    simp only [orderedFrom] at ho
    split at ho
    · cases ho
    · next ph' hn => exact ih (m.step h e hn) (h.step e) ho

/-- S7 -/
theorem build_mirrors_of_ordered {evs : List Ev} (ho : Ordered evs) :
    Spec.mirrors evs (build evs) = true := by
  simp only [Spec.mirrors, beq_iff_eq, expected, build]
  exact MInv_init.foldl SInv_init evs ho

theorem build_mirrors {evs : List Ev} (hc : Conforming evs) :
    Spec.mirrors evs (build evs) = true :=
  build_mirrors_of_ordered hc.ordered

end Xsel.StoreL
