/-
  Proofs/Lemmas/StoreWf.lean — S6: the invariants add up to the Cursor contract `wfb`.
-/
import Proofs.Lemmas.StoreOrd

namespace Xsel.StoreL
open Xsel Xsel.Store Xsel.Arena

theorem allLt_of {l m : List Nat} (h : ∀ x ∈ l, ∀ y ∈ m, x < y) : allLt l m = true := by
  simp only [allLt, List.all_eq_true, decide_eq_true_eq]
  exact h

theorem wfCell_of_inv {a : Arena} {cur : Nat} (h : PInv a cur) (o : OrdInv a) {i : Nat}
    (hi : i < a.size) : wfCell a i = true := by
  have A := h.ainv
  simp only [wfCell, Bool.and_eq_true]
  refine ⟨⟨⟨⟨⟨⟨⟨⟨⟨⟨?_, ?_⟩, ?_⟩, ?_⟩, ?_⟩, ?_⟩, ?_⟩, ?_⟩, ?_⟩, ?_⟩, ?_⟩
  · exact (strictAsc_iff_pairwise _).mpr (A.asc .ns i hi)
  · exact (strictAsc_iff_pairwise _).mpr (A.asc .attr i hi)
  · exact (strictAsc_iff_pairwise _).mpr (A.asc .kid i hi)
  · simp only [List.all_eq_true, Bool.and_eq_true, decide_eq_true_eq, beq_iff_eq]
    intro j hj
    obtain ⟨h1, h2, h3, h4⟩ := A.lst .ns i hi j hj
    exact ⟨⟨⟨h1, h2⟩, h3⟩, h4⟩
  · simp only [List.all_eq_true, Bool.and_eq_true, decide_eq_true_eq, beq_iff_eq]
    intro j hj
    obtain ⟨h1, h2, h3, h4⟩ := A.lst .attr i hi j hj
    exact ⟨⟨⟨h1, h2⟩, h3⟩, h4⟩
  · simp only [List.all_eq_true, Bool.and_eq_true, decide_eq_true_eq, beq_iff_eq, bne_iff_ne]
    intro j hj
    obtain ⟨h1, h2, ⟨h3, h3', h3''⟩, h4⟩ := A.lst .kid i hi j hj
    refine ⟨⟨⟨⟨h1, h2⟩, ?_⟩, h3''⟩, h4⟩
    simp only [Arena.isTree, Arena.isAttrOrNs, Arena.kind]
    cases hk : (cell a j).kind <;> simp_all
  · exact allLt_of (o i hi .ns .attr (by decide))
  · exact allLt_of (o i hi .ns .kid (by decide))
  · exact allLt_of (o i hi .attr .kid (by decide))
  · by_cases h1 : (cell a i).kind = .root
    · simp [h1]
    · by_cases h2 : (cell a i).kind = .elem
      · simp [h2]
      · have := A.leaf i hi h1 h2
        have e1 : (cell a i).nss = [] := this .ns
        have e2 : (cell a i).attrs = [] := this .attr
        have e3 : (cell a i).kids = [] := this .kid
        simp [e1, e2, e3]
  · by_cases h0 : i = 0
    · subst h0
      simp [A.root.1, A.root.2, A.pos 0 hi]
    · have hp : 0 < i := Nat.pos_of_ne_zero h0
      have hb : (i == 0) = false := by simp [h0]
      simp only [hb, Bool.false_eq_true, if_false, Bool.and_eq_true, decide_eq_true_eq,
        bne_iff_ne, Bool.or_eq_true, beq_iff_eq]
      obtain ⟨n1, n2⟩ := A.nonroot i hp hi
      refine ⟨⟨⟨⟨n1, n2⟩, ?_⟩, ?_⟩, ?_⟩
      · show (cell a (i - 1)).pos < _
        rw [A.pos i hi, A.pos (i - 1) (by omega)]; omega
      · have hl := A.listed i hp hi
        simp only [Arena.nss, Arena.attrs, Arena.kids]
        cases hk : (cell a i).kind <;> rw [hk] at hl <;> simp only [List.contains_iff_mem]
          <;> exact hl
      · by_cases hpe : (cell a i).parent = i - 1
        · exact Or.inl hpe
        · exact Or.inr ((h.pre i hp hi).anc A (by omega) hpe)

theorem wfb_of_inv {a : Arena} {cur : Nat} (h : PInv a cur) (o : OrdInv a) : wfb a = true := by
  simp only [wfb, Bool.and_eq_true, decide_eq_true_eq, List.all_eq_true, List.mem_range]
  exact ⟨by have := h.cur_lt; omega, fun i hi => wfCell_of_inv h o hi⟩

/-- S6 -/
theorem build_wf_of_ordered {evs : List Ev} (ho : Ordered evs) : wfb (build evs) = true :=
  wfb_of_inv (build_pinv evs) (build_ordinv ho)

theorem build_wf {evs : List Ev} (hc : Conforming evs) : wfb (build evs) = true :=
  build_wf_of_ordered hc.ordered

theorem allLt_elim {l m : List Nat} (h : allLt l m = true) : ∀ x ∈ l, ∀ y ∈ m, x < y := by
  simpa only [allLt, List.all_eq_true, decide_eq_true_eq] using h

/-- conversely, the ordering clause is part of `wfb` -/
theorem ordinv_of_wfb {a : Arena} (h : wfb a = true) : OrdInv a := by
  simp only [wfb, Bool.and_eq_true, decide_eq_true_eq, List.all_eq_true, List.mem_range] at h
  intro i hi Y Z hr
  have hw := h.2 i hi
  simp only [wfCell, Bool.and_eq_true] at hw
  obtain ⟨⟨⟨⟨⟨_, h1⟩, h2⟩, h3⟩, _⟩, _⟩ := hw
  cases Y <;> cases Z <;> simp [Cls.rank] at hr
  · exact allLt_elim h1
  · exact allLt_elim h2
  · exact allLt_elim h3

/-- for EVERY event list, the built tree satisfies the Cursor contract exactly when its
    namespace / attribute / child lists are in document order -/
theorem build_wf_iff_ordinv (evs : List Ev) : wfb (build evs) = true ↔ OrdInv (build evs) :=
  ⟨ordinv_of_wfb, wfb_of_inv (build_pinv evs)⟩

end Xsel.StoreL
