/-
  Proofs/Lemmas/EvalAsc.lean — soundness of the syntactic predicate `ascending`: both
  evaluators list the node-set of an `ascending` expression in ascending document order.
-/
import Proofs.Lemmas.EvalOk

namespace Xsel
open Arena

/-- the evaluators covered: the specification (per node) and the model (`Model.axis`) -/
def SemOk (sem : Sem) : Prop := sem.perNode = true ∨ sem.axis = Model.axis

theorem semOk_model : SemOk Model.sem := .inr rfl
theorem semOk_spec : SemOk Spec.sem := .inl rfl
theorem semOk_specKF : SemOk Spec.semKF := .inl rfl

def AscE (sem : Sem) (a : Arena) (e : Expr) : Prop :=
  ∀ (ca : Bool) (c : Ctx) (v : Val), (ca = true → Val.Asc c.result) → EnvOk a c.env →
    ascending ca e = true → eval sem e c = .ok v → Val.Asc v

theorem Val.Asc.sublist {l r : List Nat} (hs : r.Sublist l) (h : Val.Asc (.nodes l)) :
    Val.Asc (.nodes r) := List.Pairwise.sublist hs h

section
variable {sem : Sem} {a : Arena}

theorem ascE_bin (op : BinOp) (l r : Expr) : AscE sem a (.bin op l r) := by
  intro ca c v hc he hasc hv
  rw [eval] at hv
  simp only [bind_ok] at hv
  obtain ⟨x, hx, y, hy, hv⟩ := hv
  cases op <;> simp only [pure_ok] at hv
  case union =>
    cases x <;> cases y <;> simp only [pure_ok, throw_ok] at hv
    subst hv
    exact cleanupFwd_strict _
  all_goals (subst hv; exact True.intro)

theorem ascE_neg (e : Expr) : AscE sem a (.neg e) := by
  intro ca c v hc he hasc hv
  rw [eval] at hv
  simp only [bind_ok, pure_ok] at hv
  obtain ⟨x, _, hv⟩ := hv
  subst hv; exact True.intro

theorem ascE_num (n : Num) : AscE sem a (.num n) := by
  intro ca c v hc he hasc hv
  rw [eval] at hv
  cases hv; exact True.intro

theorem ascE_lit (s : Chars) : AscE sem a (.lit s) := by
  intro ca c v hc he hasc hv
  rw [eval] at hv
  cases hv; exact True.intro

theorem ascE_root : AscE sem a .root := by
  intro ca c v hc he hasc hv
  rw [eval] at hv
  cases hv
  exact Val.Asc.single 0

theorem ascE_ctx : AscE sem a .ctx := by
  intro ca c v hc he hasc hv
  rw [eval] at hv
  cases hv
  exact hc (by simpa [ascending] using hasc)

theorem ascE_var (pfx : Option Chars) (name : Chars) : AscE sem a (.var pfx name) := by
  intro ca c v hc he hasc hv
  rw [eval] at hv
  simp only [bind_ok] at hv
  obtain ⟨q, _, hv⟩ := hv
  split at hv
  · next w hw =>
    simp only [pure_ok] at hv
    subst hv
    obtain ⟨p, hp, e⟩ := lookupQ_mem hw
    exact e ▸ (he p hp).2
  · simp only [throw_ok] at hv

theorem ascE_call (base : Expr) (pfx : Option Chars) (name : Chars) (args : Exprs) :
    AscE sem a (.call base pfx name args) := by
  intro ca c v hc he hasc hv
  simp [ascending] at hasc

theorem ascE_filt (base pred : Expr) : AscE sem a (.filt base pred) := by
  intro ca c v hc he hasc hv
  rw [eval] at hv
  simp only [bind_ok, pure_ok, nodes?_ok] at hv
  obtain ⟨b, hb, l, rfl, r, hr, rfl⟩ := hv
  exact Val.Asc.sublist (applyPred_sublist _ _ _ _ hr) (cleanupFwd_strict _)

theorem ascE_step (hsem : SemOk sem) {base : Expr} (ax : Axis) (t : NodeTest) (preds : Exprs)
    (ihb : AscE sem a base) : AscE sem a (.step base ax t preds) := by
  intro ca c v hc he hasc hv
  rw [eval] at hv
  simp only [bind_ok, nodes?_ok] at hv
  obtain ⟨b, hb, s, rfl, hv⟩ := hv
  split at hv
  · simp only [bind_ok, pure_ok] at hv
    obtain ⟨_, _, r, hr, rfl⟩ := hv
    exact cleanupFwd_strict _
  · next hcond =>
    simp only [bind_ok, pure_ok] at hv
    obtain ⟨l0, hl0, r, hr, rfl⟩ := hv
    have hax : sem.axis = Model.axis := by
      rcases hsem with hp | hp
      · simp [hp] at hcond
      · exact hp
    rw [hax] at hl0
    refine Val.Asc.sublist ((applyPreds_sublist _ _ _ _ hr).trans (NodeTest.apply_sublist hl0)) ?_
    apply model_axis_asc
    simp only [ascending] at hasc
    split
    · next hself =>
      simp only [hself, if_true] at hasc
      exact ihb ca c _ hc he hasc hb
    · next hself =>
      simpa [hself] using hasc

/-- `ascending` is sound for both evaluators -/
theorem eval_asc (hsem : SemOk sem) (e : Expr) : AscE sem a e :=
  @Expr.rec (fun e => AscE sem a e) (fun _ => True)
    (fun op l r _ _ => ascE_bin op l r)
    (fun e _ => ascE_neg e)
    ascE_num ascE_lit ascE_var
    (fun base pfx name args _ _ => ascE_call base pfx name args)
    ascE_root ascE_ctx
    (fun _ ax t preds ihb _ => ascE_step hsem ax t preds ihb)
    (fun base pred _ _ => ascE_filt base pred)
    True.intro
    (fun _ _ _ _ => True.intro)
    e

end
end Xsel
