/-
  Proofs/Lemmas/WalkFrame.lean — FRAME property of the handler layer: whatever tree is walked, with whatever
  handler table, a successful walk returns a context that differs from the one it started with in the RESULT and
  in the principal node type only.  The document (`a`), the bindings (`env`), the context position and size are
  never written by a handler: sub-evaluations that need other values work on copies (`context.copy()`).
-/
import Proofs.Lemmas.WalkBase

namespace Xsel.Walk
open Xsel Xsel.Syntax

/-- `w'` differs from `w` in the result and the principal node type only -/
def Same (w w' : WCtx) : Prop :=
  w'.c.a = w.c.a ∧ w'.c.env = w.c.env ∧ w'.c.pos = w.c.pos ∧ w'.c.size = w.c.size

theorem Same.refl (w : WCtx) : Same w w := ⟨rfl, rfl, rfl, rfl⟩
theorem Same.trans {a b c : WCtx} (h1 : Same a b) (h2 : Same b c) : Same a c :=
  ⟨h2.1.trans h1.1, h2.2.1.trans h1.2.1, h2.2.2.1.trans h1.2.2.1, h2.2.2.2.trans h1.2.2.2⟩
theorem Same.set (w : WCtx) (v : Val) : Same w (w.set v) := ⟨rfl, rfl, rfl, rfl⟩
theorem Same.principal (w : WCtx) (k : Kind) : Same w { w with principal := k } := ⟨rfl, rfl, rfl, rfl⟩

/-- a successful outcome is a context that is the same as `w` up to result and principal node type -/
def FR (w : WCtx) : R → Prop
  | .ok w' => Same w w'
  | .error _ => True

theorem FR.ok {w w' : WCtx} (h : Same w w') : FR w (.ok w') := h
theorem FR.err (w : WCtx) (e : WErr) : FR w (.error e) := trivial

theorem FR.bind {w : WCtx} {r : R} {f : WCtx → R} (h1 : FR w r) (h2 : ∀ w1, Same w w1 → FR w (f w1)) :
    FR w (r >>= f) := by
  cases r with
  | ok w1 => exact h2 w1 h1
  | error e => exact trivial

/-- a bind whose first part computes something else (a list, a value) in copies of the context -/
theorem FR.bind_other {α : Type} {w : WCtx} {r : Except WErr α} {f : α → R} (h2 : ∀ a, FR w (f a)) :
    FR w (r >>= f) := by
  cases r with
  | ok a => exact h2 a
  | error e => exact trivial

theorem FR.of_same {w w0 : WCtx} {r : R} (h0 : Same w w0) (h : FR w0 r) : FR w r := by
  cases r with
  | ok w' => exact h0.trans h
  | error e => exact trivial

theorem FR.map_set {α : Type} {w : WCtx} {r : Except WErr α} (g : α → Val) : FR w (r.map (fun x => w.set (g x))) := by
  cases r with
  | ok a => exact Same.set w _
  | error e => exact trivial

def AllFR (tb : List (String × String)) : PTs → Prop
  | .nil => True
  | .cons t ts => (∀ w, FR w (walk tb t w)) ∧ AllFR tb ts

theorem walkFirst_fr (tb) : ∀ (ks : PTs), AllFR tb ks → ∀ w, FR w (walkFirst tb ks w)
  | .nil, _, w => by rw [walkFirst]; exact Same.refl w
  | .cons t ts, h, w => by
    rw [walkFirst]
    by_cases ht : t.isNt = true
    · simp only [ht, if_true]; exact h.1 w
    · simp only [ht]; exact walkFirst_fr tb ts h.2 w

theorem walkNth_fr (tb) : ∀ (ks : PTs) (n : Nat), AllFR tb ks → ∀ w, FR w (walkNth tb ks n w)
  | .nil, n, _, w => by rw [walkNth_nil]; exact trivial
  | .cons t ts, n, h, w => by
    by_cases ht : t.isNt = true
    · cases n with
      | zero => rw [walkNth_cons_nt0 _ _ _ _ ht]; exact h.1 w
      | succ m => rw [walkNth_cons_ntS _ _ _ _ _ ht]; exact walkNth_fr tb ts m h.2 w
    · have ht' : t.isNt = false := by simpa using ht
      rw [walkNth_cons_tok _ _ _ _ _ ht']
      exact walkNth_fr tb ts n h.2 w

theorem walkLast_fr (tb) : ∀ (ks : PTs), AllFR tb ks → ∀ w, FR w (walkLast tb ks w)
  | .nil, _, w => by rw [walkLast]; exact trivial
  | .cons t ts, h, w => by
    rw [walkLast_cons]
    split
    · split
      · exact h.1 w
      · exact trivial
    · exact walkLast_fr tb ts h.2 w

theorem nameTest_fr (w : WCtx) (t : NodeTest) : FR w (nameTest w t) := by
  unfold nameTest
  cases w.res with
  | nodes l =>
    simp only
    cases NodeTest.apply w.c.a w.c.env (kindAxis w.principal) t l with
    | ok r => exact Same.set w _
    | error e => exact trivial
  | _ =>
    simp only
    cases NodeTest.apply w.c.a w.c.env (kindAxis w.principal) t [] with
    | ok r => exact Same.refl w
    | error e => exact trivial

theorem callFn_fr (w : WCtx) (f : Chars) (vs : List Val) : FR w (callFn w f vs) := by
  unfold callFn
  simp only
  cases resolve w.c.env (splitQName f).1 (splitQName f).2 with
  | error e => exact trivial
  | ok q =>
    simp only
    cases lookupQ q w.c.env.fns with
    | some g =>
      simp only
      cases liftE (userFn Model.sem w.c g vs) with
      | ok v => exact Same.set w v
      | error e => exact trivial
    | none =>
      simp only
      split
      · cases builtin Model.sem w.c q.2 vs with
        | some r =>
          simp only
          cases liftE r with
          | ok v => exact Same.set w v
          | error e => exact trivial
        | none => exact trivial
      · exact trivial

theorem Same.pset (w : WCtx) (k : Kind) (v : Val) : Same w ({ w with principal := k }.set v) := ⟨rfl, rfl, rfl, rfl⟩

theorem FR.map_set' {w : WCtx} (v : Except WErr Val) : FR w (v.map w.set) := by
  cases v with
  | ok a => exact Same.set w a
  | error e => exact trivial

theorem FR.pure_set (w : WCtx) (v : Val) : FR w (pure (w.set v) : R) := Same.set w v
theorem FR.pure_pset (w : WCtx) (k : Kind) (v : Val) : FR w (pure ({ w with principal := k }.set v) : R) := Same.pset w k v
theorem FR.pure_self (w : WCtx) : FR w (pure w : R) := Same.refl w

/-- closes goals `FR w (…)` about one node, given `hk : AllFR tb kids` -/
macro "fr_close" : tactic => `(tactic|
  repeat' (first
    | exact trivial
    | exact Same.refl _
    | exact Same.set _ _
    | exact Same.pset _ _ _
    | exact FR.pure_set _ _
    | exact FR.pure_pset _ _ _
    | exact FR.pure_self _
    | exact FR.map_set' _
    | exact nameTest_fr _ _
    | exact callFn_fr _ _ _
    | exact walkNth_fr _ _ _ ‹AllFR _ _› _
    | exact walkLast_fr _ _ ‹AllFR _ _› _
    | exact walkFirst_fr _ _ ‹AllFR _ _› _
    | exact FR.of_same ‹Same _ _› (walkNth_fr _ _ _ ‹AllFR _ _› _)
    | exact FR.of_same ‹Same _ _› (walkLast_fr _ _ ‹AllFR _ _› _)
    | exact FR.of_same ‹Same _ _› (walkFirst_fr _ _ ‹AllFR _ _› _)
    | exact FR.of_same (Same.set _ _) (walkFirst_fr _ _ ‹AllFR _ _› _)
    | exact FR.of_same (Same.principal _ _) (walkLast_fr _ _ ‹AllFR _ _› _)
    | exact FR.of_same (Same.pset _ _ _) (walkLast_fr _ _ ‹AllFR _ _› _)
    | exact FR.of_same (Same.pset _ Kind.elem _) (walkLast_fr _ _ ‹AllFR _ _› _)
    | exact FR.of_same (Same.principal _ Kind.elem) (walkLast_fr _ _ ‹AllFR _ _› _)
    | (dsimp only)
    | (apply FR.bind)
    | (apply FR.bind_other)
    | intro _
    | split))

/-- **every node, every handler table**: the walk of a node leaves document, bindings, position and size alone
    when the walks of its children do -/
theorem walk_nt_fr (tb : List (String × String)) (name : String) (kids : PTs) (hk : AllFR tb kids) (w : WCtx) :
    FR w (walk tb (.nt name kids) w) := by
  rw [walk]
  fr_close

mutual
theorem walk_fr (tb : List (String × String)) : (t : PT) → ∀ w, FR w (walk tb t w)
  | .tk t, w => by rw [walk]; exact Same.refl w
  | .nt n ks, w => walk_nt_fr tb n ks (walks_fr tb ks) w
theorem walks_fr (tb : List (String × String)) : (ts : PTs) → AllFR tb ts
  | .nil => trivial
  | .cons t ts => ⟨walk_fr tb t, walks_fr tb ts⟩
end

/-- **walk_frame** — for EVERY tree and EVERY handler table: a successful walk changes nothing of the context but
    the result and the principal node type -/
theorem walk_frame (tb : List (String × String)) (t : PT) (w w' : WCtx) (h : walk tb t w = .ok w') :
    w'.c.a = w.c.a ∧ w'.c.env = w.c.env ∧ w'.c.pos = w.c.pos ∧ w'.c.size = w.c.size := by
  have := walk_fr tb t w
  rw [h] at this
  exact this

end Xsel.Walk
