/-
  Proofs/Lemmas/StoreSort.lean — `Spec.sortBinds` is a canonical form: permutations have the same
  sorted list (`bindLe` is a total order on bindings).
-/
import Xsel.SpecStore

namespace Xsel.StoreL
open Xsel Xsel.Spec

theorem charsLt_irrefl : ∀ s : Chars, charsLt s s = false
  | [] => rfl
  | a :: s => by simp [charsLt, Char.lt_irrefl, charsLt_irrefl s]

theorem charsLt_trans : ∀ {s t u : Chars}, charsLt s t = true → charsLt t u = true →
    charsLt s u = true
  | [], [], _, h, _ => by simp [charsLt] at h
  | [], _ :: _, [], _, h => by simp [charsLt] at h
  | [], _ :: _, _ :: _, _, _ => by simp [charsLt]
  | _ :: _, [], _, h, _ => by simp [charsLt] at h
  | _ :: _, _ :: _, [], _, h => by simp [charsLt] at h
  | a :: s, b :: t, c :: u, h1, h2 => by
    simp only [charsLt, Bool.or_eq_true, decide_eq_true_eq, Bool.and_eq_true, beq_iff_eq] at h1 h2 ⊢
    rcases h1 with h1 | ⟨rfl, h1⟩
    · rcases h2 with h2 | ⟨rfl, _⟩
      · exact Or.inl (Char.lt_trans h1 h2)
      · exact Or.inl h1
    · rcases h2 with h2 | ⟨rfl, h2⟩
      · exact Or.inl h2
      · exact Or.inr ⟨rfl, charsLt_trans h1 h2⟩

theorem charsLt_total : ∀ {s t : Chars}, charsLt s t = false → charsLt t s = false → s = t
  | [], [], _, _ => rfl
  | [], _ :: _, h, _ => by simp [charsLt] at h
  | _ :: _, [], _, h => by simp [charsLt] at h
  | a :: s, b :: t, h1, h2 => by
    simp only [charsLt, Bool.or_eq_false_iff, decide_eq_false_iff_not, Bool.and_eq_false_iff,
      beq_eq_false_iff_ne] at h1 h2
    have hab : a = b := Char.le_antisymm (Char.not_lt.mp h2.1) (Char.not_lt.mp h1.1)
    subst hab
    have e1 : charsLt s t = false := by
      rcases h1.2 with h | h
      · exact absurd rfl h
      · exact h
    have e2 : charsLt t s = false := by
      rcases h2.2 with h | h
      · exact absurd rfl h
      · exact h
    rw [charsLt_total e1 e2]

theorem charsLt_asymm {s t : Chars} (h : charsLt s t = true) : charsLt t s = false := by
  cases h' : charsLt t s
  · rfl
  · have := charsLt_trans h h'
    rw [charsLt_irrefl] at this
    cases this

/-- `bindLe` as a relation -/
def BLe (x y : Chars × Chars) : Prop := bindLe x y = true

theorem bindLe_iff (x y : Chars × Chars) :
    bindLe x y = true ↔ charsLt x.1 y.1 = true ∨ (x.1 = y.1 ∧ charsLt y.2 x.2 = false) := by
  simp [bindLe]

theorem BLe.total (x y : Chars × Chars) : BLe x y ∨ BLe y x := by
  simp only [BLe, bindLe_iff]
  cases h1 : charsLt x.1 y.1
  · cases h2 : charsLt y.1 x.1
    · have e := charsLt_total h1 h2
      cases h3 : charsLt y.2 x.2
      · exact Or.inl (Or.inr ⟨e, rfl⟩)
      · exact Or.inr (Or.inr ⟨e.symm, charsLt_asymm h3⟩)
    · exact Or.inr (Or.inl rfl)
  · exact Or.inl (Or.inl rfl)

theorem BLe.trans {x y z : Chars × Chars} (h1 : BLe x y) (h2 : BLe y z) : BLe x z := by
  simp only [BLe, bindLe_iff] at h1 h2 ⊢
  rcases h1 with h1 | ⟨e1, h1⟩
  · rcases h2 with h2 | ⟨e2, _⟩
    · exact Or.inl (charsLt_trans h1 h2)
    · rw [← e2]; exact Or.inl h1
  · rcases h2 with h2 | ⟨e2, h2⟩
    · rw [e1]; exact Or.inl h2
    · refine Or.inr ⟨e1.trans e2, ?_⟩
      cases h3 : charsLt z.2 x.2
      · rfl
      · -- z.2 < x.2, ¬ y.2 < x.2, ¬ z.2 < y.2
        cases h4 : charsLt x.2 y.2
        · have := charsLt_total h4 h1
          rw [this] at h3; rw [h3] at h2; cases h2
        · have := charsLt_trans h3 h4
          rw [this] at h2; cases h2

theorem BLe.antisymm {x y : Chars × Chars} (h1 : BLe x y) (h2 : BLe y x) : x = y := by
  simp only [BLe, bindLe_iff] at h1 h2
  rcases h1 with h1 | ⟨e1, h1⟩
  · rcases h2 with h2 | ⟨e2, _⟩
    · rw [charsLt_asymm h1] at h2; cases h2
    · rw [e2, charsLt_irrefl] at h1; cases h1
  · rcases h2 with h2 | ⟨_, h2⟩
    · rw [e1, charsLt_irrefl] at h2; cases h2
    · exact Prod.ext e1 (charsLt_total h2 h1)

theorem insertBind_perm (x : Chars × Chars) : ∀ l, (insertBind x l).Perm (x :: l)
  | [] => List.Perm.refl _
  | y :: t => by
    simp only [insertBind]
    split
    · exact List.Perm.refl _
    · exact ((insertBind_perm x t).cons y).trans (List.Perm.swap x y t)

theorem sortBinds_perm : ∀ l, (sortBinds l).Perm l
  | [] => List.Perm.refl _
  | x :: t => (insertBind_perm x _).trans ((sortBinds_perm t).cons x)

theorem insertBind_sorted (x : Chars × Chars) : ∀ l, l.Pairwise BLe → (insertBind x l).Pairwise BLe
  | [], _ => by simp [insertBind]
  | y :: t, h => by
    simp only [insertBind]
    have hc := List.pairwise_cons.mp h
    split
    · next hxy =>
      refine List.pairwise_cons.mpr ⟨?_, h⟩
      intro z hz
      rcases List.mem_cons.mp hz with rfl | hz
      · exact hxy
      · exact BLe.trans hxy (hc.1 z hz)
    · next hxy =>
      have hyx : BLe y x := by
        rcases BLe.total x y with h' | h'
        · exact absurd h' hxy
        · exact h'
      refine List.pairwise_cons.mpr ⟨?_, insertBind_sorted x t hc.2⟩
      intro z hz
      rcases List.mem_cons.mp ((insertBind_perm x t).subset hz) with rfl | hz
      · exact hyx
      · exact hc.1 z hz

theorem sortBinds_sorted : ∀ l, (sortBinds l).Pairwise BLe
  | [] => List.Pairwise.nil
  | x :: t => insertBind_sorted x _ (sortBinds_sorted t)

/-- permutations have the same sorted form -/
theorem sortBinds_congr {l l' : List (Chars × Chars)} (h : l.Perm l') :
    sortBinds l = sortBinds l' :=
  List.Perm.eq_of_pairwise (le := BLe) (fun _ _ _ _ h1 h2 => BLe.antisymm h1 h2)
    (sortBinds_sorted l) (sortBinds_sorted l')
    ((sortBinds_perm l).trans (h.trans (sortBinds_perm l').symm))

end Xsel.StoreL
