/-
  Proofs/Lemmas/Cleanup.lean — `cleanupFwd` / `cleanupBwd` (sort by position + drop equal
  neighbours) return a strictly monotone list with exactly the members of the input.
-/
import Xsel.Arena

namespace Xsel

theorem mem_uniqueAdj {x : Nat} : ∀ {l : List Nat}, x ∈ uniqueAdj l ↔ x ∈ l
  | [] => by simp [uniqueAdj]
  | [y] => by simp [uniqueAdj]
  | y :: z :: t => by
    have ih := @mem_uniqueAdj x (z :: t)
    unfold uniqueAdj
    split
    · next h =>
      have : y = z := by simpa using h
      subst this
      rw [ih]; simp
    · simp [ih]

/-- after sorting with `≤`, dropping equal neighbours leaves a strictly increasing list -/
theorem uniqueAdj_strict_of_le : ∀ {l : List Nat}, l.Pairwise (· ≤ ·) → (uniqueAdj l).Pairwise (· < ·)
  | [], _ => by simp [uniqueAdj]
  | [y], _ => by simp [uniqueAdj]
  | y :: z :: t, h => by
    have hyz : y ≤ z := (List.pairwise_cons.mp h).1 z (by simp)
    have ht : (z :: t).Pairwise (· ≤ ·) := (List.pairwise_cons.mp h).2
    have ih := uniqueAdj_strict_of_le ht
    unfold uniqueAdj
    split
    · exact ih
    · next hne =>
      have hne' : y ≠ z := by simpa using hne
      refine List.pairwise_cons.mpr ⟨?_, ih⟩
      intro w hw
      have hw' : w ∈ z :: t := mem_uniqueAdj.mp hw
      have : z ≤ w := by
        rcases List.mem_cons.mp hw' with rfl | hw''
        · exact Nat.le_refl _
        · exact (List.pairwise_cons.mp ht).1 w hw''
      omega

theorem uniqueAdj_strict_of_ge : ∀ {l : List Nat}, l.Pairwise (· ≥ ·) → (uniqueAdj l).Pairwise (· > ·)
  | [], _ => by simp [uniqueAdj]
  | [y], _ => by simp [uniqueAdj]
  | y :: z :: t, h => by
    have hyz : y ≥ z := (List.pairwise_cons.mp h).1 z (by simp)
    have ht : (z :: t).Pairwise (· ≥ ·) := (List.pairwise_cons.mp h).2
    have ih := uniqueAdj_strict_of_ge ht
    unfold uniqueAdj
    split
    · exact ih
    · next hne =>
      have hne' : y ≠ z := by simpa using hne
      refine List.pairwise_cons.mpr ⟨?_, ih⟩
      intro w hw
      have hw' : w ∈ z :: t := mem_uniqueAdj.mp hw
      have : z ≥ w := by
        rcases List.mem_cons.mp hw' with rfl | hw''
        · exact Nat.le_refl _
        · exact (List.pairwise_cons.mp ht).1 w hw''
      omega

theorem mem_insertBy {le : Nat → Nat → Bool} {x y : Nat} : ∀ {l : List Nat}, y ∈ insertBy le x l ↔ y = x ∨ y ∈ l
  | [] => by simp [insertBy]
  | z :: t => by
    unfold insertBy
    split
    · simp
    · simp [mem_insertBy (l := t)]; constructor
      · rintro (h | h | h) <;> simp [h]
      · rintro (h | h | h) <;> simp [h]

theorem mem_sortBy {le : Nat → Nat → Bool} {y : Nat} : ∀ {l : List Nat}, y ∈ sortBy le l ↔ y ∈ l
  | [] => by simp [sortBy]
  | x :: t => by simp [sortBy, mem_insertBy, mem_sortBy (l := t)]

theorem insertBy_sorted {le : Nat → Nat → Bool} (R : Nat → Nat → Prop)
    (hle : ∀ a b, le a b = true → R a b) (hnle : ∀ a b, le a b = false → R b a)
    (trans : ∀ a b c, R a b → R b c → R a c) (x : Nat) :
    ∀ {l : List Nat}, l.Pairwise R → (insertBy le x l).Pairwise R
  | [], _ => by simp [insertBy]
  | y :: t, h => by
    have h' := List.pairwise_cons.mp h
    unfold insertBy
    split
    · next hxy =>
      refine List.pairwise_cons.mpr ⟨?_, h⟩
      intro z hz
      rcases List.mem_cons.mp hz with rfl | hz'
      · exact hle _ _ hxy
      · exact trans _ _ _ (hle _ _ hxy) (h'.1 z hz')
    · next hxy =>
      have hxy' : le x y = false := by simpa using hxy
      refine List.pairwise_cons.mpr ⟨?_, insertBy_sorted R hle hnle trans x h'.2⟩
      intro z hz
      rcases mem_insertBy.mp hz with rfl | hz'
      · exact hnle _ _ hxy'
      · exact h'.1 z hz'

theorem sortBy_sorted {le : Nat → Nat → Bool} (R : Nat → Nat → Prop)
    (hle : ∀ a b, le a b = true → R a b) (hnle : ∀ a b, le a b = false → R b a)
    (trans : ∀ a b c, R a b → R b c → R a c) : ∀ (l : List Nat), (sortBy le l).Pairwise R
  | [] => by simp [sortBy]
  | x :: t => by
    simp only [sortBy]
    exact insertBy_sorted R hle hnle trans x (sortBy_sorted R hle hnle trans t)

theorem sortAsc_sorted (l : List Nat) : (sortAsc l).Pairwise (· ≤ ·) :=
  sortBy_sorted (· ≤ ·) (by intro a b; simp) (by intro a b; simp; omega) (by intro a b c; omega) l

theorem sortDesc_sorted (l : List Nat) : (sortDesc l).Pairwise (· ≥ ·) :=
  sortBy_sorted (· ≥ ·) (by intro a b; simp) (by intro a b; simp; omega) (by intro a b c; omega) l

@[simp] theorem mem_cleanupFwd {x : Nat} {l : List Nat} : x ∈ cleanupFwd l ↔ x ∈ l := by
  simp [cleanupFwd, mem_uniqueAdj, sortAsc, mem_sortBy]

@[simp] theorem mem_cleanupBwd {x : Nat} {l : List Nat} : x ∈ cleanupBwd l ↔ x ∈ l := by
  simp [cleanupBwd, mem_uniqueAdj, sortDesc, mem_sortBy]

theorem cleanupFwd_strict (l : List Nat) : (cleanupFwd l).Pairwise (· < ·) :=
  uniqueAdj_strict_of_le (sortAsc_sorted l)

theorem cleanupBwd_strict (l : List Nat) : (cleanupBwd l).Pairwise (· > ·) :=
  uniqueAdj_strict_of_ge (sortDesc_sorted l)

/-- two strictly increasing lists with the same members are equal -/
theorem strict_ext : ∀ {l m : List Nat}, l.Pairwise (· < ·) → m.Pairwise (· < ·) →
    (∀ x, x ∈ l ↔ x ∈ m) → l = m
  | [], [], _, _, _ => rfl
  | [], y :: m, _, _, h => by have := (h y).mpr (by simp); simp at this
  | x :: l, [], _, _, h => by have := (h x).mp (by simp); simp at this
  | x :: l, y :: m, hl, hm, h => by
    have hl' := List.pairwise_cons.mp hl
    have hm' := List.pairwise_cons.mp hm
    have hxy : x = y := by
      have hx : x ∈ y :: m := (h x).mp (by simp)
      have hy : y ∈ x :: l := (h y).mpr (by simp)
      rcases List.mem_cons.mp hx with e | hx'
      · exact e
      · rcases List.mem_cons.mp hy with e | hy'
        · exact e.symm
        · have := hm'.1 x hx'; have := hl'.1 y hy'; omega
    subst hxy
    congr 1
    apply strict_ext hl'.2 hm'.2
    intro z
    constructor
    · intro hz
      have : z ∈ x :: m := (h z).mp (List.mem_cons_of_mem _ hz)
      rcases List.mem_cons.mp this with e | hz'
      · have := hl'.1 z hz; omega
      · exact hz'
    · intro hz
      have : z ∈ x :: l := (h z).mpr (List.mem_cons_of_mem _ hz)
      rcases List.mem_cons.mp this with e | hz'
      · have := hm'.1 z hz; omega
      · exact hz'

/-- `cleanupFwd` is canonical: it depends only on the set of members -/
theorem cleanupFwd_ext {l m : List Nat} (h : ∀ x, x ∈ l ↔ x ∈ m) : cleanupFwd l = cleanupFwd m :=
  strict_ext (cleanupFwd_strict l) (cleanupFwd_strict m) (by intro x; simp [h x])

end Xsel
