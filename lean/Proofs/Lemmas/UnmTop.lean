/-
  Proofs/Lemmas/UnmTop.lean — consequences for the entry point `Unm.unmarshal`.
-/
import Proofs.Lemmas.UnmProps

namespace Xsel
namespace Unm

variable (run : Nat → Expr → Except Err Val) (sv : Nat → Chars)

/-- a field that can never be filled: an invalid tag, or a tag on an unexported field -/
def badField (ex : Bool) (tag : Option Expr) (bt : Bool) : Bool :=
  match tag with
  | none => bt
  | some _ => !ex

def hasBadField : GoFields → Bool
  | .nil => false
  | .cons _ ex tag bt _ rest => badField ex tag bt || hasBadField rest

theorem map_error {α β : Type} (f : α → β) (e : UErr) : (Except.error e : Except UErr α).map f = .error e := rfl

/-- a struct type with such a field anywhere makes `fillFields` fail, whatever else happens -/
theorem fillFields_bad_field : ∀ (fs : GoFields) (fuel : Nat) (vals : GoVals) (n : Nat),
    hasBadField fs = true → ∃ err, fillFields run sv fuel fs vals n = .error err
  | .nil, _, _, _, h => by simp [hasBadField] at h
  | .cons name ex tag bt ty rest, fuel, vals, n, h => by
    cases fuel with
    | zero => exact ⟨_, fillFields_zero_cons run sv _ _ _ _ _ _ _ _⟩
    | succ fuel =>
      simp only [hasBadField, Bool.or_eq_true] at h
      cases tag with
      | none =>
        rw [fillFields_untagged]
        cases bt with
        | true => exact ⟨_, rfl⟩
        | false =>
          have hrest : hasBadField rest = true := by
            rcases h with h | h
            · simp [badField] at h
            · exact h
          obtain ⟨err, he⟩ := fillFields_bad_field rest fuel (othersOf vals) n hrest
          exact ⟨err, by simp only [Bool.false_eq_true, if_false, he]; rfl⟩
      | some e =>
        cases hr : run n e with
        | error x => exact ⟨_, fillFields_query_error run sv fuel name ex e bt ty rest vals n x hr⟩
        | ok res =>
          rw [fillFields_tagged run sv fuel name ex e bt ty rest vals n res hr]
          cases fieldVal run sv fuel (stripPtr ty).2 res with
          | error err => exact ⟨err, rfl⟩
          | ok v =>
            cases ex with
            | false => exact ⟨.notSettable, rfl⟩
            | true =>
              have hrest : hasBadField rest = true := by
                rcases h with h | h
                · simp [badField] at h
                · exact h
              obtain ⟨err, he⟩ := fillFields_bad_field rest fuel (othersOf vals) n hrest
              exact ⟨err, by simp only [Bool.not_true, Bool.false_eq_true, if_false, he]; rfl⟩

/-- `unmarshal` never succeeds on a struct with an invalid tag or a tagged unexported field -/
theorem unmarshal_bad_struct_is_error (k : Nat) (nilAt : Option Nat) (fs : GoFields) (cur : GoVal)
    (res : Val) (h : hasBadField fs = true) :
    ∃ err, unmarshal run sv (.val k nilAt (.struct fs) cur) res = .error err := by
  cases nilAt with
  | some j => exact ⟨_, rfl⟩
  | none =>
    cases k with
    | zero => exact ⟨_, rfl⟩
    | succ k =>
      rw [unmarshal_struct_eq]
      by_cases h1 : ∃ n, res = .nodes [n]
      · obtain ⟨n, rfl⟩ := h1
        rw [show 2 * tySize (GoTy.struct fs) + 4 = (2 * tySize (GoTy.struct fs) + 3) + 1 by omega,
          fill_struct_one]
        obtain ⟨err, he⟩ := fillFields_bad_field run sv fs (2 * tySize (GoTy.struct fs) + 3) (valsOf fs cur) n h
        exact ⟨err, by rw [he]; rfl⟩
      · exact ⟨_, fill_struct_notOne run sv _ fs cur res (fun n e => h1 ⟨n, e⟩)⟩

/-- a pointer to a struct and a one-node node-set: the fields are filled in declaration order -/
theorem unmarshal_struct_one (k : Nat) (fs : GoFields) (cur : GoVal) (n : Nat) :
    unmarshal run sv (.val (k + 1) none (.struct fs) cur) (.nodes [n]) =
      (fillFields run sv (2 * tySize (.struct fs) + 3) fs (valsOf fs cur) n).map .struct := by
  rw [unmarshal_struct_eq,
    show 2 * tySize (GoTy.struct fs) + 4 = (2 * tySize (GoTy.struct fs) + 3) + 1 by omega, fill_struct_one]

/-- a pointer to a slice of scalars (behind `j` pointers each): one element per node of the
    node-set, in result order, after the existing items -/
theorem unmarshal_scalar_slice (k : Nat) (et : GoTy) (j : Nat) (s : Scalar) (hty : stripPtr et = (j, .scalar s))
    (cur : GoVal) (ns : List Nat) :
    unmarshal run sv (.val (k + 1) none (.slice et) cur) (.nodes ns) =
      .ok (.slice ((itemsOf cur).append
        (GoVals.ofList (ns.map (fun n => wrapPtr j (createValue sv s (.nodes [n]))))))) := by
  rw [unmarshal_slice_eq,
    show 2 * tySize (GoTy.slice et) + 4 = (2 * tySize (GoTy.slice et) + 3) + 1 by omega]
  have : ((k + 1) != 0) = true := by simp
  rw [this, slice_order run sv _ et j s hty]
  rfl

/-- a slice passed by value: unchanged when there is nothing to append, an error otherwise -/
theorem unmarshal_slice_by_value_nil (et : GoTy) (cur : GoVal) :
    unmarshal run sv (.val 0 none (.slice et) cur) (.nodes []) = .ok (.slice (itemsOf cur)) := by
  rw [unmarshal_slice_eq, fillSlice_nil]; rfl

theorem unmarshal_slice_by_value (et : GoTy) (cur : GoVal) (n : Nat) (ns : List Nat) :
    ∃ err, unmarshal run sv (.val 0 none (.slice et) cur) (.nodes (n :: ns)) = .error err := by
  rw [unmarshal_slice_eq]
  obtain ⟨err, he⟩ := slice_not_settable run sv (2 * tySize (GoTy.slice et) + 4) et n ns (itemsOf cur)
  have : ((0 : Nat) != 0) = false := rfl
  rw [this, he]
  exact ⟨err, rfl⟩

/-- a multi-dimensional slice target -/
theorem unmarshal_multi_dim (k : Nat) (et : GoTy) (j : Nat) (t : GoTy) (hty : stripPtr et = (j, .slice t))
    (cur : GoVal) (n : Nat) (ns : List Nat) :
    unmarshal run sv (.val k none (.slice et) cur) (.nodes (n :: ns)) = .error .multiDim := by
  rw [unmarshal_slice_eq,
    show 2 * tySize (GoTy.slice et) + 4 = (2 * tySize (GoTy.slice et) + 3) + 1 by omega,
    multi_dim_is_error run sv _ et j t hty]
  rfl

/-- every outcome is a value or an error: the function is total (there is no panic outcome) -/
theorem never_panics (t : Target) (res : Val) :
    (∃ v, unmarshal run sv t res = .ok v) ∨ (∃ e, unmarshal run sv t res = .error e) := by
  cases unmarshal run sv t res with
  | ok v => exact Or.inl ⟨v, rfl⟩
  | error e => exact Or.inr ⟨e, rfl⟩

end Unm
end Xsel
