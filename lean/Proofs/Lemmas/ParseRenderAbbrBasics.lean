/-
  Proofs/Lemmas/ParseRenderAbbrBasics.lean — the machinery of `ParseRender*.lean` once more, independent
  of the renderer: a token list `ts` of level `lv` "is read as" the tree `x` (`RdAt`, `Rd`), with the
  fuel bound (at most 20 per token) carried inside the statement, and with follow sets that allow `//`
  after a path (`folA`).  `Proofs/Lemmas/ParseRenderAbbr.lean` instantiates it with the abbreviated
  spelling `rawAbbr`.
-/
import Proofs.Lemmas.ParseRender

namespace Xsel.Syntax

/-! ### follow sets with `//` -/

/-- `folTok` plus: `//` may follow where `/` may -/
def folTokA (k : Nat) : Tok → Bool
  | .p .dslash => decide (8 ≤ k)
  | t => folTok k t

def folA (k : Nat) : Toks → Bool
  | [] => true
  | t :: _ => folTokA k t.tok

theorem folTokA_cases {k : Nat} {t : Tok} (h : folTokA k t = true) :
    folTok k t = true ∨ (8 ≤ k ∧ t = .p .dslash) := by
  unfold folTokA at h
  split at h
  · exact Or.inr ⟨by simpa using h, rfl⟩
  · exact Or.inl h

theorem folTokA_of_folTok {k : Nat} {t : Tok} (h : folTok k t = true) : folTokA k t = true := by
  unfold folTokA
  split
  · simp [folTok] at h
  · exact h

theorem folA_cases {k : Nat} {rest : Toks} (h : folA k rest = true) :
    fol k rest = true ∨ (8 ≤ k ∧ ∃ g r, rest = P .dslash g :: r) := by
  cases rest with
  | nil => exact Or.inl rfl
  | cons t r =>
    rcases folTokA_cases (k := k) (t := t.tok) h with h1 | ⟨h1, h2⟩
    · exact Or.inl h1
    · obtain ⟨tok, g⟩ := t
      cases h2
      exact Or.inr ⟨h1, g, r, rfl⟩

theorem folA_of_fol {k : Nat} {rest : Toks} (h : fol k rest = true) : folA k rest = true := by
  cases rest with
  | nil => rfl
  | cons t r => exact folTokA_of_folTok h

theorem folA_dslash {k : Nat} (hk : 8 ≤ k) (g : Bool) (r : Toks) : folA k (⟨.p .dslash, g⟩ :: r) = true := by
  simp [folA, folTokA, hk]

theorem folA_mono {k k' : Nat} {rest : Toks} (h : folA k rest = true) (hk : k ≤ k') : folA k' rest = true := by
  rcases folA_cases h with h1 | ⟨h1, g, r, rfl⟩
  · exact folA_of_fol (fol_mono h1 hk)
  · exact folA_dslash (by omega) g r

theorem folA_rparen (k : Nat) (g : Bool) (r : Toks) : folA k (⟨.p .rparen, g⟩ :: r) = true := rfl
theorem folA_rbrack (k : Nat) (g : Bool) (r : Toks) : folA k (⟨.p .rbrack, g⟩ :: r) = true := rfl
theorem folA_comma (k : Nat) (g : Bool) (r : Toks) : folA k (⟨.p .comma, g⟩ :: r) = true := rfl

theorem folA_not_pipe {k : Nat} {rest : Toks} (h : folA k rest = true) (hk : k < 7) :
    ∀ g r, rest ≠ P .pipe g :: r := by
  rcases folA_cases h with h1 | ⟨h1, _⟩
  · exact fol_not_pipe h1 hk
  · omega

theorem folA_not_slash {k : Nat} {rest : Toks} (h : folA k rest = true) (hk : k < 8) :
    ∀ g r, rest ≠ P .slash g :: r := by
  rcases folA_cases h with h1 | ⟨h1, _⟩
  · exact fol_not_slash h1 hk
  · omega

theorem folA_not_dslash {k : Nat} {rest : Toks} (h : folA k rest = true) (hk : k < 8) :
    ∀ g r, rest ≠ P .dslash g :: r := by
  rcases folA_cases h with h1 | ⟨h1, _⟩
  · exact fol_not_dslash h1
  · omega

theorem folA_not_lbrack {k : Nat} {rest : Toks} (h : folA k rest = true) (hk : k < 9) :
    ∀ g r, rest ≠ P .lbrack g :: r := by
  rcases folA_cases h with h1 | ⟨_, g', r', rfl⟩
  · exact fol_not_lbrack h1 hk
  · intro g r he; simp [P] at he

theorem folPlain_of_folA {k : Nat} {rest : Toks} (h : folA k rest = true) : folPlain rest = true := by
  rcases folA_cases h with h1 | ⟨_, g', r', rfl⟩
  · exact folPlain_of_fol h1
  · rfl

theorem after_trivialA {c : Cfg} {f k : Nat} {x : Expr} {rest : Toks} (h : folA k rest = true) (hf : 1 ≤ f)
    (hk : k < 9) : after c f (k + 1) x rest = some (x, rest) := by
  rcases folA_cases h with h1 | ⟨h1, g', r', rfl⟩
  · exact after_trivial h1 hf hk
  · obtain rfl : k = 8 := by omega
    obtain ⟨f, rfl⟩ : ∃ f', f = f' + 1 := ⟨f - 1, by omega⟩
    rw [after_9]
    exact pFilt_trivial (by intro g r he; simp [P] at he)

/-! ### the tower -/

theorem towerA {c : Cfg} {x : Expr} {ts rest : Toks} {L K : Nat} (hL : L ≤ 9)
    (H : ∀ f R, 1 ≤ f → after c f L x rest = some R → entryThen c (f + K) L ts = some R) :
    ∀ d min, min + d = L → folA min rest = true → ∀ f R, 1 ≤ f → after c f min x rest = some R →
      entryThen c (f + K + 2 * d) min ts = some R := by
  intro d
  induction d with
  | zero => intro min hm _ f R hf ha; subst hm; exact H f R hf ha
  | succ d ih =>
    intro min hm hfol f R hf ha
    have h1 := ih (min + 1) (by omega) (folA_mono hfol (Nat.le_succ _)) f (x, rest) hf
      (after_trivialA hfol hf (by omega))
    have := tower_step (by omega) h1 (after_mono ha (by omega))
    exact entryThen_mono this (by omega)

/-! ### "the token list `ts` is read as the tree `x`" -/

/-- `ts`, the spelling of an expression of level `lv`, is read by the parser of that level as `x`,
    with fuel that the length of `ts` pays for -/
def RdAt (c : Cfg) (ts : Toks) (lv : Nat) (x : Expr) : Prop :=
  ∃ n, n + 2 * lv ≤ 20 * ts.length ∧
    ∀ rest f R, folA lv rest = true → 1 ≤ f → after c f lv x rest = some R →
      entryThen c (f + n) lv (ts ++ rest) = some R

/-- … by the parser of every level, in parentheses where needed -/
def Rd (c : Cfg) (ts : Toks) (lv : Nat) (x : Expr) : Prop :=
  ∀ min, min ≤ 9 → ∃ n, n ≤ 20 * (wrap lv min ts).length ∧
    ∀ rest f R, folA min rest = true → 1 ≤ f → after c f min x rest = some R →
      entryThen c (f + n) min (wrap lv min ts ++ rest) = some R

theorem rd_of_at {c : Cfg} {ts : Toks} {lv : Nat} {x : Expr} (hL : lv ≤ 9) (h : RdAt c ts lv x) :
    Rd c ts lv x := by
  obtain ⟨n, hn, h⟩ := h
  intro min hmin
  unfold wrap
  by_cases hw : lv < min
  · simp only [if_pos hw]
    refine ⟨(1 + n + 2 * lv + 1) + 2 * (9 - min), by simp only [List.length_cons, List.length_append, List.length_nil]; omega, ?_⟩
    intro rest f R hfol hf ha
    have hin := towerA (c := c) (x := x) (ts := ts ++ U (.p .rparen) :: rest)
      (rest := U (.p .rparen) :: rest) (K := n) hL
      (fun f R hf ha => h _ f R (folA_rparen _ _ _) hf ha) lv 0 (by omega) (folA_rparen _ _ _) 1
      (x, U (.p .rparen) :: rest) (Nat.le_refl _)
      (by rw [after_bin (by omega)]; rfl)
    rw [entryThen_bin (by omega)] at hin
    have hprim : pPrimary c (1 + n + 2 * lv + 1) (U (.p .lparen) :: (ts ++ U (.p .rparen) :: rest))
        = some (x, rest) := by
      rw [pPrimary_succ]
      simp only [U] at hin ⊢
      rw [hin]
    have h9 : ∀ f R, 1 ≤ f → after c f 9 x rest = some R →
        entryThen c (f + (1 + n + 2 * lv + 1)) 9 (U (.p .lparen) :: (ts ++ U (.p .rparen) :: rest)) = some R := by
      intro f R _ ha
      rw [entryThen_9]; rw [after_9] at ha
      unfold pPrimFilt
      rw [pPrimary_mono hprim (by omega)]
      exact pFilt_mono ha (by omega)
    have := towerA (c := c) (L := 9) (Nat.le_refl _) h9 (9 - min) min (by omega) hfol f R hf ha
    have hts : U (.p .lparen) :: (ts ++ [U (.p .rparen)]) ++ rest = U (.p .lparen) :: (ts ++ U (.p .rparen) :: rest) := by
      simp
    rw [hts]
    exact entryThen_mono this (by omega)
  · simp only [if_neg hw]
    refine ⟨n + 2 * (lv - min), by omega, ?_⟩
    intro rest f R hfol hf ha
    have := towerA (c := c) (x := x) (ts := ts ++ rest) (rest := rest) (K := n) hL
      (fun f R hf ha => h rest f R (folA_mono hfol (by omega)) hf ha) (lv - min) min (by omega) hfol f R hf ha
    exact entryThen_mono this (by omega)

/-! ### primaries -/

theorem rdAt_primary {c : Cfg} {ts : Toks} {x : Expr} (hlen : 1 ≤ ts.length)
    (hp : ∀ rest, folA 9 rest = true → pPrimary c 1 (ts ++ rest) = some (x, rest)) : RdAt c ts 9 x := by
  refine ⟨1, by omega, ?_⟩
  intro rest f R hfol hf ha
  exact primary_reads (hp rest hfol) ha

theorem rdAt_num {c : Cfg} {n : Num} (h : numOk n = true) : RdAt c (numToks n) 9 (.num n) := by
  refine rdAt_primary (numToks_length n) ?_
  intro rest hfol
  obtain ⟨d, tl, hd⟩ := numToks_cons n
  have := number_numToks (c := c) h (folPlain_of_folA hfol)
  rw [hd] at this ⊢
  rw [List.cons_append] at this ⊢
  rw [pPrimary_digits]; exact this

theorem rdAt_lit {c : Cfg} {s : Chars} : RdAt c [U (litTok s)] 9 (.lit s) :=
  rdAt_primary (by simp) (fun _ _ => rfl)

theorem rdAt_var {c : Cfg} {p : Option Chars} {nm : Chars} (h : wfE (.var p nm) = true) :
    RdAt c [U (varTok p nm)] 9 (.var p nm) := by
  refine rdAt_primary (by simp) ?_
  intro rest _
  cases p with
  | none =>
    simp only [wfE] at h
    show some (mkVar nm, rest) = _
    rw [mkVar_varTok_none h]
  | some p =>
    simp only [wfE] at h
    show some (mkVar (p ++ ':' :: nm), rest) = _
    rw [mkVar_varTok_some h]

/-! ### operators -/

theorem rdAt_bin {c : Cfg} {op : BinOp} {tl tr : Toks} {ll lr : Nat} {xl xr : Expr} (hop : opLevel op ≤ 5)
    (hl : Rd c tl ll xl) (hr : Rd c tr lr xr) :
    RdAt c (wrap ll (opLevel op) tl ++ U (opTok op) :: wrap lr (opLevel op + 1) tr) (opLevel op) (.bin op xl xr) := by
  obtain ⟨nl, hbl, hl⟩ := hl (opLevel op) (by omega)
  obtain ⟨nr, hbr, hr⟩ := hr (opLevel op + 1) (by omega)
  refine ⟨nl + nr + 3, by simp only [List.length_append, List.length_cons]; omega, ?_⟩
  intro rest f R hfol hf ha
  have h1 := hr rest 1 (xr, rest) (folA_mono hfol (Nat.le_succ _)) (Nat.le_refl _)
    (after_trivialA hfol (Nat.le_refl _) (by omega))
  have h2 := pBin_of_entry (by omega) h1
  have h3 : after c (f + (1 + nr + 1) + 1) (opLevel op) xl
      (U (opTok op) :: (wrap lr (opLevel op + 1) tr ++ rest)) = some R := by
    rw [after_bin hop, pBinRest_succ]
    simp only [U, opAt_opTok op hop]
    rw [pBin_mono h2 (by omega)]
    rw [after_bin hop] at ha
    exact pBinRest_mono ha (by omega)
  have h4 := hl _ _ R (folA_of_fol (k := opLevel op) (by exact folTok_opTok op)) (by omega) h3
  simp only [List.append_assoc, List.cons_append]
  exact entryThen_mono h4 (by omega)

theorem rdAt_union {c : Cfg} {tl tr : Toks} {ll lr : Nat} {xl xr : Expr}
    (hl : Rd c tl ll xl) (hr : Rd c tr lr xr) :
    RdAt c (wrap ll 7 tl ++ U (.p .pipe) :: wrap lr 8 tr) 7 (.bin .union xl xr) := by
  obtain ⟨nl, hbl, hl⟩ := hl 7 (by omega)
  obtain ⟨nr, hbr, hr⟩ := hr 8 (by omega)
  refine ⟨nl + nr + 2, by simp only [List.length_append, List.length_cons]; omega, ?_⟩
  intro rest f R hfol hf ha
  have h1 := hr rest 1 (xr, rest) (folA_mono hfol (Nat.le_succ _)) (Nat.le_refl _)
    (after_trivialA hfol (Nat.le_refl _) (by omega))
  rw [entryThen_8] at h1
  have h3 : after c (f + (1 + nr) + 1) 7 xl (U (.p .pipe) :: (wrap lr 8 tr ++ rest)) = some R := by
    rw [after_7, pUnionRest_succ]
    simp only [U]
    rw [pPath_mono h1 (by omega)]
    rw [after_7] at ha
    exact pUnionRest_mono ha (by omega)
  have h4 := hl _ _ R (by rfl) (by omega) h3
  simp only [List.append_assoc, List.cons_append]
  exact entryThen_mono h4 (by omega)

theorem rdAt_neg {c : Cfg} {te : Toks} {le : Nat} {xe : Expr} (he : Rd c te le xe) :
    RdAt c (U (.p .minus) :: wrap le 6 te) 6 (.neg xe) := by
  obtain ⟨ne, hbe, he⟩ := he 6 (by omega)
  refine ⟨ne + 2, by simp only [List.length_cons]; omega, ?_⟩
  intro rest f R hfol hf ha
  have h1 := he rest 1 (xe, rest) hfol (Nat.le_refl _) rfl
  rw [entryThen_6] at h1 ⊢
  rw [after_6] at ha
  cases ha
  apply pUnary_mono (f := 1 + ne + 1) _ (by omega)
  rw [pUnary_succ]
  simp only [U, List.cons_append]
  show (match pUnary c (1 + ne) (wrap le 6 te ++ rest) with
    | some (e, r') => some (Expr.neg e, r') | none => none) = _
  rw [h1]

/-- what `Rd` at level 0 gives when a closing token follows -/
theorem pBin0_of_rd {c : Cfg} {tp : Toks} {lp : Nat} {xp : Expr} (hp : Rd c tp lp xp) :
    ∃ n, n ≤ 20 * (wrap lp 0 tp).length ∧ ∀ (t : LTok) (rest : Toks), folA 0 (t :: rest) = true →
      opAt 0 t.tok = none → pBin c (1 + n) 0 (wrap lp 0 tp ++ t :: rest) = some (xp, t :: rest) := by
  obtain ⟨n, hb, hp⟩ := hp 0 (by omega)
  refine ⟨n, hb, ?_⟩
  intro t rest ht hop
  have := hp (t :: rest) 1 (xp, t :: rest) ht (Nat.le_refl _)
    (by rw [after_bin (by omega), pBinRest_succ]; simp only [hop])
  rw [entryThen_bin (by omega)] at this
  exact this

theorem rdAt_filt {c : Cfg} {tb tp : Toks} {lb lp : Nat} {xb xp : Expr} (hb : Rd c tb lb xb) (hp : Rd c tp lp xp) :
    RdAt c (wrap lb 9 tb ++ U (.p .lbrack) :: (wrap lp 0 tp ++ [U (.p .rbrack)])) 9 (.filt xb xp) := by
  obtain ⟨nb, hbb, hb⟩ := hb 9 (by omega)
  obtain ⟨np, hbp, hp⟩ := pBin0_of_rd hp
  refine ⟨nb + np + 2, by simp only [List.length_append, List.length_cons, List.length_nil]; omega, ?_⟩
  intro rest f R hfol hf ha
  have h1 := hp (U (.p .rbrack)) rest rfl rfl
  have h3 : after c (f + (1 + np) + 1) 9 xb
      (U (.p .lbrack) :: (wrap lp 0 tp ++ U (.p .rbrack) :: rest)) = some R := by
    rw [after_9, pFilt_succ]
    simp only [U] at h1 ⊢
    rw [pBin_mono h1 (by omega)]
    rw [after_9] at ha
    exact pFilt_mono ha (by omega)
  have h4 := hb _ _ R (by rfl) (by omega) h3
  simp only [List.append_assoc, List.cons_append, List.nil_append]
  exact entryThen_mono h4 (by omega)

/-! ### predicates and arguments -/

def RdPreds (c : Cfg) (ts : Toks) (xs : Exprs) : Prop :=
  ∃ n, n ≤ 20 * ts.length + 1 ∧ ∀ rest, (∀ g r, rest ≠ P .lbrack g :: r) →
    pPreds c n (ts ++ rest) = some (xs, rest)

/-- arguments: `pArgs` reads them, and `pArgs1` if there is at least one -/
def RdArgs (c : Cfg) (ts : Toks) (xs : Exprs) : Prop :=
  ∃ n, n ≤ 20 * ts.length ∧ ∀ rest, pArgs c n (ts ++ rest) = some (xs, rest) ∧
    (xs ≠ .nil → pArgs1 c (n - 1) (ts ++ rest) = some (xs, rest))

theorem rdPreds_nil {c : Cfg} : RdPreds c [] .nil :=
  ⟨1, by simp, fun _ h => pPreds_trivial h⟩

theorem rdPreds_cons {c : Cfg} {tp ts : Toks} {lp : Nat} {xp : Expr} {xs : Exprs}
    (hp : Rd c tp lp xp) (hps : RdPreds c ts xs) :
    RdPreds c (U (.p .lbrack) :: (wrap lp 0 tp ++ U (.p .rbrack) :: ts)) (.cons xp xs) := by
  obtain ⟨np, hbp, hp⟩ := pBin0_of_rd hp
  obtain ⟨ns, hbs, hps⟩ := hps
  refine ⟨(np + ns + 1) + 1, by simp only [List.length_append, List.length_cons]; omega, ?_⟩
  intro rest h
  have h1 := hp (U (.p .rbrack)) (ts ++ rest) rfl rfl
  have h2 := hps rest h
  simp only [List.cons_append, List.append_assoc]
  rw [pPreds_succ]
  simp only [U] at h1 ⊢
  rw [pBin_mono h1 (by omega)]
  simp only [pPreds_mono h2 (show ns ≤ np + ns + 1 by omega)]

theorem rdArgs_nil {c : Cfg} : RdArgs c [U (.p .rparen)] .nil := by
  refine ⟨1, by simp, ?_⟩
  intro rest
  exact ⟨rfl, fun h => absurd rfl h⟩

theorem rdArgs_of_args1 {c : Cfg} {ts : Toks} {x : Expr} {xs : Exprs} {m : Nat} (hm : m + 1 ≤ 20 * ts.length)
    (h : ∀ rest, pArgs1 c m (ts ++ rest) = some (.cons x xs, rest)) : RdArgs c ts (.cons x xs) :=
  ⟨m + 1, hm, fun rest => ⟨pArgs_of_args1 (h rest), fun _ => h rest⟩⟩

theorem rdArgs_one {c : Cfg} {ta : Toks} {la : Nat} {xa : Expr} (ha : Rd c ta la xa) :
    RdArgs c (wrap la 0 ta ++ [U (.p .rparen)]) (.cons xa .nil) := by
  obtain ⟨na, hba, ha⟩ := pBin0_of_rd ha
  refine rdArgs_of_args1 (m := (na + 1) + 1) (by simp only [List.length_append, List.length_cons, List.length_nil]; omega) ?_
  intro rest
  have h1 := ha (U (.p .rparen)) rest rfl rfl
  rw [pArgs1_succ]
  simp only [List.append_assoc, List.cons_append, List.nil_append, U] at h1 ⊢
  rw [pBin_mono h1 (by omega)]

theorem rdArgs_more {c : Cfg} {ta ts : Toks} {la : Nat} {xa : Expr} {xs : Exprs} (ha : Rd c ta la xa)
    (has : RdArgs c ts xs) (hne : xs ≠ .nil) :
    RdArgs c (wrap la 0 ta ++ U (.p .comma) :: ts) (.cons xa xs) := by
  obtain ⟨na, hba, ha⟩ := pBin0_of_rd ha
  obtain ⟨ns, hbs, has⟩ := has
  refine rdArgs_of_args1 (m := (na + ns + 1) + 1) (by simp only [List.length_append, List.length_cons]; omega) ?_
  intro rest
  have h1 := ha (U (.p .comma)) (ts ++ rest) rfl rfl
  have h3 := (has rest).2 hne
  rw [pArgs1_succ]
  simp only [List.append_assoc, List.cons_append, U] at h1 ⊢
  rw [pBin_mono h1 (by omega)]
  simp only [pArgs1_mono h3 (show ns - 1 ≤ na + ns + 1 by omega)]

end Xsel.Syntax
