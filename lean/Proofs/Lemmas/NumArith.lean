/-
  Proofs/Lemmas/NumArith.lean — facts about rationals and the `Num` operations used by C06.
-/
import Xsel.Funcs

namespace Xsel.NumL
open Xsel

/-! ### rationals -/

theorem abs_cases (x : Rat) : (0 ≤ x ∧ x.abs = x) ∨ (x < 0 ∧ x.abs = -x) := by
  by_cases h : 0 ≤ x
  · exact .inl ⟨h, Rat.abs_of_nonneg h⟩
  · have h' : x < 0 := Rat.not_le.mp h
    exact .inr ⟨h', Rat.abs_of_nonpos (Rat.le_of_lt h')⟩

theorem floor_bounds (q : Rat) : ((q.floor : Int) : Rat) ≤ q ∧ q < ((q.floor : Int) : Rat) + 1 := by
  refine ⟨Rat.floor_le q, ?_⟩
  have := Rat.lt_floor_add_one q
  rw [Rat.intCast_add] at this
  simpa using this

theorem ceil_bounds (q : Rat) : q ≤ ((q.ceil : Int) : Rat) ∧ ((q.ceil : Int) : Rat) < q + 1 :=
  ⟨Rat.le_ceil, Rat.ceil_lt⟩

/-- truncation toward zero: the fractional part has the sign of the argument and is below 1 -/
theorem truncRat_bounds (t : Rat) :
    (0 ≤ t → ((Num.truncRat t : Int) : Rat) ≤ t ∧ t < ((Num.truncRat t : Int) : Rat) + 1) ∧
    (t < 0 → t ≤ ((Num.truncRat t : Int) : Rat) ∧ ((Num.truncRat t : Int) : Rat) - 1 < t) := by
  unfold Num.truncRat
  constructor
  · intro h
    have : ¬ t < 0 := by grind
    simp only [this, if_false]
    exact floor_bounds t
  · intro h
    simp only [h, if_true]
    have := floor_bounds (-t)
    rw [Rat.intCast_neg]
    grind

theorem mul_frac_bounds (b d : Rat) (hb : b ≠ 0) (hd : d.abs < 1) : (b * d).abs < b.abs := by
  rcases abs_cases b with ⟨hb0, eb⟩ | ⟨hb0, eb⟩ <;> rcases abs_cases d with ⟨hd0, ed⟩ | ⟨hd0, ed⟩ <;>
    rw [ed] at hd
  · have hbp : 0 < b := by grind
    have h1 := Rat.mul_lt_mul_of_pos_left (c := b) hd hbp
    have h2 := Rat.mul_nonneg hb0 hd0
    rw [Rat.abs_of_nonneg h2, eb]; grind
  · have hbp : 0 < b := by grind
    have h1 := Rat.mul_lt_mul_of_pos_left (c := b) hd hbp
    have h2 : b * d < 0 := (Rat.mul_neg_iff_of_pos_left hbp).2 hd0
    rw [Rat.abs_of_nonpos (Rat.le_of_lt h2), eb]; grind
  · have hbp : 0 < -b := by grind
    have h1 := Rat.mul_lt_mul_of_pos_left (c := -b) hd hbp
    have h2 := Rat.mul_nonneg (Rat.le_of_lt hbp) hd0
    rw [Rat.abs_of_nonpos (by grind), eb]; grind
  · have hbp : 0 < -b := by grind
    have h1 := Rat.mul_lt_mul_of_pos_left (c := -b) hd hbp
    have h2 : (-b) * d < 0 := (Rat.mul_neg_iff_of_pos_left hbp).2 hd0
    rw [Rat.abs_of_nonneg (by grind), eb]; grind

/-- the remainder of truncating division: magnitude below the divisor, sign of the dividend -/
theorem fmod_rem_bounds (a b : Rat) (hb : b ≠ 0) :
    let r : Rat := a - b * ((Num.truncRat (a / b) : Int) : Rat)
    r.abs < b.abs ∧ (r ≠ 0 → (r < 0 ↔ a < 0)) := by
  intro r
  have hr' : r = a - b * ((Num.truncRat (a / b) : Int) : Rat) := rfl
  clear_value r
  have ha : a = b * (a / b) := by rw [Rat.mul_comm, Rat.div_mul_cancel hb]
  have htb := truncRat_bounds (a / b)
  have hz : a / b = 0 → ((Num.truncRat (a / b) : Int) : Rat) = 0 := by
    intro h; rw [h]; decide +kernel
  generalize a / b = t at *
  generalize Num.truncRat t = n at *
  have hr : r = b * (t - (n : Rat)) := by grind
  generalize hd : t - (n : Rat) = d at hr
  clear hr'
  have hdabs : d.abs < 1 := by
    rcases abs_cases d with ⟨_, e⟩ | ⟨_, e⟩ <;> rw [e] <;>
      by_cases h0 : 0 ≤ t <;> grind
  refine ⟨hr ▸ mul_frac_bounds b d hb hdabs, ?_⟩
  intro hr0
  -- sign
  by_cases hbp : 0 < b
  · have h1 : a < 0 ↔ t < 0 := by rw [ha]; exact Rat.mul_neg_iff_of_pos_left hbp
    have h2 : r < 0 ↔ d < 0 := by rw [hr]; exact Rat.mul_neg_iff_of_pos_left hbp
    rw [h1, h2]
    by_cases h0 : 0 ≤ t
    · grind
    · have : d ≠ 0 := by intro h; apply hr0; rw [hr, h, Rat.mul_zero]
      grind
  · have hbn : 0 < -b := by grind
    have h1 : 0 < a ↔ t < 0 := by
      have : -a = (-b) * t := by rw [ha]; grind
      have h := Rat.mul_neg_iff_of_pos_left (b := t) hbn
      rw [← this] at h; rw [← h]; grind
    have h2 : 0 < r ↔ d < 0 := by
      have : -r = (-b) * d := by rw [hr]; grind
      have h := Rat.mul_neg_iff_of_pos_left (b := d) hbn
      rw [← this] at h; rw [← h]; grind
    have hd0 : d ≠ 0 := by intro h; apply hr0; rw [hr, h, Rat.mul_zero]
    have ht0 : t = 0 → a = 0 := by intro h; rw [ha, h, Rat.mul_zero]
    by_cases h0 : 0 ≤ t
    · grind
    · grind

end Xsel.NumL
