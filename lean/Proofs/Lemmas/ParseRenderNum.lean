/-
  Proofs/Lemmas/ParseRenderNum.lean — every positive double is a number the canonical spelling can
  express (`numOk`): its `numToStr` is `Digits` or `Digits '.' Digits` and reads back as the double.
-/
import Proofs.Lemmas.ParseRenderDefs
import Proofs.Lemmas.NumRoundTrip

namespace Xsel.Syntax
open Xsel

/-- the layout of a decimal with at least one significant digit: digits only, or digits on both
    sides of one '.' -/
theorem layoutF_split (d : Dec) (hD : NumL.DigitsOK d) (hne : d.digits ≠ []) :
    ((∀ c ∈ layoutF d, isDigit c = true) ∧ layoutF d ≠ []) ∨
    (∃ ip fr, layoutF d = ip ++ '.' :: fr ∧ ip ≠ [] ∧ fr ≠ [] ∧
      (∀ c ∈ ip, isDigit c = true) ∧ (∀ c ∈ fr, isDigit c = true)) := by
  have hlen : 0 < d.digits.length := List.length_pos_iff.2 hne
  unfold layoutF
  dsimp only
  split
  · right
    refine ⟨['0'], zeros (-d.dp).toNat ++ d.digits, rfl, by simp, ?_, ?_, ?_⟩
    · intro he
      have := congrArg List.length he
      simp only [List.length_append, List.length_nil] at this
      omega
    · intro c hc; simp at hc; subst hc; decide
    · intro c hc
      rcases List.mem_append.1 hc with hc | hc
      · exact NumL.zeros_digits _ c hc
      · exact hD c hc
  · split
    · left
      refine ⟨?_, ?_⟩
      · intro c hc
        rcases List.mem_append.1 hc with hc | hc
        · exact hD c hc
        · exact NumL.zeros_digits _ c hc
      · intro he
        have := congrArg List.length he
        simp only [List.length_append, List.length_nil] at this
        omega
    · rename_i h1 h2
      right
      refine ⟨d.digits.take d.dp.toNat, d.digits.drop d.dp.toNat, rfl, ?_, ?_,
        fun c hc => hD c (List.mem_of_mem_take hc), fun c hc => hD c (List.mem_of_mem_drop hc)⟩
      · intro he
        have := congrArg List.length he
        simp only [List.length_take, List.length_nil] at this
        omega
      · intro he
        have := congrArg List.length he
        simp only [List.length_drop, List.length_nil] at this
        omega

theorem shortestDec_digits_ne (q : Rat) (hq : 0 < q) (h : Num.rnd q = .fin q) : (shortestDec q).digits ≠ [] := by
  intro he
  have hrb := NumL.shortestDec_reads_back q hq h
  have hz : NumL.decVal (shortestDec q) = 0 := by
    unfold NumL.decVal; rw [he, NumL.digitsVal_nil]; simp
  rw [hz] at hrb
  have h0 : Num.rnd 0 = .fin 0 := by decide +kernel
  rw [h0] at hrb
  injection hrb with hrb
  rw [← hrb] at hq
  exact Rat.lt_irrefl hq

theorem numOk_of_pos_double (q : Rat) (hq : 0 < q) (h : Num.rnd q = .fin q) : numOk (.fin q) = true := by
  have hD := NumL.shortestDec_digits q
  have hne := shortestDec_digits_ne q hq h
  have hparse := NumL.parse_layoutF _ hD
  have hrb := NumL.shortestDec_reads_back q hq h
  have hs : numToStr (.fin q) = layoutF (shortestDec q) := by
    rw [NumL.numToStr_fin_eq]
    have h1 : (q == 0) = false := by
      rw [beq_eq_false_iff_ne]; intro h0; rw [h0] at hq; exact Rat.lt_irrefl hq
    have h2 : ¬ q < 0 := by
      intro hlt; exact Rat.not_le.mpr hlt (Rat.le_of_lt hq)
    simp only [h1, h2, if_false, Bool.false_eq_true]
  have hval : (parseUnsigned (layoutF (shortestDec q))).map Num.rnd = some (.fin q) := by
    rw [hparse]; simp [hrb]
  unfold numOk
  simp only [hs]
  have hdot : ¬ isDigit '.' = true := by decide
  rcases layoutF_split _ hD hne with ⟨hall, hnil⟩ | ⟨ip, fr, heq, hip, hfr, hipd, hfrd⟩
  · have ⟨h1, h2⟩ := NumL.takeWhile_all (p := isDigit) _ hall
    simp only [h1, h2, hval, beq_self_eq_true, Bool.and_true]
    cases hl : layoutF (shortestDec q) with
    | nil => exact absurd hl hnil
    | cons a b => rfl
  · have h1 : (ip ++ '.' :: fr).takeWhile isDigit = ip := by
      rw [List.takeWhile_append_of_pos hipd, List.takeWhile_cons_of_neg hdot, List.append_nil]
    have h2 : (ip ++ '.' :: fr).dropWhile isDigit = '.' :: fr := by
      rw [List.dropWhile_append_of_pos hipd, List.dropWhile_cons_of_neg hdot]
    have h3 : fr.all isDigit = true := by simpa [List.all_eq_true] using hfrd
    rw [heq] at hval ⊢
    simp only [h1, h2, h3, hval, beq_self_eq_true, Bool.and_true, Bool.true_and]
    cases ip with
    | nil => exact absurd rfl hip
    | cons a b =>
      cases fr with
      | nil => exact absurd rfl hfr
      | cons a' b' => rfl

end Xsel.Syntax
