/-
  Proofs/Lemmas/LexSound.lean — the lexer ignores nothing: the converse of LexRound.lean.

  LexRound.lean: a padded spelling of good tokens is lexed back to these tokens.  Here: whenever the
  tokeniser answers `.ok ts`, the input IS such a padded spelling of `ts` — every character is white
  space between tokens or part of exactly one token, in order; nothing is dropped, nothing invented.

  * `lexLiteral_sound`, `takeName_sound`, `kwOf_sound` : the pieces.
  * `lexOne_sound` : `lexOne lc cs = .tok t rest → cs = t.spell ++ rest ∧ tokOk lc t ∧ headOk t rest.head?`
                    (the token is one the lexer can produce, the input starts with its spelling, and the
                    token is maximal: the next character does not extend it).
  * `lexAll_sound` : the same for the loop, carrying the accumulator.
  * `lexRaw_sound_items`, `lexRaw_sound`, `lexRaw_tokOk`, `lexRaw_iff` : the whole input; with
                    `lexRaw_spellPadded` an exact characterisation of the accepted inputs.
  * `lex_sound` : `lex` = `lexRaw` followed by the passes `lc.post`.
  * `post_spell_of_dotRule_false`, `dropTrailDots_removed`, `post_removed`, `post_keeps_nondots` : the passes keep every
                    spelling; the only tokens they remove are `.` tokens written directly after digits.
-/
import Proofs.Lemmas.LexRound

namespace Xsel.Syntax

/-! ### `takeWhile` / `dropWhile` -/

theorem mem_takeWhile_sat (p : Char → Bool) : ∀ (l : Chars) (c : Char), c ∈ l.takeWhile p → p c = true
  | [], c, h => by simp at h
  | a :: l, c, h => by
    cases ha : p a with
    | false => simp [List.takeWhile, ha] at h
    | true =>
      simp only [List.takeWhile, ha, List.mem_cons] at h
      rcases h with h | h
      · subst h; exact ha
      · exact mem_takeWhile_sat p l c h

theorem dropWhile_head_not (p : Char → Bool) :
    ∀ (l : Chars) (x : Char), (l.dropWhile p).head? = some x → p x = false
  | [], x, h => by simp at h
  | a :: l, x, h => by
    cases ha : p a with
    | false =>
      simp only [List.dropWhile, ha, List.head?_cons, Option.some.injEq] at h
      rw [← h]; exact ha
    | true =>
      simp only [List.dropWhile, ha] at h
      exact dropWhile_head_not p l x h

/-! ### the pieces of `lexOne` -/

/-- a literal token is the text up to the first closing quote; the quote is consumed -/
theorem lexLiteral_sound (q : Char) (dq : Bool) (cs : Chars) (t : Tok) (rest : Chars)
    (h : lexLiteral q dq cs = .tok t rest) :
    ∃ body, t = .lit dq body ∧ cs = body ++ q :: rest ∧ body.contains q = false ∧
      body.contains '\\' = false := by
  unfold lexLiteral at h
  have hsplit := (List.takeWhile_append_dropWhile (p := (· != q)) (l := cs)).symm
  have hbody := mem_takeWhile_sat (· != q) cs
  have hhead := dropWhile_head_not (· != q) cs
  simp only at h
  generalize cs.takeWhile (· != q) = body at *
  generalize cs.dropWhile (· != q) = d at *
  cases d with
  | nil => simp only at h; split at h <;> cases h
  | cons x r =>
    simp only at h
    split at h
    · cases h
    · next hb =>
      cases h
      have hx : x = q := by simpa using hhead x rfl
      subst hx
      refine ⟨body, rfl, hsplit, ?_, by simpa using hb⟩
      cases hc : body.contains x with
      | false => rfl
      | true =>
        have := hbody x (List.contains_iff_mem.mp hc)
        simp at this

theorem nameChar_of_nameStart (lc : LexCfg) (c : Char) (h : isNameStart lc c = true) :
    isNameChar c = true := by
  simp only [isNameStart, Bool.or_eq_true, Bool.and_eq_true, beq_iff_eq] at h
  rcases h with (h | h) | h
  · simp [isNameChar, h]
  · subst h; decide
  · rw [h.2]; decide

/-- `takeName` splits the input into a name and a rest that does not go on with a name character -/
theorem takeName_sound (lc : LexCfg) (cs n r : Chars) (h : takeName lc cs = some (n, r)) :
    cs = n ++ r ∧ isName lc n = true ∧ ∀ c, r.head? = some c → isNameChar c = false := by
  cases cs with
  | nil => simp [takeName] at h
  | cons c cs =>
    simp only [takeName] at h
    split at h
    · next hs =>
      simp only [Option.some.injEq, Prod.mk.injEq] at h
      obtain ⟨rfl, rfl⟩ := h
      refine ⟨List.takeWhile_append_dropWhile.symm, ?_, dropWhile_head_not isNameChar (c :: cs)⟩
      have hc := nameChar_of_nameStart lc c hs
      have hall := mem_takeWhile_sat isNameChar (c :: cs)
      have hn : (c :: cs).takeWhile isNameChar = c :: cs.takeWhile isNameChar := by
        simp [List.takeWhile, hc]
      rw [hn] at hall ⊢
      simp only [isName, hs, Bool.true_and, List.all_eq_true]
      exact hall
    · cases h

/-- a keyword token is spelled like the name that was read -/
theorem kwOf_sound (n : Chars) (k : Kw) (h : kwOf n = some k) : k.chars = n := by
  unfold kwOf at h
  simpa using List.find?_some h

theorem name_no_colon (lc : LexCfg) (n : Chars) (h : isName lc n = true) : ∀ c ∈ n, (c != ':') = true := by
  intro c hc
  cases n with
  | nil => simp at hc
  | cons a n =>
    simp only [isName, Bool.and_eq_true, List.all_eq_true] at h
    have := h.2 c hc
    cases hq : (c != ':') with
    | true => rfl
    | false =>
      simp at hq
      subst hq
      exact absurd this (by decide)

/-- the `'$'` branch of `lexOne` -/
theorem lexVar_sound (lc : LexCfg) (r : Chars) (t : Tok) (rest : Chars)
    (h : (match takeName lc r with
      | none => (match r with | c :: _ => if foreign c then LexOne.unsup else .err | [] => .err)
      | some (n1, r1) =>
        match r1 with
        | ':' :: r2 =>
          (match takeName lc r2 with
           | none => (match r2 with | c :: _ => if foreign c then .unsup else .err | [] => .err)
           | some (n2, r3) =>
             match r3 with
             | ':' :: _ => .unsup
             | c :: _ => if foreign c then .unsup else .tok (.var (n1 ++ ':' :: n2)) r3
             | [] => .tok (.var (n1 ++ ':' :: n2)) r3)
        | c :: _ => if foreign c then .unsup else .tok (.var n1) r1
        | [] => .tok (.var n1) r1) = LexOne.tok t rest) :
    '$' :: r = t.spell ++ rest ∧ tokOk lc t = true ∧ headOk t rest.head? = true := by
  split at h
  · split at h
    · split at h <;> cases h
    · cases h
  · next n1 r1 h1 =>
    obtain ⟨hr, hn1, hh1⟩ := takeName_sound lc r n1 r1 h1
    have ok1 : tokOk lc (.var n1) = true := by simp [tokOk, hn1]
    split at h
    · next r2 =>
      split at h
      · split at h
        · split at h <;> cases h
        · cases h
      · next n2 r3 h2 =>
        obtain ⟨hr2, hn2, hh2⟩ := takeName_sound lc r2 n2 r3 h2
        have hsp : '$' :: r = (Tok.var (n1 ++ ':' :: n2)).spell ++ r3 := by
          rw [hr, hr2]; simp [Tok.spell]
        have hok : tokOk lc (.var (n1 ++ ':' :: n2)) = true := by
          have hc := name_no_colon lc n1 hn1
          have hstop : ∀ c, (':' :: n2).head? = some c → (c != ':') = false := by
            intro c hc; simp at hc; subst hc; simp
          simp only [tokOk]
          rw [dropWhile_append_stop _ n1 (':' :: n2) hc hstop,
            takeWhile_append_stop _ n1 (':' :: n2) hc hstop]
          simp [hn1, hn2]
        split at h
        · cases h
        · next c r3' hnc =>
          split at h
          · cases h
          · next hf =>
            cases h
            refine ⟨hsp, hok, ?_⟩
            have hne : c ≠ ':' := fun e => hnc e
            simp only [List.head?_cons, headOk, Bool.and_eq_true, Bool.not_eq_true', bne_iff_ne, ne_eq]
            exact ⟨⟨hh2 c rfl, by simpa using hf⟩, hne⟩
        · cases h
          exact ⟨hsp, hok, rfl⟩
    · next c r1' hnc =>
      split at h
      · cases h
      · next hf =>
        cases h
        refine ⟨by rw [hr]; simp [Tok.spell], ok1, ?_⟩
        have hne : c ≠ ':' := fun e => hnc e
        simp only [List.head?_cons, headOk, Bool.and_eq_true, Bool.not_eq_true', bne_iff_ne, ne_eq]
        exact ⟨⟨hh1 c rfl, by simpa using hf⟩, hne⟩
    · cases h
      exact ⟨by rw [hr]; simp [Tok.spell], ok1, rfl⟩

/-- the last branch of `lexOne`: digits, keyword or name -/
theorem lexDefault_sound (lc : LexCfg) (c : Char) (r : Chars) (t : Tok) (rest : Chars)
    (h : (if isDigit c then LexOne.tok (.digits ((c :: r).takeWhile isDigit)) ((c :: r).dropWhile isDigit)
      else match takeName lc (c :: r) with
        | some (n, r1) =>
          (match r1 with
           | c1 :: _ => if foreign c1 then .unsup else
               (match kwOf n with | some k => .tok (.kw k) r1 | none => .tok (.ncname n) r1)
           | [] => (match kwOf n with | some k => .tok (.kw k) r1 | none => .tok (.ncname n) r1))
        | none => if foreign c then .unsup else .err) = LexOne.tok t rest) :
    c :: r = t.spell ++ rest ∧ tokOk lc t = true ∧ headOk t rest.head? = true := by
  split at h
  · next hd =>
    cases h
    refine ⟨List.takeWhile_append_dropWhile.symm, ?_, ?_⟩
    · have hall := mem_takeWhile_sat isDigit (c :: r)
      have hn : (c :: r).takeWhile isDigit = c :: r.takeWhile isDigit := by simp [List.takeWhile, hd]
      rw [hn] at hall ⊢
      simp only [tokOk, List.isEmpty_cons, Bool.not_false, Bool.true_and, List.all_eq_true]
      exact hall
    · have := dropWhile_head_not isDigit (c :: r)
      cases hh : ((c :: r).dropWhile isDigit).head? with
      | none => rfl
      | some x => simp [headOk, this x hh]
  · split at h
    · next n r1 h1 =>
      obtain ⟨hr, hn, hh⟩ := takeName_sound lc (c :: r) n r1 h1
      have key : ∀ (hf : ∀ x, r1.head? = some x → foreign x = false),
          (match kwOf n with | some k => LexOne.tok (.kw k) r1 | none => .tok (.ncname n) r1) = .tok t rest →
          c :: r = t.spell ++ rest ∧ tokOk lc t = true ∧ headOk t rest.head? = true := by
        intro hf h
        have hkw : ∀ k, headOk (.kw k) r1.head? = true := by
          intro k
          cases hx : r1.head? with
          | none => rfl
          | some x => simp [headOk, hh x hx, hf x hx]
        have hnc : ∀ s, headOk (.ncname s) r1.head? = true := by
          intro s
          cases hx : r1.head? with
          | none => rfl
          | some x => simp [headOk, hh x hx, hf x hx]
        split at h
        · next k hk =>
          cases h
          exact ⟨by rw [hr]; simp [Tok.spell, kwOf_sound n k hk], rfl, hkw k⟩
        · next hk =>
          cases h
          exact ⟨by rw [hr]; simp [Tok.spell], by simp [tokOk, hn, hk], hnc n⟩
      split at h
      · next c1 r1' =>
        split at h
        · cases h
        · next hf =>
          exact key (by intro x hx; simp at hx; subst hx; simpa using hf) h
      · exact key (by intro x hx; simp at hx) h
    · split at h <;> cases h

/-! ### one token -/

/-- **the key lemma**: the token `lexOne` returns is spelled at the start of the input, everything after
    it is handed on, it is a token the lexer can produce, and the next character does not extend it -/
theorem lexOne_sound (lc : LexCfg) (cs : Chars) (t : Tok) (rest : Chars)
    (h : lexOne lc cs = .tok t rest) :
    cs = t.spell ++ rest ∧ tokOk lc t = true ∧ headOk t rest.head? = true := by
  unfold lexOne at h
  split at h
  all_goals first
    | (cases h; done)
    | (cases h; refine ⟨rfl, rfl, ?_⟩; cases rest <;> rfl)
    | (cases h; refine ⟨rfl, rfl, ?_⟩; cases rest <;> simp_all [headOk])
    | (obtain ⟨body, rfl, rfl, hq, hb⟩ := lexLiteral_sound _ _ _ _ _ h
       exact ⟨by simp [Tok.spell], by simp only [tokOk, hq, hb]; rfl, by cases rest <;> rfl⟩)
    | exact lexVar_sound lc _ t rest h
    | exact lexDefault_sound lc _ _ t rest h

/-! ### the whole input -/

/-- the loop: what is left of the input is a padded spelling of the tokens still to come -/
theorem lexAll_sound (lc : LexCfg) : ∀ (fuel : Nat) (g : Bool) (cs : Chars) (acc ts : List LTok),
    lexAll lc fuel g cs acc = .ok ts →
    ∃ (items : List (Chars × Tok)) (trail : Chars),
      padOk lc items trail = true ∧ cs = spellPadded items trail ∧ ts = acc.reverse ++ padToks g items
  | 0, _, _, _, _, h => by simp [lexAll] at h
  | fuel + 1, g, [], acc, ts, h => by
    simp only [lexAll] at h
    cases h
    exact ⟨[], [], rfl, rfl, by simp [padToks]⟩
  | fuel + 1, g, c :: r, acc, ts, h => by
    simp only [lexAll] at h
    split at h
    · next hc =>
      obtain ⟨items, trail, hok, hcs, hts⟩ := lexAll_sound lc fuel false r acc ts h
      cases items with
      | nil =>
        refine ⟨[], c :: trail, ?_, ?_, ?_⟩
        · simp only [padOk, List.all_cons, Bool.and_eq_true] at hok ⊢
          exact ⟨hc, hok⟩
        · rw [hcs]; simp [spellPadded]
        · simpa [padToks] using hts
      | cons it rest =>
        obtain ⟨w, t⟩ := it
        refine ⟨(c :: w, t) :: rest, trail, ?_, ?_, ?_⟩
        · simp only [padOk, List.all_cons, Bool.and_eq_true] at hok ⊢
          exact ⟨⟨⟨⟨hc, hok.1.1.1⟩, hok.1.1.2⟩, hok.1.2⟩, hok.2⟩
        · rw [hcs, spellPadded_cons, spellPadded_cons]; rfl
        · simpa [padToks] using hts
    · split at h
      · next t rest h1 =>
        obtain ⟨hsp, hok1, hh1⟩ := lexOne_sound lc (c :: r) t rest h1
        obtain ⟨items, trail, hok, hcs, hts⟩ := lexAll_sound lc fuel true rest (⟨t, g⟩ :: acc) ts h
        refine ⟨([], t) :: items, trail, ?_, ?_, ?_⟩
        · rw [hcs] at hh1
          simp [padOk, hok1, hok, hh1]
        · rw [spellPadded_cons, ← hcs]; exact hsp
        · rw [hts]; simp [padToks]
      · cases h
      · cases h

/-- what `padOk` says about the parts -/
theorem padOk_parts (lc : LexCfg) (trail : Chars) : ∀ (items : List (Chars × Tok)),
    padOk lc items trail = true →
    (∀ it ∈ items, (∀ c ∈ it.1, isSpace lc c = true) ∧ tokOk lc it.2 = true) ∧
      ∀ c ∈ trail, isSpace lc c = true
  | [], h => by
    simp only [padOk, List.all_eq_true] at h
    exact ⟨by simp, h⟩
  | (w, t) :: rest, h => by
    simp only [padOk, Bool.and_eq_true, List.all_eq_true] at h
    obtain ⟨hr, htr⟩ := padOk_parts lc trail rest h.2
    refine ⟨?_, htr⟩
    intro it hi
    simp only [List.mem_cons] at hi
    rcases hi with rfl | hi
    · exact ⟨h.1.1.1, h.1.1.2⟩
    · exact hr it hi

theorem padToks_tok (items : List (Chars × Tok)) : ∀ g, (padToks g items).map (·.tok) = items.map (·.2) := by
  induction items with
  | nil => intro g; rfl
  | cons it rest ih => obtain ⟨w, t⟩ := it; intro g; simp [padToks, ih]

theorem padToks_length (items : List (Chars × Tok)) (g : Bool) : (padToks g items).length = items.length := by
  have := congrArg List.length (padToks_tok items g)
  simpa using this

theorem zip_fst_snd (items : List (Chars × Tok)) : (items.map (·.1)).zip (items.map (·.2)) = items := by
  induction items with
  | nil => rfl
  | cons it rest ih => simp [ih]

/-- **the tokeniser ignores nothing**, first form: if `lexRaw` answers `.ok ts`, the input is a padded
    spelling of `ts` — white space runs (possibly empty) before every token, white space at the end,
    the tokens good and each followed by a character that does not extend it (`padOk`), the `glued`
    flags exactly the empty runs -/
theorem lexRaw_sound_items (lc : LexCfg) (cs : Chars) (ts : List LTok) (h : lexRaw lc cs = .ok ts) :
    ∃ (items : List (Chars × Tok)) (trail : Chars),
      padOk lc items trail = true ∧ cs = spellPadded items trail ∧ ts = padToks false items := by
  obtain ⟨items, trail, hok, hcs, hts⟩ := lexAll_sound lc _ false cs [] ts h
  exact ⟨items, trail, hok, hcs, by simpa using hts⟩

/-- … and conversely (`lexRaw_spellPadded`): the inputs the tokeniser accepts are exactly the padded
    spellings, and the answer is the token list that was spelled -/
theorem lexRaw_iff (lc : LexCfg) (cs : Chars) (ts : List LTok) :
    lexRaw lc cs = .ok ts ↔
      ∃ (items : List (Chars × Tok)) (trail : Chars),
        padOk lc items trail = true ∧ cs = spellPadded items trail ∧ ts = padToks false items := by
  constructor
  · exact lexRaw_sound_items lc cs ts
  · rintro ⟨items, trail, hok, rfl, rfl⟩
    exact lexRaw_spellPadded lc items trail hok

/-- **every character of the input is white space between tokens or part of exactly one token, in
    order**: the input is the white space runs `ws` and the spellings of the returned tokens interleaved,
    followed by trailing white space; the `glued` flags say exactly where there was no white space (the
    first token is never glued) -/
theorem lexRaw_sound (lc : LexCfg) (cs : Chars) (ts : List LTok) (h : lexRaw lc cs = .ok ts) :
    ∃ (ws : List Chars) (trail : Chars),
      ws.length = ts.length ∧
      (∀ w ∈ ws, ∀ c ∈ w, isSpace lc c = true) ∧ (∀ c ∈ trail, isSpace lc c = true) ∧
      cs = spellPadded (ws.zip (ts.map (·.tok))) trail ∧
      ts = padToks false (ws.zip (ts.map (·.tok))) := by
  obtain ⟨items, trail, hok, hcs, hts⟩ := lexRaw_sound_items lc cs ts h
  obtain ⟨hit, htr⟩ := padOk_parts lc trail items hok
  have htok : ts.map (·.tok) = items.map (·.2) := by rw [hts, padToks_tok]
  refine ⟨items.map (·.1), trail, ?_, ?_, htr, ?_, ?_⟩
  · rw [hts, padToks_length]; simp
  · intro w hw
    simp only [List.mem_map] at hw
    obtain ⟨it, hi, rfl⟩ := hw
    exact (hit it hi).1
  · rw [htok, zip_fst_snd]; exact hcs
  · rw [htok, zip_fst_snd]; exact hts

/-- … and every returned token is one the lexer can produce from its spelling -/
theorem lexRaw_tokOk (lc : LexCfg) (cs : Chars) (ts : List LTok) (h : lexRaw lc cs = .ok ts) :
    ∀ t ∈ ts, tokOk lc t.tok = true := by
  obtain ⟨items, trail, hok, _, hts⟩ := lexRaw_sound_items lc cs ts h
  obtain ⟨hit, _⟩ := padOk_parts lc trail items hok
  intro t ht
  have : t.tok ∈ ts.map (·.tok) := List.mem_map.mpr ⟨t, ht, rfl⟩
  rw [hts, padToks_tok] at this
  obtain ⟨it, hi, he⟩ := List.mem_map.mp this
  rw [← he]; exact (hit it hi).2

/-! ### the full lexer: `lexRaw` followed by the passes -/

/-- `lex` answers `.ok` only with the passes applied to what the tokeniser returned -/
theorem lex_sound (lc : LexCfg) (cs : Chars) (ts' : List LTok) (h : lex lc cs = .ok ts') :
    ∃ ts, lexRaw lc cs = .ok ts ∧ ts' = lc.post ts := by
  rw [lex_eq] at h
  cases hr : lexRaw lc cs with
  | ok ts => rw [hr] at h; cases h; exact ⟨ts, rfl, rfl⟩
  | err => rw [hr] at h; cases h
  | unsup => rw [hr] at h; cases h

/-- `lex` and `lexRaw` reject the same inputs -/
theorem lex_err_iff (lc : LexCfg) (cs : Chars) : lex lc cs = .err ↔ lexRaw lc cs = .err := by
  rw [lex_eq]; cases lexRaw lc cs <;> simp

theorem lex_unsup_iff (lc : LexCfg) (cs : Chars) : lex lc cs = .unsup ↔ lexRaw lc cs = .unsup := by
  rw [lex_eq]; cases lexRaw lc cs <;> simp

/-- with the trailing-dot rule off, the passes keep the text of every token (and their number) -/
theorem post_spell_of_dotRule_false {lc : LexCfg} (hd : lc.dotRule = false) (ts : List LTok) :
    (lc.post ts).map (·.tok.spell) = ts.map (·.tok.spell) := by
  rw [post_of_dotRule_false hd, fnPass_spell, opPass_spell]

theorem unglueHead_tok (ts : List LTok) : (unglueHead ts).map (·.tok) = ts.map (·.tok) := by
  cases ts <;> rfl

/-- what `dropTrailDots` removes are `.` tokens only: whatever is read off the tokens (`f`) and kept by
    a filter `q` that discards what is read off `.`, is the same before and after -/
theorem dropTrailDots_removed {β : Type} (f : Tok → β) (q : β → Bool) (hq : q (f (.p .dot)) = false)
    (pi pdot : Bool) (ts : List LTok) :
    ((dropTrailDots pi pdot ts).map (fun t => f t.tok)).filter q = (ts.map (fun t => f t.tok)).filter q := by
  suffices h : ∀ (n : Nat) (ts : List LTok), ts.length ≤ n → ∀ pi pdot,
      ((dropTrailDots pi pdot ts).map (fun t => f t.tok)).filter q = (ts.map (fun t => f t.tok)).filter q from
    h ts.length ts (Nat.le_refl _) pi pdot
  intro n
  induction n with
  | zero =>
    intro ts hl pi pdot
    cases ts with
    | nil => simp [dropTrailDots_nil]
    | cons t ts => simp at hl
  | succ n ih =>
    intro ts hl pi pdot
    cases ts with
    | nil => simp [dropTrailDots_nil]
    | cons t ts =>
      have hl' : ts.length ≤ n := by simpa using hl
      cases h : dotHere pi t ts with
      | false =>
        rw [dropTrailDots_keep pi pdot t ts h]
        simp only [List.map_cons, List.filter_cons, ih ts hl' _ _]
      | true =>
        rw [dropTrailDots_drop pi pdot t ts h]
        have h1 := ih (unglueHead ts) (by rw [unglueHead_length]; exact hl') false false
        have hu : (unglueHead ts).map (fun t => f t.tok) = ts.map (fun t => f t.tok) := by
          cases ts <;> rfl
        rw [hu] at h1
        have ht : t.tok = .p .dot := by
          simp only [dotHere, Bool.and_eq_true, beq_iff_eq] at h
          exact h.1.1.2
        simp only [List.map_cons, List.filter_cons, ht, hq]
        exact h1

/-- the tokens other than `.` are the same before and after `dropTrailDots`, in order -/
theorem dropTrailDots_keeps_nondots (pi pdot : Bool) (ts : List LTok) :
    ((dropTrailDots pi pdot ts).map (·.tok)).filter (· != .p .dot) =
      (ts.map (·.tok)).filter (· != .p .dot) :=
  dropTrailDots_removed id (· != .p .dot) (by decide) pi pdot ts

/-- **the passes keep the spelling**: the spellings of the tokens of `lc.post ts` are a sublist of the
    spellings of `ts` (nothing invented, nothing reordered, nothing respelled), and the spellings other
    than `.` are exactly the same (nothing but `.` tokens removed) -/
theorem post_removed (lc : LexCfg) (ts : List LTok) :
    ((lc.post ts).map (·.tok.spell)).Sublist (ts.map (·.tok.spell)) ∧
    ((lc.post ts).map (·.tok.spell)).filter (· != ['.']) = (ts.map (·.tok.spell)).filter (· != ['.']) := by
  refine ⟨post_sublist lc ts, ?_⟩
  rw [post_eq, ← opPass_spell lc ts, ← fnPass_spell lc (lc.opPass ts)]
  generalize lc.fnPass (lc.opPass ts) = us
  unfold LexCfg.dotPass
  split
  · exact dropTrailDots_removed Tok.spell (· != ['.']) (by decide) false false us
  · rfl

/-- the tokens other than `.` are the same after all three passes as after the two retagging passes -/
theorem post_keeps_nondots (lc : LexCfg) (ts : List LTok) :
    ((lc.post ts).map (·.tok)).filter (· != .p .dot) =
      ((lc.fnPass (lc.opPass ts)).map (·.tok)).filter (· != .p .dot) := by
  rw [post_eq]
  generalize lc.fnPass (lc.opPass ts) = us
  unfold LexCfg.dotPass
  split
  · exact dropTrailDots_keeps_nondots false false us
  · rfl

/-! ### examples (non-vacuity) -/

/-- the white space runs and tokens of ` child::a[@b = 'x']//c ` (one blank in front, blanks around `=`,
    a tab at the end) -/
def sampleItems : List (Chars × Tok) :=
  [([' '], .kw (.axis .child)), ([], .p .coloncolon), ([], .ncname ['a']), ([], .p .lbrack), ([], .p .at),
   ([], .ncname ['b']), ([' '], .p .eq), ([' '], .lit false ['x']), ([], .p .rbrack), ([], .p .dslash),
   ([], .ncname ['c'])]

example : " child::a[@b = 'x']//c\t".toList = spellPadded sampleItems ['\t'] := by decide
example : padOk lexModel sampleItems ['\t'] = true := by decide
/-- the tokeniser's answer: the `glued` flags are the empty runs -/
example : lexRaw lexModel " child::a[@b = 'x']//c\t".toList =
    .ok [⟨.kw (.axis .child), false⟩, ⟨.p .coloncolon, true⟩, ⟨.ncname ['a'], true⟩, ⟨.p .lbrack, true⟩,
         ⟨.p .at, true⟩, ⟨.ncname ['b'], true⟩, ⟨.p .eq, false⟩, ⟨.lit false ['x'], false⟩, ⟨.p .rbrack, true⟩,
         ⟨.p .dslash, true⟩, ⟨.ncname ['c'], true⟩] := by decide +kernel
example : padToks false sampleItems =
    [⟨.kw (.axis .child), false⟩, ⟨.p .coloncolon, true⟩, ⟨.ncname ['a'], true⟩, ⟨.p .lbrack, true⟩,
     ⟨.p .at, true⟩, ⟨.ncname ['b'], true⟩, ⟨.p .eq, false⟩, ⟨.lit false ['x'], false⟩, ⟨.p .rbrack, true⟩,
     ⟨.p .dslash, true⟩, ⟨.ncname ['c'], true⟩] := by decide
/-- `child::a[@b='x']//c` without white space, through the theorem: the decomposition exists -/
example : ∃ (ws : List Chars) (trail : Chars),
    ws.length = 11 ∧ (∀ w ∈ ws, ∀ c ∈ w, isSpace lexModel c = true) ∧ (∀ c ∈ trail, isSpace lexModel c = true) ∧
    "child::a[@b='x']//c".toList = spellPadded (ws.zip [.kw (.axis .child), .p .coloncolon, .ncname ['a'],
      .p .lbrack, .p .at, .ncname ['b'], .p .eq, .lit false ['x'], .p .rbrack, .p .dslash, .ncname ['c']]) trail :=
  have h : lexRaw lexModel "child::a[@b='x']//c".toList =
      .ok [⟨.kw (.axis .child), false⟩, ⟨.p .coloncolon, true⟩, ⟨.ncname ['a'], true⟩, ⟨.p .lbrack, true⟩,
           ⟨.p .at, true⟩, ⟨.ncname ['b'], true⟩, ⟨.p .eq, true⟩, ⟨.lit false ['x'], true⟩, ⟨.p .rbrack, true⟩,
           ⟨.p .dslash, true⟩, ⟨.ncname ['c'], true⟩] := by decide +kernel
  let ⟨ws, trail, h1, h2, h3, h4, _⟩ := lexRaw_sound lexModel _ _ h
  ⟨ws, trail, h1, h2, h3, h4⟩
/-- … and directly: all runs are empty -/
example : "child::a[@b='x']//c".toList = spellPadded (sampleItems.map (fun it => ([], it.2))) [] := by decide
/-- a character that is neither white space nor part of a token is an error, not skipped; so are an
    unterminated literal and a lone `!` -/
example : lexRaw lexModel "a ? b".toList = .err := by decide +kernel
example : lexRaw lexSpec "a ? b".toList = .err := by decide +kernel
example : lexRaw lexModel "a 'b".toList = .err := by decide +kernel
example : lexRaw lexModel "a ! b".toList = .err := by decide +kernel
example : lexRaw lexModel "$ a".toList = .err := by decide +kernel
/-- outside the modelled domain (no claim): a second colon in a variable reference -/
example : lexRaw lexModel "$a:b:c".toList = .unsup := by decide +kernel
/-- the passes: `1.` loses its `.`, nothing else changes -/
example : (lexModel.post [⟨.digits ['1'], false⟩, ⟨.p .dot, true⟩, ⟨.p .plus, false⟩, ⟨.kw .div, false⟩]).map (·.tok.spell) =
    [['1'], ['+'], ['d','i','v']] := by decide

end Xsel.Syntax
