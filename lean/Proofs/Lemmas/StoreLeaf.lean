/-
  Proofs/Lemmas/StoreLeaf.lean — what `Store.addLeaf` (and hence every node event) does to
  `Spec.describe`: one description is appended, nothing else changes.
-/
import Proofs.Lemmas.StoreFin

namespace Xsel.StoreL
open Xsel Xsel.Store Xsel.Arena Xsel.Spec

theorem addLeaf_a (s : BState) (c : Cell) (b : Bool) :
    (addLeaf s c b).a = setCell (alloc (finish s).a { c with parent := (finish s).cur }).1
      (finish s).cur (fun p =>
        if b then { p with attrs := p.attrs ++ [(finish s).a.size] }
        else { p with kids := p.kids ++ [(finish s).a.size] }) := rfl

section
variable (s : BState) (c : Cell) (b : Bool) (hc : (finish s).cur < (finish s).a.size)
include hc

theorem addLeaf_cell_old {i : Nat} (hi : i < (finish s).a.size) :
    cell (addLeaf s c b).a i
      = if i = (finish s).cur then
          (if b then { cell (finish s).a i with
                        attrs := (cell (finish s).a i).attrs ++ [(finish s).a.size] }
           else { cell (finish s).a i with
                        kids := (cell (finish s).a i).kids ++ [(finish s).a.size] })
        else cell (finish s).a i := by
  rw [addLeaf_a, cell_setCell (by rw [size_alloc]; omega)]
  simp only [Store.alloc, cell_push_lt hi]

theorem addLeaf_cell_new :
    cell (addLeaf s c b).a (finish s).a.size
      = { c with parent := (finish s).cur, pos := (finish s).a.size } := by
  rw [addLeaf_a, cell_setCell_ne (by omega)]
  simp only [Store.alloc, cell_push_size]

theorem addLeaf_keep : Keep (finish s).a (addLeaf s c b).a := by
  refine ⟨by rw [addLeaf_size]; omega, ?_, ?_, ?_, ?_, ?_⟩ <;>
  · intro i hi
    rw [addLeaf_cell_old s c b hc hi]
    cases b <;> (split <;> rfl)

theorem addLeaf_nss_old {i : Nat} (hi : i < (finish s).a.size) :
    (cell (addLeaf s c b).a i).nss = (cell (finish s).a i).nss := by
  rw [addLeaf_cell_old s c b hc hi]
  cases b <;> (split <;> rfl)

end

/-- the chain of the new cell -/
theorem addLeaf_ancestors_new (s : BState) (c : Cell) (b : Bool)
    (hf : PInv (finish s).a (finish s).cur) :
    Spec.ancestors (addLeaf s c b).a (addLeaf s c b).a.size (finish s).a.size
      = (finish s).cur :: Spec.ancestors (finish s).a (finish s).a.size (finish s).cur := by
  have hc := hf.cur_lt
  rw [addLeaf_size]
  have hb : ((finish s).a.size == 0) = false := beq_eq_false_iff_ne.mpr (by omega)
  simp only [Spec.ancestors, hb, Bool.false_eq_true, if_false, Arena.parent]
  rw [addLeaf_cell_new s c b hc]
  simp only []
  rw [ancestors_keep hf.ainv (addLeaf_keep s c b hc).parent _ (finish s).a.size _ hc
    (by omega) (by omega)]

theorem addLeaf_ancestors_old (s : BState) (c : Cell) (b : Bool)
    (hf : PInv (finish s).a (finish s).cur) {j : Nat} (hj : j < (finish s).a.size) :
    Spec.ancestors (addLeaf s c b).a (addLeaf s c b).a.size j
      = Spec.ancestors (finish s).a (finish s).a.size j :=
  (addLeaf_keep s c b hf.cur_lt).ancestors_eq hf.ainv hj

theorem addLeaf_binds_old (s : BState) (c : Cell) (b : Bool)
    (hf : PInv (finish s).a (finish s).cur) {i : Nat} (hi : i < (finish s).a.size) :
    binds (addLeaf s c b).a i = binds (finish s).a i :=
  (addLeaf_keep s c b hf.cur_lt).binds_eq hf.ainv hi (addLeaf_nss_old s c b hf.cur_lt hi)

/-- the old cells are described as before -/
theorem addLeaf_front (s : BState) (c : Cell) (b : Bool)
    (hf : PInv (finish s).a (finish s).cur) :
    (List.range (finish s).a.size).filterMap (descOf (addLeaf s c b).a)
      = describe (finish s).a := by
  rw [describe_eq]
  apply filterMap_congr'
  intro i hi
  have hi' := List.mem_range.mp hi
  exact (addLeaf_keep s c b hf.cur_lt).descOf_eq hf.ainv hi'
    (fun _ => addLeaf_nss_old s c b hf.cur_lt hi')

theorem addLeaf_describe (s : BState) (c : Cell) (b : Bool)
    (hf : PInv (finish s).a (finish s).cur) :
    describe (addLeaf s c b).a
      = describe (finish s).a ++ (descOf (addLeaf s c b).a (finish s).a.size).toList := by
  rw [(addLeaf_keep s c b hf.cur_lt).describe_split, addLeaf_front s c b hf, addLeaf_size]
  have : (finish s).a.size + 1 - (finish s).a.size = 1 := by omega
  rw [this]
  simp only [List.range'_one, List.filterMap_cons, List.filterMap_nil]
  cases descOf (addLeaf s c b).a (finish s).a.size <;> rfl

/-- depth of the new cell -/
theorem addLeaf_depth_new (s : BState) (c : Cell) (b : Bool)
    (hf : PInv (finish s).a (finish s).cur) :
    depthIn (addLeaf s c b).a (finish s).a.size
      = ((finish s).cur :: Spec.ancestors (finish s).a (finish s).a.size (finish s).cur).length := by
  unfold Spec.depthIn
  rw [addLeaf_ancestors_new s c b hf]

end Xsel.StoreL
