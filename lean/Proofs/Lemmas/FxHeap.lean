/-
  Proofs/Lemmas/FxHeap.lean — the primitives of Xsel/Effects.lean (`goMake`, `goAppend`,
  `goSortAsc`, `goUnique`): what they write (frame), what the returned slice shows (value), and
  that the returned slice is well formed.
-/
import Xsel.Effects
import Proofs.Lemmas.Cleanup

namespace Xsel
namespace Effects

/-! ### lists -/

theorem splice_read (L xs : List Nat) (off len : Nat) (h : off + len + xs.length ≤ L.length) :
    ((L.take (off + len) ++ xs ++ L.drop (off + len + xs.length)).drop off).take (len + xs.length)
      = (L.drop off).take len ++ xs := by
  have h1 : (L.take (off + len)).length = off + len := by simp; omega
  rw [List.append_assoc, List.drop_append_of_le_length (by omega), List.drop_take]
  have h2 : off + len - off = len := by omega
  rw [h2, ← List.append_assoc]
  have h3 : (List.take len (List.drop off L) ++ xs).length = len + xs.length := by simp; omega
  rw [← h3, List.take_left']
  rfl

theorem length_insertBy (le : Nat → Nat → Bool) (x : Nat) :
    ∀ l : List Nat, (insertBy le x l).length = l.length + 1
  | [] => by simp [insertBy]
  | y :: t => by
    unfold insertBy
    split
    · simp
    · simp [length_insertBy le x t]

theorem length_sortBy (le : Nat → Nat → Bool) : ∀ l : List Nat, (sortBy le l).length = l.length
  | [] => by simp [sortBy]
  | x :: t => by simp [sortBy, length_insertBy, length_sortBy le t]

@[simp] theorem length_sortAsc (l : List Nat) : (sortAsc l).length = l.length := length_sortBy _ l

/-- on a strictly increasing list `unique` has nothing to drop -/
theorem uniqueAdj_of_strict : ∀ {l : List Nat}, l.Pairwise (· < ·) → uniqueAdj l = l
  | [], _ => by simp [uniqueAdj]
  | [_], _ => by simp [uniqueAdj]
  | y :: z :: t, h => by
    have h' := List.pairwise_cons.mp h
    have hyz : y < z := h'.1 z (by simp)
    unfold uniqueAdj
    have : (y == z) = false := by simp; omega
    simp [this, uniqueAdj_of_strict h'.2]

/-- the second `unique` of `unionCleanup` is a no-op -/
theorem uniqueAdj_cleanupFwd (l : List Nat) : uniqueAdj (cleanupFwd l) = cleanupFwd l :=
  uniqueAdj_of_strict (cleanupFwd_strict l)

/-! ### `writeAt` -/

@[simp] theorem size_writeAt : ∀ (xs : List Nat) (a : Array Nat) (i : Nat), (writeAt a i xs).size = a.size
  | [], _, _ => rfl
  | x :: xs, a, i => by simp [writeAt, size_writeAt xs]

theorem toList_writeAt : ∀ (xs : List Nat) (a : Array Nat) (i : Nat), i + xs.length ≤ a.size →
    (writeAt a i xs).toList = a.toList.take i ++ xs ++ a.toList.drop (i + xs.length)
  | [], a, i, _ => by simp [writeAt]
  | x :: xs, a, i, h => by
    have hlen : i + 1 + xs.length ≤ (a.setIfInBounds i x).size := by
      simp only [List.length_cons] at h; simp; omega
    rw [writeAt, toList_writeAt xs _ _ hlen, Array.toList_setIfInBounds]
    have hi : i < a.toList.length := by simp only [List.length_cons] at h; simp; omega
    rw [List.drop_set_of_lt (by omega), List.set_eq_take_append_cons_drop, if_pos hi]
    have h1 : (List.take i a.toList).length = i := by simp; omega
    rw [List.take_append, List.take_take, h1]
    have h2 : min (i + 1) i = i := by omega
    have h3 : i + 1 - i = 1 := by omega
    rw [h2, h3]
    simp only [List.length_cons]
    have h4 : i + 1 + xs.length = i + (xs.length + 1) := by omega
    rw [h4]
    simp

/-! ### heaps -/

theorem arrD_eq (h : Heap) (i : Nat) : h.arrD i = h[i]?.getD #[] := by
  simp [Heap.arrD]

theorem arrD_push_lt {h : Heap} {a : Array Nat} {i : Nat} (hi : i < h.size) :
    Heap.arrD (h.push a) i = h.arrD i := by
  rw [arrD_eq, arrD_eq, Array.getElem?_push, if_neg (by omega)]

theorem arrD_push_size (h : Heap) (a : Array Nat) : Heap.arrD (h.push a) h.size = a := by
  rw [arrD_eq, Array.getElem?_push, if_pos rfl]; rfl

theorem arrD_modify_ne {h : Heap} {f : Array Nat → Array Nat} {i j : Nat} (hij : i ≠ j) :
    Heap.arrD (h.modify i f) j = h.arrD j := by
  rw [arrD_eq, arrD_eq, Array.getElem?_modify, if_neg hij]

theorem arrD_modify_self {h : Heap} {f : Array Nat → Array Nat} {i : Nat} (hi : i < h.size) :
    Heap.arrD (h.modify i f) i = f (h.arrD i) := by
  rw [arrD_eq, arrD_eq, Array.getElem?_modify, if_pos rfl]
  simp [hi]

/-- `Frame n h h'`: going from `h` to `h'` no array with id below `n` was written, none was freed -/
def Frame (n : Nat) (h h' : Heap) : Prop :=
  h.size ≤ h'.size ∧ ∀ id, id < n → h'.arrD id = h.arrD id

theorem Frame.refl (n : Nat) (h : Heap) : Frame n h h := ⟨Nat.le_refl _, fun _ _ => rfl⟩

theorem Frame.trans {n : Nat} {h h' h'' : Heap} (a : Frame n h h') (b : Frame n h' h'') : Frame n h h'' :=
  ⟨Nat.le_trans a.1 b.1, fun id hid => (b.2 id hid).trans (a.2 id hid)⟩

theorem Frame.mono {n m : Nat} {h h' : Heap} (a : Frame n h h') (hm : m ≤ n) : Frame m h h' :=
  ⟨a.1, fun id hid => a.2 id (by omega)⟩

theorem Frame.read {n : Nat} {h h' : Heap} (a : Frame n h h') {s : Slice} (hs : s.arr < n) :
    Effects.read h' s = Effects.read h s := by
  simp only [Effects.read, a.2 s.arr hs]

theorem Frame.valid {n : Nat} {h h' : Heap} (a : Frame n h h') {s : Slice} (hs : s.arr < n)
    (hv : s.valid h) : s.valid h' := by
  refine ⟨by have := hv.1; have := a.1; omega, hv.2.1, ?_⟩
  rw [a.2 s.arr hs]; exact hv.2.2

theorem frame_push (h : Heap) (a : Array Nat) : Frame h.size h (h.push a) :=
  ⟨by simp, fun _ hid => arrD_push_lt hid⟩

theorem frame_modify (h : Heap) (i : Nat) (f : Array Nat → Array Nat) : Frame i h (h.modify i f) :=
  ⟨by simp, fun id hid => arrD_modify_ne (by omega)⟩

/-! ### slices -/

theorem length_read {h : Heap} {s : Slice} (hv : s.valid h) : (read h s).length = s.len := by
  have := hv.2.1; have := hv.2.2
  simp [read]; omega

/-- a slice that shows a whole array -/
theorem read_whole (h : Heap) (c : List Nat) :
    read (h.push c.toArray) { arr := h.size, off := 0, len := c.length, cap := c.length } = c := by
  simp [read, arrD_push_size]

theorem valid_whole (h : Heap) (c : List Nat) :
    Slice.valid (h.push c.toArray) { arr := h.size, off := 0, len := c.length, cap := c.length } := by
  refine ⟨by simp, Nat.le_refl _, ?_⟩
  simp [arrD_push_size]

/-! ### `goMake` -/

theorem goMake_frame (h : Heap) (n : Nat) : Frame h.size h (goMake h n).1 := frame_push _ _

theorem goMake_slice (h : Heap) (n : Nat) :
    (goMake h n).2 = { arr := h.size, off := 0, len := 0, cap := n } := rfl

theorem goMake_valid (h : Heap) (n : Nat) : (goMake h n).2.valid (goMake h n).1 := by
  refine ⟨by simp [goMake], Nat.zero_le _, ?_⟩
  simp [goMake, arrD_push_size]

theorem goMake_read (h : Heap) (n : Nat) : read (goMake h n).1 (goMake h n).2 = [] := by
  simp [goMake, read]

/-! ### `goAppend` -/

/-- `append` writes only to the array of its first operand, or to a fresh one -/
theorem goAppend_frame (h : Heap) (s : Slice) (xs : List Nat) {n : Nat} (hn : n ≤ s.arr) (hh : n ≤ h.size) :
    Frame n h (goAppend h s xs).1 := by
  unfold goAppend
  split
  · exact (frame_modify h s.arr _).mono hn
  · exact (frame_push h _).mono hh

theorem goAppend_arr (h : Heap) (s : Slice) (xs : List Nat) {n : Nat} (hn : n ≤ s.arr) (hh : n ≤ h.size) :
    n ≤ (goAppend h s xs).2.arr := by
  unfold goAppend
  split
  · exact hn
  · exact hh

theorem goAppend_read {h : Heap} {s : Slice} (hv : s.valid h) (xs : List Nat) :
    read (goAppend h s xs).1 (goAppend h s xs).2 = read h s ++ xs := by
  unfold goAppend
  split
  · next hfit =>
    have hsz : s.off + s.len + xs.length ≤ (h.arrD s.arr).size := by have := hv.2.2; omega
    simp only [read, arrD_modify_self hv.1]
    rw [toList_writeAt xs _ _ hsz]
    exact splice_read _ xs s.off s.len (by simpa using hsz)
  · exact read_whole h _

theorem goAppend_valid {h : Heap} {s : Slice} (hv : s.valid h) (xs : List Nat) :
    (goAppend h s xs).2.valid (goAppend h s xs).1 := by
  unfold goAppend
  split
  · next hfit =>
    refine ⟨by simpa using hv.1, hfit, ?_⟩
    simp only [arrD_modify_self hv.1, size_writeAt]
    exact hv.2.2
  · exact valid_whole h _

/-! ### `goSortAsc` -/

theorem goSortAsc_frame (h : Heap) (s : Slice) {n : Nat} (hn : n ≤ s.arr) : Frame n h (goSortAsc h s) :=
  (frame_modify h s.arr _).mono hn

theorem goSortAsc_read {h : Heap} {s : Slice} (hv : s.valid h) :
    read (goSortAsc h s) s = sortAsc (read h s) := by
  have hl := length_read hv
  have hsz : s.off + (sortAsc (read h s)).length ≤ (h.arrD s.arr).size := by
    have := hv.2.1; have := hv.2.2; rw [length_sortAsc, hl]; omega
  unfold goSortAsc
  rw [read, arrD_modify_self hv.1, toList_writeAt _ _ _ hsz]
  have := splice_read (h.arrD s.arr).toList (sortAsc (read h s)) s.off 0 (by simpa using hsz)
  simp only [Nat.add_zero, Nat.zero_add, length_sortAsc, hl, List.take_zero, List.nil_append] at this
  rw [length_sortAsc, hl]
  exact this

theorem goSortAsc_valid {h : Heap} {s : Slice} (hv : s.valid h) : s.valid (goSortAsc h s) := by
  refine ⟨by simpa [goSortAsc] using hv.1, hv.2.1, ?_⟩
  unfold goSortAsc
  rw [arrD_modify_self hv.1, size_writeAt]
  exact hv.2.2

/-! ### `goUnique` -/

theorem goUnique_frame (h : Heap) (s : Slice) : Frame h.size h (goUnique h s).1 := frame_push _ _

theorem goUnique_arr (h : Heap) (s : Slice) : (goUnique h s).2.arr = h.size := rfl

theorem goUnique_size (h : Heap) (s : Slice) : (goUnique h s).1.size = h.size + 1 := by
  simp [goUnique]

theorem goUnique_read (h : Heap) (s : Slice) :
    read (goUnique h s).1 (goUnique h s).2 = uniqueAdj (read h s) := read_whole h _

theorem goUnique_valid (h : Heap) (s : Slice) : (goUnique h s).2.valid (goUnique h s).1 := valid_whole h _

end Effects
end Xsel
