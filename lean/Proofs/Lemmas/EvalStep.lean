/-
  Proofs/Lemmas/EvalStep.lean — one location step: set-at-a-time evaluation with the walkers of
  the model (per context node only when there are predicates and several context nodes)
  selects the same nodes as the per-context-node evaluation of the specification; with an unbound
  prefix in the node test both fail, whatever the context node-set.
-/
import Proofs.Lemmas.EvalAsc

namespace Xsel
open Arena

theorem perm_of_nodup_mem {l m : List Nat} (hl : l.Nodup) (hm : m.Nodup)
    (h : ∀ x, x ∈ l ↔ x ∈ m) : l.Perm m :=
  (List.perm_ext_iff_of_nodup hl hm).mpr h

theorem perm_cleanupFwd {l : List Nat} (hl : l.Nodup) : l.Perm (cleanupFwd l) :=
  perm_of_nodup_mem hl (nodup_of_lt (cleanupFwd_strict l)) (fun _ => mem_cleanupFwd.symm)

theorem cleanupFwd_perm {l m : List Nat} (hp : l.Perm m) : cleanupFwd l = cleanupFwd m :=
  cleanupFwd_ext (fun _ => hp.mem_iff)

theorem nodes?_congr {b b' : Val} (h : Val.Equiv b b') :
    ExRel List.Perm b.nodes? b'.nodes? := by
  cases h with
  | nodes hp => exact hp
  | refl => cases b <;> simp [Val.nodes?, ExRel]

theorem spec_axis_single (a : Arena) (ax : Axis) (n : Nat) :
    Spec.semKF.axis a ax [n] = Spec.axisList a ax n := by
  simp [Spec.semKF, Spec.sem]

section
variable {a : Arena} (h : wfb a = true) {env : Env} {c c' : Ctx}
  (ha : c.a = a) (ha' : c'.a = a) (he : c.env = env) (he' : c'.env = env)
  (ax : Axis) {t : NodeTest} (hb : t.bound env = true) {preds : Exprs}
  (hP : ∀ l, (∀ x ∈ l, x < a.size) →
    ExRel Eq (applyPreds Model.sem preds c l) (applyPreds Spec.semKF preds c' l))
include h ha ha' he he' hb hP

/-- from one context node both evaluators run the same computation -/
theorem step_node {n : Nat} (hn : n < a.size) :
    ExRel Eq
      (do let l ← NodeTest.apply c.a c.env ax t (Model.sem.axis c.a ax [n])
          applyPreds Model.sem preds c l)
      (do let l ← NodeTest.apply c'.a c'.env ax t (Spec.semKF.axis c'.a ax [n])
          applyPreds Spec.semKF preds c' l) := by
  rw [ha, ha', he, he', NodeTest.apply_eq a env ax hb, NodeTest.apply_eq a env ax hb,
    spec_axis_single, ← Tree.axis_refines h ax hn]
  show ExRel Eq (applyPreds Model.sem preds c _) (applyPreds Spec.semKF preds c' _)
  apply hP
  intro x hx
  exact Tree.axis_range h ax hn (List.mem_filter.mp hx).1

/-- the step from a node-set when the prefix of the node test is bound (the resolution that
    precedes the per-node loop has been reduced away): the cases of the model's shortcut -/
theorem step_refines_bound {s s' : List Nat} (hp : s.Perm s') (hok : Val.Ok a (.nodes s)) :
    Res.Equiv
      (if (Model.sem.perNode || !preds.isNil && decide (s.length > 1)) = true then do
          let r ← concatMapE (fun n => do
            let l ← NodeTest.apply c.a c.env ax t (Model.sem.axis c.a ax [n])
            applyPreds Model.sem preds c l) s
          pure (Val.nodes (cleanupFwd r))
        else do
          let l ← NodeTest.apply c.a c.env ax t (Model.sem.axis c.a ax s)
          let r ← applyPreds Model.sem preds c l
          pure (Val.nodes r))
      (if (Spec.semKF.perNode || !preds.isNil && decide (s'.length > 1)) = true then do
          let r ← concatMapE (fun n => do
            let l ← NodeTest.apply c'.a c'.env ax t (Spec.semKF.axis c'.a ax [n])
            applyPreds Spec.semKF preds c' l) s'
          pure (Val.nodes (cleanupFwd r))
        else do
          let l ← NodeTest.apply c'.a c'.env ax t (Spec.semKF.axis c'.a ax s')
          let r ← applyPreds Spec.semKF preds c' l
          pure (Val.nodes r)) := by
  have hs' : ∀ x ∈ s', x < a.size := fun x hx => hok.1 x (hp.mem_iff.mpr hx)
  have hspec : (Spec.semKF.perNode || !preds.isNil && decide (s'.length > 1)) = true := by
    simp [Spec.semKF, Spec.sem]
  rw [if_pos hspec]
  -- the specification's per-node run agrees with the model's per-node run
  have hnode : ∀ n ∈ s', ExRel Eq
      ((fun n => do
          let l ← NodeTest.apply c.a c.env ax t (Model.sem.axis c.a ax [n])
          applyPreds Model.sem preds c l) n)
      ((fun n => do
          let l ← NodeTest.apply c'.a c'.env ax t (Spec.semKF.axis c'.a ax [n])
          applyPreds Spec.semKF preds c' l) n) :=
    fun n hn => step_node h ha ha' he he' ax hb hP (hs' n hn)
  have hcongr := concatMapE_congr hnode
  split
  · -- per node on both sides
    have hperm := concatMapE_perm (fun n => do
          let l ← NodeTest.apply c.a c.env ax t (Model.sem.axis c.a ax [n])
          applyPreds Model.sem preds c l) hp
    have hboth : ExRel List.Perm _ _ :=
      ExRel.trans (T := List.Perm) (fun _ _ _ h1 h2 => h2 ▸ h1) hperm hcongr
    refine ExRel.bind hboth ?_
    intro r r' _ _ hrr
    exact ExRel.pure_pure (by rw [cleanupFwd_perm hrr]; exact .refl _)
  · next hcond =>
    have hcond' : preds.isNil = true ∨ s.length ≤ 1 := by
      simp only [Model.sem, Bool.false_or, Bool.and_eq_true, Bool.not_eq_true',
        decide_eq_true_eq, not_and] at hcond
      cases hn : preds.isNil
      · exact .inr (by have := hcond hn; omega)
      · exact .inl rfl
    rcases hcond' with hnil | hlen
    · -- no predicates: set-at-a-time against the union of the per-node lists
      have eS : (fun n => do
            let l ← NodeTest.apply c'.a c'.env ax t (Spec.semKF.axis c'.a ax [n])
            applyPreds Spec.semKF preds c' l)
          = fun n => .ok ((Spec.axisList a ax n).filter (NodeTest.keep a env ax t)) := by
        funext n
        rw [ha', he', NodeTest.apply_eq a env ax hb, spec_axis_single]
        exact applyPreds_isNil _ hnil _ _
      rw [eS, concatMapE_pure, ha, he, NodeTest.apply_eq a env ax hb]
      show Res.Equiv (applyPreds Model.sem preds c _ >>= fun r => pure (Val.nodes r)) _
      rw [applyPreds_isNil _ hnil]
      refine ExRel.ok_ok (.nodes (perm_of_nodup_mem ?_ (nodup_of_lt (cleanupFwd_strict _)) ?_))
      · exact (List.filter_sublist).nodup (model_axis_nodup a ax hok.2)
      · intro x
        show x ∈ List.filter _ (Model.axis a ax s) ↔ _
        simp only [List.mem_filter, mem_cleanupFwd, List.mem_flatMap, mem_axis_set' a ax (s := s)]
        constructor
        · rintro ⟨⟨n, hn, hx⟩, hk⟩
          exact ⟨n, hp.mem_iff.mp hn, (Tree.axis_refines h ax (hok.1 n hn)) ▸ hx, hk⟩
        · rintro ⟨n, hn, hx, hk⟩
          have hn' := hp.mem_iff.mpr hn
          exact ⟨⟨n, hn', (Tree.axis_refines h ax (hok.1 n hn')) ▸ hx⟩, hk⟩
    · -- at most one context node
      match s, hp, hok, hlen with
      | [], hp, _, _ =>
        rw [← hp.nil_eq, ha, he, NodeTest.apply_eq a env ax hb,
          show Model.sem.axis = Model.axis from rfl, model_axis_nil]
        show Res.Equiv (applyPreds Model.sem preds c [] >>= fun r => pure (Val.nodes r)) _
        rw [applyPreds_nil_list]
        exact ExRel.ok_ok (.refl _)
      | [n], hp, hok, _ =>
        have e : s' = [n] := (List.singleton_perm.mp hp).symm
        subst e
        rw [concatMapE_single, ← bind_assoc]
        have hn := hnode n List.mem_cons_self
        simp only [] at hn
        revert hn
        generalize hx : (do
            let l ← NodeTest.apply c.a c.env ax t (Model.sem.axis c.a ax [n])
            applyPreds Model.sem preds c l) = x
        generalize (do
            let l ← NodeTest.apply c'.a c'.env ax t (Spec.semKF.axis c'.a ax [n])
            applyPreds Spec.semKF preds c' l) = y
        intro hn
        cases x with
        | error e => cases y with
          | error e' => exact True.intro
          | ok r' => exact absurd hn (by simp [ExRel])
        | ok r => cases y with
          | error e' => exact absurd hn (by simp [ExRel])
          | ok r' =>
            have e : r = r' := hn
            subst e
            simp only [bind_ok] at hx
            obtain ⟨l0, hl0, hr⟩ := hx
            have hnd : r.Nodup :=
              ((applyPreds_sublist _ _ _ _ hr).trans (NodeTest.apply_sublist hl0)).nodup
                (model_axis_nodup _ ax (by simp))
            refine ExRel.ok_ok (.nodes ?_)
            rw [List.append_nil]
            exact perm_cleanupFwd hnd
      | _ :: _ :: _, _, _, hlen => simp at hlen

end

section
variable {a : Arena} (h : wfb a = true) {env : Env} {c c' : Ctx}
  (ha : c.a = a) (ha' : c'.a = a) (he : c.env = env) (he' : c'.env = env)
  (ax : Axis) (t : NodeTest) {preds : Exprs}
  (hP : ∀ l, (∀ x ∈ l, x < a.size) →
    ExRel Eq (applyPreds Model.sem preds c l) (applyPreds Spec.semKF preds c' l))
include h ha ha' he he' hP

/-- the step from a node-set, as `eval` writes it.  The prefix of the node test is resolved
    before the per-node loop, so with an unbound prefix both evaluators fail, whatever the
    context node-set; with a bound prefix `step_refines_bound` applies. -/
theorem step_refines {s s' : List Nat} (hp : s.Perm s') (hok : Val.Ok a (.nodes s)) :
    Res.Equiv
      (if (Model.sem.perNode || !preds.isNil && decide (s.length > 1)) = true then do
          let _ ← NodeTest.apply c.a c.env ax t []
          let r ← concatMapE (fun n => do
            let l ← NodeTest.apply c.a c.env ax t (Model.sem.axis c.a ax [n])
            applyPreds Model.sem preds c l) s
          pure (Val.nodes (cleanupFwd r))
        else do
          let l ← NodeTest.apply c.a c.env ax t (Model.sem.axis c.a ax s)
          let r ← applyPreds Model.sem preds c l
          pure (Val.nodes r))
      (if (Spec.semKF.perNode || !preds.isNil && decide (s'.length > 1)) = true then do
          let _ ← NodeTest.apply c'.a c'.env ax t []
          let r ← concatMapE (fun n => do
            let l ← NodeTest.apply c'.a c'.env ax t (Spec.semKF.axis c'.a ax [n])
            applyPreds Spec.semKF preds c' l) s'
          pure (Val.nodes (cleanupFwd r))
        else do
          let l ← NodeTest.apply c'.a c'.env ax t (Spec.semKF.axis c'.a ax s')
          let r ← applyPreds Spec.semKF preds c' l
          pure (Val.nodes r)) := by
  cases hb : t.bound env
  · -- unbound prefix: every branch of both evaluators resolves the node test first
    have e1 : ∀ l, NodeTest.apply c.a c.env ax t l = .error .unboundPrefix := fun l => by
      rw [ha, he]; exact NodeTest.apply_unbound a env ax hb l
    have e2 : ∀ l, NodeTest.apply c'.a c'.env ax t l = .error .unboundPrefix := fun l => by
      rw [ha', he']; exact NodeTest.apply_unbound a env ax hb l
    simp only [e1, e2]
    split <;> split <;> exact True.intro
  · have e1 : NodeTest.apply c.a c.env ax t [] = .ok [] := by
      rw [ha, he]; exact NodeTest.apply_nil_bound a env ax hb
    have e2 : NodeTest.apply c'.a c'.env ax t [] = .ok [] := by
      rw [ha', he']; exact NodeTest.apply_nil_bound a env ax hb
    rw [e1, e2]
    exact step_refines_bound h ha ha' he he' ax hb hP hp hok

end
end Xsel
