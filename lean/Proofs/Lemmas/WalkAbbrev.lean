/-
  Proofs/Lemmas/WalkAbbrev.lean — ABBREVIATED forms in the parse forest.  The grammar has its own productions
  and the evaluator its own handlers for `@`, a step without axis specifier, `..`, `.` and `//` (relative,
  absolute, after a filter expression).  Each of these nodes is evaluated by the handler walk exactly as
  the node of its EXPANSION (`attribute::`, `child::`, `parent::node()`, `self::node()`,
  `/descendant-or-self::node()/`): the property's "abbreviated forms equal to their expansions", at the
  level of the forest the Go code walks (the same statement for the PARSER is
  `C08.abbreviated_equals_unabbreviated`).
-/
import Proofs.Lemmas.WalkAlt

namespace Xsel.Walk
open Xsel Xsel.Syntax

/-- outcomes that agree up to the principal node type left in the context (the next step resets it) -/
def EqRes (x y : R) : Prop := x.map (·.c) = y.map (·.c)

theorem EqRes.rfl' {x : R} : EqRes x x := rfl

/-- `@test` is `attribute::test` -/
theorem abbrev_at (t : NodeTest) (w : WCtx) :
    walk tbl (N "StepWithAxisAndNodeTest" [N "AxisSpecifier" [N "AbbreviatedAxisSpecifier" [tkp .at]], testNode t]) w =
    walk tbl (N "StepWithAxisAndNodeTest" [axisNode .attribute, testNode t]) w := by
  have ht : (testNode t).isNt = true := by cases t <;> rfl
  have ha : (axisNode .attribute).isNt = true := rfl
  simp only [N, ofList_cons, ofList_nil]
  rw [walk, walk]
  simp only [lk_StepWithAxisAndNodeTest]
  rw [walkNth_nt0, walkNth_cons_nt0 _ _ _ _ ha]
  simp only [walkNth_ntS, walkNth_one _ _ _ _ ha, walkNth_cons_nt0 _ _ _ _ ht]
  -- the axis part: `execAbbreviatedAxisSpecifier` and `execAxisName` on "attribute" unfold to the same term
  congr 1

/-- a step without axis specifier and without predicates is `child::test` -/
theorem abbrev_child (t : NodeTest) (w : WCtx) :
    walk tbl (N "Step" [testNode t]) w = walk tbl (dStep .child t .nil) w := by
  have ht : (testNode t).isNt = true := by cases t <;> rfl
  have hname : ∃ k, testNode t = .nt "NodeTest" k := by cases t <;> exact ⟨_, rfl⟩
  obtain ⟨k, hk⟩ := hname
  -- left: execStep selects the children first, then evaluates the node test
  have hl : walk tbl (N "Step" [testNode t]) w =
      (match w.res with
       | .nodes s => walk tbl (testNode t) ((⟨w.c, .elem⟩ : WCtx).set (.nodes (Model.axis w.c.a .child s)))
       | _ => .error (.err .notNodeSet)) := by
    rw [hk]
    simp only [N, ofList_cons, ofList_nil]
    rw [walk]
    simp [PTs.lastNtName, PT.isNt, PT.name, implicitChild, walkLast_cons, WCtx.res, WCtx.set]
    cases w.c.result <;> rfl
  -- right: the explicit child axis
  have hr : walk tbl (dStep .child t .nil) w =
      walk tbl (N "StepWithAxisAndNodeTest" [axisNode .child, testNode t]) ⟨w.c, .elem⟩ := by
    rw [dStep]
    simp only [N, ofList_cons, ofList_nil]
    rw [walk]
    simp [PTs.lastNtName, PT.isNt, PT.name, implicitChild, walkLast_cons]
  rw [hl, hr]
  cases hres : w.res with
  | nodes s =>
    simp only
    have ha : (axisNode .child).isNt = true := rfl
    simp only [N, ofList_cons, ofList_nil]
    rw [walk]
    simp only [lk_StepWithAxisAndNodeTest]
    rw [walkNth_cons_nt0 _ _ _ _ ha]
    simp only [walkNth_one _ _ _ _ ha, walkNth_cons_nt0 _ _ _ _ ht]
    rw [walk_axisNode .child ⟨w.c, .elem⟩ s hres]
    rfl
  | num n =>
    exact (walk_axisTest_notNodes .child t ⟨w.c, .elem⟩ (fun l h => by rw [res_elem, hres] at h; cases h)).symm
  | str n =>
    exact (walk_axisTest_notNodes .child t ⟨w.c, .elem⟩ (fun l h => by rw [res_elem, hres] at h; cases h)).symm
  | bool n =>
    exact (walk_axisTest_notNodes .child t ⟨w.c, .elem⟩ (fun l h => by rw [res_elem, hres] at h; cases h)).symm

/-- the step `descendant-or-self::node()` that `//` stands for -/
def dosStep : PT := dStep .descendantOrSelf .node .nil

theorem walk_dosStep (w : WCtx) :
    walk tbl dosStep w =
      (match w.res with
       | .nodes s => .ok ((⟨w.c, .elem⟩ : WCtx).set (.nodes (Model.axis w.c.a .descendantOrSelf s)))
       | _ => .error (.err .notNodeSet)) := by
  have h := sim_dStep_nil .descendantOrSelf .node w
  unfold dosStep
  have hw : walk tbl (dStep .descendantOrSelf .node .nil) w =
      walk tbl (N "StepWithAxisAndNodeTest" [axisNode .descendantOrSelf, testNode .node]) ⟨w.c, .elem⟩ := by
    rw [dStep]
    simp only [N, ofList_cons, ofList_nil]
    rw [walk]
    simp [PTs.lastNtName, PT.isNt, PT.name, implicitChild, walkLast_cons]
  rw [hw]
  cases hr : w.res with
  | nodes s =>
    rw [walk_axisTest .descendantOrSelf .node ⟨w.c, .elem⟩ s hr rfl]
    simp [NodeTest.apply, principalAfter]
  | num n => exact walk_axisTest_notNodes _ _ _ (fun l h => by rw [res_elem, hr] at h; cases h)
  | str n => exact walk_axisTest_notNodes _ _ _ (fun l h => by rw [res_elem, hr] at h; cases h)
  | bool n => exact walk_axisTest_notNodes _ _ _ (fun l h => by rw [res_elem, hr] at h; cases h)

/-- `..` is `parent::node()` -/
theorem abbrev_dotdot (w : WCtx) :
    walk tbl (N "Step" [N "AbbreviatedStep" [N "AbbreviatedStepParent" [tkp .dotdot]]]) w =
    walk tbl (dStep .parent .node .nil) w := by
  have hr : walk tbl (dStep .parent .node .nil) w =
      walk tbl (N "StepWithAxisAndNodeTest" [axisNode .parent, testNode .node]) ⟨w.c, .elem⟩ := by
    rw [dStep]
    simp only [N, ofList_cons, ofList_nil]
    rw [walk]
    simp [PTs.lastNtName, PT.isNt, PT.name, implicitChild, walkLast_cons]
  rw [hr]
  simp only [N, ofList_cons, ofList_nil]
  rw [walk]
  simp [PTs.lastNtName, PT.isNt, PT.name, implicitChild, walkLast_cons]
  rw [walk_nohandler _ _ _ _ lk_AbbreviatedStep, walkFirst_nt, walk]
  simp only [lk_AbbreviatedStepParent]
  cases hres : w.res with
  | nodes s =>
    have := walk_axisTest .parent .node ⟨w.c, .elem⟩ s hres rfl
    simp only [N, ofList_cons, ofList_nil] at this
    rw [this]
    simp [nodesOf, WCtx.res, NodeTest.apply, principalAfter, bind, Except.bind, pure, Except.pure] at hres ⊢
    simp [hres]
  | num n =>
    have := walk_axisTest_notNodes .parent .node ⟨w.c, .elem⟩ (fun l h => by rw [res_elem, hres] at h; cases h)
    simp only [N, ofList_cons, ofList_nil] at this
    rw [this]; simp [nodesOf, WCtx.res] at hres ⊢; simp [hres]; rfl
  | str n =>
    have := walk_axisTest_notNodes .parent .node ⟨w.c, .elem⟩ (fun l h => by rw [res_elem, hres] at h; cases h)
    simp only [N, ofList_cons, ofList_nil] at this
    rw [this]; simp [nodesOf, WCtx.res] at hres ⊢; simp [hres]; rfl
  | bool n =>
    have := walk_axisTest_notNodes .parent .node ⟨w.c, .elem⟩ (fun l h => by rw [res_elem, hres] at h; cases h)
    simp only [N, ofList_cons, ofList_nil] at this
    rw [this]; simp [nodesOf, WCtx.res] at hres ⊢; simp [hres]; rfl

/-- `r//S` is `r/descendant-or-self::node()/S` -/
theorem abbrev_dslash_relative (r : PT) (k : PTs) (w : WCtx) (hr : r.isNt = true)
    (hframe : ∀ w1, walk tbl r w = .ok w1 → w1.c.a = w.c.a) :
    walk tbl (N "RelativeLocationPath" [N "AbbreviatedRelativeLocationPath" [r, tkp .dslash, .nt "Step" k]]) w =
    walk tbl (N "RelativeLocationPath" [N "RelativeLocationPathWithStep"
      [N "RelativeLocationPath" [N "RelativeLocationPathWithStep" [r, tkp .slash, dosStep]], tkp .slash, .nt "Step" k]]) w := by
  have hd : dosStep.isNt = true := rfl
  rw [walk_rlp2 _ _ _ rfl rfl, walk_rlp2 _ _ _ hr hd]
  simp only [N, ofList_cons, ofList_nil]
  rw [walk_nohandler _ _ _ _ lk_RelativeLocationPath, walkFirst_nt, walk]
  simp only [lk_AbbreviatedRelativeLocationPath]
  rw [walkNth_cons_nt0 _ _ _ _ hr]
  simp only [walkNth_one _ _ _ _ hr, walkNth_tkp, walkNth_nt0]
  rw [bind_assoc]
  cases hw1 : walk tbl r w with
  | error e => rfl
  | ok w1 =>
    have ha := hframe w1 hw1
    show (nodesOf w1 >>= fun s => walk tbl (.nt "Step" k) (w1.set (.nodes (Model.axis w.c.a .descendantOrSelf s)))) =
      (walk tbl dosStep w1 >>= walk tbl (.nt "Step" k))
    rw [walk_dosStep, ← ha]
    cases hres : w1.res with
    | nodes s =>
      simp only [nodesOf, hres, bind, Except.bind]
      exact walk_Step_principal k _ _ _
    | num n => simp [nodesOf, hres, bind, Except.bind]
    | str n => simp [nodesOf, hres, bind, Except.bind]
    | bool n => simp [nodesOf, hres, bind, Except.bind]

/-- `//r` is `/descendant-or-self::node()/r` -/
theorem abbrev_dslash_absolute {r : PT} (h : Spine r) (w : WCtx) :
    walk tbl (N "AbsoluteLocationPath" [N "AbbreviatedAbsoluteLocationPath" [tkp .dslash, r]]) w =
    walk tbl (N "AbsoluteLocationPath" [N "AbsoluteLocationPathWithRelative" [tkp .slash, graft dosStep r]]) w := by
  have hr := isNt_spine h
  have hds : ∃ k, dosStep = .nt "Step" k := ⟨_, rfl⟩
  obtain ⟨k0, hk0⟩ := hds
  have hg : (graft dosStep r).isNt = true := by rw [hk0]; exact isNt_spine (spine_graft k0 h)
  simp only [N, ofList_cons, ofList_nil]
  rw [walk_nohandler _ _ _ _ lk_AbsoluteLocationPath, walkFirst_nt, walk_nohandler _ _ _ _ lk_AbsoluteLocationPath,
    walkFirst_nt, walk, walk]
  simp only [lk_AbbreviatedAbsoluteLocationPath, lk_AbsoluteLocationPathWithRelative, walkFirst_tkp,
    walkFirst_cons_nt _ _ _ _ hr, walkFirst_cons_nt _ _ _ _ hg]
  rw [hk0, walk_graft k0 h, ← hk0, walk_dosStep]
  show walk tbl r (w.set _) = walk tbl r _
  exact walk_spine_principal h _ _ _

/-- `F//r` is `F/descendant-or-self::node()/r` -/
theorem abbrev_dslash_filter (F : PT) {r : PT} (h : Spine r) (w : WCtx) (hF : F.isNt = true)
    (hframe : ∀ w1, walk tbl F w = .ok w1 → w1.c.a = w.c.a) :
    walk tbl (N "PathExpr" [N "PathExprFilterWithAbbreviatedPath" [F, tkp .dslash, r]]) w =
    walk tbl (pathNode (.filt F) (graft dosStep r)) w := by
  have hr := isNt_spine h
  have hds : ∃ k, dosStep = .nt "Step" k := ⟨_, rfl⟩
  obtain ⟨k0, hk0⟩ := hds
  have hg : (graft dosStep r).isNt = true := by rw [hk0]; exact isNt_spine (spine_graft k0 h)
  rw [walk_pathNode (.filt F) _ w hg hF]
  simp only [N, ofList_cons, ofList_nil]
  rw [walk_nohandler _ _ _ _ lk_PathExpr, walkFirst_nt, walk]
  simp only [lk_PathExprFilterWithAbbreviatedPath]
  rw [walkNth_cons_nt0 _ _ _ _ hF]
  simp only [walkNth_one _ _ _ _ hF, walkNth_tkp, walkNth_cons_nt0 _ _ _ _ hr]
  show (walk tbl F w >>= fun w1 => nodesOf w1 >>= fun s => walk tbl r (w1.set (.nodes (Model.axis w.c.a .descendantOrSelf s)))) =
    (walk tbl F w >>= walk tbl (graft dosStep r))
  cases hw1 : walk tbl F w with
  | error e => rfl
  | ok w1 =>
    have ha := hframe w1 hw1
    show (nodesOf w1 >>= fun s => walk tbl r (w1.set (.nodes (Model.axis w.c.a .descendantOrSelf s)))) =
      walk tbl (graft dosStep r) w1
    rw [hk0, walk_graft k0 h, ← hk0, walk_dosStep, ← ha]
    cases hres : w1.res with
    | nodes s =>
      simp only [nodesOf, hres, bind, Except.bind]
      exact walk_spine_principal h _ _ _
    | num n => simp [nodesOf, hres, bind, Except.bind]
    | str n => simp [nodesOf, hres, bind, Except.bind]
    | bool n => simp [nodesOf, hres, bind, Except.bind]

end Xsel.Walk
