/-
  Proofs/Lemmas/HtmlWalk.lean — the walker `pull`/`walk` on a laid-out subtree: single-pull lemmas,
  draining the attribute queue, and the big-step lemmas `walk_tree` / `walk_forest` (by mutual
  structural recursion on `HTree`/`HForest`).
-/
import Proofs.Lemmas.HtmlLayout

namespace Xsel
namespace Html

theorem getD_of_getElem? {dom : Array HNode} {i : Nat} {n : HNode} (h : dom[i]? = some n) :
    dom.getD i default = n := by
  simp [Array.getD_eq_getD_getElem?, h]

/-! ### single pulls -/

/-- the "advance after an emitted node" phase of `pull` -/
def adv (dom : Array HNode) (s : PState) : PState :=
  if s.nodeEmitted then
    match (dom.getD s.node default).firstChild, (dom.getD s.node default).nextSibling with
    | some c, _ => { s with nodeEmitted := false, node := c }
    | none, some x => { s with nodeEmitted := false, node := x }
    | none, none => { s with nodeEmitted := false, crawlToParent := true }
  else s

/-- with an empty attribute queue and no pending self-closing tag, `pull` only depends on the
    advanced state -/
theorem pull_adv (dom : Array HNode) (f : Nat) (s : PState) (ha : s.attrs = [])
    (hs : s.emitSelfClosingTag = false) : pull dom (f + 1) s = pull dom (f + 1) (adv dom s) := by
  obtain ⟨node, attrs, sc, ne, cp⟩ := s
  simp only at ha hs
  subst ha hs
  cases ne with
  | false => simp [adv]
  | true =>
    cases hfc : (dom.getD node default).firstChild with
    | some c =>
      have : adv dom ⟨node, [], false, true, cp⟩ = ⟨c, [], false, false, cp⟩ := by simp only [adv, if_true, hfc]
      rw [this, pull, pull]; simp only [hfc, if_true, Bool.false_eq_true, if_false]
    | none =>
      cases hns : (dom.getD node default).nextSibling with
      | some x =>
        have : adv dom ⟨node, [], false, true, cp⟩ = ⟨x, [], false, false, cp⟩ := by
          simp only [adv, if_true, hfc, hns]
        rw [this, pull, pull]; simp only [hfc, hns, if_true, Bool.false_eq_true, if_false]
      | none =>
        have : adv dom ⟨node, [], false, true, cp⟩ = ⟨node, [], false, false, true⟩ := by
          simp only [adv, if_true, hfc, hns]
        rw [this, pull, pull]; simp only [hfc, hns, if_true, Bool.false_eq_true, if_false]

theorem pull_attr (dom : Array HNode) (f node : Nat) (a : Ev) (r : List Ev) (sc ne cp : Bool) :
    pull dom (f + 1) ⟨node, a :: r, sc, ne, cp⟩ = (⟨node, r, sc, ne, cp⟩, .ev a) := by
  rw [pull]

theorem pull_selfClose (dom : Array HNode) (f node : Nat) (ne cp : Bool) :
    pull dom (f + 1) ⟨node, [], true, ne, cp⟩ = (⟨node, [], false, ne, cp⟩, .ev .close) := by
  rw [pull]; simp

theorem pull_element {dom : Array HNode} {i : Nat} {n : HNode} (f : Nat)
    (h : dom.getD i default = n) (hty : n.ty = .element) :
    pull dom (f + 1) ⟨i, [], false, false, false⟩
      = (⟨i, createAttrs n.attrs, n.firstChild.isNone, true, false⟩,
         .ev (.elem [] (localName n.data))) := by
  rw [pull]; simp [h, hty]

theorem pull_text {dom : Array HNode} {i : Nat} {n : HNode} (f : Nat)
    (h : dom.getD i default = n) (hty : n.ty = .text) :
    pull dom (f + 1) ⟨i, [], false, false, false⟩
      = (⟨i, [], false, true, false⟩, .ev (.text n.data)) := by
  rw [pull]; simp [h, hty]

theorem pull_comment {dom : Array HNode} {i : Nat} {n : HNode} (f : Nat)
    (h : dom.getD i default = n) (hty : n.ty = .comment) :
    pull dom (f + 1) ⟨i, [], false, false, false⟩
      = (⟨i, [], false, true, false⟩, .ev (.comment n.data)) := by
  rw [pull]; simp [h, hty]

/-- the state in which the walker leaves the subtree at `i`: at the next sibling, or crawling up -/
def exitState (i : Nat) : Option Nat → PState
  | some x => { node := x }
  | none => { node := i, crawlToParent := true }

/-- crawling from a last child `k` to its parent `p` emits the parent's end tag -/
theorem pull_crawl {dom : Array HNode} {k p : Nat} (f : Nat)
    (hk : (dom.getD k default).parent = some p) :
    pull dom (f + 1) ⟨k, [], false, false, true⟩
      = (exitState p (dom.getD p default).nextSibling, .ev .close) := by
  rw [pull]; simp only [Bool.false_eq_true, if_false, if_true, hk]
  cases hx : (dom.getD p default).nextSibling <;> simp [exitState]

/-- crawling from the root: end of input -/
theorem pull_crawl_root {dom : Array HNode} {k : Nat} (f : Nat)
    (hk : (dom.getD k default).parent = none) :
    pull dom (f + 1) ⟨k, [], false, false, true⟩ = (⟨k, [], false, false, false⟩, .eof) := by
  rw [pull]; simp only [Bool.false_eq_true, if_false, if_true, hk]

/-- after a leaf-like node (text, comment, element without children) the walker advances to
    `exitState` -/
theorem adv_leaf {dom : Array HNode} {i : Nat} {n : HNode} (h : dom.getD i default = n)
    (hfc : n.firstChild = none) :
    adv dom ⟨i, [], false, true, false⟩ = exitState i n.nextSibling := by
  simp only [adv, if_true, h, hfc]
  cases n.nextSibling <;> simp [exitState]

/-- after the start tag of an element with children the walker advances to the first child -/
theorem adv_firstChild {dom : Array HNode} {i c : Nat} {n : HNode} (h : dom.getD i default = n)
    (hfc : n.firstChild = some c) :
    adv dom ⟨i, [], false, true, false⟩ = { node := c } := by
  simp only [adv, if_true, h, hfc]

/-! ### `walk` -/

theorem walk_ev {dom : Array HNode} {s s' : PState} {e : Ev} (h : pull dom 4 s = (s', .ev e))
    (fuel : Nat) (acc : List Ev) : walk dom (fuel + 1) s acc = walk dom fuel s' (e :: acc) := by
  rw [walk, h]

theorem walk_eof {dom : Array HNode} {s s' : PState} (h : pull dom 4 s = (s', .eof))
    (fuel : Nat) (acc : List Ev) : walk dom (fuel + 1) s acc = some acc.reverse := by
  rw [walk, h]

theorem walk_adv (dom : Array HNode) (fuel : Nat) (s : PState) (acc : List Ev) (ha : s.attrs = [])
    (hs : s.emitSelfClosingTag = false) : walk dom fuel s acc = walk dom fuel (adv dom s) acc := by
  cases fuel with
  | zero => rw [walk, walk]
  | succ fuel => rw [walk, walk, pull_adv dom 3 s ha hs]

/-- draining the attribute queue -/
theorem walk_drain (dom : Array HNode) (node : Nat) (sc ne cp : Bool) :
    ∀ (l : List Ev) (fuel : Nat) (acc : List Ev),
      walk dom (fuel + l.length) ⟨node, l, sc, ne, cp⟩ acc
        = walk dom fuel ⟨node, [], sc, ne, cp⟩ (l.reverse ++ acc)
  | [], fuel, acc => by simp
  | a :: r, fuel, acc => by
    rw [List.length_cons, ← Nat.add_assoc, walk_ev (pull_attr dom 3 node a r sc ne cp),
      walk_drain dom node sc ne cp r]
    simp

/-! ### the number of pulls a subtree takes -/

mutual
def cost : HTree → Nat
  | .node .element _ attrs kids => 2 + (createAttrs attrs).length + fcost kids
  | .node _ _ _ _ => 1
def fcost : HForest → Nat
  | .nil => 0
  | .cons t ts => cost t + fcost ts
end

mutual
theorem cost_le (t : HTree) : cost t ≤ 2 * size t + tattrs t :=
  match t with
  | .node .element _ attrs kids => by
    have := createAttrs_length_le attrs
    have := fcost_le kids
    simp only [cost, size, tattrs]; omega
  | .node .text _ _ _ | .node .comment _ _ _ | .node .error _ _ _ | .node .document _ _ _
  | .node .doctype _ _ _ | .node .raw _ _ _ => by simp only [cost, size, tattrs]; omega
theorem fcost_le (f : HForest) : fcost f ≤ 2 * fsize f + fattrs f :=
  match f with
  | .nil => by simp [fcost]
  | .cons t ts => by
    have := cost_le t
    have := fcost_le ts
    simp only [fcost, fsize, fattrs]; omega
end

/-! ### the big-step lemmas -/

theorem hasKids_false : {f : HForest} → f.hasKids = false → f = .nil
  | .nil, _ => rfl

mutual
/-- from the root `i` of a laid-out well-typed subtree the walker emits `mirror t` in `cost t`
    pulls and leaves the subtree in `exitState i next` -/
theorem walk_tree (dom : Array HNode) (t : HTree) (i : Nat) (parent next : Option Nat)
    (hr : ReprT dom i parent next t) (hw : wtTree t = true) (fuel : Nat) (acc : List Ev) :
    walk dom (fuel + cost t) { node := i } acc
      = walk dom fuel (exitState i next) ((mirror t).reverse ++ acc) :=
  match t, hr, hw with
  | .node .element data attrs kids, hr, hw => by
    simp only [ReprT] at hr
    simp only [wtTree] at hw
    obtain ⟨hc, hk⟩ := hr
    have hc := getD_of_getElem? hc
    simp only [cost, mirror]
    cases hkids : kids.hasKids with
    | false =>
      have hnil := hasKids_false hkids
      subst hnil
      simp only [HForest.hasKids, Bool.false_eq_true, if_false] at hc
      have e1 : fuel + (2 + (createAttrs attrs).length + fcost .nil)
          = (fuel + 1 + (createAttrs attrs).length) + 1 := by simp [fcost]; omega
      have h1 : pull dom 4 ⟨i, [], false, false, false⟩
          = (⟨i, createAttrs attrs, true, true, false⟩, .ev (.elem [] (localName data))) :=
        pull_element 3 hc rfl
      have h2 : adv dom ⟨i, [], false, true, false⟩ = exitState i next := adv_leaf hc rfl
      rw [e1, walk_ev h1, walk_drain, walk_ev (pull_selfClose dom 3 i true false),
        walk_adv dom fuel _ _ rfl rfl, h2]
      simp [mirrorForest, attrs_agree]
    | true =>
      simp only [hkids, if_true] at hc
      have e1 : fuel + (2 + (createAttrs attrs).length + fcost kids)
          = (fuel + (fcost kids + 1) + (createAttrs attrs).length) + 1 := by omega
      have h1 : pull dom 4 ⟨i, [], false, false, false⟩
          = (⟨i, createAttrs attrs, false, true, false⟩, .ev (.elem [] (localName data))) :=
        pull_element 3 hc rfl
      have h2 : adv dom ⟨i, [], false, true, false⟩ = { node := i + 1 } := adv_firstChild hc rfl
      have h3 : (dom.getD i default).nextSibling = next := by rw [hc]
      rw [e1, walk_ev h1, walk_drain, walk_adv dom _ _ _ rfl rfl, h2,
        walk_forest dom kids (i + 1) i next hk hw hkids h3 fuel]
      simp [attrs_agree]
  | .node .text data attrs kids, hr, hw => by
    simp only [wtTree, Bool.not_eq_true'] at hw
    have hnil := hasKids_false hw
    subst hnil
    simp only [ReprT, HForest.hasKids, Bool.false_eq_true, if_false] at hr
    have hc := getD_of_getElem? hr.1
    simp only [cost, mirror]
    have h1 : pull dom 4 ⟨i, [], false, false, false⟩
        = (⟨i, [], false, true, false⟩, .ev (.text data)) := pull_text 3 hc rfl
    have h2 : adv dom ⟨i, [], false, true, false⟩ = exitState i next := adv_leaf hc rfl
    rw [walk_ev h1, walk_adv dom fuel _ _ rfl rfl, h2]
    simp
  | .node .comment data attrs kids, hr, hw => by
    simp only [wtTree, Bool.not_eq_true'] at hw
    have hnil := hasKids_false hw
    subst hnil
    simp only [ReprT, HForest.hasKids, Bool.false_eq_true, if_false] at hr
    have hc := getD_of_getElem? hr.1
    simp only [cost, mirror]
    have h1 : pull dom 4 ⟨i, [], false, false, false⟩
        = (⟨i, [], false, true, false⟩, .ev (.comment data)) := pull_comment 3 hc rfl
    have h2 : adv dom ⟨i, [], false, true, false⟩ = exitState i next := adv_leaf hc rfl
    rw [walk_ev h1, walk_adv dom fuel _ _ rfl rfl, h2]
    simp
  | .node .error _ _ _, _, hw | .node .document _ _ _, _, hw | .node .doctype _ _ _, _, hw
  | .node .raw _ _ _, _, hw => by simp [wtTree] at hw
/-- from the first node `i` of a laid-out non-empty well-typed forest below `p` the walker emits
    the forest, then the end tag of `p`, and leaves `p` in `exitState p pnext` -/
theorem walk_forest (dom : Array HNode) (f : HForest) (i p : Nat) (pnext : Option Nat)
    (hr : ReprF dom i (some p) f) (hw : wtForest f = true) (hne : f.hasKids = true)
    (hp : (dom.getD p default).nextSibling = pnext) (fuel : Nat) (acc : List Ev) :
    walk dom (fuel + (fcost f + 1)) { node := i } acc
      = walk dom fuel (exitState p pnext) (.close :: ((mirrorForest f).reverse ++ acc)) :=
  match f, hr, hw, hne with
  | .cons t ts, hr, hw, _ => by
    simp only [ReprF] at hr
    simp only [wtForest, Bool.and_eq_true] at hw
    simp only [fcost, mirrorForest]
    cases hts : ts.hasKids with
    | false =>
      have hnil := hasKids_false hts
      subst hnil
      simp only [HForest.hasKids, Bool.false_eq_true, if_false] at hr
      have hpar : (dom.getD i default).parent = some p := by
        cases t with
        | node ty data attrs kids =>
          simp only [ReprT] at hr
          rw [getD_of_getElem? hr.1.1]
      have e1 : fuel + (cost t + fcost .nil + 1) = (fuel + 1) + cost t := by simp [fcost]; omega
      rw [e1, walk_tree dom t i (some p) none hr.1 hw.1, exitState,
        walk_ev (pull_crawl 3 hpar), hp]
      simp [mirrorForest]
    | true =>
      simp only [hts, if_true] at hr
      have e1 : fuel + (cost t + fcost ts + 1) = (fuel + (fcost ts + 1)) + cost t := by omega
      rw [e1, walk_tree dom t i (some p) _ hr.1 hw.1, exitState,
        walk_forest dom ts (i + size t) p pnext hr.2 hw.2 hts hp fuel]
      simp
end

end Html
end Xsel
