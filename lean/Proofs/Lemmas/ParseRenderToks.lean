/-
  Proofs/Lemmas/ParseRenderToks.lean — the token-level readers (`number`, `mkVar`, `nodeTest`,
  `callStart`) read the canonical spellings of numbers, variables, node tests and function names back.
-/
import Proofs.Lemmas.ParseRenderBasics

namespace Xsel.Syntax

theorem gl_true (c : Cfg) : gl c true = true := by simp [gl]

/-- nothing that would continue a number, a name test or a name -/
def folPlain : Toks → Bool
  | [] => true
  | t :: _ => match t.tok with
    | .p .dot | .p .lparen | .p .colon | .digits _ => false
    | _ => true

theorem folPlain_of_fol {k : Nat} {rest : Toks} (h : fol k rest = true) : folPlain rest = true := by
  cases rest with
  | nil => rfl
  | cons t r =>
    obtain ⟨tok, g⟩ := t
    cases tok with
    | p x => cases x <;> first | rfl | simp [fol, folTok] at h
    | kw x => rfl
    | _ => first | rfl | simp [fol, folTok] at h

theorem folPlain_lbrack (g : Bool) (r : Toks) : folPlain (⟨.p .lbrack, g⟩ :: r) = true := rfl

theorem number_digits {c : Cfg} {d : Chars} {g : Bool} {rest : Toks} (hr : folPlain rest = true) :
    number c (⟨.digits d, g⟩ :: rest) = some (numOf d, rest) := by
  unfold number
  split
  · rename_i heq; cases heq; simp [folPlain] at hr
  · rename_i heq; cases heq; simp [folPlain] at hr
  · rename_i heq; cases heq; rfl
  · rename_i heq; cases heq
  · rename_i h1 h2 h3 h4; exact absurd rfl (h3 _ _ _)

theorem number_frac {c : Cfg} {d d2 : Chars} {g : Bool} {rest : Toks} :
    number c (⟨.digits d, g⟩ :: T (.p .dot) :: T (.digits d2) :: rest) = some (numOf (d ++ '.' :: d2), rest) := by
  simp [number, T, gl_true]

theorem numOf_of_rnd {s : Chars} {n : Num} (h : (parseUnsigned s).map Num.rnd = some n) : numOf s = .num n := by
  unfold numOf
  cases hp : parseUnsigned s with
  | none => rw [hp] at h; cases h
  | some q => rw [hp] at h; simp at h; simp [h]

theorem number_numToks {c : Cfg} {n : Num} {rest : Toks} (hn : numOk n = true) (hr : folPlain rest = true) :
    number c (numToks n ++ rest) = some (.num n, rest) := by
  unfold numOk at hn
  unfold numToks
  simp only at hn ⊢
  split at hn
  · rename_i hd
    try simp only [hd]
    simp only [Bool.and_eq_true, beq_iff_eq] at hn
    rw [← numOf_of_rnd hn.2]
    exact number_digits hr
  · rename_i ch fr hd
    try simp only [hd]
    simp only [Bool.and_eq_true, beq_iff_eq] at hn
    rw [← numOf_of_rnd hn.2]
    exact number_frac

/-! variables -/

theorem dropWhile_all {α} (p : α → Bool) : ∀ (l r : List α), l.all p = true → (l ++ r).dropWhile p = r.dropWhile p
  | [], _, _ => rfl
  | x :: l, r, h => by
    simp only [List.all_cons, Bool.and_eq_true] at h
    simp only [List.cons_append, List.dropWhile_cons, h.1, if_true]
    exact dropWhile_all p l r h.2

theorem takeWhile_all {α} (p : α → Bool) : ∀ (l r : List α), l.all p = true → (l ++ r).takeWhile p = l ++ r.takeWhile p
  | [], _, _ => rfl
  | x :: l, r, h => by
    simp only [List.all_cons, Bool.and_eq_true] at h
    simp only [List.cons_append, List.takeWhile_cons, h.1, if_true]
    rw [takeWhile_all p l r h.2]

theorem mkVar_varTok_none {nm : Chars} (h : noColon nm = true) : mkVar nm = .var none nm := by
  unfold mkVar
  have := dropWhile_all (· != ':') nm [] h
  simp only [List.append_nil, List.dropWhile_nil] at this
  rw [this]

theorem mkVar_varTok_some {p nm : Chars} (h : noColon p = true) : mkVar (p ++ ':' :: nm) = .var (some p) nm := by
  unfold mkVar
  have h1 : (p ++ ':' :: nm).dropWhile (· != ':') = ':' :: nm := by
    rw [dropWhile_all _ p _ h]; simp [List.dropWhile]
  have h2 : (p ++ ':' :: nm).takeWhile (· != ':') = p := by
    rw [takeWhile_all _ p _ h]; simp [List.takeWhile]
  rw [h1]; simp only [h2]

/-! node tests and function names -/

theorem nodeTest_any {c : Cfg} {g : Bool} {r : Toks} (hr : folPlain r = true) :
    nodeTest c (⟨.p .star, g⟩ :: r) = some (.any, r) := by
  cases r with
  | nil => simp [nodeTest]
  | cons t r =>
    obtain ⟨tok, g'⟩ := t
    cases tok with
    | p x => cases x <;> first | (simp [folPlain] at hr; done) | simp [nodeTest]
    | _ => simp [nodeTest]

theorem nodeTest_name {c : Cfg} {g : Bool} {l : Chars} {r : Toks} (hr : folPlain r = true) :
    nodeTest c (⟨.ncname l, g⟩ :: r) = some (.name l, r) := by
  cases r with
  | nil => simp [nodeTest, nameTok]
  | cons t r =>
    obtain ⟨tok, g'⟩ := t
    cases tok with
    | p x => cases x <;> first | (simp [folPlain] at hr; done) | simp [nodeTest, nameTok]
    | _ => simp [nodeTest, nameTok]

theorem nodeTest_testToks {c : Cfg} {t : NodeTest} {r : Toks} (hr : folPlain r = true) :
    nodeTest c (testToks t ++ r) = some (t, r) := by
  cases t with
  | any => exact nodeTest_any hr
  | name l => exact nodeTest_name hr
  | _ => simp [testToks, nodeTest, T, U, litTok, nameTok, gl_true]

theorem callStart_fnToks {c : Cfg} {p : Option Chars} {n : Chars} {r : Toks} :
    callStart c (fnToks p n ++ U (.p .lparen) :: r) = some (p, n, r) := by
  cases p with
  | none => simp [fnToks, callStart, fnTok, U]
  | some p => simp [fnToks, callStart, fnTok, T, U, gl_true]

end Xsel.Syntax
