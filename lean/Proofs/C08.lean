/-
  Proofs/C08.lean — property C08: every XPath 1.0 expression parses to the tree its grammar defines.

  PROVED here:
  * the part that can be read off the generated tables (re-checked on every run against /repo's
    source, see Proofs/Gen*.lean): the parser's productions and the evaluator's handler table are the
    ones the Lean evaluator (`Xsel.eval`, one case per handler) was written against, no production is
    evaluated with a sub-expression ignored, the two-child handlers are registered only where two
    children exist; the compiled grammar and XPath 1.0's generate the same token language up to the
    documented extensions (`xsel_language_exact`);
  * about the MODEL's own lexer and parser (`Xsel/Lex.lean`, `Xsel/Parse.lean`, which the driver runs
    on the same STRINGS as the library — tokens, accept/reject, tree and value are compared case by
    case): the parser accepts only sentences of the compiled grammar (`model_parser_in_grammar`);
    it reads the canonical spelling of every tree back as that tree, under xsel's syntax and under
    XPath's — so precedence, associativity, unary minus, filters, paths, calls and node tests are
    structured as the abstract syntax says (`parse_render_model`, `parse_render_spec`); every positive
    double has such a spelling (`doubles_spellable`); the lexer inverts spelling for any white space
    between tokens and for none wherever two tokens cannot merge — up to the three passes xsel applies
    to the token list (`lc.post`): XPath's reading of the operator names `or and div mod` as names
    where an operand is expected, of axis names and node types as (parts of) function names in front
    of `(`, and of `Digits '.'` as a Number (`lexer_inverts_spelling`, `lexer_any_whitespace`,
    `lexer_without_whitespace`, their `…_placed` forms, `tokeniser_without_whitespace`,
    `operator_name_rule`, `function_name_rule`, `trailing_dot_rule`, `lexer_passes`, `merging_pairs`);
    conversely the lexer ignores nothing: whenever the tokeniser accepts, the input is exactly white space
    runs and the spellings of the returned tokens interleaved, every token is one the lexer can produce
    and is not extended by the next character, the adjacency flags are exactly the empty runs — so the
    accepted inputs are precisely the padded spellings (`lexer_ignores_nothing`,
    `lexer_tokens_wellformed`, `lexer_accepts_exactly_spellings`); `lex` is the tokeniser followed by
    the passes and rejects the same inputs (`lexer_is_tokeniser_then_passes`); the passes respell and
    invent nothing and remove only `.` tokens (`lexer_passes_keep_spelling`);
    and end to end on STRINGS: the characters of the canonical spelling of every well-formed tree with
    ordinary names are lexed and parsed back to that tree, under xsel's syntax and under XPath's
    (`string_roundtrip_model`, `string_roundtrip_spec`; none of the three passes changes a canonical
    spelling: `canonical_spelling_operators_placed`, `canonical_spelling_keywords_and_dots_placed`),
    the two formulations of the rules (xsel: on the tokens; the specification: in the parser) read
    every canonical spelling alike (`model_and_spec_read_alike`), an element called `div` can be
    selected (`operator_names_are_names`), `self()` and `p:text()` are function calls while `text()`
    is the node test (`function_names_may_be_keywords`), and `1.` is the number 1 while `.5.` and
    `1.5.` are errors (`trailing_dot_is_a_number`);
    for NON-canonical spellings: optional white space does not matter — two padded spellings of the same
    tokens whose white-space runs are empty at the same places are tokenised, lexed and read alike by
    the model and by the specification (`whitespace_insensitive_tokens`, `whitespace_insensitive_lexer`,
    `whitespace_insensitive_model`, `whitespace_insensitive_spec`, `respacing_accepted_input`,
    `respacing_reads_alike`); the parser does not look beyond a `)` it does not consume
    (`parser_stops_at_closing_parenthesis`), so parentheses around a whole expression do not change
    the tree (`redundant_parentheses`); the fuel bound is never the reason for "no parse"
    (`parser_fuel_adequate`) and abbreviations read as their expansions (`abbreviations_are_expansions`);
    the ABBREVIATED spelling of every well-formed tree (`child::` omitted, `@`, `.`, `..`, `//` wherever XPath
    defines them) is read back as that tree, hence like the unabbreviated one
    (`abbreviated_spelling_roundtrip`, `abbreviated_equals_unabbreviated`).
  NOT proved: that gogll's generated DFA and GLL engine implement that lexer and parser (differential),
  and completeness of the model parser for non-canonical spellings (differential: flag `ast`).
-/
import Proofs.GenTables
import Proofs.C02
import Proofs.Lemmas.WalkTop
import Proofs.Lemmas.WalkValid3
import Proofs.Lemmas.WalkYield
import Proofs.Lemmas.WalkNames
import Proofs.Lemmas.WalkFrame
import Proofs.Lemmas.LowerDeriv
import Proofs.Lemmas.GramXPath
import Proofs.Lemmas.ParseGram
import Proofs.Lemmas.ParseRender
import Proofs.Lemmas.ParseRenderNum
import Proofs.Lemmas.LexRound
import Proofs.Lemmas.LexSound
import Proofs.Lemmas.ParseFuel
import Proofs.Lemmas.ParseAbbrev
import Proofs.Lemmas.ParseAbbrevDot
import Proofs.Lemmas.ParseRenderAbbr
import Proofs.Lemmas.ParseWs
import Proofs.Lemmas.SpellRender

namespace Xsel.C08
open Xsel

/-- every nonterminal the Lean evaluator has a case for is dispatched by the code to the handler
    that case models (and vice versa): the table is the expected one -/
theorem handler_table : Generated.handlers = Expect.handlers := Gen.handlers_agree

/-- the grammar compiled into the parser is the expected one -/
theorem grammar_table : Generated.productions = Expect.productions := Gen.productions_agree

/-- the operator productions are left-recursive (`E : E op T`), i.e. binary operators associate to
    the left, and each precedence level refers to the next tighter one -/
theorem left_associative_levels :
    (Expect.productions.contains ("OrExprOr", [(true, "OrExpr"), (false, "or"), (true, "AndExpr")])
     && Expect.productions.contains ("AndExprAnd", [(true, "AndExpr"), (false, "and"), (true, "EqualityExpr")])
     && Expect.productions.contains ("EqualityExprEqual", [(true, "EqualityExpr"), (false, "="), (true, "RelationalExpr")])
     && Expect.productions.contains ("RelationalExprLessThan", [(true, "RelationalExpr"), (false, "<"), (true, "AdditiveExpr")])
     && Expect.productions.contains ("AdditiveExprSubtract", [(true, "AdditiveExpr"), (false, "-"), (true, "MultiplicativeExpr")])
     && Expect.productions.contains ("MultiplicativeExprMod", [(true, "MultiplicativeExpr"), (false, "mod"), (true, "UnaryExpr")])
     && Expect.productions.contains ("UnaryExprNegate", [(false, "-"), (true, "UnaryExpr")])
     && Expect.productions.contains ("UnionExprUnion", [(true, "UnionExpr"), (false, "|"), (true, "PathExpr")])) = true := by
  decide +kernel

/-! ### The parser's grammar and the XPath 1.0 grammar generate the same token strings

  `Gram.G` is the production table compiled into the parser (`grammar_table` above), `Gram.Gspec`
  the grammar of the W3C Recommendation (§3, productions [1]–[39]) written over the same token
  alphabet (Proofs/Lemmas/GramXPath.lean), `Gram.GspecExt` the same plus the two documented
  extensions (function call as a location step, name test `*:local`).  `L G A` is the set of token
  strings derivable from the nonterminal `A`.  What is NOT covered: the lexer (how characters are cut
  into tokens) and gogll's GLL engine (that it accepts exactly the language of its grammar). -/

open Gram in
/-- the grammar of the parser really is the regenerated table -/
theorem parser_grammar : Gram.G = ⟨Generated.productions⟩ := by
  rw [Gen.productions_agree]; rfl

open Gram in
/-- **xsel_accepts_xpath** — every token string generated by the XPath 1.0 grammar (start symbol
    `Expr`) is generated by the parser's grammar (start symbol `OrExpr`).  Proved by simulation: every
    production of `Gspec` is matched by a derivation of the parser's grammar (`Gram.phiWitnesses`,
    checked by the kernel).  Left out of `Gspec`, each with a token string the parser provably
    rejects (`Gram.findings_witnesses`): `Number → Digits '.'`, the operator names as names, and
    function names that spell an axis name or contain a keyword token. -/
theorem xsel_accepts_xpath : ∀ w, w ∈ L Gspec "Expr" → w ∈ L G "OrExpr" :=
  Gram.xsel_accepts_xpath

open Gram in
/-- **xsel_accepts_only_xpath** — conversely, every token string generated by the parser's grammar
    is generated by XPath 1.0 plus the two documented extensions (`Gram.extensionProds`: a function
    call as a location step, the name test `*:local`) -/
theorem xsel_accepts_only_xpath : ∀ w, w ∈ L G "OrExpr" → w ∈ L GspecExt "Expr" :=
  Gram.xsel_accepts_only_xpath

open Gram in
/-- **xsel_language_exact** — the extensions are generated by the parser's grammar too, so its
    token language is exactly that of XPath 1.0 (`Gspec`) plus the two extensions -/
theorem xsel_language_exact : ∀ w, w ∈ L G "OrExpr" ↔ w ∈ L GspecExt "Expr" :=
  Gram.xsel_language_exact

open Gram in
/-- `//a[1]/@b | child::c * 2` — a derivation in the parser's grammar, checked step by step
    (it is `(… | …) * 2`: union binds tighter than `*`) -/
example : ["//", "ncname", "[", "digits", "]", "/", "@", "ncname", "|", "child", "::", "ncname", "*", "digits"]
    ∈ L G "OrExpr" :=
  mem_L_of_check [(0, 97), (0, 17), (0, 36), (0, 117), (0, 12), (0, 57), (0, 62), (0, 56), (0, 158),
    (0, 162), (0, 163), (0, 161), (0, 100), (0, 55), (0, 9), (0, 0), (1, 127), (1, 129), (1, 126),
    (1, 147), (1, 87), (1, 85), (1, 68), (2, 156), (2, 106), (3, 97), (3, 17), (3, 36), (3, 117),
    (3, 12), (3, 56), (3, 158), (3, 161), (3, 101), (3, 41), (3, 109), (3, 94), (6, 150), (6, 153),
    (6, 34), (6, 1), (7, 85), (7, 68), (9, 100), (9, 54), (9, 126), (9, 150), (9, 153), (9, 33),
    (9, 35), (9, 23), (11, 85), (11, 68), (13, 158), (13, 161), (13, 101), (13, 41), (13, 109),
    (13, 94)] (by decide +kernel)

open Gram in
/-- `count(child | @self) - -1.5 div .5` — keyword tokens as names, a function call, unary minus and
    the Number forms: derived in the XPath grammar, hence accepted by the parser's -/
example : ["ncname", "(", "child", "|", "@", "self", ")", "-", "-", "digits", ".", "digits", "div", ".", "digits"]
    ∈ L G "OrExpr" :=
  xsel_accepts_xpath _ (mem_L_of_check [(0, 38), (0, 57), (0, 59), (0, 61), (0, 64), (0, 71), (0, 69),
    (0, 72), (0, 76), (0, 49), (0, 52), (0, 55), (0, 43), (0, 45), (0, 83), (2, 46), (2, 48), (2, 38),
    (2, 57), (2, 59), (2, 61), (2, 64), (2, 69), (2, 72), (2, 76), (2, 50), (2, 49), (2, 51), (2, 0),
    (2, 5), (2, 8), (2, 13), (2, 37), (2, 27), (2, 88), (2, 93), (2, 99), (3, 10), (4, 51), (4, 0),
    (4, 5), (4, 8), (4, 13), (4, 36), (5, 27), (5, 88), (5, 93), (5, 108), (6, 10), (8, 74), (8, 72),
    (8, 77), (9, 76), (9, 49), (9, 52), (9, 55), (9, 42), (9, 81), (13, 76), (13, 49), (13, 52),
    (13, 55), (13, 42), (13, 82)] (by decide +kernel))

open Gram in
/-- `a/f() | *:text` — the two extensions: accepted by the parser's grammar -/
example : ["ncname", "/", "ncname", "(", ")", "|", "*", ":", "text"] ∈ L G "OrExpr" :=
  mem_L_of_check [(0, 97), (0, 17), (0, 36), (0, 117), (0, 12), (0, 56), (0, 158), (0, 162), (0, 163),
    (0, 161), (0, 100), (0, 54), (0, 127), (0, 129), (0, 126), (0, 148), (0, 85), (0, 68), (2, 152),
    (2, 44), (2, 113), (2, 115), (4, 49), (4, 51), (6, 100), (6, 54), (6, 126), (6, 148), (6, 80),
    (6, 65), (8, 144)] (by decide +kernel)

open Gram in
/-- `1.`, `and`, `child()` are XPath 1.0 expressions that the parser's grammar does not generate -/
example : ¬ ["digits", "."] ∈ L G "OrExpr" ∧ ¬ ["and"] ∈ L G "OrExpr" ∧ ¬ ["child", "(", ")"] ∈ L G "OrExpr" :=
  ⟨Gram.digits_dot_rejected, Gram.operator_name_rejected.1, Gram.axis_named_function_rejected⟩

/-! ## the model's lexer and parser (expression STRINGS) -/

open Xsel.Syntax

/-- **model_parser_in_grammar** — every token list that the model parser accepts under xsel's
    syntax (adjacency enforced or not) is a sentence of `Gram.G`, the production table regenerated
    from the Go parser on every run: the hand-written parser accepts nothing the compiled grammar
    does not derive. -/
theorem model_parser_in_grammar (ts : Toks)
    (h : (parseToks cfgModel ts).isSome ∨ (parseToks cfgModelLoose ts).isSome) :
    terms ts ∈ Gram.L Gram.G "OrExpr" :=
  parse_in_grammar_either ts h

/-- **parse_render_model** — under xsel's syntax the parser reads the canonical spelling of every
    well-formed tree back as that tree (`normCtx`: `.` is `self::node()`). -/
theorem parse_render_model (e : Expr) (h : wfE e = true) :
    parseToks cfgModel (renderTop e) = some (normCtx e) :=
  Xsel.Syntax.parse_render_model e h

/-- **parse_render_spec** — the same under XPath 1.0's syntax (operator names as names, any NCName as
    function name, `1.`): the two syntaxes structure every canonical spelling identically. -/
theorem parse_render_spec (e : Expr) (h : wfE e = true) :
    parseToks cfgSpec (renderTop e) = some (normCtx e) :=
  Xsel.Syntax.parse_render_spec e h

/-- the only restriction `wfE` puts on numbers is met by every positive double (and by +0) -/
theorem doubles_spellable (q : Rat) (hq : 0 < q) (h : Num.rnd q = .fin q) : numOk (.fin q) = true :=
  numOk_of_pos_double q hq h

/-- precedence and left associativity, on concrete trees: `((1 - 2) - (3 * 4)) or 5` is written
    without parentheses, `(1 or 2) and 3` and `1 - (2 - 3)` keep theirs -/
example :
    (renderTop (.bin .or (.bin .sub (.bin .sub (.num (.fin 1)) (.num (.fin 2))) (.bin .mul (.num (.fin 3)) (.num (.fin 4)))) (.num (.fin 5)))).map (·.tok)
      = [.digits ['1'], .p .minus, .digits ['2'], .p .minus, .digits ['3'], .p .star, .digits ['4'], .kw .or, .digits ['5']]
    ∧ (renderTop (.bin .and (.bin .or (.num (.fin 1)) (.num (.fin 2))) (.num (.fin 3)))).map (·.tok)
      = [.p .lparen, .digits ['1'], .kw .or, .digits ['2'], .p .rparen, .kw .and, .digits ['3']]
    ∧ (renderTop (.bin .sub (.num (.fin 1)) (.bin .sub (.num (.fin 2)) (.num (.fin 3))))).map (·.tok)
      = [.digits ['1'], .p .minus, .p .lparen, .digits ['2'], .p .minus, .digits ['3'], .p .rparen] := by
  have h1 : numToks (.fin 1) = [U (.digits ['1'])] := by decide +kernel
  have h2 : numToks (.fin 2) = [U (.digits ['2'])] := by decide +kernel
  have h3 : numToks (.fin 3) = [U (.digits ['3'])] := by decide +kernel
  have h4 : numToks (.fin 4) = [U (.digits ['4'])] := by decide +kernel
  have h5 : numToks (.fin 5) = [U (.digits ['5'])] := by decide +kernel
  refine ⟨?_, ?_, ?_⟩ <;> simp [renderTop, render, raw, wrap, level, opLevel, opTok, h1, h2, h3, h4, h5, U]

/-- … and such trees meet the hypothesis of `parse_render_*` -/
example : wfE (.bin .or (.bin .sub (.bin .sub (.num (.fin 1)) (.num (.fin 2))) (.bin .mul (.num (.fin 3)) (.num (.fin 4))))
    (.step (.step .root .descendantOrSelf .node .nil) .child (.qname ['p'] ['a']) (.cons (.call .ctx none ['l','a','s','t'] .nil) .nil))) = true := by
  decide +kernel

/-! The lexer is the tokeniser `lexRaw` (keywords are always keyword tokens) followed by `lc.post`, three
    passes over the token list, each behind a switch — all off for `lexSpec` (the specification's parser
    decides: `Cfg.opNames`, `Cfg.fnNames`, `Cfg.trailDot`), all on for `lexModel` (`grammar.newLexer`):
    * `lc.opRule`: `retagOps true` — XPath 1.0 §3.7: an `or and div mod` keyword where an operand is
      expected (at the start, after `@ :: : ( [ ,` or an operator) becomes the `ncname` token of the same
      text.  `opsPlaced true ts`: there is no such keyword in `ts`.
    * `lc.fnRule`: `retagFns false` — an axis-name or node-type keyword that is a function name (directly
      in front of `(`; a node type only as the local part after `:`) or the prefix of one (`k : name (`)
      becomes the `ncname` token of the same text.  `fnsPlaced false ts`: there is no such keyword.
    * `lc.dotRule`: `dropTrailDots false false` — XPath's Number `Digits '.'`: a `.` directly after
      integer-part digits and not directly before digits is dropped.  `dotsPlaced false false ts`: there is
      no such `.`. -/

/-- **lexer_inverts_spelling** — for well-formed tokens separated by single spaces -/
theorem lexer_inverts_spelling (lc : LexCfg) (ts : List Tok) (h : ∀ t ∈ ts, tokOk lc t = true) :
    lex lc (spellAll ts) = .ok (lc.post (ts.map (fun t => ⟨t, false⟩))) :=
  lex_spellAll lc ts h

/-- … exactly the tokens, when for every rule that is on no token stands where the rule applies -/
theorem lexer_inverts_spelling_placed (lc : LexCfg) (ts : List Tok) (h : ∀ t ∈ ts, tokOk lc t = true)
    (ho : lc.opRule = true → opsPlaced true (ts.map (fun t => (⟨t, false⟩ : LTok))) = true)
    (hf : lc.fnRule = true → fnsPlaced false (ts.map (fun t => (⟨t, false⟩ : LTok))) = true)
    (hd : lc.dotRule = true → dotsPlaced false false (ts.map (fun t => (⟨t, false⟩ : LTok))) = true) :
    lex lc (spellAll ts) = .ok (ts.map (fun t => ⟨t, false⟩)) :=
  lex_spellAll_placed lc ts h ho hf hd

/-- **lexer_any_whitespace** — any non-empty white-space runs between the tokens, and trailing white
    space, give the same tokens -/
theorem lexer_any_whitespace (lc : LexCfg) (items : List (Chars × Tok)) (trail : Chars)
    (h : ∀ it ∈ items, it.1 ≠ [] ∧ (∀ c ∈ it.1, isSpace lc c = true) ∧ tokOk lc it.2 = true)
    (htr : ∀ c ∈ trail, isSpace lc c = true) :
    lex lc (spellPadded items trail) = .ok (lc.post (items.map (fun it => ⟨it.2, false⟩))) :=
  lex_extra_space lc items trail h htr

theorem lexer_any_whitespace_placed (lc : LexCfg) (items : List (Chars × Tok)) (trail : Chars)
    (h : ∀ it ∈ items, it.1 ≠ [] ∧ (∀ c ∈ it.1, isSpace lc c = true) ∧ tokOk lc it.2 = true)
    (htr : ∀ c ∈ trail, isSpace lc c = true)
    (ho : lc.opRule = true → opsPlaced true (items.map (fun it => (⟨it.2, false⟩ : LTok))) = true)
    (hf : lc.fnRule = true → fnsPlaced false (items.map (fun it => (⟨it.2, false⟩ : LTok))) = true)
    (hd : lc.dotRule = true → dotsPlaced false false (items.map (fun it => (⟨it.2, false⟩ : LTok))) = true) :
    lex lc (spellPadded items trail) = .ok (items.map (fun it => ⟨it.2, false⟩)) :=
  lex_extra_space_placed lc items trail h htr ho hf hd

/-- **lexer_without_whitespace** — the space before a token may be left out wherever the two tokens
    cannot merge; the token is then marked as adjacent -/
theorem lexer_without_whitespace (lc : LexCfg) (items : List (Bool × Tok)) (h : glueAllOk lc items = true) :
    lex lc (spellGlue items) = .ok (lc.post (glueToks items)) :=
  lex_spellGlue lc items h

theorem lexer_without_whitespace_placed (lc : LexCfg) (items : List (Bool × Tok))
    (h : glueAllOk lc items = true) (ho : lc.opRule = true → opsPlaced true (glueToks items) = true)
    (hf : lc.fnRule = true → fnsPlaced false (glueToks items) = true)
    (hd : lc.dotRule = true → dotsPlaced false false (glueToks items) = true) :
    lex lc (spellGlue items) = .ok (glueToks items) :=
  lex_spellGlue_placed lc items h ho hf hd

/-- the tokeniser alone (the generated DFA) reads back exactly the tokens, for every `lc` -/
theorem tokeniser_without_whitespace (lc : LexCfg) (items : List (Bool × Tok)) (h : glueAllOk lc items = true) :
    lexRaw lc (spellGlue items) = .ok (glueToks items) :=
  lexRaw_spellGlue lc items h

/-- **operator_name_rule** — what `retagOps` (hence `lex lexModel` after `lexRaw`) does to a token list:
    length, adjacency flags and the text of every token are kept; a token that is not an `or and div
    mod` keyword stays; a token that changes was such a keyword and becomes the name it spells; and
    nothing at all changes iff no such keyword stands where an operand is expected.  For `lexSpec`
    the lexer is the tokeniser. -/
theorem operator_name_rule (exp : Bool) (ts : List LTok) :
    (retagOps exp ts).length = ts.length
    ∧ (retagOps exp ts).map (·.glued) = ts.map (·.glued)
    ∧ (retagOps exp ts).map (·.tok.spell) = ts.map (·.tok.spell)
    ∧ (∀ (i : Nat) (t : LTok), ts[i]? = some t → t.tok.isOpKw = false → (retagOps exp ts)[i]? = some t)
    ∧ (∀ (i : Nat) (t t' : LTok), ts[i]? = some t → (retagOps exp ts)[i]? = some t' → t' ≠ t →
        ∃ k : Kw, k.isOpName = true ∧ t.tok = .kw k ∧ t' = ⟨.ncname k.chars, t.glued⟩)
    ∧ (retagOps exp ts = ts ↔ opsPlaced exp ts = true) :=
  ⟨retagOps_length exp ts, retagOps_glued exp ts, retagOps_spell exp ts,
   fun i t hi h => retagOps_keeps exp ts i t hi h,
   fun i t t' hi hi' hne => retagOps_changes exp ts i t t' hi hi' hne,
   opsPlaced_of_retagOps_id exp ts, retagOps_id exp ts⟩

/-- **function_name_rule** — what `retagFns` (the second pass of `lex lexModel`) does to a token list:
    length, adjacency flags and the text of every token are kept; a token that is not an axis-name or
    node-type keyword stays; a token that changes was such a keyword and becomes the name it spells;
    and nothing at all changes iff no such keyword stands where a function name is read (`fnHere`:
    directly in front of `(` — a node type only after `:` — or as the prefix in `k : name (`). -/
theorem function_name_rule (pc : Bool) (ts : List LTok) :
    (retagFns pc ts).length = ts.length
    ∧ (retagFns pc ts).map (·.glued) = ts.map (·.glued)
    ∧ (retagFns pc ts).map (·.tok.spell) = ts.map (·.tok.spell)
    ∧ (∀ (i : Nat) (t : LTok), ts[i]? = some t → t.tok.isNameKw = false → (retagFns pc ts)[i]? = some t)
    ∧ (∀ (i : Nat) (t t' : LTok), ts[i]? = some t → (retagFns pc ts)[i]? = some t' → t' ≠ t →
        ∃ k : Kw, k.isOpName = false ∧ t.tok = .kw k ∧ t' = ⟨.ncname k.chars, t.glued⟩)
    ∧ (retagFns pc ts = ts ↔ fnsPlaced pc ts = true) :=
  ⟨retagFns_length pc ts, retagFns_glued pc ts, retagFns_spell pc ts,
   fun i t hi h => retagFns_keeps pc ts i t hi h,
   fun i t t' hi hi' hne => retagFns_changes pc ts i t t' hi hi' hne,
   fnsPlaced_of_retagFns_id pc ts, retagFns_id pc ts⟩

/-- **trailing_dot_rule** — what `dropTrailDots` (the third pass of `lex lexModel`) does: tokens are only
    dropped, never changed or reordered (the kept tokens are a sublist of the given ones); a token that
    is kept and not dropped stays in front (`dotHere`: a `.` that directly follows integer-part digits
    and is not directly followed by digits is dropped, and the walk goes on with the next token no
    longer adjacent); and nothing at all changes — equivalently, the length is kept — iff there is no
    such `.`.  A list in which no `.` directly follows its predecessor is never changed. -/
theorem trailing_dot_rule (pi pdot : Bool) (ts : List LTok) :
    ((dropTrailDots pi pdot ts).map (·.tok)).Sublist (ts.map (·.tok))
    ∧ (dropTrailDots pi pdot ts).length ≤ ts.length
    ∧ (∀ (t : LTok) (r : List LTok), ts = t :: r → dotHere pi t r = false →
        dropTrailDots pi pdot ts = t :: dropTrailDots (piNext pdot t) (t.tok == .p .dot) r)
    ∧ (∀ (t : LTok) (r : List LTok), ts = t :: r → dotHere pi t r = true →
        dropTrailDots pi pdot ts = dropTrailDots false false (unglueHead r))
    ∧ (dropTrailDots pi pdot ts = ts ↔ dotsPlaced pi pdot ts = true)
    ∧ ((dropTrailDots pi pdot ts).length = ts.length ↔ dotsPlaced pi pdot ts = true)
    ∧ ((∀ t ∈ ts, (t.tok == .p .dot && t.glued) = false) → dotsPlaced pi pdot ts = true) :=
  ⟨dropTrailDots_sublist pi pdot ts, dropTrailDots_length_le pi pdot ts,
   fun t r e h => by subst e; exact dropTrailDots_keep pi pdot t r h,
   fun t r e h => by subst e; exact dropTrailDots_drop pi pdot t r h,
   ⟨dotsPlaced_of_dropTrailDots_id pi pdot ts, dropTrailDots_id pi pdot ts⟩,
   dropTrailDots_length_eq_iff pi pdot ts,
   dotsPlaced_of_no_glued_dot pi pdot ts⟩

/-- the passes together: `lc.post` is the three passes in this order, it changes nothing when every
    rule that is on finds nothing to do, it only drops tokens and keeps the text of those it keeps -/
theorem lexer_passes (lc : LexCfg) (ts : List LTok) :
    lc.post ts = lc.dotPass (lc.fnPass (lc.opPass ts))
    ∧ ((lc.opRule = true → opsPlaced true ts = true) → (lc.fnRule = true → fnsPlaced false ts = true) →
        (lc.dotRule = true → dotsPlaced false false ts = true) → lc.post ts = ts)
    ∧ (lc.post ts).length ≤ ts.length
    ∧ ((lc.post ts).map (·.tok.spell)).Sublist (ts.map (·.tok.spell))
    ∧ lexModel.post ts = dropTrailDots false false (retagFns false (retagOps true ts))
    ∧ lexSpec.post ts = ts :=
  ⟨post_eq lc ts, post_id lc ts, post_length_le lc ts, post_sublist lc ts, post_lexModel ts, post_lexSpec ts⟩

theorem lexSpec_is_tokeniser (cs : Chars) : lex lexSpec cs = lexRaw lexSpec cs := by
  rw [lex_eq]; cases lexRaw lexSpec cs <;> rfl

/-- `child::a[@b='x']//c` written without any white space -/
example : lex lexModel "child::a[@b='x']//c".toList =
    .ok [⟨.kw (.axis .child), false⟩, ⟨.p .coloncolon, true⟩, ⟨.ncname ['a'], true⟩, ⟨.p .lbrack, true⟩,
         ⟨.p .at, true⟩, ⟨.ncname ['b'], true⟩, ⟨.p .eq, true⟩, ⟨.lit false ['x'], true⟩, ⟨.p .rbrack, true⟩,
         ⟨.p .dslash, true⟩, ⟨.ncname ['c'], true⟩] := by
  decide +kernel

/-! ### the converse: nothing in the input is ignored -/

/-- **lexer_ignores_nothing** — every character of an accepted input is white space between tokens or
    part of exactly one returned token, in order: the input is the white space runs `ws` (one before
    every token, possibly empty) and the spellings of the returned tokens interleaved, followed by
    trailing white space; the `glued` flags say exactly where there was no white space (the first token
    is never glued).  An input with anything else in it is not answered `.ok`. -/
theorem lexer_ignores_nothing (lc : LexCfg) (cs : Chars) (ts : List LTok) (h : lexRaw lc cs = .ok ts) :
    ∃ (ws : List Chars) (trail : Chars),
      ws.length = ts.length ∧
      (∀ w ∈ ws, ∀ c ∈ w, isSpace lc c = true) ∧ (∀ c ∈ trail, isSpace lc c = true) ∧
      cs = spellPadded (ws.zip (ts.map (·.tok))) trail ∧
      ts = padToks false (ws.zip (ts.map (·.tok))) :=
  lexRaw_sound lc cs ts h

/-- **lexer_tokens_wellformed** — every returned token is one the lexer can produce from its spelling
    (`tokOk`: names are names and not keywords, digits are digits, literals contain neither their quote
    nor a backslash, variable references are `$name` or `$name:name`) -/
theorem lexer_tokens_wellformed (lc : LexCfg) (cs : Chars) (ts : List LTok) (h : lexRaw lc cs = .ok ts) :
    ∀ t ∈ ts, tokOk lc t.tok = true :=
  lexRaw_tokOk lc cs ts h

/-- one token: it is spelled at the start of the input, the rest is handed on, it is well formed and
    maximal (the next character does not extend it) -/
theorem lexer_one_token (lc : LexCfg) (cs : Chars) (t : Tok) (rest : Chars) (h : lexOne lc cs = .tok t rest) :
    cs = t.spell ++ rest ∧ tokOk lc t = true ∧ headOk t rest.head? = true :=
  lexOne_sound lc cs t rest h

/-- with `lexer_any_whitespace` / `tokeniser_without_whitespace` (`lexRaw_spellPadded`): the tokeniser
    accepts exactly the padded spellings (`padOk`: white space runs, well-formed tokens, after every
    token a character that does not extend it) and answers the token list that was spelled -/
theorem lexer_accepts_exactly_spellings (lc : LexCfg) (cs : Chars) (ts : List LTok) :
    lexRaw lc cs = .ok ts ↔
      ∃ (items : List (Chars × Tok)) (trail : Chars),
        padOk lc items trail = true ∧ cs = spellPadded items trail ∧ ts = padToks false items :=
  lexRaw_iff lc cs ts

/-- the full lexer is the tokeniser followed by the passes: it accepts only what the tokeniser accepts
    and rejects exactly what the tokeniser rejects -/
theorem lexer_is_tokeniser_then_passes (lc : LexCfg) (cs : Chars) :
    (∀ ts', lex lc cs = .ok ts' → ∃ ts, lexRaw lc cs = .ok ts ∧ ts' = lc.post ts)
    ∧ (lex lc cs = .err ↔ lexRaw lc cs = .err)
    ∧ (lex lc cs = .unsup ↔ lexRaw lc cs = .unsup) :=
  ⟨fun ts' h => lex_sound lc cs ts' h, lex_err_iff lc cs, lex_unsup_iff lc cs⟩

/-- **lexer_passes_keep_spelling** — the passes respell nothing, invent nothing and reorder nothing (the
    spellings after `lc.post` are a sublist of the spellings before); what they remove are `.` tokens only
    (the spellings other than `.` are the same before and after — `trailing_dot_rule`: a `.` written
    directly after integer digits and not directly before digits, XPath's Number `Digits '.'`); and with
    the trailing-dot rule off every spelling is kept -/
theorem lexer_passes_keep_spelling (lc : LexCfg) (ts : List LTok) :
    ((lc.post ts).map (·.tok.spell)).Sublist (ts.map (·.tok.spell))
    ∧ ((lc.post ts).map (·.tok.spell)).filter (· != ['.']) = (ts.map (·.tok.spell)).filter (· != ['.'])
    ∧ ((lc.post ts).map (·.tok)).filter (· != .p .dot) =
        ((lc.fnPass (lc.opPass ts)).map (·.tok)).filter (· != .p .dot)
    ∧ (lc.dotRule = false → (lc.post ts).map (·.tok.spell) = ts.map (·.tok.spell)) :=
  ⟨(post_removed lc ts).1, (post_removed lc ts).2, post_keeps_nondots lc ts,
   fun hd => post_spell_of_dotRule_false hd ts⟩

/-- `child::a[@b='x']//c`: the decomposition, through the theorem -/
example : ∃ (ws : List Chars) (trail : Chars),
    ws.length = 11 ∧ (∀ w ∈ ws, ∀ c ∈ w, isSpace lexModel c = true) ∧ (∀ c ∈ trail, isSpace lexModel c = true) ∧
    "child::a[@b='x']//c".toList = spellPadded (ws.zip [.kw (.axis .child), .p .coloncolon, .ncname ['a'],
      .p .lbrack, .p .at, .ncname ['b'], .p .eq, .lit false ['x'], .p .rbrack, .p .dslash, .ncname ['c']]) trail :=
  have h : lexRaw lexModel "child::a[@b='x']//c".toList =
      .ok [⟨.kw (.axis .child), false⟩, ⟨.p .coloncolon, true⟩, ⟨.ncname ['a'], true⟩, ⟨.p .lbrack, true⟩,
           ⟨.p .at, true⟩, ⟨.ncname ['b'], true⟩, ⟨.p .eq, true⟩, ⟨.lit false ['x'], true⟩, ⟨.p .rbrack, true⟩,
           ⟨.p .dslash, true⟩, ⟨.ncname ['c'], true⟩] := by decide +kernel
  let ⟨ws, trail, h1, h2, h3, h4, _⟩ := lexer_ignores_nothing lexModel _ _ h
  ⟨ws, trail, h1, h2, h3, h4⟩
/-- … and exhibited: all runs empty, no trailing white space -/
example : "child::a[@b='x']//c".toList = spellPadded (List.zip [[], [], [], [], [], [], [], [], [], [], []]
      [.kw (.axis .child), .p .coloncolon, .ncname ['a'], .p .lbrack, .p .at, .ncname ['b'], .p .eq,
       .lit false ['x'], .p .rbrack, .p .dslash, .ncname ['c']]) [] := by decide
/-- a character that belongs to no token is an error, not skipped -/
example : lex lexModel "child::a ? b".toList = .err := by decide +kernel
example : lex lexModel "a[@b='x]".toList = .err := by decide +kernel

/-! ### end to end: tree → characters → tokens → tree

  `renderTop e` marks a token as adjacent to its predecessor exactly inside QName, `p:*`, `*:x`, a
  prefixed function name and Number; `spellToks` writes one space before every other token.
  `namesOk lc e`: element, attribute, function and prefix names are names of the lexer `lc` that are
  not keywords, variable names are names of the lexer, a literal (or processing-instruction target)
  does not contain both kinds of quote nor a backslash. -/

/-- in the canonical spelling every operator-name keyword is an operator and directly follows the
    last token of an operand — the operator-name rule changes nothing there -/
theorem canonical_spelling_operators_placed (e : Expr) :
    opsPlaced true (renderTop e) = true ∧ retagOps true (renderTop e) = renderTop e :=
  ⟨placed_renderTop e, retagOps_renderTop e⟩

/-- … every axis-name keyword is followed by `::` and every node-type keyword stands after `::` in front
    of `(` — the function-name rule changes nothing there — and every `.` that directly follows digits
    is directly followed by the fraction digits — no `.` is dropped; so none of the three passes changes
    the canonical spelling -/
theorem canonical_spelling_keywords_and_dots_placed (e : Expr) :
    fnsPlaced false (renderTop e) = true ∧ retagFns false (renderTop e) = renderTop e
    ∧ dotsPlaced false false (renderTop e) = true ∧ dropTrailDots false false (renderTop e) = renderTop e
    ∧ ∀ lc : LexCfg, lc.post (renderTop e) = renderTop e :=
  ⟨fnsPlaced_renderTop e, retagFns_renderTop e, dotsPlaced_renderTop e, dropTrailDots_renderTop e,
   fun lc => post_renderTop lc e⟩

/-- the lexer (with the operator-name, function-name and trailing-dot rules or without) reads the characters of the canonical spelling
    back as exactly the rendered tokens, adjacency flags included -/
theorem lexer_inverts_canonical_spelling (lc : LexCfg) (e : Expr) (h : wfE e = true)
    (hn : namesOk lc e = true) : lex lc (spellToks (renderTop e)) = .ok (renderTop e) :=
  lex_renderTop lc e h hn

/-- **string_roundtrip_model** — xsel's lexer and parser (`parseModel`: characters to tree) read the
    characters of the canonical spelling of every well-formed tree with ordinary names back as that
    tree (`normCtx`: `.` is `self::node()`). -/
theorem string_roundtrip_model (e : Expr) (h : wfE e = true) (hn : namesOk lexModel e = true) :
    parseModel (spellToks (renderTop e)) = .ok (normCtx e) :=
  parseModel_spelling e h hn

/-- **string_roundtrip_spec** — the same for XPath 1.0's lexical structure and syntax (`parseSpec`);
    names may start with `_` there. -/
theorem string_roundtrip_spec (e : Expr) (h : wfE e = true) (hn : namesOk lexSpec e = true) :
    parseSpec (spellToks (renderTop e)) = .ok (normCtx e) :=
  parseSpec_spelling e h hn

/-- **model_and_spec_read_alike** — the two formulations of XPath's rules for the operator names, the
    function names and `Digits '.'` (xsel: `retagOps`, `retagFns`, `dropTrailDots` on the token list
    after the lexer; the specification: `Cfg.opNames`, `Cfg.fnNames`, `Cfg.trailDot` in the parser, by
    grammar position) agree on every canonical spelling.  (`hs` follows from `hn`:
    `namesOk_model_spec`, see `model_and_spec_read_alike'`.) -/
theorem model_and_spec_read_alike (e : Expr) (h : wfE e = true) (hn : namesOk lexModel e = true)
    (hs : namesOk lexSpec e = true) :
    parseModel (spellToks (renderTop e)) = parseSpec (spellToks (renderTop e)) := by
  rw [string_roundtrip_model e h hn, string_roundtrip_spec e h hs]

theorem model_and_spec_read_alike' (e : Expr) (h : wfE e = true) (hn : namesOk lexModel e = true) :
    parseModel (spellToks (renderTop e)) = parseSpec (spellToks (renderTop e)) :=
  model_and_spec_read_alike e h hn (namesOk_model_spec e hn)

/-- **operator_names_are_names** — under xsel's syntax an element called `div` (`or`, `and`, `mod`)
    can be selected: where an operand is expected the word is a name, after an operand the operator;
    and XPath 1.0's syntax reads the same strings the same way -/
theorem operator_names_are_names :
    parseModel "//div".toList
      = .ok (.step (.step .root .descendantOrSelf .node .nil) .child (.name ['d','i','v']) .nil)
    ∧ parseModel "a div div".toList
      = .ok (.bin .div (.step .ctx .child (.name ['a']) .nil) (.step .ctx .child (.name ['d','i','v']) .nil))
    ∧ parseModel "div div div mod mod".toList
      = .ok (.bin .mod (.bin .div (.step .ctx .child (.name ['d','i','v']) .nil)
                (.step .ctx .child (.name ['d','i','v']) .nil)) (.step .ctx .child (.name ['m','o','d']) .nil))
    ∧ parseModel "or or and and or".toList
      = .ok (.bin .or (.step .ctx .child (.name ['o','r']) .nil)
              (.bin .and (.step .ctx .child (.name ['a','n','d']) .nil) (.step .ctx .child (.name ['o','r']) .nil)))
    ∧ parseSpec "//div".toList = parseModel "//div".toList
    ∧ parseSpec "a div div".toList = parseModel "a div div".toList
    ∧ parseSpec "div div div mod mod".toList = parseModel "div div div mod mod".toList
    ∧ parseSpec "or or and and or".toList = parseModel "or or and and or".toList := by
  -- the tokens of the four strings: after xsel's lexer (operator names retagged), after XPath's
  have h1 := parseModel_of (cs := "//div".toList)
    [⟨.p .dslash, false⟩, ⟨.ncname ['d','i','v'], true⟩] (by decide +kernel) rfl
  have h2 := parseModel_of (cs := "a div div".toList)
    [⟨.ncname ['a'], false⟩, ⟨.kw .div, false⟩, ⟨.ncname ['d','i','v'], false⟩] (by decide +kernel) rfl
  have h3 := parseModel_of (cs := "div div div mod mod".toList)
    [⟨.ncname ['d','i','v'], false⟩, ⟨.kw .div, false⟩, ⟨.ncname ['d','i','v'], false⟩, ⟨.kw .mod, false⟩,
     ⟨.ncname ['m','o','d'], false⟩] (by decide +kernel) rfl
  have h4 := parseModel_of (cs := "or or and and or".toList)
    [⟨.ncname ['o','r'], false⟩, ⟨.kw .or, false⟩, ⟨.ncname ['a','n','d'], false⟩, ⟨.kw .and, false⟩,
     ⟨.ncname ['o','r'], false⟩] (by decide +kernel) rfl
  have g1 := parseSpec_of (cs := "//div".toList) [⟨.p .dslash, false⟩, ⟨.kw .div, true⟩] (by decide +kernel) rfl
  have g2 := parseSpec_of (cs := "a div div".toList)
    [⟨.ncname ['a'], false⟩, ⟨.kw .div, false⟩, ⟨.kw .div, false⟩] (by decide +kernel) rfl
  have g3 := parseSpec_of (cs := "div div div mod mod".toList)
    [⟨.kw .div, false⟩, ⟨.kw .div, false⟩, ⟨.kw .div, false⟩, ⟨.kw .mod, false⟩, ⟨.kw .mod, false⟩]
    (by decide +kernel) rfl
  have g4 := parseSpec_of (cs := "or or and and or".toList)
    [⟨.kw .or, false⟩, ⟨.kw .or, false⟩, ⟨.kw .and, false⟩, ⟨.kw .and, false⟩, ⟨.kw .or, false⟩]
    (by decide +kernel) rfl
  exact ⟨h1, h2, h3, h4, g1.trans h1.symm, g2.trans h2.symm, g3.trans h3.symm, g4.trans h4.symm⟩

example : parseModel "//div".toList
    = .ok (.step (.step .root .descendantOrSelf .node .nil) .child (.name ['d','i','v']) .nil) :=
  operator_names_are_names.1

example : parseModel "a div div".toList
    = .ok (.bin .div (.step .ctx .child (.name ['a']) .nil) (.step .ctx .child (.name ['d','i','v']) .nil)) :=
  operator_names_are_names.2.1

/-- a misplaced operator name is still an error: two operands in a row, an operator at the end -/
example : parseModel "a div".toList = .err ∧ parseModel "a b div".toList = .err :=
  ⟨parseModel_err_of [⟨.ncname ['a'], false⟩, ⟨.kw .div, false⟩] (by decide +kernel) (by decide +kernel)
     (by decide +kernel) rfl,
   parseModel_err_of [⟨.ncname ['a'], false⟩, ⟨.ncname ['b'], false⟩, ⟨.kw .div, false⟩] (by decide +kernel)
     (by decide +kernel) (by decide +kernel) rfl⟩

/-- **function_names_may_be_keywords** — XPath: a name in front of `(` is a function name unless it is a
    node type.  xsel's generated lexer returns `self`, `text`, … as keyword tokens wherever they stand;
    `grammar.disambiguateFunctionNames` (`retagFns`) turns an axis-name or node-type keyword that is
    the whole name, the local part or the prefix of a function name back into a name.  So `self()` and
    `p:text()` are function calls, `text()` is still the node test — and XPath 1.0's syntax
    (`Cfg.fnNames`, in the parser) reads the three strings the same way. -/
theorem function_names_may_be_keywords :
    parseModel "self()".toList = .ok (.call .ctx none ['s','e','l','f'] .nil)
    ∧ parseModel "p:text()".toList = .ok (.call .ctx (some ['p']) ['t','e','x','t'] .nil)
    ∧ parseModel "text()".toList = .ok (.step .ctx .child .text .nil)
    ∧ parseSpec "self()".toList = .ok (.call .ctx none ['s','e','l','f'] .nil)
    ∧ parseSpec "p:text()".toList = .ok (.call .ctx (some ['p']) ['t','e','x','t'] .nil)
    ∧ parseSpec "text()".toList = .ok (.step .ctx .child .text .nil) :=
  ⟨parseModel_of [⟨.ncname ['s','e','l','f'], false⟩, ⟨.p .lparen, true⟩, ⟨.p .rparen, true⟩]
     (by decide +kernel) rfl,
   parseModel_of [⟨.ncname ['p'], false⟩, ⟨.p .colon, true⟩, ⟨.ncname ['t','e','x','t'], true⟩,
     ⟨.p .lparen, true⟩, ⟨.p .rparen, true⟩] (by decide +kernel) rfl,
   parseModel_of [⟨.kw .text, false⟩, ⟨.p .lparen, true⟩, ⟨.p .rparen, true⟩] (by decide +kernel) rfl,
   parseSpec_of [⟨.kw (.axis .self), false⟩, ⟨.p .lparen, true⟩, ⟨.p .rparen, true⟩] (by decide +kernel) rfl,
   parseSpec_of [⟨.ncname ['p'], false⟩, ⟨.p .colon, true⟩, ⟨.kw .text, true⟩,
     ⟨.p .lparen, true⟩, ⟨.p .rparen, true⟩] (by decide +kernel) rfl,
   parseSpec_of [⟨.kw .text, false⟩, ⟨.p .lparen, true⟩, ⟨.p .rparen, true⟩] (by decide +kernel) rfl⟩

/-- the tokens: xsel's lexer hands the parser names, XPath's lexer the keywords (its parser decides);
    a keyword as prefix (`child:f()`), and an axis name that is followed by `::` stays the axis -/
example : lex lexModel "self()".toList
      = .ok [⟨.ncname ['s','e','l','f'], false⟩, ⟨.p .lparen, true⟩, ⟨.p .rparen, true⟩]
    ∧ lex lexSpec "self()".toList = .ok [⟨.kw (.axis .self), false⟩, ⟨.p .lparen, true⟩, ⟨.p .rparen, true⟩]
    ∧ lex lexModel "child:f()".toList
      = .ok [⟨.ncname ['c','h','i','l','d'], false⟩, ⟨.p .colon, true⟩, ⟨.ncname ['f'], true⟩,
             ⟨.p .lparen, true⟩, ⟨.p .rparen, true⟩]
    ∧ lex lexModel "self::text()".toList
      = .ok [⟨.kw (.axis .self), false⟩, ⟨.p .coloncolon, true⟩, ⟨.kw .text, true⟩, ⟨.p .lparen, true⟩,
             ⟨.p .rparen, true⟩] := by
  decide +kernel

/-- **trailing_dot_is_a_number** — XPath's Number is `Digits ('.' Digits?)? | '.' Digits`: `1.` is the
    number 1.  The compiled grammar has no `Digits '.'`; `grammar.dropTrailingDots` (`dropTrailDots`)
    drops a `.` that directly follows integer-part digits and is not directly followed by digits.  The
    `.` after a fraction (`.5.`, `1.5.`) is not a trailing dot: those strings stay errors — and XPath
    1.0's syntax (`Cfg.trailDot`, in the parser) reads all four strings the same way. -/
theorem trailing_dot_is_a_number :
    parseModel "1.".toList = .ok (.num (.fin 1))
    ∧ parseModel "1. + .5".toList = .ok (.bin .add (.num (.fin 1)) (.num (.fin (1/2))))
    ∧ parseModel ".5.".toList = .err
    ∧ parseModel "1.5.".toList = .err
    ∧ parseSpec "1.".toList = .ok (.num (.fin 1))
    ∧ parseSpec "1. + .5".toList = .ok (.bin .add (.num (.fin 1)) (.num (.fin (1/2))))
    ∧ parseSpec ".5.".toList = .err
    ∧ parseSpec "1.5.".toList = .err := by
  have n1 : numOf ['1'] = .num (.fin 1) := numOf_of_rnd (by decide +kernel)
  have n5 : numOf ['.','5'] = .num (.fin (1/2)) := numOf_of_rnd (by decide +kernel)
  have m1 : parseModel "1.".toList = .ok (numOf ['1']) :=
    parseModel_of [⟨.digits ['1'], false⟩] (by decide +kernel) rfl
  have m2 : parseModel "1. + .5".toList = .ok (.bin .add (numOf ['1']) (numOf ['.','5'])) :=
    parseModel_of [⟨.digits ['1'], false⟩, ⟨.p .plus, false⟩, ⟨.p .dot, false⟩, ⟨.digits ['5'], true⟩]
      (by decide +kernel) rfl
  have s1 : parseSpec "1.".toList = .ok (numOf ['1']) :=
    parseSpec_of [⟨.digits ['1'], false⟩, ⟨.p .dot, true⟩] (by decide +kernel) rfl
  have s2 : parseSpec "1. + .5".toList = .ok (.bin .add (numOf ['1']) (numOf ['.','5'])) :=
    parseSpec_of [⟨.digits ['1'], false⟩, ⟨.p .dot, true⟩, ⟨.p .plus, false⟩, ⟨.p .dot, false⟩,
      ⟨.digits ['5'], true⟩] (by decide +kernel) rfl
  rw [n1] at m1 s1
  rw [n1, n5] at m2 s2
  exact ⟨m1, m2,
    parseModel_err_of [⟨.p .dot, false⟩, ⟨.digits ['5'], true⟩, ⟨.p .dot, true⟩] (by decide +kernel)
      (by decide +kernel) (by decide +kernel) rfl,
    parseModel_err_of [⟨.digits ['1'], false⟩, ⟨.p .dot, true⟩, ⟨.digits ['5'], true⟩, ⟨.p .dot, true⟩]
      (by decide +kernel) (by decide +kernel) (by decide +kernel) rfl,
    s1, s2,
    parseSpec_err_of [⟨.p .dot, false⟩, ⟨.digits ['5'], true⟩, ⟨.p .dot, true⟩] (by decide +kernel)
      (by decide +kernel),
    parseSpec_err_of [⟨.digits ['1'], false⟩, ⟨.p .dot, true⟩, ⟨.digits ['5'], true⟩, ⟨.p .dot, true⟩]
      (by decide +kernel) (by decide +kernel)⟩

/-- the tokens: the `.` of `1.` is gone after xsel's lexer and still there after XPath's; the `.` of `1 .`
    (white space) and of `1.5` stay; the token after a dropped `.` no longer counts as adjacent -/
example : lex lexModel "1.".toList = .ok [⟨.digits ['1'], false⟩]
    ∧ lex lexSpec "1.".toList = .ok [⟨.digits ['1'], false⟩, ⟨.p .dot, true⟩]
    ∧ lex lexModel "1 .".toList = .ok [⟨.digits ['1'], false⟩, ⟨.p .dot, false⟩]
    ∧ lex lexModel "1.5".toList = .ok [⟨.digits ['1'], false⟩, ⟨.p .dot, true⟩, ⟨.digits ['5'], true⟩]
    ∧ lex lexModel "1.+2".toList = .ok [⟨.digits ['1'], false⟩, ⟨.p .plus, false⟩, ⟨.digits ['2'], true⟩]
    ∧ lex lexModel "1.5.".toList
      = .ok [⟨.digits ['1'], false⟩, ⟨.p .dot, true⟩, ⟨.digits ['5'], true⟩, ⟨.p .dot, true⟩] := by
  decide +kernel

/-- `//p:a[last() < 2.5]/@b | "it's"`: a union, a path with a predicate, a prefixed name, a call, a
    number with a fraction, a literal that contains a quote -/
def sampleTree : Expr :=
  .bin .union
    (.step (.step (.step .root .descendantOrSelf .node .nil) .child (.qname ['p'] ['a'])
        (.cons (.bin (.cmp .lt) (.call .ctx none ['l','a','s','t'] .nil) (.num (.fin (5/2)))) .nil))
      .attribute (.name ['b']) .nil)
    (.lit ['i','t','\'','s'])

/-- the hypotheses of the round trip theorems hold for it (non-vacuity) … -/
example : wfE sampleTree = true ∧ namesOk lexModel sampleTree = true ∧ namesOk lexSpec sampleTree = true := by
  decide +kernel

/-- … its canonical spelling is this string … -/
theorem sampleTree_spelling : spellToks (renderTop sampleTree) =
    " / descendant-or-self :: node ( ) / child :: p:a [ last ( ) < 2.5 ] / attribute :: b | \"it's\"".toList := by
  have h1 : numToks (.fin (5/2)) = [U (.digits ['2']), T (.p .dot), T (.digits ['5'])] := by decide +kernel
  simp [sampleTree, spellToks, renderTop, render, raw, basePrefix, renderPreds, renderArgs, testToks, fnToks,
    wrap, level, opLevel, opTok, litTok, h1, T, U, Tok.spell, Punct.chars, Kw.chars, axisText]

/-- … and xsel reads that string back as the tree -/
example : parseModel " / descendant-or-self :: node ( ) / child :: p:a [ last ( ) < 2.5 ] / attribute :: b | \"it's\"".toList
    = .ok sampleTree := by
  rw [← sampleTree_spelling, string_roundtrip_model sampleTree (by decide +kernel) (by decide +kernel)]
  simp [sampleTree, normCtx, normBase, normCtxs]

/-- names that the hypothesis excludes: a keyword as element name (the canonical spelling writes it as
    an `ncname` token, the tokeniser reads a keyword token — which `lex lexModel` then turns into that
    `ncname` where an operand is expected, see `operator_names_are_names`; an axis or node-type name
    stays a keyword), a name starting with `_` under xsel's lexer -/
example : namesOk lexModel (.step .ctx .child (.name ['d','i','v']) .nil) = false
    ∧ namesOk lexModel (.step .ctx .child (.name ['_','a']) .nil) = false
    ∧ namesOk lexSpec (.step .ctx .child (.name ['_','a']) .nil) = true := by
  decide +kernel

/-! ## fuel and abbreviations -/

/-- **parser_fuel_adequate** — the fuel `parseToks` runs with (20 per token) suffices for EVERY token
    list: whatever any amount of fuel can read completely, `parseToks` reads, with the same tree.
    (So "no parse" is a verdict about the tokens, never an artefact of the bound.) -/
theorem parser_fuel_adequate (c : Cfg) (ts : Toks) (e : Expr) :
    parseToks c ts = some e ↔ ∃ f, pBin c f 0 ts = some (e, []) :=
  parseToks_iff c ts e

/-- **abbreviations_are_expansions** — XPath's abbreviations are DEFINED as their expansions
    (`@` = `attribute::`, `..` = `parent::node()`, `//` = `/descendant-or-self::node()/`, and a
    stand-alone `.` = `self::node()`): replacing every abbreviation of a token list that parses by
    its expansion gives a token list that parses to the SAME tree — under xsel's syntax, under XPath's,
    with or without enforced adjacency.  (A `.` next to a `digits` token belongs to a Number and
    stays.) -/
theorem abbreviations_are_expansions (c : Cfg) (ts : Toks) (e : Expr) (h : parseToks c ts = some e) :
    parseToks c (expand (expandDot ts)) = some e :=
  parse_expand_all c ts e h

/-- `@`, `..`, `//` alone -/
theorem abbreviations_are_expansions' (c : Cfg) (ts : Toks) (e : Expr) (h : parseToks c ts = some e) :
    parseToks c (expand ts) = some e :=
  parse_expand c ts e h

/-- `a//@b/..` expands to 17 tokens -/
example : (expand [⟨.ncname ['a'], false⟩, ⟨.p .dslash, true⟩, ⟨.p .at, true⟩, ⟨.ncname ['b'], true⟩,
    ⟨.p .slash, true⟩, ⟨.p .dotdot, true⟩]).length = 17 := by decide

/-! ## the abbreviated syntax, completely -/

/-- **abbreviated_spelling_roundtrip** — XPath's abbreviated syntax, written instead of read:
    `renderAbbrTop` (`Xsel/Render.lean`) spells a tree with every abbreviation XPath defines — `child::`
    omitted, `@` for `attribute::`, `.` for `self::node()`, `..` for `parent::node()`, `//` for
    `/descendant-or-self::node()/` (the last three for steps without predicates, as XPath defines them;
    a `descendant-or-self::node()` that is the first step of a relative path has no abbreviation),
    recursively inside predicates and arguments.  The parser reads that spelling back as the tree it
    came from, for EVERY well-formed tree and under every setting of the switches; no side condition on
    names is needed: an element name directly followed by `(` would be a function call, a leading
    `.` directly followed by digits a Number, but no spelling of a tree puts those tokens there. -/
theorem abbreviated_spelling_roundtrip (c : Cfg) (e : Expr) (h : wfE e = true) :
    parseToks c (renderAbbrTop e) = some (normCtx e) :=
  Xsel.Syntax.parse_renderAbbr c e h

/-- **abbreviated_equals_unabbreviated** — the abbreviated and the unabbreviated spelling of a
    well-formed tree are read alike -/
theorem abbreviated_equals_unabbreviated (c : Cfg) (e : Expr) (h : wfE e = true) :
    parseToks c (renderAbbrTop e) = parseToks c (renderTop e) :=
  Xsel.Syntax.abbreviated_equals_unabbreviated c e h

/-- the tree of `//a[@k = 1]/../b/text() | .`: all five abbreviations -/
def abbrTree : Expr :=
  .bin .union
    (.step (.step (.step (.step (.step .root .descendantOrSelf .node .nil) .child (.name ['a'])
        (.cons (.bin (.cmp .eq) (.step .ctx .attribute (.name ['k']) .nil) (.num (.fin 1))) .nil))
      .parent .node .nil) .child (.name ['b']) .nil) .child .text .nil)
    .ctx

example : wfE abbrTree = true := by decide +kernel

/-- its abbreviated spelling: 18 tokens … -/
theorem abbrTree_tokens : renderAbbrTop abbrTree =
    [U (.p .dslash), U (.ncname ['a']), U (.p .lbrack), U (.p .at), U (.ncname ['k']), U (.p .eq),
     U (.digits ['1']), U (.p .rbrack), U (.p .slash), U (.p .dotdot), U (.p .slash), U (.ncname ['b']),
     U (.p .slash), U (.kw .text), U (.p .lparen), U (.p .rparen), U (.p .pipe), U (.p .dot)] := by
  have h1 : numToks (.fin 1) = [U (.digits ['1'])] := by decide +kernel
  simp [abbrTree, renderAbbrTop, rawAbbr, basePrefixAbbr, prefixAbbr, predsAbbr, dosAbbr, dotAbbr, axisAbbr,
    testToks, wrap, level, opLevel, opTok, h1]

theorem abbrTree_spelling : spellToks (renderAbbrTop abbrTree) =
    " // a [ @ k = 1 ] / .. / b / text ( ) | .".toList := by
  rw [abbrTree_tokens]; decide +kernel

/-- … against 35 unabbreviated -/
example : spellToks (renderTop abbrTree) =
    (" / descendant-or-self :: node ( ) / child :: a [ attribute :: k = 1 ] / parent :: node ( )"
      ++ " / child :: b / child :: text ( ) | .").toList := by
  have h1 : numToks (.fin 1) = [U (.digits ['1'])] := by decide +kernel
  simp [abbrTree, spellToks, renderTop, render, raw, basePrefix, renderPreds, testToks,
    wrap, level, opLevel, opTok, h1, U, Tok.spell, Punct.chars, Kw.chars, axisText]

/-- xsel reads the abbreviated string as the tree (with `.` as `self::node()`) -/
example : parseModel " // a [ @ k = 1 ] / .. / b / text ( ) | .".toList = .ok (normCtx abbrTree) := by
  have hl : lex lexModel " // a [ @ k = 1 ] / .. / b / text ( ) | .".toList = .ok (renderAbbrTop abbrTree) := by
    rw [abbrTree_tokens]; decide +kernel
  unfold parseModel
  rw [hl]
  simp only [abbreviated_spelling_roundtrip cfgModel abbrTree (by decide +kernel)]

/-- … and so do xsel's and XPath's reading of the string as one writes it, without the canonical
    spaces (`Expr.same`: structural equality, evaluated) -/
example : (match parseModel "//a[@k = 1]/../b/text() | .".toList, parseSpec "//a[@k = 1]/../b/text() | .".toList with
    | .ok e, .ok e' => Expr.same e (normCtx abbrTree) && Expr.same e' (normCtx abbrTree)
    | _, _ => false) = true := by
  decide +kernel

/-! ## what does not matter: optional white space, redundant parentheses -/

/-- **whitespace_insensitive_tokens** — optional white space does not matter to the tokeniser: two
    padded spellings (`spellPadded`: a white-space run before every token, one at the end) of the same
    tokens whose runs are empty at the same places (`samePattern`) are tokenised alike.  (`padOk`:
    the runs are white space, the tokens are ones the lexer produces, and where a run is empty the
    next character does not extend the token — exactly the inputs the tokeniser accepts,
    `lexer_accepts_exactly_spellings`.) -/
theorem whitespace_insensitive_tokens (lc : LexCfg) (a b : List (Chars × Tok)) (ta tb : Chars)
    (ha : padOk lc a ta = true) (hb : padOk lc b tb = true) (h : samePattern a b) :
    lexRaw lc (spellPadded a ta) = lexRaw lc (spellPadded b tb) :=
  lexRaw_ws_insensitive lc a b ta tb ha hb h

/-- … nor to the lexer with its passes -/
theorem whitespace_insensitive_lexer (lc : LexCfg) (a b : List (Chars × Tok)) (ta tb : Chars)
    (ha : padOk lc a ta = true) (hb : padOk lc b tb = true) (h : samePattern a b) :
    lex lc (spellPadded a ta) = lex lc (spellPadded b tb) :=
  lex_ws_insensitive lc a b ta tb ha hb h

/-- **whitespace_insensitive_model** — … nor to xsel's reading of the string: same verdict (`ok` /
    `err` / `unsup`) and same tree -/
theorem whitespace_insensitive_model (a b : List (Chars × Tok)) (ta tb : Chars)
    (ha : padOk lexModel a ta = true) (hb : padOk lexModel b tb = true) (h : samePattern a b) :
    parseModel (spellPadded a ta) = parseModel (spellPadded b tb) :=
  parse_ws_insensitive a b ta tb ha hb h

/-- **whitespace_insensitive_spec** — … nor to XPath's -/
theorem whitespace_insensitive_spec (a b : List (Chars × Tok)) (ta tb : Chars)
    (ha : padOk lexSpec a ta = true) (hb : padOk lexSpec b tb = true) (h : samePattern a b) :
    parseSpec (spellPadded a ta) = parseSpec (spellPadded b tb) :=
  parseSpec_ws_insensitive a b ta tb ha hb h

/-- **respacing_accepted_input** — the input-level form.  Whenever the tokeniser accepts `cs`, `cs` is a
    padded spelling `a`, `ta` (`lexer_ignores_nothing`), and every other padded spelling `b`, `tb` of the
    same tokens with the same pattern of empty runs — `cs` with its white-space runs replaced by other
    white-space runs, empty ones by empty ones — is tokenised to the same tokens and lexed alike. -/
theorem respacing_accepted_input (lc : LexCfg) (cs : Chars) (ts : List LTok) (h : lexRaw lc cs = .ok ts) :
    ∃ (a : List (Chars × Tok)) (ta : Chars), cs = spellPadded a ta ∧ padOk lc a ta = true ∧
      ∀ (b : List (Chars × Tok)) (tb : Chars), padOk lc b tb = true → samePattern a b →
        lexRaw lc (spellPadded b tb) = .ok ts ∧ lex lc (spellPadded b tb) = lex lc cs :=
  lex_ws_respaced_of_ok lc cs ts h

/-- … as a relation between strings (`Respaced lc cs cs'`: both are padded spellings of the same
    tokens with the same pattern of empty runs): the lexer, the model and the specification answer
    alike on `cs` and `cs'` -/
theorem respacing_reads_alike (cs cs' : Chars) :
    (∀ lc, Respaced lc cs cs' → lex lc cs' = lex lc cs)
    ∧ (Respaced lexModel cs cs' → parseModel cs' = parseModel cs)
    ∧ (Respaced lexSpec cs cs' → parseSpec cs' = parseSpec cs) :=
  ⟨fun lc h => lex_ws_respaced lc cs cs' h, parse_ws_respaced cs cs', parseSpec_ws_respaced cs cs'⟩

/-- `a / b` and `a/b`… are NOT covered by one pattern (a run is empty in one and not in the other): there
    the `glued` flags differ, and the parser looks at them inside QNames and Numbers only (`gl`).  What
    the pattern covers: -/
example : samePattern [([], .ncname ['a']), ([' '], .p .slash), (['\t', ' '], .ncname ['b'])]
    [([], .ncname ['a']), (['\n'], .p .slash), ([' '], .ncname ['b'])] := ⟨rfl, rfl⟩

/-- **parser_stops_at_closing_parenthesis** — a successful run of the expression parser is not
    disturbed by what follows a `)` it does not consume: appending any token list `s` that starts with
    `)` (`Closer s`) leaves the tree and the consumed tokens unchanged.  (False for other
    continuations: `a` followed by `(` becomes a call.)  The same holds for all twelve parser functions
    (`Xsel.Syntax.closerExt`). -/
theorem parser_stops_at_closing_parenthesis (c : Cfg) (f lvl : Nat) (ts r s : Toks) (e : Expr)
    (hs : Closer s) (h : pBin c f lvl ts = some (e, r)) : pBin c f lvl (ts ++ s) = some (e, r ++ s) :=
  pBin_closer hs h

/-- **redundant_parentheses** — parentheses around a whole expression do not change the tree: if `ts`
    parses to `e`, so does `( ts )` — under xsel's syntax, under XPath's, with or without enforced
    adjacency, whatever the adjacency flags of the two new tokens.  (The converse is false:
    `( a ) | ( b )` parses, `a ) | ( b` does not.) -/
theorem redundant_parentheses (c : Cfg) (ts : Toks) (e : Expr) (g1 g2 : Bool)
    (h : parseToks c ts = some e) :
    parseToks c (⟨.p .lparen, g1⟩ :: ts ++ [⟨.p .rparen, g2⟩]) = some e :=
  parse_parens c ts e g1 g2 h

/-- `((a))` reads like `a` -/
example (c : Cfg) (e : Expr) (h : parseToks c [⟨.ncname ['a'], false⟩] = some e) :
    parseToks c [⟨.p .lparen, false⟩, ⟨.p .lparen, true⟩, ⟨.ncname ['a'], false⟩,
      ⟨.p .rparen, true⟩, ⟨.p .rparen, true⟩] = some e :=
  redundant_parentheses c _ e false true (redundant_parentheses c _ e true true h)

/-! ## from the characters of an expression to its value -/

/-- **text_refines_spec** — the whole chain on one page.  Take any well-formed tree `e` with ordinary
    names and write its canonical spelling as a STRING.  xsel's lexer and parser (`parseModel`) and
    XPath 1.0's (`parseSpec`) read that string as the same tree `t` (= `normCtx e`), and evaluating
    `t` the way the Go code does (`Model.run`) gives what the XPath 1.0 specification gives
    (`Spec.runKF`: the specification with the one recorded deviation of `round`), up to the listing
    order of a node-set — on every tree that satisfies the Cursor contract, from every start node, with
    every environment whose node-set variables are in document order; `sumSafe` is the decidable side
    condition on `sum()`/`lang()` explained in `C02`. -/
theorem text_refines_spec (a : Arena) (h : wfb a = true) (env : Env) (henv : EnvOk a env)
    (e : Expr) (hwf : wfE e = true) (hn : namesOk lexModel e = true)
    (start : Nat) (hs : start < a.size) (hsum : sumSafe true (normCtx e) = true) :
    ∃ t : Expr,
      parseModel (spellToks (renderTop e)) = .ok t ∧
      parseSpec (spellToks (renderTop e)) = .ok t ∧
      Res.Equiv (Model.run a env start t) (Spec.runKF a env start t) :=
  ⟨normCtx e, string_roundtrip_model e hwf hn,
    string_roundtrip_spec e hwf (namesOk_model_spec e hn),
    Xsel.C02.run_refines_spec' a h env henv (normCtx e) start hs hsum⟩

/-- the side conditions of `text_refines_spec` hold for the sample tree `//p:a[last() < 2.5]/@b | "it's"` -/
example : wfE sampleTree = true ∧ namesOk lexModel sampleTree = true ∧ sumSafe true (normCtx sampleTree) = true := by
  refine ⟨by decide +kernel, by decide +kernel, ?_⟩
  simp [sampleTree, normCtx, normBase, normCtxs, sumSafe, sumSafeL, ascending, sumArgAsc, Axis.isReverse]

/-! ## the parse forest: what the Go evaluator actually walks

The Go evaluator has no abstract syntax tree.  It walks the BSR forest of the generated GLL parser:
`execContext` dispatches on the NAME of a node's nonterminal through the table `exec.contextFunctions`, a
nonterminal without a handler evaluates only its first nonterminal child, and handlers pick children by
position.  `Xsel/Walk.lean` transcribes that layer (handler table as a parameter; every partial
operation an explicit `panic`), `Xsel/Deriv.lean` gives the derivation tree of the canonical spelling of
an expression.  The theorems below close the gap between "the string" and "the tree the evaluator is
specified on": the tree is a derivation of the REGENERATED grammar, its leaves are the tokens of the
spelling, and walking it with the REGENERATED handler table computes the value of the abstract syntax.
On every run the driver also walks the forest the real parser built for every generated string and
compares (i) the result with `Exec`'s and (ii) the forest with `derivTop` of the model's parse. -/

open Xsel.Walk in
/-- **forest_is_derivation** — every node of the derivation tree of every expression is an instance of a
    production of the table regenerated from the parser's slot tables -/
theorem forest_is_derivation (e : Expr) : (derivTop e).valid Generated.productions = true :=
  derivTop_valid e

open Xsel.Walk in
/-- **forest_yield_is_spelling** — its leaves, left to right, are the tokens of the canonical spelling -/
theorem forest_yield_is_spelling (e : Expr) : (derivTop e).yield = (renderTop e).map (·.tok) :=
  derivTop_yield e

open Xsel.Walk in
/-- **forest_walk_refines_eval** — walking that tree the way `exec.execContext` does, with the handler table
    regenerated from exec/contextfn*.go, returns exactly the value (or the error) of the evaluator on
    abstract syntax: precedence, associativity, paths after filter expressions, predicates, function calls as
    steps and all node tests are evaluated as the grammar structures them, no sub-expression is dropped, and
    no handler indexes a child that is not there.  `walkOk`: numbers have a canonical spelling, names of
    variables and functions contain no colon. -/
theorem forest_walk_refines_eval (a : Arena) (env : Env) (start : Nat) (e : Expr) (h : walkOk e = true) :
    Walk.run Generated.handlers a env start (derivTop e) = ofEval (Model.run a env start (normCtx e)) :=
  walk_refines_eval a env start e h

open Xsel.Walk in
/-- **forest_refines_spec** — string → forest → value: the forest of the canonical spelling of `e`, walked as
    the Go code walks it, gives what the XPath 1.0 specification gives for `e` (up to the listing order of a
    node-set, with the recorded `round` deviation), on every tree that satisfies the Cursor contract -/
theorem forest_refines_spec (a : Arena) (h : wfb a = true) (env : Env) (henv : EnvOk a env)
    (e : Expr) (hw : walkOk e = true) (start : Nat) (hs : start < a.size) (hsum : sumSafe true (normCtx e) = true) :
    ∃ r, Walk.run Generated.handlers a env start (derivTop e) = ofEval r ∧
      Res.Equiv r (Spec.runKF a env start (normCtx e)) :=
  ⟨_, walk_refines_eval a env start e hw, Xsel.C02.run_refines_spec' a h env henv (normCtx e) start hs hsum⟩

/-! ## the grammar's one ambiguity, and abbreviated forms, in the forest -/

open Xsel.Walk in
/-- **alternatives_agree** — `f(args)/steps` has two derivations in the parser's grammar (the call as a filter
    expression, the call as the first step of a relative path: the documented extension); the GLL parser
    returns both and the handlers take the first of a list whose order comes from a Go map.  Both trees have
    the same leaves and the handler walk evaluates them to the same outcome in every context, so that order
    cannot change a result (also the content of C13's "BuildExpr of the same string always yields an
    equivalent query"). -/
theorem alternatives_agree (e : Expr) (hp : isPathLike e = true) (p : Option Chars) (n : Chars) (as : Exprs)
    (hhead : (dRel e).1 = .filt (N "FilterExpr" [N "PrimaryExpr" [dCall p n as]]))
    (hq : qnOk p n = true) (hall : walkOks as = true) (w : WCtx) :
    (altPath p n as e).yield = (dNat e).yield ∧
    (walk Expect.handlers (dNat e) w).map WCtx.res = (walk Expect.handlers (altPath p n as e) w).map WCtx.res :=
  Walk.alternatives_agree e hp p n as hhead hq hall w

open Xsel.Walk in
/-- **abbreviations_in_the_forest** — the nodes of the ABBREVIATED productions are evaluated exactly as the
    nodes of their expansions: `@t` as `attribute::t`, a step without axis as `child::t`, `..` as
    `parent::node()`, `r//S` as `r/descendant-or-self::node()/S`, `//r` and `F//r` likewise (`.` as
    `self::node()` is part of `forest_walk_refines_eval`).  `Spine r`: `r` is a left-nested list of steps. -/
theorem abbreviations_in_the_forest :
    (∀ (t : NodeTest) (w : WCtx),
      walk Expect.handlers (N "StepWithAxisAndNodeTest" [N "AxisSpecifier" [N "AbbreviatedAxisSpecifier" [tkp .at]], testNode t]) w =
      walk Expect.handlers (N "StepWithAxisAndNodeTest" [axisNode .attribute, testNode t]) w) ∧
    (∀ (t : NodeTest) (w : WCtx),
      walk Expect.handlers (N "Step" [testNode t]) w = walk Expect.handlers (dStep .child t .nil) w) ∧
    (∀ w : WCtx,
      walk Expect.handlers (N "Step" [N "AbbreviatedStep" [N "AbbreviatedStepParent" [tkp .dotdot]]]) w =
      walk Expect.handlers (dStep .parent .node .nil) w) ∧
    (∀ (r : PT), Spine r → ∀ w : WCtx,
      walk Expect.handlers (N "AbsoluteLocationPath" [N "AbbreviatedAbsoluteLocationPath" [tkp .dslash, r]]) w =
      walk Expect.handlers (N "AbsoluteLocationPath" [N "AbsoluteLocationPathWithRelative" [tkp .slash, graft dosStep r]]) w) :=
  ⟨abbrev_at, abbrev_child, abbrev_dotdot, fun _ h w => abbrev_dslash_absolute h w⟩

open Xsel.Walk in
/-- `r//S` and `F//r`, for ANY trees `r` and `F` (that their walk leaves the document alone is `Walk.walk_frame`) -/
theorem dslash_in_the_forest (r F : PT) (k : PTs) (w : WCtx) (hr : r.isNt = true) (hF : F.isNt = true) :
    walk Expect.handlers (N "RelativeLocationPath" [N "AbbreviatedRelativeLocationPath" [r, tkp .dslash, .nt "Step" k]]) w =
      walk Expect.handlers (N "RelativeLocationPath" [N "RelativeLocationPathWithStep"
        [N "RelativeLocationPath" [N "RelativeLocationPathWithStep" [r, tkp .slash, dosStep]], tkp .slash, .nt "Step" k]]) w ∧
    (∀ r', Spine r' →
      walk Expect.handlers (N "PathExpr" [N "PathExprFilterWithAbbreviatedPath" [F, tkp .dslash, r']]) w =
      walk Expect.handlers (pathNode (.filt F) (graft dosStep r')) w) :=
  ⟨abbrev_dslash_relative r k w hr (fun w1 h => (walk_frame _ r w w1 h).1),
   fun _ h => abbrev_dslash_filter F h w hF (fun w1 h' => (walk_frame _ F w w1 h').1)⟩

open Xsel.Walk in
/-- **reserved_names_in_the_forest** — a name that SPELLS A KEYWORD (`child`, `text`, `self`, …) is a keyword
    token of the generated lexer, derived through the `…ReservedNameConflict…` productions and evaluated by six
    handlers of their own, which read the name with `GetStringExtents`.  Each of these nodes is evaluated exactly
    as the ordinary name-test node with the keyword's spelling as name: the property's "names that spell an axis,
    node type or operator", at the level of the forest.  With `forest_walk_refines_eval` and
    `abbreviations_in_the_forest` every entry of the handler table is covered by a theorem. -/
theorem reserved_names_in_the_forest (k k2 : Kw) (p l : Chars) (w : WCtx) :
    walk Expect.handlers (N "NodeTest" [N "NameTestQNameLocalOnlyReservedNameConflict" [rncNode k]]) w =
      walk Expect.handlers (testNode (.name k.chars)) w ∧
    walk Expect.handlers (N "NodeTest" [N "NameTestQNameNamespaceWithLocalReservedNameConflictLocal" [.tk (.ncname p), tkp .colon, rncNode k]]) w =
      walk Expect.handlers (testNode (.qname p k.chars)) w ∧
    walk Expect.handlers (N "NodeTest" [N "NameTestQNameNamespaceWithLocalReservedNameConflictNamespace" [rncNode k, tkp .colon, .tk (.ncname l)]]) w =
      walk Expect.handlers (testNode (.qname k.chars l)) w ∧
    walk Expect.handlers (N "NodeTest" [N "NameTestQNameNamespaceWithLocalReservedNameConflictBoth" [rncNode k, tkp .colon, rncNode k2]]) w =
      walk Expect.handlers (testNode (.qname k.chars k2.chars)) w ∧
    walk Expect.handlers (N "NodeTest" [N "NameTestNamespaceAnyLocalReservedNameConflict" [rncNode k, tkp .colon, tkp .star]]) w =
      walk Expect.handlers (testNode (.nsAny k.chars)) w ∧
    walk Expect.handlers (N "NodeTest" [N "NameTestLocalAnyNamespaceReservedNameConflict" [tkp .star, tkp .colon, rncNode k]]) w =
      walk Expect.handlers (testNode (.localAny k.chars)) w :=
  ⟨rnc_name k w, rnc_qname_local p k w, rnc_qname_ns k l w, rnc_qname_both k k2 w, rnc_nsAny k w, rnc_localAny k w⟩

open Xsel.Walk in
/-- `t[p]…` (no axis specifier, with predicates) is `child::t[p]…`, for any predicate list `D` -/
theorem abbreviated_child_step_with_predicates (t : NodeTest) (D : PT) (w : WCtx) (hD : D.isNt = true) :
    walk Expect.handlers (N "Step" [N "NodeTestAndPredicate" [testNode t, D]]) w =
    walk Expect.handlers (N "Step" [N "StepWithAxisAndNodeTestAndPredicate" [N "StepWithAxisAndNodeTest" [axisNode .child, testNode t], D]]) w :=
  abbrev_child_preds t D w hD

/-- the hypothesis of the forest theorems holds for the sample tree (non-vacuity) -/
example : Xsel.Walk.walkOk sampleTree = true := by decide +kernel

open Xsel.Walk in
/-- **any_forest_walk_refines_eval** — the forest theorem without the word "canonical": for EVERY derivation
    tree `t` that denotes an expression (`L2.lower t = some x`, Xsel/Lower.lean: unit productions and
    parentheses vanish, `@`, a missing axis, `.`, `..`, `//` and keyword-names become what they abbreviate, a
    call inside a path takes the path as its base — whichever of the grammar's alternatives the parser
    chose), `exec.Exec`'s walk over `t` with the REGENERATED handler table returns exactly what the evaluator
    on abstract syntax returns for `x`, or fails with the same error, and never panics.  The driver checks on
    every generated string, in every spelling, that `L2.lower` of the forest the REAL parser built is the
    model parser's reading of the string (`lower=1`), so this theorem applies to the real forests, not only
    to `derivTop`'s. -/
theorem any_forest_walk_refines_eval (a : Arena) (env : Env) (start : Nat) (t : PT) (x : Expr)
    (h : L2.lower t = some x) :
    Walk.run Generated.handlers a env start t = ofEval (Model.run a env start x) := by
  rw [Gen.handlers_agree]
  exact run_of_sim (L2.walk_lower t x h _)

open Xsel.Walk in
/-- **any_forest_refines_spec** — forest → value → specification for EVERY derivation tree that denotes an
    expression: the walk of the Go code over `t` gives what the XPath 1.0 specification gives for the
    expression `t` denotes (up to the listing order of a node-set, with the recorded `round` deviation), on
    every tree that satisfies the Cursor contract. -/
theorem any_forest_refines_spec (a : Arena) (h : wfb a = true) (env : Env) (henv : EnvOk a env)
    (t : PT) (x : Expr) (hl : L2.lower t = some x) (start : Nat) (hs : start < a.size) (hsum : sumSafe true x = true) :
    ∃ r, Walk.run Generated.handlers a env start t = ofEval r ∧ Res.Equiv r (Spec.runKF a env start x) :=
  ⟨_, any_forest_walk_refines_eval a env start t x hl, Xsel.C02.run_refines_spec' a h env henv x start hs hsum⟩

open Xsel.Walk in
/-- **lower_inverts_derivTop** — the trees `any_forest_walk_refines_eval` speaks about include every canonical
    tree: `lower` reads `derivTop e` back as `e` (`.` as `self::node()`).  (`forest_walk_refines_eval` is
    therefore a corollary of the two.) -/
theorem lower_inverts_derivTop (e : Expr) (h : walkOk e = true) : L2.lower (derivTop e) = some (normCtx e) :=
  L2.lower_derivTop e h

open Xsel.Walk in
example (a : Arena) (env : Env) (start : Nat) (e : Expr) (h : walkOk e = true) :
    Walk.run Generated.handlers a env start (derivTop e) = ofEval (Model.run a env start (normCtx e)) :=
  any_forest_walk_refines_eval a env start _ _ (lower_inverts_derivTop e h)

open Xsel.Walk in
/-- non-vacuity on a tree that is NOT canonical: the forest of the abbreviated spelling `@k` -/
example : (match L2.lower (lift 0 8 (N "PathExpr" [N "LocationPath" [N "RelativeLocationPath" [N "Step"
    [N "StepWithAxisAndNodeTest" [N "AxisSpecifier" [N "AbbreviatedAxisSpecifier" [tkp .at]],
      testNode (.name ['k'])]]]]])) with
    | some x => Expr.same x (.step .ctx .attribute (.name ['k']) .nil)
    | none => false) = true := by decide +kernel

end Xsel.C08
