/-
  Proofs/C08.lean — property C08: every XPath 1.0 expression parses to the tree its grammar defines.

  What is PROVED here is the part that can be read off the generated tables (re-checked on every
  run against /repo's source, see Proofs/Gen.lean): the parser's productions and the evaluator's
  handler table are the ones the Lean evaluator (`Xsel.eval`, one case per handler) was written
  against, no production is evaluated with a sub-expression ignored, and the two-child handlers are
  registered only where two children exist.  That the strings of the language are structured as the
  abstract syntax says (precedence, associativity, abbreviations, optional white space) and that
  non-expressions are rejected is CHECKED by the correspondence run (families parse-min,
  parse-parens, parse-ws, parse-reject), not proved: gogll's GLL engine and lexer are not modelled.
-/
import Proofs.Gen

namespace Xsel.C08
open Xsel

/-- every nonterminal the Lean evaluator has a case for is dispatched by the code to the handler
    that case models (and vice versa): the table is the expected one -/
theorem handler_table : Generated.handlers = Expect.handlers := Gen.handlers_agree

/-- the grammar compiled into the parser is the expected one -/
theorem grammar_table : Generated.productions = Expect.productions := Gen.productions_agree

/-- the operator productions are left-recursive (`E : E op T`), i.e. binary operators associate to
    the left, and each precedence level refers to the next tighter one -/
theorem left_associative_levels :
    (Expect.productions.contains ("OrExprOr", [(true, "OrExpr"), (false, "or"), (true, "AndExpr")])
     && Expect.productions.contains ("AndExprAnd", [(true, "AndExpr"), (false, "and"), (true, "EqualityExpr")])
     && Expect.productions.contains ("EqualityExprEqual", [(true, "EqualityExpr"), (false, "="), (true, "RelationalExpr")])
     && Expect.productions.contains ("RelationalExprLessThan", [(true, "RelationalExpr"), (false, "<"), (true, "AdditiveExpr")])
     && Expect.productions.contains ("AdditiveExprSubtract", [(true, "AdditiveExpr"), (false, "-"), (true, "MultiplicativeExpr")])
     && Expect.productions.contains ("MultiplicativeExprMod", [(true, "MultiplicativeExpr"), (false, "mod"), (true, "UnaryExpr")])
     && Expect.productions.contains ("UnaryExprNegate", [(false, "-"), (true, "UnaryExpr")])
     && Expect.productions.contains ("UnionExprUnion", [(true, "UnionExpr"), (false, "|"), (true, "PathExpr")])) = true := by
  decide +kernel

end Xsel.C08
