/-
  Proofs/C11.lean — property C11: names resolve through the bindings of the QUERY
  (`Env.ns`: prefix ↦ URI, `Env.vars`/`Env.fns`: (URI, local name) ↦ value/function), never
  through the prefixes that the document happens to use.

  All theorems hold for an arbitrary `sem : Sem` (the model of the Go code and the
  specification share name resolution).

  * `nametest_by_uri`, `nametest_name`, `nametest_nsAny`, `nametest_localAny`: what a name test selects;
  * `prefix_rename_invariant`: renaming the prefixes of query and bindings changes nothing;
  * `doc_prefix_irrelevant`: node tests and the name functions read a cell only through
    `kind`, `uri`, `loc`, `val` — an element or attribute cell does not even store a prefix;
  * `var_exact`, `var_unbound_is_error`, `var_unbound_prefix_is_error`;
  * `user_fn_shadows_builtin`, `user_fn_receives`, `unknown_function_is_error`,
    `args_evaluated_in_order`.
-/
import Proofs.Lemmas.NamesRename

namespace Xsel.C11
open Xsel Arena

/-! ## a. name tests compare (namespace URI, local name) -/

/-- `j` is a node of the principal node kind of the axis that has an expanded name:
    an attribute on the attribute axis, an element on every other axis except the namespace
    axis (whose principal kind, namespace nodes, has no expanded-name with a URI). -/
def PrincipalNamed (a : Arena) (ax : Axis) (j : Nat) : Prop :=
  (ax = .attribute ∧ a.kind j = .attr) ∨ (ax ≠ .attribute ∧ ax ≠ .namespace ∧ a.kind j = .elem)

theorem principalNamed_iff (a : Arena) (ax : Axis) (j : Nat) :
    (NodeTest.named a j && (a.kind j == NodeTest.principal ax)) = true ↔ PrincipalNamed a ax j := by
  cases ax <;> cases h : a.kind j <;>
    simp [NodeTest.named, NodeTest.principal, PrincipalNamed, h]

/-- **nametest_by_uri** — the test `p:n` resolves `p` through the prefix bindings of the query.
    Bound to `u`: the result is the sub-list of the nodes `j` of the principal kind whose
    expanded name is `(u, n)` — the URI of the cell is compared, nothing else.  Unbound: error. -/
theorem nametest_by_uri (a : Arena) (env : Env) (ax : Axis) (p n : Chars) (l : List Nat) :
    (∀ u, lookup p env.ns = some u →
      ∃ r, NodeTest.apply a env ax (.qname p n) l = .ok r ∧ r.Sublist l ∧
        ∀ j, j ∈ r ↔ j ∈ l ∧ PrincipalNamed a ax j ∧ (a.cell j).uri = u ∧ (a.cell j).loc = n) ∧
    (lookup p env.ns = none → NodeTest.apply a env ax (.qname p n) l = .error .unboundPrefix) := by
  constructor
  · intro u hu
    refine ⟨_, by simp only [NodeTest.apply, hu]; rfl, List.filter_sublist, ?_⟩
    intro j
    simp only [List.mem_filter, Bool.and_eq_true, beq_iff_eq, ← principalNamed_iff]
    constructor
    · rintro ⟨hj, ⟨⟨h1, h2⟩, h3⟩, h4⟩; exact ⟨hj, ⟨h1, h2⟩, h4, h3⟩
    · rintro ⟨hj, ⟨h1, h2⟩, h4, h3⟩; exact ⟨hj, ⟨⟨h1, h2⟩, h3⟩, h4⟩
  · intro hu
    simp only [NodeTest.apply, hu]

/-- the unprefixed name test `n`: outside the namespace axis it selects exactly the nodes of
    the principal kind with EMPTY namespace URI and local name `n` (no default namespace is
    applied, XPath 1.0 §2.3).  On the namespace axis the library selects the namespace nodes
    whose URI is the one bound to the prefix `n` in the query (stated for completeness). -/
theorem nametest_name (a : Arena) (env : Env) (ax : Axis) (n : Chars) (l : List Nat) :
    ∃ r, NodeTest.apply a env ax (.name n) l = .ok r ∧ r.Sublist l ∧
      (ax ≠ .namespace → ∀ j, j ∈ r ↔
        j ∈ l ∧ PrincipalNamed a ax j ∧ (a.cell j).uri = [] ∧ (a.cell j).loc = n) ∧
      (ax = .namespace → ∀ j, j ∈ r ↔
        j ∈ l ∧ a.kind j = .ns ∧ (a.cell j).val = (lookup n env.ns).getD []) := by
  refine ⟨_, rfl, List.filter_sublist, ?_, ?_⟩
  · intro hax j
    have hp : (NodeTest.principal ax == Kind.ns) = false := by
      cases ax <;> first | exact absurd rfl hax | rfl
    simp only [List.mem_filter, hp, Bool.and_false, Bool.false_and, Bool.or_false,
      Bool.and_eq_true, beq_iff_eq, ← principalNamed_iff]
    constructor
    · rintro ⟨hj, ⟨⟨h1, h2⟩, h3⟩, h4⟩; exact ⟨hj, ⟨h1, h2⟩, h3, h4⟩
    · rintro ⟨hj, ⟨h1, h2⟩, h3, h4⟩; exact ⟨hj, ⟨⟨h1, h2⟩, h3⟩, h4⟩
  · rintro rfl j
    simp only [List.mem_filter, NodeTest.principal, NodeTest.named]
    cases hk : a.kind j <;> simp

/-- `p:*` selects by namespace URI alone -/
theorem nametest_nsAny (a : Arena) (env : Env) (ax : Axis) (p : Chars) (l : List Nat) :
    (∀ u, lookup p env.ns = some u →
      ∃ r, NodeTest.apply a env ax (.nsAny p) l = .ok r ∧ r.Sublist l ∧
        ∀ j, j ∈ r ↔ j ∈ l ∧ PrincipalNamed a ax j ∧ (a.cell j).uri = u) ∧
    (lookup p env.ns = none → NodeTest.apply a env ax (.nsAny p) l = .error .unboundPrefix) := by
  constructor
  · intro u hu
    refine ⟨_, by simp only [NodeTest.apply, hu]; rfl, List.filter_sublist, ?_⟩
    intro j
    simp only [List.mem_filter, Bool.and_eq_true, beq_iff_eq, ← principalNamed_iff]
  · intro hu
    simp only [NodeTest.apply, hu]

/-- `*:n` (extension) selects by local name alone, whatever the namespace -/
theorem nametest_localAny (a : Arena) (env : Env) (ax : Axis) (n : Chars) (l : List Nat) :
    ∃ r, NodeTest.apply a env ax (.localAny n) l = .ok r ∧ r.Sublist l ∧
      ∀ j, j ∈ r ↔ j ∈ l ∧ PrincipalNamed a ax j ∧ (a.cell j).loc = n := by
  refine ⟨_, rfl, List.filter_sublist, ?_⟩
  intro j
  simp only [List.mem_filter, Bool.and_eq_true, beq_iff_eq, ← principalNamed_iff]

/-! ## b. the choice of prefixes in the query is immaterial -/

/-- the key fact: renaming the keys of the bindings by an injective `ρ` and looking up `ρ p`
    finds what `p` found -/
theorem lookup_rename {ρ : Chars → Chars} (hρ : ∀ p q, ρ p = ρ q → p = q) (p : Chars)
    (ns : List (Chars × Chars)) :
    lookup (ρ p) (ns.map (fun pu => (ρ pu.1, pu.2))) = lookup p ns :=
  Xsel.lookup_rename hρ p ns

/-- **prefix_rename_invariant** — rename every prefix of the query (`Expr.rename ρ`: prefixes of
    variable references, function names and the node tests `p:*`, `p:x`) and the keys of the prefix
    bindings (`Env.rename ρ`; variables and functions are keyed by URI and are unchanged) by an
    injective `ρ`: the evaluation is the same, in every context (so also inside predicates).

    Hypothesis `noNsAxisName e` (decidable, syntactic): the query has no step `namespace::x`
    with a plain name `x`.  For that one test the library looks the NAME `x` up in the prefix
    bindings (`NodeTest.apply`, case `.name`, mirrors exec/contextfn_paths.go), and `rename`
    leaves plain names alone; the hypothesis route was chosen over renaming such names. -/
theorem prefix_rename_invariant (sem : Sem) (ρ : Chars → Chars) (hρ : ∀ p q, ρ p = ρ q → p = q)
    (e : Expr) (hn : noNsAxisName e = true) (c : Ctx) :
    eval sem (e.rename ρ) { c with env := c.env.rename ρ } = eval sem e c :=
  eval_rename hρ e hn c.a c.env c.result c.pos c.size

/-- the same for an evaluation from a start node -/
theorem prefix_rename_invariant_run (ρ : Chars → Chars) (hρ : ∀ p q, ρ p = ρ q → p = q)
    (e : Expr) (hn : noNsAxisName e = true) (a : Arena) (env : Env) (start : Nat) :
    Model.run a (env.rename ρ) start (e.rename ρ) = Model.run a env start e ∧
    Spec.run a (env.rename ρ) start (e.rename ρ) = Spec.run a env start e :=
  ⟨eval_rename hρ e hn a env _ 0 1, eval_rename hρ e hn a env _ 0 1⟩

/-! ## c. the prefixes used in the document are immaterial -/

/-- two arenas agree on what node tests and name functions can see of a cell.  (The `loc` of an
    element or attribute is its LOCAL name: `Cell` has no field for the prefix the document
    used, the store resolves it to `uri` when the document is loaded.) -/
def SameNames (a a' : Arena) : Prop :=
  ∀ j, (a.cell j).kind = (a'.cell j).kind ∧ (a.cell j).uri = (a'.cell j).uri ∧
    (a.cell j).loc = (a'.cell j).loc ∧ (a.cell j).val = (a'.cell j).val

/-- **doc_prefix_irrelevant** — node tests and `name()`/`local-name()`/`namespace-uri()` depend
    on a cell only through its kind, namespace URI, local name and value -/
theorem doc_prefix_irrelevant (a a' : Arena) (h : SameNames a a') :
    (∀ env ax t l, NodeTest.apply a env ax t l = NodeTest.apply a' env ax t l) ∧
    (∀ k l, nameOf a k l = nameOf a' k l) := by
  have hk : ∀ j, a.kind j = a'.kind j := fun j => (h j).1
  have hu : ∀ j, (a.cell j).uri = (a'.cell j).uri := fun j => (h j).2.1
  have hl : ∀ j, (a.cell j).loc = (a'.cell j).loc := fun j => (h j).2.2.1
  have hv : ∀ j, (a.cell j).val = (a'.cell j).val := fun j => (h j).2.2.2
  constructor
  · intro env ax t l
    cases t <;> simp only [NodeTest.apply, NodeTest.named, hk, hu, hl, hv]
  · intro k l
    simp only [nameOf]
    cases Model.firstDoc l with
    | none => rfl
    | some i =>
      have hk' : (a.cell i).kind = (a'.cell i).kind := (h i).1
      simp only [hk', hu, hl]

/-! ## d. variables -/

/-- **var_exact** — a variable reference evaluates to exactly the value bound to its expanded
    name (a value of any of the four types), whatever the context -/
theorem var_exact (sem : Sem) (pfx : Option Chars) (name : Chars) (c : Ctx) :
    eval sem (.var pfx name) c = (resolve c.env pfx name >>= fun q =>
      match lookupQ q c.env.vars with
      | some v => .ok v
      | none => .error .unboundVar) := by
  rw [eval]; rfl

theorem var_bound (sem : Sem) (pfx : Option Chars) (name : Chars) (c : Ctx) (q : QName) (v : Val)
    (hq : resolve c.env pfx name = .ok q) (hv : lookupQ q c.env.vars = some v) :
    eval sem (.var pfx name) c = .ok v := by
  rw [var_exact, hq]; simp only [bind, Except.bind, hv]

theorem var_unbound_is_error (sem : Sem) (pfx : Option Chars) (name : Chars) (c : Ctx) (q : QName)
    (hq : resolve c.env pfx name = .ok q) (hv : lookupQ q c.env.vars = none) :
    eval sem (.var pfx name) c = .error .unboundVar := by
  rw [var_exact, hq]; simp only [bind, Except.bind, hv]

theorem var_unbound_prefix_is_error (sem : Sem) (p name : Chars) (c : Ctx)
    (hp : lookup p c.env.ns = none) :
    eval sem (.var (some p) name) c = .error .unboundPrefix := by
  rw [var_exact]; simp only [resolve, hp, bind, Except.bind]

/-- an unprefixed variable name has the empty namespace URI (no default namespace) -/
theorem var_no_prefix (env : Env) (name : Chars) : resolve env none name = .ok ([], name) := rfl

/-! ## e. functions -/

/-- **user_fn_shadows_builtin** — a function registered under the expanded name of the call is
    called, in preference to a library function of the same name, with the evaluated arguments
    in order and with the current context (value `b` of the base, i.e. the context node for
    an ordinary call; position; size) -/
theorem user_fn_shadows_builtin (sem : Sem) (c : Ctx) (base : Expr) (pfx : Option Chars)
    (name : Chars) (args : Exprs) (q : QName) (f : UserFn) (b : Val) (vs : List Val)
    (hq : resolve c.env pfx name = .ok q) (hf : lookupQ q c.env.fns = some f)
    (hb : eval sem base c = .ok b) (hvs : evalArgs sem args { c with result := b } = .ok vs) :
    eval sem (.call base pfx name args) c = userFn sem { c with result := b } f vs := by
  rw [eval]
  simp only [hb, hvs, hq, bind, Except.bind, hf]

/-- arguments and context reach the user function -/
theorem user_fn_receives (sem : Sem) (c : Ctx) (vs : List Val) :
    userFn sem c .echo vs = (match vs.head? with | some v => .ok v | none => .error .userFail) ∧
    userFn sem c .argCount vs = .ok (.num (Num.ofNat vs.length)) ∧
    userFn sem c .ctxPos vs = .ok (.num (Num.ofNat (c.pos + 1))) ∧
    userFn sem c .ctxStr vs = .ok (.str (Model.toStr (sem.sv c.a) c.result)) := by
  refine ⟨?_, rfl, rfl, rfl⟩
  cases vs <;> rfl

/-- **unknown_function_is_error** — a name that is neither registered nor (unprefixed) in the
    library is an error, never silently ignored -/
theorem unknown_function_is_error (sem : Sem) (c : Ctx) (base : Expr) (pfx : Option Chars)
    (name : Chars) (args : Exprs) (q : QName) (b : Val) (vs : List Val)
    (hq : resolve c.env pfx name = .ok q) (hf : lookupQ q c.env.fns = none)
    (hb : eval sem base c = .ok b) (hvs : evalArgs sem args { c with result := b } = .ok vs)
    (hnb : q.1 ≠ [] ∨ builtin sem { c with result := b } q.2 vs = none) :
    eval sem (.call base pfx name args) c = .error .unknownFn := by
  rw [eval]
  simp only [hb, hvs, hq, bind, Except.bind, hf]
  rcases hnb with h | h
  · have : q.1.isEmpty = false := by cases hq1 : q.1 <;> simp_all
    simp only [this]; rfl
  · split
    · simp only [h]; rfl
    · rfl

/-- a function name with an unbound prefix is an error -/
theorem fn_unbound_prefix_is_error (sem : Sem) (c : Ctx) (base : Expr) (p name : Chars)
    (args : Exprs) (b : Val) (vs : List Val) (hp : lookup p c.env.ns = none)
    (hb : eval sem base c = .ok b) (hvs : evalArgs sem args { c with result := b } = .ok vs) :
    eval sem (.call base (some p) name args) c = .error .unboundPrefix := by
  rw [eval]
  simp only [hb, hvs, resolve, hp, bind, Except.bind]

/-- **args_evaluated_in_order** — the arguments are evaluated left to right, each in the context
    of the call; the first error wins -/
theorem args_evaluated_in_order (sem : Sem) :
    ∀ (args : Exprs) (c : Ctx), evalArgs sem args c = args.toList.mapM (fun e => eval sem e c)
  | .nil, c => by simp only [evalArgs, Exprs.toList, List.mapM_nil]; rfl
  | .cons e es, c => by
    rw [evalArgs, Exprs.toList, List.mapM_cons, args_evaluated_in_order sem es c]

end Xsel.C11
