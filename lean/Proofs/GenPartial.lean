/-
  Proofs/GenPartial.lean — operations that can panic, per function.
  Theorems over the fact tables regenerated from /repo on every run (`xh facts` → Generated/Facts.lean),
  closed by kernel evaluation: a change of the source that alters a table makes the theorem fail to check.
-/
import Generated.Facts
import Proofs.Expect

namespace Xsel.Gen
open Xsel

/-- slice expressions, unchecked type assertions, `%`, float→int conversions and explicit panics are
    compared; plain index expressions (mostly loop-indexed) are listed in the table for information only -/
def dominated (g e : String × Nat × Nat × Nat × Nat × Nat × Nat) : Bool :=
  g.1 == e.1 && g.2.2.1 ≤ e.2.2.1 && g.2.2.2.1 ≤ e.2.2.2.1 && g.2.2.2.2.1 ≤ e.2.2.2.2.1
    && g.2.2.2.2.2.1 ≤ e.2.2.2.2.2.1 && g.2.2.2.2.2.2 ≤ e.2.2.2.2.2.2

/-- **partial_sites_covered** — no hand-written package has more operations that can panic (slice
    expression, unchecked assertion, %, float→int conversion, explicit panic) than the reviewed table allows -/
theorem partial_sites_covered :
    (Generated.partialCounts.all fun g => Expect.partialCounts.any fun e => dominated g e) = true := by
  decide +kernel


end Xsel.Gen
