/-
  Proofs/C01.lean — property C01: location steps select exactly the XPath 1.0 axis node set.

  `Model.axis` (Xsel/Axes.lean) is the model of the thirteen axis selectors of
  exec/axisselectors.go; `Spec.inAxis` / `Spec.axisList` / `Spec.axisSet` (Xsel/SpecAxes.lean) is
  the XPath 1.0 §2.2 definition, written from the parent link and document order only.
  `wfb a = true` (Xsel/WF.lean) is the Cursor contract.  All theorems below hold for every
  well-formed arena, every context node of every kind and every axis.

  The proofs live in Proofs/Lemmas/Tree*.lean; this file restates the results.
-/
import Proofs.Lemmas.Misc
import Proofs.Lemmas.TreeSpec

namespace Xsel.C01
open Xsel Arena

/-! ## the selectors compute the specified node sets -/

/-- membership: from one context node, each selector returns exactly the specified nodes -/
theorem axis_mem {a : Arena} (h : wfb a = true) (ax : Axis) {c j : Nat}
    (hc : c < a.size) (hj : j < a.size) :
    j ∈ Model.axis a ax [c] ↔ Spec.inAxis a ax c j = true :=
  Tree.axis_mem h ax hc hj

/-- the selectors never leave the arena -/
theorem axis_range {a : Arena} (h : wfb a = true) (ax : Axis) {c j : Nat}
    (hc : c < a.size) (hm : j ∈ Model.axis a ax [c]) : j < a.size :=
  Tree.axis_range h ax hc hm

/-- from one context node, each selector returns the specified list, in axis order
    (document order for forward axes, reverse document order for reverse axes) -/
theorem axis_refines {a : Arena} (h : wfb a = true) (ax : Axis) {c : Nat} (hc : c < a.size) :
    Model.axis a ax [c] = Spec.axisList a ax c :=
  Tree.axis_refines h ax hc

/-- set-at-a-time evaluation (what `execAxisName` does) is the cleaned-up union of the
    per-node specification lists -/
theorem axis_set_at_a_time {a : Arena} (h : wfb a = true) {ax : Axis} (hax : ax ≠ .self)
    {s : List Nat} (hs : ∀ c ∈ s, c < a.size) :
    Model.axis a ax s =
      if ax.isReverse then cleanupBwd (s.flatMap (Spec.axisList a ax))
      else cleanupFwd (s.flatMap (Spec.axisList a ax)) :=
  Tree.axis_set_at_a_time h hax hs

/-- set-at-a-time evaluation returns the specification's node-set `axisSet`
    (in document order; reversed for the reverse axes) -/
theorem axis_eq_axisSet {a : Arena} (h : wfb a = true) {ax : Axis} (hax : ax ≠ .self)
    {s : List Nat} (hs : ∀ c ∈ s, c < a.size) :
    Model.axis a ax s =
      if ax.isReverse then (Spec.axisSet a ax s).reverse else Spec.axisSet a ax s :=
  Tree.axis_eq_axisSet h hax hs

/-- the descendant walker: exactly the tree nodes that have the cursor on their parent chain -/
theorem mem_descendants {a : Arena} (h : wfb a = true) {c j : Nat} :
    j ∈ Model.descendants a a.size c ↔
      (a.isTree j = true ∧ Spec.anc a c j = true ∧ j < a.size) :=
  Tree.mem_descendants h

/-! ## the specification (and hence the selectors) obey the XPath 1.0 laws -/

/-- for tree nodes, exactly one of self / ancestor / descendant / following / preceding holds -/
theorem partition {a : Arena} (h : wfb a = true) {c j : Nat} (tj : a.isTree j = true) :
    ([Axis.self, .ancestor, .descendant, .following, .preceding].filter
        (fun ax => Spec.inAxis a ax c j)).length = 1 :=
  Tree.partition h tj

theorem partition_cover {a : Arena} {c j : Nat} (tj : a.isTree j = true) :
    Spec.inAxis a .self c j = true ∨ Spec.inAxis a .ancestor c j = true
    ∨ Spec.inAxis a .descendant c j = true ∨ Spec.inAxis a .following c j = true
    ∨ Spec.inAxis a .preceding c j = true :=
  Tree.partition_cover tj

theorem partition_disjoint {a : Arena} (h : wfb a = true) {c j : Nat} {ax1 ax2 : Axis}
    (m1 : ax1 ∈ [Axis.self, .ancestor, .descendant, .following, .preceding])
    (m2 : ax2 ∈ [Axis.self, .ancestor, .descendant, .following, .preceding])
    (hne : ax1 ≠ ax2) :
    ¬ (Spec.inAxis a ax1 c j = true ∧ Spec.inAxis a ax2 c j = true) :=
  Tree.partition_disjoint h m1 m2 hne

/-- the same partition, stated on the selectors of the model: every tree node of the arena is
    returned by exactly one of the five selectors -/
theorem model_partition {a : Arena} (h : wfb a = true) {c j : Nat}
    (hc : c < a.size) (hj : j < a.size) (tj : a.isTree j = true) :
    ([Axis.self, .ancestor, .descendant, .following, .preceding].filter
        (fun ax => decide (j ∈ Model.axis a ax [c]))).length = 1 := by
  have e : ∀ ax : Axis, decide (j ∈ Model.axis a ax [c]) = Spec.inAxis a ax c j := by
    intro ax
    cases hb : Spec.inAxis a ax c j <;> simp [Tree.axis_mem h ax hc hj, hb]
  simpa only [e] using Tree.partition h (c := c) tj

theorem dual_child_parent {a : Arena} (h : wfb a = true) {c j : Nat} (hj : j < a.size)
    (tj : a.isTree j = true) :
    Spec.inAxis a .child c j = true ↔ Spec.inAxis a .parent j c = true :=
  Tree.dual_child_parent h hj tj

theorem dual_descendant_ancestor {a : Arena} {c j : Nat} (tj : a.isTree j = true) :
    Spec.inAxis a .descendant c j = true ↔ Spec.inAxis a .ancestor j c = true :=
  Tree.dual_descendant_ancestor tj

theorem dual_following_preceding {a : Arena} {c j : Nat} (tc : a.isTree c = true)
    (tj : a.isTree j = true) :
    Spec.inAxis a .following c j = true ↔ Spec.inAxis a .preceding j c = true :=
  Tree.dual_following_preceding tc tj

theorem dual_siblings {a : Arena} {c j : Nat} :
    Spec.inAxis a .followingSibling c j = true ↔ Spec.inAxis a .precedingSibling j c = true :=
  Tree.dual_siblings

/-- the dualities on the selectors of the model -/
theorem model_dual_child_parent {a : Arena} (h : wfb a = true) {c j : Nat}
    (hc : c < a.size) (hj : j < a.size) (tj : a.isTree j = true) :
    j ∈ Model.axis a .child [c] ↔ c ∈ Model.axis a .parent [j] := by
  rw [Tree.axis_mem h _ hc hj, Tree.axis_mem h _ hj hc]; exact Tree.dual_child_parent h hj tj

theorem model_dual_descendant_ancestor {a : Arena} (h : wfb a = true) {c j : Nat}
    (hc : c < a.size) (hj : j < a.size) (tj : a.isTree j = true) :
    j ∈ Model.axis a .descendant [c] ↔ c ∈ Model.axis a .ancestor [j] := by
  rw [Tree.axis_mem h _ hc hj, Tree.axis_mem h _ hj hc]; exact Tree.dual_descendant_ancestor tj

theorem model_dual_following_preceding {a : Arena} (h : wfb a = true) {c j : Nat}
    (hc : c < a.size) (hj : j < a.size) (tc : a.isTree c = true) (tj : a.isTree j = true) :
    j ∈ Model.axis a .following [c] ↔ c ∈ Model.axis a .preceding [j] := by
  rw [Tree.axis_mem h _ hc hj, Tree.axis_mem h _ hj hc]
  exact Tree.dual_following_preceding tc tj

theorem model_dual_siblings {a : Arena} (h : wfb a = true) {c j : Nat}
    (hc : c < a.size) (hj : j < a.size) :
    j ∈ Model.axis a .followingSibling [c] ↔ c ∈ Model.axis a .precedingSibling [j] := by
  rw [Tree.axis_mem h _ hc hj, Tree.axis_mem h _ hj hc]; exact Tree.dual_siblings

/-- the ancestor axes reach the root -/
theorem root_is_ancestor {a : Arena} (h : wfb a = true) {c : Nat} (hc : c ≠ 0) :
    Spec.inAxis a .ancestor c 0 = true :=
  Tree.root_is_ancestor h hc

theorem model_root_is_ancestor {a : Arena} (h : wfb a = true) {c : Nat} (hc : c < a.size)
    (hc0 : c ≠ 0) : 0 ∈ Model.axis a .ancestor [c] ∧ 0 ∈ Model.axis a .ancestorOrSelf [c] := by
  have hs := Tree.size_pos h
  rw [Tree.axis_mem h _ hc hs, Tree.axis_mem h _ hc hs]
  exact ⟨Tree.root_is_ancestor h hc0, Tree.root_is_ancestorOrSelf h c⟩

/-- the root has no parent and no siblings -/
theorem root_no_parent_no_siblings {a : Arena} (j : Nat) :
    Spec.inAxis a .parent 0 j = false
    ∧ Spec.inAxis a .followingSibling 0 j = false ∧ Spec.inAxis a .precedingSibling 0 j = false
    ∧ Spec.inAxis a .followingSibling j 0 = false ∧ Spec.inAxis a .precedingSibling j 0 = false :=
  ⟨Tree.root_no_parent j, Tree.root_no_siblings j⟩

theorem model_root_no_parent_no_siblings {a : Arena} (h : wfb a = true) :
    Model.axis a .parent [0] = [] ∧ Model.axis a .followingSibling [0] = []
    ∧ Model.axis a .precedingSibling [0] = [] :=
  Tree.root_model_no_parent_no_siblings h

/-- … while the children of the root do have siblings -/
theorem root_children_siblings {a : Arena} (h : wfb a = true) {k1 k2 : Nat}
    (m1 : k1 ∈ a.kids 0) (m2 : k2 ∈ a.kids 0) (hlt : k1 < k2) :
    Spec.inAxis a .followingSibling k1 k2 = true ∧ Spec.inAxis a .precedingSibling k2 k1 = true :=
  Tree.root_children_siblings h m1 m2 hlt

/-! ## non-vacuity: a well-formed arena with every node kind

    ```
    0 root ── 1 <e xmlns:p=… a=…> ── 4 <f> ── 5 text
           │                      ├─ 6 comment
           │                      └─ 7 pi
           └─ 8 comment            (2 = namespace node of 1, 3 = attribute of 1)
    ```
-/

def sample : Arena := #[
  { kind := .root, pos := 0, parent := 0, kids := [1, 8] },
  { kind := .elem, pos := 1, parent := 0, nss := [2], attrs := [3], kids := [4, 6, 7] },
  { kind := .ns, pos := 2, parent := 1 },
  { kind := .attr, pos := 3, parent := 1 },
  { kind := .elem, pos := 4, parent := 1, kids := [5] },
  { kind := .text, pos := 5, parent := 4 },
  { kind := .comment, pos := 6, parent := 1 },
  { kind := .pi, pos := 7, parent := 1 },
  { kind := .comment, pos := 8, parent := 0 } ]

example : wfb sample = true := by decide

example : Model.axis sample .following [3] = [4, 5, 6, 7, 8] := by decide
example : Model.axis sample .preceding [6] = [5, 4] := by decide
example : Model.axis sample .ancestor [5] = [4, 1, 0] := by decide
example : Model.axis sample .descendant [0] = [1, 4, 5, 6, 7, 8] := by decide
example : Model.axis sample .followingSibling [1] = [8] := by decide
example : Model.axis sample .following [4, 6] = Spec.axisSet sample .following [4, 6] := by decide

end Xsel.C01

namespace Xsel.C01
/-- an absolute location path starts from the root of the queried tree wherever it occurs (top level,
    predicate, function argument): `/` does not look at the context -/
theorem absolute_from_root (sem : Sem) (c c' : Ctx) :
    eval sem .root c = .ok (.nodes [0]) ∧ eval sem .root c = eval sem .root c' :=
  Misc.absolute_from_root sem c c'

/-- `/step` evaluates the same whatever the context node, position and size are -/
theorem absolute_step_context_free (sem : Sem) (ax : Axis) (t : NodeTest) (c : Ctx) (r : Val) (p s : Nat) :
    eval sem (.step .root ax t .nil) { c with result := r, pos := p, size := s }
      = eval sem (.step .root ax t .nil) c :=
  Misc.absolute_step_context_free sem ax t c r p s

/-- `.` (self::node()) is the identity step of the code's evaluator -/
theorem self_node_identity (base : Expr) (c : Ctx) (l : List Nat) (h : eval Model.sem base c = .ok (.nodes l)) :
    eval Model.sem (.step base .self .node .nil) c = .ok (.nodes l) :=
  Misc.self_node_identity Model.sem rfl rfl base c l h
end Xsel.C01
