/-
  Proofs/C09.lean — property C09: for every well-formed namespace-conformant XML document the
  cursor tree produced by ReadXml is the XPath data model of the document.

  `Xml.docTokens top` is the token stream encoding/xml yields for the abstract document `top`,
  `Xml.events` the MODEL of the adapter parser/xml.go, `Store.build` the MODEL of
  store.CreateInMemory, `Xml.dataModel top` the SPECIFICATION (XPath 1.0 §5: elements, attributes,
  text, comments, processing instructions in document order with their expanded names, values,
  nesting depth, and for every element its in-scope namespace bindings).

  Chain: (a) `events_of_tokens`  — the adapter emits the event list the document denotes;
         (b) `docEvents_ordered` — that list honours the Parser contract;
         (c) `expected_docEvents`— the tree that list denotes is the data model;
         (d) C10 (`build_mirrors_of_ordered`, `build_wf_of_ordered`) — the store builds that tree.
-/
import Proofs.C10
import Proofs.Lemmas.XmlTokens
import Proofs.Lemmas.XmlOrdered
import Proofs.Lemmas.XmlExpected
import Proofs.Lemmas.XmlFacts
import Proofs.Lemmas.ChainE2E

namespace Xsel.C09
open Xsel Xsel.Xml Xsel.XmlL Xsel.Store

/-! ### the hypothesis

  `WFDoc top` (`Proofs/Lemmas/XmlSpec.lean`, decidable) — `wfTop [(xml, XML-namespace)] top` and
  exactly one top-level element:
  * top level: `xmldecl`, `doctype`, `ws s` (s non-empty, white space only, not followed by another
    `ws`), comments, PIs whose target is not `xml`, elements; no text node;
  * inside an element (`wfNode`/`wfKids`): no layout node; a text node has ≥ 1 segment, all
    non-empty, and is not followed by another text node; PI target ≠ `xml`;
  * element: every declaration satisfies `wfDecl` (prefix ≠ `xmlns`; empty URI only for the default
    namespace; the prefix `xml` only bound to the XML namespace), declared prefixes distinct, the
    element's prefix bound in its scope, every attribute satisfies `wfAttr` (local name ≠ `xmlns`,
    namespace ≠ "xmlns", prefix bound in the element's scope). -/

export Xsel.XmlL (WFDoc)

/-! ### the chain -/

/-- (a) -/
theorem events_of_tokens (top : XNodes) (h : WFDoc top) :
    Xml.events (Xml.docTokens top) = docEvents top := XmlL.events_of_tokens top h

/-- (b) holds for every abstract document -/
theorem docEvents_ordered (top : XNodes) : StoreL.Ordered (docEvents top) :=
  XmlL.docEvents_ordered top

/-- (c) -/
theorem expected_docEvents (top : XNodes) (h : WFDoc top) :
    Spec.expected (docEvents top) = Xml.dataModel top := XmlL.expected_docEvents top h

/-- the event stream ReadXml feeds the store honours the Parser contract -/
theorem events_ordered (top : XNodes) (h : WFDoc top) :
    StoreL.Ordered (Xml.events (Xml.docTokens top)) := by
  rw [events_of_tokens top h]; exact docEvents_ordered top

/-- C09. The cursor tree of a well-formed namespace-conformant document satisfies the Cursor
    contract and has exactly the document's elements, attributes (without the namespace
    declarations), text nodes (CDATA as text, adjacent character data as one node), comments and
    processing instructions (without the XML declaration) in document order, with their expanded
    names, values and nesting; every element has exactly the in-scope namespace bindings
    (declared, inherited, overridden, undeclared, plus `xml`). -/
theorem readxml_refines (top : XNodes) (h : WFDoc top) :
    let evs := Xml.events (Xml.docTokens top)
    wfb (Store.build evs) = true ∧ Spec.describe (Store.build evs) = Xml.dataModel top := by
  intro evs
  have ho : StoreL.Ordered evs := events_ordered top h
  refine ⟨C10.build_wf_of_ordered ho, ?_⟩
  have hm := C10.build_mirrors_of_ordered ho
  have hd : Spec.describe (Store.build evs) = Spec.expected evs := by
    simpa [Spec.mirrors] using hm
  rw [hd]
  show Spec.expected (Xml.events (Xml.docTokens top)) = _
  rw [events_of_tokens top h, expected_docEvents top h]

/-! ### the parts of the property, one by one -/

/-- the XML declaration is not a node: it adds no event and no node, wherever it stands -/
theorem xmldecl_not_a_node (data : Chars) (rest : XNodes) :
    Xml.events (Xml.docTokens (.cons (.xmldecl data) rest)) = Xml.events (Xml.docTokens rest)
    ∧ Xml.dataModel (.cons (.xmldecl data) rest) = Xml.dataModel rest := by
  constructor
  · simp [Xml.events, Xml.docTokens, tokensOfList, tokensOf, adapter, flush]
  · simp [Xml.dataModel, modelList, model]

/-- a DOCTYPE is not a node -/
theorem doctype_not_a_node (rest : XNodes) :
    Xml.events (Xml.docTokens (.cons .doctype rest)) = Xml.events (Xml.docTokens rest)
    ∧ Xml.dataModel (.cons .doctype rest) = Xml.dataModel rest := by
  constructor
  · simp [Xml.events, Xml.docTokens, tokensOfList, tokensOf, adapter, flush]
  · simp [Xml.dataModel, modelList, model]

/-- CDATA sections are text and adjacent character data forms ONE text node: inside the document
    element, the tokens of a text node written as any sequence of plain and CDATA segments,
    followed by a non-chardata token (or the end of the input), give one text event whose value is
    the concatenation of the segments -/
theorem cdata_is_text (depth : Nat) (segs : List (Bool × Chars)) (rest : List Tok)
    (h : segs.isEmpty = false) (hr : noCharHead rest = true) :
    adapter (depth + 1) none (textToks none segs ++ rest)
      = .text ((segs.map (·.2)).flatten) :: adapter (depth + 1) none rest :=
  adapter_text_node depth rest segs h hr

/-- `<r>x<![CDATA[y]]>z</r>` -/
def cdataDoc : XNodes :=
  .cons (.elem none ['r'] [] [] false
    (.cons (.text [(false, ['x']), (true, ['y']), (false, ['z'])]) .nil)) .nil

example : Xml.docTokens cdataDoc
    = [.start ⟨[], ['r']⟩ [], .chardata ['x'], .chardata ['y'], .chardata ['z'], .stop] := by decide

example : Xml.events (Xml.docTokens cdataDoc)
    = [.elem [] ['r'], .ns xmlC xmlNsUri, .text ['x', 'y', 'z'], .close] := by decide

/-- namespace declarations are not attributes: whatever the order of writing, the attribute events
    of a start tag are exactly its ordinary attributes, in order, with their expanded names … -/
theorem xmlns_attrs_are_not_attributes (sc : List (Chars × Chars)) (decls : List (Chars × Chars))
    (attrs : List (Option Chars × Chars × Chars)) (attrsFirst : Bool)
    (h : attrs.all (wfAttr sc) = true) :
    createAttrs (if attrsFirst then attrs.map (ordAttr sc) ++ decls.map declAttr
                 else decls.map declAttr ++ attrs.map (ordAttr sc))
      = attrs.map (fun a => Ev.attr (attrUri sc a.1) a.2.1 a.2.2) := by
  cases attrsFirst <;>
    simp [createAttrs_append, createAttrs_decls, createAttrs_attrs sc attrs h, attrEvents]

/-- … and its namespace events are `xml` and exactly its declarations, in order -/
theorem namespace_events_are_declarations (sc : List (Chars × Chars))
    (decls : List (Chars × Chars)) (attrs : List (Option Chars × Chars × Chars))
    (attrsFirst : Bool) (h : attrs.all (wfAttr sc) = true) :
    createNamespaces (if attrsFirst then attrs.map (ordAttr sc) ++ decls.map declAttr
                      else decls.map declAttr ++ attrs.map (ordAttr sc))
      = .ns xmlC xmlNsUri :: decls.map (fun pu => Ev.ns pu.1 pu.2) := by
  cases attrsFirst <;>
    simp [createNamespaces_append, createNamespaces_decls, createNamespaces_attrs sc attrs h,
      nsEvents]

/-- every element of the cursor tree has the binding of the prefix `xml` in scope -/
theorem every_element_has_xml_binding (top : XNodes) (h : WFDoc top) :
    ∀ nd ∈ Spec.describe (Store.build (Xml.events (Xml.docTokens top))),
      nd.kind = .elem → (xmlC, xmlNsUri) ∈ nd.scope := by
  rw [(readxml_refines top h).2]
  exact dataModel_xml top h

/-- every namespace node belongs to its element: the nodes an element lists under `Namespaces()`
    are namespace nodes, come after the element in document order and have it as `Parent()`
    (C10, for the stream of any document) -/
theorem namespace_nodes_belong_to_element (top : XNodes) {i j : Nat}
    (hi : i < (Store.build (Xml.events (Xml.docTokens top))).size)
    (hj : j ∈ (Store.build (Xml.events (Xml.docTokens top))).nss i) :
    i < j ∧ (Store.build (Xml.events (Xml.docTokens top))).kind j = .ns
      ∧ (Store.build (Xml.events (Xml.docTokens top))).parent j = i :=
  have h := C10.build_mem_nss _ hi hj
  ⟨h.1, h.2.2.1, h.2.2.2⟩

/-! ### non-vacuity -/

def ofList : List XNode → XNodes
  | [] => .nil
  | n :: t => .cons n (ofList t)

private def c (s : String) : Chars := s.toList

/-- ```
    <?xml version="1.0"?>
    <!DOCTYPE r>
    <!-- c --><?target data?>
    <r xmlns="urn:d" xmlns:p="urn:p" a="1" p:b="2">x<![CDATA[y]]>z<p:kid/><!--inner--><un k="v"
       xmlns=""><![CDATA[<>]]></un><?t d?> tail </r>
    <!--end-->
    ``` -/
def sampleDoc : XNodes := ofList
  [ .xmldecl (c "version=\"1.0\""), .ws (c "\n"), .doctype, .ws (c "\n"),
    .comment (c " c "), .pi (c "target") (c "data"), .ws (c "\n"),
    .elem none (c "r") [(c "", c "urn:d"), (c "p", c "urn:p")]
      [(none, c "a", c "1"), (some (c "p"), c "b", c "2")] false (ofList
      [ .text [(false, c "x"), (true, c "y"), (false, c "z")],
        .elem (some (c "p")) (c "kid") [] [] false .nil,
        .comment (c "inner"),
        .elem none (c "un") [(c "", c "")] [(none, c "k", c "v")] true
          (ofList [.text [(true, c "<>")]]),
        .pi (c "t") (c "d"),
        .text [(false, c " tail ")] ]),
    .ws (c "\n"), .comment (c "end") ]

example : WFDoc sampleDoc := by decide

example : Spec.describe (Store.build (Xml.events (Xml.docTokens sampleDoc)))
    = Xml.dataModel sampleDoc := by decide

example : wfb (Store.build (Xml.events (Xml.docTokens sampleDoc))) = true := by decide

/-- the data model of the sample: 3 elements, 3 attributes, 3 text nodes, 3 comments, 2 PIs -/
example : (Xml.dataModel sampleDoc).length = 14 := by decide

/-! ### what the hypotheses exclude (the conclusion fails without them)

  The first two are deviations of parser/xml.go from the XPath data model on legal documents:
  `createXmlNamespaces` / `createXmlAttrs` treat every attribute whose LOCAL name is `xmlns`
  (`p:xmlns="…"`, the "legacy spelling") or whose namespace URI is the string "xmlns" as a
  namespace declaration. -/

/-- `<r xmlns:p="urn:p" p:xmlns="v"/>`: the attribute `{urn:p}xmlns` is dropped and a namespace
    node `urn:p ↦ v` appears instead -/
def legacyDoc : XNodes := ofList
  [.elem none (c "r") [(c "p", c "urn:p")] [(some (c "p"), c "xmlns", c "v")] false .nil]

example : Spec.describe (Store.build (Xml.events (Xml.docTokens legacyDoc)))
    ≠ Xml.dataModel legacyDoc := by decide

example : Xml.events (Xml.docTokens legacyDoc)
    = [.elem [] (c "r"), .ns xmlC xmlNsUri, .ns (c "p") (c "urn:p"), .ns (c "urn:p") (c "v"),
       .close] := by decide

/-- `<r xmlns:q="xmlns" q:a="1"/>`: the attribute `{xmlns}a` is dropped and a namespace node
    `a ↦ 1` appears instead -/
def xmlnsUriDoc : XNodes := ofList
  [.elem none (c "r") [(c "q", c "xmlns")] [(some (c "q"), c "a", c "1")] false .nil]

example : Spec.describe (Store.build (Xml.events (Xml.docTokens xmlnsUriDoc)))
    ≠ Xml.dataModel xmlnsUriDoc := by decide

/-- an abstract document with two text nodes in a row is not a faithful description of a parsed
    document (adjacent character data is ONE text node) -/
example : Spec.describe (Store.build (Xml.events (Xml.docTokens (ofList
      [.elem none (c "r") [] [] false (ofList [.text [(false, c "x")], .text [(false, c "y")]])]))))
    ≠ Xml.dataModel (ofList
      [.elem none (c "r") [] [] false (ofList [.text [(false, c "x")], .text [(false, c "y")]])]) := by
  decide

/-- un-binding the prefix `xml` (not allowed by Namespaces in XML): the adapter re-binds it on
    every element, so the child `k` of `<r xmlns:xml=""><k/></r>` has it again -/
def unbindXmlDoc : XNodes := ofList
  [.elem none (c "r") [(xmlC, c "")] [] false (ofList [.elem none (c "k") [] [] false .nil])]

example : Spec.describe (Store.build (Xml.events (Xml.docTokens unbindXmlDoc)))
    ≠ Xml.dataModel unbindXmlDoc := by decide

end Xsel.C09

/-! ### end to end: parse, build, query (Proofs/Lemmas/ChainE2E.lean) -/

namespace Xsel.C09
open Xsel Xsel.Xml Xsel.XmlL Xsel.Store

/-- **xml_query_refines_spec** — a query on the tree ReadXml builds for a well-formed
    namespace-conformant document evaluates as the XPath 1.0 specification says: the tree
    satisfies the Cursor contract (`readxml_refines`), hence (`C02.run_refines_spec'`) `exec.Exec`
    from its root returns the specification's value up to the listing order of a node-set, or
    both fail.  (`Spec.runKF`: with the recorded `round` deviation; `…_noRound` below: without.) -/
theorem xml_query_refines_spec (top : XNodes) (h : WFDoc top)
    (env : Env) (henv : EnvOk (Store.build (Xml.events (Xml.docTokens top))) env) (e : Expr)
    (hsum : sumSafe true e = true) :
    let a := Store.build (Xml.events (Xml.docTokens top))
    wfb a = true ∧ Spec.describe a = Xml.dataModel top ∧
      Res.Equiv (Model.run a env 0 e) (Spec.runKF a env 0 e) :=
  ⟨(readxml_refines top h).1, (readxml_refines top h).2,
    (Chain.xml_query_refines_spec top h env henv e hsum).2⟩

theorem xml_query_refines_spec_noRound (top : XNodes) (h : WFDoc top)
    (env : Env) (henv : EnvOk (Store.build (Xml.events (Xml.docTokens top))) env) (e : Expr)
    (hsum : sumSafe true e = true)
    (hnr : Chain.noRound e = true) :
    let a := Store.build (Xml.events (Xml.docTokens top))
    Res.Equiv (Model.run a env 0 e) (Spec.run a env 0 e) :=
  Chain.xml_query_refines_spec_noRound top h env henv e hsum hnr

/-- **stream_query_refines_spec** — the same for the tree built from ANY event stream that honours
    the Parser contract (`StoreL.Ordered`) -/
theorem stream_query_refines_spec (evs : List Ev) (ho : StoreL.Ordered evs)
    (env : Env) (henv : EnvOk (Store.build evs) env) (e : Expr)
    (hsum : sumSafe true e = true) :
    wfb (Store.build evs) = true ∧
      Res.Equiv (Model.run (Store.build evs) env 0 e) (Spec.runKF (Store.build evs) env 0 e) :=
  Chain.stream_query_refines_spec evs ho env henv e hsum

/-- the events of the documented JSON trees contain no namespace or attribute event, hence honour
    the Parser contract -/
theorem json_events_ordered (vs : List JVal) : StoreL.Ordered (vs.flatMap Json.eventsOf) :=
  Chain.json_events_ordered vs

/-- **json_query_refines_spec** — ReadJson feeds the store exactly the events of the documented
    `#obj`/`#arr` trees (C16 `json_refines`); the tree built from them satisfies the Cursor
    contract and a query on it evaluates as the specification says -/
theorem json_query_refines_spec (vs : List JVal)
    (env : Env) (henv : EnvOk (Store.build (vs.flatMap Json.eventsOf)) env) (e : Expr)
    (hsum : sumSafe true e = true) :
    Json.adapter (vs.flatMap Json.tokensOf) = some (vs.flatMap Json.eventsOf) ∧
    wfb (Store.build (vs.flatMap Json.eventsOf)) = true ∧
    Res.Equiv (Model.run (Store.build (vs.flatMap Json.eventsOf)) env 0 e)
      (Spec.runKF (Store.build (vs.flatMap Json.eventsOf)) env 0 e) :=
  Chain.json_query_refines_spec vs env henv e hsum

end Xsel.C09
