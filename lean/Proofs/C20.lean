/-
  Proofs/C20.lean — property C20: the CLI prints exactly the library's result for each input file.

  Model: Xsel/Cli.lean (`records`, `block`, `linePrefix`, `escapeNewlines`, `walkArg`, `processed`,
  `stdout`).  What is proved here is the FORMAT and the FILE SELECTION; that the per-file
  `FileResult` is the library's result and that `-m` serialisations parse back are covered by the
  differential families (harness/hx/clifam.go) and C17.

  Proofs: Proofs/Lemmas/CliRecords.lean, CliWalk.lean.
-/
import Proofs.Lemmas.Misc
import Proofs.Lemmas.CliRecords
import Proofs.Lemmas.CliWalk

namespace Xsel.C20
open Xsel Xsel.Cli

/-! ### records of one file -/

/-- an empty node-set prints nothing -/
theorem records_empty_nodeset (f : Flags) (path : Chars) : records f path (.nodes []) = [] := rfl

/-- a file that cannot be read, parsed or queried prints nothing on stdout -/
theorem records_failed (f : Flags) (path : Chars) : records f path .failed = [] := rfl

/-- a string / number / boolean result: one record -/
theorem records_scalar (f : Flags) (path : Chars) (s : Chars) :
    records f path (.scalar s) = [linePrefix f path ++ s] := rfl

/-- no `-a`, no `-m`, non-empty node-set: exactly one record, prefix ++ string-value of the first
    node in document order (a member of the node-set with minimal position) -/
theorem records_default (f : Flags) (path : Chars) (ns : List (Nat × Chars × Chars)) (hne : ns ≠ [])
    (hm : f.asXml = false) (ha : f.printAll = false) :
    ∃ n, n ∈ ns ∧ (∀ m ∈ ns, n.1 ≤ m.1) ∧ firstInDocOrder ns = some n ∧
      records f path (.nodes ns) = [linePrefix f path ++ n.2.1] :=
  Cli.records_default f path ns hne hm ha

theorem firstInDocOrder_minimal (ns : List (Nat × Chars × Chars)) (hne : ns ≠ []) :
    ∃ n, firstInDocOrder ns = some n ∧ n ∈ ns ∧ ∀ m ∈ ns, n.1 ≤ m.1 :=
  firstInDocOrder_spec hne

/-- `-a` (and not `-m`): one record per node, in result order -/
theorem records_all (f : Flags) (path : Chars) (ns : List (Nat × Chars × Chars))
    (hm : f.asXml = false) (ha : f.printAll = true) :
    (records f path (.nodes ns)).length = ns.length ∧
    ∀ i (hi : i < ns.length),
      (records f path (.nodes ns))[i]? = some (linePrefix f path ++ (ns[i]).2.1) := by
  rw [Cli.records_all f path ns hm ha]
  refine ⟨by simp, ?_⟩
  intro i hi
  simp [hi]

/-- `-m`: one record per node, in result order: the escaped (prefix ++ XML serialisation) -/
theorem records_xml (f : Flags) (path : Chars) (ns : List (Nat × Chars × Chars)) (hm : f.asXml = true) :
    (records f path (.nodes ns)).length = ns.length ∧
    ∀ i (hi : i < ns.length),
      (records f path (.nodes ns))[i]? = some (escapeNewlines (linePrefix f path ++ (ns[i]).2.2)) := by
  rw [Cli.records_xml f path ns hm]
  refine ⟨by simp, ?_⟩
  intro i hi
  simp [hi]

/-- the prefix is empty iff `-n` is given or the input is stdin; otherwise it is `path: ` -/
theorem prefix_rule (f : Flags) (path : Chars) :
    (linePrefix f path = [] ↔ (f.suppressNames = true ∨ path = ['-'])) ∧
    (¬ (f.suppressNames = true ∨ path = ['-']) → linePrefix f path = path ++ [':', ' ']) :=
  Cli.prefix_rule f path

/-- `escapeNewlines` leaves no newline … -/
theorem escapeNewlines_no_newline (s : Chars) : '\n' ∉ escapeNewlines s :=
  newline_not_mem_escapeNewlines s

/-- … and changes nothing else -/
theorem escapeNewlines_id (s : Chars) (h : '\n' ∉ s) : escapeNewlines s = s :=
  Cli.escapeNewlines_id s h

/-- with `-m` every record of a node-set result is a single line.  (A scalar result is printed
    unescaped by the tool whatever the flags, `records_scalar`.) -/
theorem m_records_single_line (f : Flags) (path : Chars) (ns : List (Nat × Chars × Chars))
    (hm : f.asXml = true) : ∀ r ∈ records f path (.nodes ns), '\n' ∉ r :=
  Cli.m_records_single_line f path ns hm

/-- the block of a file: its records, each followed by a newline -/
theorem block_is_lines (f : Flags) (path : Chars) (r : FileResult) :
    block f path r = ((records f path r).map (fun l => l ++ ['\n'])).flatten :=
  Cli.block_is_lines f path r

/-! ### which files are processed -/

/-- the processed paths: per argument, in argument order — a file argument itself (once); a
    directory argument: with `-r` every file below it in walk order, without `-r` nothing -/
theorem walk_exact (f : Flags) (args : List FTree) :
    (processed f args).map Prod.fst =
      args.flatMap (fun t => match t with
        | .file n _ => [n]
        | .dir n es => if f.recursive then pathsBelow n es else []) := by
  rw [Cli.walk_exact]
  congr 1

/-- the same as a membership statement with an independently defined "file below a directory" -/
theorem walk_exact_mem (f : Flags) (args : List FTree) (p : Chars) (r : FileResult) :
    (p, r) ∈ processed f args ↔
      (FTree.file p r ∈ args) ∨
      (f.recursive = true ∧ ∃ n es, FTree.dir n es ∈ args ∧ FileBelow n es p r) :=
  mem_processed f args p r

/-- `pathsBelow` lists exactly the files below the directory -/
theorem pathsBelow_exact (n : Chars) (es : FForest) (p : Chars) :
    p ∈ pathsBelow n es ↔ ∃ r, FileBelow n es p r := by
  unfold pathsBelow
  rw [← walkForest_fst, List.mem_map]
  constructor
  · rintro ⟨⟨p', r⟩, h, rfl⟩; exact ⟨r, (mem_walkForest n es p' r).mp h⟩
  · rintro ⟨r, h⟩; exact ⟨(p, r), (mem_walkForest n es p r).mpr h, rfl⟩

/-- directories are never descended without `-r` -/
theorem no_descent_without_r (f : Flags) (n : Chars) (es : FForest) (hr : f.recursive = false) :
    walkArg f (.dir n es) = [] :=
  walkArg_dir_no_r f n es hr

/-! ### a bad file does not affect the output for other files -/

theorem bad_file_isolated (f : Flags) (a b : List FTree) (n : Chars) :
    stdout f (a ++ [.file n .failed] ++ b) = stdout f a ++ stdout f b :=
  Cli.bad_file_isolated f a b n

/-- inside a directory: a failing file between the entries `a` and `b` -/
theorem bad_file_isolated_dir (f : Flags) (base : Chars) (a b : FForest) (n : Chars) :
    outForest f base (a.append (.cons (.file n .failed) b)) = outForest f base a ++ outForest f base b :=
  Cli.bad_file_isolated_dir f base a b n

/-- at any depth, any number of them: stdout is what it would be had the failing files not existed -/
theorem bad_files_isolated_everywhere (f : Flags) (args : List FTree) :
    stdout f (pruneArgs args) = stdout f args :=
  stdout_pruneArgs f args

/-- stdout is the concatenation of the blocks of the processed files, in processing order -/
theorem stdout_is_blocks (f : Flags) (args : List FTree) :
    stdout f args = ((processed f args).map (fun pr => block f pr.1 pr.2)).flatten := by
  simp [stdout, List.flatMap_def]

end Xsel.C20

namespace Xsel.C20
/-- `-s`, `-v`, `-e` arguments are split at their FIRST '=': the key has no '=', the value is
    everything after it (so `-v v=a=b` binds `v` to `a=b`); an argument without '=' is rejected -/
theorem binding_split {s k v : Chars} (h : Cli.splitKV s = some (k, v)) : s = k ++ ('=' :: v) ∧ '=' ∉ k :=
  Cli.splitKV_spec h

theorem binding_rejected {s : Chars} : Cli.splitKV s = none ↔ '=' ∉ s := Cli.splitKV_none
end Xsel.C20
