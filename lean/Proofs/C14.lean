/-
  Proofs/C14.lean — property C14: one cursor tree, one compiled expression and one set of bindings
  may be used by any number of goroutines at once; the command-line tool with `-c N` prints exactly
  the per-file blocks of `-c 1`, each contiguous and intact, in some order.

  Library part: Xsel/Effects.lean; the only mutable state a query touches is the heap of node-set
  backing arrays; threads execute `Op`s on ONE heap in an arbitrary interleaving.
  CLI part: Xsel/Cli.lean `stdoutUnder` — every worker emits its block with a single write.

  Proofs: Proofs/Lemmas/FxConc.lean, FxThreads.lean, CliPool.lean.
-/
import Proofs.Lemmas.FxConc
import Proofs.Lemmas.FxThreads
import Proofs.Lemmas.CliPool

namespace Xsel.C14
open Xsel Xsel.Effects Xsel.Cli

/-! ### e. interleavings on a shared heap -/

/-- two threads, operands = slices of the shared initial heap `h0`.  For every merge `zs` of the
    two operation lists executed on one heap: pairing each operation with the VALUE of its result,
    the run is the same merge of the two solitary runs on `h0` (array ids differ between
    interleavings, values do not); and `h0`'s arrays are unchanged. -/
theorem interleaving_eq_serial (h0 : Heap) (xs ys zs : List Op) (hi : Interleaving xs ys zs)
    (hx : ∀ o ∈ xs, ∀ s ∈ o.operands, s.valid h0) (hy : ∀ o ∈ ys, ∀ s ∈ o.operands, s.valid h0) :
    Interleaving (xs.zip (vals h0 xs)) (ys.zip (vals h0 ys)) (zs.zip (vals h0 zs)) ∧
    (∀ id, id < h0.size → (runList h0 zs).1.arrD id = h0.arrD id) :=
  interleaving_eq_serial_shared h0 hi (fun o ho => Op.valid.inHeap (hx o ho))
    (fun o ho => Op.valid.inHeap (hy o ho))

/-- any number of threads: in ANY sequence of operations over shared inputs, each returns the value
    it denotes on `h0`, independent of everything that ran before it -/
theorem any_schedule (h0 : Heap) (zs : List Op) (hz : ∀ o ∈ zs, ∀ s ∈ o.operands, s.valid h0) :
    vals h0 zs = zs.map (Op.value h0) ∧
    (∀ id, id < h0.size → (runList h0 zs).1.arrD id = h0.arrD id) :=
  any_schedule_shared h0 zs (fun o ho => Op.valid.inHeap (hz o ho))

/-- `n` threads whose operations may also use the thread's OWN earlier results (`Ref.own i`): after
    any schedule, every thread's results show the values they show when the thread runs its program
    alone on `h0`; `h0`'s arrays are unchanged -/
theorem interleaving_eq_serial_own (h0 : Heap) (zs : List (Nat × POp))
    (hok : ∀ t, threadOk h0.size 0 (opsOf t zs)) :
    (∀ t, ((runShared ⟨h0, fun _ => []⟩ zs).own t).map (read (runShared ⟨h0, fun _ => []⟩ zs).heap)
          = (runThread (h0, []) (opsOf t zs)).values) ∧
    (∀ id, id < h0.size → (runShared ⟨h0, fun _ => []⟩ zs).heap.arrD id = h0.arrD id) :=
  interleaving_eq_serial_n h0 zs hok

/-- the two-thread instance, with the schedule given as a merge of the two programs -/
theorem interleaving_eq_serial_own_two (h0 : Heap) (xs ys : List POp) (zs : List (Nat × POp))
    (hi : Interleaving (xs.map (fun p => (0, p))) (ys.map (fun p => (1, p))) zs)
    (hx : threadOk h0.size 0 xs) (hy : threadOk h0.size 0 ys) :
    let fin := runShared ⟨h0, fun _ => []⟩ zs
    (fin.own 0).map (read fin.heap) = (runThread (h0, []) xs).values ∧
    (fin.own 1).map (read fin.heap) = (runThread (h0, []) ys).values ∧
    (∀ id, id < h0.size → fin.heap.arrD id = h0.arrD id) :=
  interleaving_eq_serial_two h0 xs ys zs hi hx hy

/-- every array whose content an operation changes is one it allocated (`writeSet`) -/
theorem writes_sound (o : Op) (h : Heap) (id : Nat) (hne : (o.run h).1.arrD id ≠ h.arrD id) :
    h.size ≤ id ∧ id < (o.run h).1.size :=
  written_in_writeSet o h id hne

/-- no array is written by one operation and read or written by an operation that runs later on
    the same heap, nor the other way round, when both take their inputs from what existed before
    the first of them ran -/
theorem no_conflicting_access (o1 o2 : Op) (h1 h2 : Heap)
    (hlater : (o1.run h1).1.size ≤ h2.size) (hin1 : o1.inHeap h1) (hin2 : o2.inHeap h1) (id : Nat) :
    ¬ (writeSet o1 h1 id ∧ accessSet o2 h2 id) ∧ ¬ (writeSet o2 h2 id ∧ accessSet o1 h1 id) :=
  Effects.no_conflicting_access o1 o2 h1 h2 hlater hin1 hin2 id

/-- the same inside an interleaved execution `pre ++ o1 :: mid ++ [o2] ++ …` from `h0` -/
theorem no_conflicting_access_run (h0 : Heap) (pre : List Op) (o1 : Op) (mid : List Op) (o2 : Op)
    (hin1 : o1.inHeap h0) (hin2 : o2.inHeap h0) (id : Nat) :
    ¬ (writeSet o1 (runList h0 pre).1 id ∧ accessSet o2 (runList h0 (pre ++ o1 :: mid)).1 id) ∧
    ¬ (writeSet o2 (runList h0 (pre ++ o1 :: mid)).1 id ∧ accessSet o1 (runList h0 pre).1 id) :=
  Effects.no_conflicting_access_run h0 pre o1 mid o2 hin1 hin2 id

/-! ### f. the CLI worker pool -/

/-- stdout under a schedule is the concatenation of whole blocks in the order of the schedule -/
theorem cli_output_perm (f : Flags) (args : List FTree) (schedule : List Nat) :
    stdoutUnder f args schedule
      = (schedule.map (fun i => (blocks f args).getD i [])).flatten :=
  stdoutUnder_eq f args schedule

/-- `-c 1`: the workers' writes arrive in processing order -/
theorem cli_c1 (f : Flags) (args : List FTree) :
    stdoutUnder f args (List.range (processed f args).length) = stdout f args := by
  rw [stdoutUnder_eq, blocksUnder_range, stdout_eq]

/-- under any permutation schedule the printed blocks are, as a multiset, those of `-c 1` -/
theorem cli_blocks_multiset (f : Flags) (args : List FTree) (schedule : List Nat)
    (hp : schedule.Perm (List.range (processed f args).length)) :
    (blocksUnder f args schedule).Perm (blocksUnder f args (List.range (processed f args).length)) ∧
    blocksUnder f args (List.range (processed f args).length) = blocks f args ∧
    stdout f args = (blocks f args).flatten := by
  refine ⟨?_, blocksUnder_range f args, stdout_eq f args⟩
  rw [blocksUnder_range]; exact blocksUnder_perm f args schedule hp

/-- every printed block is the intact block of a processed file and every processed file's block
    is printed -/
theorem cli_blocks_intact (f : Flags) (args : List FTree) (schedule : List Nat)
    (hp : schedule.Perm (List.range (processed f args).length)) (b : Chars) :
    b ∈ blocksUnder f args schedule ↔ ∃ pr ∈ processed f args, b = block f pr.1 pr.2 :=
  mem_blocksUnder f args schedule hp b

end Xsel.C14
