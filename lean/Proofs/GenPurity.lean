/-
  Proofs/GenPurity.lean — package-level state, in-place operations, goroutines, writes to stdout.
  Theorems over the fact tables regenerated from /repo on every run (`xh facts` → Generated/Facts.lean),
  closed by kernel evaluation: a change of the source that alters a table makes the theorem fail to check.
-/
import Generated.Facts
import Proofs.Expect

namespace Xsel.Gen
open Xsel

/-- **inplace_ops_on_fresh** — every call that sorts a slice in place (sort.Sort, cleanupForwardAxis,
    cleanupBackwardAxis, unionCleanup) is applied to a slice created in the same function; the only
    exceptions are the three cleanup helpers themselves, which sort their parameter. -/
theorem inplace_ops_on_fresh :
    (Generated.sortSites.all fun s => s.2.2 == "fresh-local" ||
      ["exec.cleanupForwardAxis", "exec.cleanupBackwardAxis", "exec.unionCleanup"].contains s.1) = true := by
  decide +kernel

/-- **no_shared_writes** — in the LIBRARY packages (everything but the command-line tool's package
    `main`) no function assigns to a package-level variable or calls a mutating/synchronising method
    (Store, LoadOrStore, Delete, Lock, …) on one: no caches, counters or memo tables are shared
    between queries. -/
theorem no_shared_writes :
    (Generated.globalWrites.all fun w => w.1 == "main") = true := by decide +kernel

/-- **one_write_per_block** — the command-line tool writes to standard output at exactly one call
    site (the `fmt.Print` of a file's whole block), the premise of `cli_output_perm` -/
theorem one_write_per_block :
    (Generated.stdoutWrites.length == 1 && Generated.stdoutWrites.all (fun w => w.1 == "main")) = true := by
  decide +kernel

/-- the only goroutines are started by the command-line tool (its per-file workers) -/
theorem go_statements_only_in_cli :
    (Generated.goStmts.all fun g => g.1 == "main") = true := by decide +kernel

end Xsel.Gen
