/-
  Proofs/GenPurity.lean — package-level state, in-place operations, goroutines, writes to stdout.
  Theorems over the fact tables regenerated from /repo on every run (`xh facts` → Generated/Facts.lean),
  closed by kernel evaluation: a change of the source that alters a table makes the theorem fail to check.
-/
import Generated.Facts
import Proofs.Expect

namespace Xsel.Gen
open Xsel

/-- **inplace_ops_on_fresh** — every call that sorts a slice in place (sort.Sort, cleanupForwardAxis,
    cleanupBackwardAxis, unionCleanup) is applied to a slice created in the same function; the only
    exceptions are the three cleanup helpers themselves, which sort their parameter. -/
theorem inplace_ops_on_fresh :
    (Generated.sortSites.all fun s => s.2.2 == "fresh-local" ||
      ["exec.cleanupForwardAxis", "exec.cleanupBackwardAxis", "exec.unionCleanup"].contains s.1) = true := by
  decide +kernel

/-- **no_shared_writes** — outside the command-line tool's `main`, no function assigns to a
    package-level variable or calls a mutating/synchronising method (Store, LoadOrStore, Delete, Lock, …)
    on one (no caches, counters or memo tables shared between queries); the CLI's directory walker only
    adds to its WaitGroup. -/
theorem no_shared_writes :
    (Generated.globalWrites.all fun w => w.1 == "main.main" || w == ("main.walker", "fileSync.Add")) = true := by decide +kernel

/-- **one_write_per_block** — the command-line tool writes to standard output in exactly one place:
    the single `fmt.Print` of a file's whole block in `executeXpath` (the premise of `cli_output_perm`) -/
theorem one_write_per_block :
    Generated.stdoutWrites = [("main.executeXpath", "fmt.Print")] := by decide +kernel

/-- the only goroutines are the command-line tool's per-file workers -/
theorem go_statements_only_in_cli :
    Generated.goStmts = [("main.main", "runXpathOnStdin"), ("main.walker", "runXpathOnFile")] := by decide +kernel


end Xsel.Gen
