/-
  Proofs/C16.lean — property C16: ReadJson maps JSON to the documented #obj/#arr element tree.

  `Json.adapter` is the model of `jsonParser.Pull` (parser/json.go, after the `fix:` commit) driven
  to io.EOF over the token list of `encoding/json.Decoder.Token()`; `Json.eventsOf` is the README
  mapping (the events of the tree a JSON value denotes) and `Json.tokensOf` the token stream of a
  value.  The proofs are in Proofs/Lemmas/JsonRefine.lean (single-token lemmas for the three value
  positions — top level, array frame, object frame that has just read a key —, `runNF_append`, and
  mutual structural recursion over values / items / members).
-/
import Proofs.Lemmas.JsonRefine

namespace Xsel.C16
open Xsel Xsel.Json

/-- non-vacuity: `{"a": [null, {}], "a": "x"} "top"` (nested containers, an empty object after an
    item, a duplicate key, a scalar after a container, two top-level values) -/
def sample : List JVal :=
  [.obj (.cons ['a'] (.arr (.cons .null (.cons (.obj .nil) .nil)))
          (.cons ['a'] (.str ['x']) .nil)),
   .str ['t', 'o', 'p']]

example : sample.flatMap tokensOf =
    [.lbrace, .str ['a'], .lbrack, .null, .lbrace, .rbrace, .rbrack, .str ['a'], .str ['x'],
     .rbrace, .str ['t', 'o', 'p']] := by decide

example : adapter (sample.flatMap tokensOf) =
    some [.elem [] ['#', 'o', 'b', 'j'], .elem [] ['a'], .elem [] ['#', 'a', 'r', 'r'],
          .text ['n', 'u', 'l', 'l'], .elem [] ['#', 'o', 'b', 'j'], .close, .close, .close,
          .elem [] ['a'], .text ['x'], .close, .close, .text ['t', 'o', 'p']] := by decide

/-- the same text cut after `{"a": [null, {}]` is an error -/
example : adapter [.lbrace, .str ['a'], .lbrack, .null, .lbrace, .rbrace, .rbrack] = none := by
  decide

/-- **json_refines** — for every sequence of top-level JSON values (any nesting, empty containers,
    duplicate keys, scalars at top level) the adapter accepts the token stream and returns exactly
    the events of the documented trees, in order -/
theorem json_refines (vs : List JVal) :
    Json.adapter (vs.flatMap Json.tokensOf) = some (vs.flatMap Json.eventsOf) :=
  Json.json_refines vs

/-- one value -/
theorem json_refines_one (v : JVal) : Json.adapter (Json.tokensOf v) = some (Json.eventsOf v) := by
  simpa using Json.json_refines [v]

/-- **json_truncated_errors** — complete top-level values followed by a proper, non-empty prefix
    of the tokens of a further value: the input ends inside an array or an object (a scalar is a
    single token and has no such prefix) and `ReadJson` reports an error instead of returning a
    shorter tree -/
theorem json_truncated_errors (vs : List JVal) (v : JVal) (p : List Json.Tok)
    (hp : p <+: Json.tokensOf v) (hne : p ≠ []) (hproper : p ≠ Json.tokensOf v) :
    Json.adapter (vs.flatMap Json.tokensOf ++ p) = none :=
  Json.json_truncated_errors vs v p hp hne hproper

/-- a truncated array -/
theorem json_truncated_array (items : JList) (p : List Json.Tok)
    (hp : p <+: Json.tokensOf (.arr items)) (hne : p ≠ []) (hproper : p ≠ Json.tokensOf (.arr items)) :
    Json.adapter p = none := by
  simpa using Json.json_truncated_errors [] (.arr items) p hp hne hproper

/-- a truncated object -/
theorem json_truncated_object (ms : JMembers) (p : List Json.Tok)
    (hp : p <+: Json.tokensOf (.obj ms)) (hne : p ≠ []) (hproper : p ≠ Json.tokensOf (.obj ms)) :
    Json.adapter p = none := by
  simpa using Json.json_truncated_errors [] (.obj ms) p hp hne hproper

/-- the depth of the stack the adapter is left with is the nesting depth of the unfinished part -/
theorem json_stack_depth (vs : List JVal) (p : List Json.Tok) :
    (Json.run [] (vs.flatMap Json.tokensOf ++ p)).1.length = Json.depth 0 p :=
  Json.length_run_values_prefix vs p

/-- **json_siblings_never_merged** — the documented tree has one text event per scalar leaf -/
theorem json_siblings_never_merged (v : JVal) :
    (Json.eventsOf v).countP Json.Ev.isText = Json.leaves v :=
  Json.json_siblings_never_merged v

/-- … and their values are the string forms of the leaves, in document order -/
theorem json_texts_are_leaves (v : JVal) : Json.texts (Json.eventsOf v) = Json.leafVals v :=
  Json.texts_eventsOf v

/-- hence the adapter's output has one text event per scalar leaf of the input -/
theorem json_adapter_texts (vs : List JVal) :
    ∃ evs, Json.adapter (vs.flatMap Json.tokensOf) = some evs ∧
      Json.texts evs = vs.flatMap Json.leafVals := by
  refine ⟨_, Json.json_refines vs, ?_⟩
  induction vs with
  | nil => rfl
  | cons v vs ih => simp [Json.texts_append, Json.texts_eventsOf, ih]

end Xsel.C16
