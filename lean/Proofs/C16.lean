/-
  Proofs/C16.lean — property C16: ReadJson maps JSON to the documented #obj/#arr element tree.

  `Json.adapter` is the model of `jsonParser.Pull` (parser/json.go, after the `fix:` commit) driven
  to io.EOF over the token list of `encoding/json.Decoder.Token()`; `Json.eventsOf` is the README
  mapping (the events of the tree a JSON value denotes) and `Json.tokensOf` the token stream of a
  value.  The proofs are in Proofs/Lemmas/JsonRefine.lean (single-token lemmas for the three value
  positions — top level, array frame, object frame that has just read a key —, `runNF_append`, and
  mutual structural recursion over values / items / members).

  The TEXT level (`Xsel/JsonText.lean`: `parseText`, `tokensOfText` = what `Decoder.Token()` yields for
  the characters of a stream of JSON texts) is connected at the end: `json_text_accepted` (every text
  the reader accepts is mapped to the documented trees of its values) and `json_text_refines` (the
  canonical rendering of a value, also with white space inserted, is such a text and denotes that
  value); the proofs are in Proofs/Lemmas/JsonText.lean and Proofs/Lemmas/JsonNum.lean.

  The reader on ARBITRARY texts (Proofs/Lemmas/JsonSound.lean): `json_reader_fuel_adequate` (the fuel
  `parseText` gives the reader is enough for every text), `json_reader_ignores_nothing` (an accepted
  text is, character for character, a spelling `Json.SpellsStream` of the returned values: RFC 8259
  with optional white space, nothing is skipped) and `json_reader_exact` (the accepted texts are
  exactly these streams, split by maximal munch; a rejected text is none).
-/
import Proofs.Lemmas.JsonRefine
import Proofs.Lemmas.JsonText
import Proofs.Lemmas.JsonNum
import Proofs.Lemmas.JsonSound

namespace Xsel.C16
open Xsel Xsel.Json

/-- non-vacuity: `{"a": [null, {}], "a": "x"} "top"` (nested containers, an empty object after an
    item, a duplicate key, a scalar after a container, two top-level values) -/
def sample : List JVal :=
  [.obj (.cons ['a'] (.arr (.cons .null (.cons (.obj .nil) .nil)))
          (.cons ['a'] (.str ['x']) .nil)),
   .str ['t', 'o', 'p']]

example : sample.flatMap tokensOf =
    [.lbrace, .str ['a'], .lbrack, .null, .lbrace, .rbrace, .rbrack, .str ['a'], .str ['x'],
     .rbrace, .str ['t', 'o', 'p']] := by decide

example : adapter (sample.flatMap tokensOf) =
    some [.elem [] ['#', 'o', 'b', 'j'], .elem [] ['a'], .elem [] ['#', 'a', 'r', 'r'],
          .text ['n', 'u', 'l', 'l'], .elem [] ['#', 'o', 'b', 'j'], .close, .close, .close,
          .elem [] ['a'], .text ['x'], .close, .close, .text ['t', 'o', 'p']] := by decide

/-- the same text cut after `{"a": [null, {}]` is an error -/
example : adapter [.lbrace, .str ['a'], .lbrack, .null, .lbrace, .rbrace, .rbrack] = none := by
  decide

/-- **json_refines** — for every sequence of top-level JSON values (any nesting, empty containers,
    duplicate keys, scalars at top level) the adapter accepts the token stream and returns exactly
    the events of the documented trees, in order -/
theorem json_refines (vs : List JVal) :
    Json.adapter (vs.flatMap Json.tokensOf) = some (vs.flatMap Json.eventsOf) :=
  Json.json_refines vs

/-- one value -/
theorem json_refines_one (v : JVal) : Json.adapter (Json.tokensOf v) = some (Json.eventsOf v) := by
  simpa using Json.json_refines [v]

/-- **json_truncated_errors** — complete top-level values followed by a proper, non-empty prefix
    of the tokens of a further value: the input ends inside an array or an object (a scalar is a
    single token and has no such prefix) and `ReadJson` reports an error instead of returning a
    shorter tree -/
theorem json_truncated_errors (vs : List JVal) (v : JVal) (p : List Json.Tok)
    (hp : p <+: Json.tokensOf v) (hne : p ≠ []) (hproper : p ≠ Json.tokensOf v) :
    Json.adapter (vs.flatMap Json.tokensOf ++ p) = none :=
  Json.json_truncated_errors vs v p hp hne hproper

/-- a truncated array -/
theorem json_truncated_array (items : JList) (p : List Json.Tok)
    (hp : p <+: Json.tokensOf (.arr items)) (hne : p ≠ []) (hproper : p ≠ Json.tokensOf (.arr items)) :
    Json.adapter p = none := by
  simpa using Json.json_truncated_errors [] (.arr items) p hp hne hproper

/-- a truncated object -/
theorem json_truncated_object (ms : JMembers) (p : List Json.Tok)
    (hp : p <+: Json.tokensOf (.obj ms)) (hne : p ≠ []) (hproper : p ≠ Json.tokensOf (.obj ms)) :
    Json.adapter p = none := by
  simpa using Json.json_truncated_errors [] (.obj ms) p hp hne hproper

/-- the depth of the stack the adapter is left with is the nesting depth of the unfinished part -/
theorem json_stack_depth (vs : List JVal) (p : List Json.Tok) :
    (Json.run [] (vs.flatMap Json.tokensOf ++ p)).1.length = Json.depth 0 p :=
  Json.length_run_values_prefix vs p

/-- **json_siblings_never_merged** — the documented tree has one text event per scalar leaf -/
theorem json_siblings_never_merged (v : JVal) :
    (Json.eventsOf v).countP Json.Ev.isText = Json.leaves v :=
  Json.json_siblings_never_merged v

/-- … and their values are the string forms of the leaves, in document order -/
theorem json_texts_are_leaves (v : JVal) : Json.texts (Json.eventsOf v) = Json.leafVals v :=
  Json.texts_eventsOf v

/-- hence the adapter's output has one text event per scalar leaf of the input -/
theorem json_adapter_texts (vs : List JVal) :
    ∃ evs, Json.adapter (vs.flatMap Json.tokensOf) = some evs ∧
      Json.texts evs = vs.flatMap Json.leafVals := by
  refine ⟨_, Json.json_refines vs, ?_⟩
  induction vs with
  | nil => rfl
  | cons v vs ih => simp [Json.texts_append, Json.texts_eventsOf, ih]

/-! ### from the characters of the text -/

/-- **json_text_accepted** — whenever the characters are a stream of JSON texts with the values
    `vs`, the adapter run on the tokens of the text returns the events of the documented trees of
    `vs`, in order -/
theorem json_text_accepted (cs : Chars) (vs : List JVal) (h : Json.parseText cs = some vs) :
    (Json.tokensOfText cs).bind Json.adapter = some (vs.flatMap Json.eventsOf) := by
  simp [Json.tokensOfText, h, Json.json_refines vs]

/-- **json_text_refines** — end to end from the text: the canonical rendering of a value (numbers
    `numOkJ`: their 'g' text is read back as the same double) is tokenised to the tokens of the
    value and the adapter returns exactly the events of its documented tree -/
theorem json_text_refines (v : JVal) (h : Json.wfJ v = true) :
    (Json.tokensOfText (Json.renderJson v)).bind Json.adapter = some (Json.eventsOf v) := by
  simpa using json_text_accepted _ [v] (Json.parseText_render v h)

/-- … and the white space `sp` (any mix of space, tab, newline, carriage return) after `[` `{`,
    around `,` `:` and before `]` `}`, and `ws1`/`ws2` before and after the text, change nothing -/
theorem json_text_refines_ws (ws1 sp ws2 : Chars) (v : JVal) (h1 : Json.AllWs ws1)
    (hsp : Json.AllWs sp) (h2 : Json.AllWs ws2) (h : Json.wfJ v = true) :
    (Json.tokensOfText (ws1 ++ (Json.renderW sp v ++ ws2))).bind Json.adapter =
      some (Json.eventsOf v) := by
  simpa using json_text_accepted _ [v] (Json.parseText_renderW_ws ws1 sp ws2 v h1 hsp h2 h)

/-- … in particular for EVERY value whose numbers are finite doubles (`finJ`: no NaN, no infinity —
    these have no JSON text): Go's 'g' text of a double is read back as the same double
    (`numOkJ_of_double`, Proofs/Lemmas/JsonNum.lean) -/
theorem json_text_refines_fin (v : JVal) (h : Json.finJ v = true) :
    (Json.tokensOfText (Json.renderJson v)).bind Json.adapter = some (Json.eventsOf v) :=
  json_text_refines v (Json.wfJ_of_finJ v h)

/-- a stream of values, each followed by a newline (the output of `json.Encoder`) -/
theorem json_text_refines_stream (vs : List JVal) (h : ∀ v ∈ vs, Json.wfJ v = true) :
    (Json.tokensOfText (Json.renderStream vs)).bind Json.adapter = some (vs.flatMap Json.eventsOf) :=
  json_text_accepted _ vs (Json.parseText_stream vs h)

/-- non-vacuity: the text `{"a":[1,"x\u000a",null],"a":-2.5}` -/
example : Json.wfJ Json.sampleV = true := by decide +kernel
example : (Json.tokensOfText "{\"a\":[1,\"x\\u000a\",null],\"a\":-2.5}".toList).bind Json.adapter =
    some (Json.eventsOf Json.sampleV) := by decide +kernel

/-! ### the reader on arbitrary texts -/

/-- **json_reader_fuel_adequate** — the reader is a fuel-taking recursive-descent reader
    (`Json.pTop`, over `Json.pVal`/`pTail`/`pMember`/`pMTail`) and `parseText cs` runs it with the
    fuel `cs.length + 1`.  That fuel is enough for EVERY text: whatever the reader reads with any
    amount of fuel is what `parseText` answers, so `parseText cs = none` is a verdict about the
    text and never an artefact of the fuel -/
theorem json_reader_fuel_adequate (cs : Chars) (vs : List JVal) :
    (∃ f, Json.pTop f cs = some vs) ↔ Json.parseText cs = some vs :=
  Json.parseText_fuel_adequate cs vs

/-- more fuel never changes an answer of the value reader -/
theorem json_reader_fuel_monotone {f g : Nat} (hfg : f ≤ g) (cs : Chars) (x : JVal × Chars)
    (h : Json.pVal f cs = some x) : Json.pVal g cs = some x :=
  Json.pVal_mono hfg cs x h

/-- a value that is read with some fuel is read with every fuel that is at least the number of
    characters it spans -/
theorem json_value_fuel_linear (f : Nat) (cs : Chars) (v : JVal) (r : Chars)
    (h : Json.pVal f cs = some (v, r)) (g : Nat) (hg : cs.length ≤ r.length + g) :
    Json.pVal g cs = some (v, r) :=
  Json.pVal_adequate f cs v r h g hg

/-- **json_reader_ignores_nothing** — an accepted text is a stream of JSON texts of the returned
    values (`Json.SpellsStream`: white space, then each value spelled after RFC 8259 —
    `Json.Spells`, `Json.SpellsStr`, `Json.SpellsNum` — and followed by optional white space):
    every character of the text belongs to the spelling of a value or is white space where the
    grammar allows it; no character is skipped and nothing is read that is not there -/
theorem json_reader_ignores_nothing (cs : Chars) (vs : List JVal)
    (h : Json.parseText cs = some vs) : Json.SpellsStream vs cs :=
  Json.parseText_sound cs vs h

/-- **json_reader_exact** — and conversely: the accepted texts are EXACTLY the streams of JSON
    texts, split by maximal munch (`Json.Munch`: a top-level number that is directly followed by a
    digit is the literal `0` or `-0`, so `12` is one number and `01` is two, as in Go's decoder) -/
theorem json_reader_exact (cs : Chars) (vs : List JVal) :
    Json.parseText cs = some vs ↔ Json.SpellsStreamExact vs cs :=
  Json.parseText_exact cs vs

/-- a text spells at most one value -/
theorem json_spelling_unique {v w : JVal} {t : Chars} (h1 : Json.Spells v t) (h2 : Json.Spells w t) :
    v = w :=
  Json.Spells.unique h1 h2

/-- a rejected text is rejected with every fuel and is not a stream of JSON texts -/
theorem json_reader_rejects (cs : Chars) (h : Json.parseText cs = none) :
    (∀ f, Json.pTop f cs = none) ∧ ∀ vs, ¬ Json.SpellsStreamExact vs cs :=
  Json.parseText_none cs h

/-- non-vacuity: the text `{"a":[1,2,{"b":null}],"c":"d"} 7` is accepted, its values have the tokens
    `{ "a" [ 1 2 { "b" null } ] "c" "d" } 7`, the text spells them, and every sufficient fuel reads
    them -/
example : ∃ vs, Json.parseText "{\"a\":[1,2,{\"b\":null}],\"c\":\"d\"} 7".toList = some vs ∧
    vs.flatMap Json.tokensOf =
      [.lbrace, .str ['a'], .lbrack, .num (.fin 1), .num (.fin 2), .lbrace, .str ['b'], .null,
       .rbrace, .rbrack, .str ['c'], .str ['d'], .rbrace, .num (.fin 7)] ∧
    Json.SpellsStream vs "{\"a\":[1,2,{\"b\":null}],\"c\":\"d\"} 7".toList ∧
    Json.SpellsStreamExact vs "{\"a\":[1,2,{\"b\":null}],\"c\":\"d\"} 7".toList ∧
    ∀ g, 33 ≤ g → Json.pTop g "{\"a\":[1,2,{\"b\":null}],\"c\":\"d\"} 7".toList = some vs := by
  have h : Json.tokensOfText "{\"a\":[1,2,{\"b\":null}],\"c\":\"d\"} 7".toList =
      some [.lbrace, .str ['a'], .lbrack, .num (.fin 1), .num (.fin 2), .lbrace, .str ['b'], .null,
       .rbrace, .rbrack, .str ['c'], .str ['d'], .rbrace, .num (.fin 7)] := by decide +kernel
  simp only [Json.tokensOfText, Option.map_eq_some_iff] at h
  obtain ⟨vs, hp, ht⟩ := h
  refine ⟨vs, hp, ht, json_reader_ignores_nothing _ _ hp, (json_reader_exact _ _).1 hp, ?_⟩
  intro g hg
  exact Json.pTop_adequate _ _ _ hp g (by
    have : "{\"a\":[1,2,{\"b\":null}],\"c\":\"d\"} 7".toList.length = 32 := by decide
    omega)

/-- non-vacuity of the rejection: `[1 2]` (no comma) and `[1,` (truncated) are not streams of JSON
    texts, with whatever fuel -/
example : (∀ f, Json.pTop f "[1 2]".toList = none) ∧
    ∀ vs, ¬ Json.SpellsStreamExact vs "[1 2]".toList := by
  refine json_reader_rejects _ ?_
  have h : Json.tokensOfText "[1 2]".toList = none := by decide +kernel
  simpa [Json.tokensOfText] using h

/-- maximal munch: `12` is one number, `01` is two (a leading `0` ends the integer part) -/
example : Json.tokensOfText "12".toList = some [.num (.fin 12)] := by decide +kernel
example : Json.tokensOfText "01".toList = some [.num (.fin 0), .num (.fin 1)] := by decide +kernel

end Xsel.C16
