/-
  Proofs/C12.lean — property C12: the node functions `name`, `local-name`, `namespace-uri`,
  `count` and `lang` report facts of the nodes they are given.

  * `name_fns_spec`, `name_eq_local_iff_no_uri`, `name_fns_perm_invariant`, `name_fns_builtin`:
    the three name functions are `nameOf`, which reads the first node in document order;
  * `lang_spec` (+ examples), `findLang_unfold`, `findLang_fuel`, `findLang_spec`, `lang_builtin`;
  * `count_spec`.

  Function names are kept abstract (`String.ofList nm = "count"`); instantiate with
  `String.ofList_toList`.
-/
import Proofs.Lemmas.EvalCalls

namespace Xsel.C12
open Xsel Arena

/-! ## a. name(), local-name(), namespace-uri() -/

/-- an empty node-set has no first node; a non-empty one has a first node in document order:
    a member that is ≤ every member (cell indices are document order) -/
theorem firstDoc_cases (l : List Nat) :
    (l = [] ∧ Model.firstDoc l = none) ∨
    (∃ m, Model.firstDoc l = some m ∧ m ∈ l ∧ ∀ y ∈ l, m ≤ y) := by
  cases l with
  | nil => exact .inl ⟨rfl, rfl⟩
  | cons x xs => exact .inr ⟨_, rfl, Model.firstDoc_spec rfl⟩

/-- the expanded name as the library prints it: `loc`, or `{uri}loc` -/
def expanded (uri loc : Chars) : Chars := if uri = [] then loc else '{' :: (uri ++ '}' :: loc)

theorem xmlNameStr_eq (uri loc : Chars) : xmlNameStr uri loc = expanded uri loc := by
  cases uri <;> simp [xmlNameStr, expanded]

/-- **name_fns_spec** — of an empty node-set every name is the empty string; otherwise the names
    are those of the FIRST NODE IN DOCUMENT ORDER `m` (however the node-set is listed):
    element/attribute: local name, namespace URI, expanded name; processing instruction: its
    target and no URI; namespace node: its prefix and no URI; root, text, comment: "". -/
theorem name_fns_spec (a : Arena) :
    (∀ k, nameOf a k [] = []) ∧
    ∀ (l : List Nat) (m : Nat), Model.firstDoc l = some m →
      (m ∈ l ∧ ∀ y ∈ l, m ≤ y) ∧
      (a.kind m = .elem ∨ a.kind m = .attr →
        nameOf a .loc l = (a.cell m).loc ∧ nameOf a .uri l = (a.cell m).uri ∧
        nameOf a .full l = expanded (a.cell m).uri (a.cell m).loc) ∧
      (a.kind m = .pi ∨ a.kind m = .ns →
        nameOf a .loc l = (a.cell m).loc ∧ nameOf a .uri l = [] ∧
        nameOf a .full l = (a.cell m).loc) ∧
      (a.kind m = .root ∨ a.kind m = .text ∨ a.kind m = .comment → ∀ k, nameOf a k l = []) := by
  refine ⟨fun k => rfl, ?_⟩
  intro l m hm
  refine ⟨Model.firstDoc_spec hm, ?_, ?_, ?_⟩
  · intro hk
    simp only [Arena.kind] at hk
    rcases hk with hk | hk <;> simp only [nameOf, hm, hk, xmlNameStr_eq, and_self]
  · intro hk
    simp only [Arena.kind] at hk
    rcases hk with hk | hk <;> simp only [nameOf, hm, hk, and_self]
  · intro hk k
    simp only [Arena.kind] at hk
    rcases hk with hk | hk | hk <;> simp only [nameOf, hm, hk]

/-- **name_eq_local_iff_no_uri** — `name()` is `local-name()` exactly for names in no namespace;
    a name in a namespace is printed `{uri}local` -/
theorem name_eq_local_iff_no_uri (a : Arena) (l : List Nat) (m : Nat)
    (hm : Model.firstDoc l = some m) (hk : a.kind m = .elem ∨ a.kind m = .attr) :
    ((a.cell m).uri = [] → nameOf a .full l = (a.cell m).loc) ∧
    ((a.cell m).uri ≠ [] → nameOf a .full l = '{' :: ((a.cell m).uri ++ '}' :: (a.cell m).loc)) ∧
    (nameOf a .full l = nameOf a .loc l ↔ (a.cell m).uri = []) := by
  obtain ⟨_, h, _, _⟩ := (name_fns_spec a).2 l m hm
  obtain ⟨hl, _, hf⟩ := h hk
  rw [hf, hl]
  refine ⟨fun hu => by simp [expanded, hu], fun hu => by simp [expanded, hu], ?_⟩
  constructor
  · intro he
    by_cases hu : (a.cell m).uri = []
    · exact hu
    · simp only [expanded, hu, if_false] at he
      have := congrArg List.length he
      simp at this
      omega
  · intro hu; simp [expanded, hu]

/-- the names do not depend on the order in which the node-set is listed -/
theorem name_fns_perm_invariant (a : Arena) (k : NameKind) {l l' : List Nat} (hp : l.Perm l') :
    nameOf a k l = nameOf a k l' := nameOf_congr a k hp

/-- the three library functions are `nameOf` of the argument (of the context node-set when there is no
    argument); an argument that is not a node-set, or more than one argument, is an error -/
theorem name_fns_builtin (sem : Sem) (c : Ctx) (nm : Chars) (k : NameKind)
    (hnm : (String.ofList nm = "local-name" ∧ k = .loc) ∨ (String.ofList nm = "namespace-uri" ∧ k = .uri)
      ∨ (String.ofList nm = "name" ∧ k = .full)) :
    (∀ l, builtin sem c nm [.nodes l] = some (.ok (.str (nameOf c.a k l)))) ∧
    (∀ l, c.result = .nodes l → builtin sem c nm [] = some (.ok (.str (nameOf c.a k l)))) ∧
    (∀ v, (∀ l, v ≠ .nodes l) → builtin sem c nm [v] = some (.error .notNodeSet)) ∧
    (∀ v w vs, builtin sem c nm (v :: w :: vs) = some (.error .arity)) := by
  rcases hnm with ⟨hnm, rfl⟩ | ⟨hnm, rfl⟩ | ⟨hnm, rfl⟩
  all_goals
    refine ⟨fun l => ?_, fun l hl => ?_, fun v hv => ?_, fun v w vs => ?_⟩
    · unfold builtin; simp only [hnm]
    · unfold builtin; simp only [hnm, hl]
    · unfold builtin; simp only [hnm]
    · unfold builtin; simp only [hnm]

/-! ## b. lang() -/

/-- ASCII lower-casing of a string -/
def lower (s : Chars) : Chars := s.map Str.asciiLower

/-- **lang_spec** — §4.3: the language equals the argument, or starts with the argument followed
    by `-`, ignoring ASCII case -/
theorem lang_spec (arg lang : Chars) :
    Str.langMatch arg lang = true ↔
      lower arg = lower lang ∨ ∃ rest, lower lang = lower arg ++ '-' :: rest := by
  simp only [Str.langMatch, lower, Bool.or_eq_true, beq_iff_eq, List.isPrefixOf_iff_prefix]
  constructor
  · rintro (h | ⟨t, ht⟩)
    · exact .inl h
    · exact .inr ⟨t, by rw [← ht]; simp⟩
  · rintro (h | ⟨t, ht⟩)
    · exact .inl h
    · exact .inr ⟨t, by rw [ht]; simp⟩

theorem lang_examples :
    Str.langMatch ['e','n'] ['e','n','-','G','B'] = true ∧
    Str.langMatch ['E','N'] ['e','n'] = true ∧
    Str.langMatch ['e','n'] ['E','N','-','u','s'] = true ∧
    Str.langMatch ['z','h'] ['z','h','-','T','W'] = true ∧
    Str.langMatch ['z','h','-','T','W','-','x'] ['z','h','-','T','W'] = false ∧
    Str.langMatch ['e'] ['e','n'] = false ∧
    Str.langMatch [] [] = true ∧
    Str.langMatch ['e','n'] [] = false ∧
    Str.langMatch [] ['e','n'] = false := by decide

/-- the same examples on string literals: lang('en') on "en-GB", lang('EN') on "en",
    lang('zh') on "zh-TW", lang('zh-TW-x') on "zh-TW", lang('e') on "en", lang('') on "",
    lang('en') on "" -/
theorem lang_examples_lit :
    Str.langMatch "en".toList "en-GB".toList = true ∧
    Str.langMatch "EN".toList "en".toList = true ∧
    Str.langMatch "zh".toList "zh-TW".toList = true ∧
    Str.langMatch "zh-TW-x".toList "zh-TW".toList = false ∧
    Str.langMatch "e".toList "en".toList = false ∧
    Str.langMatch "".toList "".toList = true ∧
    Str.langMatch "en".toList "".toList = false := by decide

/-- the value of the `xml:lang` attribute of cell `i`, if it has one -/
def langAttr (a : Arena) (i : Nat) : Option Chars :=
  ((a.attrs i).find? (fun j => (a.cell j).uri == "http://www.w3.org/XML/1998/namespace".toList
      && (a.cell j).loc == "lang".toList)).map (fun j => (a.cell j).val)

/-- `langAttr` is the value of an attribute of `i` whose expanded name is
    (XML namespace, `lang`), the first such; `none` when no attribute has that name -/
theorem langAttr_spec (a : Arena) (i : Nat) :
    (∀ v, langAttr a i = some v → ∃ j ∈ a.attrs i,
      (a.cell j).uri = "http://www.w3.org/XML/1998/namespace".toList ∧
      (a.cell j).loc = "lang".toList ∧ (a.cell j).val = v) ∧
    (langAttr a i = none → ∀ j ∈ a.attrs i,
      ¬ ((a.cell j).uri = "http://www.w3.org/XML/1998/namespace".toList ∧
         (a.cell j).loc = "lang".toList)) := by
  unfold langAttr
  generalize "http://www.w3.org/XML/1998/namespace".toList = xml
  generalize "lang".toList = lg
  constructor
  · intro v hv
    simp only [Option.map_eq_some_iff] at hv
    obtain ⟨j, hj, rfl⟩ := hv
    have h1 := List.find?_some hj
    simp only [Bool.and_eq_true, beq_iff_eq] at h1
    exact ⟨j, List.mem_of_find?_eq_some hj, h1.1, h1.2, rfl⟩
  · intro hn j hj
    simp only [Option.map_eq_none_iff, List.find?_eq_none] at hn
    simpa using hn j hj

/-- the unfolding equation: the root has no language; otherwise the node's own `xml:lang`,
    else the language of the parent -/
theorem findLang_unfold (a : Arena) (f i : Nat) :
    findLang a (f + 1) i =
      if i = 0 then none else
        match langAttr a i with
        | some v => some v
        | none => findLang a f (a.parent i) := by
  rw [findLang, langAttr]
  by_cases hi : i = 0
  · simp [hi]
  · simp only [beq_iff_eq, hi, if_false]
    cases List.find? _ (a.attrs i) <;> rfl

/-- on a well-formed arena any fuel above the index is enough -/
theorem findLang_fuel {a : Arena} (h : wfb a = true) :
    ∀ (i f g : Nat), i < f → i < g → findLang a f i = findLang a g i := by
  intro i
  induction i using Nat.strongRecOn with
  | ind i ih =>
    intro f g hf hg
    obtain ⟨f, rfl⟩ : ∃ f', f = f' + 1 := ⟨f - 1, by omega⟩
    obtain ⟨g, rfl⟩ : ∃ g', g = g' + 1 := ⟨g - 1, by omega⟩
    rw [findLang_unfold, findLang_unfold]
    by_cases hi : i = 0
    · simp [hi]
    · have hp := Tree.parent_lt h hi
      simp only [hi, if_false]
      cases langAttr a i with
      | some v => rfl
      | none => exact ih _ hp f g (by omega) (by omega)

theorem findLang_fuel_succ {a : Arena} (h : wfb a = true) (i f : Nat) (hf : i < f) :
    findLang a f i = findLang a (i + 1) i :=
  findLang_fuel h i f (i + 1) hf (Nat.lt_succ_self i)

/-- **findLang_spec** — on a well-formed arena, the language in scope at cell `i` is the `xml:lang`
    of the nearest cell on the chain `i`, parent of `i`, …, root (the root itself excluded) that
    has such an attribute -/
theorem findLang_spec {a : Arena} (h : wfb a = true) :
    ∀ i, i < a.size → findLang a a.size i =
      (i :: Spec.ancestors a a.size i).findSome? (fun k => if k = 0 then none else langAttr a k) := by
  intro i
  induction i using Nat.strongRecOn with
  | ind i ih =>
    intro hi
    obtain ⟨n, hn⟩ : ∃ n, a.size = n + 1 := ⟨a.size - 1, by omega⟩
    by_cases h0 : i = 0
    · subst h0
      rw [hn, findLang_unfold, Tree.ancestors_zero]
      simp
    · have hp := Tree.parent_lt h h0
      rw [Tree.ancestors_cons h h0, List.findSome?_cons]
      conv => lhs; rw [hn, findLang_unfold]
      simp only [h0, if_false]
      cases langAttr a i with
      | some v => rfl
      | none =>
        simp only []
        rw [← ih _ hp (by omega), hn]
        exact findLang_fuel h _ _ _ (by omega) (by omega)

/-- where the search for the language of context node `i` starts: at `i` itself when it is an
    element (or an attribute, which has no attributes of its own, so that the search moves to
    its element), at the parent for every other kind of node -/
def langStart (a : Arena) (i : Nat) : Nat :=
  if a.kind i == .elem || a.kind i == .attr then i else a.parent i

/-- **lang_builtin** — `lang(v)` with context node `i`: true iff a language is in scope
    and `string(v)` matches it in the sense of `lang_spec`.  No context node-set: error;
    not exactly one argument: error. -/
theorem lang_builtin (sem : Sem) (c : Ctx) {nm : Chars} (hnm : String.ofList nm = "lang") :
    (∀ v i, c.result = .nodes [i] →
      builtin sem c nm [v] = some (.ok (.bool
        (match findLang c.a c.a.size (langStart c.a i) with
         | some lg => Str.langMatch (Model.toStr (sem.sv c.a) v) lg
         | none => false)))) ∧
    (∀ v, c.result = .nodes [] → builtin sem c nm [v] = some (.ok (.bool false))) ∧
    (∀ v, (∀ l, c.result ≠ .nodes l) → builtin sem c nm [v] = some (.error .notNodeSet)) ∧
    builtin sem c nm [] = some (.error .arity) ∧
    (∀ v w vs, builtin sem c nm (v :: w :: vs) = some (.error .arity)) := by
  refine ⟨fun v i hi => ?_, fun v hl => ?_, fun v hv => ?_, ?_, fun v w vs => ?_⟩
  · unfold builtin; simp only [hnm, hi, List.findSome?_cons, List.findSome?_nil, langStart]
    cases findLang c.a c.a.size _ <;> rfl
  · unfold builtin; simp only [hnm, hl, List.findSome?_nil]
  · unfold builtin; simp only [hnm]
  · unfold builtin; simp only [hnm]
  · unfold builtin; simp only [hnm]

/-- with several context nodes (function-in-path extension `E/lang(s)`), the first listed context node
    that has a language in scope decides -/
theorem lang_builtin_set (sem : Sem) (c : Ctx) {nm : Chars} (hnm : String.ofList nm = "lang")
    (v : Val) (l : List Nat) (hl : c.result = .nodes l) :
    builtin sem c nm [v] = some (.ok (.bool
      (match l.findSome? (fun i => findLang c.a c.a.size (langStart c.a i)) with
       | some lg => Str.langMatch (Model.toStr (sem.sv c.a) v) lg
       | none => false))) := by
  unfold builtin; simp only [hnm, hl, langStart]
  cases List.findSome? _ l <;> rfl

/-! ## c. count() -/

/-- **count_spec** — `count` of a node-set is the number of nodes listed (node-sets are duplicate-free,
    C03); any other argument type, or not exactly one argument, is an error -/
theorem count_spec (sem : Sem) (c : Ctx) {nm : Chars} (hnm : String.ofList nm = "count") :
    (∀ l, builtin sem c nm [.nodes l] = some (.ok (.num (Num.ofNat l.length)))) ∧
    (∀ v, (∀ l, v ≠ .nodes l) → builtin sem c nm [v] = some (.error .notNodeSet)) ∧
    builtin sem c nm [] = some (.error .arity) ∧
    (∀ v w vs, builtin sem c nm (v :: w :: vs) = some (.error .arity)) := by
  refine ⟨fun l => ?_, fun v hv => ?_, ?_, fun v w vs => ?_⟩
  · unfold builtin; simp only [hnm]
  · unfold builtin; simp only [hnm]
  · unfold builtin; simp only [hnm]
  · unfold builtin; simp only [hnm]

end Xsel.C12
