/-
  Proofs/C07.lean — property C07: the string functions of XPath 1.0 §4.2 work on Unicode
  characters (strings are `List Char`, one element per code point) and follow the Recommendation.
-/
import Xsel.Eval
import Proofs.Lemmas.StrFuncs

namespace Xsel.C07
open Xsel Xsel.Str Xsel.StrL

/-! ### 7. substring -/

/-- **substring_spec** — `substring` returns exactly the characters at the 1-based positions `q` with
    `q ≥ round(p)` and, in the three-argument form, `q < round(p) + round(l)` (IEEE comparison and
    addition, `StrL.keepPos`), in their original order. -/
theorem substring_spec (s : Chars) (rp : Num) (rl : Option Num) :
    substringR s rp rl = ((s.zipIdx 1).filter (fun p => keepPos rp rl p.2)).map Prod.fst :=
  substringR_eq s rp rl

/-- the same, per position: the character at 0-based index `i` is in the result iff position `i+1` is selected -/
theorem substring_spec_keep (rp : Num) (rl : Option Num) (q : Nat) :
    keepPos rp rl q =
      (Num.ge (Num.ofNat q) rp &&
        (match rl with
         | none => true
         | some l => Num.lt (Num.ofNat q) (Num.add rp l))) := rfl

/-- **substring_total** — `substring` is defined for all arguments and returns a subsequence of the string -/
theorem substring_total (s : Chars) (rp : Num) (rl : Option Num) :
    List.Sublist (substringR s rp rl) s := by
  rw [substring_spec]
  have h1 : List.Sublist ((s.zipIdx 1).filter (fun p => keepPos rp rl p.2)) (s.zipIdx 1) :=
    List.filter_sublist
  have h2 := h1.map Prod.fst
  rwa [List.zipIdx_map_fst] at h2

/-- **substring_nan** — a NaN position, or a NaN length, selects nothing -/
theorem substring_nan (s : Chars) (rl : Option Num) (rp : Num) :
    substringR s .nan rl = [] ∧ substringR s rp (some .nan) = [] := by
  constructor
  · rw [substring_spec]
    have : ∀ q, keepPos .nan rl q = false := by intro q; simp [keepPos, Num.ge, Num.le, Num.ext]
    simp [this]
  · rw [substring_spec]
    have : ∀ q, keepPos rp (some .nan) q = false := by
      intro q
      have : Num.add rp .nan = .nan := by cases rp <;> rfl
      simp [keepPos, this, Num.lt, Num.ext]
    simp [this]

/-- **substring_zero_sign** — `substring` does not see the SIGN of a zero position or length (the
    only thing the §4.4 rule "negative zero for arguments in [-0.5, 0)" of `round` changes): the
    positions are compared with IEEE comparisons, where `-0 = +0`, and `-0 + l`, `+0 + l` are the same
    number when `l` is a double (`Num.rnd b = .fin b`, see `C06.rnd_fixes_doubles`; the result of
    `round` on a double is a double). -/
theorem substring_zero_sign (s : Chars) :
    substringR s .nzero none = substringR s (.fin 0) none ∧
    (∀ l : Num, (∀ b, l = .fin b → Num.rnd b = .fin b) →
      substringR s .nzero (some l) = substringR s (.fin 0) (some l)) ∧
    (∀ rp : Num, (∀ a, rp = .fin a → Num.rnd a = .fin a) →
      substringR s rp (some .nzero) = substringR s rp (some (.fin 0))) := by
  refine ⟨?_, fun l hl => ?_, fun rp hrp => ?_⟩
  · rw [substring_spec, substring_spec]
    have : ∀ q, keepPos .nzero none q = keepPos (.fin 0) none q := fun _ => rfl
    simp only [this]
  · rw [substring_spec, substring_spec]
    have : ∀ q, keepPos .nzero (some l) q = keepPos (.fin 0) (some l) q := by
      intro q
      cases l with
      | fin b =>
        have e : Num.add (.fin 0) (.fin b) = .fin b := by
          show Num.rnd (0 + b) = .fin b
          rw [Rat.zero_add]; exact hl b rfl
        simp only [keepPos, e]; rfl
      | _ => rfl
    simp only [this]
  · rw [substring_spec, substring_spec]
    have : ∀ q, keepPos rp (some .nzero) q = keepPos rp (some (.fin 0)) q := by
      intro q
      cases rp with
      | fin a =>
        have e : Num.add (.fin a) (.fin 0) = .fin a := by
          show Num.rnd (a + 0) = .fin a
          rw [Rat.add_zero]; exact hrp a rfl
        simp only [keepPos, e]; rfl
      | _ => rfl
    simp only [this]

/-- the builtin applies the semantics' `round` to both numeric arguments -/
theorem substring_builtin (sem : Sem) (c : Ctx) (s p l : Val) :
    builtin sem c "substring".toList [s, p] =
      some (.ok (.str (substringR (Model.toStr (sem.sv c.a) s) (sem.round (Model.toNum (sem.sv c.a) p)) none))) ∧
    builtin sem c "substring".toList [s, p, l] =
      some (.ok (.str (substringR (Model.toStr (sem.sv c.a) s) (sem.round (Model.toNum (sem.sv c.a) p))
        (some (sem.round (Model.toNum (sem.sv c.a) l)))))) :=
  ⟨rfl, rfl⟩

/-- **substring_examples** — the examples of §4.2:
    `substring("12345", 1.5, 2.6) = "234"`, `substring("12345", 0, 3) = "12"`,
    `substring("12345", 0 div 0, 3) = ""`, `substring("12345", 1, 0 div 0) = ""`,
    `substring("12345", -42, 1 div 0) = "12345"`, `substring("12345", -1 div 0, 1 div 0) = ""`,
    `substring("12345", 2) = "2345"`. -/
theorem substring_examples :
    substringR "12345".toList (Model.round (.fin (3 / 2))) (some (Model.round (.fin (13 / 5)))) = "234".toList ∧
    Model.round (.fin (3 / 2)) = .fin 2 ∧ Model.round (.fin (13 / 5)) = .fin 3 ∧
    substringR "12345".toList (Model.round (.fin 0)) (some (Model.round (.fin 3))) = "12".toList ∧
    substringR "12345".toList (Model.round (Num.div (.fin 0) (.fin 0))) (some (Model.round (.fin 3))) = [] ∧
    substringR "12345".toList (Model.round (.fin 1)) (some (Model.round (Num.div (.fin 0) (.fin 0)))) = [] ∧
    substringR "12345".toList (Model.round (.fin (-42))) (some (Model.round (Num.div (.fin 1) (.fin 0)))) = "12345".toList ∧
    substringR "12345".toList (Model.round (Num.div (.fin (-1)) (.fin 0))) (some (Model.round (Num.div (.fin 1) (.fin 0)))) = [] ∧
    substringR "12345".toList (Model.round (.fin 2)) none = "2345".toList := by
  decide +kernel

/-- positions count Unicode characters, not bytes: `substring("żółw", 2, 2) = "ół"` -/
theorem substring_unicode :
    substringR "żółw".toList (.fin 2) (some (.fin 2)) = "ół".toList := by
  decide +kernel

/-! ### 8. translate -/

/-- `idxOf c l 0` is the index of the first occurrence of `c` in `l` -/
theorem idxOf_first (c : Char) (l : Chars) (i : Nat) :
    idxOf c l 0 = some i ↔ l[i]? = some c ∧ ∀ j < i, l[j]? ≠ some c := by
  rw [idxOf_some]
  constructor
  · rintro ⟨j, hj, h1, h2⟩
    have : i = j := by omega
    subst this; exact ⟨h1, h2⟩
  · rintro ⟨h1, h2⟩; exact ⟨i, by omega, h1, h2⟩

theorem idxOf_absent (c : Char) (l : Chars) : idxOf c l 0 = none ↔ c ∉ l := idxOf_none c l 0

/-- **translate_spec** — `translate` maps the characters of the string independently
    (so the replacement is simultaneous): a character not in `frm` is kept; a character whose
    first occurrence in `frm` is at index `i` becomes `to[i]`, or is removed when `to` is shorter. -/
theorem translate_spec (s frm to : Chars) :
    translate [] frm to = [] ∧
    (∀ c, translate (c :: s) frm to = translate [c] frm to ++ translate s frm to) ∧
    (∀ c, c ∉ frm → translate [c] frm to = [c]) ∧
    (∀ (c : Char) (i : Nat) (r : Char), frm[i]? = some c → (∀ j < i, frm[j]? ≠ some c) → to[i]? = some r → translate [c] frm to = [r]) ∧
    (∀ (c : Char) (i : Nat), frm[i]? = some c → (∀ j < i, frm[j]? ≠ some c) → to[i]? = none → translate [c] frm to = []) := by
  refine ⟨rfl, ?_, ?_, ?_, ?_⟩
  · intro c; simp [translate]
  · intro c hc
    have := (idxOf_absent c frm).2 hc
    simp [translate, this]
  · intro c i r h1 h2 h3
    have := (idxOf_first c frm i).2 ⟨h1, h2⟩
    simp [translate, this, h3]
  · intro c i h1 h2 h3
    have := (idxOf_first c frm i).2 ⟨h1, h2⟩
    simp [translate, this, h3]

theorem translate_append (s t frm to : Chars) :
    translate (s ++ t) frm to = translate s frm to ++ translate t frm to := by
  simp [translate]

/-- **translate_simultaneous** — `translate("abc", "ab", "ba") = "bac"` (replacing one character
    after the other would give "aac"); `translate("--aaa--", "abc-", "ABC") = "AAA"`;
    `translate("bar", "abc", "ABC") = "BAr"`; a repeated character in `frm` uses its first mapping. -/
theorem translate_simultaneous :
    translate "abc".toList "ab".toList "ba".toList = "bac".toList ∧
    translate "--aaa--".toList "abc-".toList "ABC".toList = "AAA".toList ∧
    translate "bar".toList "abc".toList "ABC".toList = "BAr".toList ∧
    translate "aa".toList "aa".toList "xy".toList = "xx".toList ∧
    translate "zażółć".toList "żółć".toList "zolc".toList = "zazolc".toList := by
  decide

/-- **translate_length_le** — `translate` never lengthens a string -/
theorem translate_length_le (s frm to : Chars) : (translate s frm to).length ≤ s.length := by
  induction s with
  | nil => simp [translate]
  | cons c t ih =>
    have h : translate (c :: t) frm to = translate [c] frm to ++ translate t frm to := by simp [translate]
    have h1 : (translate [c] frm to).length ≤ 1 := by
      simp only [translate, List.flatMap_cons, List.flatMap_nil, List.append_nil]
      split
      · simp
      · split <;> simp
    rw [h, List.length_append, List.length_cons]; omega

/-! ### 9. normalize-space -/

/-- the words of a string: `splitSpaces` is the unique function with these three properties —
    white space (space, tab, CR, LF only) separates, a non-empty run without white space is one word. -/
theorem words_spec :
    splitSpaces [] = [] ∧
    (∀ w, w ≠ [] → (∀ c ∈ w, isXmlSpace c = false) → splitSpaces w = [w]) ∧
    (∀ a b c, isXmlSpace c = true → splitSpaces (a ++ c :: b) = splitSpaces a ++ splitSpaces b) :=
  ⟨rfl, fun w h1 h2 => splitSpaces_word w ⟨h1, h2⟩, splitSpaces_append_space⟩

/-- every word is non-empty and free of white space, and together they are the string without its white space -/
theorem words_are_words (s : Chars) :
    (∀ w ∈ splitSpaces s, w ≠ [] ∧ ∀ c ∈ w, isXmlSpace c = false) ∧
    (splitSpaces s).flatten = s.filter (fun c => !isXmlSpace c) :=
  ⟨splitSpaces_words s, splitSpaces_flatten s⟩

/-- **normalize_space_spec** — the result is the words of the argument joined by single spaces; hence
    it neither starts nor ends with white space, has no two adjacent white-space characters, contains
    no tab, CR or LF, and normalising again changes nothing. -/
theorem normalize_space_spec (s : Chars) :
    normalizeSpace s = [' '].intercalate (splitSpaces s) ∧
    (∀ c, (normalizeSpace s).head? = some c → isXmlSpace c = false) ∧
    (∀ c, (normalizeSpace s).getLast? = some c → isXmlSpace c = false) ∧
    (∀ u v a b, normalizeSpace s = u ++ a :: b :: v → ¬ (isXmlSpace a = true ∧ isXmlSpace b = true)) ∧
    (∀ c ∈ normalizeSpace s, isXmlSpace c = true → c = ' ') ∧
    normalizeSpace (normalizeSpace s) = normalizeSpace s ∧
    splitSpaces (normalizeSpace s) = splitSpaces s := by
  have hw := splitSpaces_words s
  refine ⟨rfl, join_head _ hw, join_last _ hw, ?_, ?_, normalizeSpace_idem s, splitSpaces_join _ hw⟩
  · intro u v a b e
    exact noDbl_spec _ (join_noDbl _ hw) u v a b e
  · intro c hc hsp
    rcases join_mem _ c hc with h | ⟨w, hw', hcw⟩
    · exact h
    · have := (hw w hw').2 c hcw
      rw [this] at hsp; exact absurd hsp (by simp)

/-- examples; U+00A0 (no-break space) is not XML white space and is kept -/
theorem normalize_space_examples :
    normalizeSpace "  a \t\r\n b  ".toList = "a b".toList ∧
    normalizeSpace " \t ".toList = [] ∧
    normalizeSpace "a  b".toList = "a  b".toList ∧
    normalizeSpace " ".toList = " ".toList ∧
    isXmlSpace ' ' = false := by
  decide

/-! ### 10. string-length, starts-with, contains, substring-before/after -/

/-- **string_length_is_char_count** — `string-length` is the number of Unicode characters of the
    string value (`Chars = List Char`, one `Char` per code point), for the argument or the context node. -/
theorem string_length_is_char_count (sem : Sem) (c : Ctx) (v : Val) :
    builtin sem c "string-length".toList [v] = some (.ok (.num (Num.ofNat (Model.toStr (sem.sv c.a) v).length))) ∧
    builtin sem c "string-length".toList [] = some (.ok (.num (Num.ofNat (Model.toStr (sem.sv c.a) c.result).length))) :=
  ⟨rfl, rfl⟩

theorem string_length_examples :
    "żółw".toList.length = 4 ∧ "日本語".toList.length = 3 ∧ "😀".toList.length = 1 ∧ "żółw".utf8ByteSize = 7 := by
  decide

/-- **starts_with_spec** -/
theorem starts_with_spec (s p : Chars) : startsWith s p = true ↔ ∃ t, s = p ++ t := by
  unfold startsWith
  rw [List.isPrefixOf_iff_prefix]
  constructor
  · rintro ⟨t, h⟩; exact ⟨t, h.symm⟩
  · rintro ⟨t, h⟩; exact ⟨t, h.symm⟩

/-- **contains_spec** -/
theorem contains_spec (s p : Chars) : contains s p = true ↔ ∃ u t, s = u ++ p ++ t := by
  unfold contains
  constructor
  · intro h
    cases hi : indexOf s p with
    | none => rw [hi] at h; simp at h
    | some i => exact ⟨_, _, split_at_index s p i hi⟩
  · rintro ⟨u, t, e⟩; exact indexOf_isSome_of_occurs s p u t e

/-- **substring_before_after_spec** — when `p` occurs in `s`, `substring-before` and
    `substring-after` are the parts around its first occurrence; otherwise both are empty.
    (The empty string occurs at offset 0.) -/
theorem substring_before_after_spec (s p : Chars) :
    (∀ i, indexOf s p = some i →
      s = substringBefore s p ++ p ++ substringAfter s p ∧
      (substringBefore s p).length = i ∧
      (∀ u t, s = u ++ p ++ t → i ≤ u.length)) ∧
    (indexOf s p = none →
      substringBefore s p = [] ∧ substringAfter s p = [] ∧ ¬ ∃ u t, s = u ++ p ++ t) := by
  constructor
  · intro i hi
    obtain ⟨hlen, _, hmin⟩ := indexOf_some s p i hi
    simp only [substringBefore, substringAfter, hi]
    refine ⟨split_at_index s p i hi, by simp; omega, ?_⟩
    intro u t e
    apply Nat.le_of_not_lt
    intro hlt
    apply hmin u.length hlt
    subst e
    rw [List.append_assoc, List.drop_left]
    exact List.prefix_append p t
  · intro hn
    simp only [substringBefore, substringAfter, hn]
    refine ⟨trivial, trivial, ?_⟩
    rintro ⟨u, t, e⟩
    have := indexOf_isSome_of_occurs s p u t e
    rw [hn] at this; simp at this

theorem substring_before_after_examples :
    substringBefore "1999/04/01".toList "/".toList = "1999".toList ∧
    substringAfter "1999/04/01".toList "/".toList = "04/01".toList ∧
    substringAfter "1999/04/01".toList "19".toList = "99/04/01".toList ∧
    substringBefore "abc".toList "x".toList = [] ∧ substringAfter "abc".toList "x".toList = [] ∧
    substringBefore "abc".toList [] = [] ∧ substringAfter "abc".toList [] = "abc".toList ∧
    contains "abc".toList [] = true ∧ startsWith "abc".toList [] = true := by
  decide

end Xsel.C07
