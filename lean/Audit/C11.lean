import Proofs.C11
import Proofs.GenPurity
#print axioms Xsel.C11.principalNamed_iff
#print axioms Xsel.C11.nametest_by_uri
#print axioms Xsel.C11.nametest_name
#print axioms Xsel.C11.nametest_nsAny
#print axioms Xsel.C11.nametest_localAny
#print axioms Xsel.C11.lookup_rename
#print axioms Xsel.C11.prefix_rename_invariant
#print axioms Xsel.C11.prefix_rename_invariant_run
#print axioms Xsel.C11.doc_prefix_irrelevant
#print axioms Xsel.C11.var_exact
#print axioms Xsel.C11.var_bound
#print axioms Xsel.C11.var_unbound_is_error
#print axioms Xsel.C11.var_unbound_prefix_is_error
#print axioms Xsel.C11.var_no_prefix
#print axioms Xsel.C11.user_fn_shadows_builtin
#print axioms Xsel.C11.user_fn_receives
#print axioms Xsel.C11.unknown_function_is_error
#print axioms Xsel.C11.fn_unbound_prefix_is_error
#print axioms Xsel.C11.args_evaluated_in_order
#print axioms Xsel.Gen.no_shared_writes
