import Proofs.C13
import Proofs.GenPurity
#print axioms Xsel.C13.frame
#print axioms Xsel.C13.frame_valid
#print axioms Xsel.C13.inputs_unchanged
#print axioms Xsel.C13.inputs_stay_valid
#print axioms Xsel.C13.union_value
#print axioms Xsel.C13.docOrder_value
#print axioms Xsel.C13.select_value
#print axioms Xsel.C13.op_value
#print axioms Xsel.C13.result_fresh
#print axioms Xsel.C13.result_valid
#print axioms Xsel.C13.unionOld_mutates
#print axioms Xsel.C13.unionOld_mutates_exact
#print axioms Xsel.C13.unionOld_reorders
#print axioms Xsel.C13.unionOld_reorders_full
#print axioms Xsel.C13.unionOld_reorders_example
#print axioms Xsel.C13.run_ops_frame
#print axioms Xsel.C13.run_ops_value
#print axioms Xsel.C13.run_ops_valid
#print axioms Xsel.C13.handler_walk_frame
#print axioms Xsel.C13.order_of_alternatives_irrelevant
#print axioms Xsel.Gen.no_shared_writes
#print axioms Xsel.Gen.inplace_ops_on_fresh
