import Proofs.C15
import Proofs.GenPartial
import Proofs.GenTables
import Proofs.GenWalk
#print axioms Xsel.C15.exec_result_or_error
#print axioms Xsel.C15.build_total
#print axioms Xsel.C15.truncated_json_is_error
#print axioms Xsel.Gen.partial_sites_covered
#print axioms Xsel.Gen.binary_handlers_have_two_children
#print axioms Xsel.C15.handler_walk_never_panics
#print axioms Xsel.C15.handler_walk_result_or_error
#print axioms Xsel.C15.any_forest_never_panics
#print axioms Xsel.C15.denoting_forest_never_panics
#print axioms Xsel.Gen.handlers_fit_productions
