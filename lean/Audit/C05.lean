import Proofs.C05
#print axioms Xsel.C05.compare_refines
#print axioms Xsel.C05.nan_unequal
#print axioms Xsel.C05.nan_ne_itself
#print axioms Xsel.C05.empty_nodeset_false
#print axioms Xsel.C05.empty_nodeset_eq_false
#print axioms Xsel.C05.ne_not_negation
