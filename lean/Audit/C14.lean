import Proofs.C14
import Proofs.GenPurity
#print axioms Xsel.C14.interleaving_eq_serial
#print axioms Xsel.C14.any_schedule
#print axioms Xsel.C14.interleaving_eq_serial_own
#print axioms Xsel.C14.interleaving_eq_serial_own_two
#print axioms Xsel.C14.writes_sound
#print axioms Xsel.C14.no_conflicting_access
#print axioms Xsel.C14.no_conflicting_access_run
#print axioms Xsel.C14.cli_output_perm
#print axioms Xsel.C14.cli_c1
#print axioms Xsel.C14.cli_blocks_multiset
#print axioms Xsel.C14.cli_blocks_intact
#print axioms Xsel.Gen.no_shared_writes
#print axioms Xsel.Gen.inplace_ops_on_fresh
#print axioms Xsel.Gen.go_statements_only_in_cli
#print axioms Xsel.Gen.one_write_per_block
