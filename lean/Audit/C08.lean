import Proofs.C08
import Proofs.GenTables
#print axioms Xsel.C08.handler_table
#print axioms Xsel.C08.grammar_table
#print axioms Xsel.C08.left_associative_levels
#print axioms Xsel.C08.parser_grammar
#print axioms Xsel.C08.xsel_accepts_xpath
#print axioms Xsel.C08.xsel_accepts_only_xpath
#print axioms Xsel.C08.xsel_language_exact
#print axioms Xsel.C08.model_parser_in_grammar
#print axioms Xsel.C08.parse_render_model
#print axioms Xsel.C08.parse_render_spec
#print axioms Xsel.C08.doubles_spellable
#print axioms Xsel.C08.lexer_inverts_spelling
#print axioms Xsel.C08.lexer_any_whitespace
#print axioms Xsel.C08.lexer_without_whitespace
#print axioms Xsel.C08.lexer_inverts_canonical_spelling
#print axioms Xsel.C08.string_roundtrip_model
#print axioms Xsel.C08.string_roundtrip_spec
#print axioms Xsel.C08.sampleTree_spelling
#print axioms Xsel.C08.parser_fuel_adequate
#print axioms Xsel.C08.abbreviations_are_expansions
#print axioms Xsel.C08.abbreviations_are_expansions'
#print axioms Xsel.Gen.handlers_agree
#print axioms Xsel.Gen.productions_agree
#print axioms Xsel.Gen.no_dropped_symbol
#print axioms Xsel.Gen.binary_handlers_have_two_children
#print axioms Xsel.Gen.builtins_agree
