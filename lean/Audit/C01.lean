import Proofs.C01
import Proofs.Gen
#print axioms Xsel.C01.axis_mem
#print axioms Xsel.C01.axis_range
#print axioms Xsel.C01.axis_refines
#print axioms Xsel.C01.axis_set_at_a_time
#print axioms Xsel.C01.axis_eq_axisSet
#print axioms Xsel.C01.mem_descendants
#print axioms Xsel.C01.partition
#print axioms Xsel.C01.partition_cover
#print axioms Xsel.C01.partition_disjoint
#print axioms Xsel.C01.model_partition
#print axioms Xsel.C01.dual_child_parent
#print axioms Xsel.C01.dual_descendant_ancestor
#print axioms Xsel.C01.dual_following_preceding
#print axioms Xsel.C01.dual_siblings
#print axioms Xsel.C01.model_dual_child_parent
#print axioms Xsel.C01.model_dual_descendant_ancestor
#print axioms Xsel.C01.model_dual_following_preceding
#print axioms Xsel.C01.model_dual_siblings
#print axioms Xsel.C01.root_is_ancestor
#print axioms Xsel.C01.model_root_is_ancestor
#print axioms Xsel.C01.root_no_parent_no_siblings
#print axioms Xsel.C01.model_root_no_parent_no_siblings
#print axioms Xsel.C01.root_children_siblings
#print axioms Xsel.Gen.axis_dispatch_agrees
#print axioms Xsel.Gen.selector_cleanup_agrees
