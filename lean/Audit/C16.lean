import Proofs.C16
#print axioms Xsel.C16.json_refines
#print axioms Xsel.C16.json_refines_one
#print axioms Xsel.C16.json_truncated_errors
#print axioms Xsel.C16.json_truncated_array
#print axioms Xsel.C16.json_truncated_object
#print axioms Xsel.C16.json_stack_depth
#print axioms Xsel.C16.json_siblings_never_merged
#print axioms Xsel.C16.json_texts_are_leaves
#print axioms Xsel.C16.json_adapter_texts
#print axioms Xsel.C16.json_text_accepted
#print axioms Xsel.C16.json_text_refines
#print axioms Xsel.C16.json_text_refines_ws
#print axioms Xsel.C16.json_text_refines_fin
#print axioms Xsel.C16.json_text_refines_stream
