import Proofs.C12
import Proofs.GenTables
#print axioms Xsel.C12.firstDoc_cases
#print axioms Xsel.C12.xmlNameStr_eq
#print axioms Xsel.C12.name_fns_spec
#print axioms Xsel.C12.name_eq_local_iff_no_uri
#print axioms Xsel.C12.name_fns_perm_invariant
#print axioms Xsel.C12.name_fns_builtin
#print axioms Xsel.C12.lang_spec
#print axioms Xsel.C12.lang_examples
#print axioms Xsel.C12.lang_examples_lit
#print axioms Xsel.C12.langAttr_spec
#print axioms Xsel.C12.findLang_unfold
#print axioms Xsel.C12.findLang_fuel
#print axioms Xsel.C12.findLang_fuel_succ
#print axioms Xsel.C12.findLang_spec
#print axioms Xsel.C12.lang_builtin
#print axioms Xsel.C12.lang_builtin_set
#print axioms Xsel.C12.count_spec
#print axioms Xsel.Gen.builtins_agree
#print axioms Xsel.Gen.builtins_table_agree
