import Proofs.C09
#print axioms Xsel.C09.events_of_tokens
#print axioms Xsel.C09.docEvents_ordered
#print axioms Xsel.C09.expected_docEvents
#print axioms Xsel.C09.events_ordered
#print axioms Xsel.C09.readxml_refines
#print axioms Xsel.C09.xmldecl_not_a_node
#print axioms Xsel.C09.doctype_not_a_node
#print axioms Xsel.C09.cdata_is_text
#print axioms Xsel.C09.xmlns_attrs_are_not_attributes
#print axioms Xsel.C09.namespace_events_are_declarations
#print axioms Xsel.C09.every_element_has_xml_binding
#print axioms Xsel.C09.namespace_nodes_belong_to_element
#print axioms Xsel.C09.xml_query_refines_spec
#print axioms Xsel.C09.xml_query_refines_spec_noRound
#print axioms Xsel.C09.stream_query_refines_spec
#print axioms Xsel.C09.json_events_ordered
#print axioms Xsel.C09.json_query_refines_spec
