import Proofs.C02
import Proofs.GenTables
#print axioms Xsel.C02.exec_refines_spec
#print axioms Xsel.C02.run_refines_spec
#print axioms Xsel.C02.preds_refine_spec
#print axioms Xsel.C02.unbound_prefix_fails
#print axioms Xsel.C02.unbound_prefix_fails_in_both
#print axioms Xsel.C02.applyPred_def
#print axioms Xsel.C02.last_is_size
#print axioms Xsel.C02.position_is_index
#print axioms Xsel.C02.preds_renumber
#print axioms Xsel.C02.cmpNum_model
#print axioms Xsel.C02.cmpNum_spec
#print axioms Xsel.C02.cmpNum_specKF
#print axioms Xsel.C02.numeric_pred_is_position_eq'
#print axioms Xsel.C02.numeric_pred_is_position_eq
#print axioms Xsel.C02.numeric_pred_nan
#print axioms Xsel.C02.numeric_pred_out_of_range
#print axioms Xsel.C02.numeric_pred_selects_nothing
#print axioms Xsel.C02.filter_docorder
#print axioms Xsel.C02.filter_docorder_list
#print axioms Xsel.C02.filter_order_irrelevant
#print axioms Xsel.C02.exec_refines_spec'
#print axioms Xsel.C02.run_refines_spec'
#print axioms Xsel.C02.semKF_eq_sem_of_noRound
#print axioms Xsel.C02.run_refines_spec_noRound
#print axioms Xsel.Gen.no_dropped_symbol
#print axioms Xsel.Gen.handlers_agree
