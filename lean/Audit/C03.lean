import Proofs.C03
import Proofs.GenAxes
import Proofs.GenPurity
#print axioms Xsel.C03.union_is_eval
#print axioms Xsel.C03.union_ascending
#print axioms Xsel.C03.mem_union
#print axioms Xsel.C03.union_comm
#print axioms Xsel.C03.union_assoc
#print axioms Xsel.C03.union_idem
#print axioms Xsel.C03.union_self_of_sorted
#print axioms Xsel.C03.nodup_of_strict
#print axioms Xsel.C03.count_union
#print axioms Xsel.C03.result_monotone
#print axioms Xsel.C03.args_monotone
#print axioms Xsel.C03.run_monotone
#print axioms Xsel.C03.spec_result_monotone
#print axioms Xsel.C03.forward_expr_ascending
#print axioms Xsel.C03.union_result_ascending
#print axioms Xsel.Gen.selector_cleanup_agrees
#print axioms Xsel.Gen.inplace_ops_on_fresh
