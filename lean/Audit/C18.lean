import Proofs.C18
#print axioms Xsel.C18.exec_seed
#print axioms Xsel.C18.exec_seed_position
#print axioms Xsel.C18.exec_seed_last
#print axioms Xsel.C18.stepFrom_spec
#print axioms Xsel.C18.compose_path_general
#print axioms Xsel.C18.resolve_absorbed
#print axioms Xsel.C18.compose_path
#print axioms Xsel.C18.compose_path_unbound
#print axioms Xsel.C18.compose_path_spec
#print axioms Xsel.C18.applyPreds_ctx
#print axioms Xsel.C18.stepFrom_is_eval
#print axioms Xsel.C18.compose_path_model
#print axioms Xsel.C18.fn_in_path
#print axioms Xsel.C18.fn_in_path_arg
#print axioms Xsel.C18.ctxDefault_names
