import Proofs.C10
import Proofs.GenStore
#print axioms Xsel.C10.build_size_pos
#print axioms Xsel.C10.build_pos_eq_index
#print axioms Xsel.C10.build_pos_inj
#print axioms Xsel.C10.build_pos_eq_zero_iff
#print axioms Xsel.C10.build_pos_lt_iff
#print axioms Xsel.C10.build_root
#print axioms Xsel.C10.build_kind_ne_root
#print axioms Xsel.C10.build_parent_lt
#print axioms Xsel.C10.build_mem_nss
#print axioms Xsel.C10.build_nss_owner
#print axioms Xsel.C10.build_mem_attrs
#print axioms Xsel.C10.build_mem_kids
#print axioms Xsel.C10.build_listed
#print axioms Xsel.C10.build_lists_asc
#print axioms Xsel.C10.build_container
#print axioms Xsel.C10.build_preorder
#print axioms Xsel.C10.build_wf_iff
#print axioms Xsel.C10.build_lists_ordered
#print axioms Xsel.C10.build_wf_of_ordered
#print axioms Xsel.C10.build_wf
#print axioms Xsel.C10.build_mirrors_of_ordered
#print axioms Xsel.C10.build_mirrors
#print axioms Xsel.C10.build_correct
#print axioms Xsel.Gen.builder_not_event_recursive
