import Proofs.C20
import Proofs.GenPurity
#print axioms Xsel.C20.records_empty_nodeset
#print axioms Xsel.C20.records_failed
#print axioms Xsel.C20.records_scalar
#print axioms Xsel.C20.records_default
#print axioms Xsel.C20.firstInDocOrder_minimal
#print axioms Xsel.C20.records_all
#print axioms Xsel.C20.records_xml
#print axioms Xsel.C20.prefix_rule
#print axioms Xsel.C20.escapeNewlines_no_newline
#print axioms Xsel.C20.escapeNewlines_id
#print axioms Xsel.C20.m_records_single_line
#print axioms Xsel.C20.block_is_lines
#print axioms Xsel.C20.walk_exact
#print axioms Xsel.C20.walk_exact_mem
#print axioms Xsel.C20.pathsBelow_exact
#print axioms Xsel.C20.no_descent_without_r
#print axioms Xsel.C20.bad_file_isolated
#print axioms Xsel.C20.bad_file_isolated_dir
#print axioms Xsel.C20.bad_files_isolated_everywhere
#print axioms Xsel.C20.stdout_is_blocks
#print axioms Xsel.C20.binding_split
#print axioms Xsel.C20.binding_rejected
#print axioms Xsel.Gen.one_write_per_block
