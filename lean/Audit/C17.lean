import Proofs.C17
#print axioms Xsel.C17.attrs_agree
#print axioms Xsel.C17.wellTyped_nil
#print axioms Xsel.C17.wellTyped_cons
#print axioms Xsel.C17.wtTree_element
#print axioms Xsel.C17.wtTree_text
#print axioms Xsel.C17.wtTree_comment
#print axioms Xsel.C17.wtTree_other
#print axioms Xsel.C17.html_refines
#print axioms Xsel.C17.html_refines_spec
#print axioms Xsel.C17.html_doctype_only
#print axioms Xsel.C17.html_refines_walk
#print axioms Xsel.C17.html_no_namespace
#print axioms Xsel.C17.html_no_ns_pi
#print axioms Xsel.C17.html_counts
#print axioms Xsel.C17.html_adapter_facts
