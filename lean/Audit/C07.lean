import Proofs.C07
import Proofs.GenTables
#print axioms Xsel.C07.substring_spec
#print axioms Xsel.C07.substring_spec_keep
#print axioms Xsel.C07.substring_total
#print axioms Xsel.C07.substring_nan
#print axioms Xsel.C07.substring_zero_sign
#print axioms Xsel.C07.substring_builtin
#print axioms Xsel.C07.substring_examples
#print axioms Xsel.C07.substring_unicode
#print axioms Xsel.C07.idxOf_first
#print axioms Xsel.C07.idxOf_absent
#print axioms Xsel.C07.translate_spec
#print axioms Xsel.C07.translate_append
#print axioms Xsel.C07.translate_simultaneous
#print axioms Xsel.C07.translate_length_le
#print axioms Xsel.C07.words_spec
#print axioms Xsel.C07.words_are_words
#print axioms Xsel.C07.normalize_space_spec
#print axioms Xsel.C07.normalize_space_examples
#print axioms Xsel.C07.string_length_is_char_count
#print axioms Xsel.C07.string_length_examples
#print axioms Xsel.C07.starts_with_spec
#print axioms Xsel.C07.contains_spec
#print axioms Xsel.C07.substring_before_after_spec
#print axioms Xsel.C07.substring_before_after_examples
#print axioms Xsel.Gen.builtins_agree
#print axioms Xsel.Gen.builtins_table_agree
