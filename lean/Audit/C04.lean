import Proofs.C04
import Proofs.GenTables
#print axioms Xsel.C04.bool_conv
#print axioms Xsel.C04.bool_to_num_str
#print axioms Xsel.C04.conv_basic
#print axioms Xsel.C04.firstDoc_min
#print axioms Xsel.C04.num_to_str_special
#print axioms Xsel.C04.str_to_num_grammar
#print axioms Xsel.C04.str_to_num_value
#print axioms Xsel.C04.parse_unsigned_value
#print axioms Xsel.C04.str_to_num_examples
#print axioms Xsel.C04.str_to_num_overflow
#print axioms Xsel.C04.num_to_str_no_exponent
#print axioms Xsel.C04.layout_integer_no_point
#print axioms Xsel.C04.shortest_digits_are_digits
#print axioms Xsel.C04.num_to_str_examples
#print axioms Xsel.C04.layout_parses_to_value
#print axioms Xsel.C04.shortest_reads_back
#print axioms Xsel.C04.num_to_str_reads_back
#print axioms Xsel.C04.reads_back_special
#print axioms Xsel.Gen.builtins_agree
#print axioms Xsel.Gen.builtins_table_agree
