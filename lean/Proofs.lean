import Proofs.Lemmas.Cleanup
import Proofs.C03
import Proofs.C05
import Proofs.C10
