/-
  Driver/Main.lean — line protocol driver: one case per input line, one answer per output line.

    doc <id> <arena>                      remember an arena under <id>; answers "wf=0|1"
    eval <id> <env> <start> <expr>        answers "model=<result> spec=<result>"
    store <events…>                       answers "arena=<arena dump> wf=0|1"
    jsontext <xhex>                       the JSON text level (Xsel/JsonText.lean): answers
                                          "toks=(toks <t>…)" (token syntax of `decJTok`), "err" when the
                                          characters are not a stream of JSON texts, "unsup" when the
                                          bytes are not UTF-8 or an exponent has more than 5 digits
-/
import Xsel.Protocol
import Xsel.SpecStore
import Xsel.Parse
import Xsel.Render
import Xsel.Deriv
import Xsel.Lower
import Generated.Facts
open Xsel
open Xsel.Syntax (Tok LTok LexRes ParseRes LexCfg Cfg lex parseToks parseModel parseSpec normCtx lexModel lexSpec cfgModel cfgSpec)

structure DState where
  docs : List (String × Arena) := []

/-! ### expression strings: tokens, the model's and the specification's reading -/

def tokText : Tok → Chars
  | .p x => x.term.toList
  | .kw k => k.chars
  | .ncname s => s
  | .digits s => s
  | .lit _ s => s
  | .var s => s

def encToks (ts : List LTok) : String :=
  ",".intercalate (ts.map (fun t => s!"{t.tok.term}:{encStr (tokText t.tok)}:{if t.glued then 1 else 0}"))

def encLex : LexRes → String
  | .ok ts => "(" ++ encToks ts ++ ")"
  | .err => "err"
  | .unsup => "unsup"

def verdict : ParseRes → String
  | .ok _ => "ok" | .err => "err" | .unsup => "unsup"

/-- the reading of `cs` under an arbitrary mix of the switches (no `unsup` refinement) -/
def parseWith (lc : LexCfg) (c : Cfg) (cs : Chars) : ParseRes :=
  match lex lc cs with
  | .unsup => .unsup
  | .err => .err
  | .ok ts => match parseToks c ts with | some e => .ok e | none => .err

/-- do two readings agree: same verdict and, if both are trees, the same tree -/
def sameReading : ParseRes → ParseRes → Bool
  | .ok a, .ok b => Expr.same a b
  | .err, .err => true
  | .unsup, .unsup => true
  | _, _ => false

/-- which single switch, moved from xsel's setting to XPath's, turns the model's reading (verdict AND
    tree) into the specification's ("multi": no single one does) -/
def kfSwitches (cs : Chars) : String :=
  let want := parseSpec cs
  let flips : List (String × LexCfg × Cfg) := [
    ("opNames", lexModel, { cfgModel with opNames := true }),
    ("fnNames", lexModel, { cfgModel with fnNames := true }),
    ("trailDot", lexModel, { cfgModel with trailDot := true }),
    ("uscore", { lexModel with uscore := true }, cfgModel),
    ("xmlSpace", { lexModel with xmlSpace := true }, cfgModel)]
  let hit := flips.filter (fun f => sameReading (parseWith f.2.1 f.2.2 cs) want)
  if hit.isEmpty then "multi" else ",".intercalate (hit.map (·.1))

/-- the switch report: "-" when the two readings agree or one of them is outside the modelled domain -/
def kfReport (cs : Chars) (m sp : ParseRes) : String :=
  if verdict m != "unsup" && verdict sp != "unsup" && !sameReading m sp then kfSwitches cs else "-"

/-- answer to `syn`: the model lexer's tokens, the two verdicts, whether the model's tree is the given one -/
def synAnswer (cs : Chars) (given : Option Expr) : String :=
  let m := parseModel cs
  let sp := parseSpec cs
  let ast := match m, given with
    | .ok e, some g => if Expr.same (normCtx e) (normCtx g) then "1" else "0"
    | _, _ => "-"
  let kf := kfReport cs m sp
  -- the canonical spelling of the given tree reads back as the tree, under xsel's syntax and XPath's
  let rt := match given with
    | some g =>
      if !Xsel.Syntax.wfE g then "-" else
      let ts := Xsel.Syntax.renderTop g
      let okm := match parseToks cfgModel ts with | some e => Expr.same e (normCtx g) | none => false
      let oks := match parseToks cfgSpec ts with | some e => Expr.same e (normCtx g) | none => false
      if okm && oks then "1" else "0"
    | none => "-"
  s!"toks={encLex (lex lexModel cs)} build={verdict m} sbuild={verdict sp} ast={ast} rt={rt} kf={kf}"

/-- does the text contain `e`/`E`, an optional sign and more than 5 digits?  The model computes the
    exact rational `10^e` of a number literal; such exponents are left out of the comparison (they
    only occur in numbers that are 0, out of range, or have thousands of digits). -/
def hugeExp (cs : Chars) : Bool :=
  let rec go : Chars → Bool
    | [] => false
    | c :: r =>
      (if c == 'e' || c == 'E' then
        let r1 := match r with
          | s :: t => if s == '+' || s == '-' then t else r
          | [] => r
        decide (5 < (r1.takeWhile isDigit).length)
       else false) || go r
  go cs

/-! ### the parse forest of the real parser (Xsel/Walk.lean) -/

def allPunct : List Syntax.Punct :=
  [.slash, .dslash, .lbrack, .rbrack, .lparen, .rparen, .comma, .at, .coloncolon, .colon, .dot, .dotdot,
   .star, .pipe, .plus, .minus, .eq, .ne, .lt, .le, .gt, .ge]

/-- a token of the real lexer: its type ID and its characters -/
def tokOf (ty : String) (text : Chars) : Option Tok :=
  match ty with
  | "ncname" => some (.ncname text)
  | "digits" => some (.digits text)
  | "singlequote" => if text.length < 2 then none else some (.lit false ((text.drop 1).dropLast))
  | "doublequote" => if text.length < 2 then none else some (.lit true ((text.drop 1).dropLast))
  | "variableReference" =>
    (match text with
     | '$' :: r => if r.any (fun c => c == ' ' || c == '\t' || c == '\n' || c == '\r') then none else some (.var r)
     | _ => none)
  | ty =>
    match allPunct.find? (fun x => x.term == ty) with
    | some x => some (.p x)
    | none => (Syntax.allKw.find? (fun k => k.term == ty)).map Tok.kw

mutual
partial def decPT : Sexp → Option Walk.PT
  | .list (.atom "n" :: .atom name :: kids) => (decPTs kids).map (Walk.PT.nt name)
  | .list [.atom "t", .atom ty, .atom tx] =>
    match decStr ty, decStr tx with
    | some t, some x => (tokOf (String.ofList t) x).map Walk.PT.tk
    | _, _ => none
  | _ => none
partial def decPTs : List Sexp → Option Walk.PTs
  | [] => some .nil
  | k :: ks =>
    match decPT k, decPTs ks with
    | some t, some ts => some (.cons t ts)
    | _, _ => none
end

mutual
partial def ptEq : Walk.PT → Walk.PT → Bool
  | .nt a ks, .nt b ls => a == b && ptsEq ks ls
  | .tk a, .tk b => a == b
  | _, _ => false
partial def ptsEq : Walk.PTs → Walk.PTs → Bool
  | .nil, .nil => true
  | .cons a as, .cons b bs => ptEq a b && ptsEq as bs
  | _, _ => false
end

def encWalk : Except Walk.WErr Val → String
  | .ok v => "ok " ++ encVal v
  | .error .panic => "panic"
  | .error (.err _) => "err"

/-- the real forest: what the model of the handler walk computes on it (`walk=`), whether the abstract syntax it
    denotes is the model parser's reading of the string (`lower=`), whether every node is
    an instance of a production of the regenerated table (`valid=`), and — when the model's own parse of
    the string has a canonical spelling with exactly these tokens — whether the forest IS the
    derivation tree of that parse (`tree=`; `-`: other tokens) -/
def forestAnswer (a : Arena) (en : Env) (s : Nat) (pt : Walk.PT) (m : ParseRes) : String :=
  let w := encWalk (Walk.run Generated.handlers a en s pt)
  let valid := if pt.valid Generated.productions then 1 else 0
  let tree := match m with
    | .ok e =>
      let d := Walk.derivTop e
      if d.yield == pt.yield then (if ptEq d pt then "1" else "0") else "-"
    | _ => "-"
  -- the abstract syntax the real forest denotes (Xsel/Lower.lean) against the model parser's reading
  let low := match m with
    | .ok e =>
      (match Walk.L2.lower pt with
       | some e' => if Expr.same e' e then "1" else "0"
       | none => "0")
    | _ => "-"
  s!" walk={w} valid={valid} tree={tree} lower={low}"

def findDoc (st : DState) (id : String) : Option Arena := (st.docs.find? (fun p => p.1 == id)).map (·.2)

def handle (st : DState) (line : String) : DState × String :=
  match Sexp.parse ("(" ++ line ++ ")") with
  | some (.list [.atom "doc", .atom id, ar]) =>
    match decArena ar with
    | some a => ({ st with docs := (id, a) :: (st.docs.filter (fun p => p.1 != id)).take 8 }, s!"wf={if wfb a then 1 else 0}")
    | none => (st, "bad-arena")
  | some (.list [.atom "eval", .atom id, env, .atom start, ex]) =>
    match findDoc st id, decEnv env, decNat start, decExpr ex with
    | some a, some en, some s, some e0 =>
      -- the harness writes the expression `.` as the context item; the library reads it as the step
      -- self::node() (an error on a context that is not a node-set), and so does the model's parser
      let e := normCtx e0
      (st, s!"model={encResult (Model.run a en s e)} spec={encResult (Spec.run a en s e)} speckf={encResult (Spec.runKF a en s e)}")
    | none, _, _, _ => (st, "bad-doc")
    | _, none, _, _ => (st, "bad-env")
    | _, _, none, _ => (st, "bad-start")
    | _, _, _, none => (st, "bad-expr")
  | some (.list [.atom "eval", .atom id, env, .atom start, ex, forest]) =>
    -- the same, with the parse forest the real parser built for the string the harness rendered
    match findDoc st id, decEnv env, decNat start, decExpr ex with
    | some a, some en, some s, some e0 =>
      let e := normCtx e0
      let fa := match decPT forest with
        | some pt => forestAnswer a en s pt (.ok e)
        | none => " walk=unsup valid=- tree=- lower=-"
      (st, s!"model={encResult (Model.run a en s e)} spec={encResult (Spec.run a en s e)} speckf={encResult (Spec.runKF a en s e)}{fa}")
    | none, _, _, _ => (st, "bad-doc")
    | _, none, _, _ => (st, "bad-env")
    | _, _, none, _ => (st, "bad-start")
    | _, _, _, none => (st, "bad-expr")
  | some (.list [.atom "syn", xs]) =>
    match decStrS xs with
    | some cs => (st, synAnswer cs none)
    | none => (st, "bad-syn")
  | some (.list [.atom "syn", xs, ex]) =>
    match decStrS xs, decExpr ex with
    | some cs, some e => (st, synAnswer cs (some e))
    | _, _ => (st, "bad-syn")
  | some (.list [.atom "evalx", .atom id, env, .atom start, xs]) =>
    -- evaluation of an expression STRING: the model parses it itself
    match findDoc st id, decEnv env, decNat start, decStrS xs with
    | some a, some en, some s, some cs =>
      let run (r : ParseRes) (f : Expr → Except Err Val) : String :=
        match r with
        | .ok e => encResult (f e)
        | .err => "builderr"
        | .unsup => "unsup"
      let m := parseModel cs
      let sp := parseSpec cs
      let kf := kfReport cs m sp
      (st, s!"model={run m (Model.run a en s)} spec={run sp (Spec.run a en s)} speckf={run sp (Spec.runKF a en s)} kf={kf}")
    | _, _, _, _ => (st, "bad-evalx")
  | some (.list [.atom "evalx", .atom id, env, .atom start, xs, forest]) =>
    -- the same, with the parse forest of the real parser
    match findDoc st id, decEnv env, decNat start, decStrS xs with
    | some a, some en, some s, some cs =>
      let run (r : ParseRes) (f : Expr → Except Err Val) : String :=
        match r with
        | .ok e => encResult (f e)
        | .err => "builderr"
        | .unsup => "unsup"
      let m := parseModel cs
      let sp := parseSpec cs
      let kf := kfReport cs m sp
      let fa := match m, decPT forest with
        | .unsup, _ => ""
        | _, some pt => forestAnswer a en s pt m
        | _, none => " walk=unsup valid=- tree=- lower=-"
      (st, s!"model={run m (Model.run a en s)} spec={run sp (Spec.run a en s)} speckf={run sp (Spec.runKF a en s)} kf={kf}{fa}")
    | _, _, _, _ => (st, "bad-evalx")
  | some (.list [.atom "store", .list (.atom "evs" :: evs), ar]) =>
    -- the real tree (dump) against the model builder and the specification of the stream's tree
    match evs.mapM decEv, decArena ar with
    | some es, some real =>
      let a := Store.build es
      let b (x : Bool) := if x then 1 else 0
      (st, s!"same={b (a == real)} wf={b (wfb real)} mirrors={b (Spec.mirrors es real)} modelwf={b (wfb a)} modelmirrors={b (Spec.mirrors es a)}")
    | none, _ => (st, "bad-events")
    | _, none => (st, "bad-arena")
  | some (.list [.atom "json", .list (.atom "toks" :: toks), .atom terminal, vals]) =>
    match toks.mapM decJTok with
    | none => (st, "bad-tokens")
    | some ts =>
      if terminal != "eof" then (st, "err")
      else match Json.adapter ts with
        | none => (st, "err")
        | some evs =>
          match vals with
          | .list (.atom "vals" :: vs) =>
            match vs.mapM decJVal with
            | some jv =>
              let specEvs := jv.flatMap Json.eventsOf
              let specToks := jv.flatMap Json.tokensOf
              let ok := specEvs == evs && specToks == ts
              (st, s!"ok events={encEvs evs} specok={if ok then 1 else 0}")
            | none => (st, "bad-vals")
          | _ => (st, s!"ok events={encEvs evs}")
  | some (.list [.atom "jsontext", xs]) =>
    -- the TEXT level: what `json.Decoder.Token()` yields for these characters
    match decStrS xs with
    | none => (st, "unsup")
    | some cs =>
      if hugeExp cs then (st, "unsup")
      else match Json.tokensOfText cs with
        | some ts => (st, "toks=" ++ encJToks ts)
        | none => (st, "err")
  | some (.list [.atom "html", dom]) =>
    match decHTree dom with
    | none => (st, "bad-dom")
    | some t =>
      match Html.adapter t with
      | none => (st, "err")
      | some evs =>
        let ok := Html.specEvents t == some evs
        (st, s!"ok events={encEvs evs} specok={if ok then 1 else 0}")
  | some (.list [.atom "xml", xdoc, .list (.atom "toks" :: toks), .atom terminal, dump]) =>
    match toks.mapM decXTok with
    | none => (st, "bad-tokens")
    | some ts =>
      if terminal != "eof" then (st, "err")
      else
        let b (x : Bool) := if x then 1 else 0
        let a := Store.build (Xml.events ts)
        match decArena dump with
        | none => (st, "bad-arena")
        | some real =>
          match xdoc with
          | .list (.atom "xdoc" :: top) =>
            match decXNodes top with
            | some nodes => (st, s!"same={b (a == real)} wf={b (wfb real)} specok={b (Spec.describe real == Xml.dataModel nodes)} tokok={b (Xml.docTokens nodes == ts)}")
            | none => (st, "bad-xdoc")
          | _ => (st, s!"same={b (a == real)} wf={b (wfb real)}")
  | some (.list [.atom "fuzz"]) => (st, "ok")
  | some (.list [.atom "clic", .list [.atom "flags", .atom a, .atom m, .atom n, .atom r, ft], .list (.atom "args" :: args), out]) =>
    match args.mapM decFTree, decStrS ft, decStrS out with
    | some ts, some fty, some o =>
      let f : Cli.Flags := { printAll := a == "1", asXml := m == "1", suppressNames := n == "1", recursive := r == "1", fileType := fty }
      let blocks := (Cli.processed f ts).map (fun pr => Cli.block f pr.1 pr.2)
      (st, s!"permok={if Cli.isBlockPerm (blocks.length + 2) o blocks then 1 else 0}")
    | _, _, _ => (st, "bad-clic")
  | some (.list [.atom "cli", .list [.atom "flags", .atom a, .atom m, .atom n, .atom r, ft], .list (.atom "args" :: args)]) =>
    match args.mapM decFTree, decStrS ft with
    | some ts, some fty =>
      let f : Cli.Flags := { printAll := a == "1", asXml := m == "1", suppressNames := n == "1", recursive := r == "1", fileType := fty }
      (st, "out=" ++ encStr (Cli.stdout f ts))
    | _, _ => (st, "bad-cli")
  | some (.list [.atom "unm", .atom id, env, res, tgt]) =>
    match findDoc st id, decEnv env, decVal res, decTarget tgt with
    | some a, some en, some r, some t =>
      let out (sem : Sem) (run : Nat → Expr → Except Err Val) : String :=
        match Unm.unmarshal run (sem.sv a) t r with
        | .ok v => "ok " ++ encGoVal v
        | .error _ => "err"
      (st, s!"model={out Model.sem (fun n e => Model.run a en n e)} spec={out Spec.sem (fun n e => Spec.run a en n e)} speckf={out Spec.semKF (fun n e => Spec.runKF a en n e)}")
    | _, _, _, _ => (st, "bad-unm")
  | some (.list [.atom "storeany", .list (.atom "evs" :: evs), ar]) =>
    -- a stream outside the Parser contract: only model = implementation is required
    match evs.mapM decEv, decArena ar with
    | some es, some real => (st, s!"same={if Store.build es == real then 1 else 0}")
    | _, _ => (st, "bad-store")
  | some (.list [.atom "storemodel", .list (.atom "evs" :: evs)]) =>
    match evs.mapM decEv with
    | some es => (st, s!"arena={encArena (Store.build es)}")
    | none => (st, "bad-events")
  | _ => (st, "bad-op")

partial def loop (h : IO.FS.Stream) (out : IO.FS.Stream) (st : DState) : IO Unit := do
  let line ← h.getLine
  if line.isEmpty then
    out.flush
    return ()
  let (st', ans) := handle st line
  out.putStrLn ans
  loop h out st'

def main : IO Unit := do
  let stdin ← IO.getStdin
  let stdout ← IO.getStdout
  loop stdin stdout {}
