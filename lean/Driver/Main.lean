/-
  Driver/Main.lean — line protocol driver: one case per input line, one answer per output line.

    doc <id> <arena>                      remember an arena under <id>; answers "wf=0|1"
    eval <id> <env> <start> <expr>        answers "model=<result> spec=<result>"
    store <events…>                       answers "arena=<arena dump> wf=0|1"
-/
import Xsel.Protocol
open Xsel

structure DState where
  docs : List (String × Arena) := []

def findDoc (st : DState) (id : String) : Option Arena := (st.docs.find? (fun p => p.1 == id)).map (·.2)

def handle (st : DState) (line : String) : DState × String :=
  match Sexp.parse ("(" ++ line ++ ")") with
  | some (.list [.atom "doc", .atom id, ar]) =>
    match decArena ar with
    | some a => ({ st with docs := (id, a) :: (st.docs.filter (fun p => p.1 != id)).take 8 }, s!"wf={if wfb a then 1 else 0}")
    | none => (st, "bad-arena")
  | some (.list [.atom "eval", .atom id, env, .atom start, ex]) =>
    match findDoc st id, decEnv env, decNat start, decExpr ex with
    | some a, some en, some s, some e =>
      (st, s!"model={encResult (Model.run a en s e)} spec={encResult (Spec.run a en s e)} speckf={encResult (Spec.runKF a en s e)}")
    | none, _, _, _ => (st, "bad-doc")
    | _, none, _, _ => (st, "bad-env")
    | _, _, none, _ => (st, "bad-start")
    | _, _, _, none => (st, "bad-expr")
  | some (.list (.atom "store" :: evs)) =>
    match evs.mapM decEv with
    | some es =>
      let a := Store.build es
      (st, s!"arena={encArena a} wf={if wfb a then 1 else 0}")
    | none => (st, "bad-events")
  | _ => (st, "bad-op")

partial def loop (h : IO.FS.Stream) (out : IO.FS.Stream) (st : DState) : IO Unit := do
  let line ← h.getLine
  if line.isEmpty then
    out.flush
    return ()
  let (st', ans) := handle st line
  out.putStrLn ans
  loop h out st'

def main : IO Unit := do
  let stdin ← IO.getStdin
  let stdout ← IO.getStdout
  loop stdin stdout {}
