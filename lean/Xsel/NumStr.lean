/-
  Xsel/NumStr.lean — conversions between doubles and decimal text.

  * `strToNum`  : XPath 1.0 `number()` on strings (the repaired `parseNumber` of exec/result.go):
                  optional XML white space, optional '-', Digits ('.' Digits?)? | '.' Digits.
  * `numToStr`  : XPath 1.0 `string()` on numbers (`Number.String()`): NaN, ±Infinity, "0" for both
                  zeros, otherwise the shortest decimal that reads back, printed without exponent
                  (Go: strconv.FormatFloat(f, 'f', -1, 64)).
  * `numToStrG` : strconv.FormatFloat(f, 'g', -1, 64), the JSON adapter's rendering of numbers.
-/
import Xsel.Num

namespace Xsel

abbrev Chars := List Char

def isXmlSpace (c : Char) : Bool := c == ' ' || c == '\t' || c == '\r' || c == '\n'

def isDigit (c : Char) : Bool := '0' ≤ c && c ≤ '9'

def digitVal (c : Char) : Nat := c.toNat - '0'.toNat

/-- value of a string of decimal digits (most significant first) -/
def digitsVal (ds : Chars) : Nat := ds.foldl (fun acc c => acc * 10 + digitVal c) 0

def trimLeft (s : Chars) : Chars := s.dropWhile isXmlSpace
def trimRight (s : Chars) : Chars := (s.reverse.dropWhile isXmlSpace).reverse
def trimXml (s : Chars) : Chars := trimRight (trimLeft s)

/-- `Digits ('.' Digits?)? | '.' Digits` as an exact rational; `none` if the text has another shape -/
def parseUnsigned (s : Chars) : Option Rat :=
  let ip := s.takeWhile isDigit
  let rest := s.dropWhile isDigit
  match rest with
  | [] => if ip.isEmpty then none else some (digitsVal ip : Rat)
  | '.' :: fr =>
    if fr.all isDigit && !(ip.isEmpty && fr.isEmpty) then
      some (((digitsVal ip * 10 ^ fr.length + digitsVal fr : Nat) : Rat) / ((10 ^ fr.length : Nat) : Rat))
    else none
  | _ => none

/-- XPath `number(string)` -/
def strToNum (s : Chars) : Num :=
  match trimXml s with
  | '-' :: r =>
    match parseUnsigned r with
    | some q => Num.neg (Num.rnd q)
    | none => .nan
  | r =>
    match parseUnsigned r with
    | some q => Num.rnd q
    | none => .nan

/-! ### shortest round-trip digits -/

/-- number of decimal digits of `n` (0 has 1 digit) -/
def natDigits (n : Nat) : Chars := Nat.toDigits 10 n

/-- `k` with `10^k ≤ q < 10^(k+1)` for `q > 0`, found by correcting an estimate (fuel-bounded) -/
def log10Floor (q : Rat) : Int :=
  let est : Int := (((Nat.log2 q.num.toNat : Int) - (Nat.log2 q.den : Int)) * 30103) / 100000
  let rec down (fuel : Nat) (k : Int) : Int :=
    match fuel with
    | 0 => k
    | fuel + 1 => if q < (10 : Rat) ^ k then down fuel (k - 1) else k
  let rec up (fuel : Nat) (k : Int) : Int :=
    match fuel with
    | 0 => k
    | fuel + 1 => if (10 : Rat) ^ (k + 1) ≤ q then up fuel (k + 1) else k
  up 400 (down 400 (est + 1))

structure Dec where
  /-- significant digits, no leading or trailing zeros (non-empty for non-zero values) -/
  digits : Chars
  /-- position of the decimal point relative to the start of `digits`: value = 0.d₁d₂… × 10^dp -/
  dp : Int
deriving Repr, DecidableEq

def stripTrailingZeros (ds : Chars) : Chars := (ds.reverse.dropWhile (· == '0')).reverse

/-- the `n`-significant-digit candidates around `q`, and the one that reads back as `q`
    (closest to `q`; exact ties go to the even last digit). -/
def shortestAt (q : Rat) (k : Int) (n : Nat) : Option Dec :=
  let scale : Rat := (10 : Rat) ^ (k + 1 - (n : Int))
  let lo : Nat := (q / scale).floor.toNat
  let hi : Nat := lo + 1
  let okLo : Bool := lo != 0 && Num.rnd ((lo : Rat) * scale) == .fin q
  let okHi : Bool := Num.rnd ((hi : Rat) * scale) == .fin q
  let dLo : Rat := q - (lo : Rat) * scale
  let dHi : Rat := (hi : Rat) * scale - q
  let pick : Option Nat :=
    if okLo && okHi then
      if dLo < dHi then some lo else if dHi < dLo then some hi
      else if lo % 2 == 0 then some lo else some hi
    else if okLo then some lo
    else if okHi then some hi
    else none
  match pick with
  | none => none
  | some m =>
    let ds := natDigits m
    -- m has n digits, or n+1 digits when hi = 10^n
    some { digits := stripTrailingZeros ds, dp := k + 1 + ((ds.length : Int) - (n : Int)) }

/-- exact decimal expansion of a positive dyadic rational (fallback; always reads back) -/
def exactDec (q : Rat) (k : Int) : Dec :=
  -- q = num/den with den a power of two: multiply until integral
  let rec go (fuel : Nat) (m : Rat) (sh : Nat) : Nat × Nat :=
    match fuel with
    | 0 => (m.floor.toNat, sh)
    | fuel + 1 => if m.den == 1 then (m.num.toNat, sh) else go fuel (m * 10) (sh + 1)
  let (m, sh) := go 1100 q 0
  let ds := natDigits m
  let _ := k
  { digits := stripTrailingZeros ds, dp := (ds.length : Int) - (sh : Int) }

def shortestDec (q : Rat) : Dec :=
  let k := log10Floor q
  let rec search (fuel : Nat) (n : Nat) : Dec :=
    match fuel with
    | 0 => exactDec q k
    | fuel + 1 =>
      match shortestAt q k n with
      | some d => d
      | none => search fuel (n + 1)
  search 17 1

def zeros (n : Nat) : Chars := List.replicate n '0'

/-- `%f` layout of a decimal, no exponent, no trailing ".": Go's fmtF with the shortest precision -/
def layoutF (d : Dec) : Chars :=
  let nd : Int := d.digits.length
  if d.dp ≤ 0 then
    '0' :: '.' :: (zeros (-d.dp).toNat ++ d.digits)
  else if nd ≤ d.dp then
    d.digits ++ zeros (d.dp - nd).toNat
  else
    d.digits.take d.dp.toNat ++ ('.' :: d.digits.drop d.dp.toNat)

/-- XPath `string(number)` -/
def numToStr : Num → Chars
  | .nan => "NaN".toList
  | .pinf => "Infinity".toList
  | .ninf => "-Infinity".toList
  | .nzero => ['0']
  | .fin q =>
    if q == 0 then ['0']
    else if q < 0 then '-' :: layoutF (shortestDec (-q))
    else layoutF (shortestDec q)

/-- `%e` layout: d.ddde±XX -/
def layoutE (d : Dec) : Chars :=
  let exp : Int := d.dp - 1
  let mant : Chars :=
    match d.digits with
    | [] => ['0']
    | [c] => [c]
    | c :: cs => c :: '.' :: cs
  let ea : Nat := exp.natAbs
  let ed : Chars := natDigits ea
  let ed := if ed.length < 2 then '0' :: ed else ed
  mant ++ ('e' :: (if exp < 0 then '-' else '+') :: ed)

/-- strconv.FormatFloat(f, 'g', -1, 64) -/
def numToStrG : Num → Chars
  | .nan => "NaN".toList
  | .pinf => "+Inf".toList
  | .ninf => "-Inf".toList
  | .nzero => "-0".toList
  | .fin q =>
    if q == 0 then ['0']
    else
      let neg := q < 0
      let d := shortestDec (if neg then -q else q)
      let exp : Int := d.dp - 1
      let body := if exp < -4 || exp ≥ 6 then layoutE d else layoutF d
      if neg then '-' :: body else body

end Xsel
