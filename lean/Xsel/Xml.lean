/-
  Xsel/Xml.lean — MODEL of parser/xml.go (`xmlParser.Pull` over `encoding/xml.Decoder.Token()`,
  after the `fix:` commits) and SPECIFICATION of the XPath data model of an XML document.

  The model consumes the tokens the real decoder produced (tokenisation, entity expansion and
  prefix-to-URI translation are encoding/xml's and are not modelled) and yields the event list of
  the successive `Pull()` calls.  The specification is written on an abstract document `XDoc`
  (prefixed names, namespace declarations, text given as segments) and resolves names and in-scope
  namespaces itself, as Namespaces in XML and XPath 1.0 §5 define them.
-/
import Xsel.SpecStore

namespace Xsel
namespace Xml

structure XName where
  space : Chars
  loc : Chars
deriving Repr, DecidableEq, Inhabited

structure XAttr where
  name : XName
  val : Chars
deriving Repr, DecidableEq, Inhabited

/-- what `xml.Decoder.Token()` returns -/
inductive Tok where
  | start (n : XName) (attrs : List XAttr)
  | stop
  | chardata (s : Chars)
  | comment (s : Chars)
  | procinst (target inst : Chars)
  | directive
deriving Repr, DecidableEq, Inhabited

def xmlnsC : Chars := "xmlns".toList
def xmlC : Chars := "xml".toList
def xmlNsUri : Chars := "http://www.w3.org/XML/1998/namespace".toList

/-- `createXmlNamespaces`: the `xml` binding, then the declarations in attribute order:
    `xmlns="u"`, `xmlns:p="u"` (Space = "xmlns") and the legacy spelling `p:xmlns="u"` -/
def createNamespaces (attrs : List XAttr) : List Ev :=
  .ns xmlC xmlNsUri ::
    attrs.filterMap (fun a =>
      if a.name.space.isEmpty && a.name.loc == xmlnsC then some (.ns [] a.val)
      else if a.name.space == xmlnsC then some (.ns a.name.loc a.val)
      else if a.name.loc == xmlnsC then some (.ns a.name.space a.val)
      else none)

/-- `createXmlAttrs` -/
def createAttrs (attrs : List XAttr) : List Ev :=
  attrs.filterMap (fun a =>
    if a.name.space == xmlnsC || a.name.loc == xmlnsC then none
    else some (.attr a.name.space a.name.loc a.val))

def isWs (s : Chars) : Bool := s.all isXmlSpace

/-- emit the character data accumulated so far: white space outside the document element is dropped -/
def flush (depth : Nat) (pending : Option Chars) : List Ev :=
  match pending with
  | none => []
  | some s => if depth == 0 && isWs s then [] else [.text s]

/-- the events of all `Pull()` calls: adjacent character data is merged into one text node -/
def adapter : Nat → Option Chars → List Tok → List Ev
  | depth, pending, [] => flush depth pending
  | depth, pending, .chardata s :: ts =>
    adapter depth (some ((pending.getD []) ++ s)) ts
  | depth, pending, .start n attrs :: ts =>
    flush depth pending ++ (.elem n.space n.loc :: (createNamespaces attrs ++ createAttrs attrs))
      ++ adapter (depth + 1) none ts
  | depth, pending, .stop :: ts => flush depth pending ++ (.close :: adapter (depth - 1) none ts)
  | depth, pending, .comment s :: ts => flush depth pending ++ (.comment s :: adapter depth none ts)
  | depth, pending, .procinst t i :: ts =>
    flush depth pending ++ ((if t == xmlC then [] else [.pi t i]) ++ adapter depth none ts)
  | depth, pending, .directive :: ts => flush depth pending ++ adapter depth none ts

def events (toks : List Tok) : List Ev := adapter 0 none toks

/-! ### specification -/

mutual
inductive XNode where
  /-- `<pfx:loc …> kids </pfx:loc>`; `decls` are (prefix, uri) with prefix "" for `xmlns=`;
      `attrsFirst`: the ordinary attributes are written before the namespace declarations -/
  | elem (pfx : Option Chars) (loc : Chars) (decls : List (Chars × Chars))
         (attrs : List (Option Chars × Chars × Chars)) (attrsFirst : Bool) (kids : XNodes)
  /-- character data written as adjacent segments; `true` = a CDATA section, `false` = plain text
      (with references); every segment is non-empty -/
  | text (segs : List (Bool × Chars))
  | comment (s : Chars)
  | pi (target data : Chars)
  /-- layout that is not part of the data model: the XML declaration, a DOCTYPE, white space between
      top-level constructs -/
  | xmldecl (data : Chars)
  | doctype
  | ws (s : Chars)
inductive XNodes where
  | nil
  | cons (n : XNode) (t : XNodes)
end

def lookupNs (p : Chars) : List (Chars × Chars) → Chars
  | [] => []
  | (p', u) :: t => if p' == p then u else lookupNs p t

/-- the scope after an element's declarations -/
def scopeOf (sc : List (Chars × Chars)) (decls : List (Chars × Chars)) : List (Chars × Chars) :=
  decls.foldl (fun acc pu => Spec.bind pu.1 pu.2 acc) sc

def elemUri (sc : List (Chars × Chars)) (pfx : Option Chars) : Chars :=
  match pfx with
  | none => lookupNs [] sc
  | some p => lookupNs p sc

def attrUri (sc : List (Chars × Chars)) (pfx : Option Chars) : Chars :=
  match pfx with
  | none => []
  | some p => lookupNs p sc

open Spec in
mutual
/-- §5 of XPath 1.0: the nodes of the data model in document order (namespace nodes folded into
    the `scope` of their element) -/
def model : List (Chars × Chars) → Nat → XNode → List NodeDesc
  | sc, d, .elem pfx loc decls attrs _ kids =>
    let sc' := scopeOf sc decls
    { kind := .elem, uri := elemUri sc' pfx, loc := loc, val := [], depth := d, scope := sortBinds sc' }
      :: (attrs.map (fun a =>
            { kind := .attr, uri := attrUri sc' a.1, loc := a.2.1, val := a.2.2, depth := d + 1, scope := [] })
          ++ modelList sc' (d + 1) kids)
  | _, d, .text segs =>
    [{ kind := .text, uri := [], loc := [], val := (segs.map (·.2)).flatten, depth := d, scope := [] }]
  | _, d, .comment s => [{ kind := .comment, uri := [], loc := [], val := s, depth := d, scope := [] }]
  | _, d, .pi t v => [{ kind := .pi, uri := [], loc := t, val := v, depth := d, scope := [] }]
  | _, _, .xmldecl _ => []
  | _, _, .doctype => []
  | _, _, .ws _ => []
def modelList : List (Chars × Chars) → Nat → XNodes → List NodeDesc
  | _, _, .nil => []
  | sc, d, .cons n t => model sc d n ++ modelList sc d t
end

/-- the data model of a document: prolog (comments, PIs), document element, epilog -/
def dataModel (top : XNodes) : List Spec.NodeDesc := modelList [(xmlC, xmlNsUri)] 1 top

/-! ### the token stream of a document (what encoding/xml's decoder yields; validated against the
    real decoder on every generated document) -/

/-- adjacent plain segments reach the adapter as one CharData token, every CDATA section as its own -/
def textToks : Option Chars → List (Bool × Chars) → List Tok
  | pending, [] => match pending with | some s => [.chardata s] | none => []
  | pending, (false, s) :: t => textToks (some (pending.getD [] ++ s)) t
  | pending, (true, s) :: t =>
    (match pending with | some p => [.chardata p] | none => []) ++ (.chardata s :: textToks none t)

def declAttr (pu : Chars × Chars) : XAttr :=
  if pu.1.isEmpty then { name := { space := [], loc := xmlnsC }, val := pu.2 }
  else { name := { space := xmlnsC, loc := pu.1 }, val := pu.2 }

mutual
def tokensOf : List (Chars × Chars) → XNode → List Tok
  | sc, .elem pfx loc decls attrs attrsFirst kids =>
    let sc' := scopeOf sc decls
    let das := decls.map declAttr
    let aas := attrs.map (fun a => ({ name := { space := attrUri sc' a.1, loc := a.2.1 }, val := a.2.2 } : XAttr))
    .start { space := elemUri sc' pfx, loc := loc } (if attrsFirst then aas ++ das else das ++ aas)
      :: (tokensOfList sc' kids ++ [.stop])
  | _, .text segs => textToks none segs
  | _, .comment s => [.comment s]
  | _, .pi t v => [.procinst t v]
  | _, .xmldecl d => [.procinst xmlC d]
  | _, .doctype => [.directive]
  | _, .ws s => [.chardata s]
def tokensOfList : List (Chars × Chars) → XNodes → List Tok
  | _, .nil => []
  | sc, .cons n t => tokensOf sc n ++ tokensOfList sc t
end

def docTokens (top : XNodes) : List Tok := tokensOfList [(xmlC, xmlNsUri)] top

end Xml
end Xsel
