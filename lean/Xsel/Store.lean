/-
  Xsel/Store.lean — MODEL of store/inmemory.go (`CreateInMemory`, after the `fix:` commits):
  the loop over `Parser.Pull()` events that builds the cursor tree.

  The Go builder allocates `*InMemory` objects and threads a `pos` counter; the model appends
  cells to an arena.  Namespace nodes declared on an element are kept pending until the first
  attribute / child / end event of that element (`finishNamespaces`): then the declared ones are
  materialised (an empty value undeclares the prefix), followed by a fresh copy of every
  namespace node of the parent whose prefix was not declared.
-/
import Xsel.Arena

namespace Xsel

/-- what `Parser.Pull()` can return -/
inductive Ev where
  | elem (uri loc : Chars)
  | ns (pfx uri : Chars)
  | attr (uri loc val : Chars)
  | text (v : Chars)
  | comment (v : Chars)
  | pi (target v : Chars)
  | close
deriving Repr, DecidableEq, Inhabited

namespace Store

structure BState where
  a : Arena
  /-- the open element (`cursor`) -/
  cur : Nat := 0
  /-- namespace declarations of `cur` that have no node yet: (prefix, uri), in emission order -/
  pending : List (Chars × Chars) := []
  /-- `cursor.nsDone` -/
  done : Bool := false
deriving Repr, Inhabited

def init : BState :=
  { a := #[{ kind := .root, pos := 0, parent := 0 }] }

/-- append a cell; its position is the next counter value, which equals its index -/
def alloc (a : Arena) (c : Cell) : Arena × Nat :=
  (a.push { c with pos := a.size }, a.size)

def setCell (a : Arena) (i : Nat) (f : Cell → Cell) : Arena :=
  a.modify i f

/-- replace the declaration of the same prefix, else append -/
def declare (p u : Chars) : List (Chars × Chars) → List (Chars × Chars)
  | [] => [(p, u)]
  | (p', u') :: t => if p' == p then (p, u) :: t else (p', u') :: declare p u t

/-- `finishNamespaces` -/
def finish (s : BState) : BState :=
  if s.done then s
  else
    -- the namespaces declared on the element itself, empty values dropped
    let (a1, own) := s.pending.foldl (fun (acc : Arena × List Nat) (pu : Chars × Chars) =>
      if pu.2.isEmpty then acc
      else
        let (a', i) := alloc acc.1 { kind := .ns, loc := pu.1, val := pu.2, parent := s.cur }
        (a', acc.2 ++ [i])) (s.a, [])
    -- copies of the parent's namespace nodes that are not overridden
    let inherited : List Nat := if s.cur == 0 then [] else Arena.nss s.a (Arena.parent s.a s.cur)
    let (a2, all) := inherited.foldl (fun (acc : Arena × List Nat) (j : Nat) =>
      let c := Arena.cell s.a j
      if s.pending.any (fun pu => pu.1 == c.loc) then acc
      else
        let (a', i) := alloc acc.1 { kind := .ns, loc := c.loc, val := c.val, parent := s.cur }
        (a', acc.2 ++ [i])) (a1, own)
    { s with a := setCell a2 s.cur (fun c => { c with nss := all }), pending := [], done := true }

/-- add a child node (text, comment, PI) or an attribute to the open element -/
def addLeaf (s : BState) (c : Cell) (isAttr : Bool) : BState :=
  let s := finish s
  let (a', i) := alloc s.a { c with parent := s.cur }
  let a'' := setCell a' s.cur (fun p =>
    if isAttr then { p with attrs := p.attrs ++ [i] } else { p with kids := p.kids ++ [i] })
  { s with a := a'' }

/-- one iteration of the loop in `createInMemory` -/
def step (s : BState) : Ev → BState
  | .close =>
    let s := finish s
    -- the parent of an open element has a child, so its namespaces are final
    { s with cur := Arena.parent s.a s.cur, pending := [], done := true }
  | .ns p u =>
    if s.done then
      -- a namespace emitted after the attributes or children (outside the Parser contract)
      match (Arena.nss s.a s.cur).find? (fun j => (Arena.cell s.a j).loc == p) with
      | some j => { s with a := setCell s.a j (fun c => { c with val := u }) }
      | none =>
        let (a', i) := alloc s.a { kind := .ns, loc := p, val := u, parent := s.cur }
        { s with a := setCell a' s.cur (fun c => { c with nss := c.nss ++ [i] }) }
    else { s with pending := declare p u s.pending }
  | .attr u l v => addLeaf s { kind := .attr, uri := u, loc := l, val := v } true
  | .text v => addLeaf s { kind := .text, val := v } false
  | .comment v => addLeaf s { kind := .comment, val := v } false
  | .pi t v => addLeaf s { kind := .pi, loc := t, val := v } false
  | .elem u l =>
    let s := finish s
    let (a', i) := alloc s.a { kind := .elem, uri := u, loc := l, parent := s.cur }
    let a'' := setCell a' s.cur (fun p => { p with kids := p.kids ++ [i] })
    { a := a'', cur := i, pending := [], done := false }

/-- `CreateInMemory` on a stream that ends with io.EOF -/
def build (evs : List Ev) : Arena := (finish (evs.foldl step init)).a

end Store
end Xsel
