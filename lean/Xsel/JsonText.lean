/-
  Xsel/JsonText.lean — MODEL of the TEXT level below `Xsel/Json.lean`: what Go's
  `encoding/json.Decoder` reads from the characters of a stream of JSON texts.

  `parseText cs` are the values of the stream (RFC 8259 grammar for one value; white space = space,
  \t, \n, \r), `tokensOfText cs` what the successive `Decoder.Token()` calls yield until io.EOF.

  The reader is a recursive-descent reader over `Chars` (code points; the driver decodes UTF-8):
  `pStr` (structural recursion: the units of the literal, then the surrogate pairs), `pNum` (spans
  of digits), and `pVal`/`pTail`/`pMember`/`pMTail` (mutual, with fuel: `cs.length + 1` is enough, a
  value of `n` characters needs at most `n`).  Everything is computable and reduces in the kernel.

  Decisions (checked against go1.23 `encoding/json`, see the probe list at the end of this header):

  * TOP LEVEL.  Go's `Decoder` does NOT require a delimiter between top-level values: the scanner
    ends a value at the first byte that cannot continue it and the next `Token()` starts there.  So
    `truefalse` is `true false`, `1true` is `1 true`, `nullnull` is `null null`, and, because a
    leading `0` ends the integer part, `01` is `0 1`, `00` is `0 0`, `-01` is `-0 1`; `12` is one
    number (maximal munch).  The model follows Go here (a delimiter rule "scalar must be followed by
    white space, a structural character, '"' or the end" would be stricter than the implementation).
    INSIDE arrays and objects a value must be followed by `,` or the closing bracket, so `[01]`,
    `[1true]`, `[1 2]` are errors, as in Go.
  * A number is scanned like Go's scanner: once a `.` or an `e`/`E` has been read the digits MUST
    follow (`1.`, `1.x`, `1e`, `1e+` are errors of the whole text, not "1 then ."), `-` must be
    followed by a digit.  Its value is the exact rational rounded by `Num.rnd`; a negative literal
    whose magnitude rounds to zero is `-0` (`-0`, `-0.0`, `-1e-400`); a literal that rounds to an
    infinity is rejected (Go: "cannot unmarshal number … into Go value of type float64").  Underflow
    is not an error.
  * Strings: raw characters below U+0020 are errors, `"` ends the string, escapes
    `\" \\ \/ \b \f \n \r \t` and `\uXXXX` (hex digits of either case).  A high-surrogate escape
    directly followed by a low-surrogate escape is one character; any other surrogate escape is
    U+FFFD (so `\ud800\ud800\udc00` is U+FFFD U+10000 and `\udc00\ud800` is U+FFFD U+FFFD).  `Chars`
    are Unicode scalar values: input that is not valid UTF-8 is outside the model (the driver
    answers `unsup`; Go replaces the bytes by U+FFFD).
  * TRUNCATED input (the text ends inside an array or object, e.g. `[1,`): Go's `Token()` yields the
    tokens read so far and then io.EOF (no error; the adapter `jsonParser` then reports the
    unfinished container, `Json.adapter … = none`).  `parseText` speaks about VALUES, so it answers
    `none`.  Both readings make `ReadJson` fail; only the token lists differ (`none` against a proper
    prefix of the tokens of a value, on which `Json.adapter` is `none` by `json_truncated_errors`).
    A text that ends inside a scalar (`tru`, `"abc`, `1e`) is an error for Go's `Token()` too.
  * No nesting limit (`Token()` handles brackets itself; the scanner's limit of 10000 levels only
    applies to `Decode` of a whole value).  Duplicate keys are kept in order.  U+FEFF (BOM), form
    feed and other Unicode spaces are not white space.
  * The value of a number is computed exactly (`10^e` as a rational), so the driver (not the model)
    leaves texts with an exponent of more than 5 digits out of the comparison (`unsup`).

  Probes (input ⇒ tokens of go1.23): `` ⇒ EOF; `1 2` ⇒ 1 2; `12` ⇒ 12; `truefalse` ⇒ true false;
  `1true` ⇒ 1 true; `01` ⇒ 0 1; `"a""b"` ⇒ "a" "b"; `[]{}` ⇒ [ ] { }; `1]`, `1,2`, `[1,]`, `{"a":1,}`,
  `[01]`, `[1 2]`, `+1`, `.5`, `1.`, `1e`, `-`, `--1`, `1e5x`, `1.5.5`, `"\x"`, `"a<TAB>b"`, `\f1`,
  BOM ⇒ error; `-0`, `-0.0`, `-1e-400` ⇒ 8000000000000000; `1e400`, `1.7976931348623159e308` ⇒ error;
  `2e-324` ⇒ 0; `3e-324` ⇒ 1 ulp; `"\ud83d\ude00"` ⇒ U+1F600; `"\ud800"`, `"\udc00\ud800"` ⇒ U+FFFD(s).
-/
import Xsel.Json

namespace Xsel
namespace Json

/-! ### characters -/

/-- JSON white space -/
def isWs (c : Char) : Bool := c == ' ' || c == '\t' || c == '\n' || c == '\r'

def skipWs (cs : Chars) : Chars := cs.dropWhile isWs

/-- value of a hexadecimal digit (either case) -/
def hexDig (c : Char) : Option Nat :=
  if '0' ≤ c ∧ c ≤ '9' then some (c.toNat - '0'.toNat)
  else if 'a' ≤ c ∧ c ≤ 'f' then some (c.toNat - 'a'.toNat + 10)
  else if 'A' ≤ c ∧ c ≤ 'F' then some (c.toNat - 'A'.toNat + 10)
  else none

def hex4 (a b c d : Char) : Option Nat :=
  match hexDig a, hexDig b, hexDig c, hexDig d with
  | some x, some y, some z, some w => some (((x * 16 + y) * 16 + z) * 16 + w)
  | _, _, _, _ => none

def isHiSur (n : Nat) : Bool := 0xD800 ≤ n && n < 0xDC00
def isLoSur (n : Nat) : Bool := 0xDC00 ≤ n && n < 0xE000

/-- the character of a `\uXXXX` escape that is not part of a surrogate pair -/
def uChar (n : Nat) : Char := if isHiSur n || isLoSur n then Char.ofNat 0xFFFD else Char.ofNat n

/-- `utf16.DecodeRune` on a high and a low surrogate -/
def surPair (hi lo : Nat) : Char := Char.ofNat (0x10000 + (hi - 0xD800) * 0x400 + (lo - 0xDC00))

/-- the single-character escapes -/
def simpleEsc (c : Char) : Option Char :=
  if c = '"' then some '"' else if c = '\\' then some '\\' else if c = '/' then some '/'
  else if c = 'b' then some (Char.ofNat 8) else if c = 'f' then some (Char.ofNat 12)
  else if c = 'n' then some '\n' else if c = 'r' then some '\r' else if c = 't' then some '\t'
  else none

/-! ### strings -/

/-- a unit of a string literal: a character (raw or a single-character escape) or the 16-bit code
    of a `\uXXXX` escape -/
inductive SUnit where
  | ch (c : Char)
  | u (n : Nat)
deriving Repr, DecidableEq

/-- the units of a string literal and the rest of the input; `cs` starts after the opening `"` -/
def pStrU : Chars → Option (List SUnit × Chars)
  | [] => none
  | c :: r =>
    if c = '"' then some ([], r)
    else if c = '\\' then
      match r with
      | [] => none
      | e :: r1 =>
        if e = 'u' then
          match r1 with
          | a :: b :: c2 :: d :: r2 =>
            match hex4 a b c2 d with
            | none => none
            | some n => (pStrU r2).map (fun p => (.u n :: p.1, p.2))
          | _ => none
        else
          match simpleEsc e with
          | some x => (pStrU r1).map (fun p => (.ch x :: p.1, p.2))
          | none => none
    else if c.toNat < 0x20 then none
    else (pStrU r).map (fun p => (.ch c :: p.1, p.2))

/-- the characters of the units: a high-surrogate escape directly followed by a low-surrogate escape
    is one character, any other surrogate escape is U+FFFD (Go's `unquote`) -/
def combine : List SUnit → Chars
  | [] => []
  | .ch c :: r => c :: combine r
  | .u n :: .u m :: r =>
    if isHiSur n && isLoSur m then surPair n m :: combine r else uChar n :: combine (.u m :: r)
  | .u n :: r => uChar n :: combine r

/-- the characters of a string literal and the rest of the input; `cs` starts after the opening `"` -/
def pStr (cs : Chars) : Option (Chars × Chars) := (pStrU cs).map (fun p => (combine p.1, p.2))

/-! ### numbers -/

/-- `0 | [1-9][0-9]*`: a leading `0` ends the integer part (Go's `state0`) -/
def scanInt : Chars → Option (Chars × Chars)
  | [] => none
  | c :: r =>
    if c = '0' then some (['0'], r)
    else if isDigit c then some (c :: r.takeWhile isDigit, r.dropWhile isDigit)
    else none

/-- `(\.[0-9]+)?`: after a `.` at least one digit must follow -/
def scanFrac : Chars → Option (Chars × Chars)
  | [] => some ([], [])
  | c :: r =>
    if c = '.' then
      (if (r.takeWhile isDigit).isEmpty then none else some (r.takeWhile isDigit, r.dropWhile isDigit))
    else some ([], c :: r)

/-- an optional sign of the exponent -/
def scanSign : Chars → Bool × Chars
  | [] => (false, [])
  | s :: r => if s = '+' then (false, r) else if s = '-' then (true, r) else (false, s :: r)

/-- `([eE][+-]?[0-9]+)?`: the exponent (0 if there is none); after `e` the digits must follow -/
def scanExp : Chars → Option (Int × Chars)
  | [] => some (0, [])
  | c :: r =>
    if c = 'e' ∨ c = 'E' then
      let sr := scanSign r
      let ds := sr.2.takeWhile isDigit
      if ds.isEmpty then none
      else some ((if sr.1 then -((digitsVal ds : Nat) : Int) else ((digitsVal ds : Nat) : Int)), sr.2.dropWhile isDigit)
    else some (0, c :: r)

/-- the exact value `ip.fr × 10^e` of the literal, rounded to the nearest double -/
def numVal (neg : Bool) (ip fr : Chars) (e : Int) : Num :=
  let q : Rat := ((digitsVal (ip ++ fr) : Nat) : Rat) * (10 : Rat) ^ (e - (fr.length : Int))
  if neg then Num.neg (Num.rnd q) else Num.rnd q

/-- the unsigned part of a number -/
def pUNum (neg : Bool) (cs : Chars) : Option (Num × Chars) :=
  match scanInt cs with
  | none => none
  | some (ip, r1) =>
    match scanFrac r1 with
    | none => none
    | some (fr, r2) =>
      match scanExp r2 with
      | none => none
      | some (e, r3) =>
        let v := numVal neg ip fr e
        if v.isInf then none else some (v, r3)

/-- `-? int frac? exp?`; `none` also when the value is outside the range of float64 -/
def pNum : Chars → Option (Num × Chars)
  | [] => none
  | c :: r => if c = '-' then pUNum true r else pUNum false (c :: r)

/-! ### values -/

/-- the rest of a literal name: `lit p cs` is `some r` when `cs = p ++ r` -/
def lit : Chars → Chars → Option Chars
  | [], cs => some cs
  | _ :: _, [] => none
  | a :: p, c :: cs => if a = c then lit p cs else none

mutual
/-- one value; `cs` starts at its first character (white space has been skipped) -/
def pVal : Nat → Chars → Option (JVal × Chars)
  | 0, _ => none
  | _ + 1, [] => none
  | f + 1, c :: r =>
    if c = '[' then
      match skipWs r with
      | [] => none
      | c1 :: r1 =>
        if c1 = ']' then some (.arr .nil, r1)
        else
          match pVal f (c1 :: r1) with
          | none => none
          | some (v, r2) => (pTail f r2).map (fun p => (.arr (.cons v p.1), p.2))
    else if c = '{' then
      match skipWs r with
      | [] => none
      | c1 :: r1 =>
        if c1 = '}' then some (.obj .nil, r1)
        else
          match pMember f (c1 :: r1) with
          | none => none
          | some (k, v, r2) => (pMTail f r2).map (fun p => (.obj (.cons k v p.1), p.2))
    else if c = '"' then (pStr r).map (fun p => (.str p.1, p.2))
    else if c = 't' then (lit ['r', 'u', 'e'] r).map (fun r' => (.bool true, r'))
    else if c = 'f' then (lit ['a', 'l', 's', 'e'] r).map (fun r' => (.bool false, r'))
    else if c = 'n' then (lit ['u', 'l', 'l'] r).map (fun r' => (.null, r'))
    else (pNum (c :: r)).map (fun p => (.num p.1, p.2))
/-- what follows an item of an array: `,` and the next item, or the closing `]` -/
def pTail : Nat → Chars → Option (JList × Chars)
  | 0, _ => none
  | f + 1, cs =>
    match skipWs cs with
    | [] => none
    | c :: r =>
      if c = ',' then
        match pVal f (skipWs r) with
        | none => none
        | some (v, r1) => (pTail f r1).map (fun p => (.cons v p.1, p.2))
      else if c = ']' then some (.nil, r)
      else none
/-- a member `"key" : value`; `cs` starts at the first character of the key -/
def pMember : Nat → Chars → Option (Chars × JVal × Chars)
  | 0, _ => none
  | _ + 1, [] => none
  | f + 1, q :: r0 =>
    if q = '"' then
      match pStr r0 with
      | none => none
      | some (k, r) =>
        match skipWs r with
        | [] => none
        | c :: r1 =>
          if c = ':' then
            match pVal f (skipWs r1) with
            | none => none
            | some (v, r2) => some (k, v, r2)
          else none
    else none
/-- what follows a member of an object: `,` and the next member, or the closing `}` -/
def pMTail : Nat → Chars → Option (JMembers × Chars)
  | 0, _ => none
  | f + 1, cs =>
    match skipWs cs with
    | [] => none
    | c :: r =>
      if c = ',' then
        match pMember f (skipWs r) with
        | none => none
        | some (k, v, r1) => (pMTail f r1).map (fun p => (.cons k v p.1, p.2))
      else if c = '}' then some (.nil, r)
      else none
end

/-- the top-level values until the end of the input (the fuel is at least the number of characters
    left plus one: every value has at least one character) -/
def pTop : Nat → Chars → Option (List JVal)
  | 0, _ => none
  | f + 1, cs =>
    match skipWs cs with
    | [] => some []
    | c :: r =>
      match pVal (f + 1) (c :: r) with
      | none => none
      | some (v, r') => (pTop f r').map (fun vs => v :: vs)

/-- the values of a stream of JSON texts (RFC 8259 grammar; white space = space, \t, \n, \r between
    tokens and between top-level values), `none` if the characters are not such a stream -/
def parseText (cs : Chars) : Option (List JVal) := pTop (cs.length + 1) cs

/-- what Go's `json.Decoder.Token()` yields until io.EOF for such a text -/
def tokensOfText (cs : Chars) : Option (List Json.Tok) :=
  (parseText cs).map (fun vs => vs.flatMap tokensOf)

end Json
end Xsel
