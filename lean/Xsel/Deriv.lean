/-
  Xsel/Deriv.lean — the DERIVATION TREE of the canonical spelling of an expression in the grammar
  compiled into xsel's parser (grammar/xpath_grammar.txt; the production table is regenerated as
  `Generated.productions`).

  `derivTop e` is the tree whose yield is `Render.renderTop e`: unabbreviated steps, parentheses
  exactly where `Render.wrap` writes them, one chain of unit productions from `OrExpr` down to the
  production that derives the expression.  It is the tree a parser of that grammar builds for the
  canonical string (the grammar's one ambiguity — a function call at the head of a path is both a
  `Step` and a `PrimaryExpr` — is resolved the way `Render`/`Parse` read it: as the filter
  expression `f()/…`).

  Proofs/Lemmas/WalkDeriv*.lean: `walk` over `derivTop e` computes `eval Model.sem (normCtx e)`;
  every node of `derivTop e` is an instance of a production of the regenerated table; its yield is
  `renderTop e`.
-/
import Xsel.Walk

namespace Xsel.Walk
open Xsel Xsel.Syntax

/-- a nonterminal node from a list of children -/
def N (name : String) (kids : List PT) : PT := .nt name (PTs.ofList kids)

def tkp (x : Punct) : PT := .tk (.p x)

/-- the nonterminals of the expression levels 0 … 9 (level 9: filter and primary expressions) -/
def levelName : Nat → String
  | 0 => "OrExpr" | 1 => "AndExpr" | 2 => "EqualityExpr" | 3 => "RelationalExpr"
  | 4 => "AdditiveExpr" | 5 => "MultiplicativeExpr" | 6 => "UnaryExpr" | 7 => "UnionExpr"
  | 8 => "PathExpr" | _ => "FilterExpr"

/-- `climb n lo t`: wrap `t` in the `n` unit productions of the levels `lo`, `lo+1`, … -/
def climb : Nat → Nat → PT → PT
  | 0, _, t => t
  | n + 1, lo, t => N (levelName lo) [climb n (lo + 1) t]

/-- a tree rooted at the nonterminal of level `hi`, wrapped in the unit productions up to level `lo` -/
def lift (lo hi : Nat) (t : PT) : PT := climb (hi - lo) lo t

/-- the node of a binary operator at its level -/
def opNode : BinOp → String
  | .or => "OrExprOr" | .and => "AndExprAnd"
  | .cmp .eq => "EqualityExprEqual" | .cmp .ne => "EqualityExprNotEqual"
  | .cmp .lt => "RelationalExprLessThan" | .cmp .le => "RelationalExprLessThanOrEqual"
  | .cmp .gt => "RelationalExprGreaterThan" | .cmp .ge => "RelationalExprGreaterThanOrEqual"
  | .add => "AdditiveExprAdd" | .sub => "AdditiveExprSubtract"
  | .mul => "MultiplicativeExprMultiply" | .div => "MultiplicativeExprDivide" | .mod => "MultiplicativeExprMod"
  | .union => "UnionExprUnion"

def litNode (s : Chars) : PT := N "Literal" [.tk (litTok s)]

/-- `Render.numToks` as a `Number` node -/
def numNode (n : Num) : PT :=
  let s := numToStr n
  match s.dropWhile isDigit with
  | [] => N "Number" [.tk (.digits s)]
  | _ :: fr => N "Number" [.tk (.digits (s.takeWhile isDigit)), tkp .dot, .tk (.digits fr)]

def qnameNode (pfx : Option Chars) (name : Chars) : PT :=
  match pfx with
  | none => N "QName" [N "QNameLocalOnly" [.tk (.ncname name)]]
  | some p => N "QName" [N "QNameNamespaceWithLocal" [.tk (.ncname p), tkp .colon, .tk (.ncname name)]]

def nodeTypeNode (k : Kw) : PT :=
  N "NodeTest" [N "NodeTestNodeTypeNoArgTest" [N "NodeType" [.tk (.kw k)], tkp .lparen, tkp .rparen]]

/-- `Render.testToks` as a `NodeTest` node -/
def testNode : NodeTest → PT
  | .node => nodeTypeNode .node
  | .text => nodeTypeNode .text
  | .comment => nodeTypeNode .comment
  | .pi => nodeTypeNode .pi
  | .piTarget s => N "NodeTest" [N "NodeTestProcInstTargetTest" [.tk (.kw .pi), tkp .lparen, litNode s, tkp .rparen]]
  | .any => N "NodeTest" [N "NameTestAnyElement" [tkp .star]]
  | .nsAny p => N "NodeTest" [N "NameTestNamespaceAnyLocal" [.tk (.ncname p), tkp .colon, tkp .star]]
  | .localAny l => N "NodeTest" [N "NameTestLocalAnyNamespace" [tkp .star, tkp .colon, .tk (.ncname l)]]
  | .qname p l => N "NodeTest" [N "NameTestQNameNamespaceWithLocal" [.tk (.ncname p), tkp .colon, .tk (.ncname l)]]
  | .name l => N "NodeTest" [N "NameTestQNameLocalOnly" [.tk (.ncname l)]]

def axisNode (ax : Axis) : PT :=
  N "AxisSpecifier" [N "AxisSpecifierWithAxisName" [N "AxisName" [.tk (.kw (.axis ax))], tkp .coloncolon]]

/-- where a path starts: at the context node, at the root, or at the value of a filter expression
    (given as its `FilterExpr` tree) -/
inductive Head where
  | rel
  | abs
  | filt (f : PT)

/-- the `PathExpr` node of a path with head `h` whose steps are the `RelativeLocationPath` tree `r` -/
def pathNode (h : Head) (r : PT) : PT :=
  match h with
  | .rel => N "PathExpr" [N "LocationPath" [r]]
  | .abs => N "PathExpr" [N "LocationPath" [N "AbsoluteLocationPath" [N "AbsoluteLocationPathWithRelative" [tkp .slash, r]]]]
  | .filt f => N "PathExpr" [N "PathExprFilterWithPath" [f, tkp .slash, r]]

/-- is `e` spelled as a path that continues the path of its base (`a/b`, `a/f()`)? -/
def isPathLike : Expr → Bool
  | .step _ _ _ _ => true
  | .call .ctx _ _ _ => false
  | .call _ _ _ _ => true
  | _ => false

/-- a `FilterExpr` tree around a parenthesised `OrExpr` tree -/
def parenFilter (t : PT) : PT :=
  N "FilterExpr" [N "PrimaryExpr" [N "PrimaryExprParenthetic" [tkp .lparen, t, tkp .rparen]]]

def rootPath : PT :=
  N "PathExpr" [N "LocationPath" [N "AbsoluteLocationPath" [N "AbsoluteLocationPathOnly" [tkp .slash]]]]

def selfStepPath : PT :=
  N "PathExpr" [N "LocationPath" [N "RelativeLocationPath" [N "Step" [N "AbbreviatedStep" [N "AbbreviatedStepSelf" [tkp .dot]]]]]]

/-- `Render.wrap lv min`: the tree `t` of an expression of level `lv` (rooted at `levelName lv`) where
    level `min` is expected (result rooted at `levelName min`): in parentheses when `lv < min` -/
def wrapAt (min lv : Nat) (t : PT) : PT :=
  if lv < min then lift min 9 (parenFilter (lift 0 lv t)) else lift min lv t

/-- how a path continues from its base `b` with the `Step` tree `s`: `relB` is the path of `b` when `b`
    is itself path-like, `natB` the tree of `b` at its own level otherwise -/
def relWith (b : Expr) (relB : Head × PT) (natB : PT) (s : PT) : Head × PT :=
  match b with
  | .ctx => (.rel, N "RelativeLocationPath" [s])
  | .root => (.abs, N "RelativeLocationPath" [s])
  | b =>
    if isPathLike b then
      (relB.1, N "RelativeLocationPath" [N "RelativeLocationPathWithStep" [relB.2, tkp .slash, s]])
    else (.filt (wrapAt 9 (level b) natB), N "RelativeLocationPath" [s])

/-- a `Predicate` node around the `OrExpr` tree of the predicate expression -/
def predNode (t : PT) : PT := N "Predicate" [tkp .lbrack, t, tkp .rbrack]

mutual

/-- the tree of `e` rooted at the nonterminal of its own level (`levelName (level e)`) -/
def dNat : Expr → PT
  | .bin op l r =>
    N (levelName (opLevel op)) [N (opNode op)
      [wrapAt (opLevel op) (level l) (dNat l), .tk (opTok op), wrapAt (opLevel op + 1) (level r) (dNat r)]]
  | .neg e => N "UnaryExpr" [N "UnaryExprNegate" [tkp .minus, wrapAt 6 (level e) (dNat e)]]
  | .num n => N "FilterExpr" [N "PrimaryExpr" [numNode n]]
  | .lit s => N "FilterExpr" [N "PrimaryExpr" [litNode s]]
  | .var p n => N "FilterExpr" [N "PrimaryExpr" [N "VariableReference" [.tk (varTok p n)]]]
  | .root => N "PathExpr" [parenFilter (lift 0 8 rootPath)]
  | .ctx => selfStepPath
  | .filt b p =>
    N "FilterExpr" [N "FilterExprWithPredicate" [wrapAt 9 (level b) (dNat b), predNode (wrapAt 0 (level p) (dNat p))]]
  | .call b p n args =>
    match b with
    | .ctx => N "FilterExpr" [N "PrimaryExpr" [dCall p n args]]
    | b =>
      let hr := relWith b (dRel b) (dNat b) (N "Step" [dCall p n args])
      pathNode hr.1 hr.2
  | .step b ax t ps =>
    let hr := relWith b (dRel b) (dNat b) (dStep ax t ps)
    pathNode hr.1 hr.2

/-- the head and the `RelativeLocationPath` tree of a path-like expression -/
def dRel : Expr → Head × PT
  | .step b ax t ps => relWith b (dRel b) (dNat b) (dStep ax t ps)
  | .call b p n args => relWith b (dRel b) (dNat b) (N "Step" [dCall p n args])
  | _ => (.rel, N "RelativeLocationPath" [])

/-- `axis::test[p1]…[pn]` as a `Step` node -/
def dStep (ax : Axis) (t : NodeTest) : Exprs → PT
  | .nil => N "Step" [N "StepWithAxisAndNodeTest" [axisNode ax, testNode t]]
  | .cons p ps =>
    N "Step" [N "StepWithAxisAndNodeTestAndPredicate" [N "StepWithAxisAndNodeTest" [axisNode ax, testNode t], dPreds (predNode (wrapAt 0 (level p) (dNat p))) ps]]

/-- one or more predicates as a `StepWithPredicate` node (`first`: the `Predicate` tree of the first) -/
def dPreds (first : PT) : Exprs → PT
  | .nil => N "StepWithPredicate" [first]
  | .cons q qs => N "StepWithPredicate" [N "StepWithPredicateWithAnotherPredicate" [first, dPreds (predNode (wrapAt 0 (level q) (dNat q))) qs]]

/-- `name(args)` as a `FunctionCall` node -/
def dCall (pfx : Option Chars) (name : Chars) : Exprs → PT
  | .nil => N "FunctionCall" [qnameNode pfx name, tkp .lparen, N "FunctionSignature" [N "FunctionSignatureNoArgs" [tkp .rparen]]]
  | .cons a as =>
    N "FunctionCall" [qnameNode pfx name, tkp .lparen, N "FunctionSignature" [dArgs (wrapAt 0 (level a) (dNat a)) as]]

/-- one or more arguments and the closing parenthesis as a `FunctionCallArgumentList` node (`first`:
    the `OrExpr` tree of the first argument) -/
def dArgs (first : PT) : Exprs → PT
  | .nil => N "FunctionCallArgumentList" [N "FunctionCallArgumentListEndArg" [first, tkp .rparen]]
  | .cons b bs =>
    N "FunctionCallArgumentList" [N "FunctionCallArgumentListArgWithNext" [first, tkp .comma, dArgs (wrapAt 0 (level b) (dNat b)) bs]]

end

/-- the derivation tree of the whole expression (`Render.renderTop`): the root path alone is `/` -/
def derivTop : Expr → PT
  | .root => lift 0 8 rootPath
  | e => wrapAt 0 (level e) (dNat e)

mutual
/-- the tokens at the leaves, left to right -/
def PT.yield : PT → List Tok
  | .nt _ ks => ks.yield
  | .tk t => [t]
def PTs.yield : PTs → List Tok
  | .nil => []
  | .cons t ts => t.yield ++ ts.yield
end

/-- the right-hand side of the production a node is an instance of: (true, nonterminal) / (false, terminal) -/
def PTs.rhs : PTs → List (Bool × String)
  | .nil => []
  | .cons (.nt n _) ts => (true, n) :: ts.rhs
  | .cons (.tk t) ts => (false, t.term) :: ts.rhs

mutual
/-- every node is an instance of a production of the table -/
def PT.valid (prods : List (String × List (Bool × String))) : PT → Bool
  | .nt n ks => prods.contains (n, ks.rhs) && ks.valid prods
  | .tk _ => true
def PTs.valid (prods : List (String × List (Bool × String))) : PTs → Bool
  | .nil => true
  | .cons t ts => t.valid prods && ts.valid prods
end

end Xsel.Walk
