/-
  Xsel/Expr.lean — abstract syntax of XPath 1.0 expressions (plus the library's documented
  extensions: a function call as a location step, `*:name`).

  Abbreviations are not part of the abstract syntax: `.` is `self::node()`, `..` is
  `parent::node()`, `@x` is `attribute::x`, `//` is `/descendant-or-self::node()/`.
  A location path is a left-nested chain of `step`s whose innermost base is `ctx`
  (relative path), `root` (absolute path) or any other expression (path after a filter
  expression).
-/
import Xsel.Cmp

namespace Xsel

inductive NodeTest where
  | node | text | comment | pi
  | piTarget (t : Chars)
  | any                           -- *
  | nsAny (pfx : Chars)           -- p:*
  | localAny (loc : Chars)        -- *:x   (extension)
  | qname (pfx loc : Chars)       -- p:x
  | name (loc : Chars)            -- x
deriving Repr, DecidableEq, Inhabited

inductive BinOp where
  | or | and
  | cmp (op : CmpOp)
  | add | sub | mul | div | mod
  | union
deriving Repr, DecidableEq, Inhabited

mutual
inductive Expr where
  | bin (op : BinOp) (l r : Expr)
  | neg (e : Expr)
  | num (n : Num)
  | lit (s : Chars)
  | var (pfx : Option Chars) (name : Chars)
  /-- `f(args)` evaluated with the value of `base` as context (`base = ctx` for an ordinary call,
      anything else for the function-in-path extension `base/f(args)`) -/
  | call (base : Expr) (pfx : Option Chars) (name : Chars) (args : Exprs)
  | root
  | ctx
  | step (base : Expr) (ax : Axis) (t : NodeTest) (preds : Exprs)
  | filt (base : Expr) (pred : Expr)
inductive Exprs where
  | nil
  | cons (e : Expr) (es : Exprs)
end

namespace Exprs
def toList : Exprs → List Expr
  | .nil => []
  | .cons e es => e :: es.toList
def ofList : List Expr → Exprs
  | [] => .nil
  | e :: es => .cons e (ofList es)
def isNil : Exprs → Bool
  | .nil => true
  | _ => false
end Exprs

end Xsel
