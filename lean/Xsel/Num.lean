/-
  Xsel/Num.lean — IEEE-754 binary64 values modelled without `Float`.

  Lean's `Float` is opaque to the kernel, so numbers are modelled concretely:
  a double is NaN, ±infinity, negative zero, or a finite rational (`fin 0` is +0).
  Arithmetic is "special-value table, else round the exact rational result to the
  nearest double, ties to even" (`rnd`).  The driver transports doubles as 16 hex
  digits and converts them exactly (`ofBits` / `toBits`).
-/
namespace Xsel

inductive Num where
  | nan
  | pinf
  | ninf
  | nzero
  | fin (q : Rat)
deriving Repr, DecidableEq, Inhabited

namespace Num

def zero : Num := .fin 0
def one : Num := .fin 1
def ofNat (n : Nat) : Num := .fin (n : Rat)
def ofInt (n : Int) : Num := .fin (n : Rat)

def isNaN : Num → Bool
  | .nan => true
  | _ => false

def isInf : Num → Bool
  | .pinf | .ninf => true
  | _ => false

/-- is this a zero of either sign -/
def isZero : Num → Bool
  | .nzero => true
  | .fin q => q == 0
  | _ => false

/-- finite value as a rational (both zeros are 0) -/
def toRat? : Num → Option Rat
  | .fin q => some q
  | .nzero => some 0
  | _ => none

/-- sign bit: true for negative values, -0 and -inf (NaN: false) -/
def signBit : Num → Bool
  | .ninf | .nzero => true
  | .fin q => q < 0
  | _ => false

def pow2 (e : Int) : Rat := (2 : Rat) ^ e

/-- round a non-negative rational to the nearest natural number, ties to even -/
def roundHalfEvenNat (x : Rat) : Nat :=
  let fl : Int := x.floor
  let d : Rat := x - (fl : Rat)
  let r : Int :=
    if d < (1 : Rat) / 2 then fl
    else if (1 : Rat) / 2 < d then fl + 1
    else if fl % 2 == 0 then fl else fl + 1
  r.toNat

/-- the binary exponent `e` such that `2^52 ≤ a / 2^e < 2^53`, clamped below at -1074
    (the exponent of the unit in the last place of the double nearest to `a > 0`). -/
def ulpExp (a : Rat) : Int :=
  let n : Nat := a.num.toNat
  let d : Nat := a.den
  let e0 : Int := (Nat.log2 n : Int) - (Nat.log2 d : Int) - 52
  -- e0 is within 1 of the right exponent; fix it up
  let e1 : Int := if a / pow2 e0 < pow2 52 then e0 - 1 else e0
  let e2 : Int := if pow2 53 ≤ a / pow2 e1 then e1 + 1 else e1
  if e2 < -1074 then -1074 else e2

/-- Round an exact rational to the nearest binary64 value (ties to even);
    overflow gives ±infinity, underflow to zero keeps the sign. -/
def rnd (q : Rat) : Num :=
  if q == 0 then .fin 0
  else
    let neg : Bool := q < 0
    let a : Rat := if neg then -q else q
    let e : Int := ulpExp a
    let m : Nat := roundHalfEvenNat (a / pow2 e)
    if m == 0 then (if neg then .nzero else .fin 0)
    else if e > 971 || (e == 971 && m ≥ 2 ^ 53) then (if neg then .ninf else .pinf)
    else
      let v : Rat := (m : Rat) * pow2 e
      .fin (if neg then -v else v)

/-- binary32 counterpart of `ulpExp`: `2^23 ≤ a / 2^e < 2^24`, clamped below at -149 -/
def ulpExp32 (a : Rat) : Int :=
  let n : Nat := a.num.toNat
  let d : Nat := a.den
  let e0 : Int := (Nat.log2 n : Int) - (Nat.log2 d : Int) - 23
  let e1 : Int := if a / pow2 e0 < pow2 23 then e0 - 1 else e0
  let e2 : Int := if pow2 24 ≤ a / pow2 e1 then e1 + 1 else e1
  if e2 < -149 then -149 else e2

/-- Go's `float32(x)` followed by the exact widening back to float64: round to the nearest binary32
    value (ties to even), overflow to ±infinity -/
def rnd32 (q : Rat) : Num :=
  if q == 0 then .fin 0
  else
    let neg : Bool := q < 0
    let a : Rat := if neg then -q else q
    let e : Int := ulpExp32 a
    let m : Nat := roundHalfEvenNat (a / pow2 e)
    if m == 0 then (if neg then .nzero else .fin 0)
    else if e > 104 || (e == 104 && m ≥ 2 ^ 24) then (if neg then .ninf else .pinf)
    else
      let v : Rat := (m : Rat) * pow2 e
      .fin (if neg then -v else v)

/-- conversion of a double to float32 precision -/
def toFloat32 : Num → Num
  | .fin q => rnd32 q
  | x => x

/-! ### bit-level transport -/

def ofBits (b : UInt64) : Num :=
  let n : Nat := b.toNat
  let sign : Bool := n / 2 ^ 63 == 1
  let ex : Nat := (n / 2 ^ 52) % 2048
  let frac : Nat := n % 2 ^ 52
  if ex == 2047 then
    if frac != 0 then .nan else if sign then .ninf else .pinf
  else if ex == 0 && frac == 0 then
    if sign then .nzero else .fin 0
  else
    let m : Nat := if ex == 0 then frac else frac + 2 ^ 52
    let e : Int := if ex == 0 then -1074 else (ex : Int) - 1075
    let v : Rat := (m : Rat) * pow2 e
    .fin (if sign then -v else v)

/-- bits of a value that is exactly a double (values that are not are rounded first) -/
def toBits (x : Num) : UInt64 :=
  match x with
  | .nan => 0x7FF8000000000001
  | .pinf => 0x7FF0000000000000
  | .ninf => 0xFFF0000000000000
  | .nzero => 0x8000000000000000
  | .fin q =>
    match rnd q with
    | .fin q' =>
      if q' == 0 then 0
      else
        let neg : Bool := q' < 0
        let a : Rat := if neg then -q' else q'
        let e : Int := ulpExp a
        let m : Nat := roundHalfEvenNat (a / pow2 e)
        -- m < 2^53 here; subnormal iff m < 2^52 (then e = -1074)
        let bits : Nat :=
          if m < 2 ^ 52 then m
          else ((e + 1075).toNat) * 2 ^ 52 + (m - 2 ^ 52)
        UInt64.ofNat (bits + (if neg then 2 ^ 63 else 0))
    | .pinf => 0x7FF0000000000000
    | .ninf => 0xFFF0000000000000
    | .nzero => 0x8000000000000000
    | .nan => 0x7FF8000000000001

/-! ### IEEE operations -/

def neg : Num → Num
  | .nan => .nan
  | .pinf => .ninf
  | .ninf => .pinf
  | .nzero => .fin 0
  | .fin q => if q == 0 then .nzero else .fin (-q)

def add : Num → Num → Num
  | .nan, _ => .nan
  | _, .nan => .nan
  | .pinf, .ninf => .nan
  | .ninf, .pinf => .nan
  | .pinf, _ => .pinf
  | _, .pinf => .pinf
  | .ninf, _ => .ninf
  | _, .ninf => .ninf
  | .nzero, .nzero => .nzero
  | .nzero, .fin q => .fin q
  | .fin q, .nzero => .fin q
  | .fin a, .fin b => rnd (a + b)

def sub (x y : Num) : Num := add x (neg y)

def mul (x y : Num) : Num :=
  if x.isNaN || y.isNaN then .nan
  else
    let s : Bool := x.signBit != y.signBit
    if x.isInf || y.isInf then
      if x.isZero || y.isZero then .nan
      else if s then .ninf else .pinf
    else
      match x.toRat?, y.toRat? with
      | some a, some b =>
        if a == 0 || b == 0 then (if s then .nzero else .fin 0)
        else rnd (a * b)
      | _, _ => .nan

def div (x y : Num) : Num :=
  if x.isNaN || y.isNaN then .nan
  else
    let s : Bool := x.signBit != y.signBit
    if x.isInf then
      if y.isInf then .nan else if s then .ninf else .pinf
    else if y.isInf then
      if s then .nzero else .fin 0
    else
      match x.toRat?, y.toRat? with
      | some a, some b =>
        if b == 0 then
          if a == 0 then .nan else if s then .ninf else .pinf
        else if a == 0 then (if s then .nzero else .fin 0)
        else rnd (a / b)
      | _, _ => .nan

/-- truncate a rational toward zero -/
def truncRat (q : Rat) : Int := if q < 0 then -((-q).floor) else q.floor

/-- C `fmod` / Go `math.Mod` / XPath `mod`: remainder of truncating division,
    sign of the dividend; exact (never rounds). -/
def fmod (x y : Num) : Num :=
  if x.isNaN || y.isNaN then .nan
  else if x.isInf then .nan
  else if y.isZero then .nan
  else if y.isInf then x
  else
    match x.toRat?, y.toRat? with
    | some a, some b =>
      if a == 0 then x
      else
        let r : Rat := a - b * (truncRat (a / b) : Rat)
        if r == 0 then (if x.signBit then .nzero else .fin 0) else .fin r
    | _, _ => .nan

def floor : Num → Num
  | .fin q => .fin ((q.floor : Int) : Rat)
  | x => x

def ceil : Num → Num
  | .fin q =>
    let c : Int := q.ceil
    if c == 0 && q < 0 then .nzero else .fin (c : Rat)
  | x => x

/-! ### comparisons (IEEE: every comparison with NaN is false, -0 = +0) -/

/-- position on the extended real line; `none` for NaN -/
def ext : Num → Option (Int × Rat)
  | .nan => none
  | .ninf => some (-1, 0)
  | .pinf => some (1, 0)
  | .nzero => some (0, 0)
  | .fin q => some (0, q)

def lt (x y : Num) : Bool :=
  match x.ext, y.ext with
  | some (a, p), some (b, q) => a < b || (a == b && p < q)
  | _, _ => false

def le (x y : Num) : Bool :=
  match x.ext, y.ext with
  | some (a, p), some (b, q) => a < b || (a == b && p ≤ q)
  | _, _ => false

def eq (x y : Num) : Bool :=
  match x.ext, y.ext with
  | some (a, p), some (b, q) => a == b && p == q
  | _, _ => false

def gt (x y : Num) : Bool := lt y x
def ge (x y : Num) : Bool := le y x
def ne (x y : Num) : Bool := !(eq x y)

/-- canonical form for comparing outputs: all NaNs identified -/
def bitsHex (x : Num) : String :=
  let n := (toBits x).toNat
  let digs := (Nat.toDigits 16 n)
  String.ofList (List.replicate (16 - digs.length) '0' ++ digs)

end Num
end Xsel
