/-
  Xsel/Eval.lean — evaluation of expressions.

  One evaluator, parametrised by a record `Sem` of the components in which the MODEL of the Go
  code and the SPECIFICATION (XPath 1.0 Recommendation) are written differently:

                     Model (mirrors exec/*.go)                      Spec (Recommendation)
    axes             walkers over Parent()/Children(), applied to   relations on parent links and
                     the whole context set, then sort + unique       document order, one context node
    steps            set-at-a-time; per context node only when the   always: for each context node, axis
                     step has predicates and > 1 context nodes       order, node test, predicates; union
    string-value     recursive walk over element children           all text descendants in doc order
    comparisons      the cascades of contextfn_comparisons.go        §3.4 as one function
    round            getRound (negative ties away from zero;         ⌊x + ½⌋, -0 on [-0.5, 0)
                     -0 on (-0.5, 0))

  Everything else (conversions, arithmetic, string functions, name resolution, predicates'
  truth rule, union, function calls) is a single definition shared by both.

  A namespace prefix in a node test is expanded with the namespace declarations of the expression
  context (§2.3), so a prefix that is not bound is an error of the expression, whatever the context
  node-set: the per-node evaluation of a step resolves the node test once before it looks at the
  context nodes (the set-at-a-time evaluation does so by construction), and both evaluators fail
  with `unboundPrefix` also when there is no context node.
-/
import Xsel.Expr

namespace Xsel

inductive Err where
  | notNodeSet | unboundPrefix | unboundVar | unknownFn | arity | userFail | badArg
deriving Repr, DecidableEq, Inhabited

/-- the user-supplied functions the harness registers (their Go bodies are in harness/userfn.go) -/
inductive UserFn where
  | constStr (s : Chars)   -- returns the string
  | argStr                 -- string(args[0]) ("" when there is none)
  | ctxPos                 -- the context position (1-based)
  | ctxStr                 -- string-value of the context
  | argCount               -- number of arguments
  | echo                   -- args[0] unchanged (error when there is none)
  | fail                   -- always an error
deriving Repr, DecidableEq, Inhabited

abbrev QName := Chars × Chars   -- (namespace URI, local name)

structure Env where
  ns : List (Chars × Chars) := []        -- prefix ↦ URI
  vars : List (QName × Val) := []
  fns : List (QName × UserFn) := []
deriving Repr, Inhabited

structure Sem where
  /-- the nodes of an axis from a context set, in the order predicates count them -/
  axis : Arena → Axis → List Nat → List Nat
  /-- true: every step is evaluated per context node (specification);
      false: only steps with predicates and more than one context node (Go code) -/
  perNode : Bool
  sv : Arena → Nat → Chars
  compare : (Nat → Chars) → CmpOp → Val → Val → Bool
  round : Num → Num

structure Ctx where
  a : Arena
  env : Env
  result : Val
  /-- zero-based context position (`contextPosition`) -/
  pos : Nat := 0
  size : Nat := 1
deriving Inhabited

def lookup {β} (k : Chars) : List (Chars × β) → Option β
  | [] => none
  | (k', v) :: t => if k' == k then some v else lookup k t

def lookupQ {β} (k : QName) : List (QName × β) → Option β
  | [] => none
  | (k', v) :: t => if k' == k then some v else lookupQ k t

/-- `GetQName` for variable and function names -/
def resolve (env : Env) (pfx : Option Chars) (name : Chars) : Except Err QName :=
  match pfx with
  | none => .ok ([], name)
  | some p => match lookup p env.ns with
    | some u => .ok (u, name)
    | none => .error .unboundPrefix

namespace NodeTest
open Arena

def principal : Axis → Kind
  | .attribute => .attr
  | .namespace => .ns
  | _ => .elem

def named (a : Arena) (j : Nat) : Bool := a.kind j == .elem || a.kind j == .attr

/-- the node tests of exec/contextfn_paths.go, applied to the node list an axis produced.
    Name tests select only nodes of the axis' principal node type (§2.3). -/
def apply (a : Arena) (env : Env) (ax : Axis) (t : NodeTest) (l : List Nat) : Except Err (List Nat) :=
  let pk := principal ax
  let isP (j : Nat) : Bool := a.kind j == pk
  match t with
  | .node => .ok l
  | .text => .ok (l.filter (fun j => a.kind j == .text))
  | .comment => .ok (l.filter (fun j => a.kind j == .comment))
  | .pi => .ok (l.filter (fun j => a.kind j == .pi))
  | .piTarget s => .ok (l.filter (fun j => a.kind j == .pi && (a.cell j).loc == s))
  | .any => .ok (l.filter isP)
  | .nsAny p =>
    match lookup p env.ns with
    | none => .error .unboundPrefix
    | some u => .ok (l.filter (fun j => named a j && isP j && (a.cell j).uri == u))
  | .localAny n => .ok (l.filter (fun j => named a j && isP j && (a.cell j).loc == n))
  | .qname p n =>
    match lookup p env.ns with
    | none => .error .unboundPrefix
    | some u => .ok (l.filter (fun j => named a j && isP j && (a.cell j).loc == n && (a.cell j).uri == u))
  | .name n =>
    -- on the namespace axis the library matches the namespace node whose URI is bound to `n`
    let nsv : Chars := (lookup n env.ns).getD []
    .ok (l.filter (fun j =>
      (named a j && isP j && (a.cell j).uri == [] && (a.cell j).loc == n)
      || (a.kind j == .ns && pk == .ns && (a.cell j).val == nsv)))

end NodeTest

/-- does a predicate value select the node at 1-based position `p`? (`execPredicate`) -/
def predTruth (p : Nat) : Val → Bool
  | .num n => Num.eq (Num.ofNat p) n
  | .bool b => b
  | v => Model.toBool v

def Val.nodes? : Val → Except Err (List Nat)
  | .nodes l => .ok l
  | _ => .error .notNodeSet

open Arena in
/-- the nearest `xml:lang` on the ancestor-or-self elements of `i` (root excluded) -/
def findLang (a : Arena) : Nat → Nat → Option Chars
  | 0, _ => none
  | f + 1, i =>
    if i == 0 then none
    else
      match (a.attrs i).find? (fun j => (a.cell j).uri == "http://www.w3.org/XML/1998/namespace".toList
                                          && (a.cell j).loc == "lang".toList) with
      | some j => some (a.cell j).val
      | none => findLang a f (a.parent i)

def xmlNameStr (uri loc : Chars) : Chars :=
  if uri.isEmpty then loc else '{' :: (uri ++ ('}' :: loc))

inductive NameKind where | loc | uri | full

open Arena in
/-- `getName` -/
def nameOf (a : Arena) (k : NameKind) (l : List Nat) : Chars :=
  match Model.firstDoc l with
  | none => []
  | some i =>
    let c := a.cell i
    match c.kind with
    | .elem | .attr =>
      (match k with
       | .loc => c.loc
       | .uri => c.uri
       | .full => xmlNameStr c.uri c.loc)
    | .pi | .ns => (match k with | .uri => [] | _ => c.loc)
    | _ => []

/-- the builtin function library (exec/function.go), `none` when the name is not a builtin -/
def builtin (sem : Sem) (c : Ctx) (name : Chars) (args : List Val) : Option (Except Err Val) :=
  let sv := sem.sv c.a
  let str (v : Val) := Model.toStr sv v
  let numv (v : Val) := Model.toNum sv v
  let ctxOr (k : Val → Except Err Val) : Except Err Val :=
    match args with
    | [] => k c.result
    | [v] => k v
    | _ => .error .arity
  let one (k : Val → Except Err Val) : Except Err Val :=
    match args with
    | [v] => k v
    | _ => .error .arity
  let two (k : Val → Val → Except Err Val) : Except Err Val :=
    match args with
    | [v, w] => k v w
    | _ => .error .arity
  let nm (kind : NameKind) : Except Err Val :=
    ctxOr (fun v => match v with
      | .nodes l => .ok (.str (nameOf c.a kind l))
      | _ => .error .notNodeSet)
  match String.ofList name with
  | "last" => some (.ok (.num (Num.ofNat c.size)))
  | "position" => some (.ok (.num (Num.ofNat (c.pos + 1))))
  | "count" => some (one (fun v => match v with
      | .nodes l => .ok (.num (Num.ofNat l.length))
      | _ => .error .notNodeSet))
  | "local-name" => some (nm .loc)
  | "namespace-uri" => some (nm .uri)
  | "name" => some (nm .full)
  | "string" => some (ctxOr (fun v => .ok (.str (str v))))
  | "concat" => some (.ok (.str (args.flatMap str)))
  | "starts-with" => some (two (fun v w => .ok (.bool (Str.startsWith (str v) (str w)))))
  | "contains" => some (two (fun v w => .ok (.bool (Str.contains (str v) (str w)))))
  | "substring-before" => some (two (fun v w => .ok (.str (Str.substringBefore (str v) (str w)))))
  | "substring-after" => some (two (fun v w => .ok (.str (Str.substringAfter (str v) (str w)))))
  | "substring" => some (match args with
      | [s, p] => .ok (.str (Str.substringR (str s) (sem.round (numv p)) none))
      | [s, p, l] => .ok (.str (Str.substringR (str s) (sem.round (numv p)) (some (sem.round (numv l)))))
      | _ => .error .arity)
  | "string-length" => some (ctxOr (fun v => .ok (.num (Num.ofNat (str v).length))))
  | "normalize-space" => some (ctxOr (fun v => .ok (.str (Str.normalizeSpace (str v)))))
  | "translate" => some (match args with
      | [s, f, t] => .ok (.str (Str.translate (str s) (str f) (str t)))
      | _ => .error .arity)
  | "not" => some (one (fun v => .ok (.bool (!Model.toBool v))))
  | "boolean" => some (one (fun v => .ok (.bool (Model.toBool v))))
  | "true" => some (match args with | [] => .ok (.bool true) | _ => .error .arity)
  | "false" => some (match args with | [] => .ok (.bool false) | _ => .error .arity)
  | "lang" => some (one (fun v =>
      match c.result with
      | .nodes l =>
        -- the first context node that has an xml:lang in scope decides
        let found := l.findSome? (fun i =>
          let start := if c.a.kind i == .elem || c.a.kind i == .attr then i else c.a.parent i
          findLang c.a c.a.size start)
        (match found with
         | some lg => .ok (.bool (Str.langMatch (str v) lg))
         | none => .ok (.bool false))
      | _ => .error .notNodeSet))
  | "number" => some (ctxOr (fun v => .ok (.num (numv v))))
  | "sum" => some (one (fun v => match v with
      | .nodes l => .ok (.num (Model.sumNums (l.map (fun i => strToNum (sv i)))))
      | _ => .error .notNodeSet))
  | "floor" => some (one (fun v => .ok (.num (Num.floor (numv v)))))
  | "ceiling" => some (one (fun v => .ok (.num (Num.ceil (numv v)))))
  | "round" => some (one (fun v => .ok (.num (sem.round (numv v)))))
  | _ => none

def userFn (sem : Sem) (c : Ctx) (f : UserFn) (args : List Val) : Except Err Val :=
  let sv := sem.sv c.a
  match f with
  | .constStr s => .ok (.str s)
  | .argStr => .ok (.str (match args with | v :: _ => Model.toStr sv v | [] => []))
  | .ctxPos => .ok (.num (Num.ofNat (c.pos + 1)))
  | .ctxStr => .ok (.str (Model.toStr sv c.result))
  | .argCount => .ok (.num (Num.ofNat args.length))
  | .echo => match args with | v :: _ => .ok v | [] => .error .userFail
  | .fail => .error .userFail

def arith (op : BinOp) (x y : Num) : Num :=
  match op with
  | .add => Num.add x y
  | .sub => Num.sub x y
  | .mul => Num.mul x y
  | .div => Num.div x y
  | .mod => Num.fmod x y
  | _ => .nan

/-- keep the nodes of `l` for which `test i node` holds, threading errors; `i` is the 0-based index -/
def filterIdx (test : Nat → Nat → Except Err Bool) : List Nat → Nat → Except Err (List Nat)
  | [], _ => .ok []
  | n :: t, i => do
    let keep ← test i n
    let rest ← filterIdx test t (i + 1)
    pure (if keep then n :: rest else rest)

/-- concatenate the results of `f` over the nodes, threading errors -/
def concatMapE (f : Nat → Except Err (List Nat)) : List Nat → Except Err (List Nat)
  | [] => .ok []
  | n :: t => do
    let r ← f n
    let rest ← concatMapE f t
    pure (r ++ rest)

mutual

def eval (sem : Sem) : Expr → Ctx → Except Err Val
  | .num n, _ => .ok (.num n)
  | .lit s, _ => .ok (.str s)
  | .root, _ => .ok (.nodes [0])
  | .ctx, c => .ok c.result
  | .neg e, c => do
    let v ← eval sem e c
    pure (.num (Num.neg (Model.toNum (sem.sv c.a) v)))
  | .var pfx name, c => do
    let q ← resolve c.env pfx name
    match lookupQ q c.env.vars with
    | some v => pure v
    | none => throw .unboundVar
  | .bin op l r, c => do
    let x ← eval sem l c
    let y ← eval sem r c
    let sv := sem.sv c.a
    match op with
    | .or => pure (.bool (Model.toBool x || Model.toBool y))
    | .and => pure (.bool (Model.toBool x && Model.toBool y))
    | .cmp o => pure (.bool (sem.compare sv o x y))
    | .union =>
      match x, y with
      | .nodes p, .nodes q => pure (.nodes (cleanupFwd (p ++ q)))
      | _, _ => throw .notNodeSet
    | o => pure (.num (arith o (Model.toNum sv x) (Model.toNum sv y)))
  | .call base pfx name args, c => do
    let b ← eval sem base c
    let c' := { c with result := b }
    let vs ← evalArgs sem args c'
    let q ← resolve c.env pfx name
    match lookupQ q c.env.fns with
    | some f => userFn sem c' f vs
    | none =>
      if q.1.isEmpty then
        match builtin sem c' q.2 vs with
        | some r => r
        | none => throw .unknownFn
      else throw .unknownFn
  | .filt base pred, c => do
    let b ← eval sem base c
    let l ← b.nodes?
    let r ← applyPred sem pred c (cleanupFwd l)
    pure (.nodes r)
  | .step base ax t preds, c => do
    let b ← eval sem base c
    let s ← b.nodes?
    if sem.perNode || (!preds.isNil && s.length > 1) then
      -- a prefix that is not bound is an error of the expression, whatever the context node-set
      let _ ← NodeTest.apply c.a c.env ax t []
      let r ← concatMapE (fun n => do
        let l ← NodeTest.apply c.a c.env ax t (sem.axis c.a ax [n])
        applyPreds sem preds c l) s
      pure (.nodes (cleanupFwd r))
    else
      let l ← NodeTest.apply c.a c.env ax t (sem.axis c.a ax s)
      let r ← applyPreds sem preds c l
      pure (.nodes r)

def evalArgs (sem : Sem) : Exprs → Ctx → Except Err (List Val)
  | .nil, _ => .ok []
  | .cons e es, c => do
    let v ← eval sem e c
    let vs ← evalArgs sem es c
    pure (v :: vs)

/-- `execPredicate`: each node of `l` is tested with itself as context node, its 1-based index
    in `l` as context position and `|l|` as context size -/
def applyPred (sem : Sem) (p : Expr) (c : Ctx) (l : List Nat) : Except Err (List Nat) :=
  filterIdx (fun i n => do
    let v ← eval sem p { c with result := .nodes [n], pos := i, size := l.length }
    pure (predTruth (i + 1) v)) l 0

/-- successive predicates renumber the survivors -/
def applyPreds (sem : Sem) : Exprs → Ctx → List Nat → Except Err (List Nat)
  | .nil, _, l => .ok l
  | .cons p ps, c, l => do
    let kept ← applyPred sem p c l
    applyPreds sem ps c kept

end

/-! ### the two instances -/

def Model.sem : Sem where
  axis := Model.axis
  perNode := false
  sv := Model.strval
  compare := Model.compare
  round := Model.round

def Spec.sem : Sem where
  axis := fun a ax s => s.flatMap (Spec.axisList a ax)
  perNode := true
  sv := Spec.strval
  compare := Spec.compare
  round := Spec.round

/-- the specification with the behaviour of known finding KF-round-negative-tie swapped in
    (used only to classify deviations; see known_findings.json) -/
def Spec.semKF : Sem := { Spec.sem with round := Model.round }

/-- `exec.Exec(cursor, expr, settings…)`: context node `start`, position 1, size 1 -/
def Model.run (a : Arena) (env : Env) (start : Nat) (e : Expr) : Except Err Val :=
  eval Model.sem e { a := a, env := env, result := .nodes [start], pos := 0, size := 1 }

def Spec.run (a : Arena) (env : Env) (start : Nat) (e : Expr) : Except Err Val :=
  eval Spec.sem e { a := a, env := env, result := .nodes [start], pos := 0, size := 1 }

end Xsel

namespace Xsel
def Spec.runKF (a : Arena) (env : Env) (start : Nat) (e : Expr) : Except Err Val :=
  eval Spec.semKF e { a := a, env := env, result := .nodes [start], pos := 0, size := 1 }
end Xsel
