/-
  Xsel/Effects.lean — Go slices over a heap of backing arrays, and the node-set plumbing of the
  evaluator expressed with them.  Used for properties C13 (queries never mutate their inputs) and
  C14 (shared inputs are safe under concurrent use).

  A Go slice is a view `(array, offset, length, capacity)`; `append` writes IN PLACE into the spare
  capacity of its first operand when it fits, and `sort.Sort` permutes the viewed region in place.
  The evaluator receives slices it does not own: `Children()` / `Attributes()` of the document,
  node-sets bound to variables, results of earlier queries.
-/
import Xsel.Arena

namespace Xsel
namespace Effects

abbrev Heap := Array (Array Nat)

structure Slice where
  arr : Nat
  off : Nat
  len : Nat
  cap : Nat      -- capacity counted from `off`
deriving Repr, DecidableEq, Inhabited

def Heap.arrD (h : Heap) (i : Nat) : Array Nat := h.getD i #[]

/-- the elements a slice shows -/
def read (h : Heap) (s : Slice) : List Nat :=
  ((h.arrD s.arr).toList.drop s.off).take s.len

/-- write `xs` into array `a` starting at index `i` (within bounds) -/
def writeAt (a : Array Nat) (i : Nat) : List Nat → Array Nat
  | [] => a
  | x :: xs => writeAt (a.setIfInBounds i x) (i + 1) xs

/-- `make([]T, 0, n)`: a fresh backing array -/
def goMake (h : Heap) (n : Nat) : Heap × Slice :=
  (h.push (Array.replicate n 0), { arr := h.size, off := 0, len := 0, cap := n })

/-- Go `append(s, xs...)`: in place when the capacity suffices, otherwise a fresh, larger array -/
def goAppend (h : Heap) (s : Slice) (xs : List Nat) : Heap × Slice :=
  if s.len + xs.length ≤ s.cap then
    (h.modify s.arr (fun a => writeAt a (s.off + s.len) xs), { s with len := s.len + xs.length })
  else
    let content := read h s ++ xs
    (h.push content.toArray, { arr := h.size, off := 0, len := content.length, cap := content.length })

/-- `sort.Sort(forwardSort(s))`: the viewed region is permuted in place -/
def goSortAsc (h : Heap) (s : Slice) : Heap :=
  h.modify s.arr (fun a => writeAt a s.off (sortAsc (read h s)))

/-- `unique(s)`: always a fresh array -/
def goUnique (h : Heap) (s : Slice) : Heap × Slice :=
  let content := uniqueAdj (read h s)
  (h.push content.toArray, { arr := h.size, off := 0, len := content.length, cap := content.length })

/-- `execUnionExprUnion` BEFORE the repair: `unionCleanup(append(left, right...))` -/
def unionOld (h : Heap) (l r : Slice) : Heap × Slice :=
  let (h1, u) := goAppend h l (read h r)
  let h2 := goSortAsc h1 u
  let (h3, s1) := goUnique h2 u
  goUnique h3 s1

/-- `execUnionExprUnion` AFTER the repair: the union is built in a slice of its own -/
def unionNew (h : Heap) (l r : Slice) : Heap × Slice :=
  let (h0, u0) := goMake h (l.len + r.len)
  let (h1, u1) := goAppend h0 u0 (read h0 l)
  let (h2, u2) := goAppend h1 u1 (read h1 r)
  let h3 := goSortAsc h2 u2
  let (h4, s1) := goUnique h3 u2
  goUnique h4 s1

/-- `execFilterExprWithPredicate`: sort a COPY of the node-set into document order -/
def docOrderCopy (h : Heap) (s : Slice) : Heap × Slice :=
  let (h0, c0) := goMake h s.len
  let (h1, c1) := goAppend h0 c0 (read h0 s)
  let h2 := goSortAsc h1 c1
  let (h3, s1) := goUnique h2 c1
  goUnique h3 s1

/-- an axis selector: collect into a fresh slice (`make([]store.Cursor, 0)` + appends), then clean up -/
def selectInto (h : Heap) (collected : List Nat) : Heap × Slice :=
  let (h0, r0) := goMake h 0
  let (h1, r1) := goAppend h0 r0 collected
  let h2 := goSortAsc h1 r1
  goUnique h2 r1

/-- the operations a query performs on node-set slices -/
inductive Op where
  | union (l r : Slice)
  | docOrder (s : Slice)
  | select (collected : List Nat)
deriving Repr, Inhabited

def Op.run (h : Heap) : Op → Heap × Slice
  | .union l r => unionNew h l r
  | .docOrder s => docOrderCopy h s
  | .select c => selectInto h c

/-- a well-formed slice: inside its backing array -/
def Slice.valid (h : Heap) (s : Slice) : Prop :=
  s.arr < h.size ∧ s.len ≤ s.cap ∧ s.off + s.cap ≤ (h.arrD s.arr).size

end Effects
end Xsel
