/-
  Xsel/Parse.lean — a deterministic recursive-descent parser from token lists to `Expr`.

  Switches (`Cfg`):
  * `opNames`, `fnNames`, `trailDot` all `false`: the language of xsel's generated parser (keyword
    tokens `or and div mod` are never names, a function name consists of `ncname` tokens only, no `1.`);
    all `true`: XPath 1.0 (§3.7: the operator names are names wherever an operand is expected, a
    function name is any QName but a node type, `Digits '.'` is a Number) plus the library's two
    documented extensions (a function call as a location step, `*:name`).
  * `glue = true`: `QName`, `p:*`, `*:x` and `Number` must be written without white space inside (in
    XPath they are single tokens); `glue = false`: the parser's grammar, where they are token
    sequences (`a : b`, `1 . 5` parse; the library then fails at run time or looks up odd names, so
    the harness treats such inputs as outside the modelled domain).

  A `*` or an operator name is an operator exactly where an operator is expected, which is XPath's
  lexical disambiguation rule on every token string that parses; after the path `/` a token that can
  start a step continues the path (`/*` is a path, never `/` times something).
-/
import Xsel.Lex

namespace Xsel.Syntax

structure Cfg where
  /-- `or and div mod` are names where an operand is expected (XPath; xsel: always operators) -/
  opNames : Bool
  /-- any NCName may be (part of) a function name, node types excepted (XPath; xsel: `ncname` tokens only) -/
  fnNames : Bool
  /-- `Digits '.'` is a Number (XPath; xsel: no) -/
  trailDot : Bool
  /-- QName, `p:*`, `*:x`, Number are written without white space inside -/
  glue : Bool
deriving Repr, DecidableEq

abbrev Toks := List LTok
abbrev PRes := Option (Expr × Toks)

@[match_pattern] def P (x : Punct) (g : Bool) : LTok := ⟨.p x, g⟩
@[match_pattern] def K (k : Kw) (g : Bool) : LTok := ⟨.kw k, g⟩

/-- the name a token spells where a name is expected -/
def nameTok (c : Cfg) : Tok → Option Chars
  | .ncname s => some s
  | .kw k => if k.isOpName && !c.opNames then none else some k.chars
  | _ => none

/-- may this token be (part of) a function name? -/
def fnTok (c : Cfg) : Tok → Option Chars
  | .ncname s => some s
  | .kw k => if c.fnNames then some k.chars else none
  | _ => none

/-- adjacency requirement -/
def gl (c : Cfg) (g : Bool) : Bool := !c.glue || g

def dos (e : Expr) : Expr := .step e .descendantOrSelf .node .nil

def numOf (s : Chars) : Expr :=
  match parseUnsigned s with
  | some q => .num (Num.rnd q)
  | none => .num .nan

def mkVar (s : Chars) : Expr :=
  match s.dropWhile (· != ':') with
  | [] => .var none s
  | _ :: l => .var (some (s.takeWhile (· != ':'))) l

/-- binary operator `t` at precedence level `lvl` (0 = or … 5 = multiplicative) -/
def opAt : Nat → Tok → Option BinOp
  | 0, .kw .or => some .or
  | 1, .kw .and => some .and
  | 2, .p .eq => some (.cmp .eq)
  | 2, .p .ne => some (.cmp .ne)
  | 3, .p .lt => some (.cmp .lt)
  | 3, .p .le => some (.cmp .le)
  | 3, .p .gt => some (.cmp .gt)
  | 3, .p .ge => some (.cmp .ge)
  | 4, .p .plus => some .add
  | 4, .p .minus => some .sub
  | 5, .p .star => some .mul
  | 5, .kw .div => some .div
  | 5, .kw .mod => some .mod
  | _, _ => none

/-- `name '(' …`: the function name and the tokens after the opening parenthesis -/
def callStart (c : Cfg) (ts : Toks) : Option (Option Chars × Chars × Toks) :=
  match ts with
  | a :: P .lparen _ :: r =>
    (match a.tok with
     | .kw k => if k.isNodeType then none else (fnTok c a.tok).map (fun n => (none, n, r))
     | t => (fnTok c t).map (fun n => (none, n, r)))
  | a :: P .colon g1 :: b :: P .lparen _ :: r =>
    if gl c g1 && gl c b.glued then
      match fnTok c a.tok, fnTok c b.tok with
      | some p, some n => some (some p, n, r)
      | _, _ => none
    else none
  | _ => none

/-- NodeTest -/
def nodeTest (c : Cfg) (ts : Toks) : Option (NodeTest × Toks) :=
  match ts with
  | K .node _ :: P .lparen _ :: P .rparen _ :: r => some (.node, r)
  | K .text _ :: P .lparen _ :: P .rparen _ :: r => some (.text, r)
  | K .comment _ :: P .lparen _ :: P .rparen _ :: r => some (.comment, r)
  | K .pi _ :: P .lparen _ :: P .rparen _ :: r => some (.pi, r)
  | K .pi _ :: P .lparen _ :: ⟨.lit _ s, _⟩ :: P .rparen _ :: r => some (.piTarget s, r)
  | P .star _ :: r =>
    (match r with
     | P .colon g1 :: b :: r' =>
       (match nameTok c b.tok with
        | some n => if gl c g1 && gl c b.glued then some (.localAny n, r') else some (.any, r)
        | none => some (.any, r))
     | _ => some (.any, r))
  | a :: r =>
    (match nameTok c a.tok with
     | none => none
     | some n =>
       match r with
       | P .lparen _ :: _ => none
       | P .colon g1 :: b :: r' =>
         if gl c g1 && gl c b.glued then
           match b.tok with
           | .p .star => some (.nsAny n, r')
           | t => (match nameTok c t with
                   | some l => some (.qname n l, r')
                   | none => some (.name n, r))
         else some (.name n, r)
       | _ => some (.name n, r))
  | [] => none

/-- can a location step start here? (used after `/`) -/
def startsStep (c : Cfg) (ts : Toks) : Bool :=
  match ts with
  | P .dot _ :: _ | P .dotdot _ :: _ | P .at _ :: _ | P .star _ :: _ => true
  | a :: _ => (nameTok c a.tok).isSome
  | [] => false

/-- does a PrimaryExpr start here? -/
def startsPrimary (c : Cfg) (ts : Toks) : Bool :=
  match ts with
  | P .lparen _ :: _ => true
  | ⟨.lit _ _, _⟩ :: _ => true
  | ⟨.var _, _⟩ :: _ => true
  | ⟨.digits _, _⟩ :: _ => true
  | P .dot _ :: ⟨.digits _, g⟩ :: _ => gl c g
  | _ => (callStart c ts).isSome

/-- Number at the head of the input -/
def number (c : Cfg) (ts : Toks) : PRes :=
  match ts with
  | ⟨.digits d, _⟩ :: P .dot g1 :: ⟨.digits d2, g2⟩ :: r =>
    if gl c g1 && gl c g2 then some (numOf (d ++ '.' :: d2), r)
    else if c.trailDot && g1 then some (numOf d, ⟨.digits d2, g2⟩ :: r)
    else some (numOf d, P .dot g1 :: ⟨.digits d2, g2⟩ :: r)
  | ⟨.digits d, _⟩ :: P .dot g1 :: r =>
    if c.trailDot && g1 then some (numOf d, r) else some (numOf d, P .dot g1 :: r)
  | ⟨.digits d, _⟩ :: r => some (numOf d, r)
  | P .dot _ :: ⟨.digits d, g⟩ :: r => if gl c g then some (numOf ('.' :: d), r) else none
  | _ => none

mutual

/-- binary levels 0 (or) … 5 (multiplicative); level 6 is UnaryExpr -/
def pBin (c : Cfg) : Nat → Nat → Toks → PRes
  | 0, _, _ => none
  | f + 1, lvl, ts =>
    if lvl ≥ 6 then pUnary c f ts
    else match pBin c f (lvl + 1) ts with
      | some (l, r) => pBinRest c f lvl l r
      | none => none

def pBinRest (c : Cfg) : Nat → Nat → Expr → Toks → PRes
  | 0, _, _, _ => none
  | f + 1, lvl, lhs, ts =>
    match ts with
    | t :: r =>
      (match opAt lvl t.tok with
       | some op =>
         (match pBin c f (lvl + 1) r with
          | some (rhs, r') => pBinRest c f lvl (.bin op lhs rhs) r'
          | none => none)
       | none => some (lhs, ts))
    | [] => some (lhs, ts)

def pUnary (c : Cfg) : Nat → Toks → PRes
  | 0, _ => none
  | f + 1, ts =>
    match ts with
    | P .minus _ :: r => (match pUnary c f r with | some (e, r') => some (.neg e, r') | none => none)
    | _ =>
      match pPath c f ts with
      | some (l, r) => pUnionRest c f l r
      | none => none

def pUnionRest (c : Cfg) : Nat → Expr → Toks → PRes
  | 0, _, _ => none
  | f + 1, lhs, ts =>
    match ts with
    | P .pipe _ :: r =>
      (match pPath c f r with
       | some (rhs, r') => pUnionRest c f (.bin .union lhs rhs) r'
       | none => none)
    | _ => some (lhs, ts)

def pPath (c : Cfg) : Nat → Toks → PRes
  | 0, _ => none
  | f + 1, ts =>
    match ts with
    | P .slash _ :: r => if startsStep c r then pRel c f .root r else some (.root, r)
    | P .dslash _ :: r => pRel c f (dos .root) r
    | _ =>
      if startsPrimary c ts then
        match pPrimary c f ts with
        | some (e, r) =>
          (match pFilt c f e r with
           | some (e', P .slash _ :: r') => pRel c f e' r'
           | some (e', P .dslash _ :: r') => pRel c f (dos e') r'
           | other => other)
        | none => none
      else pRel c f .ctx ts

/-- predicates after a primary expression -/
def pFilt (c : Cfg) : Nat → Expr → Toks → PRes
  | 0, _, _ => none
  | f + 1, e, ts =>
    match ts with
    | P .lbrack _ :: r =>
      (match pBin c f 0 r with
       | some (p, P .rbrack _ :: r') => pFilt c f (.filt e p) r'
       | _ => none)
    | _ => some (e, ts)

def pPrimary (c : Cfg) : Nat → Toks → PRes
  | 0, _ => none
  | f + 1, ts =>
    match ts with
    | P .lparen _ :: r =>
      (match pBin c f 0 r with
       | some (e, P .rparen _ :: r') => some (e, r')
       | _ => none)
    | ⟨.lit _ s, _⟩ :: r => some (.lit s, r)
    | ⟨.var s, _⟩ :: r => some (mkVar s, r)
    | _ =>
      match callStart c ts with
      | some (pfx, name, r) =>
        (match pArgs c f r with
         | some (args, r') => some (.call .ctx pfx name args, r')
         | none => none)
      | none => number c ts

/-- RelativeLocationPath continuing `base` -/
def pRel (c : Cfg) : Nat → Expr → Toks → PRes
  | 0, _, _ => none
  | f + 1, base, ts =>
    match pStep c f base ts with
    | some (e, P .slash _ :: r) => pRel c f e r
    | some (e, P .dslash _ :: r) => pRel c f (dos e) r
    | other => other

def pStep (c : Cfg) : Nat → Expr → Toks → PRes
  | 0, _, _ => none
  | f + 1, base, ts =>
    match ts with
    | P .dot _ :: r => some (.step base .self .node .nil, r)
    | P .dotdot _ :: r => some (.step base .parent .node .nil, r)
    | P .at _ :: r =>
      (match nodeTest c r with
       | some (t, r') => (match pPreds c f r' with
                          | some (ps, r'') => some (.step base .attribute t ps, r'')
                          | none => none)
       | none => none)
    | K (.axis a) _ :: P .coloncolon _ :: r =>
      (match nodeTest c r with
       | some (t, r') => (match pPreds c f r' with
                          | some (ps, r'') => some (.step base a t ps, r'')
                          | none => none)
       | none => none)
    | _ =>
      match callStart c ts with
      | some (pfx, name, r) =>
        (match pArgs c f r with
         | some (args, r') => some (.call base pfx name args, r')
         | none => none)
      | none =>
        match nodeTest c ts with
        | some (t, r') => (match pPreds c f r' with
                           | some (ps, r'') => some (.step base .child t ps, r'')
                           | none => none)
        | none => none

def pPreds (c : Cfg) : Nat → Toks → Option (Exprs × Toks)
  | 0, _ => none
  | f + 1, ts =>
    match ts with
    | P .lbrack _ :: r =>
      (match pBin c f 0 r with
       | some (p, P .rbrack _ :: r') =>
         (match pPreds c f r' with
          | some (ps, r'') => some (.cons p ps, r'')
          | none => none)
       | _ => none)
    | _ => some (.nil, ts)

/-- the arguments after `name (` up to and including the closing parenthesis -/
def pArgs (c : Cfg) : Nat → Toks → Option (Exprs × Toks)
  | 0, _ => none
  | f + 1, ts =>
    match ts with
    | P .rparen _ :: r => some (.nil, r)
    | _ => pArgs1 c f ts

def pArgs1 (c : Cfg) : Nat → Toks → Option (Exprs × Toks)
  | 0, _ => none
  | f + 1, ts =>
    match pBin c f 0 ts with
    | some (e, P .comma _ :: r) =>
      (match pArgs1 c f r with
       | some (es, r') => some (.cons e es, r')
       | none => none)
    | some (e, P .rparen _ :: r) => some (.cons e .nil, r)
    | _ => none

end

def fuelFor (ts : Toks) : Nat := 20 * (ts.length + 2)

/-- the expression a token list spells, if any -/
def parseToks (c : Cfg) (ts : Toks) : Option Expr :=
  match pBin c (fuelFor ts) 0 ts with
  | some (e, []) => some e
  | _ => none

inductive ParseRes where
  | ok (e : Expr)
  | err
  | unsup

def cfgModel : Cfg := ⟨false, false, false, true⟩
def cfgModelLoose : Cfg := ⟨false, false, false, false⟩
def cfgSpec : Cfg := ⟨true, true, true, true⟩

/-- does the token list contain `/` directly followed (as a token) by `*`? -/
def hasSlashStar : Toks → Bool
  | P .slash _ :: P .star g :: r => true || hasSlashStar (P .star g :: r)
  | _ :: r => hasSlashStar r
  | [] => false

/-- xsel's reading of an expression string.  `unsup`: outside the modelled domain — the lexer's
    exclusions, a QName/Number written with white space inside (accepted by the parser's grammar,
    no XPath meaning), and strings that only parse by reading `/ *` as a product -/
def parseModel (cs : Chars) : ParseRes :=
  match lex lexModel cs with
  | .unsup => .unsup
  | .err => .err
  | .ok ts =>
    match parseToks cfgModel ts with
    | some e => .ok e
    | none =>
      if (parseToks cfgModelLoose ts).isSome then .unsup
      else if hasSlashStar ts then .unsup
      else .err

/-- XPath 1.0's reading (plus the documented extensions) -/
def parseSpec (cs : Chars) : ParseRes :=
  match lex lexSpec cs with
  | .unsup => .unsup
  | .err => .err
  | .ok ts =>
    match parseToks cfgSpec ts with
    | some e => .ok e
    | none => .err

/-! `.` as an expression is `self::node()`; the harness writes it as the context item -/
mutual
def normCtx : Expr → Expr
  | .ctx => .step .ctx .self .node .nil
  | .bin op l r => .bin op (normCtx l) (normCtx r)
  | .neg e => .neg (normCtx e)
  | .call b p n as => .call (normBase b) p n (normCtxs as)
  | .step b a t ps => .step (normBase b) a t (normCtxs ps)
  | .filt b p => .filt (normCtx b) (normCtx p)
  | e => e
def normBase : Expr → Expr
  | .ctx => .ctx
  | .bin op l r => .bin op (normCtx l) (normCtx r)
  | .neg e => .neg (normCtx e)
  | .call b p n as => .call (normBase b) p n (normCtxs as)
  | .step b a t ps => .step (normBase b) a t (normCtxs ps)
  | .filt b p => .filt (normCtx b) (normCtx p)
  | e => e
def normCtxs : Exprs → Exprs
  | .nil => .nil
  | .cons e es => .cons (normCtx e) (normCtxs es)
end

end Xsel.Syntax

namespace Xsel

/-! structural equality of expressions (the types are mutually inductive, so it is written out) -/
mutual
def Expr.same : Expr → Expr → Bool
  | .bin o l r, .bin o' l' r' => o == o' && Expr.same l l' && Expr.same r r'
  | .neg e, .neg e' => Expr.same e e'
  | .num n, .num n' => n == n'
  | .lit s, .lit s' => s == s'
  | .var p n, .var p' n' => p == p' && n == n'
  | .call b p n as, .call b' p' n' as' => Expr.same b b' && p == p' && n == n' && Exprs.same as as'
  | .root, .root => true
  | .ctx, .ctx => true
  | .step b a t ps, .step b' a' t' ps' => Expr.same b b' && a == a' && t == t' && Exprs.same ps ps'
  | .filt b p, .filt b' p' => Expr.same b b' && Expr.same p p'
  | _, _ => false
def Exprs.same : Exprs → Exprs → Bool
  | .nil, .nil => true
  | .cons e es, .cons e' es' => Expr.same e e' && Exprs.same es es'
  | _, _ => false
end

end Xsel
