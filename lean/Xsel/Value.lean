/-
  Xsel/Value.lean — the four XPath value types and the conversions of exec/result.go.
-/
import Xsel.SpecAxes

namespace Xsel

inductive Val where
  | nodes (l : List Nat)
  | num (n : Num)
  | str (s : Chars)
  | bool (b : Bool)
deriving Repr, DecidableEq, Inhabited

namespace Model
open Arena

/-- `getElementStringValue`: text of the element children, recursively, in child order -/
def elemStr (a : Arena) : Nat → Nat → Chars
  | 0, _ => []
  | f + 1, i =>
    (a.kids i).flatMap (fun k =>
      match a.kind k with
      | .elem => elemStr a f k
      | .text => (a.cell k).val
      | _ => [])

/-- `GetCursorString` -/
def strval (a : Arena) (i : Nat) : Chars :=
  match a.kind i with
  | .root | .elem => elemStr a a.size i
  | _ => (a.cell i).val

/-- the node of a node-set that comes first in document order (`NodeSet.String` after the repair) -/
def firstDoc : List Nat → Option Nat
  | [] => none
  | x :: xs => some (xs.foldl (fun m y => if y < m then y else m) x)

/-- `Result.String()`; `sv` is the string-value function for nodes -/
def toStr (sv : Nat → Chars) : Val → Chars
  | .nodes l => match firstDoc l with
    | none => []
    | some i => sv i
  | .num n => numToStr n
  | .str s => s
  | .bool b => if b then "true".toList else "false".toList

/-- `Result.Number()` -/
def toNum (sv : Nat → Chars) : Val → Num
  | .nodes l => strToNum (toStr sv (.nodes l))
  | .num n => n
  | .str s => strToNum s
  | .bool b => if b then Num.one else Num.zero

/-- `Result.Bool()` -/
def toBool : Val → Bool
  | .nodes l => !l.isEmpty
  | .num n => !(n.isZero || n.isNaN)
  | .str s => !s.isEmpty
  | .bool b => b

end Model

namespace Spec
open Arena

/-- §5: the string-value of a root or element node is the concatenation of the string-values of
    all text node descendants in document order; every other node has its own value. -/
def strval (a : Arena) (i : Nat) : Chars :=
  match a.kind i with
  | .root | .elem =>
    ((allNodes a).filter (fun j => a.kind j == .text && anc a i j)).flatMap (fun j => (a.cell j).val)
  | _ => (a.cell i).val

end Spec
end Xsel
