/-
  Xsel/Lex.lean — tokens of XPath expressions and the lexer.

  One lexer with two switches (`LexCfg`): `lexModel` follows xsel's generated lexer
  (grammar/lexer/lexer.go: a DFA that never backtracks, `unicode.IsSpace` white space, names that
  start with a letter or '#'); `lexSpec` is the lexical structure of XPath 1.0 §3.7 over the same
  token alphabet (white space is #x20 #x9 #xD #xA only, a name may start with '_').  Every token records whether it directly
  follows the previous one (`glued`): XPath's `QName`, `Number` and `*:x` are single tokens, in the
  parser's grammar they are sequences of tokens, and the parser needs the adjacency to tell `a:b`
  from `a : b`.

  Outside the modelled domain (the lexer answers `unsup`): characters above U+007F outside literals
  (the generated DFA uses `unicode.IsLetter` and a list of combining characters), literals that
  contain a backslash (the DFA treats it as an escape character; known finding), variable
  references with more than one colon.
-/
import Xsel.Expr

namespace Xsel.Syntax

/-- punctuation and operator tokens -/
inductive Punct where
  | slash | dslash | lbrack | rbrack | lparen | rparen | comma | at | coloncolon | colon
  | dot | dotdot | star | pipe | plus | minus | eq | ne | lt | le | gt | ge
deriving Repr, DecidableEq, Inhabited

/-- keyword tokens of the generated lexer: names that it never returns as `ncname` -/
inductive Kw where
  | or | and | div | mod
  | axis (a : Axis)
  | node | text | comment | pi
deriving Repr, DecidableEq, Inhabited

inductive Tok where
  | p (x : Punct)
  | kw (k : Kw)
  | ncname (s : Chars)
  | digits (s : Chars)
  /-- a literal without its quotes; `dq`: written with double quotes -/
  | lit (dq : Bool) (s : Chars)
  /-- a variable reference without the `$` -/
  | var (s : Chars)
deriving Repr, DecidableEq, Inhabited

/-- a token and whether it directly follows the previous token (no white space between them) -/
structure LTok where
  tok : Tok
  glued : Bool
deriving Repr, DecidableEq, Inhabited

def axisText : Axis → Chars
  | .child => ['c','h','i','l','d']
  | .descendant => ['d','e','s','c','e','n','d','a','n','t']
  | .parent => ['p','a','r','e','n','t']
  | .ancestor => ['a','n','c','e','s','t','o','r']
  | .followingSibling => ['f','o','l','l','o','w','i','n','g','-','s','i','b','l','i','n','g']
  | .precedingSibling => ['p','r','e','c','e','d','i','n','g','-','s','i','b','l','i','n','g']
  | .following => ['f','o','l','l','o','w','i','n','g']
  | .preceding => ['p','r','e','c','e','d','i','n','g']
  | .attribute => ['a','t','t','r','i','b','u','t','e']
  | .namespace => ['n','a','m','e','s','p','a','c','e']
  | .self => ['s','e','l','f']
  | .descendantOrSelf => ['d','e','s','c','e','n','d','a','n','t','-','o','r','-','s','e','l','f']
  | .ancestorOrSelf => ['a','n','c','e','s','t','o','r','-','o','r','-','s','e','l','f']

def Kw.chars : Kw → Chars
  | .or => ['o','r'] | .and => ['a','n','d'] | .div => ['d','i','v'] | .mod => ['m','o','d']
  | .axis a => axisText a
  | .node => ['n','o','d','e'] | .text => ['t','e','x','t']
  | .comment => ['c','o','m','m','e','n','t']
  | .pi => ['p','r','o','c','e','s','s','i','n','g','-','i','n','s','t','r','u','c','t','i','o','n']

def allAxes : List Axis :=
  [.child, .descendant, .parent, .ancestor, .followingSibling, .precedingSibling, .following,
   .preceding, .attribute, .namespace, .self, .descendantOrSelf, .ancestorOrSelf]

def allKw : List Kw := [.or, .and, .div, .mod] ++ allAxes.map Kw.axis ++ [.node, .text, .comment, .pi]

/-- the keyword spelled `s`, if any -/
def kwOf (s : Chars) : Option Kw := allKw.find? (fun k => k.chars == s)

/-! ### character classes (ASCII; everything above U+007F is outside the modelled domain) -/

def isAsciiLetter (c : Char) : Bool := ('a' ≤ c && c ≤ 'z') || ('A' ≤ c && c ≤ 'Z')

/-- the lexer's switches: `uscore` — a name may start with '_' (XPath; xsel's lexer: letter or '#');
    `xmlSpace` — only #x20 #x9 #xD #xA separate tokens (XPath; xsel's lexer: `unicode.IsSpace`) -/
structure LexCfg where
  uscore : Bool
  xmlSpace : Bool
  /-- XPath's lexical disambiguation of the operator names (§3.7), applied to the token list: `or and
      div mod` are operators only directly after a token that ends an operand, names everywhere
      else.  xsel does this in `grammar.disambiguateOperatorNames` after its generated lexer; the
      specification reaches the same reading in the parser (`Cfg.opNames`), by grammar position. -/
  opRule : Bool
  /-- XPath's rule "a name in front of `(` is a NodeType or a FunctionName", applied to the token list
      (`grammar.disambiguateFunctionNames`): an axis-name or node-type keyword that is the whole name,
      the local part or the prefix of a function name is a name.  The specification reaches the same
      reading in the parser (`Cfg.fnNames`). -/
  fnRule : Bool
  /-- `Digits '.'` is a Number: a `.` directly after digits and not directly before digits is dropped
      from the token list (`grammar.dropTrailingDots`); the specification does it in the parser
      (`Cfg.trailDot`). -/
  dotRule : Bool
deriving Repr, DecidableEq

def lexModel : LexCfg := ⟨false, true, true, true, true⟩
def lexSpec : LexCfg := ⟨true, true, false, false, false⟩

def isNameStart (lc : LexCfg) (c : Char) : Bool := isAsciiLetter c || c == '#' || (lc.uscore && c == '_')

def isNameChar (c : Char) : Bool :=
  isAsciiLetter c || isDigit c || c == '#' || c == '_' || c == '-' || c == '.'

/-- Go's `unicode.IsSpace` -/
def isGoSpace (c : Char) : Bool :=
  let n := c.toNat
  (9 ≤ n && n ≤ 13) || n == 0x20 || n == 0x85 || n == 0xA0 || n == 0x1680 ||
  (0x2000 ≤ n && n ≤ 0x200A) || n == 0x2028 || n == 0x2029 || n == 0x202F || n == 0x205F || n == 0x3000

def isSpace (lc : LexCfg) (c : Char) : Bool := if lc.xmlSpace then isXmlSpace c else isGoSpace c

inductive LexOne where
  | tok (t : Tok) (rest : Chars)
  | err
  | unsup
deriving Repr

/-- the body of a literal up to the closing quote `q` -/
def lexLiteral (q : Char) (dq : Bool) (cs : Chars) : LexOne :=
  let body := cs.takeWhile (· != q)
  match cs.dropWhile (· != q) with
  | [] => if body.contains '\\' then .unsup else .err          -- unterminated
  | _ :: rest => if body.contains '\\' then .unsup else .tok (.lit dq body) rest

/-- a name: maximal run of name characters starting at a name start character; `none` if the input
    does not start with one -/
def takeName (lc : LexCfg) (cs : Chars) : Option (Chars × Chars) :=
  match cs with
  | c :: _ => if isNameStart lc c then some (cs.takeWhile isNameChar, cs.dropWhile isNameChar) else none
  | [] => none

/-- a character the model does not classify: above U+007F and not white space for Go -/
def foreign (c : Char) : Bool := c.toNat ≥ 128 && !isGoSpace c

/-- one token at the start of non-empty input that does not start with white space -/
def lexOne (lc : LexCfg) (cs : Chars) : LexOne :=
  match cs with
  | [] => .err
  | '/' :: '/' :: r => .tok (.p .dslash) r
  | '/' :: r => .tok (.p .slash) r
  | '[' :: r => .tok (.p .lbrack) r
  | ']' :: r => .tok (.p .rbrack) r
  | '(' :: r => .tok (.p .lparen) r
  | ')' :: r => .tok (.p .rparen) r
  | ',' :: r => .tok (.p .comma) r
  | '@' :: r => .tok (.p .at) r
  | ':' :: ':' :: r => .tok (.p .coloncolon) r
  | ':' :: r => .tok (.p .colon) r
  | '.' :: '.' :: r => .tok (.p .dotdot) r
  | '.' :: r => .tok (.p .dot) r
  | '*' :: r => .tok (.p .star) r
  | '|' :: r => .tok (.p .pipe) r
  | '+' :: r => .tok (.p .plus) r
  | '-' :: r => .tok (.p .minus) r
  | '=' :: r => .tok (.p .eq) r
  | '!' :: '=' :: r => .tok (.p .ne) r
  | '<' :: '=' :: r => .tok (.p .le) r
  | '<' :: r => .tok (.p .lt) r
  | '>' :: '=' :: r => .tok (.p .ge) r
  | '>' :: r => .tok (.p .gt) r
  | '\'' :: r => lexLiteral '\'' false r
  | '"' :: r => lexLiteral '"' true r
  | '$' :: r =>
    match takeName lc r with
    | none => (match r with | c :: _ => if foreign c then .unsup else .err | [] => .err)
    | some (n1, r1) =>
      match r1 with
      | ':' :: r2 =>
        (match takeName lc r2 with
         | none => (match r2 with | c :: _ => if foreign c then .unsup else .err | [] => .err)
         | some (n2, r3) =>
           match r3 with
           | ':' :: _ => .unsup
           | c :: _ => if foreign c then .unsup else .tok (.var (n1 ++ ':' :: n2)) r3
           | [] => .tok (.var (n1 ++ ':' :: n2)) r3)
      | c :: _ => if foreign c then .unsup else .tok (.var n1) r1
      | [] => .tok (.var n1) r1
  | c :: r =>
    if isDigit c then .tok (.digits ((c :: r).takeWhile isDigit)) ((c :: r).dropWhile isDigit)
    else match takeName lc (c :: r) with
      | some (n, r1) =>
        (match r1 with
         | c1 :: _ => if foreign c1 then .unsup else
             (match kwOf n with | some k => .tok (.kw k) r1 | none => .tok (.ncname n) r1)
         | [] => (match kwOf n with | some k => .tok (.kw k) r1 | none => .tok (.ncname n) r1))
      | none => if foreign c then .unsup else .err

inductive LexRes where
  | ok (ts : List LTok)
  | err
  | unsup
deriving Repr

/-- the token list of `cs`; `glued` says whether the previous step consumed a token (not white space) -/
def lexAll (lc : LexCfg) : Nat → Bool → Chars → List LTok → LexRes
  | 0, _, _, _ => .err
  | fuel + 1, glued, cs, acc =>
    match cs with
    | [] => .ok acc.reverse
    | c :: r =>
      if isSpace lc c then lexAll lc fuel false r acc
      else match lexOne lc (c :: r) with
        | .tok t rest => lexAll lc fuel true rest (⟨t, glued⟩ :: acc)
        | .err => .err
        | .unsup => .unsup

/-- the token list as the generated lexer tokenises it (keywords are always keyword tokens) -/
def lexRaw (lc : LexCfg) (cs : Chars) : LexRes := lexAll lc (cs.length + 1) false cs []

def Kw.isOpName : Kw → Bool
  | .or | .and | .div | .mod => true
  | _ => false

/-- after this punctuation token an operand must follow (XPath §3.7: `@ :: ( [ ,` and the operators;
    the `:` inside a QName counts like `::`, because QNames are split into three tokens) -/
def Punct.wantsOperand : Punct → Bool
  | .at | .coloncolon | .colon | .lparen | .lbrack | .comma | .slash | .dslash | .pipe | .plus | .minus
  | .eq | .ne | .lt | .le | .gt | .ge => true
  | _ => false

/-- `grammar.disambiguateOperatorNames`: `exp` — an operand is expected here (no preceding token, or the
    preceding token is one of `@ :: ( [ ,` or an operator).  An operator name where an operand is
    expected is a name; a `*` there is a name test, elsewhere the multiplication operator. -/
def retagOps : Bool → List LTok → List LTok
  | _, [] => []
  | exp, t :: ts =>
    match t.tok with
    | .kw k =>
      if k.isOpName then
        (if exp then ⟨.ncname k.chars, t.glued⟩ else t) :: retagOps (!exp) ts
      else t :: retagOps false ts
    | .p .star => t :: retagOps (!exp) ts
    | .p x => t :: retagOps x.wantsOperand ts
    | _ => t :: retagOps false ts

def Kw.isNodeType : Kw → Bool
  | .node | .text | .comment | .pi => true
  | _ => false

def startsParen : List LTok → Bool
  | ⟨.p .lparen, _⟩ :: _ => true
  | _ => false

/-- a token that can be (part of) a name: `ncname`, an axis name or a node type -/
def Tok.nameLike : Tok → Bool
  | .ncname _ => true
  | .kw k => !k.isOpName
  | _ => false

/-- `name ':' <name> '('` follows: the current token is the prefix of a function name -/
def prefixOfCall : List LTok → Bool
  | ⟨.p .colon, _⟩ :: n :: ⟨.p .lparen, _⟩ :: _ => n.tok.nameLike
  | _ => false

/-- `grammar.disambiguateFunctionNames`; `pc` — the previous token is `:` -/
def retagFns : Bool → List LTok → List LTok
  | _, [] => []
  | pc, t :: ts =>
    (match t.tok with
     | .kw k =>
       if k.isOpName then t
       else if startsParen ts && (pc || !k.isNodeType) then ⟨.ncname k.chars, t.glued⟩
       else if prefixOfCall ts then ⟨.ncname k.chars, t.glued⟩
       else t
     | _ => t) :: retagFns (t.tok == .p .colon) ts

def isDigitsTok : Tok → Bool
  | .digits _ => true
  | _ => false

/-- do glued digits follow? -/
def gluedDigitsNext : List LTok → Bool
  | n :: _ => isDigitsTok n.tok && n.glued
  | [] => false

/-- the first token no longer directly follows its predecessor -/
def unglueHead : List LTok → List LTok
  | [] => []
  | t :: ts => ⟨t.tok, false⟩ :: ts

/-- `grammar.dropTrailingDots`.  `pi` — the previous token is `digits` that are an integer part (not
    the fraction digits of `.5` / `1.5`); `pdot` — the previous token is `.`.  The token after a dropped
    `.` no longer directly follows the token before it. -/
def dropTrailDots : Bool → Bool → List LTok → List LTok
  | _, _, [] => []
  | pi, pdot, t :: ts =>
    if pi && t.tok == .p .dot && t.glued && !gluedDigitsNext ts then
      (match ts with
       | [] => []
       | n :: r => ⟨n.tok, false⟩ :: dropTrailDots (isDigitsTok n.tok) (n.tok == .p .dot) r)
    else t :: dropTrailDots (isDigitsTok t.tok && !(pdot && t.glued)) (t.tok == .p .dot) ts

/-- the passes `grammar.newLexer` applies to the token list of the generated lexer -/
def LexCfg.post (lc : LexCfg) (ts : List LTok) : List LTok :=
  let a := if lc.opRule then retagOps true ts else ts
  let b := if lc.fnRule then retagFns false a else a
  if lc.dotRule then dropTrailDots false false b else b

def lex (lc : LexCfg) (cs : Chars) : LexRes :=
  match lexRaw lc cs with
  | .ok ts => .ok (lc.post ts)
  | r => r

/-! ### the terminal of the parser's grammar that a token is -/

def Punct.term : Punct → String
  | .slash => "/" | .dslash => "//" | .lbrack => "[" | .rbrack => "]" | .lparen => "(" | .rparen => ")"
  | .comma => "," | .at => "@" | .coloncolon => "::" | .colon => ":" | .dot => "." | .dotdot => ".."
  | .star => "*" | .pipe => "|" | .plus => "+" | .minus => "-" | .eq => "=" | .ne => "!="
  | .lt => "<" | .le => "<=" | .gt => ">" | .ge => ">="

def axisTerm : Axis → String
  | .child => "child" | .descendant => "descendant" | .parent => "parent" | .ancestor => "ancestor"
  | .followingSibling => "following-sibling" | .precedingSibling => "preceding-sibling"
  | .following => "following" | .preceding => "preceding" | .attribute => "attribute"
  | .namespace => "namespace" | .self => "self" | .descendantOrSelf => "descendant-or-self"
  | .ancestorOrSelf => "ancestor-or-self"

def Kw.term : Kw → String
  | .or => "or" | .and => "and" | .div => "div" | .mod => "mod"
  | .axis a => axisTerm a
  | .node => "node" | .text => "text" | .comment => "comment" | .pi => "processing-instruction"

def Tok.term : Tok → String
  | .p x => x.term
  | .kw k => k.term
  | .ncname _ => "ncname"
  | .digits _ => "digits"
  | .lit false _ => "singlequote"
  | .lit true _ => "doublequote"
  | .var _ => "variableReference"

end Xsel.Syntax
