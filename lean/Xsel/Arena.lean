/-
  Xsel/Arena.lean — the cursor tree as an index-based arena.

  A node reference is an index into the array; allocation order is document order
  (an element, then its namespace nodes, then its attributes, then its children and
  everything below them).  Cell 0 is the root and is its own parent, as in
  store/inmemory.go (`root.parent = &root`).  `pos` is the value of `Pos()`.
-/
import Xsel.NumStr

namespace Xsel

inductive Kind where
  | root | elem | attr | ns | text | comment | pi
deriving Repr, DecidableEq, Inhabited

structure Cell where
  kind : Kind
  /-- namespace URI of an element or attribute -/
  uri : Chars := []
  /-- local name of an element or attribute; target of a PI; prefix of a namespace node -/
  loc : Chars := []
  /-- attribute value, character data, comment text, PI data, namespace URI of a namespace node -/
  val : Chars := []
  pos : Nat := 0
  parent : Nat := 0
  nss : List Nat := []
  attrs : List Nat := []
  kids : List Nat := []
deriving Repr, DecidableEq, Inhabited

abbrev Arena := Array Cell

namespace Arena

def cell (a : Arena) (i : Nat) : Cell := a.getD i default
def kind (a : Arena) (i : Nat) : Kind := (a.cell i).kind
def parent (a : Arena) (i : Nat) : Nat := (a.cell i).parent
def kids (a : Arena) (i : Nat) : List Nat := (a.cell i).kids
def attrs (a : Arena) (i : Nat) : List Nat := (a.cell i).attrs
def nss (a : Arena) (i : Nat) : List Nat := (a.cell i).nss
def pos (a : Arena) (i : Nat) : Nat := (a.cell i).pos

/-- attribute and namespace nodes are not children of their parent -/
def isAttrOrNs (a : Arena) (i : Nat) : Bool :=
  match a.kind i with
  | .attr | .ns => true
  | _ => false

/-- nodes that take part in the child/descendant/following/preceding axes -/
def isTree (a : Arena) (i : Nat) : Bool := !a.isAttrOrNs i

end Arena

/-! ### sorted, duplicate-free node lists -/

/-- drop neighbours that are equal (the Go `unique`, which relies on the preceding sort) -/
def uniqueAdj : List Nat → List Nat
  | [] => []
  | [x] => [x]
  | x :: y :: rest => if x == y then uniqueAdj (y :: rest) else x :: uniqueAdj (y :: rest)

/-- insertion into a list sorted by `le` (structural, so that `decide` can evaluate examples) -/
def insertBy (le : Nat → Nat → Bool) (x : Nat) : List Nat → List Nat
  | [] => [x]
  | y :: t => if le x y then x :: y :: t else y :: insertBy le x t

def sortBy (le : Nat → Nat → Bool) : List Nat → List Nat
  | [] => []
  | x :: t => insertBy le x (sortBy le t)

/-- `sort.Sort(forwardSort(…))`: ascending by position (the order of equal keys is immaterial:
    equal positions are equal nodes and `uniqueAdj` keeps one) -/
def sortAsc (l : List Nat) : List Nat := sortBy (fun a b => a ≤ b) l
/-- `sort.Sort(backwardSort(…))` -/
def sortDesc (l : List Nat) : List Nat := sortBy (fun a b => b ≤ a) l

/-- `cleanupForwardAxis`: sort by position ascending, drop duplicates -/
def cleanupFwd (l : List Nat) : List Nat := uniqueAdj (sortAsc l)
/-- `cleanupBackwardAxis`: sort by position descending, drop duplicates -/
def cleanupBwd (l : List Nat) : List Nat := uniqueAdj (sortDesc l)

end Xsel
