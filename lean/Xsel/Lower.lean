/-
  Xsel/Lower.lean — the ABSTRACT SYNTAX a derivation tree denotes.

  `lower : PT → Option Expr` reads any derivation tree of the parser's grammar (`Xsel/Walk.lean`: one node
  per BSR node) as an expression of `Xsel/Expr.lean`: unit productions and parentheses disappear, the operator
  productions become `bin`, abbreviated forms become their expansions (`@` = attribute::, no axis = child::,
  `..` = parent::node(), `.` = self::node(), `//` = /descendant-or-self::node()/), names that are keyword
  tokens (`…ReservedNameConflict…`) become ordinary names, a function call inside a path becomes a call whose
  base is the path so far.  It is the inverse of `Deriv.derivTop` on canonical trees and it is total on the
  shapes the grammar produces (`none` on anything else).

  The driver compares `lower` of the forest the REAL parser built for a string with the model parser's
  reading of the same string (`Parse.parseModel`): for EVERY generated string — abbreviated, oddly spaced,
  redundantly parenthesised — the two must be the same tree.
-/
import Xsel.Walk

namespace Xsel.Walk.L2
open Xsel Xsel.Syntax Xsel.Walk

def binOpOfNode : String → Option BinOp
  | "OrExprOr" => some .or | "AndExprAnd" => some .and
  | "EqualityExprEqual" => some (.cmp .eq) | "EqualityExprNotEqual" => some (.cmp .ne)
  | "RelationalExprLessThan" => some (.cmp .lt) | "RelationalExprLessThanOrEqual" => some (.cmp .le)
  | "RelationalExprGreaterThan" => some (.cmp .gt) | "RelationalExprGreaterThanOrEqual" => some (.cmp .ge)
  | "AdditiveExprAdd" => some .add | "AdditiveExprSubtract" => some .sub
  | "MultiplicativeExprMultiply" => some .mul | "MultiplicativeExprDivide" => some .div
  | "MultiplicativeExprMod" => some .mod | "UnionExprUnion" => some .union
  | _ => none

/-- a keyword where a name is expected: the node `ReservedNameConflictResolver` -/
def lowRnc : PT → Option Chars
  | .nt "ReservedNameConflictResolver" (.cons (.tk (.kw k)) .nil) => some k.chars
  | _ => none

def lowNodeType : PT → Option NodeTest
  | .nt "NodeType" (.cons (.tk (.kw .node)) .nil) => some .node
  | .nt "NodeType" (.cons (.tk (.kw .text)) .nil) => some .text
  | .nt "NodeType" (.cons (.tk (.kw .comment)) .nil) => some .comment
  | .nt "NodeType" (.cons (.tk (.kw .pi)) .nil) => some .pi
  | _ => none

/-- a `NodeTest` node: one case per production of the grammar, children exactly as the production has them -/
def lowTest : PT → Option NodeTest
  | .nt "NodeTest" (.cons t .nil) =>
    match t with
    | .nt "NodeTestNodeTypeNoArgTest" (.cons ty (.cons (.tk (.p .lparen)) (.cons (.tk (.p .rparen)) .nil))) => lowNodeType ty
    | .nt "NodeTestProcInstTargetTest" (.cons (.tk (.kw .pi)) (.cons (.tk (.p .lparen))
        (.cons (.nt "Literal" (.cons (.tk (.lit _ s)) .nil)) (.cons (.tk (.p .rparen)) .nil)))) =>
      some (.piTarget s)
    | .nt "NameTestAnyElement" (.cons (.tk (.p .star)) .nil) => some .any
    | .nt "NameTestNamespaceAnyLocal" (.cons (.tk (.ncname p)) (.cons (.tk (.p .colon)) (.cons (.tk (.p .star)) .nil))) => some (.nsAny p)
    | .nt "NameTestNamespaceAnyLocalReservedNameConflict" (.cons r (.cons (.tk (.p .colon)) (.cons (.tk (.p .star)) .nil))) =>
      (lowRnc r).map .nsAny
    | .nt "NameTestLocalAnyNamespace" (.cons (.tk (.p .star)) (.cons (.tk (.p .colon)) (.cons (.tk (.ncname l)) .nil))) => some (.localAny l)
    | .nt "NameTestLocalAnyNamespaceReservedNameConflict" (.cons (.tk (.p .star)) (.cons (.tk (.p .colon)) (.cons r .nil))) =>
      (lowRnc r).map .localAny
    | .nt "NameTestQNameLocalOnly" (.cons (.tk (.ncname l)) .nil) => some (.name l)
    | .nt "NameTestQNameLocalOnlyReservedNameConflict" (.cons r .nil) => (lowRnc r).map .name
    | .nt "NameTestQNameNamespaceWithLocal" (.cons (.tk (.ncname p)) (.cons (.tk (.p .colon)) (.cons (.tk (.ncname l)) .nil))) =>
      some (.qname p l)
    | .nt "NameTestQNameNamespaceWithLocalReservedNameConflictNamespace" (.cons r (.cons (.tk (.p .colon)) (.cons (.tk (.ncname l)) .nil))) =>
      (lowRnc r).map (fun p => .qname p l)
    | .nt "NameTestQNameNamespaceWithLocalReservedNameConflictLocal" (.cons (.tk (.ncname p)) (.cons (.tk (.p .colon)) (.cons r .nil))) =>
      (lowRnc r).map (fun l => .qname p l)
    | .nt "NameTestQNameNamespaceWithLocalReservedNameConflictBoth" (.cons r1 (.cons (.tk (.p .colon)) (.cons r2 .nil))) =>
      (match lowRnc r1, lowRnc r2 with
       | some p, some l => some (.qname p l)
       | _, _ => none)
    | _ => none
  | _ => none

def lowAxis : PT → Option Axis
  | .nt "AxisSpecifier" (.cons (.nt "AbbreviatedAxisSpecifier" (.cons (.tk (.p .at)) .nil)) .nil) => some .attribute
  | .nt "AxisSpecifier" (.cons (.nt "AxisSpecifierWithAxisName" (.cons (.nt "AxisName" (.cons (.tk (.kw (.axis a))) .nil))
      (.cons (.tk (.p .coloncolon)) .nil))) .nil) => some a
  | _ => none

def lowQName : PT → Option (Option Chars × Chars)
  | .nt "QName" (.cons (.nt "QNameLocalOnly" (.cons (.tk (.ncname l)) .nil)) .nil) =>
    if noColon l then some (none, l) else none
  | .nt "QName" (.cons (.nt "QNameNamespaceWithLocal" (.cons (.tk (.ncname p)) (.cons (.tk (.p .colon)) (.cons (.tk (.ncname l)) .nil)))) .nil) =>
    if noColon p && noColon l then some (some p, l) else none
  | _ => none

/-- `Digits`, `'.' Digits`, `Digits '.' Digits` as the number `Parse.numOf` reads -/
def lowNumber : PT → Option Expr
  | .nt "Number" ks => some (numOf ks.text)
  | _ => none

def dosOf (e : Expr) : Expr := .step e .descendantOrSelf .node .nil

/-- the nonterminals with unit productions and no handler: the chain of expression levels -/
def unitNTs : List String :=
  ["OrExpr", "AndExpr", "EqualityExpr", "RelationalExpr", "AdditiveExpr", "MultiplicativeExpr", "UnaryExpr",
   "UnionExpr", "PathExpr", "FilterExpr", "PrimaryExpr", "LocationPath", "AbsoluteLocationPath"]

mutual

/-- an expression node (`OrExpr` … `PrimaryExpr`, `LocationPath`, …); a relative path starts at `.ctx` -/
def lowE : PT → Option Expr
  | .tk _ => none
  | .nt name ks =>
    match binOpOfNode name with
    | some op =>
      (match ks with
       | .cons l (.cons (.tk t) (.cons r .nil)) =>
         (match lowE l, lowE r with
          | some a, some b => if t == opTok op then some (.bin op a b) else none
          | _, _ => none)
       | _ => none)
    | none =>
      if name == "RelativeLocationPath" then lowRelKids ks .ctx
      else
      match name, ks with
      | "UnaryExprNegate", .cons (.tk (.p .minus)) (.cons u .nil) => (lowE u).map .neg
      | "Literal", .cons (.tk (.lit _ s)) .nil => some (.lit s)
      | "AbsoluteLocationPathOnly", .cons (.tk (.p .slash)) .nil => some .root
      | "Number", _ => (parseUnsigned ks.text).map (fun q => .num (Num.rnd q))
      | "VariableReference", .cons (.tk (.var s)) .nil => some (.var (splitQName s).1 (splitQName s).2)
      | "FunctionCall", .cons q (.cons (.tk (.p .lparen)) (.cons sg .nil)) =>
        (match lowQName q, lowArgs sg with
         | some (p, n), some as => some (.call .ctx p n as)
         | _, _ => none)
      | "PrimaryExprParenthetic", .cons (.tk (.p .lparen)) (.cons e (.cons (.tk (.p .rparen)) .nil)) => lowE e
      | "FilterExprWithPredicate", .cons f (.cons pr .nil) =>
        (match lowE f, lowPred pr with
         | some a, some b => some (.filt a b)
         | _, _ => none)
      | "PathExprFilterWithPath", .cons f (.cons (.tk (.p .slash)) (.cons r .nil)) =>
        (match lowE f with
         | some a => lowRel r a
         | none => none)
      | "PathExprFilterWithAbbreviatedPath", .cons f (.cons (.tk (.p .dslash)) (.cons r .nil)) =>
        (match lowE f with
         | some a => lowRel r (dosOf a)
         | none => none)
      | "AbsoluteLocationPathWithRelative", .cons (.tk (.p .slash)) (.cons r .nil) => lowRel r .root
      | "AbbreviatedAbsoluteLocationPath", .cons (.tk (.p .dslash)) (.cons r .nil) => lowRel r (dosOf .root)
      | _, .cons t .nil => if unitNTs.contains name then lowE t else none        -- unit productions
      | _, _ => none

/-- a `RelativeLocationPath` node continued from the expression `base` -/
def lowRel : PT → Expr → Option Expr
  | .nt "RelativeLocationPath" ks, base => lowRelKids ks base
  | _, _ => none

/-- the children of a `RelativeLocationPath` node -/
def lowRelKids : PTs → Expr → Option Expr
  | .cons t .nil, base =>
    match t with
    | .nt "RelativeLocationPathWithStep" (.cons r (.cons (.tk (.p .slash)) (.cons s .nil))) =>
      (match lowRel r base with
       | some b => lowStep s b
       | none => none)
    | .nt "AbbreviatedRelativeLocationPath" (.cons r (.cons (.tk (.p .dslash)) (.cons s .nil))) =>
      (match lowRel r base with
       | some b => lowStep s (dosOf b)
       | none => none)
    | s => lowStep s base
  | _, _ => none

/-- a `Step` node applied to the expression `base` -/
def lowStep : PT → Expr → Option Expr
  | .nt "Step" (.cons t .nil), base =>
    match t with
    | .nt "NodeTest" _ => (lowTest t).map (fun nt => .step base .child nt .nil)
    | .nt "NodeTestAndPredicate" (.cons nt (.cons sp .nil)) =>
      (match lowTest nt, lowPreds sp with
       | some a, some ps => some (.step base .child a ps)
       | _, _ => none)
    | .nt "StepWithAxisAndNodeTest" (.cons ax (.cons nt .nil)) =>
      (match lowAxis ax, lowTest nt with
       | some a, some b => some (.step base a b .nil)
       | _, _ => none)
    | .nt "StepWithAxisAndNodeTestAndPredicate" (.cons (.nt "StepWithAxisAndNodeTest" (.cons ax (.cons nt .nil))) (.cons sp .nil)) =>
      (match lowAxis ax, lowTest nt, lowPreds sp with
       | some a, some b, some ps => some (.step base a b ps)
       | _, _, _ => none)
    | .nt "AbbreviatedStep" (.cons (.nt "AbbreviatedStepSelf" (.cons (.tk (.p .dot)) .nil)) .nil) => some (.step base .self .node .nil)
    | .nt "AbbreviatedStep" (.cons (.nt "AbbreviatedStepParent" (.cons (.tk (.p .dotdot)) .nil)) .nil) => some (.step base .parent .node .nil)
    | .nt "FunctionCall" (.cons q (.cons (.tk (.p .lparen)) (.cons sg .nil))) =>
      (match lowQName q, lowArgs sg with
       | some (p, n), some as => some (.call base p n as)
       | _, _ => none)
    | _ => none
  | _, _ => none

/-- a `StepWithPredicate` node: one or more predicates -/
def lowPreds : PT → Option Exprs
  | .nt "StepWithPredicate" (.cons t .nil) =>
    match t with
    | .nt "StepWithPredicateWithAnotherPredicate" (.cons p (.cons rest .nil)) =>
      (match lowPred p, lowPreds rest with
       | some a, some ps => some (.cons a ps)
       | _, _ => none)
    | p =>
      (match lowPred p with
       | some a => some (.cons a .nil)
       | none => none)
  | _ => none

def lowPred : PT → Option Expr
  | .nt "Predicate" (.cons (.tk (.p .lbrack)) (.cons e (.cons (.tk (.p .rbrack)) .nil))) => lowE e
  | _ => none

/-- a `FunctionSignature` / `FunctionCallArgumentList` node: the arguments -/
def lowArgs : PT → Option Exprs
  | .nt "FunctionSignature" (.cons t .nil) =>
    match t with
    | .nt "FunctionSignatureNoArgs" (.cons (.tk (.p .rparen)) .nil) => some .nil
    | l => lowArgs l
  | .nt "FunctionCallArgumentList" (.cons t .nil) =>
    match t with
    | .nt "FunctionCallArgumentListEndArg" (.cons a (.cons (.tk (.p .rparen)) .nil)) =>
      (match lowE a with
       | some x => some (.cons x .nil)
       | none => none)
    | .nt "FunctionCallArgumentListArgWithNext" (.cons a (.cons (.tk (.p .comma)) (.cons rest .nil))) =>
      (match lowE a, lowArgs rest with
       | some x, some xs => some (.cons x xs)
       | _, _ => none)
    | _ => none
  | _ => none

end

/-- the expression a whole forest denotes -/
def lower (t : PT) : Option Expr := lowE t

end Xsel.Walk.L2
