/-
  Xsel/Walk.lean — MODEL of the evaluator's walk over the PARSE FOREST (exec/contextfn*.go).

  The Go evaluator does not work on an abstract syntax tree: `execContext` looks at the NAME of the
  nonterminal a BSR node was derived by, calls the handler registered for it in
  `exec.contextFunctions`, and a nonterminal WITHOUT a handler evaluates only its first nonterminal
  child (`execChildren`).  Handlers pick their children by position (`children[0]`, `children[1]`,
  the last one), read token texts (`GetString`, `GetTChildI(i).LiteralString()`), and thread one
  mutable `exprContext` — result, context position/size and the PRINCIPAL NODE TYPE set by the axis
  of the step being evaluated — through the nodes of a step.

  This file transcribes that layer: `PT` is a derivation tree of the parser's grammar (one node per
  BSR node, the first alternative of every child as the handlers take it), `walk` is `execContext`
  with the handler TABLE as a parameter (the table regenerated from the source on every run,
  `Generated.handlers`), one `match` arm per handler FUNCTION.  Every partial operation of the Go
  handlers (`children[1]` of a node with one child, `literal[1:len-1]`, a nil BSR) is the explicit
  outcome `WErr.panic`.

  `derivOf` maps an abstract syntax tree (`Expr`) to the derivation tree of its canonical spelling
  (`Render.raw`): the tree the GLL parser builds for that string.  `Proofs/Lemmas/Walk*.lean` prove
  that walking `derivOf e` with the handler table of the code gives exactly `eval Model.sem e`
  (so nothing of the tree is dropped, every handler sees the children the grammar gives it, and no
  handler panics), that `derivOf e` is a derivation of the REGENERATED production table, and that
  its yield is the canonical token list.  The driver command `walk` runs `walk` on the forest the
  harness exports from the real parser, so the transcription is compared with the Go handlers on
  real forests, and the real forest is compared with `derivOf` of the model's parse.
-/
import Xsel.Render
import Xsel.Eval

namespace Xsel.Walk
open Xsel Xsel.Syntax

mutual
inductive PT where
  /-- a nonterminal node: the name of its nonterminal and its children in the order of the production -/
  | nt (name : String) (kids : PTs)
  /-- a token -/
  | tk (t : Tok)
inductive PTs where
  | nil
  | cons (t : PT) (ts : PTs)
end

instance : Inhabited PT := ⟨.tk (.p .slash)⟩

def Punct.chars : Punct → Chars
  | .slash => ['/'] | .dslash => ['/', '/'] | .lbrack => ['['] | .rbrack => [']'] | .lparen => ['(']
  | .rparen => [')'] | .comma => [','] | .at => ['@'] | .coloncolon => [':', ':'] | .colon => [':']
  | .dot => ['.'] | .dotdot => ['.', '.'] | .star => ['*'] | .pipe => ['|'] | .plus => ['+']
  | .minus => ['-'] | .eq => ['='] | .ne => ['!', '='] | .lt => ['<'] | .le => ['<', '=']
  | .gt => ['>'] | .ge => ['>', '=']

/-- the characters of a token as `LiteralString()` / `GetString()` return them -/
def tokText : Tok → Chars
  | .p x => Punct.chars x
  | .kw k => k.chars
  | .ncname s => s
  | .digits s => s
  | .lit dq s => let q := if dq then '"' else '\''; q :: (s ++ [q])
  | .var s => '$' :: s

mutual
/-- `GetString()` of a node: the characters of its tokens (white space between the tokens of one
    node is outside the modelled domain) -/
def PT.text : PT → Chars
  | .nt _ ks => ks.text
  | .tk t => tokText t
def PTs.text : PTs → Chars
  | .nil => []
  | .cons t ts => t.text ++ ts.text
end

def PT.isNt : PT → Bool
  | .nt _ _ => true
  | .tk _ => false

def PT.name : PT → String
  | .nt n _ => n
  | .tk _ => ""

def PTs.toList : PTs → List PT
  | .nil => []
  | .cons t ts => t :: ts.toList

def PTs.ofList : List PT → PTs
  | [] => .nil
  | t :: ts => .cons t (PTs.ofList ts)

/-- `len(GetAllNTChildren())` -/
def PTs.ntCount : PTs → Nat
  | .nil => 0
  | .cons t ts => (if t.isNt then 1 else 0) + ts.ntCount

/-- the name of the last nonterminal child (`nextBsr.Label.Slot().NT` in `execStep`) -/
def PTs.lastNtName : PTs → Option String
  | .nil => none
  | .cons t ts =>
    match ts.lastNtName with
    | some n => some n
    | none => if t.isNt then some t.name else none

/-- the text of the `n`-th nonterminal child (`GetStringExtents(children[n]…)`) -/
def PTs.ntText : PTs → Nat → Option Chars
  | .nil, _ => none
  | .cons t ts, n =>
    if t.isNt then (match n with | 0 => some t.text | n + 1 => ts.ntText n) else ts.ntText n

/-- `GetTChildI(i).LiteralString()`: symbol `i` of the production must be a token -/
def PTs.tokText : PTs → Nat → Option Chars
  | .nil, _ => none
  | .cons t ts, 0 => (match t with | .tk k => some (Walk.tokText k) | .nt _ _ => none)
  | .cons _ ts, i + 1 => ts.tokText i

inductive WErr where
  /-- an error the handlers return -/
  | err (e : Err)
  /-- a Go panic inside a handler (recovered by `Exec` as "xpath query panic") -/
  | panic
deriving Repr, DecidableEq, Inhabited

/-- `exprContext`: the evaluation context plus the principal node type of the step being evaluated -/
structure WCtx where
  c : Ctx
  principal : Kind := .elem
deriving Inhabited

abbrev R := Except WErr WCtx

def liftE {α} : Except Err α → Except WErr α
  | .ok a => .ok a
  | .error e => .error (.err e)

def WCtx.res (w : WCtx) : Val := w.c.result
def WCtx.set (w : WCtx) (v : Val) : WCtx := { w with c := { w.c with result := v } }

def nodesOf (w : WCtx) : Except WErr (List Nat) :=
  match w.res with
  | .nodes l => .ok l
  | _ => .error (.err .notNodeSet)

/-- an axis whose principal node type is `k` (the node tests of `Xsel.NodeTest.apply` depend on the
    axis only through its principal node type) -/
def kindAxis : Kind → Axis
  | .attr => .attribute
  | .ns => .namespace
  | _ => .child

/-- a name test applied to the current result; a result that is not a node-set is left alone
    (`if !ok { return nil }`) -/
def nameTest (w : WCtx) (t : NodeTest) : R :=
  match w.res with
  | .nodes l =>
    match NodeTest.apply w.c.a w.c.env (kindAxis w.principal) t l with
    | .ok r => .ok (w.set (.nodes r))
    | .error e => .error (.err e)
  | _ =>
    -- the prefix is looked up before the result is inspected
    match NodeTest.apply w.c.a w.c.env (kindAxis w.principal) t [] with
    | .ok _ => .ok w
    | .error e => .error (.err e)

/-- `GetQName`: split at the colons; the first part is the prefix, the second the local name -/
def splitQName (s : Chars) : Option Chars × Chars :=
  match s.dropWhile (· != ':') with
  | [] => (none, s)
  | _ :: r => (some (s.takeWhile (· != ':')), r.takeWhile (· != ':'))

def axisOfText (s : Chars) : Option Axis := allAxes.find? (fun a => axisText a == s)

/-- keep the nodes for which `test` holds, threading errors (`execPredicate`'s loop) -/
def filterIdxW (test : Nat → Nat → Except WErr Bool) : List Nat → Nat → Except WErr (List Nat)
  | [], _ => .ok []
  | n :: t, i => do
    let keep ← test i n
    let rest ← filterIdxW test t (i + 1)
    pure (if keep then n :: rest else rest)

def concatMapW (f : Nat → Except WErr (List Nat)) : List Nat → Except WErr (List Nat)
  | [] => .ok []
  | n :: t => do
    let r ← f n
    let rest ← concatMapW f t
    pure (r ++ rest)

def lookupS (k : String) : List (String × String) → Option String
  | [] => none
  | (k', v) :: t => if k' == k then some v else lookupS k t

/-- the nonterminals under which `execStep` selects the children of the context nodes first (a step
    without an axis specifier) -/
def implicitChild (n : String) : Bool :=
  n == "NodeTest" || n == "NodeTestAndPredicate" || n == "NodeTestNodeTypeNoArgTest" ||
  n == "NodeTestProcInstTargetTest" || n == "NameTestAnyElement" || n == "NameTestNamespaceAnyLocal" ||
  n == "NameTestNamespaceAnyLocalReservedNameConflict" || n == "NameTestLocalAnyNamespace" ||
  n == "NameTestLocalAnyNamespaceReservedNameConflict" || n == "NameTestQNameNamespaceWithLocal" ||
  n == "NameTestQNameNamespaceWithLocalReservedNameConflictNamespace" ||
  n == "NameTestQNameNamespaceWithLocalReservedNameConflictLocal" ||
  n == "NameTestQNameNamespaceWithLocalReservedNameConflictBoth" || n == "NameTestQNameLocalOnly" ||
  n == "NameTestQNameLocalOnlyReservedNameConflict"

def cmpOfHandler : String → Option CmpOp
  | "execEqualityExprEqual" => some .eq
  | "execEqualityExprNotEqual" => some .ne
  | "execRelationalExprLessThan" => some .lt
  | "execRelationalExprLessThanOrEqual" => some .le
  | "execRelationalExprGreaterThan" => some .gt
  | "execRelationalExprGreaterThanOrEqual" => some .ge
  | _ => none

def arithOfHandler : String → Option BinOp
  | "execAdditiveExprAdd" => some .add
  | "execAdditiveExprSubtract" => some .sub
  | "execMultiplicativeExprMultiply" => some .mul
  | "execMultiplicativeExprDivide" => some .div
  | "execMultiplicativeExprMod" => some .mod
  | _ => none

/-- the value of a binary handler from the values of its two operands (`none`: not such a handler) -/
def binValue (sv : Nat → Chars) (h : String) (x y : Val) : Option (Except WErr Val) :=
  match h with
  | "execOrExprOr" => some (.ok (.bool (Model.toBool x || Model.toBool y)))
  | "execAndExprAnd" => some (.ok (.bool (Model.toBool x && Model.toBool y)))
  | "execUnionExprUnion" =>
    some (match x, y with
      | .nodes p, .nodes q => .ok (.nodes (cleanupFwd (p ++ q)))
      | _, _ => .error (.err .notNodeSet))
  | h =>
    match cmpOfHandler h with
    | some o => some (.ok (.bool (Model.compare sv o x y)))
    | none =>
      match arithOfHandler h with
      | some o => some (.ok (.num (arith o (Model.toNum sv x) (Model.toNum sv y))))
      | none => none

/-- `execFunctionCall` after the arguments have been evaluated -/
def callFn (w : WCtx) (fname : Chars) (vs : List Val) : R :=
  let (pfx, loc) := splitQName fname
  match resolve w.c.env pfx loc with
  | .error e => .error (.err e)
  | .ok q =>
    match lookupQ q w.c.env.fns with
    | some f => (liftE (userFn Model.sem w.c f vs)).map w.set
    | none =>
      if q.1.isEmpty then
        match builtin Model.sem w.c q.2 vs with
        | some r => (liftE r).map w.set
        | none => .error (.err .unknownFn)
      else .error (.err .unknownFn)

mutual

/-- `execContext` -/
def walk (tbl : List (String × String)) : PT → WCtx → R
  | .tk _, w => .ok w
  | .nt name kids, w =>
    let a := w.c.a
    let sv := Model.strval a
    match lookupS name tbl with
    | none => walkFirst tbl kids w                                   -- execChildren
    | some h =>
      match h with
      | "leftRightDependentResult" => do
        let w1 ← walkNth tbl kids 0 w
        walkNth tbl kids 1 w1
      | "execAbsoluteLocationPathOnly" => .ok (w.set (.nodes [0]))
      | "execAbsoluteLocationPathWithRelative" => walkFirst tbl kids (w.set (.nodes [0]))
      | "execAbbreviatedAbsoluteLocationPath" =>
        walkFirst tbl kids (w.set (.nodes (Model.axis a .descendantOrSelf [0])))
      | "execAbbreviatedRelativeLocationPath" => do
        let w1 ← walkNth tbl kids 0 w
        let s ← nodesOf w1
        walkNth tbl kids 1 (w1.set (.nodes (Model.axis a .descendantOrSelf s)))
      | "execStep" =>
        let w0 : WCtx := { w with principal := .elem }
        match kids.lastNtName with
        | none => .error .panic
        | some knt =>
          let body (x : WCtx) : R :=
            if implicitChild knt then
              match x.res with
              | .nodes s => walkLast tbl kids (x.set (.nodes (Model.axis a .child s)))
              | _ => .error (.err .notNodeSet)
            else walkLast tbl kids x
          let perNode : Option (List Nat) :=
            if knt == "NodeTestAndPredicate" || knt == "StepWithAxisAndNodeTestAndPredicate" then
              match w0.res with
              | .nodes s => if s.length > 1 then some s else none
              | _ => none
            else none
          match perNode with
          | some s => do
            let r ← concatMapW (fun n => do
              let x ← body (w0.set (.nodes [n]))
              nodesOf x) s
            pure (w0.set (.nodes (cleanupFwd r)))
          | none => body w0
      | "execFilterExprWithPredicate" => do
        let w1 ← walkNth tbl kids 0 w
        let w2 := match w1.res with
          | .nodes l => w1.set (.nodes (cleanupFwd l))
          | _ => w1
        walkNth tbl kids 1 w2
      | "execPredicate" => do
        let l ← nodesOf w
        let r ← filterIdxW (fun i n => do
          let x ← walkLast tbl kids { w with c := { w.c with result := .nodes [n], pos := i, size := l.length } }
          pure (predTruth (i + 1) x.res)) l 0
        pure (w.set (.nodes r))
      | "execNodeTestNodeTypeNoArgTest" =>
        -- the text before the last "(": the node type
        match w.res with
        | .nodes _ =>
          let ty := kids.text.takeWhile (· != '(')
          if !kids.text.contains '(' then .error .panic       -- nodeType[:-1]
          else if ty == "comment".toList then nameTest w .comment
          else if ty == "text".toList then nameTest w .text
          else if ty == "processing-instruction".toList then nameTest w .pi
          else if ty == "node".toList then .ok w
          else .ok (w.set (.nodes []))
        | _ => .ok w
      | "execNodeTestProcInstTargetTest" =>
        match w.res with
        | .nodes _ => do
          let x ← walkLast tbl kids w
          nameTest w (.piTarget (Model.toStr sv x.res))
        | _ => .ok w
      | "execNameTestAnyElement" => nameTest w .any
      | "execNameTestNamespaceAnyLocal" =>
        match kids.tokText 0 with
        | some p => nameTest w (.nsAny p)
        | none => .error .panic
      | "execNameTestNamespaceAnyLocalReservedNameConflict" =>
        match kids.ntText 0 with
        | some p => nameTest w (.nsAny p)
        | none => .error .panic
      | "execNameTestLocalAnyNamespace" =>
        match kids.tokText 2 with
        | some l => nameTest w (.localAny l)
        | none => .error .panic
      | "execNameTestLocalAnyNamespaceReservedNameConflict" =>
        match kids.ntText 0 with
        | some l => nameTest w (.localAny l)
        | none => .error .panic
      | "execNameTestQNameNamespaceWithLocal" =>
        match kids.tokText 0, kids.tokText 2 with
        | some p, some l => nameTest w (.qname p l)
        | _, _ => .error .panic
      | "execNameTestQNameNamespaceWithLocalReservedNameConflictNamespace" =>
        match kids.ntText 0, kids.tokText 2 with
        | some p, some l => nameTest w (.qname p l)
        | _, _ => .error .panic
      | "execNameTestQNameNamespaceWithLocalReservedNameConflictLocal" =>
        match kids.ntText 0, kids.tokText 0 with
        | some l, some p => nameTest w (.qname p l)
        | _, _ => .error .panic
      | "execNameTestQNameNamespaceWithLocalReservedNameConflictBoth" =>
        match kids.ntText 0, kids.ntText 1 with
        | some p, some l => nameTest w (.qname p l)
        | _, _ => .error .panic
      | "execNameTestQNameLocalOnly" =>
        match w.res with
        | .nodes _ => do
          let x ← nameTest w (.name kids.text)
          walkFirst tbl kids x
        | _ => .error (.err .notNodeSet)
      | "execAxisName" => do
        let s ← nodesOf w
        match axisOfText kids.text with
        | some .self | none => pure w
        | some ax =>
          let w' : WCtx :=
            match ax with
            | .attribute => { w with principal := .attr }
            | .namespace => { w with principal := .ns }
            | _ => w
          pure (w'.set (.nodes (Model.axis a ax s)))
      | "execAbbreviatedStepParent" => do
        let s ← nodesOf w
        pure (w.set (.nodes (Model.axis a .parent s)))
      | "execAbbreviatedStepSelf" => do
        let _ ← nodesOf w
        pure w
      | "execAbbreviatedAxisSpecifier" => do
        let s ← nodesOf w
        pure ({ w with principal := .attr }.set (.nodes (Model.axis a .attribute s)))
      | "execLiteral" =>
        let t := kids.text
        if t.length < 2 then .error .panic else .ok (w.set (.str ((t.drop 1).dropLast)))
      | "execNumber" =>
        match parseUnsigned kids.text with
        | some q => .ok (w.set (.num (Num.rnd q)))
        | none => .error (.err .badArg)
      | "execVariableReference" =>
        let t := kids.text
        let t := match t with | '$' :: r => r | r => r
        let (pfx, loc) := splitQName t
        match resolve w.c.env pfx loc with
        | .error e => .error (.err e)
        | .ok q =>
          match lookupQ q w.c.env.vars with
          | some v => .ok (w.set v)
          | none => .error (.err .unboundVar)
      | "execUnaryExprNegate" => do
        let x ← walkLast tbl kids w
        pure (w.set (.num (Num.neg (Model.toNum sv x.res))))
      | "execFunctionCall" =>
        if kids.ntCount < 2 then .error .panic
        else do
          let vs ← walkArgsNth tbl kids 1 w
          match kids.ntText 0 with
          | some fname => callFn w fname vs
          | none => .error .panic
      | h => do
        -- the binary operators: both operands in copies of the context
        let l ← walkNth tbl kids 0 w
        let r ← walkNth tbl kids 1 w
        match binValue sv h l.res r.res with
        | some v => (v.map w.set)
        | none => .error .panic      -- a handler this model does not know

/-- evaluate the `n`-th nonterminal child (`children[n]`; a Go panic when there is none) -/
def walkNth (tbl : List (String × String)) : PTs → Nat → WCtx → R
  | .nil, _, _ => .error .panic
  | .cons t ts, n, w =>
    if t.isNt then (match n with | 0 => walk tbl t w | n + 1 => walkNth tbl ts n w)
    else walkNth tbl ts n w

/-- `execChildren`: the first nonterminal child; nothing when there is none -/
def walkFirst (tbl : List (String × String)) : PTs → WCtx → R
  | .nil, w => .ok w
  | .cons t ts, w => if t.isNt then walk tbl t w else walkFirst tbl ts w

/-- the LAST nonterminal child (`leftOnlyIndependentResult`, `execStep`); a nil BSR otherwise -/
def walkLast (tbl : List (String × String)) : PTs → WCtx → R
  | .nil, _ => .error .panic
  | .cons t ts, w => if ts.ntCount == 0 then (if t.isNt then walk tbl t w else .error .panic) else walkLast tbl ts w

/-- `gatherFunctionArgs` and the evaluation of the gathered arguments, each in a copy of the context -/
def walkArgs (tbl : List (String × String)) : PT → WCtx → Except WErr (List Val)
  | .tk _, _ => .ok []
  | .nt name kids, w =>
    let n := kids.ntCount
    if (name == "FunctionSignature" || name == "FunctionCallArgumentList") && n == 1 then
      walkArgsNth tbl kids 0 w
    else if n == 0 then .ok []
    else do
      let x ← walkNth tbl kids 0 w
      if n == 2 then do
        let vs ← walkArgsNth tbl kids 1 w
        pure (x.res :: vs)
      else pure [x.res]

def walkArgsNth (tbl : List (String × String)) : PTs → Nat → WCtx → Except WErr (List Val)
  | .nil, _, _ => .error .panic
  | .cons t ts, n, w =>
    if t.isNt then (match n with | 0 => walkArgs tbl t w | n + 1 => walkArgsNth tbl ts n w)
    else walkArgsNth tbl ts n w

end

/-- `exec.Exec` on a parse tree: context node `start`, position 1, size 1; a panic is recovered -/
def run (tbl : List (String × String)) (a : Arena) (env : Env) (start : Nat) (t : PT) : Except WErr Val :=
  (walk tbl t { c := { a := a, env := env, result := .nodes [start], pos := 0, size := 1 } }).map WCtx.res

end Xsel.Walk
