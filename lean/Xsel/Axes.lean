/-
  Xsel/Axes.lean — MODEL of exec/axisselectors.go (the thirteen axis selectors) over an arena.

  Each `select…` takes the whole context node-set (set-at-a-time, as the Go code does),
  collects nodes by walking Parent()/Children()/Attributes()/Namespaces(), and finishes with
  `cleanupForwardAxis` / `cleanupBackwardAxis` (sort by position, drop duplicates).
  Recursive walks carry a fuel argument (the arena size bounds every walk in a well-formed arena).
-/
import Xsel.Arena

namespace Xsel

inductive Axis where
  | child | descendant | parent | ancestor | followingSibling | precedingSibling
  | following | preceding | attribute | namespace | self | descendantOrSelf | ancestorOrSelf
deriving Repr, DecidableEq, Inhabited

namespace Axis
def isReverse : Axis → Bool
  | .ancestor | .ancestorOrSelf | .preceding | .precedingSibling => true
  | _ => false
end Axis

namespace Model
open Arena

/-- `appendAncestors`: the cursor, then its parent, … up to and including the root -/
def ancestorsOrSelf (a : Arena) : Nat → Nat → List Nat
  | 0, c => [c]
  | f + 1, c => if c == 0 then [c] else c :: ancestorsOrSelf a f (a.parent c)

/-- `appendDescendant`: descendants in pre-order, the cursor itself excluded -/
def descendants (a : Arena) : Nat → Nat → List Nat
  | 0, _ => []
  | f + 1, c => (a.kids c).flatMap (fun k => k :: descendants a f k)

/-- the children of `l` that come after the first occurrence of `c` -/
def after (c : Nat) : List Nat → List Nat
  | [] => []
  | x :: xs => if x == c then xs else after c xs

/-- the children of `l` that come before the first occurrence of `c` -/
def before (c : Nat) : List Nat → List Nat
  | [] => []
  | x :: xs => if x == c then [] else x :: before c xs

/-- `appendFollowing` -/
def followingOf (a : Arena) : Nat → Nat → List Nat
  | 0, _ => []
  | f + 1, c =>
    if c == 0 then []
    else
      let p := a.parent c
      if a.isAttrOrNs c then
        descendants a a.size p ++ followingOf a f p
      else
        (after c (a.kids p)).flatMap (fun k => k :: descendants a a.size k) ++ followingOf a f p

/-- `appendPreceding` -/
def precedingOf (a : Arena) : Nat → Nat → List Nat
  | 0, _ => []
  | f + 1, c =>
    if c == 0 then []
    else
      let p := a.parent c
      if a.isAttrOrNs c then precedingOf a f p
      else
        (before c (a.kids p)).reverse.flatMap (fun k => k :: descendants a a.size k) ++ precedingOf a f p

/-- `appendFollowingSibling` -/
def followingSiblingOf (a : Arena) (c : Nat) : List Nat :=
  if c == 0 || a.isAttrOrNs c then [] else after c (a.kids (a.parent c))

/-- `appendPrecedingSibling` -/
def precedingSiblingOf (a : Arena) (c : Nat) : List Nat :=
  if c == 0 || a.isAttrOrNs c then [] else before c (a.kids (a.parent c))

/-- `execAxisName` dispatch: the axis applied to a whole node-set -/
def axis (a : Arena) (ax : Axis) (s : List Nat) : List Nat :=
  let n := a.size
  match ax with
  | .child => cleanupFwd (s.flatMap a.kids)
  | .attribute => cleanupFwd (s.flatMap a.attrs)
  | .namespace => cleanupFwd (s.flatMap a.nss)
  | .parent => cleanupFwd ((s.filter (· != 0)).map a.parent)
  | .ancestor => cleanupBwd ((s.filter (· != 0)).flatMap (fun c => ancestorsOrSelf a n (a.parent c)))
  | .ancestorOrSelf => cleanupBwd (s.flatMap (ancestorsOrSelf a n))
  | .descendant => cleanupFwd (s.flatMap (descendants a n))
  | .descendantOrSelf => cleanupFwd (s.flatMap (fun c => c :: descendants a n c))
  | .following => cleanupFwd (s.flatMap (followingOf a n))
  | .followingSibling => cleanupFwd (s.flatMap (followingSiblingOf a))
  | .preceding => cleanupBwd (s.flatMap (precedingOf a n))
  | .precedingSibling => cleanupBwd (s.flatMap (precedingSiblingOf a))
  | .self => s

end Model
end Xsel
